(* Extraction of the Python-rewrite model (depends on gen/SrcPython.v); kept apart from the core
   model so that a change the wrapper translator cannot read does not take the core driver down. *)
From Coq Require Import Extraction ExtrOcamlBasic.
From Grex Require Import Base.Str Model.PyRewrite.
Extraction Language OCaml.
Extraction "pymodel.ml" py_rewrite.
