(* Range tables and a decision procedure for pointwise equality of boolean combinations of
   range-table memberships, valid for ALL of N: membership is constant between consecutive
   critical points, so agreement on the critical points (and on 0) implies agreement
   everywhere.  No enumeration of code points, no sortedness assumption. *)
From Coq Require Import List NArith Bool Lia.
Import ListNotations.
Open Scope N_scope.

Definition ranges := list (N * N).
Definition in_range (c : N) (r : N * N) : bool := (fst r <=? c) && (c <=? snd r).
Definition mem (rs : ranges) (c : N) : bool := existsb (in_range c) rs.

Definition crit (rs : ranges) : list N := flat_map (fun r => [fst r; snd r + 1]) rs.

(* largest element of l that is <= c, starting from a default d <= c *)
Fixpoint floor_in (l : list N) (d c : N) : N :=
  match l with
  | [] => d
  | p :: t => if (p <=? c) && (d <=? p) then floor_in t p c else floor_in t d c
  end.

Lemma floor_in_le l : forall d c, d <= c -> floor_in l d c <= c.
Proof.
  induction l as [|p t IH]; intros d c Hd; cbn [floor_in]; [exact Hd|].
  destruct ((p <=? c) && (d <=? p)) eqn:E.
  - apply andb_true_iff in E as [E1 _]. apply N.leb_le in E1. apply IH; exact E1.
  - apply IH; exact Hd.
Qed.

Lemma floor_in_ge l : forall d c, d <= floor_in l d c.
Proof.
  induction l as [|p t IH]; intros d c; cbn [floor_in]; [lia|].
  destruct ((p <=? c) && (d <=? p)) eqn:E.
  - apply andb_true_iff in E as [_ E2]. apply N.leb_le in E2.
    specialize (IH p c). lia.
  - apply IH.
Qed.

Lemma floor_in_max l : forall d c p, In p l -> p <= c -> p <= floor_in l d c.
Proof.
  induction l as [|q t IH]; intros d c p Hin Hp; [destruct Hin|].
  cbn [floor_in]. destruct Hin as [->|Hin].
  - destruct ((p <=? c) && (d <=? p)) eqn:E.
    + apply floor_in_ge.
    + apply andb_false_iff in E as [E|E].
      * apply N.leb_gt in E. lia.
      * apply N.leb_gt in E. pose proof (floor_in_ge t d c). lia.
  - destruct ((q <=? c) && (d <=? q)); apply IH; assumption.
Qed.

Lemma floor_in_mem l d c : floor_in l d c = d \/ In (floor_in l d c) l.
Proof.
  revert d; induction l as [|p t IH]; intros d; cbn [floor_in]; [left; reflexivity|].
  destruct ((p <=? c) && (d <=? p)).
  - destruct (IH p) as [->|H]; right; [left; reflexivity | right; exact H].
  - destruct (IH d) as [H|H]; [left; exact H | right; right; exact H].
Qed.

(* membership is constant between consecutive critical points *)
Lemma mem_floor (rs : ranges) (cs : list N) (c : N) :
  incl (crit rs) cs -> mem rs c = mem rs (floor_in cs 0 c).
Proof.
  intros Hincl. set (p := floor_in cs 0 c).
  assert (Hpc : p <= c) by (apply floor_in_le; lia).
  unfold mem. induction rs as [|[a b] t IH]; [reflexivity|].
  cbn [existsb]. f_equal.
  - unfold in_range; cbn [fst snd].
    assert (Ha : In a cs) by (apply Hincl; cbn; left; reflexivity).
    assert (Hb : In (b + 1) cs) by (apply Hincl; cbn; right; left; reflexivity).
    pose proof (floor_in_max cs 0 c a Ha) as Ma.
    pose proof (floor_in_max cs 0 c (b + 1) Hb) as Mb. fold p in Ma, Mb.
    destruct (a <=? c) eqn:E1, (c <=? b) eqn:E2, (a <=? p) eqn:E3, (p <=? b) eqn:E4;
      try reflexivity;
      repeat match goal with
             | H : (_ <=? _) = true |- _ => apply N.leb_le in H
             | H : (_ <=? _) = false |- _ => apply N.leb_gt in H
             end; lia.
  - apply IH. intros x Hx. apply Hincl. cbn. right; right; exact Hx.
Qed.

(* boolean combinations of table memberships *)
Inductive bexp :=
| BMem (rs : ranges)
| BNot (a : bexp)
| BAnd (a b : bexp)
| BOr (a b : bexp)
| BConst (v : bool).

Fixpoint beval (e : bexp) (c : N) : bool :=
  match e with
  | BMem rs => mem rs c
  | BNot a => negb (beval a c)
  | BAnd a b => beval a c && beval b c
  | BOr a b => beval a c || beval b c
  | BConst v => v
  end.

Fixpoint bcrit (e : bexp) : list N :=
  match e with
  | BMem rs => crit rs
  | BNot a => bcrit a
  | BAnd a b | BOr a b => bcrit a ++ bcrit b
  | BConst _ => []
  end.

Lemma beval_floor (e : bexp) (cs : list N) (c : N) :
  incl (bcrit e) cs -> beval e c = beval e (floor_in cs 0 c).
Proof.
  induction e as [rs|a IHa|a IHa b IHb|a IHa b IHb|v]; cbn [beval bcrit]; intros H.
  - apply mem_floor; exact H.
  - f_equal; apply IHa; exact H.
  - rewrite IHa, IHb; [reflexivity| |]; intros x Hx; apply H; apply in_or_app; [right|left]; exact Hx.
  - rewrite IHa, IHb; [reflexivity| |]; intros x Hx; apply H; apply in_or_app; [right|left]; exact Hx.
  - reflexivity.
Qed.

Definition agree_on (e1 e2 : bexp) (l : list N) : bool :=
  forallb (fun p => Bool.eqb (beval e1 p) (beval e2 p)) l.

Definition sweep (e1 e2 : bexp) : bool := agree_on e1 e2 (0 :: bcrit e1 ++ bcrit e2).

Theorem sweep_sound (e1 e2 : bexp) :
  sweep e1 e2 = true -> forall c, beval e1 c = beval e2 c.
Proof.
  intros H c. set (cs := bcrit e1 ++ bcrit e2).
  rewrite (beval_floor e1 cs c) by (apply incl_appl, incl_refl).
  rewrite (beval_floor e2 cs c) by (apply incl_appr, incl_refl).
  unfold sweep, agree_on in H. rewrite forallb_forall in H.
  destruct (floor_in_mem cs 0 c) as [E|E].
  - rewrite E. apply eqb_prop. apply H. left; reflexivity.
  - apply eqb_prop. apply H. right; exact E.
Qed.

(* witness for the search when the sweep fails: a code point on which the two sides differ *)
Definition first_diff (e1 e2 : bexp) : option N :=
  find (fun p => negb (Bool.eqb (beval e1 p) (beval e2 p))) (0 :: bcrit e1 ++ bcrit e2).

(* Unicode scalar values *)
Definition scalar_ranges : ranges := [(0, 55295); (57344, 1114111)].
Definition is_scalar (c : N) : bool := mem scalar_ranges c.
