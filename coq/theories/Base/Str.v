(* Code points, strings, orders.  Strings are lists of code points (N). *)
From Coq Require Export List NArith Bool Arith Lia.
Export ListNotations.

Definition cp := N.
Definition str := list cp.

Fixpoint str_eqb (a b : str) : bool :=
  match a, b with
  | [], [] => true
  | x :: a', y :: b' => N.eqb x y && str_eqb a' b'
  | _, _ => false
  end.

(* Rust's Ord on String is byte-wise lexicographic order of the UTF-8 encoding, which is
   code point lexicographic order (UTF-8 preserves code point order). *)
Fixpoint str_cmp (a b : str) : comparison :=
  match a, b with
  | [], [] => Eq
  | [], _ :: _ => Lt
  | _ :: _, [] => Gt
  | x :: a', y :: b' =>
      match N.compare x y with
      | Eq => str_cmp a' b'
      | c => c
      end
  end.

Definition utf8_len1 (c : cp) : nat :=
  if N.ltb c 128 then 1 else if N.ltb c 2048 then 2 else if N.ltb c 65536 then 3 else 4.

Definition utf8_len (s : str) : nat := fold_right (fun c n => utf8_len1 c + n) 0 s.

(* generic list helpers *)
Fixpoint list_eqb {A} (eqb : A -> A -> bool) (a b : list A) : bool :=
  match a, b with
  | [], [] => true
  | x :: a', y :: b' => eqb x y && list_eqb eqb a' b'
  | _, _ => false
  end.

Fixpoint list_cmp {A} (cmp : A -> A -> comparison) (a b : list A) : comparison :=
  match a, b with
  | [], [] => Eq
  | [], _ :: _ => Lt
  | _ :: _, [] => Gt
  | x :: a', y :: b' =>
      match cmp x y with
      | Eq => list_cmp cmp a' b'
      | c => c
      end
  end.

Definition strs_eqb : list str -> list str -> bool := list_eqb str_eqb.

(* ASCII constants used throughout *)
Definition c_backslash : cp := 92%N.
Definition c_nl : cp := 10%N.
Definition c_cr : cp := 13%N.
Definition c_tab : cp := 9%N.
Definition c_space : cp := 32%N.

Fixpoint mem_cp (c : cp) (l : list cp) : bool :=
  match l with
  | [] => false
  | x :: l' => N.eqb c x || mem_cp c l'
  end.

(* decimal rendering of a number, as code points *)
Fixpoint dec_digits (fuel : nat) (n : N) (acc : str) : str :=
  match fuel with
  | O => acc
  | S f =>
      let d := N.modulo n 10 in
      let q := N.div n 10 in
      let acc' := (48 + d)%N :: acc in
      if N.eqb q 0 then acc' else dec_digits f q acc'
  end.
Definition dec_of_N (n : N) : str := dec_digits (S (N.to_nat (N.log2 n))) n [].

(* lower-case hexadecimal rendering *)
Definition hex_digit (d : N) : cp := if N.ltb d 10 then (48 + d)%N else (87 + d)%N.
Fixpoint hex_digits (fuel : nat) (n : N) (acc : str) : str :=
  match fuel with
  | O => acc
  | S f =>
      let d := N.modulo n 16 in
      let q := N.div n 16 in
      let acc' := hex_digit d :: acc in
      if N.eqb q 0 then acc' else hex_digits f q acc'
  end.
Definition hex_of_N (n : N) : str := hex_digits (S (N.to_nat (N.log2 n))) n [].

(* replace every occurrence of code point c by the string r *)
Definition replace_cp (c : cp) (r : str) (s : str) : str :=
  flat_map (fun x => if N.eqb x c then r else [x]) s.

Fixpoint count_cp (c : cp) (s : str) : nat :=
  match s with
  | [] => 0
  | x :: s' => (if N.eqb x c then 1 else 0) + count_cp c s'
  end.

Fixpoint starts_with (p s : str) : bool :=
  match p, s with
  | [], _ => true
  | x :: p', y :: s' => N.eqb x y && starts_with p' s'
  | _ :: _, [] => false
  end.

Fixpoint last_cp (s : str) : option cp :=
  match s with
  | [] => None
  | [x] => Some x
  | _ :: s' => last_cp s'
  end.

(* join strings with a separator *)
Fixpoint join (sep : str) (l : list str) : str :=
  match l with
  | [] => []
  | [x] => x
  | x :: l' => x ++ sep ++ join sep l'
  end.

Definition str_of_ascii_list (l : list N) : str := l.
