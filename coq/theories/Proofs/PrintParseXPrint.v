(* Printing theorem, verbose mode, part 4: the printer.  The verbose output (before indentation) is
   a verbose rendering (XS) of the non-verbose output of the same expression: newlines are only
   inserted between tokens, and every content whitespace / '#' is rewritten to an escape. *)
From Grex Require Import Base.Str Base.Ranges Model.Config Model.Cluster Model.Dfa Model.Expr Model.Print.
From Grex Require Import Engine.Syntax Engine.Parse.
From Grex Require Import Proofs.Lang Proofs.ExprLang Proofs.EscapeProps.
From Grex Require Import Proofs.PrintParseNum Proofs.PrintParseStep Proofs.PrintParseDefs
  Proofs.PrintParseEsc Proofs.PrintParseLit Proofs.PrintParseCC Proofs.PrintParseExpr Proofs.PrintParse.
From Grex Require Import Proofs.VerboseWs Proofs.PrintParseXTok.
From GrexGen Require Import OracleTables SrcConsts.
Local Open Scope N_scope.

(* the same configuration without the verbose flag *)
Definition unv (c : cfg) : cfg :=
  mkCfg (min_rep c) (min_len c) (f_digit c) (f_non_digit c) (f_space c) (f_non_space c)
        (f_word c) (f_non_word c) (f_rep c) (f_ci c) (f_cap c) (f_esc c) (f_sur c)
        false (f_no_start c) (f_no_end c) (f_colour c).

(* the rewrites applied to the whole string in verbose mode, before indentation *)
Definition V (s : str) : str := verbose_rewrite (vf s).

Lemma V_flat : forall s, V s = flat_map vimg (vf s).
Proof. intros s. apply verbose_rewrite_flat. Qed.

Lemma V_app : forall a b, V (a ++ b) = V a ++ V b.
Proof. intros a b. unfold V. rewrite vf_app, verbose_rewrite_app. reflexivity. Qed.

Lemma V_nil : V [] = [].
Proof. reflexivity. Qed.

Lemma V_concat : forall l, V (concat l) = concat (map V l).
Proof.
  induction l as [|x l IH]; [reflexivity|]. cbn [concat map]. rewrite V_app, IH. reflexivity.
Qed.

Lemma V_flat_map : forall {A} (f : A -> str) (l : list A), V (flat_map f l) = flat_map (fun x => V (f x)) l.
Proof.
  intros A f l. induction l as [|x l IH]; [reflexivity|]. cbn [flat_map]. rewrite V_app, IH. reflexivity.
Qed.

Lemma solid_not_vf : forall x, solid x -> x <> 11 /\ x <> 12.
Proof. intros x [H _]. split; intros ->; discriminate H. Qed.

Lemma V_solid : forall s, Forall solid s -> V s = s.
Proof.
  intros s H. rewrite V_flat. rewrite vf_id.
  - apply flat_map_id_when. eapply Forall_impl; [|exact H]. intros x Hx. apply vimg_solid. exact Hx.
  - eapply Forall_impl; [|exact H]. intros x Hx. apply solid_not_vf. exact Hx.
Qed.

Lemma vf_solid : forall s, Forall solid s -> vf s = s.
Proof.
  intros s H. apply vf_id. eapply Forall_impl; [|exact H]. intros x Hx. apply solid_not_vf. exact Hx.
Qed.

Lemma V_nl : V nl = nl.
Proof. vm_compute. reflexivity. Qed.

Lemma Forall_solid_dec : forall n, Forall solid (dec_of_N n).
Proof. intros n. eapply Forall_impl; [|apply dec_of_N_digits]. intros d Hd. apply solid_dec. exact Hd. Qed.

Lemma Forall_solid_hex : forall n, Forall solid (hex_of_N n).
Proof.
  intros n. eapply Forall_impl; [|apply hex_of_N_all_hex]. intros d Hd. apply solid_hex. exact Hd.
Qed.

(* "self-rendering": the verbose rewrites of a string, against its non-verbose form *)
Definition SR (m1 m2 : mode) (w : str) : Prop := XS m1 m2 (vf w) (V w).

Lemma SR_app : forall m1 m2 m3 a b, SR m1 m2 a -> SR m2 m3 b -> SR m1 m3 (a ++ b).
Proof. intros m1 m2 m3 a b Ha Hb. unfold SR. rewrite vf_app, V_app. eapply XS_app; eassumption. Qed.

Lemma SR_nil : forall m, SR m m [].
Proof. intros m. apply XS_nil. Qed.

(* one token that the rewrites leave alone *)
Lemma SR_tok : forall m1 m2 t, Forall solid t -> tok m1 m2 t t -> SR m1 m2 t.
Proof.
  intros m1 m2 t Hs Ht. unfold SR. rewrite vf_solid, V_solid by exact Hs. apply XS_tok1. exact Ht.
Qed.

Lemma SR_esc : forall m z, z <> 117 -> solid z -> SR m (after m) [92; z].
Proof.
  intros m z Hz Hs. apply SR_tok; [|apply T_esc; assumption].
  constructor; [solid_c|]. constructor; [exact Hs|constructor].
Qed.

(* a raw character (neither backslash nor a character with a special role in the mode) *)
Lemma SR_raw : forall m y,
  ~ In y [9; 10; 13] ->
  (solid y -> tok m (after m) [y] [y]) ->
  SR m (after m) [y].
Proof.
  intros m y Hctl Hplain. unfold SR.
  destruct (N.eq_dec y 11) as [->|H11].
  { change (vf [11]) with [92; 118]. change (V [11]) with [92; 118].
    apply XS_tok1. apply T_esc; [discriminate|solid_c]. }
  destruct (N.eq_dec y 12) as [->|H12].
  { change (vf [12]) with [92; 102]. change (V [12]) with [92; 102].
    apply XS_tok1. apply T_esc; [discriminate|solid_c]. }
  assert (Evf : vf [y] = [y]) by (apply vf_id; constructor; [split; assumption|constructor]).
  unfold V. rewrite Evf. rewrite verbose_rewrite_flat. cbn [flat_map]. rewrite app_nil_r.
  destruct (mem std_whitespace y) eqn:Ew.
  - apply XS_tok1. apply T_ws; [left; exact Ew|]. cbn [In] in Hctl |- *. intuition.
  - destruct (N.eq_dec y 35) as [->|H35].
    + apply XS_tok1. apply T_ws; [right; reflexivity|]. cbn [In]. intuition discriminate.
    + assert (Hs : solid y) by (split; assumption).
      rewrite vimg_solid by exact Hs. apply XS_tok1. apply Hplain. exact Hs.
Qed.

(* ---------- table facts about the printer's escape lists ---------- *)
Lemma chars_to_escape_solid : forallb (fun z => negb (mem std_whitespace z) && negb (N.eqb z 35)
                                               && negb (N.eqb z 117)) chars_to_escape = true.
Proof. vm_compute. reflexivity. Qed.

Lemma cc_chars_to_escape_solid : forallb (fun z => negb (mem std_whitespace z) && negb (N.eqb z 35)
                                               && negb (N.eqb z 117)) cc_chars_to_escape = true.
Proof. vm_compute. reflexivity. Qed.

Lemma escape_list_facts : forall l z,
  forallb (fun z => negb (mem std_whitespace z) && negb (N.eqb z 35) && negb (N.eqb z 117)) l = true ->
  mem_cp z l = true -> solid z /\ z <> 117.
Proof.
  intros l z HA Hz. apply mem_cp_true_in in Hz. rewrite forallb_forall in HA. specialize (HA z Hz).
  apply andb_true_iff in HA. destruct HA as [HA H117]. apply andb_true_iff in HA. destruct HA as [Hw H35].
  apply negb_true_iff in Hw, H35, H117. apply N.eqb_neq in H35, H117. repeat split; assumption.
Qed.

Lemma top_specials_escaped : forallb (fun z => mem_cp z chars_to_escape) [40; 91; 123] = true.
Proof. vm_compute. reflexivity. Qed.

Lemma cls_specials_escaped : forallb (fun z => mem_cp z cc_chars_to_escape) [92; 93] = true.
Proof. vm_compute. reflexivity. Qed.

(* ---------- one code point of a literal ---------- *)
Section Chars.
  Variable c : cfg.
  Hypothesis Hp : printable c.

  Lemma SR_rend0 : forall y, y <> 92 -> SR Top Top (rend0 c y).
  Proof.
    intros y H92. destruct (mem_cp y chars_to_escape) eqn:Hm.
    - rewrite (rend0_special c) by exact Hm.
      destruct (escape_list_facts _ _ chars_to_escape_solid Hm) as [Hs H117].
      apply (SR_esc Top); assumption.
    - destruct (is_ctl y) eqn:Hc.
      + unfold is_ctl in Hc. apply orb_true_iff in Hc. destruct Hc as [Hc|Hc];
          [apply orb_true_iff in Hc; destruct Hc as [Hc|Hc]|]; apply N.eqb_eq in Hc.
        * rewrite (rend0_ctl c y 110) by tauto. apply (SR_esc Top); [discriminate|solid_c].
        * rewrite (rend0_ctl c y 114) by tauto. apply (SR_esc Top); [discriminate|solid_c].
        * rewrite (rend0_ctl c y 116) by tauto. apply (SR_esc Top); [discriminate|solid_c].
      + assert (Hraw : SR Top Top [y]).
        { apply (SR_raw Top).
          - unfold is_ctl in Hc. apply orb_false_elim in Hc. destruct Hc as [Hc H9].
            apply orb_false_elim in Hc. destruct Hc as [H10 H13].
            apply N.eqb_neq in H9, H10, H13. cbn [In]. intuition.
          - intros Hs. apply T_plain; [reflexivity|exact Hs| |discriminate].
            cbn [mem_cp]. rewrite !orb_false_iff. repeat split; try reflexivity.
            + apply N.eqb_neq. exact H92.
            + apply N.eqb_neq. intros ->. discriminate Hm.
            + apply N.eqb_neq. intros ->. discriminate Hm.
            + apply N.eqb_neq. intros ->. discriminate Hm. }
        destruct (N.ltb_spec y 128) as [Hlt|Hge].
        * rewrite (rend0_plain_ascii c) by assumption. exact Hraw.
        * destruct (f_esc c) eqn:He.
          -- rewrite (rend0_plain_u c Hp) by assumption.
             apply SR_tok.
             ++ constructor; [solid_c|]. constructor; [solid_c|]. constructor; [solid_c|].
                apply Forall_app. split; [apply Forall_solid_hex|]. constructor; [solid_c|constructor].
             ++ apply (T_u Top). apply hex_of_N_all_hex.
          -- rewrite (rend0_plain_raw c) by assumption. exact Hraw.
  Qed.

  Lemma SR_toks : forall t, toks t -> SR Top Top (flat_map (rend0 c) t).
  Proof.
    intros t Ht. induction Ht as [|y t H92 _ _ IH|l t Hl _ IH].
    - apply SR_nil.
    - cbn [flat_map]. eapply SR_app; [apply SR_rend0; exact H92|exact IH].
    - cbn [flat_map]. rewrite (rend0_bs c), (rend0_letter c l Hl).
      rewrite app_assoc. eapply SR_app; [|exact IH].
      apply (SR_esc Top).
      + apply class_letter_cases in Hl. destruct Hl as [->|[->|[->|[->|[->| ->]]]]]; discriminate.
      + apply class_letter_cases in Hl. destruct Hl as [->|[->|[->|[->|[->| ->]]]]]; solid_c.
  Qed.

  Lemma SR_esc_str : forall t, tokenised t -> SR Top Top (esc_str c t).
  Proof.
    intros t [->|Ht].
    - rewrite (esc_str_bs c). apply (SR_esc Top); [discriminate|solid_c].
    - rewrite (esc_str_toks c) by exact Ht. apply SR_toks. exact Ht.
  Qed.

  Lemma SR_chars : forall cs, Forall tok_ok cs -> SR Top Top (concat (map (esc_str c) cs)).
  Proof.
    intros cs HF. induction HF as [|t cs [_ Ht] _ IH]; [apply SR_nil|].
    cbn [map concat]. eapply SR_app; [apply SR_esc_str; exact Ht|exact IH].
  Qed.

  (* ---------- one member of a bracket class ---------- *)
  Lemma SR_cc_escape : forall x, SR Cls Cls (cc_escape x).
  Proof.
    intros x. unfold cc_escape. destruct (mem_cp x cc_chars_to_escape) eqn:Hm.
    - destruct (escape_list_facts _ _ cc_chars_to_escape_solid Hm) as [Hs H117].
      apply (SR_esc Cls); assumption.
    - unfold c_nl, c_cr, c_tab, c_backslash.
      destruct (N.eqb_spec x 10) as [->|H10]; [apply (SR_esc Cls); [discriminate|solid_c]|].
      destruct (N.eqb_spec x 13) as [->|H13]; [apply (SR_esc Cls); [discriminate|solid_c]|].
      destruct (N.eqb_spec x 9) as [->|H9]; [apply (SR_esc Cls); [discriminate|solid_c]|].
      apply (SR_raw Cls); [cbn [In]; intuition|].
      intros Hs. apply T_cplain; [exact Hs|].
      cbn [mem_cp]. rewrite !orb_false_iff. repeat split; try reflexivity.
      + apply N.eqb_neq. intros ->. discriminate Hm.
      + apply N.eqb_neq. intros ->. discriminate Hm.
  Qed.

  Lemma SR_entry : forall e, SR Cls Cls (entry_str e).
  Proof.
    intros [x|a b]; cbn [entry_str]; [apply SR_cc_escape|].
    eapply SR_app; [apply SR_cc_escape|]. eapply SR_app; [|apply SR_cc_escape].
    apply SR_tok; [constructor; [solid_c|constructor]|].
    apply T_cplain; [solid_c|reflexivity].
  Qed.

  Lemma SR_cc_str : forall cs, (2 <= length cs)%nat -> SR Top Top (cc_str c cs).
  Proof.
    intros cs Hlen. rewrite (cc_str_entries c Hp) by exact Hlen.
    eapply SR_app; [apply SR_tok; [constructor; [solid_c|constructor]|apply (T_open Top); reflexivity]|].
    eapply SR_app with (m2 := Cls); [|apply SR_tok; [constructor; [solid_c|constructor]|apply T_close]].
    induction (cc_entries cs) as [|e es IH]; [apply SR_nil|].
    cbn [flat_map]. eapply SR_app; [apply SR_entry|exact IH].
  Qed.
End Chars.

(* ---------- structure: groups, repetitions, expressions ---------- *)
Lemma hd_ok_safe63 : forall b0 : str, hd_ok (b0 ++ [41]) -> exists y s0, b0 ++ [41] = y :: s0 /\ y <> 63.
Proof.
  intros [|y b0] H.
  - exists 41, []. split; [reflexivity|discriminate].
  - exists y, (b0 ++ [41]). split; [reflexivity|]. apply H.
Qed.

Lemma XS_nl_r : forall m1 m2 s s', XS m1 m2 s s' -> XS m1 m2 s (s' ++ nl).
Proof.
  intros m1 m2 s s' H. rewrite <- (app_nil_r s). eapply XS_app; [exact H|].
  apply XS_layout. constructor; [reflexivity|constructor].
Qed.

Lemma XS_nl_l : forall m1 m2 s s', XS m1 m2 s s' -> XS m1 m2 s (nl ++ s').
Proof. intros m1 m2 s s' H. unfold nl. cbn [app]. apply XS_lay; [reflexivity|exact H]. Qed.

Lemma XS_rep_str : forall a b, XS Top Top (rep_str a b) (rep_str a b).
Proof.
  intros a b. unfold rep_str. destruct (N.ltb a b).
  - cbn [app]. apply XS_tok1.
    replace (dec_of_N a ++ 44 :: dec_of_N b ++ [125]) with (dec_of_N a ++ 44 :: dec_of_N b ++ [125]) by reflexivity.
    apply (T_cnt2 Top). reflexivity.
  - cbn [app]. apply XS_tok1. apply (T_cnt Top). reflexivity.
Qed.

Lemma V_rep_str : forall a b, V (rep_str a b) = rep_str a b.
Proof.
  intros a b. apply V_solid. unfold rep_str. destruct (N.ltb a b).
  - constructor; [solid_c|]. apply Forall_app. split; [apply Forall_solid_dec|].
    constructor; [solid_c|]. apply Forall_app. split; [apply Forall_solid_dec|].
    constructor; [solid_c|constructor].
  - constructor; [solid_c|]. apply Forall_app. split; [apply Forall_solid_dec|].
    constructor; [solid_c|constructor].
Qed.

Section Struct.
  Variable is_ws : cp -> bool.
  Variable c : cfg.
  Variable gap : Prop.
  Hypothesis Hp : printable c.
  Hypothesis Hv : f_verbose c = true.
  Hypothesis Hws : ws_ok is_ws.

  Let c0 := unv c.
  Let Hp0 : printable c0 := Hp.
  Let Hv0 : f_verbose c0 = false := eq_refl.

  (* ---------- groups ---------- *)
  Lemma c_group_v : forall v fb,
    c_group c v fb = nl ++ grp_open c ++ nl ++ v ++ nl ++ [41] ++ (if fb then nl else []).
  Proof.
    intros v fb. unfold c_group, grp_open. rewrite !(col_off c Hp), Hv.
    destruct (f_cap c); reflexivity.
  Qed.

  Lemma V_grp_open : V (grp_open c) = grp_open c.
  Proof. unfold grp_open. destruct (f_cap c); vm_compute; reflexivity. Qed.

  Lemma V_c_group : forall v fb,
    V (c_group c v fb) = nl ++ grp_open c ++ nl ++ V v ++ nl ++ [41] ++ (if fb then nl else []).
  Proof.
    intros v fb. rewrite c_group_v. rewrite !V_app, !V_nl, V_grp_open.
    change (V [41]) with [41]. destruct fb; [rewrite V_nl|]; reflexivity.
  Qed.

  Lemma XS_grp : forall b0 bv (fb : bool),
    XS Top Top b0 bv -> hd_ok (b0 ++ [41]) ->
    XS Top Top (grp c0 b0) (nl ++ grp_open c ++ nl ++ bv ++ nl ++ [41] ++ (if fb then nl else @nil cp)).
  Proof.
    intros b0 bv fb Hb Hh.
    assert (Hclose : XS Top Top (b0 ++ [41]) (bv ++ nl ++ [41] ++ (if fb then nl else @nil cp))).
    { eapply XS_app; [exact Hb|]. apply XS_nl_l.
      change [41] with ([41] ++ []) at 1. eapply XS_tok.
      - apply (T_plain Top); [reflexivity|solid_c|reflexivity|discriminate].
      - apply XS_layout. destruct fb; [constructor; [reflexivity|constructor]|constructor]. }
    apply XS_nl_l. unfold grp, grp_open. change (f_cap c0) with (f_cap c). destruct (f_cap c).
    - unfold txt_CapturedLeftParenthesis. eapply XS_tok; [apply (T_lpar Top); reflexivity|].
      apply XS_nl_l. apply XS_toQ; [exact Hclose|]. apply hd_ok_safe63. exact Hh.
    - unfold txt_UncapturedLeftParenthesis. eapply XS_tok; [apply (T_nc Top); reflexivity|].
      apply XS_nl_l. exact Hclose.
  Qed.

  (* ---------- g_str in verbose mode ---------- *)
  Lemma c_rep_v : forall a, (1 <= a) -> c_rep c a true = ([123] ++ dec_of_N a ++ [125]) ++ nl.
  Proof.
    intros a Ha. unfold c_rep. rewrite (col_off c Hp).
    destruct (N.eqb_spec a 0) as [E|_]; [lia|]. reflexivity.
  Qed.

  Lemma c_range_v : forall a b, (1 <= a) ->
    c_range c a b true = ([123] ++ dec_of_N a ++ [44] ++ dec_of_N b ++ [125]) ++ nl.
  Proof.
    intros a b Ha. unfold c_range. rewrite (col_off c Hp).
    destruct (N.eqb_spec a 0) as [E|_]; [lia|]. reflexivity.
  Qed.

  Lemma g_str_unfold_v : forall cs rs a b, (1 <= a) -> (a <= b) ->
    g_str c (G cs rs a b)
    = let v := match rs with [] => concat cs | _ => flat_map (g_str c) rs end in
      if N.eqb a 1 && N.eqb b 1 then v
      else if chars_single cs then v ++ rep_str a b
      else c_group c v false ++ rep_str a b ++ nl.
  Proof.
    intros cs rs a b Ha Hab. cbn [g_str].
    change (Nat.eqb (g_char_count false (G cs rs a b)) 1
            || match cs with [s] => is_single_escape_sequence s | _ => false end)
      with (chars_single cs).
    set (v := match rs with [] => concat cs | _ :: _ => _ end).
    assert (Ev : v = match rs with [] => concat cs | _ => flat_map (g_str c) rs end).
    { unfold v. destruct rs as [|r rs]; [reflexivity|]. reflexivity. }
    clearbody v. subst v. cbv zeta.
    set (v := match rs with [] => concat cs | _ => flat_map (g_str c) rs end).
    pose proof Hp as [Hcol _]. rewrite Hcol. cbn [andb]. rewrite Hv.
    rewrite !(c_rep_eq c Hp) by (assumption || reflexivity).
    rewrite !(c_range_eq c Hp) by (assumption || reflexivity).
    rewrite c_rep_v, c_range_v by assumption.
    unfold rep_str.
    destruct (N.ltb_spec a b) as [Hlt|Hge]; cbn [negb andb].
    - replace (N.eqb b 1) with false by (symmetry; apply N.eqb_neq; lia).
      rewrite andb_false_r. destruct (chars_single cs); rewrite <- ?app_assoc; reflexivity.
    - assert (a = b) by lia. subst b.
      destruct (N.ltb_spec 1 a) as [H1|H1]; cbn [andb].
      + replace (N.eqb a 1) with false by (symmetry; apply N.eqb_neq; lia).
        cbn [andb]. destruct (chars_single cs); rewrite <- ?app_assoc; reflexivity.
      + assert (a = 1) by lia. subst a. reflexivity.
  Qed.

  Lemma gp_unfold_v : forall cs rs a b, (1 <= a) -> (a <= b) ->
    gp c (G cs rs a b)
    = let v := match rs with [] => concat (map (esc_str c) cs) | _ => flat_map (gp c) rs end in
      if N.eqb a 1 && N.eqb b 1 then v
      else if chars_single (map (esc_str c) cs) then v ++ rep_str a b
      else c_group c v false ++ rep_str a b ++ nl.
  Proof.
    intros cs rs a b Ha Hab. unfold gp at 1. rewrite escape_g_unfold, g_str_unfold_v by assumption.
    destruct rs as [|r rs]; [reflexivity|].
    cbv zeta. rewrite (flat_map_map' (escape_g c) (g_str c) (r :: rs)).
    reflexivity.
  Qed.

  Lemma lit_str_gp_v : forall cl, Forall (wf_pg false) cl -> lit_str c cl = flat_map (gp c) cl.
  Proof.
    intros cl HF. unfold lit_str. induction HF as [|g cl Hg _ IH]; [reflexivity|].
    cbn [flat_map]. rewrite IH. f_equal.
    destruct g as [cs rs a b]. destruct rs as [|r rs]; [reflexivity|].
    apply wf_pg_unfold in Hg.
    destruct Hg as (Hne & Htok & Ha & Hab & _ & Hrs & _).
    destruct Hrs as [Hrs|[_ Hlen]]; [discriminate|].
    rewrite gp_unfold_v, g_str_unfold_v by assumption. cbv zeta.
    assert (E1 : chars_single cs = false).
    { apply chars_single_false; [exact Hlen|].
      eapply Forall_impl; [|exact Htok]. intros t [Ht _]. exact Ht. }
    assert (E2 : chars_single (map (esc_str c) cs) = false).
    { apply chars_single_false; [rewrite map_length; exact Hlen|].
      apply (tok_ok_esc_nonempty c Hp). exact Htok. }
    rewrite E1, E2.
    change (map (escape_g c) (r :: rs)) with (escape_g c r :: map (escape_g c) rs).
    cbv iota.
    change (escape_g c r :: map (escape_g c) rs) with (map (escape_g c) (r :: rs)).
    rewrite (flat_map_map' (escape_g c) (g_str c) (r :: rs)). reflexivity.
  Qed.

  (* ---------- graphemes ---------- *)
  Definition g_rel (g : grapheme) : Prop := XS Top Top (vf (gp c0 g)) (V (gp c g)).

  Lemma glist_rel : forall gs, Forall g_rel gs ->
    XS Top Top (vf (flat_map (gp c0) gs)) (V (flat_map (gp c) gs)).
  Proof.
    intros gs HF. induction HF as [|g gs Hg _ IH]; [apply XS_nil|].
    cbn [flat_map]. rewrite vf_app, V_app. eapply XS_app; eassumption.
  Qed.

  Lemma g_rel_all : forall g nested, wf_pg nested g -> g_rel g.
  Proof.
    induction g as [cs rs a b IH] using grapheme_ind'. intros nested Hwf.
    apply wf_pg_unfold in Hwf.
    destruct Hwf as (Hne & Htok & Ha & Hab & Hnest & Hrs & Hwfrs).
    assert (Htok' : Forall tok_ok cs) by exact Htok.
    assert (Hrel : Forall g_rel rs).
    { clear Hrs. induction IH as [|r rs Hr _ IHrs]; [constructor|].
      inversion Hwfrs; subst. constructor; [eapply Hr; eassumption|apply IHrs; assumption]. }
    assert (Hgood : Forall (g_good is_ws c0) rs).
    { eapply Forall_impl; [|exact Hwfrs]. intros g Hg. eapply (pseq_g is_ws c0 Hp0 Hv0 Hws). exact Hg. }
    unfold g_rel. rewrite (gp_unfold c0 Hp0 Hv0), gp_unfold_v by assumption. cbv zeta.
    change (esc_str c0) with (esc_str c).
    set (v0 := match rs with [] => concat (map (esc_str c) cs) | _ => flat_map (gp c0) rs end).
    set (v1 := match rs with [] => concat (map (esc_str c) cs) | _ => flat_map (gp c) rs end).
    assert (Vb : XS Top Top (vf v0) (V v1)).
    { unfold v0, v1. destruct rs as [|r rs]; [apply (SR_chars c Hp); exact Htok'|].
      apply glist_rel. exact Hrel. }
    assert (Vh : hd_ok (vf v0 ++ [41])).
    { unfold v0. destruct rs as [|r rs].
      - apply safe_hd_ok. apply safe_hd_app. apply (chars_safe_hd c0 Hp0); assumption.
      - apply (glist_good is_ws c0 (r :: rs) Hgood). intros X. discriminate X. }
    clearbody v0 v1.
    destruct (N.eqb a 1 && N.eqb b 1); [exact Vb|].
    destruct (chars_single (map (esc_str c) cs)).
    - rewrite vf_app, V_app, (vf_rep_str a b), V_rep_str.
      eapply XS_app; [exact Vb|apply XS_rep_str].
    - rewrite vf_app, (vf_grp c0), (vf_rep_str a b). rewrite !V_app, V_c_group, V_rep_str, V_nl.
      eapply XS_app; [apply (XS_grp _ _ false); assumption|]. apply XS_nl_r. apply XS_rep_str.
  Qed.

  Lemma lit_rel : forall cl, Forall (wf_pg false) cl ->
    XS Top Top (vf (lit_str c0 cl)) (V (lit_str c cl)).
  Proof.
    intros cl HF. rewrite (lit_str_gp c0 Hp0 Hv0), lit_str_gp_v by exact HF.
    apply glist_rel. eapply Forall_impl; [|exact HF]. intros g Hg. eapply g_rel_all. exact Hg.
  Qed.

  (* ---------- e_str in verbose mode ---------- *)
  Definition sepv : str := nl ++ [124] ++ nl.
  Definition partv (fb : bool) (lvl : nat) (x : expr) : str :=
    if needs_group c lvl x then c_group c (e_str c x) fb else e_str c x.

  Lemma e_str_alt_v : forall os, e_str c (EAlt os) = join sepv (map (e_str c) os).
  Proof.
    intros os. cbn [e_str]. rewrite (col_off c Hp). rewrite Hv.
    unfold txt_Pipe, sepv. f_equal.
    induction os as [|o os IH]; [reflexivity|].
    cbn [map]. rewrite prec_ge_1. cbn [andb]. rewrite IH. reflexivity.
  Qed.

  Lemma e_str_cat_v : forall a b, e_str c (ECat a b) = partv true 2 a ++ partv true 2 b.
  Proof. intros a b. reflexivity. Qed.

  Lemma e_str_rep_v : forall x q,
    e_str c (ERep x q)
    = partv false 3 x ++ quant_str q ++ nl.
  Proof.
    intros x q. cbn [e_str]. unfold partv, needs_group, c_quant. rewrite (col_off c Hp), Hv.
    destruct (Nat.ltb (precedence x) 3 && negb (is_single_codepoint c x)); reflexivity.
  Qed.

  Definition e_rel (e : expr) : Prop := XS Top Top (vf (e_str c0 e)) (V (e_str c e)).

  Lemma part_rel : forall fb lvl x, e_rel x -> e_hd c0 x ->
    XS Top Top (vf (part c0 lvl x)) (V (partv fb lvl x)).
  Proof.
    intros fb lvl x Hx Hh. unfold part, partv. change (needs_group c0 lvl x) with (needs_group c lvl x).
    destruct (needs_group c lvl x); [|exact Hx].
    rewrite (vf_grp c0), V_c_group. apply (XS_grp _ _ fb); [exact Hx|].
    apply Hh. intros _. apply hd_ok_cons; discriminate.
  Qed.

  Lemma alt_rel : forall os, Forall e_rel os ->
    XS Top Top (vf (join [124] (map (e_str c0) os))) (V (join sepv (map (e_str c) os))).
  Proof.
    induction os as [|o os IH]; intros HF; [apply XS_nil|].
    inversion HF as [|? ? Ho HF']; subst. destruct os as [|o2 os]; [exact Ho|].
    change (join [124] (map (e_str c0) (o :: o2 :: os)))
      with (e_str c0 o ++ [124] ++ join [124] (map (e_str c0) (o2 :: os))).
    change (join sepv (map (e_str c) (o :: o2 :: os)))
      with (e_str c o ++ sepv ++ join sepv (map (e_str c) (o2 :: os))).
    rewrite !vf_app, !V_app. eapply XS_app; [exact Ho|].
    eapply XS_app; [|apply IH; exact HF'].
    change (V sepv) with (nl ++ [124] ++ nl). apply XS_nl_l. apply XS_nl_r.
    change (vf [124]) with [124]. apply XS_tok1.
    apply (T_plain Top); [reflexivity|solid_c|reflexivity|discriminate].
  Qed.

  Lemma quant_rel : forall q, XS Top Top (vf (quant_str q)) (V (quant_str q ++ nl)).
  Proof.
    intros q. rewrite V_app, V_nl. apply XS_nl_r.
    destruct q; apply XS_tok1; apply (T_plain Top); try reflexivity; try solid_c; discriminate.
  Qed.

  Lemma e_rel_all : forall e, wf_print_gen gap e -> e_rel e.
  Proof.
    induction e as [os IH|cs|a b IHa IHb|cl|x q IHx] using expr_ind'; intros Hwf.
    - (* EAlt *)
      apply wf_print_alt in Hwf. destruct Hwf as [Hne Hwf].
      unfold e_rel. rewrite (e_str_alt c0 Hp0 Hv0), e_str_alt_v. apply alt_rel.
      clear Hne. induction IH as [|o os Ho _ IHos]; [constructor|].
      inversion Hwf; subst. constructor; [apply Ho; assumption|apply IHos; assumption].
    - (* ECC *)
      cbn [wf_print_gen] in Hwf. unfold e_rel. cbn [e_str].
      change (cc_str c0 cs) with (cc_str c cs). apply (SR_cc_str c Hp). apply Hwf.
    - (* ECat *)
      cbn [wf_print_gen] in Hwf. destruct Hwf as [Hwa Hwb].
      unfold e_rel. rewrite (e_str_cat c0 Hp0 Hv0), e_str_cat_v. rewrite vf_app, V_app.
      eapply XS_app; apply part_rel; auto;
        apply (e_good_all is_ws c0 gap Hp0 Hv0 Hws); assumption.
    - (* ELit *)
      cbn [wf_print_gen] in Hwf. unfold e_rel. cbn [e_str]. apply lit_rel. exact Hwf.
    - (* ERep *)
      cbn [wf_print_gen] in Hwf. destruct Hwf as [Hwx _].
      unfold e_rel. rewrite (e_str_rep c0 Hp0 Hv0), e_str_rep_v. rewrite vf_app, V_app.
      eapply XS_app; [|apply quant_rel].
      apply (part_rel false 3 x); [apply IHx; exact Hwx|].
      apply (e_good_all is_ws c0 gap Hp0 Hv0 Hws); assumption.
  Qed.

  (* ---------- the whole pattern after the flag line ---------- *)
  Definition vbody (e : expr) : str :=
    (if f_no_start c then [] else [94] ++ nl) ++
    match e with EAlt _ => c_group c (e_str c e) false | _ => e_str c e end ++
    (if f_no_end c then [] else nl ++ [36]).

  Theorem top_rel : forall e, wf_print_gen gap e ->
    XS Top Top (PrintParse.caret_str c0 ++ vf (PrintParse.body_str c0 e) ++ PrintParse.dollar_str c0)
               (V (vbody e)).
  Proof.
    intros e Hwf. unfold vbody. rewrite !V_app.
    pose proof (e_rel_all e Hwf) as He.
    destruct (e_good_all is_ws c0 gap Hp0 Hv0 Hws e Hwf) as (Hh & _ & _).
    eapply XS_app; [|eapply XS_app].
    - unfold PrintParse.caret_str. change (f_no_start c0) with (f_no_start c).
      destruct (f_no_start c); [apply XS_nil|].
      rewrite V_app, V_nl. apply XS_nl_r. apply XS_tok1.
      apply (T_plain Top); [reflexivity|solid_c|reflexivity|discriminate].
    - unfold PrintParse.body_str. destruct e as [os|cs|a b|cl|x q]; try exact He.
      rewrite (vf_grp c0), V_c_group. apply (XS_grp _ _ false); [exact He|].
      apply Hh. intros _. apply hd_ok_cons; discriminate.
    - unfold PrintParse.dollar_str. change (f_no_end c0) with (f_no_end c).
      destruct (f_no_end c); [apply XS_nil|].
      rewrite V_app, V_nl. apply XS_nl_l. apply XS_tok1.
      apply (T_plain Top); [reflexivity|solid_c|reflexivity|discriminate].
  Qed.
End Struct.
