(* Language-level correctness of the Expression operations of Model/Expr.v:
   new_alternation, concatenate, union2 / union. *)
From Grex Require Import Base.Str Model.Config Model.Cluster Model.Dfa Model.Expr Proofs.Lang.
From Coq Require Import Permutation.

(* ====================================================================== *)
(* 1. induction principles for the nested inductive types, decidable eq    *)
(* ====================================================================== *)

Section GInd.
  Variable P : grapheme -> Prop.
  Hypothesis HG : forall cs rs a b, Forall P rs -> P (G cs rs a b).
  Fixpoint grapheme_ind' (g : grapheme) : P g :=
    match g with
    | G cs rs a b =>
        HG cs rs a b
           ((fix go (l : list grapheme) : Forall P l :=
               match l with
               | [] => Forall_nil P
               | x :: l' => Forall_cons x (grapheme_ind' x) (go l')
               end) rs)
    end.
End GInd.

Section EInd.
  Variable P : expr -> Prop.
  Hypothesis HAlt : forall os, Forall P os -> P (EAlt os).
  Hypothesis HCC : forall cs, P (ECC cs).
  Hypothesis HCat : forall a b, P a -> P b -> P (ECat a b).
  Hypothesis HLit : forall cl, P (ELit cl).
  Hypothesis HRep : forall e q, P e -> P (ERep e q).
  Fixpoint expr_ind' (e : expr) : P e :=
    match e with
    | EAlt os =>
        HAlt os
             ((fix go (l : list expr) : Forall P l :=
                 match l with
                 | [] => Forall_nil P
                 | x :: l' => Forall_cons x (expr_ind' x) (go l')
                 end) os)
    | ECC cs => HCC cs
    | ECat a b => HCat a b (expr_ind' a) (expr_ind' b)
    | ELit cl => HLit cl
    | ERep e' q => HRep e' q (expr_ind' e')
    end.
End EInd.

Lemma list_eqb_eq_F : forall {A} (eqb : A -> A -> bool) (l1 : list A),
  Forall (fun x => forall y, eqb x y = true -> x = y) l1 ->
  forall l2, list_eqb eqb l1 l2 = true -> l1 = l2.
Proof.
  intros A eqb l1 HF. induction HF as [|x l1 Hx HF IH]; intros [|y l2] H; cbn in H; try discriminate.
  - reflexivity.
  - apply andb_true_iff in H. destruct H as [H1 H2].
    f_equal; [apply Hx; exact H1 | apply IH; exact H2].
Qed.

Lemma list_eqb_eq : forall {A} (eqb : A -> A -> bool),
  (forall x y, eqb x y = true -> x = y) ->
  forall l1 l2, list_eqb eqb l1 l2 = true -> l1 = l2.
Proof.
  intros A eqb H l1. apply list_eqb_eq_F. apply Forall_forall. intros x _. apply H.
Qed.

Lemma str_eqb_eq : forall a b, str_eqb a b = true -> a = b.
Proof.
  induction a as [|x a IH]; intros [|y b] H; cbn in H; try discriminate.
  - reflexivity.
  - apply andb_true_iff in H. destruct H as [H1 H2].
    apply N.eqb_eq in H1. f_equal; [exact H1 | apply IH; exact H2].
Qed.

Lemma strs_eqb_eq : forall a b, strs_eqb a b = true -> a = b.
Proof. apply list_eqb_eq. exact str_eqb_eq. Qed.

Lemma g_eqb_eq : forall a b, g_eqb a b = true -> a = b.
Proof.
  induction a as [cs rs m x HF] using grapheme_ind'.
  intros [cs2 rs2 m2 x2] H. cbn in H.
  apply andb_true_iff in H. destruct H as [H Hx].
  apply andb_true_iff in H. destruct H as [H Hm].
  apply andb_true_iff in H. destruct H as [Hc Hr].
  apply strs_eqb_eq in Hc. apply N.eqb_eq in Hm. apply N.eqb_eq in Hx.
  subst. f_equal.
  clear -HF Hr. revert rs2 Hr.
  induction HF as [|g rs Hg HF IH]; intros [|g2 rs2] Hr; try discriminate.
  - reflexivity.
  - apply andb_true_iff in Hr. destruct Hr as [H1 H2].
    f_equal; [apply Hg; exact H1 | apply IH; exact H2].
Qed.

Lemma cluster_eqb_eq : forall a b : cluster, list_eqb g_eqb a b = true -> a = b.
Proof. apply list_eqb_eq. exact g_eqb_eq. Qed.

Lemma quant_eqb_eq : forall a b, quant_eqb a b = true -> a = b.
Proof. intros [|] [|] H; cbn in H; try discriminate; reflexivity. Qed.

Lemma expr_eqb_eq : forall a b, expr_eqb a b = true -> a = b.
Proof.
  induction a as [os HF|cs|a1 b1 IHa IHb|cl|e q IH] using expr_ind'; intros [os2|cs2|a2 b2|cl2|e2 q2] H;
    cbn in H; try discriminate.
  - f_equal. revert os2 H.
    induction HF as [|o os Ho HF IH]; intros [|o2 os2] H; try discriminate.
    + reflexivity.
    + apply andb_true_iff in H. destruct H as [H1 H2].
      f_equal; [apply Ho; exact H1 | apply IH; exact H2].
  - f_equal. revert H. apply list_eqb_eq. intros x y Hxy. apply N.eqb_eq. exact Hxy.
  - apply andb_true_iff in H. destruct H as [H1 H2].
    f_equal; [apply IHa; exact H1 | apply IHb; exact H2].
  - f_equal. apply cluster_eqb_eq. exact H.
  - apply andb_true_iff in H. destruct H as [H1 H2].
    f_equal; [apply IH; exact H1 | apply quant_eqb_eq; exact H2].
Qed.

(* ====================================================================== *)
(* 2. language algebra                                                     *)
(* ====================================================================== *)
From Coq Require Import Setoid Morphisms.

Lemma leq_refl : forall A, leq A A.
Proof. intros A u. tauto. Qed.
Lemma leq_sym : forall A B, leq A B -> leq B A.
Proof. intros A B H u. split; apply H. Qed.
Lemma leq_trans : forall A B C, leq A B -> leq B C -> leq A C.
Proof. intros A B C H1 H2 u. split; intro H; [apply H2, H1, H | apply H1, H2, H]. Qed.

#[export] Instance leq_Equivalence : Equivalence leq.
Proof. split; [exact leq_refl | exact leq_sym | exact leq_trans]. Qed.

Lemma lcat_congr : forall A A' B B', leq A A' -> leq B B' -> leq (lcat A B) (lcat A' B').
Proof.
  intros A A' B B' HA HB u. split; intros (v & w & E & Hv & Hw); exists v, w;
    (split; [exact E | split; [apply HA; exact Hv | apply HB; exact Hw]]).
Qed.
Lemma lunion_congr : forall A A' B B', leq A A' -> leq B B' -> leq (lunion A B) (lunion A' B').
Proof.
  intros A A' B B' HA HB u. unfold lunion. rewrite (HA u), (HB u). tauto.
Qed.
Lemma lopt_congr : forall A A', leq A A' -> leq (lopt A) (lopt A').
Proof. intros A A' HA. unfold lopt. apply lunion_congr; [reflexivity | exact HA]. Qed.

#[export] Instance lcat_Proper : Proper (leq ==> leq ==> leq) lcat.
Proof. intros A A' HA B B' HB. apply lcat_congr; assumption. Qed.
#[export] Instance lunion_Proper : Proper (leq ==> leq ==> leq) lunion.
Proof. intros A A' HA B B' HB. apply lunion_congr; assumption. Qed.
#[export] Instance lopt_Proper : Proper (leq ==> leq) lopt.
Proof. intros A A' HA. apply lopt_congr; assumption. Qed.

Lemma lpow_congr : forall A A' n, leq A A' -> leq (lpow A n) (lpow A' n).
Proof.
  intros A A' n HA. induction n as [|n IH]; cbn [lpow]; [reflexivity|].
  apply lcat_congr; assumption.
Qed.
Lemma lstar_congr : forall A A', leq A A' -> leq (lstar A) (lstar A').
Proof.
  intros A A' HA u. unfold lstar. split; intros [n Hn]; exists n;
    [apply (lpow_congr A A' n HA) | apply (lpow_congr A A' n HA)]; exact Hn.
Qed.
#[export] Instance lstar_Proper : Proper (leq ==> leq) lstar.
Proof. intros A A' HA. apply lstar_congr; assumption. Qed.

Lemma lcat_assoc : forall A B C, leq (lcat (lcat A B) C) (lcat A (lcat B C)).
Proof.
  intros A B C u. split.
  - intros (vw & x & E & (v & w & E' & Hv & Hw) & Hx). subst.
    exists v, (w ++ x). split; [symmetry; apply app_assoc|].
    split; [exact Hv|]. exists w, x. auto.
  - intros (v & wx & E & Hv & (w & x & E' & Hw & Hx)). subst.
    exists (v ++ w), x. split; [apply app_assoc|].
    split; [|exact Hx]. exists v, w. auto.
Qed.

Lemma lcat_eps_l : forall A, leq (lcat leps A) A.
Proof.
  intros A u. split.
  - intros (v & w & E & Hv & Hw). unfold leps in Hv. subst. exact Hw.
  - intros H. exists [], u. split; [reflexivity|]. split; [reflexivity|exact H].
Qed.
Lemma lcat_eps_r : forall A, leq (lcat A leps) A.
Proof.
  intros A u. split.
  - intros (v & w & E & Hv & Hw). unfold leps in Hw. subst. rewrite app_nil_r. exact Hv.
  - intros H. exists u, []. split; [symmetry; apply app_nil_r|]. split; [exact H|reflexivity].
Qed.
Lemma lcat_empty_l : forall A, leq (lcat lempty A) lempty.
Proof. intros A u. split; [intros (v & w & E & [] & _) | intros []]. Qed.
Lemma lcat_empty_r : forall A, leq (lcat A lempty) lempty.
Proof. intros A u. split; [intros (v & w & E & _ & []) | intros []]. Qed.

Lemma lcat_union_l : forall A B C, leq (lcat (lunion A B) C) (lunion (lcat A C) (lcat B C)).
Proof.
  intros A B C u. split.
  - intros (v & w & E & [Hv|Hv] & Hw); [left|right]; exists v, w; auto.
  - intros [(v & w & E & Hv & Hw)|(v & w & E & Hv & Hw)]; exists v, w;
      (split; [exact E|split; [|exact Hw]]); [left|right]; exact Hv.
Qed.
Lemma lcat_union_r : forall A B C, leq (lcat A (lunion B C)) (lunion (lcat A B) (lcat A C)).
Proof.
  intros A B C u. split.
  - intros (v & w & E & Hv & [Hw|Hw]); [left|right]; exists v, w; auto.
  - intros [(v & w & E & Hv & Hw)|(v & w & E & Hv & Hw)]; exists v, w;
      (split; [exact E|split; [exact Hv|]]); [left|right]; exact Hw.
Qed.

Lemma lunion_comm : forall A B, leq (lunion A B) (lunion B A).
Proof. intros A B u. unfold lunion. tauto. Qed.
Lemma lunion_assoc : forall A B C, leq (lunion (lunion A B) C) (lunion A (lunion B C)).
Proof. intros A B C u. unfold lunion. tauto. Qed.
Lemma lunion_idem : forall A, leq (lunion A A) A.
Proof. intros A u. unfold lunion. tauto. Qed.
Lemma lunion_empty_l : forall A, leq (lunion lempty A) A.
Proof. intros A u. unfold lunion, lempty. tauto. Qed.
Lemma lunion_empty_r : forall A, leq (lunion A lempty) A.
Proof. intros A u. unfold lunion, lempty. tauto. Qed.

(* ====================================================================== *)
(* 2b. facts that do not depend on the denotation parameters               *)
(* ====================================================================== *)

Lemma insert_by_perm : forall {A} (le : A -> A -> bool) x l, Permutation (insert_by le x l) (x :: l).
Proof.
  intros A le x l. induction l as [|y l IH]; cbn [insert_by]; [reflexivity|].
  destruct (le x y); [reflexivity|].
  rewrite IH. apply perm_swap.
Qed.

Lemma sort_by_perm : forall {A} (le : A -> A -> bool) l, Permutation (sort_by le l) l.
Proof.
  intros A le l. unfold sort_by. induction l as [|x l IH]; cbn [fold_right]; [reflexivity|].
  rewrite insert_by_perm. apply perm_skip. exact IH.
Qed.

Lemma wf_alt_iff : forall os, wf_expr (EAlt os) <-> Forall wf_expr os.
Proof.
  induction os as [|o os IH].
  - cbn. split; auto.
  - change (wf_expr (EAlt (o :: os))) with (wf_expr o /\ wf_expr (EAlt os)).
    rewrite IH. split.
    + intros [H1 H2]. constructor; assumption.
    + intros H. inversion H; subst. auto.
Qed.

Lemma flatten_alt_wf : forall f es, Forall wf_expr es -> Forall wf_expr (flatten_alt f es).
Proof.
  induction f as [|f IHf]; intros es H; cbn [flatten_alt]; [exact H|].
  induction H as [|e es He H IH]; cbn [flat_map]; [constructor|].
  apply Forall_app. split; [|exact IH].
  destruct e as [os| | | |]; try (constructor; [exact He|constructor]).
  apply IHf. apply wf_alt_iff. exact He.
Qed.

Lemma new_alternation_wf : forall es, Forall wf_expr es -> wf_expr (new_alternation es).
Proof.
  intros es H. unfold new_alternation. apply wf_alt_iff.
  eapply Permutation_Forall; [symmetry; apply sort_by_perm|].
  apply flatten_alt_wf. exact H.
Qed.

Lemma is_empty_true : forall e, is_empty e = true -> e = ELit [].
Proof. intros [| | |[|]|] H; cbn in H; try discriminate; reflexivity. Qed.

Lemma wf_cluster_app : forall a b, wf_cluster a -> wf_cluster b -> wf_cluster (a ++ b).
Proof. intros a b Ha Hb. apply Forall_app. split; assumption. Qed.

Lemma concatenate_wf : forall a b, wf_oexpr a -> wf_oexpr b -> wf_oexpr (concatenate a b).
Proof.
  intros [x|] [y|] Hx Hy; cbn [concatenate wf_oexpr]; try exact I.
  cbn [wf_oexpr] in Hx, Hy.
  destruct (is_empty x); [exact Hy|]. destruct (is_empty y); [exact Hx|].
  destruct x as [?|?|xa xb|ga|? ?]; destruct y as [?|?|ya yb|gb|? ?];
    try (cbn [wf_oexpr]; split; assumption);
    try (destruct xb as [?|?|? ?|gs|? ?]; try (cbn [wf_oexpr]; split; assumption));
    try (destruct ya as [?|?|? ?|gf|? ?]; try (cbn [wf_oexpr]; split; assumption)).
  - cbn [wf_oexpr wf_expr] in *. destruct Hx as [Hx1 Hx2].
    split; [exact Hx1|apply wf_cluster_app; assumption].
  - cbn [wf_oexpr wf_expr] in *. destruct Hy as [Hy1 Hy2].
    split; [apply wf_cluster_app; assumption|exact Hy2].
  - cbn [wf_oexpr wf_expr] in *. apply wf_cluster_app; assumption.
Qed.

(* --- list helpers --- *)
Lemma skipn_length_app : forall {A} (p t : list A), skipn (length p) (p ++ t) = t.
Proof. intros A p t. induction p as [|x p IH]; cbn [length app skipn]; [reflexivity|exact IH]. Qed.

Lemma firstn_length_app : forall {A} (t s : list A),
  firstn (length (t ++ s) - length s) (t ++ s) = t.
Proof.
  intros A t s. rewrite app_length.
  replace (length t + length s - length s) with (length t) by lia.
  induction t as [|x t IH]; cbn [length app firstn].
  - destruct s; reflexivity.
  - f_equal. exact IH.
Qed.

Lemma Forall_skipn' : forall {A} (P : A -> Prop) n l, Forall P l -> Forall P (skipn n l).
Proof.
  intros A P n. induction n as [|n IH]; intros l H; cbn [skipn]; [exact H|].
  destruct l as [|x l]; [constructor|]. inversion H; subst. apply IH. assumption.
Qed.

Lemma Forall_firstn' : forall {A} (P : A -> Prop) n l, Forall P l -> Forall P (firstn n l).
Proof.
  intros A P n. induction n as [|n IH]; intros l H; cbn [firstn]; [constructor|].
  destruct l as [|x l]; [constructor|]. inversion H; subst. constructor; [assumption|].
  apply IH. assumption.
Qed.

Lemma common_prefix_spec : forall a b,
  exists a' b', a = common_prefix a b ++ a' /\ b = common_prefix a b ++ b'.
Proof.
  induction a as [|x a IH]; intros b.
  - exists [], b. cbn. auto.
  - destruct b as [|y b].
    + exists (x :: a), []. cbn. auto.
    + cbn [common_prefix]. destruct (g_eqb x y) eqn:E.
      * apply g_eqb_eq in E. subst y.
        destruct (IH b) as (a' & b' & Ha & Hb).
        exists a', b'. cbn [app]. split; f_equal; assumption.
      * exists (x :: a), (y :: b). cbn. auto.
Qed.

Lemma common_prefix_Forall : forall (P : grapheme -> Prop) a b,
  Forall P a -> Forall P (common_prefix a b).
Proof.
  intros P a b H. destruct (common_prefix_spec a b) as (a' & _ & Ha & _).
  rewrite Ha in H. apply Forall_app in H. apply H.
Qed.

Definition strip (pre : bool) (p : list grapheme) (e : expr) : expr :=
  match p with [] => e | _ => remove_substring pre (length p) e end.
Definition wrapP (p : list grapheme) (r : expr) : expr :=
  match p with [] => r | _ => ECat (ELit p) r end.
Definition wrapS (s : list grapheme) (r : expr) : expr :=
  match s with [] => r | _ => ECat r (ELit s) end.

Definition union_core (c : cfg) (e1 e2 : expr) : option expr :=
  if is_empty e1 then Some (ERep e2 QQuestion)
  else if is_empty e2 then Some (ERep e1 QQuestion)
  else match e1 with
       | ERep x QQuestion => Some (ERep (new_alternation [x; e2]) QQuestion)
       | _ =>
           match e2 with
           | ERep y QQuestion => Some (ERep (new_alternation [e1; y]) QQuestion)
           | _ =>
               if is_single_codepoint c e1 && is_single_codepoint c e2 then
                 match extract_character_set e1, extract_character_set e2 with
                 | Some s1, Some s2 => Some (ECC (cset_union s1 s2))
                 | _, _ => None
                 end
               else Some (new_alternation [e1; e2])
           end
       end.

Lemma union2_unfold : forall c a b,
  union2 c a b =
  if expr_eqb a b then Some a
  else
    let p := find_common true a b in
    let e1 := strip true p a in
    let e2 := strip true p b in
    let s := find_common false e1 e2 in
    match union_core c (strip false s e1) (strip false s e2) with
    | None => None
    | Some r => Some (wrapS s (wrapP p r))
    end.
Proof. reflexivity. Qed.

Definition opt_body (e : expr) : option expr :=
  match e with ERep x QQuestion => Some x | _ => None end.

Definition union_dflt (c : cfg) (e1 e2 : expr) : option expr :=
  if is_single_codepoint c e1 && is_single_codepoint c e2 then
    match extract_character_set e1, extract_character_set e2 with
    | Some s1, Some s2 => Some (ECC (cset_union s1 s2))
    | _, _ => None
    end
  else Some (new_alternation [e1; e2]).

Lemma union_core_eq : forall c e1 e2,
  union_core c e1 e2 =
  if is_empty e1 then Some (ERep e2 QQuestion)
  else if is_empty e2 then Some (ERep e1 QQuestion)
  else match opt_body e1 with
       | Some x => Some (ERep (new_alternation [x; e2]) QQuestion)
       | None =>
           match opt_body e2 with
           | Some y => Some (ERep (new_alternation [e1; y]) QQuestion)
           | None => union_dflt c e1 e2
           end
       end.
Proof.
  intros c e1 e2. unfold union_core, union_dflt.
  destruct (is_empty e1); [reflexivity|]. destruct (is_empty e2); [reflexivity|].
  destruct e1 as [?|?|? ?|?|? [|]]; destruct e2 as [?|?|? ?|?|? [|]]; reflexivity.
Qed.

Lemma opt_body_some : forall e x, opt_body e = Some x -> e = ERep x QQuestion.
Proof.
  intros e x H. destruct e as [?|?|? ?|?|? [|]]; cbn in H; try discriminate.
  injection H as H. subst. reflexivity.
Qed.

Lemma find_common_true_spec : forall a b,
  exists ta tb, value_top true a = find_common true a b ++ ta
             /\ value_top true b = find_common true a b ++ tb.
Proof. intros a b. unfold find_common. apply common_prefix_spec. Qed.

Lemma find_common_false_spec : forall a b,
  exists ta tb, value_top false a = ta ++ find_common false a b
             /\ value_top false b = tb ++ find_common false a b.
Proof.
  intros a b. unfold find_common.
  destruct (common_prefix_spec (rev (value_top false a)) (rev (value_top false b)))
    as (a' & b' & Ha & Hb).
  exists (rev a'), (rev b'). rewrite <- !rev_app_distr, <- Ha, <- Hb, !rev_involutive. auto.
Qed.

Lemma wf_value_top : forall pre a, wf_expr a -> wf_cluster (value_top pre a).
Proof.
  intros pre a H. destruct a as [?|?|a1 a2|cl|? ?]; cbn [value_top]; try constructor.
  - cbn [wf_expr] in H. destruct H as [H1 H2].
    destruct pre; [destruct a1|destruct a2]; try constructor; assumption.
  - exact H.
Qed.

Lemma wf_find_common : forall pre a b, wf_expr a -> wf_cluster (find_common pre a b).
Proof.
  intros pre a b H. unfold find_common. destruct pre.
  - apply common_prefix_Forall. apply wf_value_top. exact H.
  - apply Forall_rev. apply common_prefix_Forall. apply Forall_rev. apply wf_value_top. exact H.
Qed.

Lemma wf_drop_sub : forall pre n cl, wf_cluster cl -> wf_cluster (drop_sub pre n cl).
Proof.
  intros pre n cl H. unfold drop_sub. destruct pre; [apply Forall_skipn'|apply Forall_firstn']; exact H.
Qed.

Lemma wf_remove_substring : forall pre n a, wf_expr a -> wf_expr (remove_substring pre n a).
Proof.
  intros pre n a H. destruct a as [?|?|a1 a2|cl|? ?]; cbn [remove_substring]; try exact H.
  - cbn [wf_expr] in H. destruct H as [H1 H2]. destruct pre.
    + destruct a1; try (split; assumption). split; [apply wf_drop_sub; exact H1|exact H2].
    + destruct a2; try (split; assumption). split; [exact H1|apply wf_drop_sub; exact H2].
  - apply wf_drop_sub. exact H.
Qed.

Lemma wf_strip : forall pre p a, wf_expr a -> wf_expr (strip pre p a).
Proof.
  intros pre p a H. unfold strip. destruct p; [exact H|apply wf_remove_substring; exact H].
Qed.

Lemma wf_wrapP : forall p r, wf_cluster p -> wf_expr r -> wf_expr (wrapP p r).
Proof. intros [|g p] r Hp Hr; cbn [wrapP]; [exact Hr|split; assumption]. Qed.
Lemma wf_wrapS : forall s r, wf_cluster s -> wf_expr r -> wf_expr (wrapS s r).
Proof. intros [|g s] r Hs Hr; cbn [wrapS]; [exact Hr|split; assumption]. Qed.

(* --- character sets --- *)
Lemma cset_add_in : forall x l y, In y (cset_add x l) <-> x = y \/ In y l.
Proof.
  intros x l y. induction l as [|z l IH]; cbn [cset_add In]; [tauto|].
  destruct (N.ltb x z); [cbn [In]; tauto|].
  destruct (N.eqb x z) eqn:E.
  - apply N.eqb_eq in E. subst z. cbn [In]. tauto.
  - cbn [In]. rewrite IH. tauto.
Qed.

Lemma cset_union_in : forall b a y, In y (cset_union a b) <-> In y a \/ In y b.
Proof.
  unfold cset_union. induction b as [|x b IH]; intros a y; cbn [fold_left In]; [tauto|].
  rewrite IH, cset_add_in. tauto.
Qed.

Lemma hex_digits_len : forall f n acc, length acc <= length (hex_digits f n acc).
Proof.
  induction f as [|f IH]; intros n acc; cbn [hex_digits]; [lia|].
  destruct (N.eqb (n / 16) 0); [cbn [length]; lia|].
  etransitivity; [|apply IH]. cbn [length]. lia.
Qed.

Lemma hex_of_N_len : forall n, 1 <= length (hex_of_N n).
Proof.
  intros n. unfold hex_of_N. cbn [hex_digits].
  destruct (N.eqb (n / 16) 0); [cbn [length]; lia|].
  etransitivity; [|apply hex_digits_len]. cbn [length]. lia.
Qed.

Lemma escape_cp_len : forall x, 1 <= length (escape_cp false x).
Proof.
  intros x. unfold escape_cp. destruct (N.ltb x 128); [cbn [length]; lia|].
  cbn [andb]. unfold esc_unicode. rewrite !app_length. cbn [length]. lia.
Qed.

Lemma escape_cp_len_ascii : forall x, (x < 128)%N -> length (escape_cp false x) = 1.
Proof.
  intros x H. unfold escape_cp. apply N.ltb_lt in H. rewrite H. reflexivity.
Qed.

Lemma escape_cp_len_nonascii : forall x, (128 <= x)%N -> 5 <= length (escape_cp false x).
Proof.
  intros x H. unfold escape_cp. apply N.ltb_ge in H. rewrite H.
  cbn [andb]. unfold esc_unicode. rewrite !app_length. cbn [length].
  pose proof (hex_of_N_len x). lia.
Qed.

Lemma chars_single_plain : forall cs : list str, cs <> [] -> Forall (fun s => s <> []) cs ->
  fold_right (fun (s : str) n => length s + n) 0 cs = 1 -> exists x, cs = [[x]].
Proof.
  intros cs Hne HF H. destruct cs as [|s cs]; [contradiction|].
  inversion HF as [|? ? Hs HF']; subst. destruct s as [|x s]; [contradiction|].
  cbn [fold_right length] in H. destruct s as [|y s]; [|cbn [length] in H; lia].
  destruct cs as [|s2 cs]; [exists x; reflexivity|].
  inversion HF' as [|? ? Hs2 _]; subst. destruct s2 as [|z s2]; [contradiction|].
  cbn [fold_right length] in H. lia.
Qed.

Lemma chars_single_esc : forall cs : list str, cs <> [] -> Forall (fun s => s <> []) cs ->
  length (flat_map (fun s => flat_map (escape_cp false) s) cs) = 1 -> exists x, cs = [[x]].
Proof.
  intros cs Hne HF H. destruct cs as [|s cs]; [contradiction|].
  inversion HF as [|? ? Hs HF']; subst. destruct s as [|x s]; [contradiction|].
  cbn [flat_map] in H. rewrite !app_length in H. pose proof (escape_cp_len x) as Hx.
  destruct s as [|y s].
  2:{ cbn [flat_map] in H. rewrite !app_length in H. pose proof (escape_cp_len y). lia. }
  destruct cs as [|s2 cs]; [exists x; reflexivity|].
  inversion HF' as [|? ? Hs2 _]; subst. destruct s2 as [|z s2]; [contradiction|].
  cbn [flat_map] in H. rewrite !app_length in H. pose proof (escape_cp_len z). lia.
Qed.

Lemma g_char_count_pos : forall esc g, wf_g g -> 1 <= g_char_count esc g.
Proof.
  intros esc [cs rs a b] (Hne & HF & _). unfold g_char_count. cbn [g_chars].
  destruct cs as [|s cs]; [contradiction|].
  inversion HF as [|? ? Hs _]; subst. destruct s as [|x s]; [contradiction|].
  destruct esc.
  - cbn [flat_map]. rewrite !app_length. pose proof (escape_cp_len x). lia.
  - cbn [fold_right length]. lia.
Qed.

Lemma single_cluster : forall esc cl, wf_cluster cl -> cluster_char_count esc cl = 1 ->
  exists g, cl = [g] /\ g_char_count esc g = 1.
Proof.
  intros esc cl Hwf H. unfold cluster_char_count in H.
  destruct cl as [|g cl]; [cbn in H; discriminate|].
  inversion Hwf as [|? ? Hg Hcl]; subst.
  destruct cl as [|g2 cl].
  - cbn [fold_right] in H. exists g. split; [reflexivity|lia].
  - inversion Hcl as [|? ? Hg2 _]; subst.
    pose proof (g_char_count_pos esc g Hg). pose proof (g_char_count_pos esc g2 Hg2).
    cbn [fold_right] in H. lia.
Qed.

Section S.
  Variable lit_den cls_den : cp -> cp -> Prop.
  Notation Lc := (L_cluster lit_den cls_den).
  Notation Le := (L_expr lit_den cls_den).
  Notation Lo := (L_oexpr lit_den cls_den).
  Notation La := (L_alts lit_den cls_den).

  Lemma L_cluster_app : forall c1 c2, leq (Lc (c1 ++ c2)) (lcat (Lc c1) (Lc c2)).
  Proof.
    induction c1 as [|g c1 IH]; intros c2; cbn [app L_cluster].
    - symmetry. apply lcat_eps_l.
    - rewrite (IH c2). symmetry. apply lcat_assoc.
  Qed.

  (* ---------------------------------------------------------------------- *)
  (* 3. alternations                                                         *)
  (* ---------------------------------------------------------------------- *)

  Lemma L_alt_alts : forall os, leq (Le (EAlt os)) (La os).
  Proof.
    intros os. induction os as [|o os IH]; intros u.
    - cbn. unfold lempty, L_alts. split; [intros []|intros (o & [] & _)].
    - change (Le (EAlt (o :: os)) u) with (lunion (Le o) (Le (EAlt os)) u).
      unfold lunion. rewrite (IH u). unfold L_alts. split.
      + intros [H|(o' & Hin & H)].
        * exists o. split; [left; reflexivity|exact H].
        * exists o'. split; [right; exact Hin|exact H].
      + intros (o' & [E|Hin] & H).
        * left. subst. exact H.
        * right. exists o'. auto.
  Qed.

  Lemma La_in_ext : forall l1 l2, (forall x, In x l1 <-> In x l2) -> leq (La l1) (La l2).
  Proof.
    intros l1 l2 H u. unfold L_alts. split; intros (o & Hin & Ho); exists o;
      (split; [apply H; exact Hin|exact Ho]).
  Qed.

  Lemma La_nil : leq (La []) lempty.
  Proof. intros u. unfold L_alts, lempty. split; [intros (o & [] & _)|intros []]. Qed.

  Lemma La_cons : forall o l, leq (La (o :: l)) (lunion (Le o) (La l)).
  Proof.
    intros o l u. unfold L_alts, lunion. split.
    - intros (o' & [E|Hin] & H); [left; subst; exact H | right; exists o'; auto].
    - intros [H|(o' & Hin & H)]; [exists o | exists o']; cbn [In]; auto.
  Qed.

  Lemma La_app : forall l1 l2, leq (La (l1 ++ l2)) (lunion (La l1) (La l2)).
  Proof.
    induction l1 as [|o l1 IH]; intros l2; cbn [app].
    - rewrite La_nil. symmetry. apply lunion_empty_l.
    - rewrite !La_cons, IH. symmetry. apply lunion_assoc.
  Qed.

  Lemma La_single : forall o, leq (La [o]) (Le o).
  Proof. intros o. rewrite La_cons, La_nil. apply lunion_empty_r. Qed.

  Lemma flatten_alt_lang : forall f es, leq (La (flatten_alt f es)) (La es).
  Proof.
    induction f as [|f IHf]; intros es; cbn [flatten_alt]; [reflexivity|].
    induction es as [|e es IHes]; cbn [flat_map]; [reflexivity|].
    rewrite La_app, IHes, La_cons. apply lunion_congr; [|reflexivity].
    destruct e as [os| | | |]; try apply La_single.
    rewrite IHf. symmetry. apply L_alt_alts.
  Qed.

  Lemma new_alternation_lang : forall es, leq (Le (new_alternation es)) (La es).
  Proof.
    intros es. unfold new_alternation. rewrite L_alt_alts.
    etransitivity; [|apply flatten_alt_lang].
    apply La_in_ext. intros x. split; apply Permutation_in.
    - apply sort_by_perm.
    - symmetry. apply sort_by_perm.
  Qed.

  (* ---------------------------------------------------------------------- *)
  (* 4. concatenate                                                          *)
  (* ---------------------------------------------------------------------- *)

  Lemma concatenate_lang : forall a b, leq (Lo (concatenate a b)) (lcat (Lo a) (Lo b)).
  Proof.
    intros [x|] [y|]; cbn [concatenate L_oexpr];
      try (symmetry; apply lcat_empty_l); try (symmetry; apply lcat_empty_r).
    destruct (is_empty x) eqn:Ex.
    { apply is_empty_true in Ex. subst x. cbn [L_oexpr L_expr L_cluster]. symmetry. apply lcat_eps_l. }
    destruct (is_empty y) eqn:Ey.
    { apply is_empty_true in Ey. subst y. cbn [L_oexpr L_expr L_cluster]. symmetry. apply lcat_eps_r. }
    clear Ex Ey.
    destruct x as [?|?|xa xb|ga|? ?]; destruct y as [?|?|ya yb|gb|? ?];
      try (cbn [L_oexpr L_expr]; reflexivity);
      try (destruct xb as [?|?|? ?|gs|? ?]; try (cbn [L_oexpr L_expr]; reflexivity));
      try (destruct ya as [?|?|? ?|gf|? ?]; try (cbn [L_oexpr L_expr]; reflexivity)).
    - (* ECat, ELit *)
      cbn [L_oexpr L_expr]. rewrite L_cluster_app. symmetry. apply lcat_assoc.
    - (* ELit, ECat *)
      cbn [L_oexpr L_expr]. rewrite L_cluster_app. apply lcat_assoc.
    - cbn [L_oexpr L_expr]. apply L_cluster_app.
  Qed.

  (* 5. union2                                                               *)
  (* ---------------------------------------------------------------------- *)

  (* --- prefix / suffix factoring --- *)
  Lemma strip_true_lang : forall a p t, value_top true a = p ++ t ->
    leq (Le a) (lcat (Lc p) (Le (strip true p a))).
  Proof.
    intros a p t H. destruct p as [|g p'].
    { cbn [strip L_cluster]. symmetry. apply lcat_eps_l. }
    unfold strip. set (p := g :: p') in *. 
    destruct a as [?|?|a1 a2|cl|? ?]; try (cbn in H; discriminate).
    - destruct a1 as [?|?|? ?|cl|? ?]; try (cbn in H; discriminate).
      cbn [value_top] in H. subst cl.
      cbn [remove_substring drop_sub]. rewrite skipn_length_app.
      cbn [L_expr]. rewrite L_cluster_app. apply lcat_assoc.
    - cbn [value_top] in H. subst cl.
      cbn [remove_substring drop_sub]. rewrite skipn_length_app.
      cbn [L_expr]. apply L_cluster_app.
  Qed.

  Lemma strip_false_lang : forall a s t, value_top false a = t ++ s ->
    leq (Le a) (lcat (Le (strip false s a)) (Lc s)).
  Proof.
    intros a s t H. destruct s as [|g s'].
    { cbn [strip L_cluster]. symmetry. apply lcat_eps_r. }
    unfold strip. set (s := g :: s') in *.
    destruct a as [?|?|a1 a2|cl|? ?]; try (cbn in H; destruct t; discriminate).
    - destruct a2 as [?|?|? ?|cl|? ?]; try (cbn in H; destruct t; discriminate).
      cbn [value_top] in H. subst cl.
      cbn [remove_substring drop_sub]. rewrite firstn_length_app.
      cbn [L_expr]. rewrite L_cluster_app. symmetry. apply lcat_assoc.
    - cbn [value_top] in H. subst cl.
      cbn [remove_substring drop_sub]. rewrite firstn_length_app.
      cbn [L_expr]. apply L_cluster_app.
  Qed.

  Lemma wrapP_lang : forall p r, leq (Le (wrapP p r)) (lcat (Lc p) (Le r)).
  Proof.
    intros [|g p] r; cbn [wrapP]; [|reflexivity].
    cbn [L_cluster]. symmetry. apply lcat_eps_l.
  Qed.
  Lemma wrapS_lang : forall s r, leq (Le (wrapS s r)) (lcat (Le r) (Lc s)).
  Proof.
    intros [|g s] r; cbn [wrapS]; [|reflexivity].
    cbn [L_cluster]. symmetry. apply lcat_eps_r.
  Qed.

  (* --- character sets --- *)
  Lemma ECC_union_lang : forall s1 s2,
    leq (Le (ECC (cset_union s1 s2))) (lunion (Le (ECC s1)) (Le (ECC s2))).
  Proof.
    intros s1 s2 u. cbn [L_expr]. unfold lunion. split.
    - intros (c & Hin & H). apply cset_union_in in Hin.
      destruct Hin as [Hin|Hin]; [left|right]; exists c; auto.
    - intros [(c & Hin & H)|(c & Hin & H)]; exists c; (split; [|exact H]);
        apply cset_union_in; auto.
  Qed.

  (* --- single code point operands --- *)
  Lemma single_cp_spec : forall c e, wf_expr e -> is_single_codepoint c e = true ->
    exists cs, extract_character_set e = Some cs /\ leq (Le e) (Le (ECC cs)).
  Proof.
    intros c e Hwf H. destruct e as [?|cs|? ?|cl|? ?]; cbn [is_single_codepoint] in H; try discriminate.
    - exists cs. split; reflexivity.
    - apply andb_true_iff in H. destruct H as [H1 H2]. apply Nat.eqb_eq in H1.
      cbn [wf_expr] in Hwf.
      destruct (single_cluster _ _ Hwf H1) as (g & -> & Hg).
      apply N.eqb_eq in H2. destruct g as [cs rs a b]. cbn [g_max] in H2. subst b.
      inversion Hwf as [|? ? Hwg _]; subst. destruct Hwg as (Hne & HF & Ha1 & Ha2).
      assert (Hx : exists x, cs = [[x]]).
      { unfold g_char_count in Hg. cbn [g_chars] in Hg. destruct (f_esc c).
        - apply chars_single_esc; assumption.
        - apply chars_single_plain; assumption. }
      destruct Hx as [x ->]. exists [x]. split; [reflexivity|].
      intros u. cbn [L_expr L_cluster]. rewrite (lcat_eps_r _ u).
      unfold den_g. cbn [g_min g_max g_chars]. split.
      + intros (k & Hk1 & Hk2 & Hp). assert (k = 1) by lia. subst k.
        cbn [lpow den_chars den_str] in Hp.
        apply (proj1 (lcat_eps_r _ _)) in Hp. apply (proj1 (lcat_eps_r _ _)) in Hp.
        exists x. split; [left; reflexivity|exact Hp].
      + intros (c0 & [<-|[]] & Hu). exists 1. split; [lia|]. split; [lia|].
        cbn [lpow den_chars den_str].
        apply (proj2 (lcat_eps_r _ _)). apply (proj2 (lcat_eps_r _ _)). exact Hu.
  Qed.

  (* --- the core of union2 --- *)
  Lemma union_dflt_spec : forall c e1 e2, wf_expr e1 -> wf_expr e2 ->
    exists r, union_dflt c e1 e2 = Some r /\ wf_expr r /\ leq (Le r) (lunion (Le e1) (Le e2)).
  Proof.
    intros c e1 e2 H1 H2. unfold union_dflt.
    destruct (is_single_codepoint c e1) eqn:S1; destruct (is_single_codepoint c e2) eqn:S2; cbn [andb].
    1:{ destruct (single_cp_spec c e1 H1 S1) as (s1 & E1 & L1).
        destruct (single_cp_spec c e2 H2 S2) as (s2 & E2 & L2).
        rewrite E1, E2. exists (ECC (cset_union s1 s2)). split; [reflexivity|]. split; [exact I|].
        rewrite ECC_union_lang. apply lunion_congr; symmetry; assumption. }
    all: exists (new_alternation [e1; e2]); split; [reflexivity|]; split;
      [apply new_alternation_wf; repeat constructor; assumption|];
      rewrite new_alternation_lang, La_cons, La_single; reflexivity.
  Qed.

  Lemma union_core_spec : forall c e1 e2, wf_expr e1 -> wf_expr e2 ->
    exists r, union_core c e1 e2 = Some r /\ wf_expr r /\ leq (Le r) (lunion (Le e1) (Le e2)).
  Proof.
    intros c e1 e2 H1 H2. rewrite union_core_eq.
    destruct (is_empty e1) eqn:E1.
    { apply is_empty_true in E1. subst e1. exists (ERep e2 QQuestion).
      split; [reflexivity|]. split; [exact H2|]. reflexivity. }
    destruct (is_empty e2) eqn:E2.
    { apply is_empty_true in E2. subst e2. exists (ERep e1 QQuestion).
      split; [reflexivity|]. split; [exact H1|]. apply lunion_comm. }
    destruct (opt_body e1) as [x|] eqn:O1.
    { apply opt_body_some in O1. subst e1. cbn [wf_expr] in H1.
      exists (ERep (new_alternation [x; e2]) QQuestion). split; [reflexivity|]. split.
      - cbn [wf_expr]. apply new_alternation_wf. repeat constructor; assumption.
      - cbn [L_expr]. rewrite new_alternation_lang, La_cons, La_single.
        intros u. unfold lopt, lunion. tauto. }
    destruct (opt_body e2) as [y|] eqn:O2.
    { apply opt_body_some in O2. subst e2. cbn [wf_expr] in H2.
      exists (ERep (new_alternation [e1; y]) QQuestion). split; [reflexivity|]. split.
      - cbn [wf_expr]. apply new_alternation_wf. repeat constructor; assumption.
      - cbn [L_expr]. rewrite new_alternation_lang, La_cons, La_single.
        intros u. unfold lopt, lunion. tauto. }
    apply union_dflt_spec; assumption.
  Qed.

  Lemma union2_spec : forall c a b, wf_expr a -> wf_expr b ->
    exists r, union2 c a b = Some r /\ wf_expr r /\ leq (Le r) (lunion (Le a) (Le b)).
  Proof.
    intros c a b Ha Hb. rewrite union2_unfold.
    destruct (expr_eqb a b) eqn:E.
    { apply expr_eqb_eq in E. subst b. exists a. split; [reflexivity|]. split; [exact Ha|].
      symmetry. apply lunion_idem. }
    cbv zeta.
    set (p := find_common true a b).
    set (e1 := strip true p a). set (e2 := strip true p b).
    set (s := find_common false e1 e2).
    set (e1' := strip false s e1). set (e2' := strip false s e2).
    assert (W1 : wf_expr e1) by (apply wf_strip; exact Ha).
    assert (W2 : wf_expr e2) by (apply wf_strip; exact Hb).
    assert (W1' : wf_expr e1') by (apply wf_strip; exact W1).
    assert (W2' : wf_expr e2') by (apply wf_strip; exact W2).
    destruct (union_core_spec c e1' e2' W1' W2') as (r & Hr & Wr & Lr).
    rewrite Hr. exists (wrapS s (wrapP p r)). split; [reflexivity|]. split.
    { apply wf_wrapS; [apply wf_find_common; exact W1|].
      apply wf_wrapP; [apply wf_find_common; exact Ha|exact Wr]. }
    destruct (find_common_true_spec a b) as (ta & tb & Hta & Htb). fold p in Hta, Htb.
    destruct (find_common_false_spec e1 e2) as (ta' & tb' & Hta' & Htb'). fold s in Hta', Htb'.
    pose proof (strip_true_lang a p ta Hta) as La1. fold e1 in La1.
    pose proof (strip_true_lang b p tb Htb) as Lb1. fold e2 in Lb1.
    pose proof (strip_false_lang e1 s ta' Hta') as La2. fold e1' in La2.
    pose proof (strip_false_lang e2 s tb' Htb') as Lb2. fold e2' in Lb2.
    rewrite wrapS_lang, wrapP_lang, Lr.
    etransitivity; [|apply lunion_congr; symmetry; [exact La1|exact Lb1]].
    etransitivity; [|apply lunion_congr; (apply lcat_congr; [reflexivity|]); symmetry; [exact La2|exact Lb2]].
    rewrite lcat_union_r, lcat_union_l, !lcat_assoc. reflexivity.
  Qed.

  Lemma union2_total_S : forall c a b, wf_expr a -> wf_expr b -> exists r, union2 c a b = Some r.
  Proof.
    intros c a b Ha Hb. destruct (union2_spec c a b Ha Hb) as (r & Hr & _). exists r. exact Hr.
  Qed.

  Theorem union2_lang : forall c a b r, wf_expr a -> wf_expr b -> union2 c a b = Some r ->
    leq (Le r) (lunion (Le a) (Le b)).
  Proof.
    intros c a b r Ha Hb H. destruct (union2_spec c a b Ha Hb) as (r' & Hr & _ & L).
    rewrite H in Hr. injection Hr as <-. exact L.
  Qed.

  Lemma union2_wf_S : forall c a b r, wf_expr a -> wf_expr b -> union2 c a b = Some r -> wf_expr r.
  Proof.
    intros c a b r Ha Hb H. destruct (union2_spec c a b Ha Hb) as (r' & Hr & W & _).
    rewrite H in Hr. injection Hr as <-. exact W.
  Qed.

  (* ---------------------------------------------------------------------- *)
  (* 6. option-level union                                                   *)
  (* ---------------------------------------------------------------------- *)

  Lemma union_total_S : forall c a b, wf_oexpr a -> wf_oexpr b -> exists r, union c a b = Some r.
  Proof.
    intros c [x|] [y|] Ha Hb; cbn [union]; try (eexists; reflexivity).
    destruct (union2_total_S c x y Ha Hb) as (r & Hr). rewrite Hr. eexists; reflexivity.
  Qed.

  Theorem union_lang : forall c a b r, wf_oexpr a -> wf_oexpr b -> union c a b = Some r ->
    leq (Lo r) (lunion (Lo a) (Lo b)).
  Proof.
    intros c [x|] [y|] r Ha Hb H; cbn [union] in H.
    - destruct (union2 c x y) as [r'|] eqn:E; [|discriminate]. injection H as <-.
      cbn [L_oexpr]. apply (union2_lang c x y r' Ha Hb E).
    - injection H as <-. cbn [L_oexpr]. symmetry. apply lunion_empty_r.
    - injection H as <-. cbn [L_oexpr]. symmetry. apply lunion_empty_l.
    - injection H as <-. cbn [L_oexpr]. symmetry. apply lunion_empty_l.
  Qed.

  Lemma union_wf_S : forall c a b r, wf_oexpr a -> wf_oexpr b -> union c a b = Some r -> wf_oexpr r.
  Proof.
    intros c [x|] [y|] r Ha Hb H; cbn [union] in H.
    - destruct (union2 c x y) as [r'|] eqn:E; [|discriminate]. injection H as <-.
      cbn [wf_oexpr]. apply (union2_wf_S c x y r' Ha Hb E).
    - injection H as <-. exact Ha.
    - injection H as <-. exact Hb.
    - injection H as <-. exact I.
  Qed.

End S.

(* the statements that do not mention languages, freed from the (unused) denotation parameters *)
Theorem union2_total : forall c a b, wf_expr a -> wf_expr b -> exists r, union2 c a b = Some r.
Proof. exact (union2_total_S (fun _ _ => True) (fun _ _ => True)). Qed.

Theorem union2_wf : forall c a b r, wf_expr a -> wf_expr b -> union2 c a b = Some r -> wf_expr r.
Proof. exact (union2_wf_S (fun _ _ => True) (fun _ _ => True)). Qed.

Theorem union_total : forall c a b, wf_oexpr a -> wf_oexpr b -> exists r, union c a b = Some r.
Proof. exact (union_total_S (fun _ _ => True) (fun _ _ => True)). Qed.

Theorem union_wf : forall c a b r, wf_oexpr a -> wf_oexpr b -> union c a b = Some r -> wf_oexpr r.
Proof. exact (union_wf_S (fun _ _ => True) (fun _ _ => True)). Qed.

(* ====================================================================== *)
(* summary                                                                 *)
(* ====================================================================== *)
Check grapheme_ind'.
Check expr_ind'.
Check g_eqb_eq.
Check expr_eqb_eq.
Check L_cluster_app.
Check L_alt_alts.
Check flatten_alt_lang.
Check sort_by_perm.
Check new_alternation_lang.
Check new_alternation_wf.
Check concatenate_lang.
Check concatenate_wf.
Check single_cp_spec.
Check cset_union_in.
Check hex_of_N_len.
Check escape_cp_len_ascii.
Check escape_cp_len_nonascii.
Check strip_true_lang.
Check strip_false_lang.
Check union2_spec.
Check union2_lang.
Check union2_total.
Check union2_wf.
Check union_lang.
Check union_total.
Check union_wf.

Print Assumptions g_eqb_eq.
Print Assumptions expr_eqb_eq.
Print Assumptions L_cluster_app.
Print Assumptions new_alternation_lang.
Print Assumptions new_alternation_wf.
Print Assumptions concatenate_lang.
Print Assumptions concatenate_wf.
Print Assumptions union2_lang.
Print Assumptions union2_total.
Print Assumptions union2_wf.
Print Assumptions union_lang.
Print Assumptions union_total.
Print Assumptions union_wf.
