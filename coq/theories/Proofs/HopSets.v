(* Hopcroft minimisation as modelled in Dfa.v: set-level facts about split_pass /
   update_worklist, the termination measure, the loop rule, totality of partition_of (for
   ANY dfa), and the structural invariants of the partition (goal 2). *)
From Grex Require Import Base.Str Model.Config Model.Cluster Model.Dfa.

(* ---------- sets ---------- *)
Lemma set_mem_In : forall x l, set_mem x l = true <-> In x l.
Proof.
  intros x. induction l as [|y l IH]; simpl.
  - split; [discriminate|tauto].
  - rewrite orb_true_iff, Nat.eqb_eq, IH. split; intros [H|H]; auto.
Qed.

Lemma set_mem_nIn : forall x l, set_mem x l = false <-> ~ In x l.
Proof.
  intros x l. rewrite <- set_mem_In. destruct (set_mem x l); split; intros H; try discriminate; auto.
  exfalso; apply H; reflexivity.
Qed.

Lemma In_dec_nat : forall (x : nat) l, In x l \/ ~ In x l.
Proof.
  intros x l. destruct (set_mem x l) eqn:E; [left; apply set_mem_In|right; apply set_mem_nIn]; exact E.
Qed.

Lemma set_inter_In : forall s y x, In s (set_inter y x) <-> In s y /\ In s x.
Proof. intros s y x. unfold set_inter. rewrite filter_In, set_mem_In. tauto. Qed.

Lemma set_diff_In : forall s y x, In s (set_diff y x) <-> In s y /\ ~ In s x.
Proof.
  intros s y x. unfold set_diff. rewrite filter_In, negb_true_iff, set_mem_nIn. tauto.
Qed.

Lemma inter_diff_length : forall y x, length (set_inter y x) + length (set_diff y x) = length y.
Proof.
  intros y x. unfold set_inter, set_diff. induction y as [|a y IH]; simpl; auto.
  destruct (set_mem a x); simpl; lia.
Qed.

Lemma list_eqb_nat_eq : forall a b, list_eqb Nat.eqb a b = true <-> a = b.
Proof.
  induction a as [|x a IH]; destruct b as [|y b]; simpl; split; intros H; try discriminate; auto.
  - apply andb_true_iff in H. destruct H as [H1 H2]. apply Nat.eqb_eq in H1. apply IH in H2.
    subst; reflexivity.
  - inversion H; subst. rewrite Nat.eqb_refl. simpl. apply IH. reflexivity.
Qed.

Lemma set_eqb_eq : forall a b, set_eqb a b = true <-> a = b.
Proof. exact list_eqb_nat_eq. Qed.

(* strictly increasing lists *)
Fixpoint incr (l : list nat) : Prop :=
  match l with
  | [] => True
  | x :: l' => (forall y, In y l' -> x < y) /\ incr l'
  end.

Lemma incr_filter : forall f l, incr l -> incr (filter f l).
Proof.
  intros f. induction l as [|x l IH]; simpl; intros H; auto.
  destruct H as [H1 H2]. destruct (f x); simpl; auto.
  split; auto. intros y Hy. apply filter_In in Hy. apply H1. tauto.
Qed.

Lemma incr_seq : forall n a, incr (seq a n).
Proof.
  induction n as [|n IH]; intros a; simpl; auto.
  split; auto. intros y Hy. apply in_seq in Hy. lia.
Qed.

(* ---------- split_pass ---------- *)
Definition isnil (l : block) : bool := match l with [] => true | _ => false end.
Definition splitb (x y : block) : bool :=
  negb (isnil (set_inter y x)) && negb (isnil (set_diff y x)).

Lemma isnil_false : forall l, isnil l = false <-> exists s, In s l.
Proof.
  destruct l as [|a l]; simpl; split; intros H; try discriminate; auto.
  - destruct H as [s []].
  - exists a; auto.
Qed.

Lemma isnil_true : forall l, isnil l = true <-> l = [].
Proof. destruct l; simpl; split; intros H; try discriminate; auto. Qed.

Lemma splitb_true : forall x y, splitb x y = true <->
  (exists s, In s y /\ In s x) /\ (exists t, In t y /\ ~ In t x).
Proof.
  intros x y. unfold splitb. rewrite andb_true_iff, !negb_true_iff, !isnil_false.
  split; intros [[s Hs] [t Ht]].
  - apply set_inter_In in Hs. apply set_diff_In in Ht. eauto.
  - split; [exists s; apply set_inter_In|exists t; apply set_diff_In]; auto.
Qed.

Lemma splitb_false : forall x y, splitb x y = false ->
  (forall s, In s y -> In s x) \/ (forall s, In s y -> ~ In s x).
Proof.
  intros x y H. unfold splitb in H. apply andb_false_iff in H.
  rewrite !negb_false_iff, !isnil_true in H. destruct H as [H|H].
  - right. intros s Hs Hx. assert (K : In s (set_inter y x)) by (apply set_inter_In; auto).
    rewrite H in K. destruct K.
  - left. intros s Hs. destruct (In_dec_nat s x) as [Hx|Hx]; auto.
    assert (K : In s (set_diff y x)) by (apply set_diff_In; auto). rewrite H in K. destruct K.
Qed.

Definition sp_fst (x : block) (p : list block) : list block := fst (split_pass x p).
Definition sp_snd (x : block) (p : list block) := snd (split_pass x p).

Lemma split_pass_cons : forall x y p,
  split_pass x (y :: p) =
  if splitb x y
  then (set_inter y x :: set_diff y x :: sp_fst x p, (y, set_inter y x, set_diff y x) :: sp_snd x p)
  else (y :: sp_fst x p, sp_snd x p).
Proof.
  intros x y p. unfold sp_fst, sp_snd, splitb. cbn [split_pass].
  destruct (split_pass x p) as [q rs]. simpl.
  destruct (set_inter y x); destruct (set_diff y x); reflexivity.
Qed.

Lemma sp_fst_cons : forall x y p,
  sp_fst x (y :: p) = if splitb x y then set_inter y x :: set_diff y x :: sp_fst x p
                      else y :: sp_fst x p.
Proof.
  intros. unfold sp_fst at 1. rewrite split_pass_cons. destruct (splitb x y); reflexivity.
Qed.

Lemma sp_snd_cons : forall x y p,
  sp_snd x (y :: p) = if splitb x y then (y, set_inter y x, set_diff y x) :: sp_snd x p
                      else sp_snd x p.
Proof.
  intros. unfold sp_snd at 1. rewrite split_pass_cons. destruct (splitb x y); reflexivity.
Qed.

Lemma sp_in : forall x p B, In B (sp_fst x p) <->
  (In B p /\ splitb x B = false)
  \/ (exists Y, In Y p /\ splitb x Y = true /\ (B = set_inter Y x \/ B = set_diff Y x)).
Proof.
  intros x. induction p as [|y p IH]; intros B.
  - simpl. split; [tauto|]. intros [[[] _]|(Y & [] & _)].
  - rewrite sp_fst_cons. destruct (splitb x y) eqn:E; simpl; rewrite IH; split.
    + intros [H|[H|[H|H]]].
      * right. exists y. auto.
      * right. exists y. auto.
      * left. tauto.
      * right. destruct H as (Y & H1 & H2). exists Y. tauto.
    + intros [[[H|H] H2]|(Y & [H|H] & H2 & H3)].
      * subst. congruence.
      * right; right; left. auto.
      * subst. destruct H3; subst; auto.
      * right; right; right. exists Y. auto.
    + intros [H|[H|H]].
      * subst. left. auto.
      * left. tauto.
      * right. destruct H as (Y & H1 & H2). exists Y. tauto.
    + intros [[[H|H] H2]|(Y & [H|H] & H2 & H3)].
      * auto.
      * right; left. auto.
      * subst. congruence.
      * right; right. exists Y. auto.
Qed.

Lemma sp_rs_in : forall x p Y i dd, In (Y, i, dd) (sp_snd x p) <->
  In Y p /\ splitb x Y = true /\ i = set_inter Y x /\ dd = set_diff Y x.
Proof.
  intros x. induction p as [|y p IH]; intros Y i dd.
  - simpl. tauto.
  - rewrite sp_snd_cons. destruct (splitb x y) eqn:E; simpl; rewrite IH; split.
    + intros [H|H]; [inversion H; subst; auto|tauto].
    + intros ([H|H] & H2 & H3 & H4); [subst; auto|right; auto].
    + tauto.
    + intros ([H|H] & H2 & H3 & H4); [subst; congruence|auto].
Qed.

Lemma sp_parent : forall x p B, In B (sp_fst x p) -> exists Y, In Y p /\ incl B Y.
Proof.
  intros x p B H. apply sp_in in H. destruct H as [[H _]|(Y & H1 & _ & [H|H])].
  - exists B. split; auto. apply incl_refl.
  - exists Y. split; auto. subst. intros s Hs. apply set_inter_In in Hs. tauto.
  - exists Y. split; auto. subst. intros s Hs. apply set_diff_In in Hs. tauto.
Qed.

Lemma sp_xstable : forall x p B, In B (sp_fst x p) ->
  (forall s, In s B -> In s x) \/ (forall s, In s B -> ~ In s x).
Proof.
  intros x p B H. apply sp_in in H. destruct H as [[_ H]|(Y & _ & _ & [H|H])].
  - apply splitb_false. exact H.
  - left. subst. intros s Hs. apply set_inter_In in Hs. tauto.
  - right. subst. intros s Hs. apply set_diff_In in Hs. tauto.
Qed.

Lemma sp_cover : forall x p Y s, In Y p -> In s Y -> exists B, In B (sp_fst x p) /\ In s B.
Proof.
  intros x p Y s HY Hs. destruct (splitb x Y) eqn:E.
  - destruct (In_dec_nat s x) as [Hx|Hx].
    + exists (set_inter Y x). split; [|apply set_inter_In; auto].
      apply sp_in. right. exists Y. auto.
    + exists (set_diff Y x). split; [|apply set_diff_In; auto].
      apply sp_in. right. exists Y. auto.
  - exists Y. split; auto. apply sp_in. left. auto.
Qed.

(* pairwise disjoint blocks (position-wise) *)
Fixpoint pdisj (p : list block) : Prop :=
  match p with
  | [] => True
  | y :: p' => (forall s, In s y -> forall z, In z p' -> ~ In s z) /\ pdisj p'
  end.

Lemma pdisj_eq : forall p B1 B2 s,
  pdisj p -> In B1 p -> In B2 p -> In s B1 -> In s B2 -> B1 = B2.
Proof.
  induction p as [|y p IH]; intros B1 B2 s Hd H1 H2 S1 S2; [destruct H1|].
  destruct Hd as [Hd1 Hd2]. destruct H1 as [H1|H1]; destruct H2 as [H2|H2].
  - congruence.
  - subst. exfalso. eapply Hd1; eauto.
  - subst. exfalso. eapply Hd1; eauto.
  - eapply IH; eauto.
Qed.

Lemma pdisj_split : forall x p, pdisj p -> pdisj (sp_fst x p).
Proof.
  intros x. induction p as [|y p IH]; intros Hd; [exact I|].
  destruct Hd as [Hd1 Hd2]. rewrite sp_fst_cons.
  assert (K : forall s, In s y -> forall z, In z (sp_fst x p) -> ~ In s z).
  { intros s Hs z Hz Hsz. apply sp_parent in Hz. destruct Hz as (Y & HY & Hi).
    eapply Hd1; eauto. }
  destruct (splitb x y); simpl.
  - split; [|split; [|apply IH; exact Hd2]].
    + intros s Hs z [Hz|Hz].
      * subst. rewrite set_diff_In. apply set_inter_In in Hs. tauto.
      * apply K; auto. apply set_inter_In in Hs. tauto.
    + intros s Hs z Hz. apply K; auto. apply set_diff_In in Hs. tauto.
  - split; [exact K|apply IH; exact Hd2].
Qed.

(* ---------- update_worklist ---------- *)
Definition triple := (block * block * block)%type.
Definition fst3 (r : triple) : block := fst (fst r).
Definition snd3 (r : triple) : block := snd (fst r).
Definition thd3 (r : triple) : block := snd r.

Definition uw_step (w : list block) (r : triple) : list block :=
  let '(y, i, d) := r in
  match remove_first_set y w with
  | Some w' => w' ++ [i; d]
  | None => w ++ [i; d]
  end.

Lemma uw_cons : forall w r rs, update_worklist w (r :: rs) = update_worklist (uw_step w r) rs.
Proof. intros w [[y i] d] rs. reflexivity. Qed.

Lemma rfs_some : forall y w w', remove_first_set y w = Some w' ->
  In y w /\ length w = S (length w')
  /\ (forall B, In B w' -> In B w) /\ (forall B, In B w -> B <> y -> In B w').
Proof.
  intros y. induction w as [|z w IH]; intros w' H; simpl in H; [discriminate|].
  destruct (set_eqb z y) eqn:E.
  - apply set_eqb_eq in E. inversion H; subst. simpl. split; [auto|]. split; [auto|].
    split; [auto|]. intros B [HB|HB] Hn; [congruence|auto].
  - destruct (remove_first_set y w) as [r|] eqn:R; [|discriminate]. inversion H; subst.
    destruct (IH _ eq_refl) as (I1 & I2 & I3 & I4). simpl. split; [auto|]. split; [lia|].
    split.
    + intros B [HB|HB]; auto.
    + intros B [HB|HB] Hn; auto.
Qed.

Lemma rfs_none : forall y w, remove_first_set y w = None -> ~ In y w.
Proof.
  intros y. induction w as [|z w IH]; simpl; intros H; [tauto|].
  destruct (set_eqb z y) eqn:E; [discriminate|].
  destruct (remove_first_set y w) as [r|] eqn:R; [discriminate|].
  intros [K|K]; [subst; rewrite (proj2 (set_eqb_eq y y) eq_refl) in E; discriminate|].
  apply IH; auto.
Qed.

Lemma rfs_in : forall y w, In y w -> exists w', remove_first_set y w = Some w'.
Proof.
  intros y w H. destruct (remove_first_set y w) as [w'|] eqn:R; [eauto|].
  exfalso. eapply rfs_none; eauto.
Qed.

Lemma uw_step_keep : forall w r B, In B w -> fst3 r <> B -> In B (uw_step w r).
Proof.
  intros w [[y i] d] B HB Hn. unfold fst3 in Hn; simpl in Hn. unfold uw_step.
  destruct (remove_first_set y w) as [w'|] eqn:R.
  - apply rfs_some in R. destruct R as (_ & _ & _ & R). apply in_or_app. left. apply R; auto.
  - apply in_or_app; left; exact HB.
Qed.

Lemma uw_step_from : forall w r B, In B (uw_step w r) -> In B w \/ B = snd3 r \/ B = thd3 r.
Proof.
  intros w [[y i] d] B H. unfold snd3, thd3; simpl. unfold uw_step in H.
  destruct (remove_first_set y w) as [w'|] eqn:R.
  - apply rfs_some in R. destruct R as (_ & _ & R & _). apply in_app_or in H.
    destruct H as [H|[H|[H|[]]]]; auto.
  - apply in_app_or in H. destruct H as [H|[H|[H|[]]]]; auto.
Qed.

Lemma uw_step_length : forall w r, length (uw_step w r) <= length w + 2.
Proof.
  intros w [[y i] d]. unfold uw_step. destruct (remove_first_set y w) as [w'|] eqn:R.
  - apply rfs_some in R. destruct R as (_ & R & _). rewrite app_length. simpl. lia.
  - rewrite app_length; simpl; lia.
Qed.

Lemma uw_keep : forall rs w B,
  In B w -> (forall r, In r rs -> fst3 r <> B) -> In B (update_worklist w rs).
Proof.
  induction rs as [|r rs IH]; intros w B HB Hn; [exact HB|].
  rewrite uw_cons. apply IH.
  - apply uw_step_keep; auto. apply Hn. left; reflexivity.
  - intros r' Hr'. apply Hn. right; exact Hr'.
Qed.

Lemma uw_from : forall rs w B, In B (update_worklist w rs) ->
  In B w \/ exists r, In r rs /\ (B = snd3 r \/ B = thd3 r).
Proof.
  induction rs as [|r rs IH]; intros w B H; [left; exact H|].
  rewrite uw_cons in H. apply IH in H. destruct H as [H|(r' & H1 & H2)].
  - apply uw_step_from in H. destruct H as [H|H]; [left; exact H|].
    right. exists r. split; [left; reflexivity|exact H].
  - right. exists r'. split; [right; exact H1|exact H2].
Qed.

Lemma uw_length : forall rs w, length (update_worklist w rs) <= length w + 2 * length rs.
Proof.
  induction rs as [|r rs IH]; intros w; [simpl; lia|].
  rewrite uw_cons. pose proof (IH (uw_step w r)). pose proof (uw_step_length w r). simpl. lia.
Qed.

(* later triples never mention the blocks of an earlier triple *)
Fixpoint rs_ok (rs : list triple) : Prop :=
  match rs with
  | [] => True
  | r :: rs' => (forall r', In r' rs' -> fst3 r' <> fst3 r /\ fst3 r' <> snd3 r /\ fst3 r' <> thd3 r)
                /\ rs_ok rs'
  end.

Lemma uw_both : forall rs w r, rs_ok rs -> In r rs -> In (fst3 r) w ->
  In (snd3 r) (update_worklist w rs) /\ In (thd3 r) (update_worklist w rs).
Proof.
  induction rs as [|r0 rs IH]; intros w r Hok Hr Hw; [destruct Hr|].
  destruct Hok as [Hok1 Hok2]. rewrite uw_cons. destruct Hr as [Hr|Hr].
  - subst r0. destruct r as [[y i] d]. unfold fst3, snd3, thd3 in *; simpl in *.
    destruct (rfs_in _ _ Hw) as [w' R]. rewrite R.
    split; apply uw_keep.
    + apply in_or_app. right. left. reflexivity.
    + intros r' Hr'. apply Hok1 in Hr'. tauto.
    + apply in_or_app. right. right. left. reflexivity.
    + intros r' Hr'. apply Hok1 in Hr'. tauto.
  - apply IH; auto. apply uw_step_keep; auto. apply Hok1 in Hr. intros K. symmetry in K. tauto.
Qed.

Lemma uw_one : forall rs w r, rs_ok rs -> In r rs ->
  In (snd3 r) (update_worklist w rs) \/ In (thd3 r) (update_worklist w rs).
Proof.
  induction rs as [|r0 rs IH]; intros w r Hok Hr; [destruct Hr|].
  destruct Hok as [Hok1 Hok2]. rewrite uw_cons. destruct Hr as [Hr|Hr].
  - subst r0.
    assert (K : In (snd3 r) (uw_step w r) \/ In (thd3 r) (uw_step w r)).
    { destruct r as [[y i] d]. unfold snd3, thd3; simpl.
      destruct (remove_first_set y w) as [w'|].
      - left. apply in_or_app. right. left. reflexivity.
      - left. apply in_or_app. right. left. reflexivity. }
    destruct K as [K|K]; [left|right]; apply uw_keep; auto;
      intros r' Hr'; apply Hok1 in Hr'; tauto.
  - apply IH; auto.
Qed.

(* both halves of every split block are on the work-list afterwards (whether or not the
   split block was there) *)
Lemma uw_both_any : forall rs w r, rs_ok rs -> In r rs ->
  In (snd3 r) (update_worklist w rs) /\ In (thd3 r) (update_worklist w rs).
Proof.
  induction rs as [|r0 rs IH]; intros w r Hok Hr; [destruct Hr|].
  destruct Hok as [Hok1 Hok2]. rewrite uw_cons. destruct Hr as [Hr|Hr].
  - subst r0.
    assert (K : In (snd3 r) (uw_step w r) /\ In (thd3 r) (uw_step w r)).
    { destruct r as [[y i] d]. unfold snd3, thd3; simpl.
      destruct (remove_first_set y w) as [w'|]; split; apply in_or_app; right; simpl; auto. }
    destruct K as [K1 K2]. split; apply uw_keep; auto;
      intros r' Hr'; apply Hok1 in Hr'; tauto.
  - apply IH; auto.
Qed.

Lemma sp_rs_ok : forall x p, pdisj p -> rs_ok (sp_snd x p).
Proof.
  intros x. induction p as [|y p IH]; intros Hd; [exact I|].
  destruct Hd as [Hd1 Hd2]. rewrite sp_snd_cons. destruct (splitb x y) eqn:E; [|auto].
  simpl. split; [|auto].
  intros [[Y i] dd] Hr. unfold fst3, snd3, thd3; simpl.
  apply sp_rs_in in Hr. destruct Hr as (HY & HS & _ & _).
  apply splitb_true in HS. destruct HS as [(s & Hs & _) _].
  apply splitb_true in E. destruct E as [(a & Ha & Hax) (b & Hb & Hbx)].
  split; [|split]; intros K.
  - subst Y. eapply Hd1; eauto.
  - subst Y. eapply (Hd1 a Ha _ HY). apply set_inter_In. auto.
  - subst Y. eapply (Hd1 b Hb _ HY). apply set_diff_In. auto.
Qed.

(* ---------- the measure ---------- *)
Definition mu (p : list block) : nat := fold_right (fun y a => pred (length y) + a) 0 p.
Definition Phi (p w : list block) : nat := length w + 2 * mu p.

Lemma sp_mu : forall x p, mu (sp_fst x p) + length (sp_snd x p) = mu p.
Proof.
  intros x. induction p as [|y p IH]; [reflexivity|].
  rewrite sp_fst_cons, sp_snd_cons. destruct (splitb x y) eqn:E; simpl; [|lia].
  unfold splitb in E. apply andb_true_iff in E. destruct E as [E1 E2].
  pose proof (inter_diff_length y x) as L.
  destruct (set_inter y x); [discriminate|]. destruct (set_diff y x); [discriminate|].
  simpl in *. lia.
Qed.

Lemma refine_by_eq : forall es a p w c,
  refine_by es a (p, w) c
  = (sp_fst (parent_states es a c) p, update_worklist w (sp_snd (parent_states es a c) p)).
Proof.
  intros. unfold refine_by, sp_fst, sp_snd.
  destruct (split_pass (parent_states es a c) p) as [q rs]. reflexivity.
Qed.

Lemma refine_Phi : forall es a pw c,
  Phi (fst (refine_by es a pw c)) (snd (refine_by es a pw c)) <= Phi (fst pw) (snd pw).
Proof.
  intros es a [p w] c. rewrite refine_by_eq. simpl. unfold Phi.
  pose proof (uw_length (sp_snd (parent_states es a c) p) w).
  pose proof (sp_mu (parent_states es a c) p). lia.
Qed.

Lemma fold_refine_Phi : forall es a alpha pw,
  Phi (fst (fold_left (refine_by es a) alpha pw)) (snd (fold_left (refine_by es a) alpha pw))
  <= Phi (fst pw) (snd pw).
Proof.
  intros es a. induction alpha as [|c alpha IH]; intros pw; [apply Nat.le_refl|].
  simpl. eapply Nat.le_trans; [apply IH|apply refine_Phi].
Qed.

(* ---------- the loop rule ---------- *)
Lemma loop_rule : forall es alpha (I : list block -> list block -> Prop),
  (forall a p w, I p (a :: w) ->
     I (fst (fold_left (refine_by es a) alpha (p, w))) (snd (fold_left (refine_by es a) alpha (p, w)))) ->
  forall fuel p w, I p w -> Phi p w <= fuel ->
    exists p', hopcroft_loop fuel es alpha p w = Some p' /\ I p' [].
Proof.
  intros es alpha I Hstep. induction fuel as [|fuel IH]; intros p w HI HP.
  - destruct w as [|a w]; [simpl; eauto|]. unfold Phi in HP. simpl in HP. lia.
  - destruct w as [|a w]; [simpl; eauto|]. simpl.
    pose proof (Hstep _ _ _ HI) as HI'.
    pose proof (fold_refine_Phi es a alpha (p, w)) as HP'.
    destruct (fold_left (refine_by es a) alpha (p, w)) as [p' w'']. simpl in *.
    apply IH; auto. unfold Phi in *. simpl in HP. lia.
Qed.

Lemma filter_compl_length : forall (f : nat -> bool) l,
  length (filter (fun s => negb (f s)) l) + length (filter f l) = length l.
Proof. intros f. induction l as [|a l IH]; simpl; auto. destruct (f a); simpl; lia. Qed.

Lemma Phi_init : forall d, Phi (initial_partition d) (initial_partition d) <= 2 * d_n d + 4.
Proof.
  intros d. unfold Phi, initial_partition, mu. simpl.
  pose proof (filter_compl_length (fun s => set_mem s (d_finals d)) (seq 0 (d_n d))) as L.
  rewrite seq_length in L. lia.
Qed.

(* GOAL 1, for every dfa *)
Theorem partition_total_any : forall d, exists p, partition_of d = Some p.
Proof.
  intros d. unfold partition_of.
  destruct (loop_rule (d_edges d) (d_alphabet d) (fun _ _ => True) (fun _ _ _ _ => I)
              (2 * d_n d + 4) (initial_partition d) (initial_partition d) I (Phi_init d))
    as (p' & Hp & _).
  rewrite Hp. eauto.
Qed.

(* ---------- no duplicates in the worklist ---------- *)
Definition halves (rs : list triple) : list block := flat_map (fun r => [snd3 r; thd3 r]) rs.

Lemma nodup_snoc : forall (w : list block) b, NoDup w -> ~ In b w -> NoDup (w ++ [b]).
Proof.
  induction w as [|a w IH]; intros b Hn Hb; simpl.
  - constructor; [tauto|constructor].
  - inversion Hn; subst. constructor.
    + intros K. apply in_app_or in K. destruct K as [K|[K|[]]]; [tauto|].
      subst. apply Hb. left; reflexivity.
    + apply IH; auto. intros K. apply Hb. right; exact K.
Qed.

Lemma rfs_nodup : forall y w w', NoDup w -> remove_first_set y w = Some w' ->
  NoDup w' /\ ~ In y w'.
Proof.
  intros y. induction w as [|z w IH]; intros w' Hn H; simpl in H; [discriminate|].
  inversion Hn; subst. destruct (set_eqb z y) eqn:E.
  - apply set_eqb_eq in E. inversion H; subst. auto.
  - destruct (remove_first_set y w) as [r|] eqn:R; [|discriminate]. inversion H; subst.
    destruct (IH _ H3 eq_refl) as [I1 I2]. split.
    + constructor; auto. intros K. apply rfs_some in R. destruct R as (_ & _ & R & _). auto.
    + intros [K|K]; [|tauto]. subst. rewrite (proj2 (set_eqb_eq y y) eq_refl) in E. discriminate.
Qed.

Lemma uw_step_nodup : forall w r, NoDup w -> snd3 r <> thd3 r ->
  ~ In (snd3 r) w -> ~ In (thd3 r) w -> NoDup (uw_step w r).
Proof.
  intros w [[y i] d] Hn Hid Hi Hd. unfold snd3, thd3 in *; simpl in *.
  destruct (remove_first_set y w) as [w'|] eqn:R.
  - destruct (rfs_nodup _ _ _ Hn R) as [N1 _]. apply rfs_some in R.
    destruct R as (_ & _ & R & _).
    change (w' ++ [i; d]) with (w' ++ [i] ++ [d]). rewrite app_assoc.
    apply nodup_snoc; [apply nodup_snoc; auto|].
    intros K. apply in_app_or in K. destruct K as [K|[K|[]]]; auto.
  - change (w ++ [i; d]) with (w ++ [i] ++ [d]). rewrite app_assoc.
    apply nodup_snoc; [apply nodup_snoc; auto|].
    intros K. apply in_app_or in K. destruct K as [K|[K|[]]]; auto.
Qed.

Lemma uw_nodup : forall rs w, NoDup w -> NoDup (halves rs) ->
  (forall b, In b (halves rs) -> ~ In b w) -> NoDup (update_worklist w rs).
Proof.
  induction rs as [|r rs IH]; intros w Hn Hh Hw; [exact Hn|].
  rewrite uw_cons. simpl in Hh. inversion Hh as [|? ? H1 H2]; subst.
  inversion H2 as [|? ? H3 H4]; subst.
  apply IH; auto.
  - apply uw_step_nodup; auto.
    + intros K. apply H1. left. symmetry. exact K.
    + apply Hw. left; reflexivity.
    + apply Hw. right; left; reflexivity.
  - intros b Hb K. apply uw_step_from in K. destruct K as [K|[K|K]].
    + eapply Hw; [right; right; exact Hb|exact K].
    + subst. apply H1. right. exact Hb.
    + subst. apply H3. exact Hb.
Qed.

Lemma halves_step_fresh : forall r rs w,
  NoDup (halves (r :: rs)) -> (forall b, In b (halves (r :: rs)) -> ~ In b w) ->
  NoDup (halves rs) /\ (forall b, In b (halves rs) -> ~ In b (uw_step w r))
  /\ snd3 r <> thd3 r /\ ~ In (snd3 r) w /\ ~ In (thd3 r) w.
Proof.
  intros r rs w Hh Hw. simpl in Hh. inversion Hh as [|? ? H1 H2]; subst.
  inversion H2 as [|? ? H3 H4]; subst. split; [exact H4|]. split; [|split; [|split]].
  - intros b Hb K. apply uw_step_from in K. destruct K as [K|[K|K]].
    + eapply Hw; [right; right; exact Hb|exact K].
    + subst. apply H1. right. exact Hb.
    + subst. apply H3. exact Hb.
  - intros K. apply H1. left. symmetry. exact K.
  - apply Hw. left; reflexivity.
  - apply Hw. right; left; reflexivity.
Qed.

(* a split block that was in the (duplicate-free) worklist is gone afterwards *)
Lemma uw_removed : forall rs w r, rs_ok rs -> NoDup w -> NoDup (halves rs) ->
  (forall b, In b (halves rs) -> ~ In b w) -> In r rs -> In (fst3 r) w ->
  ~ In (fst3 r) (update_worklist w rs).
Proof.
  induction rs as [|r0 rs IH]; intros w r Hok Hn Hh Hf Hr Hw; [destruct Hr|].
  destruct Hok as [Hok1 Hok2]. rewrite uw_cons.
  destruct (halves_step_fresh _ _ _ Hh Hf) as (F1 & F2 & F3 & F4 & F5).
  destruct Hr as [Hr|Hr].
  - subst r0. intros K. apply uw_from in K. destruct K as [K|(r' & K1 & K2)].
    + destruct r as [[y i] d]. unfold fst3, snd3, thd3 in *; simpl in *.
      destruct (rfs_in _ _ Hw) as [w' R]. rewrite R in K.
      destruct (rfs_nodup _ _ _ Hn R) as [_ N2].
      apply in_app_or in K. destruct K as [K|[K|[K|[]]]]; [auto|subst; auto|subst; auto].
    + apply (Hf (fst3 r)); [|exact Hw]. simpl. right; right. unfold halves.
      apply in_flat_map. exists r'. split; auto. simpl. destruct K2; auto.
  - assert (D : fst3 r <> fst3 r0 /\ fst3 r <> snd3 r0 /\ fst3 r <> thd3 r0) by (apply Hok1; auto).
    apply IH; auto.
    + apply uw_step_nodup; auto.
    + apply uw_step_keep; auto. intros K. symmetry in K. tauto.
Qed.

Lemma sp_halves_in : forall x p b, In b (halves (sp_snd x p)) ->
  exists Y, In Y p /\ splitb x Y = true /\ (b = set_inter Y x \/ b = set_diff Y x).
Proof.
  intros x p b H. unfold halves in H. apply in_flat_map in H. destruct H as ([[Y i] dd] & H1 & H2).
  apply sp_rs_in in H1. destruct H1 as (H3 & H4 & -> & ->). exists Y.
  unfold snd3, thd3 in H2; simpl in H2. destruct H2 as [H2|[H2|[]]]; auto.
Qed.

Lemma sp_halves_nodup : forall x p, pdisj p -> NoDup (halves (sp_snd x p)).
Proof.
  intros x. induction p as [|y p IH]; intros Hd; [constructor|].
  destruct Hd as [Hd1 Hd2]. rewrite sp_snd_cons. destruct (splitb x y) eqn:E; [|auto].
  apply splitb_true in E. destruct E as [(a & Ha & Hax) (b & Hb & Hbx)].
  simpl. unfold snd3, thd3; simpl.
  assert (K : forall h s, In s y -> In s h -> ~ In h (halves (sp_snd x p))).
  { intros h s Hs Hsh Hh. apply sp_halves_in in Hh. destruct Hh as (Y & H1 & _ & H3).
    apply (Hd1 s Hs Y H1).
    destruct H3; subst h; [apply set_inter_In in Hsh|apply set_diff_In in Hsh]; tauto. }
  constructor; [|constructor; [|auto]].
  - intros [H|H].
    + assert (In a (set_diff y x)) by (rewrite H; apply set_inter_In; auto).
      apply set_diff_In in H0. tauto.
    + eapply (K _ a Ha); [|exact H]. apply set_inter_In; auto.
  - eapply (K _ b Hb). apply set_diff_In; auto.
Qed.

(* ---------- structural invariants ---------- *)
Record Struct (n : nat) (fin : list nat) (p w : list block) : Prop := {
  st_disj : pdisj p;
  st_cover : forall s, s < n -> exists Y, In Y p /\ In s Y;
  st_range : forall Y s, In Y p -> In s Y -> s < n;
  st_incr : forall Y, In Y p -> incr Y;
  st_fin : forall Y s t, In Y p -> In s Y -> In t Y -> set_mem s fin = set_mem t fin;
  st_w : forall B, In B w -> B <> [] -> In B p;
  st_wnd : NoDup w
}.

(* what the ghost-state arguments need to know about one refinement step *)
Record RefStep (p w p' w' : list block) : Prop := {
  r_parent : forall B', In B' p' -> B' <> [] ->
               exists Y, In Y p /\ incl B' Y /\ (In Y w -> In B' w');
  r_one : forall B1 B2 Y, In B1 p' -> In B2 p' -> B1 <> [] -> B2 <> [] -> In Y p ->
            incl B1 Y -> incl B2 Y -> ~ In B1 w' -> ~ In B2 w' -> B1 = B2
}.

Lemma nonempty_ex : forall (B : block), B <> [] -> exists s, In s B.
Proof. destruct B as [|a B]; intros H; [congruence|exists a; left; reflexivity]. Qed.

Lemma refine_struct : forall n fin x p w,
  Struct n fin p w ->
  Struct n fin (sp_fst x p) (update_worklist w (sp_snd x p))
  /\ RefStep p w (sp_fst x p) (update_worklist w (sp_snd x p)).
Proof.
  intros n fin x p w [Hd Hc Hr Hi Hf Hw Hnd].
  assert (Hok : rs_ok (sp_snd x p)) by (apply sp_rs_ok; exact Hd).
  assert (Hhn : NoDup (halves (sp_snd x p))) by (apply sp_halves_nodup; exact Hd).
  assert (Hhw : forall b, In b (halves (sp_snd x p)) -> ~ In b w).
  { intros b Hb Hbw. apply sp_halves_in in Hb. destruct Hb as (Y & H1 & H2 & H3).
    apply splitb_true in H2. destruct H2 as [(s & Hs & Hsx) (t & Ht & Htx)].
    assert (Hne : b <> []).
    { destruct H3; subst b; intros K.
      - assert (In s (set_inter Y x)) by (apply set_inter_In; auto). rewrite K in H. destruct H.
      - assert (In t (set_diff Y x)) by (apply set_diff_In; auto). rewrite K in H. destruct H. }
    pose proof (Hw _ Hbw Hne) as Hbp.
    destruct H3; subst b.
    - assert (set_inter Y x = Y).
      { apply (pdisj_eq p _ _ s Hd Hbp H1); [apply set_inter_In; auto|exact Hs]. }
      rewrite <- H in Ht. apply set_inter_In in Ht. tauto.
    - assert (set_diff Y x = Y).
      { apply (pdisj_eq p _ _ t Hd Hbp H1); [apply set_diff_In; auto|exact Ht]. }
      rewrite <- H in Hs. apply set_diff_In in Hs. tauto. }
  (* a block of p' that lies inside a block Y of p is Y itself or one of its halves *)
  assert (Hsub : forall B' Y, In B' (sp_fst x p) -> B' <> [] -> In Y p -> incl B' Y ->
            (B' = Y /\ splitb x Y = false)
            \/ (splitb x Y = true /\ (B' = set_inter Y x \/ B' = set_diff Y x))).
  { intros B' Y HB' Hne HY Hin. destruct (nonempty_ex _ Hne) as [s Hs].
    apply sp_in in HB'. destruct HB' as [[H1 H2]|(Y0 & H1 & H2 & H3)].
    - assert (B' = Y) by (eapply pdisj_eq; eauto). subst. left. auto.
    - assert (In s Y0).
      { destruct H3; subst B'; [apply set_inter_In in Hs|apply set_diff_In in Hs]; tauto. }
      assert (Y0 = Y) by (eapply pdisj_eq; eauto). subst. right. auto. }
  split; [constructor|constructor].
  - apply pdisj_split. exact Hd.
  - intros s Hs. destruct (Hc s Hs) as (Y & HY & HsY). eapply sp_cover; eauto.
  - intros B s HB Hs. apply sp_parent in HB. destruct HB as (Y & HY & Hin). eapply Hr; eauto.
  - intros B HB. apply sp_in in HB. destruct HB as [[H _]|(Y & H1 & _ & [H|H])]; subst; auto.
    + apply incr_filter; auto.
    + apply incr_filter; auto.
  - intros B s t HB Hs Ht. apply sp_parent in HB. destruct HB as (Y & HY & Hin). eapply Hf; eauto.
  - intros B HB Hne. apply uw_from in HB as HB'. destruct HB' as [HB'|(r & Hr1 & Hr2)].
    + pose proof (Hw _ HB' Hne) as HBp. destruct (splitb x B) eqn:E.
      * exfalso.
        assert (Hin : In (B, set_inter B x, set_diff B x) (sp_snd x p)) by (apply sp_rs_in; auto).
        exact (uw_removed _ _ _ Hok Hnd Hhn Hhw Hin HB' HB).
      * apply sp_in. left. auto.
    + destruct r as [[Y i] dd]. unfold snd3, thd3 in Hr2; simpl in Hr2.
      apply sp_rs_in in Hr1. destruct Hr1 as (H1 & H2 & -> & ->).
      apply sp_in. right. exists Y. split; auto.
  - apply uw_nodup; auto.
  - intros B' HB' Hne. destruct (sp_parent _ _ _ HB') as (Y & HY & Hin).
    exists Y. split; [exact HY|]. split; [exact Hin|]. intros HYw.
    destruct (Hsub _ _ HB' Hne HY Hin) as [[-> E]|[E HB2]].
    + apply uw_keep; auto. intros [[Y0 i] dd] Hr0 K. unfold fst3 in K; simpl in K. subst Y0.
      apply sp_rs_in in Hr0. destruct Hr0 as (_ & E' & _). congruence.
    + assert (Hin3 : In (Y, set_inter Y x, set_diff Y x) (sp_snd x p)) by (apply sp_rs_in; auto).
      destruct (uw_both _ w _ Hok Hin3 HYw) as [U1 U2]. unfold snd3, thd3 in *; simpl in *.
      destruct HB2; subst; auto.
  - intros B1 B2 Y H1 H2 N1 N2 HY I1 I2 W1 W2.
    destruct (Hsub _ _ H1 N1 HY I1) as [[-> E1]|[E1 K1]];
      destruct (Hsub _ _ H2 N2 HY I2) as [[-> E2]|[E2 K2]]; try congruence.
    assert (Hin3 : In (Y, set_inter Y x, set_diff Y x) (sp_snd x p)) by (apply sp_rs_in; auto).
    destruct (uw_one _ w _ Hok Hin3) as [U|U]; unfold snd3, thd3 in U; simpl in U;
      destruct K1; destruct K2; subst; try reflexivity; tauto.
Qed.

(* ---------- the structural invariant through the whole algorithm ---------- *)
Lemma Struct_init : forall d, 1 <= d_n d ->
  Struct (d_n d) (d_finals d) (initial_partition d) (initial_partition d).
Proof.
  intros d Hn. unfold initial_partition. constructor.
  - simpl. split; [|split; [|exact I]].
    + intros s Hs z [Hz|[]]. subst z. intros K. apply filter_In in Hs. apply filter_In in K.
      destruct Hs as [_ Hs]. destruct K as [_ K]. rewrite K in Hs. discriminate.
    + intros s Hs z [].
  - intros s Hs. assert (Hin : In s (seq 0 (d_n d))) by (apply in_seq; lia).
    destruct (set_mem s (d_finals d)) eqn:E.
    + eexists. split; [right; left; reflexivity|]. apply filter_In. auto.
    + eexists. split; [left; reflexivity|]. apply filter_In. rewrite E. auto.
  - intros Y s [HY|[HY|[]]] Hs; subst Y; apply filter_In in Hs; destruct Hs as [Hs _];
      apply in_seq in Hs; lia.
  - intros Y [HY|[HY|[]]]; subst Y; apply incr_filter; apply incr_seq.
  - intros Y s t [HY|[HY|[]]] Hs Ht; subst Y; apply filter_In in Hs; apply filter_In in Ht;
      destruct Hs as [_ Hs]; destruct Ht as [_ Ht].
    + apply negb_true_iff in Hs. apply negb_true_iff in Ht. congruence.
    + congruence.
  - intros B HB _. exact HB.
  - assert (Hin : In 0 (seq 0 (d_n d))) by (apply in_seq; lia).
    constructor; [|constructor; [intros []|constructor]].
    intros [K|[]].
    destruct (set_mem 0 (d_finals d)) eqn:E.
    + assert (H1 : In 0 (filter (fun s => set_mem s (d_finals d)) (seq 0 (d_n d))))
        by (apply filter_In; auto).
      rewrite K in H1. apply filter_In in H1. destruct H1 as [_ H1]. rewrite E in H1. discriminate.
    + assert (H1 : In 0 (filter (fun s => negb (set_mem s (d_finals d))) (seq 0 (d_n d))))
        by (apply filter_In; rewrite E; auto).
      rewrite <- K in H1. apply filter_In in H1. destruct H1 as [_ H1]. rewrite E in H1. discriminate.
Qed.

Lemma Struct_pop : forall n fin p a w, Struct n fin p (a :: w) -> Struct n fin p w.
Proof.
  intros n fin p a w [H1 H2 H3 H4 H5 H6 H7]. constructor; auto.
  - intros B HB. apply H6. right; exact HB.
  - inversion H7; auto.
Qed.

Lemma Struct_refine : forall n fin es a pw c,
  Struct n fin (fst pw) (snd pw) ->
  Struct n fin (fst (refine_by es a pw c)) (snd (refine_by es a pw c)).
Proof.
  intros n fin es a [p w] c H. rewrite refine_by_eq. simpl in *.
  apply refine_struct. exact H.
Qed.

Lemma Struct_fold : forall n fin es a alpha pw,
  Struct n fin (fst pw) (snd pw) ->
  Struct n fin (fst (fold_left (refine_by es a) alpha pw)) (snd (fold_left (refine_by es a) alpha pw)).
Proof.
  intros n fin es a. induction alpha as [|c alpha IH]; intros pw H; [exact H|].
  simpl. apply IH. apply Struct_refine. exact H.
Qed.

Lemma pdisj_filter : forall f p, pdisj p -> pdisj (filter f p).
Proof.
  intros f. induction p as [|y p IH]; intros H; [exact I|].
  destruct H as [H1 H2]. simpl. destruct (f y); simpl; auto.
  split; auto. intros s Hs z Hz. apply filter_In in Hz. apply H1; tauto.
Qed.

Definition nonnil (b : block) : bool := match b with [] => false | _ => true end.

Lemma partition_of_inv : forall d p, partition_of d = Some p ->
  exists p', hopcroft_loop (2 * d_n d + 4) (d_edges d) (d_alphabet d)
               (initial_partition d) (initial_partition d) = Some p'
             /\ p = filter nonnil p'.
Proof.
  intros d p H. unfold partition_of in H.
  destruct (hopcroft_loop _ _ _ _ _) as [p'|]; [|discriminate].
  inversion H; subst. exists p'. split; reflexivity.
Qed.

Lemma nonnil_true : forall b, nonnil b = true <-> b <> [].
Proof. destruct b; simpl; split; intros H; try discriminate; congruence. Qed.

(* GOAL 2 *)
Theorem partition_is_partition_any : forall d p,
  1 <= d_n d -> partition_of d = Some p ->
  (forall B, In B p ->
     B <> [] /\ incr B /\ (forall s, In s B -> s < d_n d)
     /\ (forall s t, In s B -> In t B -> set_mem s (d_finals d) = set_mem t (d_finals d)))
  /\ pdisj p
  /\ (forall s, s < d_n d -> exists B, In B p /\ In s B).
Proof.
  intros d p Hn H. apply partition_of_inv in H. destruct H as (p' & Hl & ->).
  destruct (loop_rule (d_edges d) (d_alphabet d) (Struct (d_n d) (d_finals d))) with
    (fuel := 2 * d_n d + 4) (p := initial_partition d) (w := initial_partition d)
    as (p'' & Hp'' & HS).
  - intros a p w HS. apply (Struct_fold _ _ _ _ _ (p, w)). simpl. eapply Struct_pop; eauto.
  - apply Struct_init; auto.
  - apply Phi_init.
  - rewrite Hl in Hp''. inversion Hp''; subst p''. destruct HS as [H1 H2 H3 H4 H5 _ _].
    split; [|split].
    + intros B HB. apply filter_In in HB. destruct HB as [HB Hne]. apply nonnil_true in Hne.
      split; [auto|]. split; [auto|]. split; [eauto|eauto].
    + apply pdisj_filter; auto.
    + intros s Hs. destruct (H2 s Hs) as (Y & HY & HsY). exists Y. split; auto.
      apply filter_In. split; auto. destruct Y; [destruct HsY|reflexivity].
Qed.

Lemma block_index_same : forall p B s t k,
  pdisj p -> In B p -> In s B -> In t B -> block_index s p k = block_index t p k.
Proof.
  induction p as [|b p IH]; intros B s t k Hd HB Hs Ht; [destruct HB|].
  simpl. destruct (set_mem s b) eqn:E1; destruct (set_mem t b) eqn:E2; auto.
  - apply set_mem_In in E1. apply set_mem_nIn in E2. exfalso. apply E2.
    assert (B = b) by (apply (pdisj_eq (b :: p) B b s Hd HB (or_introl eq_refl) Hs E1)). subst; auto.
  - apply set_mem_In in E2. apply set_mem_nIn in E1. exfalso. apply E1.
    assert (B = b) by (apply (pdisj_eq (b :: p) B b t Hd HB (or_introl eq_refl) Ht E2)). subst; auto.
  - destruct HB as [HB|HB].
    + subst. apply set_mem_nIn in E1. tauto.
    + destruct Hd as [_ Hd]. eapply IH; eauto.
Qed.
