(* Haystacks are sequences of Unicode scalar values.

   The end-to-end theorems of EndToEnd.v ask of the denotation of literals that a SURROGATE
   pattern character denotes nothing (`forall c0 x, surrogate c0 -> ~ lit_den c0 x`): a class
   whose members straddle the surrogate gap prints as a range that contains the surrogates.
   Equality (lit_cs) and simple case folding (lit_ci) do not satisfy this literally (c0 accepts
   c0), but they do once the haystack is known to consist of scalar values.  This file makes
   that precise:

     on_scalar lit c x := lit c x /\ scalar x
     m_mono_on            the matching relation only looks at the denotations on the code
                          points of the haystack
     m_on_scalar          on a scalar haystack, lit and on_scalar lit give the same matches
     Spec_on_scalar       ... and the same specification language
     lit_cs_sur, lit_ci_sur   on_scalar lit_cs / on_scalar lit_ci satisfy the hypothesis

   and relates the two definitions of the engine's Perl classes (EngineDen.cls_engine, used by
   the property theorems, and ExecCi.cls_engine, used by the extracted matcher).
   No existing file is modified. *)
From Grex Require Import Base.Str Base.Ranges Model.Config Model.Cluster Model.Pipeline.
From Grex Require Import Engine.Syntax Engine.Parse Engine.Sem Engine.ExecCi.
From Grex Require Import Proofs.Lang Proofs.Spec Proofs.FoldTables Proofs.EngineDen.
From Grex Require Import Proofs.PrintParseDefs Proofs.PrintParseSem.
From Grex Require Import Proofs.PropsGlue Proofs.ExecCiSound.
From GrexGen Require Import GrexTables OracleTables.
Local Open Scope N_scope.

(* ---------- the two formulations of "Unicode scalar value" ---------- *)
Lemma scalar_is_scalar : forall x, scalar x <-> is_scalar x = true.
Proof.
  intros x. unfold scalar, is_scalar_value, is_scalar, scalar_ranges, Ranges.mem, Ranges.in_range.
  cbn [existsb fst snd]. rewrite orb_false_r.
  rewrite !orb_true_iff, !andb_true_iff, N.ltb_lt, !N.leb_le. unfold cp in *. lia.
Qed.

Lemma Forall_scalar_is_scalar : forall s, Forall scalar s <-> Forall (fun x => is_scalar x = true) s.
Proof.
  intros s. split; intros H; (eapply Forall_impl; [|exact H]); intros x Hx;
    apply scalar_is_scalar; exact Hx.
Qed.

Lemma surrogate_not_scalar : forall x, surrogate x -> ~ scalar x.
Proof.
  intros x [H1 H2] H. unfold scalar, is_scalar_value in H.
  apply orb_true_iff in H. destruct H as [H|H].
  - apply N.ltb_lt in H. unfold cp in *. lia.
  - apply andb_true_iff in H. destruct H as [H _]. apply N.leb_le in H. unfold cp in *. lia.
Qed.

(* ---------- the matching relation is monotone in the denotations, on the haystack ---------- *)
Section Mono.
  Variable lit1 lit2 cls1 cls2 : cp -> cp -> Prop.
  Variable h : str.
  Hypothesis Hlit : forall c x, In x h -> lit1 c x -> lit2 c x.
  Hypothesis Hcls : forall l x, In x h -> cls1 l x -> cls2 l x.

  Lemma m_mono_on : forall r i j, m lit1 cls1 h r i j -> m lit2 cls2 h r i j.
  Proof.
    apply (m_mut lit1 cls1 h (fun r i j => m lit2 cls2 h r i j)
                 (fun r n i j => m_iter lit2 cls2 h r n i j)).
    - intros i. apply m_empty.
    - intros c x i Hn Hl. apply (m_lit _ _ _ c x i Hn). apply Hlit; [|exact Hl].
      exact (nth_error_In h i Hn).
    - intros l x i Hn Hl. apply (m_perl _ _ _ l x i Hn). apply Hcls; [|exact Hl].
      exact (nth_error_In h i Hn).
    - intros items lo hi c x i Hin Hlo Hhi Hn Hl.
      apply (m_bracket _ _ _ items lo hi c x i Hin Hlo Hhi Hn). apply Hlit; [|exact Hl].
      exact (nth_error_In h i Hn).
    - apply m_start.
    - apply m_end.
    - intros cap r i j _ IH. apply m_group. exact IH.
    - intros a b i k j _ IHa _ IHb. exact (m_cat _ _ _ a b i k j IHa IHb).
    - intros a b i j _ IH. apply m_alt_l. exact IH.
    - intros a b i j _ IH. apply m_alt_r. exact IH.
    - intros r lo hi n i j Hlo Hhi _ IH. exact (m_rep _ _ _ r lo hi n i j Hlo Hhi IH).
    - intros r i. apply mi_0.
    - intros r n i k j _ IH1 _ IH2. exact (mi_S _ _ _ r n i k j IH1 IH2).
  Qed.
End Mono.

(* equivalent denotations (on the haystack): the same matches *)
Theorem m_ext_on : forall (lit1 lit2 cls1 cls2 : cp -> cp -> Prop) h,
  (forall c x, In x h -> (lit1 c x <-> lit2 c x)) ->
  (forall l x, In x h -> (cls1 l x <-> cls2 l x)) ->
  forall r i j, m lit1 cls1 h r i j <-> m lit2 cls2 h r i j.
Proof.
  intros lit1 lit2 cls1 cls2 h Hl Hc r i j. split; apply m_mono_on.
  - intros c x Hx. apply Hl. exact Hx.
  - intros l x Hx. apply Hc. exact Hx.
  - intros c x Hx. apply Hl. exact Hx.
  - intros l x Hx. apply Hc. exact Hx.
Qed.

Corollary L_rast_ext : forall (lit1 lit2 cls1 cls2 : cp -> cp -> Prop),
  (forall c x, lit1 c x <-> lit2 c x) -> (forall l x, cls1 l x <-> cls2 l x) ->
  forall r h, L_rast lit1 cls1 r h <-> L_rast lit2 cls2 r h.
Proof.
  intros lit1 lit2 cls1 cls2 Hl Hc r h. unfold L_rast. apply m_ext_on.
  - intros c x _. apply Hl.
  - intros l x _. apply Hc.
Qed.

(* ---------- restricting the denotation of literals to scalar haystack characters ---------- *)
Definition on_scalar (lit : cp -> cp -> Prop) : cp -> cp -> Prop := fun c x => lit c x /\ scalar x.

Theorem m_on_scalar : forall (lit cls : cp -> cp -> Prop) h, Forall scalar h ->
  forall r i j, m (on_scalar lit) cls h r i j <-> m lit cls h r i j.
Proof.
  intros lit cls h Hh r i j. apply m_ext_on.
  - intros c x Hx. unfold on_scalar. rewrite Forall_forall in Hh. specialize (Hh x Hx). tauto.
  - intros l x _. reflexivity.
Qed.

Corollary L_rast_on_scalar : forall (lit cls : cp -> cp -> Prop) r h, Forall scalar h ->
  (L_rast (on_scalar lit) cls r h <-> L_rast lit cls r h).
Proof. intros lit cls r h Hh. unfold L_rast. apply m_on_scalar. exact Hh. Qed.

(* the specification language, likewise *)
Lemma den_token_on_scalar : forall (lit cls : cp -> cp -> Prop) c x y, scalar y ->
  (den_str (on_scalar lit) cls (class_token c class_chain x) [y]
   <-> den_str lit cls (class_token c class_chain x) [y]).
Proof.
  intros lit cls c x y Hy. rewrite (den_token (on_scalar lit) cls), (den_token lit cls).
  unfold on_scalar. split.
  - intros (y' & E & [[T [L _]]|R]); exists y'; (split; [exact E|]); [left; auto|right; exact R].
  - intros (y' & E & [[T L]|R]); exists y'; (split; [exact E|]); [|right; exact R].
    injection E as <-. left. auto.
Qed.

Theorem Spec_str_on_scalar : forall (lit cls : cp -> cp -> Prop) c s u, Forall scalar u ->
  (Spec_str (on_scalar lit) cls c s u <-> Spec_str lit cls c s u).
Proof.
  intros lit cls c s u Hu. rewrite (Spec_str_unfold (on_scalar lit) cls), (Spec_str_unfold lit cls).
  revert u Hu. induction s as [|x s IH]; intros u Hu.
  - split; intros H; inversion H; constructor.
  - split; intros H; inversion H as [|? y ? u' Hxy Hrest]; subst;
      inversion Hu as [|? ? Hy Hu']; subst; constructor.
    + apply (den_token_on_scalar lit cls c x y Hy). exact Hxy.
    + apply (IH u' Hu'). exact Hrest.
    + apply (den_token_on_scalar lit cls c x y Hy). exact Hxy.
    + apply (IH u' Hu'). exact Hrest.
Qed.

Theorem Spec_on_scalar : forall (lit cls : cp -> cp -> Prop) c db ws u, Forall scalar u ->
  (Spec (on_scalar lit) cls c db ws u <-> Spec lit cls c db ws u).
Proof.
  intros lit cls c db ws u Hu. unfold Spec, Spec_cases.
  split; intros (t & Ht & H); exists t; (split; [exact Ht|]);
    apply (Spec_str_on_scalar lit cls c t u Hu); exact H.
Qed.

(* ---------- the two standard denotations ---------- *)
Lemma lit_cs_sur : forall c0 x, surrogate c0 -> ~ on_scalar lit_cs c0 x.
Proof.
  intros c0 x Hs [E Hx]. unfold lit_cs in E. subst x. exact (surrogate_not_scalar c0 Hs Hx).
Qed.

(* simple case folding never relates a surrogate value and a scalar value *)
Lemma lit_ci_sur : forall c0 x, surrogate c0 -> ~ on_scalar lit_ci c0 x.
Proof.
  intros c0 x Hs [E Hx]. apply (surrogate_not_scalar c0 Hs). apply scalar_is_scalar.
  apply (fold_class_scalar x c0); [apply scalar_is_scalar; exact Hx|].
  exact (fold_eq_sym c0 x E).
Qed.

(* ---------- EngineDen.cls_engine and ExecCi.cls_engine are the same classes ---------- *)
Lemma cls_engine_same : forall l x, ExecCi.cls_engine l x <-> EngineDen.cls_engine l x.
Proof.
  intros l x. unfold ExecCi.cls_engine, cls_engine_b, EngineDen.cls_engine, cls_table.
  destruct (N.eqb_spec l 100) as [->|_]; [reflexivity|].
  destruct (N.eqb_spec l 68) as [->|_]; [reflexivity|].
  destruct (N.eqb_spec l 119) as [->|_]; [reflexivity|].
  destruct (N.eqb_spec l 87) as [->|_]; [reflexivity|].
  destruct (N.eqb_spec l 115) as [->|_]; [reflexivity|].
  destruct (N.eqb_spec l 83) as [->|_]; [reflexivity|].
  split; discriminate.
Qed.

Lemma lit_engine_den : forall ci c x,
  lit_engine ci c x <-> (if ci then lit_ci c x else lit_cs c x).
Proof. intros [|] c x; reflexivity. Qed.

(* the extracted matcher (the one that is run against the regex crate) decides the matching
   relation at the denotations used by the property theorems *)
Theorem matches_whole_engine_den : forall ci h r,
  matches_whole_engine ci h r = true
  <-> L_rast (if ci then lit_ci else lit_cs) EngineDen.cls_engine r h.
Proof.
  intros ci h r. rewrite matches_whole_engine_spec. apply L_rast_ext.
  - intros c x. destruct ci; reflexivity.
  - apply cls_engine_same.
Qed.

Theorem find_leftmost_engine_den : forall ci h r i js,
  find_leftmost_engine ci h r = Some (i, js) ->
  (i <= length h)%nat /\ js <> [] /\ NoDup js
  /\ (forall j, In j js <-> m (if ci then lit_ci else lit_cs) EngineDen.cls_engine h r i j).
Proof.
  intros ci h r i js H.
  destruct (find_leftmost_engine_ends ci h r i js H) as (H1 & H2 & H3 & H4).
  split; [exact H1|]. split; [exact H2|]. split; [exact H3|].
  intros j. rewrite (H4 j). apply m_ext_on.
  - intros c x _. destruct ci; reflexivity.
  - intros l x _. apply cls_engine_same.
Qed.

Print Assumptions m_on_scalar.
Print Assumptions Spec_on_scalar.
Print Assumptions lit_ci_sur.
Print Assumptions matches_whole_engine_den.
Print Assumptions find_leftmost_engine_den.
