(* The denotations of literals and shorthand classes used by the property theorems.

     lit_cs c x        the literal code point c accepts x: equality (case-sensitive matching)
     lit_ci c x        under (?i): x is in the engine's simple case folding class of c
                       (fold_class, from the dumped table fold_classes, Proofs/FoldTables.v)
     cls_engine l x    the regex crate's Perl class \l (l one of d D w W s S) contains x, judged
                       by the tables dumped from the linked regex-syntax (gen/OracleTables.v);
                       any other letter denotes the empty class.

   PropsGlue.cls_engine_tok shows that cls_engine l x is `tok_accepts [92; l] x = true` of
   Props/C09.v. *)
From Grex Require Import Base.Str Base.Ranges Proofs.FoldTables.
From GrexGen Require Import OracleTables.
Local Open Scope N_scope.

Definition lit_cs (c x : cp) : Prop := c = x.
Definition lit_ci (c x : cp) : Prop := In x (fold_class c).

Definition cls_table (l : cp) : ranges :=
  if l =? 100 then engine_d          (* d *)
  else if l =? 119 then engine_w     (* w *)
  else if l =? 115 then engine_s     (* s *)
  else if l =? 68 then engine_D      (* D *)
  else if l =? 87 then engine_W      (* W *)
  else if l =? 83 then engine_S      (* S *)
  else [].

Definition cls_engine (l x : cp) : Prop := mem (cls_table l) x = true.

Lemma lit_cs_refl : forall c, lit_cs c c.
Proof. intro c. reflexivity. Qed.

Lemma lit_ci_refl : forall c, lit_ci c c.
Proof. exact fold_class_refl. Qed.

(* case-sensitive acceptance implies case-insensitive acceptance *)
Lemma lit_cs_ci : forall c x, lit_cs c x -> lit_ci c x.
Proof. intros c x <-. apply lit_ci_refl. Qed.

Lemma cls_engine_d x : cls_engine 100 x <-> mem engine_d x = true. Proof. reflexivity. Qed.
Lemma cls_engine_w x : cls_engine 119 x <-> mem engine_w x = true. Proof. reflexivity. Qed.
Lemma cls_engine_s x : cls_engine 115 x <-> mem engine_s x = true. Proof. reflexivity. Qed.
Lemma cls_engine_D x : cls_engine 68 x <-> mem engine_D x = true. Proof. reflexivity. Qed.
Lemma cls_engine_W x : cls_engine 87 x <-> mem engine_W x = true. Proof. reflexivity. Qed.
Lemma cls_engine_S x : cls_engine 83 x <-> mem engine_S x = true. Proof. reflexivity. Qed.
