(* The priority-ordered matcher of Engine/Prio.v.

   Part 1 (soundness): [pends h r i] enumerates, without repetition, exactly the ends of the
   matches of r from i -- the same members as [Exec.ends h r i], for EVERY r (nullable repetition
   bodies and huge counts included) -- so [first_end] / [find_first] report genuine matches from
   the leftmost start:

     pends_ends, pends_spec, pends_NoDup, first_end_spec, first_end_none,
     find_first_leftmost, find_first_spec, find_first_none, find_first_unique

   Part 2 (priority laws): which end is reported.

     first_end_alt, first_end_group, first_end_cat, pends_lits, first_end_lits,
     first_end_alts (THE FALLBACK THEOREM: an alternation of literal words reports the FIRST word,
     in list order, that is a prefix of the haystack at i), first_end_alts_first,
     first_end_alts_whole, first_end_alts_shorter, first_end_alts_sorted

   No axioms. *)
From Coq Require Import Sorted.
From Grex Require Import Base.Str Engine.Syntax Engine.Sem Engine.Exec Engine.Prio Proofs.ExecSound.

(* ---------------------------------------------------------------------------------------- *)
(* undup *)

Lemma In_undup : forall x l, In x (undup l) <-> In x l.
Proof.
  intros x l. induction l as [|y l IH]; simpl; [tauto|].
  rewrite filter_In. cbv beta. rewrite IH, negb_true_iff, Nat.eqb_neq.
  destruct (Nat.eq_dec y x); tauto.
Qed.

Lemma NoDup_filter_nat : forall (p : nat -> bool) l, NoDup l -> NoDup (filter p l).
Proof.
  intros p l H. induction H as [|x l Hx Hnd IH]; simpl; [constructor|].
  destruct (p x); [|exact IH].
  constructor; [|exact IH]. rewrite filter_In. tauto.
Qed.

Lemma NoDup_undup : forall l, NoDup (undup l).
Proof.
  induction l as [|y l IH]; simpl; [constructor|].
  constructor.
  - rewrite filter_In. cbv beta. intros [_ H]. rewrite Nat.eqb_refl in H. discriminate.
  - apply NoDup_filter_nat. exact IH.
Qed.

Lemma hd_undup : forall l, hd_error (undup l) = hd_error l.
Proof. intro l. destruct l; reflexivity. Qed.

Lemma undup_nil_iff : forall l, undup l = [] <-> l = [].
Proof. intro l. destruct l; simpl; split; intro H; try reflexivity; discriminate. Qed.

Lemma undup_1 : forall x, undup [x] = [x].
Proof. reflexivity. Qed.

Lemma hd_error_app : forall (l1 l2 : list nat),
  hd_error (l1 ++ l2) = match hd_error l1 with Some x => Some x | None => hd_error l2 end.
Proof. intros l1 l2. destruct l1; reflexivity. Qed.

Lemma hd_undup_app : forall l1 l2,
  hd_error (undup (l1 ++ l2)) = match hd_error l1 with Some x => Some x | None => hd_error l2 end.
Proof. intros l1 l2. rewrite hd_undup. apply hd_error_app. Qed.

Lemma hd_error_In : forall (l : list nat) x, hd_error l = Some x -> In x l.
Proof. intros l x H. destruct l as [|y l]; [discriminate|]. inversion H; subst. left. reflexivity. Qed.

Lemma hd_error_None : forall (l : list nat), hd_error l = None <-> l = [].
Proof. intro l. destruct l; simpl; split; intro H; try reflexivity; discriminate. Qed.

(* ---------------------------------------------------------------------------------------- *)
(* The priority iteration computes the chains *)

Section PRepSound.
  Variable lit_den : cp -> cp -> Prop.
  Variable cls_den : cp -> cp -> Prop.
  Variable h : str.
  Variable r : rast.
  Variable f : nat -> list nat.
  Hypothesis f_spec : forall i j, In j (f i) <-> m lit_den cls_den h r i j.
  Local Notation M := (m lit_den cls_den h).
  Local Notation MI := (m_iter lit_den cls_den h).

  Lemma In_pstep : forall ps j, In j (undup (flat_map f ps)) <-> exists i, In i ps /\ M r i j.
  Proof.
    intros ps j. rewrite In_undup, in_flat_map.
    split; intros [i [Hi Hj]]; exists i; (split; [exact Hi|]); apply f_spec; exact Hj.
  Qed.

  Lemma ppow_nil : forall n, ppow f n [] = [].
  Proof. intro n. destruct n; reflexivity. Qed.

  Lemma ppow_0 : forall ps, ppow f 0 ps = ps.
  Proof. intro ps. destruct ps; reflexivity. Qed.

  Lemma ppow_S : forall n ps, ppow f (S n) ps = ppow f n (undup (flat_map f ps)).
  Proof. intros n ps. destruct ps as [|p ps]; [|reflexivity]. simpl. rewrite ppow_nil. reflexivity. Qed.

  Lemma In_ppow : forall n ps j, In j (ppow f n ps) <-> exists i, In i ps /\ MI r n i j.
  Proof.
    intro n. induction n as [|n IH]; intros ps j.
    - rewrite ppow_0. split.
      + intro H. exists j. split; [exact H | apply mi_0].
      + intros [i [Hi Hit]]. apply m_iter_0_inv in Hit. subst. exact Hi.
    - rewrite ppow_S, IH. split.
      + intros [k [Hk Hit]]. apply In_pstep in Hk. destruct Hk as [i [Hi Hm]].
        exists i. split; [exact Hi|]. apply mi_S with (k := k); assumption.
      + intros [i [Hi Hit]]. apply m_iter_S_inv in Hit. destruct Hit as [k [Hm Hit]].
        exists k. split; [|exact Hit]. apply In_pstep. exists i. split; assumption.
  Qed.

  Lemma In_popt : forall c i j, In j (popt f c i) <-> exists n, n <= c /\ MI r n i j.
  Proof.
    intro c. induction c as [|c IH]; intros i j.
    - simpl. split.
      + intros [H|[]]. subst. exists 0. split; [lia | apply mi_0].
      + intros [n [Hn Hit]]. assert (n = 0) by lia. subst.
        apply m_iter_0_inv in Hit. left. exact Hit.
    - cbn [popt]. rewrite In_undup, in_app_iff, in_flat_map. split.
      + intros [[k [Hk Hj]] | [H|[]]].
        * apply f_spec in Hk. apply IH in Hj. destruct Hj as [n [Hn Hit]].
          exists (S n). split; [lia|]. apply mi_S with (k := k); assumption.
        * subst. exists 0. split; [lia | apply mi_0].
      + intros [n [Hn Hit]]. destruct n as [|n].
        * right. left. apply m_iter_0_inv in Hit. exact Hit.
        * left. apply m_iter_S_inv in Hit. destruct Hit as [k [Hm Hit]].
          exists k. split; [apply f_spec; exact Hm|].
          apply IH. exists n. split; [lia | exact Hit].
  Qed.

  (* the positions reached from i by a chain of n links, a <= n <= a + c *)
  Lemma In_popt_ppow : forall a c i j,
    In j (undup (flat_map (popt f c) (ppow f a [i]))) <-> exists n, a <= n <= a + c /\ MI r n i j.
  Proof.
    intros a c i j. rewrite In_undup, in_flat_map. split.
    - intros [p [Hp Hj]]. apply In_ppow in Hp. destruct Hp as [i' [Hi' Hit']].
      destruct Hi' as [Hi'|[]]. subst i'.
      apply In_popt in Hj. destruct Hj as [n [Hn Hit]].
      exists (a + n). split; [lia|]. apply m_iter_app with (p := p); assumption.
    - intros [n [Hn Hit]].
      replace n with (a + (n - a)) in Hit by lia.
      apply m_iter_split in Hit. destruct Hit as [p [H1 H2]].
      exists p. split.
      + apply In_ppow. exists i. split; [left; reflexivity | exact H1].
      + apply In_popt. exists (n - a). split; [lia | exact H2].
  Qed.

  (* same members as the set iteration of Exec.v run on any enumeration g of the body's ends *)
  Lemma In_prio_rep_rep_ends : forall g, (forall i j, In j (g i) <-> M r i j) ->
    forall len lo hi i j,
    In j (prio_rep f len lo hi i) <-> In j (rep_ends g len lo hi i).
  Proof.
    intros g g_spec len lo hi i j. unfold prio_rep, rep_ends.
    destruct (match hi with Some k => (lo <=? k)%N | None => true end); [|tauto].
    rewrite In_dedup, In_popt_ppow, (In_collect_pow lit_den cls_den h r g g_spec). tauto.
  Qed.

  Lemma In_prio_rep : forall lo hi i j,
    In j (prio_rep f (length h) lo hi i) <-> M (RRep r lo hi) i j.
  Proof.
    intros lo hi i j. rewrite (In_prio_rep_rep_ends f f_spec).
    apply (In_rep_ends lit_den cls_den h r f f_spec).
  Qed.
End PRepSound.

Lemma NoDup_prio_rep : forall f len lo hi i, NoDup (prio_rep f len lo hi i).
Proof.
  intros f len lo hi i. unfold prio_rep.
  destruct (match hi with Some k => (lo <=? k)%N | None => true end);
    [apply NoDup_undup | constructor].
Qed.

(* ---------------------------------------------------------------------------------------- *)
(* The main theorems *)

Section PSound.
  Variable lit_den : cp -> cp -> Prop.
  Variable cls_den : cp -> cp -> Prop.
  Variable lit_b : cp -> cp -> bool.
  Variable cls_b : cp -> cp -> bool.
  Variable range_b : cp -> cp -> cp -> bool.
  Hypothesis lit_spec : forall c x, lit_b c x = true <-> lit_den c x.
  Hypothesis cls_spec : forall l x, cls_b l x = true <-> cls_den l x.
  Hypothesis range_spec : forall lo hi x,
    range_b lo hi x = true <-> exists c, (lo <= c)%N /\ (c <= hi)%N /\ lit_den c x.
  Local Notation M := (m lit_den cls_den).
  Local Notation Ends := (ends lit_b cls_b range_b).
  Local Notation PEnds := (pends lit_b cls_b range_b).
  Local Notation FirstEnd := (first_end lit_b cls_b range_b).
  Local Notation FindFirst := (find_first lit_b cls_b range_b).
  Local Notation FindLeftmost := (find_leftmost lit_b cls_b range_b).
  Local Notation ends_spec' :=
    (ends_spec lit_den cls_den lit_b cls_b range_b lit_spec cls_spec range_spec).

  (* 1. same members as the set matcher, for every r *)
  Theorem pends_ends : forall h r i j, In j (PEnds h r i) <-> In j (Ends h r i).
  Proof.
    intros h r. induction r as [|c|l|items| | |cap r IH|r IH lo hi|a IHa b IHb|a IHa b IHb];
      intros i j; simpl; try tauto.
    - (* RGroup *) apply IH.
    - (* RRep *)
      assert (f_spec : forall i j, In j (PEnds h r i) <-> M h r i j).
      { intros i0 j0. rewrite IH. apply ends_spec'. }
      apply (In_prio_rep_rep_ends lit_den cls_den h r (PEnds h r) f_spec (Ends h r)).
      intros i0 j0. apply ends_spec'.
    - (* RCat *)
      rewrite In_undup, In_dedup, !in_flat_map.
      split; intros [k [Hk Hj]]; exists k; (split; [apply IHa | apply IHb]); assumption.
    - (* RAlt *)
      rewrite In_undup, In_dedup, !in_app_iff, IHa, IHb. tauto.
  Qed.

  Corollary pends_spec : forall h r i j, In j (PEnds h r i) <-> M h r i j.
  Proof. intros h r i j. rewrite pends_ends. apply ends_spec'. Qed.

  (* 2. each end once *)
  Theorem pends_NoDup : forall h r i, NoDup (PEnds h r i).
  Proof.
    intros h r. induction r as [|c|l|items| | |cap r IH|r IH lo hi|a IHa b IHb|a IHa b IHb];
      intro i; simpl.
    - apply NoDup_1.
    - destruct (nth_error h i) as [x|]; [|constructor].
      destruct (lit_b c x); [apply NoDup_1 | constructor].
    - destruct (nth_error h i) as [x|]; [|constructor].
      destruct (cls_b l x); [apply NoDup_1 | constructor].
    - destruct (nth_error h i) as [x|]; [|constructor].
      destruct (existsb (item_b range_b x) items); [apply NoDup_1 | constructor].
    - destruct (Nat.eqb i 0); [apply NoDup_1 | constructor].
    - destruct (Nat.eqb i (length h)); [apply NoDup_1 | constructor].
    - apply IH.
    - apply NoDup_prio_rep.
    - apply NoDup_undup.
    - apply NoDup_undup.
  Qed.

  Lemma pends_nil_iff : forall h r i, PEnds h r i = [] <-> forall j, ~ M h r i j.
  Proof.
    intros h r i. split.
    - intros He j Hm. apply pends_spec in Hm. rewrite He in Hm. destruct Hm.
    - intro Hn. destruct (PEnds h r i) as [|j js] eqn:He; [reflexivity|].
      exfalso. apply (Hn j). apply pends_spec. rewrite He. left. reflexivity.
  Qed.

  Lemma pends_nil_ends_nil : forall h r i, PEnds h r i = [] <-> Ends h r i = [].
  Proof.
    intros h r i. rewrite pends_nil_iff.
    rewrite (ends_nil_iff lit_den cls_den lit_b cls_b range_b lit_spec cls_spec range_spec).
    tauto.
  Qed.

  (* 3. the reported end of an anchored attempt *)
  Theorem first_end_spec : forall h r i j, FirstEnd h r i = Some j -> M h r i j.
  Proof.
    intros h r i j H. unfold first_end in H. apply hd_error_In in H.
    apply pends_spec. exact H.
  Qed.

  Theorem first_end_none : forall h r i, FirstEnd h r i = None <-> forall j, ~ M h r i j.
  Proof.
    intros h r i. unfold first_end. rewrite hd_error_None. apply pends_nil_iff.
  Qed.

  Corollary first_end_some_iff : forall h r i,
    (exists j, FirstEnd h r i = Some j) <-> exists j, M h r i j.
  Proof.
    intros h r i. split.
    - intros [j H]. exists j. apply first_end_spec. exact H.
    - intros [j Hm]. destruct (FirstEnd h r i) as [j0|] eqn:He; [exists j0; reflexivity|].
      exfalso. apply (proj1 (first_end_none h r i) He j). exact Hm.
  Qed.

  (* 4. the search *)
  Lemma pfind_from_find_from : forall h r cnt i i0 j,
    pfind_from lit_b cls_b range_b h r cnt i = Some (i0, j) <->
    exists js, find_from lit_b cls_b range_b h r cnt i = Some (i0, js) /\
               FirstEnd h r i0 = Some j.
  Proof.
    intros h r cnt. induction cnt as [|cnt IH]; intros i i0 j; simpl.
    - destruct (PEnds h r i) as [|p ps] eqn:Ep; destruct (Ends h r i) as [|e es] eqn:Ee.
      + split; [discriminate|]. intros [js [H _]]. discriminate.
      + apply pends_nil_ends_nil in Ep. congruence.
      + apply pends_nil_ends_nil in Ee. congruence.
      + split.
        * intro H. inversion H; subst. exists (e :: es). split; [reflexivity|].
          unfold first_end. rewrite Ep. reflexivity.
        * intros [js [H1 H2]]. inversion H1; subst.
          unfold first_end in H2. rewrite Ep in H2. simpl in H2. inversion H2; subst. reflexivity.
    - destruct (PEnds h r i) as [|p ps] eqn:Ep; destruct (Ends h r i) as [|e es] eqn:Ee.
      + apply IH.
      + apply pends_nil_ends_nil in Ep. congruence.
      + apply pends_nil_ends_nil in Ee. congruence.
      + split.
        * intro H. inversion H; subst. exists (e :: es). split; [reflexivity|].
          unfold first_end. rewrite Ep. reflexivity.
        * intros [js [H1 H2]]. inversion H1; subst.
          unfold first_end in H2. rewrite Ep in H2. simpl in H2. inversion H2; subst. reflexivity.
  Qed.

  Theorem find_first_leftmost : forall h r i j,
    FindFirst h r = Some (i, j) <->
    exists js, FindLeftmost h r = Some (i, js) /\ FirstEnd h r i = Some j.
  Proof. intros h r i j. unfold find_first, find_leftmost. apply pfind_from_find_from. Qed.

  Theorem find_first_spec : forall h r i j,
    FindFirst h r = Some (i, j) ->
    M h r i j /\ (forall i' j', i' < i -> ~ M h r i' j').
  Proof.
    intros h r i j H. apply find_first_leftmost in H. destruct H as [js [H1 H2]].
    apply (find_leftmost_spec lit_den cls_den lit_b cls_b range_b lit_spec cls_spec range_spec) in H1.
    destruct H1 as [_ [_ Hmin]]. split; [apply first_end_spec; exact H2 | exact Hmin].
  Qed.

  Theorem find_first_none : forall h r, FindFirst h r = None <-> forall i j, ~ M h r i j.
  Proof.
    intros h r.
    rewrite <- (find_leftmost_none lit_den cls_den lit_b cls_b range_b lit_spec cls_spec range_spec).
    split; intro H.
    - destruct (FindLeftmost h r) as [[i js]|] eqn:Hf; [|reflexivity]. exfalso.
      pose proof Hf as Hf0.
      apply (find_leftmost_spec lit_den cls_den lit_b cls_b range_b lit_spec cls_spec range_spec) in Hf0.
      destruct Hf0 as [_ [Hex _]].
      apply first_end_some_iff in Hex. destruct Hex as [j Hj].
      assert (Hff : FindFirst h r = Some (i, j)).
      { apply find_first_leftmost. exists js. split; assumption. }
      congruence.
    - destruct (FindFirst h r) as [[i j]|] eqn:Hf; [|reflexivity]. exfalso.
      apply find_first_leftmost in Hf. destruct Hf as [js [H1 _]]. congruence.
  Qed.

  (* completeness: from the least start of a match, some end is reported *)
  Corollary find_first_complete : forall h r i j,
    M h r i j -> (forall i' j', i' < i -> ~ M h r i' j') ->
    exists j0, FindFirst h r = Some (i, j0) /\ M h r i j0.
  Proof.
    intros h r i j Hm Hmin.
    assert (Hex : exists j0, FirstEnd h r i = Some j0).
    { apply first_end_some_iff. exists j. exact Hm. }
    destruct Hex as [j0 Hj0]. exists j0. split; [|apply first_end_spec; exact Hj0].
    apply find_first_leftmost. exists (Ends h r i). split; [|exact Hj0].
    apply (find_leftmost_complete lit_den cls_den lit_b cls_b range_b lit_spec cls_spec range_spec)
      with (j := j); assumption.
  Qed.

  (* 5. a pattern whose only match is the whole haystack *)
  Theorem find_first_unique : forall h r,
    (forall i j, M h r i j -> i = 0 /\ j = length h) -> M h r 0 (length h) ->
    FindFirst h r = Some (0, length h).
  Proof.
    intros h r Huniq Hm.
    destruct (find_first_complete h r 0 (length h) Hm) as [j0 [Hf Hm0]].
    - intros i' j' Hlt. lia.
    - destruct (Huniq 0 j0 Hm0) as [_ Hj]. subst j0. exact Hf.
  Qed.
End PSound.

(* The case-sensitive instance: lit_den := eq *)
Section PSoundCs.
  Variable cls_den : cp -> cp -> Prop.
  Variable cls_b : cp -> cp -> bool.
  Hypothesis cls_spec : forall l x, cls_b l x = true <-> cls_den l x.

  Theorem pends_cs_spec : forall h r i j, In j (pends_cs cls_b h r i) <-> m eq cls_den h r i j.
  Proof. exact (pends_spec eq cls_den lit_cs cls_b range_cs lit_cs_spec cls_spec range_cs_spec). Qed.

  Theorem find_first_cs_spec : forall h r i j,
    find_first_cs cls_b h r = Some (i, j) ->
    m eq cls_den h r i j /\ (forall i' j', i' < i -> ~ m eq cls_den h r i' j').
  Proof.
    exact (find_first_spec eq cls_den lit_cs cls_b range_cs lit_cs_spec cls_spec range_cs_spec).
  Qed.

  Theorem find_first_cs_none : forall h r,
    find_first_cs cls_b h r = None <-> forall i j, ~ m eq cls_den h r i j.
  Proof.
    exact (find_first_none eq cls_den lit_cs cls_b range_cs lit_cs_spec cls_spec range_cs_spec).
  Qed.
End PSoundCs.

(* ---------------------------------------------------------------------------------------- *)
(* Priority laws: which end is reported.  No hypothesis on lit_b / cls_b / range_b. *)

Fixpoint first_some (f : nat -> option nat) (l : list nat) : option nat :=
  match l with
  | [] => None
  | k :: l' => match f k with Some j => Some j | None => first_some f l' end
  end.

Lemma hd_flat_map : forall (g : nat -> list nat) l,
  hd_error (flat_map g l) = first_some (fun k => hd_error (g k)) l.
Proof.
  intros g l. induction l as [|k l IH]; simpl; [reflexivity|].
  rewrite hd_error_app, IH. reflexivity.
Qed.

(* a literal word (right nested), an alternation of literal words (right nested) *)
Fixpoint lits (w : list cp) : rast :=
  match w with
  | [] => REmpty
  | c :: w' => RCat (RLit c) (lits w')
  end.

(* [alts [w] = lits w]; the empty alternation is the empty class [RBracket []], which matches
   nothing, so that the fallback theorem holds for every list *)
Fixpoint alts (ws : list (list cp)) : rast :=
  match ws with
  | [] => RBracket []
  | w :: ws' => match ws' with
                | [] => lits w
                | _ :: _ => RAlt (lits w) (alts ws')
                end
  end.

Lemma alts_cons2 : forall w w2 ws, alts (w :: w2 :: ws) = RAlt (lits w) (alts (w2 :: ws)).
Proof. reflexivity. Qed.

Section Laws.
  Variable lit_b : cp -> cp -> bool.
  Variable cls_b : cp -> cp -> bool.
  Variable range_b : cp -> cp -> cp -> bool.
  Local Notation PEnds := (pends lit_b cls_b range_b).
  Local Notation FirstEnd := (first_end lit_b cls_b range_b).

  (* 6. alternation: the left alternative wins whenever it matches at all *)
  Theorem first_end_alt : forall h a b i,
    FirstEnd h (RAlt a b) i =
    match FirstEnd h a i with Some j => Some j | None => FirstEnd h b i end.
  Proof. intros h a b i. unfold first_end. simpl. apply hd_undup_app. Qed.

  (* 7. groups are transparent; concatenation backtracks over the ends of the left factor in
     priority order *)
  Theorem first_end_group : forall h cap r i, FirstEnd h (RGroup cap r) i = FirstEnd h r i.
  Proof. reflexivity. Qed.

  Theorem first_end_cat : forall h a b i,
    FirstEnd h (RCat a b) i = first_some (FirstEnd h b) (PEnds h a i).
  Proof. intros h a b i. unfold first_end. simpl. rewrite hd_undup. apply hd_flat_map. Qed.

  Theorem first_end_empty : forall h i, FirstEnd h REmpty i = Some i.
  Proof. reflexivity. Qed.

  Theorem first_end_cat_lit : forall h c b i,
    FirstEnd h (RCat (RLit c) b) i =
    match nth_error h i with
    | Some x => if lit_b c x then FirstEnd h b (S i) else None
    | None => None
    end.
  Proof.
    intros h c b i. rewrite first_end_cat. simpl.
    destruct (nth_error h i) as [x|]; [|reflexivity].
    destruct (lit_b c x); [|reflexivity]. simpl.
    destruct (FirstEnd h b (S i)); reflexivity.
  Qed.

  (* 8. a literal word *)
  Fixpoint prefix_at_b (w : list cp) (h : str) (i : nat) : bool :=
    match w with
    | [] => true
    | c :: w' => match nth_error h i with
                 | Some x => lit_b c x && prefix_at_b w' h (S i)
                 | None => false
                 end
    end.

  Theorem pends_lits : forall w h i,
    PEnds h (lits w) i = if prefix_at_b w h i then [i + length w] else [].
  Proof.
    intro w. induction w as [|c w IH]; intros h i.
    - simpl. rewrite Nat.add_0_r. reflexivity.
    - cbn [lits pends prefix_at_b length].
      destruct (nth_error h i) as [x|]; [|reflexivity].
      destruct (lit_b c x); [|reflexivity].
      cbn [flat_map andb]. rewrite app_nil_r, IH.
      destruct (prefix_at_b w h (S i)); [|reflexivity].
      rewrite undup_1. f_equal. lia.
  Qed.

  Corollary first_end_lits : forall w h i,
    FirstEnd h (lits w) i = if prefix_at_b w h i then Some (i + length w) else None.
  Proof.
    intros w h i. unfold first_end. rewrite pends_lits.
    destruct (prefix_at_b w h i); reflexivity.
  Qed.

  (* 9. THE FALLBACK THEOREM: the first word, in list order, that is a prefix of h at i *)
  Theorem first_end_alts : forall ws h i,
    FirstEnd h (alts ws) i =
    option_map (fun w => i + length w) (find (fun w => prefix_at_b w h i) ws).
  Proof.
    intro ws. induction ws as [|w ws IH]; intros h i.
    - unfold first_end. simpl. destruct (nth_error h i); reflexivity.
    - destruct ws as [|w2 ws].
      + cbn [alts find]. rewrite first_end_lits.
        destruct (prefix_at_b w h i); reflexivity.
      + rewrite alts_cons2, first_end_alt, IH, first_end_lits.
        cbn [find]. destruct (prefix_at_b w h i); reflexivity.
  Qed.

  Lemma find_app_first : forall (A : Type) (p : A -> bool) l1 x l2,
    Forall (fun y => p y = false) l1 -> p x = true -> find p (l1 ++ x :: l2) = Some x.
  Proof.
    intros A p l1 x l2 Hall Hx. induction Hall as [|y l1 Hy Hall IH]; simpl.
    - rewrite Hx. reflexivity.
    - rewrite Hy. exact IH.
  Qed.

  Corollary first_end_alts_first : forall ws1 w ws2 h i,
    Forall (fun v => prefix_at_b v h i = false) ws1 -> prefix_at_b w h i = true ->
    FirstEnd h (alts (ws1 ++ w :: ws2)) i = Some (i + length w).
  Proof.
    intros ws1 w ws2 h i Hall Hw. rewrite first_end_alts.
    rewrite (find_app_first _ (fun w0 => prefix_at_b w0 h i) ws1 w ws2 Hall Hw). reflexivity.
  Qed.

  Corollary first_end_alts_none : forall ws h i,
    Forall (fun v => prefix_at_b v h i = false) ws -> FirstEnd h (alts ws) i = None.
  Proof.
    intros ws h i Hall. rewrite first_end_alts.
    replace (find (fun w => prefix_at_b w h i) ws) with (@None (list cp)); [reflexivity|].
    induction Hall as [|y l Hy Hall IH]; simpl; [reflexivity|]. rewrite Hy. exact IH.
  Qed.

  (* prefix_at_b through the suffix of h from i *)
  Fixpoint prefix_b (w : list cp) (s : str) : bool :=
    match w, s with
    | [], _ => true
    | c :: w', x :: s' => lit_b c x && prefix_b w' s'
    | _ :: _, [] => false
    end.

  Lemma skipn_nth_error : forall (s : str) i,
    skipn i s = match nth_error s i with Some x => x :: skipn (S i) s | None => [] end.
  Proof.
    intro s. induction s as [|y s IH]; intro i.
    - destruct i; reflexivity.
    - destruct i as [|i]; [reflexivity|]. simpl. rewrite IH. reflexivity.
  Qed.

  Lemma prefix_at_b_skipn : forall w h i, prefix_at_b w h i = prefix_b w (skipn i h).
  Proof.
    intro w. induction w as [|c w IH]; intros h i; [reflexivity|].
    cbn [prefix_at_b]. rewrite (skipn_nth_error h i).
    destruct (nth_error h i) as [x|]; [|reflexivity].
    cbn [prefix_b]. rewrite IH. reflexivity.
  Qed.

  Lemma prefix_at_b_0 : forall w h, prefix_at_b w h 0 = prefix_b w h.
  Proof. intros w h. rewrite prefix_at_b_skipn. reflexivity. Qed.

  Lemma prefix_b_length : forall w s, prefix_b w s = true -> length w <= length s.
  Proof.
    intro w. induction w as [|c w IH]; intros s H; simpl; [lia|].
    destruct s as [|x s]; [discriminate|]. simpl in H. apply andb_true_iff in H.
    destruct H as [_ H]. apply IH in H. simpl. lia.
  Qed.
End Laws.

(* the case-sensitive instance: prefix_b lit_cs is the prefix relation *)

Lemma prefix_b_cs_iff : forall w s, prefix_b lit_cs w s = true <-> exists s', s = w ++ s'.
Proof.
  intro w. induction w as [|c w IH]; intro s; simpl.
  - split; [intros _; exists s; reflexivity | reflexivity].
  - destruct s as [|x s].
    + split; [discriminate | intros [s' H]; discriminate].
    + rewrite andb_true_iff, lit_cs_spec, IH. split.
      * intros [Hc [s' Hs]]. subst. exists s'. reflexivity.
      * intros [s' Hs]. inversion Hs; subst. split; [reflexivity | exists s'; reflexivity].
Qed.

Lemma prefix_b_cs_refl : forall t, prefix_b lit_cs t t = true.
Proof. intro t. apply prefix_b_cs_iff. exists []. symmetry. apply app_nil_r. Qed.

Lemma prefix_b_cs_same_length : forall w t,
  prefix_b lit_cs w t = true -> length t <= length w -> w = t.
Proof.
  intros w t H Hlen. apply prefix_b_cs_iff in H. destruct H as [s' Hs]. subst t.
  rewrite app_length in Hlen. destruct s' as [|x s']; [symmetry; apply app_nil_r|].
  simpl in Hlen. lia.
Qed.

Lemma StronglySorted_before : forall (A : Type) (R : A -> A -> Prop) l1 a l2,
  StronglySorted R (l1 ++ a :: l2) -> Forall (fun x => R x a) l1.
Proof.
  intros A R l1 a l2. induction l1 as [|x l1 IH]; intro H; [constructor|].
  simpl in H. inversion H as [|x0 l0 Hs Hall]; subst. constructor.
  - rewrite Forall_forall in Hall. apply Hall. apply in_elt.
  - apply IH. exact Hs.
Qed.

Section LawsCs.
  Variable cls_b : cp -> cp -> bool.
  Local Notation FirstEndCs := (first_end lit_cs cls_b range_cs).

  (* the whole word t is reported when no word listed before it is a prefix of t ... *)
  Theorem first_end_alts_whole : forall ws1 t ws2,
    Forall (fun w => prefix_at_b lit_cs w t 0 = false) ws1 ->
    FirstEndCs t (alts (ws1 ++ t :: ws2)) 0 = Some (length t).
  Proof.
    intros ws1 t ws2 Hall.
    apply (first_end_alts_first lit_cs cls_b range_cs ws1 t ws2 t 0 Hall).
    rewrite prefix_at_b_0. apply prefix_b_cs_refl.
  Qed.

  (* ... and only a proper prefix of it when such a word comes first *)
  Theorem first_end_alts_shorter : forall ws1 w ws2 t,
    Forall (fun v => prefix_at_b lit_cs v t 0 = false) ws1 ->
    prefix_at_b lit_cs w t 0 = true -> length w < length t ->
    FirstEndCs t (alts (ws1 ++ w :: ws2)) 0 = Some (length w) /\
    FirstEndCs t (alts (ws1 ++ w :: ws2)) 0 <> Some (length t).
  Proof.
    intros ws1 w ws2 t Hall Hw Hlt.
    rewrite (first_end_alts_first lit_cs cls_b range_cs ws1 w ws2 t 0 Hall Hw). simpl.
    split; [reflexivity|]. intro H. inversion H. lia.
  Qed.

  (* words listed longest first, no duplicates: every listed word is matched whole *)
  Theorem first_end_alts_sorted : forall ws t,
    StronglySorted (fun a b => length b <= length a) ws -> NoDup ws -> In t ws ->
    FirstEndCs t (alts ws) 0 = Some (length t).
  Proof.
    intros ws t Hsort Hnd Hin.
    destruct (in_split t ws Hin) as [ws1 [ws2 Hws]]. subst ws.
    apply first_end_alts_whole.
    pose proof (StronglySorted_before _ _ ws1 t ws2 Hsort) as Hlen.
    apply NoDup_remove_2 in Hnd.
    rewrite Forall_forall in Hlen. apply Forall_forall. intros w Hw.
    destruct (prefix_at_b lit_cs w t 0) eqn:Hp; [|reflexivity]. exfalso.
    rewrite prefix_at_b_0 in Hp.
    apply prefix_b_cs_same_length in Hp; [|apply Hlen; exact Hw]. subst w.
    apply Hnd. apply in_or_app. left. exact Hw.
  Qed.
End LawsCs.

(* ---------------------------------------------------------------------------------------- *)
(* 10. Non-vacuity: priority, not longest *)

Local Definition no_cls : cp -> cp -> bool := fun _ _ => false.
Local Notation "'a'" := 97%N.
Local Notation "'b'" := 98%N.

(* a|ab on "ab": the first alternative wins, end 1 *)
Example ex_a_or_ab :
  first_end lit_cs no_cls range_cs [a; b] (alts [[a]; [a; b]]) 0 = Some 1.
Proof. vm_compute. reflexivity. Qed.

Example ex_a_or_ab_find :
  find_first lit_cs no_cls range_cs [a; b] (RAlt (RLit a) (RCat (RLit a) (RLit b))) = Some (0, 1).
Proof. vm_compute. reflexivity. Qed.

(* ab|a on "ab": end 2 *)
Example ex_ab_or_a :
  first_end lit_cs no_cls range_cs [a; b] (alts [[a; b]; [a]]) 0 = Some 2.
Proof. vm_compute. reflexivity. Qed.

(* both ends are matches: the set matcher returns both *)
Example ex_a_or_ab_ends :
  pends lit_cs no_cls range_cs [a; b] (alts [[a]; [a; b]]) 0 = [1; 2] /\
  pends lit_cs no_cls range_cs [a; b] (alts [[a; b]; [a]]) 0 = [2; 1].
Proof. vm_compute. split; reflexivity. Qed.

(* a{1,2} on "aaab": greedy, two iterations before one *)
Example ex_rep_1_2 :
  pends lit_cs no_cls range_cs [a; a; a; b] (RRep (RLit a) 1 (Some 2%N)) 0 = [2; 1].
Proof. vm_compute. reflexivity. Qed.

(* a* on "aaab": greedy *)
Example ex_star :
  pends lit_cs no_cls range_cs [a; a; a; b] (RRep (RLit a) 0 None) 0 = [3; 2; 1; 0].
Proof. vm_compute. reflexivity. Qed.

(* (a|ab)(c|bcd) on "abcd": the engine backtracks into the first group *)
Example ex_backtrack :
  first_end lit_cs no_cls range_cs [a; b; 99%N; 100%N]
    (RCat (RGroup true (alts [[a]; [a; b]])) (RGroup true (alts [[99%N]; [b; 99%N; 100%N]]))) 0
  = Some 4.
Proof. vm_compute. reflexivity. Qed.

Print Assumptions pends_ends.
Print Assumptions pends_spec.
Print Assumptions pends_NoDup.
Print Assumptions first_end_spec.
Print Assumptions first_end_none.
Print Assumptions find_first_leftmost.
Print Assumptions find_first_spec.
Print Assumptions find_first_none.
Print Assumptions find_first_complete.
Print Assumptions find_first_unique.
Print Assumptions first_end_alt.
Print Assumptions first_end_group.
Print Assumptions first_end_cat.
Print Assumptions first_end_cat_lit.
Print Assumptions pends_lits.
Print Assumptions first_end_lits.
Print Assumptions first_end_alts.
Print Assumptions first_end_alts_first.
Print Assumptions first_end_alts_whole.
Print Assumptions first_end_alts_shorter.
Print Assumptions first_end_alts_sorted.
Print Assumptions pends_cs_spec.
Print Assumptions find_first_cs_spec.
Print Assumptions find_first_cs_none.
