(* Printing theorem (B), definitions: the hypotheses on configurations and expressions, and the
   regex AST that the parser model is expected to build from the printed pattern. *)
From Grex Require Import Base.Str Model.Config Model.Cluster Model.Dfa Model.Expr Model.Print.
From Grex Require Import Engine.Syntax Engine.Parse.
From Grex Require Import Proofs.Lang Proofs.RepInv.
From GrexGen Require Import SrcConsts.

(* configurations meant for the regex crate: no colour, no surrogate pairs *)
Definition printable (c : cfg) : Prop := f_colour c = false /\ f_sur c = false.

Definition scalar (x : cp) : Prop := is_scalar_value x = true.
Definition surrogate (x : cp) : Prop := (55296 <= x)%N /\ (x <= 57343)%N.

(* ---------- tokenised strings ---------- *)
(* a sequence of code points different from the backslash and of class tokens \d \D \w \W \s \S *)
Inductive toks : str -> Prop :=
| toks_nil : toks []
| toks_lit : forall y t, y <> 92%N -> scalar y -> toks t -> toks (y :: t)
| toks_cls : forall l t, is_class_letter l = true -> toks t -> toks (92%N :: l :: t).

(* ... or the lone backslash *)
Definition tokenised (t : str) : Prop := t = [92%N] \/ toks t.

(* ---------- graphemes ---------- *)
(* `nested` = the grapheme sits in a `reps` vector *)
Fixpoint wf_pg (nested : bool) (g : grapheme) {struct g} : Prop :=
  match g with
  | G cs rs a b =>
      cs <> [] /\ Forall (fun t => t <> [] /\ tokenised t) cs
      /\ (1 <= a)%N /\ (a <= b)%N
      /\ (nested = true -> a = b)
      /\ (rs = [] \/ (expand rs = map g_from cs /\ 2 <= length cs))
      /\ (fix go (l : list grapheme) : Prop :=
            match l with [] => True | r :: l' => wf_pg true r /\ go l' end) rs
  end.

Lemma wf_pg_unfold : forall nested cs rs a b,
  wf_pg nested (G cs rs a b) <->
  cs <> [] /\ Forall (fun t => t <> [] /\ tokenised t) cs
  /\ (1 <= a)%N /\ (a <= b)%N
  /\ (nested = true -> a = b)
  /\ (rs = [] \/ (expand rs = map g_from cs /\ 2 <= length cs))
  /\ Forall (wf_pg true) rs.
Proof.
  intros nested cs rs a b. cbn [wf_pg].
  assert (E : (fix go (l : list grapheme) : Prop :=
                 match l with [] => True | r :: l' => wf_pg true r /\ go l' end) rs
              <-> Forall (wf_pg true) rs).
  { induction rs as [|r rs IH]; [split; auto|].
    split.
    - intros [H1 H2]. constructor; [exact H1|apply IH; exact H2].
    - intros H. inversion H; subst. split; [assumption|apply IH; assumption]. }
  rewrite E. reflexivity.
Qed.

Lemma wf_pg_wf_g : forall nested g, wf_pg nested g -> wf_g g.
Proof.
  intros nested [cs rs a b] H. apply wf_pg_unfold in H.
  destruct H as (H1 & H2 & H3 & H4 & _). cbn [wf_g]. repeat split; auto.
  eapply Forall_impl; [|exact H2]. intros t [Ht _]. exact Ht.
Qed.

(* ---------- character classes ---------- *)
Fixpoint incr (l : list cp) : Prop :=
  match l with
  | x :: ((y :: _) as l') => (x < y)%N /\ incr l'
  | _ => True
  end.

(* gap : the semantic side condition under which a printed range may straddle the surrogate gap *)
Definition wf_cc (gap : Prop) (cs : list cp) : Prop :=
  2 <= length cs /\ Forall scalar cs /\ incr cs
  /\ (gap \/ ~ (In 55295%N cs /\ In 57344%N cs)).

(* ---------- expressions ---------- *)
Fixpoint wf_print_gen (gap : Prop) (e : expr) {struct e} : Prop :=
  match e with
  | EAlt os =>
      os <> [] /\
      (fix go (l : list expr) : Prop :=
         match l with [] => True | o :: l' => wf_print_gen gap o /\ go l' end) os
  | ECC cs => wf_cc gap cs
  | ECat a b => wf_print_gen gap a /\ wf_print_gen gap b
  | ELit cl => Forall (wf_pg false) cl
  | ERep x q =>
      wf_print_gen gap x /\
      (q = QQuestion -> match x with ERep _ _ => False | _ => True end)
  end.

Definition wf_print (e : expr) : Prop := wf_print_gen False e.

Lemma wf_print_alt : forall gap os,
  wf_print_gen gap (EAlt os) <-> os <> [] /\ Forall (wf_print_gen gap) os.
Proof.
  intros gap os. cbn [wf_print_gen].
  assert (E : (fix go (l : list expr) : Prop :=
                 match l with [] => True | o :: l' => wf_print_gen gap o /\ go l' end) os
              <-> Forall (wf_print_gen gap) os).
  { induction os as [|o os IH]; [split; auto|].
    split.
    - intros [H1 H2]. constructor; [exact H1|apply IH; exact H2].
    - intros H. inversion H; subst. split; [assumption|apply IH; assumption]. }
  rewrite E. reflexivity.
Qed.

(* ---------- the expected AST ---------- *)
Definition rcat (l : list rast) : rast := cat_of (rev l).
Definition ralt (l : list rast) : rast := alt_of (rev l).

(* atoms of a string of the model: mirrors den_str *)
Fixpoint str_atoms (s : str) : list rast :=
  match s with
  | [] => []
  | c :: s' =>
      match s' with
      | l :: s'' =>
          if N.eqb c c_backslash && is_class_letter l
          then RPerl l :: str_atoms s''
          else RLit c :: str_atoms s'
      | [] => [RLit c]
      end
  end.

(* the escaped form of one string of a grapheme (escape_g) *)
Definition esc_str (c : cfg) (t : str) : str :=
  let s := escape_symbols_str t in
  if f_esc c then flat_map (escape_cp (f_sur c)) s else s.

(* the printer's "no group needed" test, on the escaped strings *)
Definition chars_single (cs : list str) : bool :=
  Nat.eqb (fold_right (fun (s : str) n => length s + n) 0 cs) 1
  || match cs with [s] => is_single_escape_sequence s | _ => false end.

Fixpoint g_atoms (c : cfg) (g : grapheme) {struct g} : list rast :=
  match g with
  | G cs rs a b =>
      let inner :=
        match rs with
        | [] => flat_map str_atoms cs
        | _ => (fix go (l : list grapheme) : list rast :=
                  match l with [] => [] | r :: l' => g_atoms c r ++ go l' end) rs
        end in
      let single := match rs with [] => chars_single (map (esc_str c) cs) | _ => false end in
      if N.eqb a 1 && N.eqb b 1 then inner
      else [RRep (if single then hd REmpty inner else RGroup (f_cap c) (rcat inner)) a (Some b)]
  end.

Definition g_inner (c : cfg) (cs : list str) (rs : list grapheme) : list rast :=
  match rs with [] => flat_map str_atoms cs | _ => flat_map (g_atoms c) rs end.
Definition g_single (c : cfg) (cs : list str) (rs : list grapheme) : bool :=
  match rs with [] => chars_single (map (esc_str c) cs) | _ => false end.

Lemma g_atoms_unfold : forall c cs rs a b,
  g_atoms c (G cs rs a b)
  = if N.eqb a 1 && N.eqb b 1 then g_inner c cs rs
    else [RRep (if g_single c cs rs then hd REmpty (g_inner c cs rs)
                else RGroup (f_cap c) (rcat (g_inner c cs rs))) a (Some b)].
Proof.
  intros c cs rs a b. cbn [g_atoms]. unfold g_inner, g_single.
  assert (E : forall l, (fix go (l : list grapheme) : list rast :=
                 match l with [] => [] | r :: l' => g_atoms c r ++ go l' end) l
              = flat_map (g_atoms c) l).
  { induction l as [|r l IH]; [reflexivity|]. cbn [flat_map]. rewrite IH. reflexivity. }
  destruct rs as [|r rs]; [reflexivity|]. rewrite E. reflexivity.
Qed.

(* bracket classes: runs of consecutive positions *)
Fixpoint runs_from (cur : list cp) (lastp : N) (l : list cp) : list (list cp) :=
  match l with
  | [] => [cur]
  | y :: l' =>
      if N.eqb (codepoint_position y) (lastp + 1)
      then runs_from (cur ++ [y]) (codepoint_position y) l'
      else cur :: runs_from [y] (codepoint_position y) l'
  end.
Definition cc_runs (cs : list cp) : list (list cp) :=
  match cs with [] => [[]] | x :: l => runs_from [x] (codepoint_position x) l end.
Definition run_items (r : list cp) : list (cp * cp) :=
  if Nat.leb (length r) 2 then map (fun x => (x, x)) r else [(hd 0%N r, last r 0%N)].
Definition cc_items (cs : list cp) : list (cp * cp) := flat_map run_items (cc_runs cs).

Definition quant_lo (q : quant) : N := 0%N.
Definition quant_hi (q : quant) : option N := match q with QStar => None | QQuestion => Some 1%N end.

Definition needs_group (c : cfg) (lvl : nat) (x : expr) : bool :=
  Nat.ltb (precedence x) lvl && negb (is_single_codepoint c x).

(* fst: the atoms pushed by the printed expression in a concatenation context (an alternation is
   wrapped in a group there); snd: the alternatives it contributes as an option of an alternation *)
Fixpoint e_both (c : cfg) (e : expr) {struct e} : list rast * list rast :=
  match e with
  | EAlt os =>
      let alts := (fix go (l : list expr) : list rast :=
                     match l with [] => [] | o :: l' => snd (e_both c o) ++ go l' end) os in
      ([RGroup (f_cap c) (ralt alts)], alts)
  | ECC cs => let at_ := [RBracket (cc_items cs)] in (at_, [rcat at_])
  | ECat a b =>
      let part (x : expr) (p : list rast * list rast) :=
        if needs_group c 2 x then [RGroup (f_cap c) (ralt (snd p))] else fst p in
      let at_ := part a (e_both c a) ++ part b (e_both c b) in
      (at_, [rcat at_])
  | ELit cl => let at_ := flat_map (g_atoms c) cl in (at_, [rcat at_])
  | ERep x q =>
      let p := e_both c x in
      let body := if needs_group c 3 x then RGroup (f_cap c) (ralt (snd p)) else hd REmpty (fst p) in
      let at_ := [RRep body (quant_lo q) (quant_hi q)] in
      (at_, [rcat at_])
  end.

Definition e_atoms (c : cfg) (e : expr) : list rast := fst (e_both c e).
Definition e_alts (c : cfg) (e : expr) : list rast := snd (e_both c e).
Definition e_part (c : cfg) (lvl : nat) (x : expr) : list rast :=
  if needs_group c lvl x then [RGroup (f_cap c) (ralt (e_alts c x))] else e_atoms c x.

Lemma e_atoms_alt : forall c os,
  e_atoms c (EAlt os) = [RGroup (f_cap c) (ralt (flat_map (e_alts c) os))].
Proof.
  intros c os. unfold e_atoms. cbn [e_both fst].
  assert (E : forall l, (fix go (l : list expr) : list rast :=
                 match l with [] => [] | o :: l' => snd (e_both c o) ++ go l' end) l
              = flat_map (e_alts c) l).
  { induction l as [|o l IH]; [reflexivity|]. cbn [flat_map]. rewrite IH. reflexivity. }
  rewrite E. reflexivity.
Qed.

Lemma e_alts_alt : forall c os, e_alts c (EAlt os) = flat_map (e_alts c) os.
Proof.
  intros c os. unfold e_alts at 1. cbn [e_both snd].
  induction os as [|o l IH]; [reflexivity|]. cbn [flat_map]. rewrite IH. reflexivity.
Qed.

Lemma e_alts_nonalt : forall c e, (forall os, e <> EAlt os) -> e_alts c e = [rcat (e_atoms c e)].
Proof.
  intros c e H. destruct e as [os|cs|a b|cl|x q]; try reflexivity. exfalso. eapply H. reflexivity.
Qed.

Lemma e_atoms_cc : forall c cs, e_atoms c (ECC cs) = [RBracket (cc_items cs)].
Proof. reflexivity. Qed.
Lemma e_atoms_cat : forall c a b, e_atoms c (ECat a b) = e_part c 2 a ++ e_part c 2 b.
Proof. reflexivity. Qed.
Lemma e_atoms_lit : forall c cl, e_atoms c (ELit cl) = flat_map (g_atoms c) cl.
Proof. reflexivity. Qed.
Lemma e_atoms_rep : forall c x q,
  e_atoms c (ERep x q)
  = [RRep (if needs_group c 3 x then RGroup (f_cap c) (ralt (e_alts c x)) else hd REmpty (e_atoms c x))
          (quant_lo q) (quant_hi q)].
Proof. reflexivity. Qed.

(* the whole pattern *)
Definition top_atoms (c : cfg) (e : expr) : list rast :=
  (if f_no_start c then [] else [RStart]) ++ e_atoms c e ++ (if f_no_end c then [] else [REnd]).
Definition top_rast (c : cfg) (e : expr) : rast := rcat (top_atoms c e).

(* the two global replacements at the end of regexp_str *)
Definition vf (s : str) : str := replace_cp 12%N [92; 102]%N (replace_cp 11%N [92; 118]%N s).
