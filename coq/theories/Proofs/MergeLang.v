(* THE LANGUAGE OF THE STAGES AFTER THE TRIE, FOR EVERY TRIE (merged = widened edges or not).

   HopcroftAny.v: the Hopcroft partition of every trie of uniform clusters is stable for every
   alphabet symbol, every count inside a (widened) range is an alphabet symbol, and the
   minimised automaton accepts every non-empty string of the trie.  Here the converse:

     quotient_back_lsub        every string of the quotient is a string of the trie: an edge
                               of the quotient is an edge (r, g, tgt) of a representative r;
                               a word of g read with count k is the alphabet symbol
                               (chars g, k); symbol-stability moves the c-edge to ANY member
                               of the block of r
     minimize_trie_lang_eq     minimisation preserves the language of EVERY trie exactly on
                               non-empty strings, adds nothing, and keeps the empty string
                               under QuotientLang.eps_safe (K4 otherwise)
     trie_root_final           the root of a trie is final only if the empty cluster was
                               inserted
     final_expr_lang_trie      the final expression, for every self-check outcome, denotes a
                               sub-language of the TRIE language, and exactly the trie
                               language on the two branches that go through Expression::from
                               (K4 proviso for the empty string on the minimised branch)
     final_expr_sandwich       Spec <= L(final expression) <= L(trie): whatever the final
                               pattern over-matches (known finding K1) is already in the trie
     never_loses               C05: the expression built WITHOUT repetition conversion denotes
                               a sub-language of the one built WITH it *)
From Grex Require Import Base.Str Model.Config Model.Cluster Model.Dfa Model.Expr.
From Grex Require Import Proofs.Lang Proofs.Spec Proofs.TrieLang Proofs.HopSets Proofs.HopcroftInv
  Proofs.TrieLikeOf Proofs.QuotientLang Proofs.MinimizeLang Proofs.ElimLang
  Proofs.NormaliseDet Proofs.ClustersSpec Proofs.Construction Proofs.PropsGlue
  Proofs.MergeSound Proofs.HopcroftSym Proofs.HopcroftAny.
From Grex Require Import Model.Pipeline.
From GrexGen Require Import GrexTables.

(* ====================================================================== *)
(* 1. the quotient of a trie adds nothing                                  *)
(* ====================================================================== *)
Section Back.
  Variable lit_den cls_den : cp -> cp -> Prop.
  Variables (cls : list cluster) (t d' : dfa) (p : list block).
  Hypothesis Hwf : Forall wf_cluster cls.
  Hypothesis Hun : Forall (Forall uniform_g) cls.
  Hypothesis Htrie : trie_of cls = Some t.
  Hypothesis Hp : partition_of t = Some p.
  Hypothesis Hrg : recreate_graph t p = Some d'.

  Local Notation pth := (path lit_den cls_den).
  Local Notation deng := (den_g lit_den cls_den).
  Local Notation Ld := (L_dfa lit_den cls_den).

  Let ST : sym_stable t p := trie_sym_stable cls t p Hwf Htrie Hp.
  Let QC : qcover t p := trie_qcover cls t p Hwf Hun Htrie Hp.
  Let Hwt : wf_dfa t := trie_wf cls t Hwf Htrie.
  Let Hinit' : block_index (d_init t) p 0 = Some (d_init d')
    := proj1 (proj2 (recreate_graph_inv t p d' Hrg)).
  Let Hedges' : forall x, In x (d_edges d') <-> rg_edge t p p x
    := proj1 (proj2 (proj2 (recreate_graph_inv t p d' Hrg))).
  Let Hfin' : forall j, In j (d_finals d') <-> rg_fin t p p j
    := proj2 (proj2 (proj2 (recreate_graph_inv t p d' Hrg))).

  (* two states with the same block number are in the same block *)
  Lemma bi_same : forall s u i, block_index s p 0 = Some i -> block_index u p 0 = Some i ->
    same p s u.
  Proof.
    intros s u i Hs Hu.
    destruct (block_index_some0 _ _ _ Hs) as (b & Hn & Hsb).
    destruct (block_index_some0 _ _ _ Hu) as (b' & Hn' & Hub).
    assert (b' = b) by congruence. subst b'.
    exists b. split; [eapply nth_error_In; exact Hn|]. auto.
  Qed.

  (* an edge of the quotient, read with the word v, is matched by an edge of EVERY member of
     its source block that reads v too *)
  Lemma q_edge_back : forall i j h v s,
    In (i, j, h) (d_edges d') -> deng h v -> block_index s p 0 = Some i ->
    exists e, In e (d_edges t) /\ e_src e = s /\ block_index (e_dst e) p 0 = Some j
              /\ deng (e_lbl e) v.
  Proof.
    intros i j h v s Hin Hd Hs. apply Hedges' in Hin.
    destruct Hin as (b & rep & i1 & tgt & e0 & j1 & Hb & Hm & Hbi & Hnb & Hf & Hbt & Hx).
    inversion Hx; subst i1 j1 h. clear Hx.
    apply find_edge_some in Hf. destruct Hf as (Hin0 & Hs0 & Hd0).
    destruct Hd as (k & K1 & K2 & K3).
    destruct (edge_symbol cls t Hun Htrie e0 (N.of_nat k) Hin0 K1 K2)
      as (c & C1 & C2 & C3 & C4 & CE).
    rewrite Hs0, Hd0 in CE.
    pose proof (bi_same rep s i Hbi Hs) as Hsame.
    destruct (ST c C1 rep s tgt Hsame CE) as (t' & T1 & T2).
    destruct T1 as (e & E1 & E2 & E3 & E4).
    apply label_match_spec in E4. destruct E4 as (L1 & L2 & L3).
    exists e. split; [exact E1|]. split; [exact E2|]. split.
    - rewrite E3. exact (same_bi cls t p Hwf Htrie Hp tgt t' j T2 Hbt).
    - exists k. split; [lia|]. split; [lia|]. rewrite L1, C2. exact K3.
  Qed.

  Lemma q_path_back : forall i u j, pth (d_edges d') i u j ->
    forall s, block_index s p 0 = Some i ->
    exists s', block_index s' p 0 = Some j /\ pth (d_edges t) s u s'.
  Proof.
    intros i u j H. induction H as [i|i m j g v w Hin Hd Hpa IH]; intros s Hs.
    - exists s. split; [exact Hs|constructor].
    - destruct (q_edge_back _ _ _ _ _ Hin Hd Hs) as (e & Hine & Hse & Hde & Hl).
      destruct (IH _ Hde) as (s' & Hs' & Hps'). exists s'. split; [exact Hs'|].
      destruct e as [[s0 m0] g0]. unfold e_src, e_dst, e_lbl in *; simpl in *. subst s0.
      eapply path_step; [exact Hine|exact Hl|exact Hps'].
  Qed.

  Lemma q_fin_back : forall j s, In j (d_finals d') -> block_index s p 0 = Some j ->
    In s (d_finals t).
  Proof.
    intros j s Hj Hs. apply Hfin' in Hj.
    destruct Hj as (b & rep & tgt & _ & _ & _ & Hf & Hbt).
    apply (qc_fin t p QC j tgt s Hbt Hs). exact Hf.
  Qed.

  Theorem quotient_back_lsub : lsub (Ld d') (Ld t).
  Proof.
    intros u (j & Hj & Hpa). unfold L_dfa, L_from.
    destruct (q_path_back _ _ _ Hpa _ Hinit') as (s' & Hs' & Hps').
    exists s'. split; [|exact Hps']. exact (q_fin_back j s' Hj Hs').
  Qed.

  Theorem quotient_trie_nonempty : forall u, u <> [] -> (Ld d' u <-> Ld t u).
  Proof.
    intros u Hu. split; [apply quotient_back_lsub|].
    exact (qcover_lang_nonempty_st lit_den cls_den t d' p QC Hrg u Hu).
  Qed.

  Theorem quotient_trie_eps_kept : eps_safe t p -> leq (Ld d') (Ld t).
  Proof.
    intros Hsafe u. split; [apply quotient_back_lsub|].
    exact (qcover_lang_sub_st lit_den cls_den t d' p QC Hrg Hwt Hsafe u).
  Qed.
End Back.

(* minimisation of ANY trie of uniform clusters, merged edges or not: the twin of
   MinimizeLang.minimize_trie_lang without the hypothesis no_merge *)
Theorem minimize_trie_lang_eq : forall (lit_den cls_den : cp -> cp -> Prop) cls t,
  Forall wf_cluster cls -> Forall (Forall uniform_g) cls -> trie_of cls = Some t ->
  exists d' p,
    partition_of t = Some p /\ recreate_graph t p = Some d' /\ minimize t = Some d'
    /\ wf_dfa d' /\ acyclic d'
    /\ (forall u, u <> [] -> (L_dfa lit_den cls_den d' u <-> L_dfa lit_den cls_den t u))
    /\ lsub (L_dfa lit_den cls_den d') (L_dfa lit_den cls_den t)
    /\ (eps_safe t p -> leq (L_dfa lit_den cls_den d') (L_dfa lit_den cls_den t))
    /\ (~ In (d_init t) (d_finals t) -> leq (L_dfa lit_den cls_den d') (L_dfa lit_den cls_den t))
    /\ (forall s, s < d_n t -> s <> d_init t ->
          block_index s p 0 = block_index (d_init t) p 0 ->
          leq (L_dfa lit_den cls_den d') (L_dfa lit_den cls_den t)).
Proof.
  intros lit_den cls_den cls t Hwf Hun Ht.
  destruct (minimize_trie_sound lit_den cls_den cls t Hwf Hun Ht)
    as (d' & p & Hp & Hrg & Hm & Hwd & Hac & _ & _).
  exists d', p. split; [exact Hp|]. split; [exact Hrg|]. split; [exact Hm|].
  split; [exact Hwd|]. split; [exact Hac|].
  split; [exact (quotient_trie_nonempty lit_den cls_den cls t d' p Hwf Hun Ht Hp Hrg)|].
  split; [exact (quotient_back_lsub lit_den cls_den cls t d' p Hwf Hun Ht Hp Hrg)|].
  assert (HE : eps_safe t p -> leq (L_dfa lit_den cls_den d') (L_dfa lit_den cls_den t))
    by exact (quotient_trie_eps_kept lit_den cls_den cls t d' p Hwf Hun Ht Hp Hrg).
  split; [exact HE|]. split.
  - intros Hnf. apply HE. left. exact Hnf.
  - intros s Hs Hne Hb. apply HE. eapply tree_eps_safe; eauto. apply (trie_shape cls t Ht).
Qed.

(* ====================================================================== *)
(* 2. the root of a trie is final only if the empty cluster was inserted   *)
(* ====================================================================== *)
Lemma step_insert_gt : forall st cur g st' nx,
  st_ok st -> cur < t_n st -> step_insert st cur g = Some (st', nx) -> cur < nx.
Proof.
  intros st cur g st' nx [Hn He] Hc H.
  destruct (step_cases _ _ _ _ _ H) as [(-> & cg & Hin & _)|[(cg & F & _ & _ & ->)|(-> & ->)]].
  - apply He in Hin. lia.
  - apply find_edge_some3 in F. destruct F as (Hin & _ & _). apply He in Hin. lia.
  - exact Hc.
Qed.

Lemma insert_path_last : forall gs st cur st' last,
  st_ok st -> cur < t_n st -> insert_path st cur gs = Some (st', last) ->
  (gs = [] /\ last = cur) \/ cur < last.
Proof.
  induction gs as [|g gs IH]; intros st cur st' last Hok Hc H; simpl in H.
  - inversion H; subst. left. auto.
  - right. destruct (step_insert st cur g) as [[st1 nx]|] eqn:S; [|discriminate].
    pose proof (step_insert_gt _ _ _ _ _ Hok Hc S) as Hgt.
    destruct (step_ok _ _ _ _ _ Hok Hc S) as (Hok1 & Hnx & _).
    destruct (IH _ _ _ _ Hok1 Hnx H) as [[_ ->]|Hlt]; lia.
Qed.

Lemma acc_root_final : forall cls a, trie_acc_of cls = Some a ->
  In 0 (ta_finals a) -> In [] cls.
Proof.
  induction cls as [|cl cls IH] using rev_ind; intros a H Hf.
  - unfold trie_acc_of in H; simpl in H. inversion H; subst. destruct Hf.
  - apply trie_acc_snoc_inv in H. destruct H as (a0 & st' & last & H0 & P & ->).
    simpl in Hf. apply set_add_in in Hf. apply in_or_app. destruct Hf as [Hf|Hf].
    + right. left.
      destruct (acc_ok_inv _ _ H0) as [Hok _].
      assert (H0n : 0 < t_n (ta_st a0)) by (destruct Hok; lia).
      destruct (insert_path_last _ _ _ _ _ Hok H0n P) as [[-> _]|Hlt]; [reflexivity|lia].
    + left. exact (IH _ H0 Hf).
Qed.

Theorem trie_root_final : forall cls t, trie_of cls = Some t ->
  In (d_init t) (d_finals t) -> In [] cls.
Proof.
  intros cls t H Hf. apply trie_of_inv in H. destruct H as (a & Ha & ->). simpl in Hf.
  exact (acc_root_final cls a Ha Hf).
Qed.

(* ====================================================================== *)
(* 3. the final expression and the trie                                    *)
(* ====================================================================== *)
Section S.
  Variables lit_den cls_den : cp -> cp -> Prop.
  Local Notation Le := (L_expr lit_den cls_den).
  Local Notation Ld := (L_dfa lit_den cls_den).
  Local Notation Lcs := (L_clusters lit_den cls_den).
  Local Notation SpecL := (Spec lit_den cls_den).

  (* the empty string in the language of a well-formed automaton: the root is final, whatever
     the denotation *)
  Lemma L_dfa_nil_root : forall (l1 c1 : cp -> cp -> Prop) d, wf_dfa d ->
    (L_dfa l1 c1 d [] <-> In (d_init d) (d_finals d)).
  Proof.
    intros l1 c1 d Hwd. split.
    - intros (s & Hs & Hpa).
      assert (d_init d = s).
      { eapply path_nil_inv; [|exact Hpa|reflexivity].
        intros e He. apply (wf_dfa_edge d e Hwd He). }
      subst s. exact Hs.
    - intros Hf. exists (d_init d). split; [exact Hf|constructor].
  Qed.

  (* a trie of a non-empty list of well-formed uniform clusters accepts something at the
     total denotation; if it is the empty string only, its root is final *)
  Lemma trie_inhabited_T : forall cls t,
    Forall wf_cluster cls -> Forall (Forall uniform_g) cls -> cls <> [] ->
    trie_of cls = Some t -> exists u, L_dfa dT dT t u.
  Proof.
    intros cls t Hwf Hun Hne Ht. destruct cls as [|cl cls]; [congruence|].
    inversion Hwf as [|? ? Hcl _]; subst.
    destruct (L_cluster_inh_T cl Hcl) as [u0 Hu0]. exists u0.
    apply (trie_lang_sup dT dT (cl :: cls) t Hwf Hun Ht).
    exists cl. split; [left; reflexivity|exact Hu0].
  Qed.

  (* ---------- the branch of the unminimised trie: exact ---------- *)
  Lemma trie_branch_any : forall c cls t e2,
    Forall wf_cluster cls -> Forall (Forall uniform_g) cls -> cls <> [] ->
    trie_of cls = Some t -> expr_from c t = Some e2 -> leq (Le e2) (Ld t).
  Proof.
    intros c cls t e2 Hwf Hun Hne Ht He2.
    pose proof (trie_wf cls t Hwf Ht) as Hwt.
    assert (Hac : acyclic t) by exact (trie_acyclic cls t Ht).
    destruct (efl lit_den cls_den c t e2 Hwt Hac He2) as [Hl|[-> Hemp]]; [exact Hl|].
    (* e2 = ELit [] and the trie accepts nothing at (lit_den, cls_den): impossible *)
    exfalso.
    destruct (efl dT dT c t (ELit []) Hwt Hac He2) as [HlT|[_ HempT]].
    - apply (Hemp []). apply (L_dfa_nil_root lit_den cls_den t Hwt).
      apply (L_dfa_nil_root dT dT t Hwt). apply HlT. reflexivity.
    - destruct (trie_inhabited_T cls t Hwf Hun Hne Ht) as [u0 Hu0]. exact (HempT u0 Hu0).
  Qed.

  (* ---------- the branch of the minimised automaton ---------- *)
  Lemma min_branch_any : forall c cls t d1 e1,
    Forall wf_cluster cls -> Forall (Forall uniform_g) cls -> cls <> [] ->
    trie_of cls = Some t -> minimize t = Some d1 -> expr_from c d1 = Some e1 ->
    (forall u, u <> [] -> (Le e1 u <-> Ld t u)) /\ lsub (Le e1) (Ld t).
  Proof.
    intros c cls t d1 e1 Hwf Hun Hcne Ht Hm He1.
    pose proof (trie_wf cls t Hwf Ht) as Hwt.
    destruct (minimize_trie_lang_eq lit_den cls_den cls t Hwf Hun Ht)
      as (d' & p & Hp & Hrg & Hm' & Hwd & Hac & Hne & Hsub & _).
    assert (d' = d1) by congruence. subst d'.
    destruct (minimize_trie_lang_eq dT dT cls t Hwf Hun Ht)
      as (d' & p' & _ & _ & HmT & _ & _ & HneT & HsubT & _).
    assert (d' = d1) by congruence. subst d'.
    destruct (efl lit_den cls_den c d1 e1 Hwd Hac He1) as [Hl|[-> Hemp]].
    - split.
      + intros u Hu1. pose proof (Hl u). pose proof (Hne u Hu1). tauto.
      + intros u H. apply Hsub. apply Hl. exact H.
    - (* fallback ELit []: d1 has no accepting path; the root of the trie is final *)
      assert (Hroot : In (d_init t) (d_finals t)).
      { destruct (efl dT dT c d1 (ELit []) Hwd Hac He1) as [HlT|[_ HempT]].
        - apply (L_dfa_nil_root dT dT t Hwt). apply HsubT. apply HlT. reflexivity.
        - destruct (trie_inhabited_T cls t Hwf Hun Hcne Ht) as [u0 Hu0].
          destruct u0 as [|x u0]; [apply (L_dfa_nil_root dT dT t Hwt); exact Hu0|].
          exfalso. apply (HempT (x :: u0)). apply HneT; [discriminate|exact Hu0]. }
      split.
      + intros u Hu1. split; intros H.
        * simpl in H. contradiction.
        * exfalso. apply (Hemp u). apply Hne; [exact Hu1|exact H].
      + intros u H. simpl in H. unfold leps in H. subst u.
        apply (L_dfa_nil_root lit_den cls_den t Hwt). exact Hroot.
  Qed.

  (* ---------- cluster level ---------- *)
  (* fallback_outcome c sc: Pipeline.final_expr returns the plain alternation of the clusters *)
  Definition fallback_outcome (c : cfg) (sc : selfcheck) : Prop :=
    f_no_start c && f_no_end c = true /\ sc = SCFail.

  Theorem clusters_final_within_trie : forall c cls sc e t,
    Forall wf_cluster cls -> Forall (Forall uniform_g) cls -> cls <> [] ->
    trie_of cls = Some t ->
    Pipeline.final_expr c cls sc = Some e ->
    lsub (Le e) (Ld t)
    /\ (~ fallback_outcome c sc -> forall u, u <> [] -> (Le e u <-> Ld t u))
    /\ (f_no_start c && f_no_end c = true -> sc = SCPass2 -> leq (Le e) (Ld t)).
  Proof.
    intros c cls sc e t Hwf Hun Hne Ht H.
    destruct (final_expr_inv c cls sc e H) as (t0 & d1 & e1 & Ht0 & Hm & He1 & Hcase).
    assert (t0 = t) by congruence. subst t0.
    destruct Hcase as [->|[(Hfl & -> & He2)|(Hfl & -> & ->)]].
    - destruct (min_branch_any c cls t d1 e1 Hwf Hun Hne Ht Hm He1) as [A B].
      split; [exact B|]. split; [intros _; exact A|].
      (* SCPass2 with both anchors disabled returns the trie expression, not e1: the
         hypothesis pins e1 down through the computation *)
      intros Hfl Hsc. subst sc.
      unfold Pipeline.final_expr, dfa_from in H. rewrite Ht, Hm, He1, Hfl in H.
      destruct (expr_from c t) as [e2|] eqn:He2; [|discriminate]. inversion H; subst e2.
      exact (trie_branch_any c cls t e1 Hwf Hun Hne Ht He2).
    - pose proof (trie_branch_any c cls t e Hwf Hun Hne Ht He2) as A.
      split; [intros u Hu; apply A; exact Hu|]. split; [intros _ u _; apply A|].
      intros _ _. exact A.
    - split; [|split].
      + intros u Hu. apply (trie_lang_sup lit_den cls_den cls t Hwf Hun Ht).
        apply fallback_lang. exact Hu.
      + intros Hnf. exfalso. apply Hnf. split; [exact Hfl|reflexivity].
      + intros _ Hsc. discriminate Hsc.
  Qed.

  (* ---------- pipeline level ---------- *)
  Theorem final_expr_lang_trie : forall c db sc ws e t,
    ws <> [] ->
    oracle_ok db (normalise c db ws) ->
    trie_of (grapheme_clusters c db (normalise c db ws)) = Some t ->
    Pipeline.final_expr c (grapheme_clusters c db (normalise c db ws)) sc = Some e ->
    (forall u, Le e u -> Ld t u)
    /\ (~ fallback_outcome c sc ->
        forall u, (u <> [] \/ K4 (normalise c db ws) = false) -> (Le e u <-> Ld t u))
    /\ (f_no_start c && f_no_end c = true -> sc = SCPass2 -> forall u, Le e u <-> Ld t u).
  Proof.
    intros c db sc ws e t Hws Hok Ht H.
    pose proof (spec_clusters lit_den cls_den c db ws Hok) as Hspec.
    pose proof (clusters_nonempty c db ws Hws) as Hne.
    set (tcs := normalise c db ws) in *.
    set (cls := grapheme_clusters c db tcs) in *.
    assert (Hwf : Forall wf_cluster cls) by apply grapheme_clusters_wf.
    assert (Hun : Forall (Forall uniform_g) cls) by apply grapheme_clusters_uniform.
    destruct (clusters_final_within_trie c cls sc e t Hwf Hun Hne Ht H) as (A & B & C).
    split; [exact A|]. split; [|exact C].
    intros Hnf u [Hu|HK]; [exact (B Hnf u Hu)|].
    destruct u as [|x u]; [|apply (B Hnf); discriminate].
    split; [apply A|]. intros HL.
    (* the root is final: the empty cluster, hence the empty test case, is there; without K4
       all test cases are empty and everything computes *)
    pose proof (trie_wf cls t Hwf Ht) as Hwt.
    apply (L_dfa_nil_root lit_den cls_den t Hwt) in HL.
    pose proof (trie_root_final cls t Ht HL) as Hnil.
    assert (HS : SpecL c db ws []).
    { apply Hspec. exists []. split; [exact Hnil|reflexivity]. }
    apply (all_nil_final lit_den cls_den c cls sc e); [|exact Hne|exact H].
    apply Forall_forall. intros cl Hcl.
    assert (Hin0 : In [] tcs).
    { apply (spec_tcs lit_den cls_den) in HS. destruct HS as (t0 & Ht0 & HSt).
      apply Spec_str_nil_inv in HSt. subst t0. exact Ht0. }
    unfold cls in Hcl. rewrite grapheme_clusters_map in Hcl.
    apply in_map_iff in Hcl. destruct Hcl as (s & <- & Hs).
    rewrite (K4_false_inv tcs HK Hin0 s Hs). apply cluster_grk_nil.
  Qed.

  (* Spec <= L(e) <= L(trie): the over-approximation of the final pattern (K1) is already in
     the trie; nothing is added by minimisation, state elimination or the fallback *)
  Corollary final_expr_sandwich : forall c db sc ws e t,
    ws <> [] ->
    oracle_ok db (normalise c db ws) ->
    trie_of (grapheme_clusters c db (normalise c db ws)) = Some t ->
    Pipeline.final_expr c (grapheme_clusters c db (normalise c db ws)) sc = Some e ->
    (forall u, SpecL c db ws u -> (u <> [] \/ K4 (normalise c db ws) = false) -> Le e u)
    /\ (forall u, Le e u -> Ld t u).
  Proof.
    intros c db sc ws e t Hws Hok Ht H. split.
    - exact (final_expr_sound_with_merge lit_den cls_den c db sc ws e Hws Hok H).
    - exact (proj1 (final_expr_lang_trie c db sc ws e t Hws Hok Ht H)).
  Qed.

  (* ====================================================================== *)
  (* 4. C05: repetition conversion never loses a string                      *)
  (* ====================================================================== *)
  Theorem never_loses : forall c c' db sc sc' ws e e',
    same_lang_settings c c' -> f_rep c' = false ->
    ws <> [] ->
    oracle_ok db (normalise c db ws) ->
    Pipeline.final_expr c (grapheme_clusters c db (normalise c db ws)) sc = Some e ->
    Pipeline.final_expr c' (grapheme_clusters c' db (normalise c' db ws)) sc' = Some e' ->
    forall u, (u <> [] \/ K4 (normalise c db ws) = false) -> Le e' u -> Le e u.
  Proof.
    intros c c' db sc sc' ws e e' HS Hr Hws Hok He He' u Hside HL.
    assert (En : normalise c db ws = normalise c' db ws)
      by (apply normalise_settings; apply HS).
    assert (Hok' : oracle_ok db (normalise c' db ws)) by (rewrite <- En; exact Hok).
    destruct (construction_lang_default lit_den cls_den c' db sc' ws e' Hr Hws Hok' He')
      as [A B].
    assert (HSp' : SpecL c' db ws u).
    { destruct u as [|x u]; [exact (B HL)|]. apply A; [left; discriminate|exact HL]. }
    apply (final_expr_sound_with_merge lit_den cls_den c db sc ws e Hws Hok He u); [|exact Hside].
    apply (Spec_settings lit_den cls_den c c' db ws HS). exact HSp'.
  Qed.
End S.

(* ====================================================================== *)
(* sanity: the statements on an input whose trie is merged                 *)
(* ====================================================================== *)
Module Sanity.
  Definition c_rep : cfg := Construction.Sanity.c_rep.
  Definition c_norep : cfg :=
    mkCfg 1 1 false false false false false false false false false false false false false false false.
  Definition cls_of (c : cfg) (ws : list str) : list cluster :=
    grapheme_clusters c [] (normalise c [] ws).

  (* "ba" "baa": with repetition conversion the clusters are b a and b a{2}; the second
     insertion widens the edge a to a{1,2} *)
  Definition ws0 : list str := [[98;97]; [98;97;97]]%N.
  Example cls0_is : cls_of c_rep ws0 =
    [ [G [[98%N]] [] 1 1; G [[97%N]] [] 1 1]; [G [[98%N]] [] 1 1; G [[97%N]] [] 2 2] ].
  Proof. vm_compute. reflexivity. Qed.
  Example merge0 : no_merge (cls_of c_rep ws0) = false.
  Proof. vm_compute. reflexivity. Qed.
  Example settings0 : same_lang_settings c_rep c_norep /\ f_rep c_norep = false.
  Proof. repeat split. Qed.

  Lemma oracle_ok_nil : forall ws, oracle_ok [] ws.
  Proof. intros ws s _. unfold cat_of. simpl. apply map_length. Qed.

  (* K1 LOCATED.  "abc" "abbd" with repetition conversion: clusters a b c and a b{2} d; the
     second insertion widens the edge b to b{1,2}, which is then shared by both branches:
     the trie, and with it the final expression ab{1,2}[cd], accepts "abd" (and "abbc"),
     which is not specified.  Without repetition conversion the expression is
     ab(?:bd|c), which does not accept it. *)
  Definition ws1 : list str := [[97;98;99]; [97;98;98;100]]%N.
  Definition abd : str := [97;98;100]%N.
  Definition t1 : dfa :=
    mkDfa 5 [(0, 1, G [[97%N]] [] 1 1); (1, 2, G [[98%N]] [] 1 2);
             (2, 3, G [[99%N]] [] 1 1); (2, 4, G [[100%N]] [] 1 1)] 0 [3; 4]
          [G [[97%N]] [] 1 1; G [[98%N]] [] 1 1; G [[98%N]] [] 2 2; G [[99%N]] [] 1 1;
           G [[100%N]] [] 1 1].
  Definition e1 : expr :=
    ECat (ELit [G [[97%N]] [] 1 1; G [[98%N]] [] 1 2]) (ECC [99%N; 100%N]).
  Definition e1' : expr :=
    ECat (ELit [G [[97%N]] [] 1 1; G [[98%N]] [] 1 1])
         (EAlt [ELit [G [[98%N]] [] 1 1; G [[100%N]] [] 1 1]; ELit [G [[99%N]] [] 1 1]]).

  Example k1_merge : no_merge (cls_of c_rep ws1) = false.
  Proof. vm_compute. reflexivity. Qed.
  Example k1_trie : trie_of (cls_of c_rep ws1) = Some t1.
  Proof. vm_compute. reflexivity. Qed.
  Example k1_expr : forall sc,
    Pipeline.final_expr c_rep (cls_of c_rep ws1) sc = Some e1.
  Proof. intros [| | |]; vm_compute; reflexivity. Qed.
  Example k1_expr_norep : forall sc,
    Pipeline.final_expr c_norep (cls_of c_norep ws1) sc = Some e1'.
  Proof. intros [| | |]; vm_compute; reflexivity. Qed.

  Lemma den_g_single : forall (cls_den : cp -> cp -> Prop) a lo hi,
    (lo <= 1)%N -> (1 <= hi)%N -> den_g eq cls_den (G [[a]] [] lo hi) [a].
  Proof.
    intros cls_den a lo hi H1 H2. exists 1. cbn [g_min g_max g_chars].
    split; [exact H1|]. split; [exact H2|].
    exists [a], []. split; [reflexivity|]. split; [|reflexivity].
    exists [a], []. split; [reflexivity|]. split; [|reflexivity].
    exists a. split; reflexivity.
  Qed.

  (* the final expression over-matches ... *)
  Example k1_over : L_expr eq eq e1 abd.
  Proof.
    exists [97; 98]%N, [100%N]. split; [reflexivity|]. split.
    - exists [97%N], [98%N]. split; [reflexivity|]. split; [apply den_g_single; lia|].
      exists [98%N], []. split; [reflexivity|]. split; [apply den_g_single; lia|reflexivity].
    - exists 100%N. split; [right; left; reflexivity|]. exists 100%N. split; reflexivity.
  Qed.

  (* ... the string is not specified ... *)
  Example k1_not_spec : ~ Spec eq eq c_rep [] ws1 abd.
  Proof.
    intros (t & Ht & H). change (f_ci c_rep) with false in Ht. cbv iota in Ht.
    unfold Spec_str in H. destruct Ht as [<-|[<-|[]]].
    - assert (E : map (class_token c_rep class_chain) [97; 98; 99]%N = [[97]; [98]; [99]]%N)
        by (vm_compute; reflexivity).
      rewrite E in H. cbn [den_tokens den_str] in H.
      destruct H as (v1 & w1 & E1 & (x1 & -> & _) & v2 & w2 & -> & (x2 & -> & _)
                     & v3 & w3 & -> & (x3 & -> & L3) & ->).
      unfold abd in E1. cbn [app] in E1. injection E1 as _ _ Hc. subst x3. discriminate L3.
    - assert (E : map (class_token c_rep class_chain) [97; 98; 98; 100]%N
                  = [[97]; [98]; [98]; [100]]%N) by (vm_compute; reflexivity).
      rewrite E in H. cbn [den_tokens den_str] in H.
      destruct H as (v1 & w1 & E1 & (x1 & -> & _) & v2 & w2 & -> & (x2 & -> & _)
                     & v3 & w3 & -> & (x3 & -> & _) & v4 & w4 & -> & (x4 & -> & _) & ->).
      unfold abd in E1. cbn [app] in E1. discriminate E1.
  Qed.

  (* ... and the trie accepts it already (final_expr_lang_trie; minimisation, state
     elimination and the self-check fallback add nothing) *)
  Example k1_in_trie : L_dfa eq eq t1 abd.
  Proof.
    apply (proj1 (final_expr_lang_trie eq eq c_rep [] SCPass1 ws1 e1 t1
                    ltac:(discriminate) (oracle_ok_nil _) k1_trie (k1_expr SCPass1))).
    exact k1_over.
  Qed.

  (* ... while the expression built without repetition conversion rejects it; never_loses
     holds non-vacuously on this input, and its converse fails *)
  Example k1_norep_rejects : ~ L_expr eq eq e1' abd.
  Proof.
    intros H. apply k1_not_spec.
    apply (Spec_settings eq eq c_rep c_norep [] ws1 (proj1 settings0)).
    destruct (construction_lang_default eq eq c_norep [] SCPass1 ws1 e1'
                (proj2 settings0) ltac:(discriminate) (oracle_ok_nil _)
                (k1_expr_norep SCPass1)) as [A _].
    apply A; [left; discriminate|exact H].
  Qed.

  Example k1_never_loses : forall u, L_expr eq eq e1' u -> L_expr eq eq e1 u.
  Proof.
    intros u Hu.
    assert (HK : K4 (normalise c_rep [] ws1) = false) by (vm_compute; reflexivity).
    exact (never_loses eq eq c_rep c_norep [] SCPass1 SCPass1 ws1 e1 e1'
             (proj1 settings0) (proj2 settings0) ltac:(discriminate) (oracle_ok_nil _)
             (k1_expr SCPass1) (k1_expr_norep SCPass1) u (or_intror HK) Hu).
  Qed.
End Sanity.

Check minimize_trie_lang_eq.
Check final_expr_lang_trie.
Check final_expr_sandwich.
Check never_loses.
Print Assumptions minimize_trie_lang_eq.
Print Assumptions final_expr_lang_trie.
Print Assumptions final_expr_sandwich.
Print Assumptions never_loses.
Print Assumptions Sanity.k1_in_trie.
Print Assumptions Sanity.k1_norep_rejects.
Print Assumptions Sanity.k1_never_loses.
