(* Instances of the provenance theorem (Provenance.v):
   (1) repetition thresholds  thr_lbl c,  and unit bounds when repetitions are not converted;
   (2) the string shape  shape_g  (well-formed, every string tokenised);
   (3) both together.
   No existing file is modified. *)
From Grex Require Import Base.Str Model.Config Model.Cluster Model.Dfa Model.Expr Model.Pipeline
  Proofs.Lang Proofs.RepInv Proofs.ExprLang Proofs.TrieLang Proofs.ClustersSpec Proofs.Provenance.
From GrexGen Require Import GrexTables.

(* ====================================================================== *)
(* 0. closure of the widening hypothesis under conjunction                 *)
(* ====================================================================== *)

Definition widen_closed (Q : grapheme -> Prop) : Prop :=
  forall g h, Q g -> Q h -> g_chars g = g_chars h -> g_max g = (g_max h - 1)%N ->
    Q (g_new (g_chars h) (N.min (g_min g) (g_min h)) (N.max (g_max g) (g_max h))).

Lemma widen_closed_and : forall Q1 Q2, widen_closed Q1 -> widen_closed Q2 ->
  widen_closed (fun g => Q1 g /\ Q2 g).
Proof.
  intros Q1 Q2 W1 W2 g h [G1 G2] [H1 H2] Hc Hm. split; [apply W1|apply W2]; assumption.
Qed.

Lemma widen_closed_wf : widen_closed wf_g.
Proof. intros g h Wg Wh _ _. exact (widened_wf g h Wg Wh). Qed.

Lemma Forall2_and : forall (Q1 Q2 : grapheme -> Prop) (cls : list cluster),
  Forall (Forall Q1) cls -> Forall (Forall Q2) cls -> Forall (Forall (fun g => Q1 g /\ Q2 g)) cls.
Proof.
  intros Q1 Q2 cls H1 H2. rewrite Forall_forall in *. intros cl Hcl.
  specialize (H1 cl Hcl). specialize (H2 cl Hcl).
  rewrite Forall_forall in *. intros g Hg. split; [exact (H1 g Hg)|exact (H2 g Hg)].
Qed.

(* ====================================================================== *)
(* 1. thresholds                                                           *)
(* ====================================================================== *)

Definition thr_lbl (c : cfg) (g : grapheme) : Prop :=
  (g_min g = 1%N /\ g_max g = 1%N)
  \/ ((min_rep c < g_max g)%N /\ (min_len c <= N.of_nat (length (g_chars g)))%N).

Lemma thr_ok_lbl : forall c g, thr_ok c g -> thr_lbl c g.
Proof.
  intros c g H. inversion H as [cs rs a b Hab Hthr _]; subst. unfold thr_lbl. cbn [g_min g_max g_chars].
  destruct Hthr as [[Ha _]|H2]; [left; split; exact Ha|right; exact H2].
Qed.

(* the guard  g_max g = g_max h - 1  is not needed for this invariant *)
Lemma thr_lbl_widen_noguard : forall c g h, thr_lbl c g -> thr_lbl c h -> g_chars g = g_chars h ->
  thr_lbl c (g_new (g_chars h) (N.min (g_min g) (g_min h)) (N.max (g_max g) (g_max h))).
Proof.
  intros c g h Hg Hh Hc. unfold thr_lbl, g_new in *. cbn [g_min g_max g_chars].
  destruct Hg as [[G1 G2]|[G1 G2]]; destruct Hh as [[H1 H2]|[H1 H2]].
  - left. split; lia.
  - right. split; [lia|exact H2].
  - right. split; [lia|]. rewrite <- Hc. exact G2.
  - right. split; [lia|exact H2].
Qed.

Lemma thr_lbl_widen : forall c, widen_closed (thr_lbl c).
Proof. intros c g h Hg Hh Hc _. apply thr_lbl_widen_noguard; assumption. Qed.

Lemma cluster_r_thr_lbl : forall c cl, Forall plain cl -> Forall (thr_lbl c) (cluster_r c cl).
Proof.
  intros c cl Hpl. unfold cluster_r. destruct (f_rep c).
  - eapply Forall_impl; [|exact (convert_thresholds_strong c cl Hpl)]. apply thr_ok_lbl.
  - eapply Forall_impl; [|exact Hpl]. intros g Hg. left. exact (plain_unit g Hg).
Qed.

Theorem grapheme_clusters_thr_lbl : forall c db ws,
  Forall (Forall (thr_lbl c)) (grapheme_clusters c db ws).
Proof.
  intros c db ws. rewrite grapheme_clusters_map. apply Forall_map. apply Forall_forall.
  intros s _. apply cluster_r_thr_lbl. apply cluster_gk_plain.
Qed.

Theorem final_expr_thr_wf : forall c db ws sc e,
  final_expr c (grapheme_clusters c db ws) sc = Some e -> expr_all (with_wf (thr_lbl c)) e.
Proof.
  intros c db ws sc e H.
  exact (final_expr_all_wf (thr_lbl c) (thr_lbl_widen c) c _ sc e
           (grapheme_clusters_thr_lbl c db ws) (grapheme_clusters_wf c db ws) H).
Qed.

Theorem final_expr_thr : forall c db ws sc e,
  final_expr c (grapheme_clusters c db ws) sc = Some e -> expr_all (thr_lbl c) e.
Proof.
  intros c db ws sc e H.
  exact (final_expr_all_Q (thr_lbl c) (thr_lbl_widen c) c _ sc e
           (grapheme_clusters_thr_lbl c db ws) (grapheme_clusters_wf c db ws) H).
Qed.

(* --- repetitions not converted: every bound is (1,1) --- *)
Definition unit_g (g : grapheme) : Prop := g_min g = 1%N /\ g_max g = 1%N.

(* REMARK (statement in the task corrected): Q := "min = 1 /\ max = 1" does NOT fail Q_widen,
   even without the guard: min (1,1) = 1 and max (1,1) = 1.  With the guard the premise is
   contradictory (1 = 1 - 1 is false), so the closure is vacuous as well. *)
Lemma unit_g_widen_noguard : forall g h, unit_g g -> unit_g h ->
  unit_g (g_new (g_chars h) (N.min (g_min g) (g_min h)) (N.max (g_max g) (g_max h))).
Proof. intros g h [G1 G2] [H1 H2]. unfold unit_g, g_new. cbn [g_min g_max]. split; lia. Qed.

Lemma unit_g_widen : widen_closed unit_g.
Proof. intros g h Hg Hh _ _. apply unit_g_widen_noguard; assumption. Qed.

Lemma unit_g_guard_vacuous : forall g h, unit_g g -> unit_g h -> g_max g <> (g_max h - 1)%N.
Proof. intros g h [_ G2] [_ H2]. rewrite G2, H2. discriminate. Qed.

Theorem final_expr_unit_wf : forall c db ws sc e, f_rep c = false ->
  final_expr c (grapheme_clusters c db ws) sc = Some e -> expr_all (with_wf unit_g) e.
Proof.
  intros c db ws sc e Hr H.
  exact (final_expr_all_wf unit_g unit_g_widen c _ sc e
           (grapheme_clusters_unit c db ws Hr) (grapheme_clusters_wf c db ws) H).
Qed.

Theorem final_expr_unit : forall c db ws sc e, f_rep c = false ->
  final_expr c (grapheme_clusters c db ws) sc = Some e ->
  forall g, lit_in g e -> g_min g = 1%N /\ g_max g = 1%N.
Proof.
  intros c db ws sc e Hr H g Hg.
  destruct (expr_all_lit_in _ e g (final_expr_unit_wf c db ws sc e Hr H) Hg) as [Hu _]. exact Hu.
Qed.

(* ====================================================================== *)
(* 2. string shape                                                         *)
(* ====================================================================== *)

(* scan a string: a backslash must be followed by a class letter (the pair is one token) *)
Fixpoint tok_scan (s : str) : bool :=
  match s with
  | [] => true
  | x :: rest =>
      if N.eqb x 92 then
        match rest with
        | l :: rest' => is_class_letter l && tok_scan rest'
        | [] => false
        end
      else tok_scan rest
  end.

(* the whole string [92] (a literal backslash) is allowed *)
Definition tokenised (s : str) : bool := str_eqb s [92%N] || tok_scan s.

Definition tok_g (g : grapheme) : Prop := Forall (fun t => tokenised t = true) (g_chars g).
Definition shape_g (g : grapheme) : Prop := wf_g g /\ tok_g g.

Lemma tok_scan_nobs : forall t, ~ In 92%N t -> tok_scan t = true.
Proof.
  induction t as [|x t IH]; intros Hn; cbn [tok_scan]; [reflexivity|].
  destruct (N.eqb x 92) eqn:E.
  - apply N.eqb_eq in E. exfalso. apply Hn. left. exact E.
  - apply IH. intros Hin. apply Hn. right. exact Hin.
Qed.

Lemma tokenised_stageG : forall t, (In 92%N t -> t = [92%N]) -> tokenised t = true.
Proof.
  intros t Ht. unfold tokenised. destruct (in_dec N.eq_dec 92%N t) as [Hin|Hn].
  - rewrite (Ht Hin). reflexivity.
  - rewrite (tok_scan_nobs t Hn). apply orb_true_r.
Qed.

Lemma tok_scan_tokens_nobs : forall c t, ~ In 92%N t ->
  tok_scan (flat_map (class_token c class_chain) t) = true.
Proof.
  intros c t. induction t as [|x t IH]; intros Hn; cbn [flat_map]; [reflexivity|].
  assert (Hx : x <> 92%N) by (intros E; apply Hn; left; exact E).
  assert (IH' : tok_scan (flat_map (class_token c class_chain) t) = true)
    by (apply IH; intros Hin; apply Hn; right; exact Hin).
  destruct (class_token_shape c x) as [H|[l [H Hl]]]; rewrite H; cbn [app tok_scan].
  - apply N.eqb_neq in Hx. rewrite Hx. exact IH'.
  - rewrite N.eqb_refl, Hl, IH'. reflexivity.
Qed.

Lemma tokenised_tokens : forall c t, (In 92%N t -> t = [92%N]) ->
  tokenised (flat_map (class_token c class_chain) t) = true.
Proof.
  intros c t Ht. destruct (in_dec N.eq_dec 92%N t) as [Hin|Hn].
  - rewrite (Ht Hin). cbn [flat_map]. rewrite app_nil_r.
    destruct (class_token_shape c 92%N) as [H|[l [H Hl]]]; rewrite H; [reflexivity|].
    unfold tokenised. cbn [tok_scan]. rewrite N.eqb_refl, Hl. apply orb_true_r.
  - unfold tokenised. rewrite (tok_scan_tokens_nobs c t Hn). apply orb_true_r.
Qed.

(* stages G and K *)
Lemma cluster_gk_tok : forall c db s, Forall tok_g (cluster_k c (cluster_g db s)).
Proof.
  intros c db s. unfold cluster_k, cluster_g. destruct (char_class_feature c).
  - unfold convert_classes. apply Forall_map.
    eapply Forall_impl; [|apply cluster_of_shape]. intros g (t & -> & _ & Hbs).
    unfold tok_g. cbn [convert_classes_g g_chars map]. constructor; [|constructor].
    apply tokenised_tokens. exact Hbs.
  - eapply Forall_impl; [|apply cluster_of_shape]. intros g (t & -> & _ & Hbs).
    unfold tok_g. cbn [g_chars]. constructor; [|constructor]. apply tokenised_stageG. exact Hbs.
Qed.

(* stage R: the strings of a repetition are the value strings of plain graphemes *)
Lemma plain_value_tok : forall g, plain g -> tok_g g -> tokenised (g_value g) = true.
Proof.
  intros g [t ->] Ht. unfold g_value, tok_g in *. cbn [g_chars concat] in *.
  rewrite app_nil_r. inversion Ht; subst. assumption.
Qed.

Lemma tok_g_relabel : forall fuel c g, tok_g g -> tok_g (relabel fuel c g).
Proof. intros fuel c [cs rs a b] H. exact H. Qed.

Lemma conv_reps_tok : forall c fuel gs,
  Forall plain gs -> Forall tok_g gs -> Forall tok_g (conv_reps fuel c gs).
Proof.
  intros c [|fuel] gs Hpl Htk; [constructor|].
  destruct (conv_reps_S fuel c gs) as [E|E]; rewrite E; [constructor|].
  apply Forall_map. apply splice_all_Forall.
  - eapply Forall_impl; [|exact Htk]. intros g Hg. apply tok_g_relabel. exact Hg.
  - intros s e sub Hin _. apply tok_g_relabel. unfold tok_g, g_new. cbn [g_chars].
    apply in_co_of in Hin. destruct Hin as [idx [Hidx _]].
    destruct (collect_ok gs sub idx Hidx) as [Hne Hocc].
    destruct idx as [|i idx]; [congruence|].
    destruct (Hocc i (or_introl eq_refl)) as [_ Hp]. rewrite <- Hp.
    apply Forall_map. apply RepInv.Forall_firstn'. apply RepInv.Forall_skipn'.
    rewrite Forall_forall in *. intros g Hg. apply plain_value_tok; [exact (Hpl g Hg)|exact (Htk g Hg)].
Qed.

Lemma cluster_r_tok : forall c cl, Forall plain cl -> Forall tok_g cl -> Forall tok_g (cluster_r c cl).
Proof.
  intros c cl Hpl Htk. unfold cluster_r. destruct (f_rep c); [|exact Htk].
  unfold convert_repetitions.
  destruct (conv_reps (S (length cl)) c cl) as [|g r] eqn:E; [exact Htk|].
  rewrite <- E. apply conv_reps_tok; assumption.
Qed.

Theorem grapheme_clusters_shape : forall c db ws,
  Forall (Forall shape_g) (grapheme_clusters c db ws).
Proof.
  intros c db ws.
  apply (Forall2_and wf_g tok_g); [exact (grapheme_clusters_wf c db ws)|].
  rewrite grapheme_clusters_map. apply Forall_map. apply Forall_forall.
  intros s _. apply cluster_r_tok; [apply cluster_gk_plain|apply cluster_gk_tok].
Qed.

Lemma tok_g_widen : widen_closed tok_g.
Proof. intros g h _ Hh _ _. exact Hh. Qed.

Lemma shape_g_widen : widen_closed shape_g.
Proof. exact (widen_closed_and wf_g tok_g widen_closed_wf tok_g_widen). Qed.

Lemma shape_g_wf : forall g, shape_g g -> wf_g g.
Proof. intros g [H _]. exact H. Qed.

Theorem final_expr_shape : forall c db ws sc e,
  final_expr c (grapheme_clusters c db ws) sc = Some e -> expr_all shape_g e.
Proof.
  intros c db ws sc e H.
  exact (final_expr_all shape_g shape_g_widen shape_g_wf c _ sc e (grapheme_clusters_shape c db ws) H).
Qed.

(* ====================================================================== *)
(* 3. thresholds and shape together (one witness grapheme per class member) *)
(* ====================================================================== *)

Definition thr_shape (c : cfg) (g : grapheme) : Prop := thr_lbl c g /\ shape_g g.

Theorem final_expr_thr_shape : forall c db ws sc e,
  final_expr c (grapheme_clusters c db ws) sc = Some e -> expr_all (thr_shape c) e.
Proof.
  intros c db ws sc e H.
  refine (final_expr_all (thr_shape c) _ _ c _ sc e _ H).
  - exact (widen_closed_and _ _ (thr_lbl_widen c) shape_g_widen).
  - intros g [_ [Hw _]]. exact Hw.
  - exact (Forall2_and _ _ _ (grapheme_clusters_thr_lbl c db ws) (grapheme_clusters_shape c db ws)).
Qed.

(* consequences in elementary terms *)
Corollary final_expr_lit_facts : forall c db ws sc e g,
  final_expr c (grapheme_clusters c db ws) sc = Some e -> lit_in g e ->
  thr_lbl c g /\ wf_g g /\ Forall (fun t => tokenised t = true) (g_chars g).
Proof.
  intros c db ws sc e g H Hg.
  destruct (expr_all_lit_in _ e g (final_expr_thr_shape c db ws sc e H) Hg) as [H1 [H2 H3]].
  auto.
Qed.

Corollary final_expr_cc_facts : forall c db ws sc e x,
  final_expr c (grapheme_clusters c db ws) sc = Some e -> cc_in x e ->
  tokenised [x] = true.
Proof.
  intros c db ws sc e x H Hx.
  destruct (expr_all_cc_in _ e x (final_expr_thr_shape c db ws sc e H) Hx)
    as (g & [_ [_ Ht]] & Hc & _).
  unfold tok_g in Ht. rewrite Hc in Ht. inversion Ht; subst. assumption.
Qed.

(* ====================================================================== *)
(* 4. the well-formedness hypothesis of union2_all is needed               *)
(* ====================================================================== *)

(* Without wf_g the strong statement about character classes (g_chars g = [[x]]) is false:
   an ill-formed grapheme with an empty string among its characters still counts as a single
   code point. *)
Definition cex_g1 : grapheme := G [[]; [120%N]] [] 1 1.
Definition cex_g2 : grapheme := G [[121%N]] [] 1 1.
Definition cex_Q (g : grapheme) : Prop := g = cex_g1 \/ g = cex_g2.

Example cex_union2 :
  union2 default_cfg (ELit [cex_g1]) (ELit [cex_g2]) = Some (ECC [120%N; 121%N]).
Proof. vm_compute. reflexivity. Qed.

Example cex_union2_not_all :
  expr_all cex_Q (ELit [cex_g1]) /\ expr_all cex_Q (ELit [cex_g2])
  /\ ~ expr_all cex_Q (ECC [120%N; 121%N]).
Proof.
  split; [constructor; [left; reflexivity|constructor]|].
  split; [constructor; [right; reflexivity|constructor]|].
  intros H. cbn [expr_all] in H. inversion H as [|? ? H1 _]; subst.
  destruct H1 as (g & [Hg|Hg] & Hc & _); subst g; cbn in Hc; discriminate.
Qed.

Check thr_ok_lbl.
Check thr_lbl_widen.
Check grapheme_clusters_thr_lbl.
Check final_expr_thr_wf.
Check final_expr_thr.
Check unit_g_widen.
Check final_expr_unit_wf.
Check final_expr_unit.
Check grapheme_clusters_shape.
Check shape_g_widen.
Check final_expr_shape.
Check final_expr_thr_shape.
Check final_expr_lit_facts.
Check final_expr_cc_facts.
Check cex_union2.
Check cex_union2_not_all.

Print Assumptions final_expr_thr_wf.
Print Assumptions final_expr_thr.
Print Assumptions final_expr_unit.
Print Assumptions grapheme_clusters_shape.
Print Assumptions final_expr_shape.
Print Assumptions final_expr_thr_shape.
Print Assumptions final_expr_lit_facts.
Print Assumptions final_expr_cc_facts.
Print Assumptions cex_union2_not_all.
