(* T3, UNCONDITIONAL: soundness of the whole construction with merged trie edges, with no
   certificate and no determinism hypothesis.

   minimize pushes BOTH halves of every split block on the work-list (Dfa.update_worklist).
   The stability argument then needs no ghost state and no determinism:

     every non-empty block of the current partition that is not on the work-list (and is not
     the splitter being processed) has been used as a splitter, for every alphabet symbol c,
     AFTER it became a block; all blocks were then cut along pre_c(B), and refining blocks
     keeps them inside or outside pre_c(B).  A block that is split leaves the partition and
     both halves are pending.

   At exit the work-list is empty, so every block is stable with respect to every block and
   every alphabet symbol (a c-edge is an edge whose label CONTAINS c).  The only premises on
   the automaton are those that make Dfa.parent_states the preimage: every state has at most
   one incoming edge (tries), edges stay inside the state set, at least one state.

     partition_stable_cedge_any   the Hopcroft partition is symbol-stable (tree-shaped d)
     trie_sym_stable              ... for every trie of uniform clusters, merged or not
     trie_qcover, trie_quotient_acyclic
     min_ok_always                MergeSound.min_ok holds for every such cluster list
     final_expr_sound_with_merge  every specification string is accepted by the final
                                  expression (K4 proviso for the empty string)
     sound_expr_with_merge        ... in particular every test case *)
From Grex Require Import Base.Str Model.Config Model.Cluster Model.Dfa Model.Expr.
From Grex Require Import Proofs.Lang Proofs.Spec Proofs.TrieLang Proofs.HopSets Proofs.HopcroftInv
  Proofs.TrieLikeOf Proofs.QuotientLang Proofs.MinimizeLang Proofs.ElimLang
  Proofs.NormaliseDet Proofs.ClustersSpec Proofs.Construction Proofs.PropsGlue
  Proofs.MergeSound Proofs.HopcroftSym.
From Grex Require Import Model.Pipeline.
From GrexGen Require Import GrexTables.

(* ====================================================================== *)
(* A. every new block is pending                                           *)
(* ====================================================================== *)
Lemma refine_new : forall n fin x p w,
  Struct n fin p w ->
  forall B', In B' (sp_fst x p) -> B' <> [] ->
    (In B' p /\ splitb x B' = false) \/ In B' (update_worklist w (sp_snd x p)).
Proof.
  intros n fin x p w HS B' HB' Hne.
  pose proof (HopSets.st_disj _ _ _ _ HS) as Hd.
  apply sp_in in HB'. destruct HB' as [[H1 H2]|(Y & H1 & H2 & H3)].
  - left. auto.
  - right.
    assert (Hin3 : In (Y, set_inter Y x, set_diff Y x) (sp_snd x p)) by (apply sp_rs_in; auto).
    destruct (uw_both_any _ w _ (sp_rs_ok x p Hd) Hin3) as [U1 U2].
    unfold snd3, thd3 in U1, U2; simpl in U1, U2. destruct H3; subst; auto.
Qed.

(* ====================================================================== *)
(* B. the loop invariant                                                   *)
(* ====================================================================== *)
Record tree_in (d : dfa) : Prop := {
  ti_range : forall e, In e (d_edges d) -> e_dst e < d_n d;
  ti_n : 1 <= d_n d;
  ti_in_unique : forall e1 e2, In e1 (d_edges d) -> In e2 (d_edges d) ->
                   e_dst e1 = e_dst e2 -> e1 = e2
}.

(* all blocks of p are inside or outside the c-preimage of B *)
Definition stab (es : list edge) (c : grapheme) (p : list block) (B : block) : Prop :=
  forall s t s', same p s t -> cedge es c s s' -> In s' B ->
  exists t', cedge es c t t' /\ In t' B.

Section MainA.
  Variable d : dfa.
  Hypothesis TI : tree_in d.

  Local Notation es := (d_edges d).
  Local Notation n := (d_n d).
  Local Notation fin := (d_finals d).
  Local Notation alpha := (d_alphabet d).

  Lemma astable_a : forall a c p s t s',
    same (sp_fst (parent_states es a c) p) s t -> cedge es c s s' -> In s' a ->
    exists t', cedge es c t t' /\ In t' a.
  Proof.
    intros a c p s t s' (B & HB & Hs & Ht) He Ha.
    assert (Hx : In s (parent_states es a c)).
    { apply parent_states_In; [apply (ti_in_unique d TI)|]. exists s'. auto. }
    destruct (sp_xstable _ _ _ HB) as [K|K].
    - apply K in Ht. apply parent_states_In in Ht; [|apply (ti_in_unique d TI)].
      destruct Ht as (t' & T1 & T2). exists t'. auto.
    - exfalso. exact (K _ Hs Hx).
  Qed.

  (* while the splitter a is processed: `done` are the symbols already handled *)
  Definition MidA (a : block) (done : list grapheme) (p w : list block) : Prop :=
    Struct n fin p w
    /\ forall B, In B p -> B <> [] -> ~ In B w ->
         (B = a -> forall c, In c done -> stab es c p B)
         /\ (B <> a -> forall c, In c alpha -> stab es c p B).

  Definition HeadA (p w : list block) : Prop :=
    Struct n fin p w
    /\ forall B, In B p -> B <> [] -> ~ In B w -> forall c, In c alpha -> stab es c p B.

  Lemma stab_step : forall p w p' w' c B,
    RefStep p w p' w' -> stab es c p B -> stab es c p' B.
  Proof.
    intros p w p' w' c B R H s t s' Hst. apply H. eapply same_step; eauto.
  Qed.

  Lemma MidA_step : forall a done c0 p w,
    MidA a done p w ->
    MidA a (done ++ [c0]) (sp_fst (parent_states es a c0) p)
         (update_worklist w (sp_snd (parent_states es a c0) p)).
  Proof.
    intros a done c0 p w [HS HI].
    destruct (refine_struct n fin (parent_states es a c0) p w HS) as [HS' R].
    split; [exact HS'|].
    intros B' HB' Hne Hnw.
    destruct (refine_new n fin (parent_states es a c0) p w HS B' HB' Hne) as [[HBp _]|K];
      [|contradiction].
    (* B' is an unsplit block of p; it was not on the old work-list either *)
    assert (Hnw0 : ~ In B' w).
    { intros K. destruct (r_parent _ _ _ _ R B' HB' Hne) as (Y & HY & Hin & HW).
      destruct (nonempty_ex _ Hne) as [s Hs].
      assert (Y = B').
      { eapply (pdisj_eq p Y B' s); eauto. apply (HopSets.st_disj _ _ _ _ HS). }
      subst Y. apply Hnw. apply HW. exact K. }
    destruct (HI B' HBp Hne Hnw0) as [I1 I2]. split.
    - intros E c Hc. apply in_app_or in Hc. destruct Hc as [Hc|[Hc|[]]].
      + eapply stab_step; [exact R|]. apply I1; auto.
      + subst c B'. intros s t s'. apply astable_a.
    - intros E c Hc. eapply stab_step; [exact R|]. apply I2; auto.
  Qed.

  Lemma fold_midA : forall a rest done p w,
    MidA a done p w ->
    MidA a (done ++ rest)
         (fst (fold_left (refine_by es a) rest (p, w)))
         (snd (fold_left (refine_by es a) rest (p, w))).
  Proof.
    intros a. induction rest as [|c0 rest IH]; intros done p w H.
    - simpl. rewrite app_nil_r. exact H.
    - cbn [fold_left]. rewrite refine_by_eq.
      replace (done ++ c0 :: rest) with ((done ++ [c0]) ++ rest)
        by (rewrite <- app_assoc; reflexivity).
      apply IH. apply MidA_step. exact H.
  Qed.

  Lemma HeadA_step : forall a p w, HeadA p (a :: w) ->
    HeadA (fst (fold_left (refine_by es a) alpha (p, w)))
          (snd (fold_left (refine_by es a) alpha (p, w))).
  Proof.
    intros a p w [HS HL].
    pose proof (Struct_pop _ _ _ _ _ HS) as HS0.
    assert (HM : MidA a [] p w).
    { split; [exact HS0|]. intros B HB Hne Hnw. split.
      - intros _ c [].
      - intros Hna c Hc. apply (HL B HB Hne); [|exact Hc].
        intros [K|K]; [congruence|contradiction]. }
    destruct (fold_midA a alpha [] p w HM) as [HS' HI]. simpl in HI.
    split; [exact HS'|]. intros B HB Hne Hnw c Hc.
    destruct (HI B HB Hne Hnw) as [I1 I2].
    destruct (list_eq_dec Nat.eq_dec B a) as [E|E]; [apply I1; auto|apply I2; auto].
  Qed.

  Lemma HeadA_init : HeadA (initial_partition d) (initial_partition d).
  Proof.
    split; [apply Struct_init; apply (ti_n d TI)|]. intros B HB _ Hnw. contradiction.
  Qed.

  Lemma loop_result_a : exists p',
    hopcroft_loop (2 * n + 4) es alpha (initial_partition d) (initial_partition d) = Some p'
    /\ HeadA p' [].
  Proof.
    apply (loop_rule es alpha HeadA).
    - exact HeadA_step.
    - exact HeadA_init.
    - apply Phi_init.
  Qed.

  Lemma head_stable_a : forall p', HeadA p' [] ->
    forall c, In c alpha -> forall s t s', same p' s t -> cedge es c s s' ->
    exists t', cedge es c t t' /\ same p' s' t'.
  Proof.
    intros p' [HS HL] c Hc s t s' Hst He.
    assert (Hs' : s' < n).
    { destruct He as (e & A1 & _ & A3 & _). subst s'. apply (ti_range d TI e A1). }
    destruct (HopSets.st_cover _ _ _ _ HS s' Hs') as (B & HB & HsB).
    assert (Hne : B <> []) by (intros K; subst B; destruct HsB).
    destruct (HL B HB Hne (fun K => K) c Hc s t s' Hst He HsB) as (t' & T1 & T2).
    exists t'. split; [exact T1|]. exists B. auto.
  Qed.
End MainA.

Theorem partition_stable_cedge_any : forall d p,
  tree_in d -> partition_of d = Some p ->
  forall c, In c (d_alphabet d) ->
  forall s t s', same p s t -> cedge (d_edges d) c s s' ->
  exists t', cedge (d_edges d) c t t' /\ same p s' t'.
Proof.
  intros d p TI H c Hc s t s' Hst He.
  apply partition_of_inv in H. destruct H as (p' & Hl & ->).
  destruct (loop_result_a d TI) as (p'' & Hl' & HH). rewrite Hl in Hl'. inversion Hl'; subst p''.
  apply (proj2 (same_filter _ _ _)) in Hst.
  destruct (head_stable_a d TI p' HH c Hc s t s' Hst He) as (t' & T1 & T2).
  exists t'. split; [exact T1|]. apply (proj1 (same_filter _ _ _)). exact T2.
Qed.

(* ====================================================================== *)
(* C. tries                                                                *)
(* ====================================================================== *)
Theorem tree_in_of_trie : forall cls t,
  Forall wf_cluster cls -> trie_of cls = Some t -> tree_in t.
Proof.
  intros cls t Hwf Ht.
  pose proof (trie_wf cls t Hwf Ht) as Hwt. pose proof (trie_shape cls t Ht) as Hsh.
  constructor.
  - intros e He. apply (wf_dfa_edge t e Hwt He).
  - destruct Hwt as (_ & Hi & _). lia.
  - apply (sh_unique_in t Hsh).
Qed.

Theorem trie_sym_stable : forall cls t p,
  Forall wf_cluster cls -> trie_of cls = Some t -> partition_of t = Some p -> sym_stable t p.
Proof.
  intros cls t p Hwf Ht Hp.
  exact (partition_stable_cedge_any t p (tree_in_of_trie cls t Hwf Ht) Hp).
Qed.

Theorem trie_qcover : forall cls t p,
  Forall wf_cluster cls -> Forall (Forall uniform_g) cls ->
  trie_of cls = Some t -> partition_of t = Some p -> qcover t p.
Proof.
  intros cls t p Hwf Hun Ht Hp.
  exact (stable_qcover cls t p Hwf Hun Ht Hp (trie_sym_stable cls t p Hwf Ht Hp)).
Qed.

Theorem trie_quotient_acyclic : forall cls t p d1,
  Forall wf_cluster cls -> Forall (Forall uniform_g) cls ->
  trie_of cls = Some t -> partition_of t = Some p -> recreate_graph t p = Some d1 ->
  acyclic d1.
Proof.
  intros cls t p d1 Hwf Hun Ht Hp.
  exact (stable_acyclic cls t p Hwf Hun Ht Hp (trie_sym_stable cls t p Hwf Ht Hp) d1).
Qed.

Theorem min_ok_always : forall cls,
  Forall wf_cluster cls -> Forall (Forall uniform_g) cls -> min_ok cls.
Proof.
  intros cls Hwf Hun t p d1 Ht Hp Hrg. split.
  - exact (trie_qcover cls t p Hwf Hun Ht Hp).
  - exact (trie_quotient_acyclic cls t p d1 Hwf Hun Ht Hp Hrg).
Qed.

(* minimisation of ANY trie of uniform clusters: well formed, acyclic, accepts every
   non-empty string of the trie (and the empty one when eps_safe) *)
Theorem minimize_trie_sound : forall (lit_den cls_den : cp -> cp -> Prop) cls t,
  Forall wf_cluster cls -> Forall (Forall uniform_g) cls -> trie_of cls = Some t ->
  exists d' p,
    partition_of t = Some p /\ recreate_graph t p = Some d' /\ minimize t = Some d'
    /\ wf_dfa d' /\ acyclic d'
    /\ (forall u, u <> [] -> L_dfa lit_den cls_den t u -> L_dfa lit_den cls_den d' u)
    /\ (eps_safe t p -> lsub (L_dfa lit_den cls_den t) (L_dfa lit_den cls_den d')).
Proof.
  intros lit_den cls_den cls t Hwf Hun Ht.
  pose proof (trie_wf cls t Hwf Ht) as Hwt.
  destruct (minimize_total_wf t Hwt) as (d' & Hm & Hwd).
  unfold minimize in Hm. destruct (partition_of t) as [p|] eqn:Hp; [|discriminate].
  pose proof (trie_qcover cls t p Hwf Hun Ht Hp) as Hq.
  exists d', p. split; [reflexivity|]. split; [exact Hm|].
  split; [unfold minimize; rewrite Hp; exact Hm|]. split; [exact Hwd|].
  split; [exact (trie_quotient_acyclic cls t p d' Hwf Hun Ht Hp Hm)|]. split.
  - exact (qcover_lang_nonempty_st lit_den cls_den t d' p Hq Hm).
  - exact (qcover_lang_sub_st lit_den cls_den t d' p Hq Hm Hwt).
Qed.

(* ====================================================================== *)
(* D. the pipeline                                                         *)
(* ====================================================================== *)
Section S.
  Variables lit_den cls_den : cp -> cp -> Prop.

  Theorem clusters_sound_with_merge : forall c cls sc e,
    Forall wf_cluster cls -> Forall (Forall uniform_g) cls ->
    Pipeline.final_expr c cls sc = Some e ->
    forall u, u <> [] -> L_clusters lit_den cls_den cls u -> L_expr lit_den cls_den e u.
  Proof.
    intros c cls sc e Hwf Hun. apply clusters_sound_core; auto. apply min_ok_always; auto.
  Qed.

  Theorem final_expr_sound_with_merge : forall c db sc ws e,
    ws <> [] ->
    oracle_ok db (normalise c db ws) ->
    Pipeline.final_expr c (grapheme_clusters c db (normalise c db ws)) sc = Some e ->
    forall u, Spec lit_den cls_den c db ws u ->
      (u <> [] \/ K4 (normalise c db ws) = false) -> L_expr lit_den cls_den e u.
  Proof.
    intros c db sc ws e Hws Hok. apply final_expr_sound_core; auto.
    apply min_ok_always; [apply grapheme_clusters_wf|apply grapheme_clusters_uniform].
  Qed.

  Theorem sound_expr_with_merge : forall c db sc ws e t,
    ws <> [] ->
    oracle_ok db (normalise c db ws) ->
    Pipeline.final_expr c (grapheme_clusters c db (normalise c db ws)) sc = Some e ->
    In t ws ->
    let t' := if f_ci c then lower' db t else t in
    (t' <> [] \/ K4 (normalise c db ws) = false) ->
    Spec_str lit_den cls_den c t' t' ->
    L_expr lit_den cls_den e t'.
  Proof.
    intros c db sc ws e t Hws Hok He Ht t' Hside Hself.
    apply (final_expr_sound_with_merge c db sc ws e Hws Hok He t'); [|exact Hside].
    exists t'. split; [apply in_cases; exact Ht|exact Hself].
  Qed.
End S.

Check partition_stable_cedge_any.
Check trie_qcover.
Check trie_quotient_acyclic.
Check minimize_trie_sound.
Check final_expr_sound_with_merge.
Check sound_expr_with_merge.
Print Assumptions partition_stable_cedge_any.
Print Assumptions minimize_trie_sound.
Print Assumptions final_expr_sound_with_merge.
Print Assumptions sound_expr_with_merge.
