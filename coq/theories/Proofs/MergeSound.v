(* SOUNDNESS OF THE CONSTRUCTION WHEN TRIE EDGES ARE MERGED (widened in place).

   Translation validation of the quotient step for ARBITRARY automata (no trie_like, no
   no_merge, no stability):

     qcoverb d p     finality is uniform inside every block of p, and every SYMBOL (chars, k),
                     g_min g <= k <= g_max g, of every edge (s,g,t) of d is covered by an edge
                     that recreate_graph copies from the representative (head = smallest
                     member) of the block of s: same characters, range containing k, target in
                     the block of t.  (qcover1b: the stricter variant with ONE covering edge
                     per edge; it implies the same property but rejects correct partitions.)
     acyclicb d      a rank vector (longest path, computed by relaxation rounds) decreases
                     strictly along every edge of d
     merge_cert cls  the two checks on the pipeline's own trie, partition and quotient

   T1  qcover_lang_nonempty / qcover_lang_sub / qcover_lang_sub_b
         qcoverb d p = true -> recreate_graph d p = Some d' -> L(d) \ {eps} <= L(d')
         (and eps too when QuotientLang.eps_safe d p)
   T2  final_expr_sound_cert, sound_expr_cert
         with merge_cert = true every specification string (hence every test case) is in the
         language of the final expression, whatever the self-check outcome, up to the K4
         proviso of Construction.construction_lang.

   HISTORY.  With the former smaller-half work-list rule of minimize, merge_cert was false on
   some inputs and a test case was really lost (Sanity.ws2: "xbba" "xbcc" "ybba" "ybbcc"
   "ybcc" gave [xy](?:b{2}a|bc{2})); the checker rejected exactly those partitions
   (Sanity.old_partition2_rejected).  minimize now pushes both halves; HopcroftAny.v proves
   that the certificate is then never needed (final_expr_sound_with_merge), HopcroftSym.v
   the earlier result under symbol-determinism.  MergeSearch.v: test bench used for the
   exhaustive searches. *)
From Grex Require Import Base.Str Model.Config Model.Cluster Model.Dfa Model.Expr.
From Grex Require Import Proofs.Lang Proofs.Spec Proofs.NormaliseDet Proofs.ClustersSpec
  Proofs.TrieLang Proofs.HopSets Proofs.QuotientLang Proofs.MatLemmas Proofs.DfsOk
  Proofs.ElimLang Proofs.ExprLang Proofs.MinimizeLang Proofs.ExprTotal Proofs.Construction
  Proofs.PropsGlue.
From Grex Require Import Model.Pipeline.
From GrexGen Require Import GrexTables.

(* ====================================================================== *)
(* 1. the checkers                                                         *)
(* ====================================================================== *)

(* label language inclusion: same characters, range of g inside the range of h *)
Definition lbl_subb (g h : grapheme) : bool :=
  strs_eqb (g_chars g) (g_chars h) && N.leb (g_min h) (g_min g) && N.leb (g_max g) (g_max h).

(* block number of s and the representative recreate_graph uses for that block: the head of
   the block, which must itself be numbered with the same block *)
Definition rep_of (p : list block) (s : nat) : option (nat * nat) :=
  match block_index s p 0 with
  | None => None
  | Some i =>
      match nth_error p i with
      | None => None
      | Some b =>
          match block_min b with
          | None => None
          | Some r => if onat_eqb (block_index r p 0) (Some i) then Some (i, r) else None
          end
      end
  end.

(* the symbols lo .. hi *)
Definition nrange (lo hi : N) : list N :=
  map (fun i => (lo + N.of_nat i)%N) (seq 0 (N.to_nat (hi + 1 - lo))).

(* the symbol (chars of e, k) is covered by one of the edges recreate_graph copies from the
   representative r: same characters, k inside its range, target in the block of the target
   of e *)
Definition sym_coverb (d : dfa) (p : list block) (r : nat) (e : edge) (k : N) : bool :=
  existsb (fun tgt =>
             match find_edge (d_edges d) r tgt with
             | Some e' => strs_eqb (g_chars (e_lbl e)) (g_chars (e_lbl e'))
                          && N.leb (g_min (e_lbl e')) k && N.leb k (g_max (e_lbl e'))
                          && onat_eqb (block_index (e_dst e) p 0) (block_index tgt p 0)
             | None => false
             end)
          (neighbors (d_edges d) r).

(* every symbol of the label of e is covered by the representative of the block of its
   source (a single covering edge whose range contains the whole range of e is the typical
   case; several edges that cover the range piecewise are accepted too) *)
Definition edge_coverb (d : dfa) (p : list block) (e : edge) : bool :=
  match rep_of p (e_src e), block_index (e_dst e) p 0 with
  | Some (_, r), Some _ =>
      forallb (sym_coverb d p r e) (nrange (g_min (e_lbl e)) (g_max (e_lbl e)))
  | _, _ => false
  end.

Definition fin_uniformb (d : dfa) (p : list block) : bool :=
  forallb (fun b : block =>
             match b with
             | [] => true
             | r :: _ => forallb (fun s => Bool.eqb (set_mem s (d_finals d)) (set_mem r (d_finals d))) b
             end) p.

Definition qcoverb (d : dfa) (p : list block) : bool :=
  fin_uniformb d p && forallb (edge_coverb d p) (d_edges d).

(* ---------- acyclicity: longest-path ranks by relaxation ---------- *)
Definition relax (es : list edge) (rk : list nat) : list nat :=
  map (fun s => fold_left (fun m e => if Nat.eqb (e_src e) s
                                      then Nat.max m (S (nth (e_dst e) rk 0)) else m) es 0)
      (seq 0 (length rk)).

Fixpoint relax_iter (fuel : nat) (es : list edge) (rk : list nat) : list nat :=
  match fuel with
  | O => rk
  | S f => let rk' := relax es rk in
           if list_eqb Nat.eqb rk rk' then rk else relax_iter f es rk'
  end.

Definition ranks (d : dfa) : list nat :=
  relax_iter (S (d_n d)) (d_edges d) (repeat 0 (d_n d)).

Definition acyclicb (d : dfa) : bool :=
  let rk := ranks d in
  forallb (fun e => Nat.ltb (nth (e_dst e) rk 0) (nth (e_src e) rk 0)) (d_edges d).

Lemma acyclicb_spec : forall d, acyclicb d = true -> acyclic d.
Proof.
  intros d H. exists (fun s => nth s (ranks d) 0). intros e Hin.
  unfold acyclicb in H. rewrite forallb_forall in H. apply Nat.ltb_lt. apply H. exact Hin.
Qed.

(* ---------- the certificate of a cluster list ---------- *)
Definition merge_cert (cls : list cluster) : bool :=
  match trie_of cls with
  | None => false
  | Some t =>
      match partition_of t with
      | None => false
      | Some p =>
          qcoverb t p
          && match recreate_graph t p with
             | Some d' => acyclicb d'
             | None => false
             end
      end
  end.

(* ====================================================================== *)
(* 2. what qcoverb establishes                                             *)
(* ====================================================================== *)

Lemma lbl_subb_spec : forall g h, lbl_subb g h = true ->
  g_chars g = g_chars h /\ (g_min h <= g_min g)%N /\ (g_max g <= g_max h)%N.
Proof.
  intros g h H. unfold lbl_subb in H.
  apply andb_true_iff in H. destruct H as [H H3].
  apply andb_true_iff in H. destruct H as [H1 H2].
  apply strs_eqb_eq in H1. apply N.leb_le in H2. apply N.leb_le in H3. auto.
Qed.

Lemma nrange_in : forall lo hi k, (lo <= k)%N -> (k <= hi)%N -> In k (nrange lo hi).
Proof.
  intros lo hi k H1 H2. unfold nrange. apply in_map_iff.
  exists (N.to_nat (k - lo)). split; [rewrite N2Nat.id; lia|]. apply in_seq. lia.
Qed.

Lemma rep_of_spec : forall p s i r, rep_of p s = Some (i, r) ->
  block_index s p 0 = Some i
  /\ exists b, nth_error p i = Some b /\ In s b /\ block_min b = Some r
               /\ block_index r p 0 = Some i.
Proof.
  intros p s i r H. unfold rep_of in H.
  destruct (block_index s p 0) as [i0|] eqn:B; [|discriminate].
  destruct (block_index_some0 _ _ _ B) as (b0 & Hn0 & Hs0).
  rewrite Hn0 in H.
  destruct (block_min b0) as [r0|] eqn:M; [|discriminate].
  destruct (onat_eqb (block_index r0 p 0) (Some i0)) eqn:O; [|discriminate].
  inversion H; subst i0 r0. split; [reflexivity|].
  exists b0. split; [exact Hn0|]. split; [exact Hs0|]. split; [exact M|].
  apply onat_eqb_true in O. destruct O as (k & E1 & E2). congruence.
Qed.

Record qcover (d : dfa) (p : list block) : Prop := mkQcover {
  qc_fin : forall j s t, block_index s p 0 = Some j -> block_index t p 0 = Some j ->
      (In s (d_finals d) <-> In t (d_finals d));
  qc_edge : forall e, In e (d_edges d) ->
      exists i b r j,
        block_index (e_src e) p 0 = Some i
        /\ In b p /\ block_min b = Some r /\ block_index r p 0 = Some i
        /\ block_index (e_dst e) p 0 = Some j
        /\ forall k, (g_min (e_lbl e) <= k)%N -> (k <= g_max (e_lbl e))%N ->
             exists tgt e',
               In tgt (neighbors (d_edges d) r) /\ find_edge (d_edges d) r tgt = Some e'
               /\ g_chars (e_lbl e) = g_chars (e_lbl e')
               /\ (g_min (e_lbl e') <= k)%N /\ (k <= g_max (e_lbl e'))%N
               /\ block_index tgt p 0 = Some j
}.

Lemma fin_uniformb_spec : forall d p, fin_uniformb d p = true ->
  forall b s t, In b p -> In s b -> In t b ->
    set_mem s (d_finals d) = set_mem t (d_finals d).
Proof.
  intros d p H b s t Hb Hs Ht. unfold fin_uniformb in H. rewrite forallb_forall in H.
  specialize (H b Hb). destruct b as [|r b']; [destruct Hs|].
  rewrite forallb_forall in H.
  pose proof (H s Hs) as H1. pose proof (H t Ht) as H2.
  apply eqb_prop in H1. apply eqb_prop in H2. congruence.
Qed.

Theorem qcoverb_spec : forall d p, qcoverb d p = true -> qcover d p.
Proof.
  intros d p H. unfold qcoverb in H. apply andb_true_iff in H. destruct H as [HF HE].
  constructor.
  - intros j s t Hs Ht.
    destruct (block_index_some0 _ _ _ Hs) as (b & Hn & Hsb).
    destruct (block_index_some0 _ _ _ Ht) as (b' & Hn' & Htb).
    assert (b' = b) by congruence. subst b'.
    pose proof (fin_uniformb_spec d p HF b s t (nth_error_In _ _ Hn) Hsb Htb) as E.
    rewrite <- !set_mem_in. rewrite E. tauto.
  - intros e Hin. rewrite forallb_forall in HE. specialize (HE e Hin).
    unfold edge_coverb in HE.
    destruct (rep_of p (e_src e)) as [[i r]|] eqn:R; [|discriminate].
    destruct (block_index (e_dst e) p 0) as [j|] eqn:Bd; [|discriminate].
    apply rep_of_spec in R. destruct R as (Bs & b & Hn & Hsb & Hm & Br).
    exists i, b, r, j.
    split; [exact Bs|]. split; [eapply nth_error_In; exact Hn|].
    split; [exact Hm|]. split; [exact Br|]. split; [reflexivity|].
    intros k K1 K2. rewrite forallb_forall in HE.
    specialize (HE k (nrange_in _ _ _ K1 K2)). unfold sym_coverb in HE.
    apply existsb_exists in HE. destruct HE as (tgt & Htgt & HE).
    destruct (find_edge (d_edges d) r tgt) as [e'|] eqn:F; [|discriminate].
    apply andb_true_iff in HE. destruct HE as [HE HO].
    apply andb_true_iff in HE. destruct HE as [HE H3].
    apply andb_true_iff in HE. destruct HE as [H1 H2].
    apply strs_eqb_eq in H1. apply N.leb_le in H2. apply N.leb_le in H3.
    apply onat_eqb_true in HO. destruct HO as (j' & J1 & J2).
    exists tgt, e'. split; [exact Htgt|]. split; [exact F|]. split; [exact H1|].
    split; [exact H2|]. split; [exact H3|]. congruence.
Qed.

(* ---------- the stricter single-edge variant ---------- *)
(* every edge (s,g,t) is covered by ONE edge (r,g',t') of the representative with the same
   characters, g_min g' <= g_min g, g_max g <= g_max g' and t, t' in the same block.  It
   implies the symbol-wise cover; it is strictly stronger: the Hopcroft partition of the
   clusters of "abaa" "abba" "aaaba" "aaabaa" puts a state with the edge a{1,2} into the
   block of a representative with the two edges a and a{2} (Sanity.cert3 below). *)
Definition edge_cover1b (d : dfa) (p : list block) (e : edge) : bool :=
  match rep_of p (e_src e) with
  | None => false
  | Some (_, r) =>
      existsb (fun tgt =>
                 match find_edge (d_edges d) r tgt with
                 | Some e' => lbl_subb (e_lbl e) (e_lbl e')
                              && onat_eqb (block_index (e_dst e) p 0) (block_index tgt p 0)
                 | None => false
                 end)
              (neighbors (d_edges d) r)
  end.

Definition qcover1b (d : dfa) (p : list block) : bool :=
  fin_uniformb d p && forallb (edge_cover1b d p) (d_edges d).

Theorem qcover1b_spec : forall d p, qcover1b d p = true -> qcover d p.
Proof.
  intros d p H. unfold qcover1b in H. apply andb_true_iff in H. destruct H as [HF HE].
  constructor.
  - intros j s t Hs Ht.
    destruct (block_index_some0 _ _ _ Hs) as (b & Hn & Hsb).
    destruct (block_index_some0 _ _ _ Ht) as (b' & Hn' & Htb).
    assert (b' = b) by congruence. subst b'.
    pose proof (fin_uniformb_spec d p HF b s t (nth_error_In _ _ Hn) Hsb Htb) as E.
    rewrite <- !set_mem_in. rewrite E. tauto.
  - intros e Hin. rewrite forallb_forall in HE. specialize (HE e Hin).
    unfold edge_cover1b in HE.
    destruct (rep_of p (e_src e)) as [[i r]|] eqn:R; [|discriminate].
    apply rep_of_spec in R. destruct R as (Bs & b & Hn & Hsb & Hm & Br).
    apply existsb_exists in HE. destruct HE as (tgt & Htgt & HE).
    destruct (find_edge (d_edges d) r tgt) as [e'|] eqn:F; [|discriminate].
    apply andb_true_iff in HE. destruct HE as [HL HO].
    apply lbl_subb_spec in HL. destruct HL as (L1 & L2 & L3).
    apply onat_eqb_true in HO. destruct HO as (j & J1 & J2).
    exists i, b, r, j.
    split; [exact Bs|]. split; [eapply nth_error_In; exact Hn|].
    split; [exact Hm|]. split; [exact Br|]. split; [exact J1|].
    intros k K1 K2. exists tgt, e'. split; [exact Htgt|]. split; [exact F|].
    split; [exact L1|]. split; [lia|]. split; [lia|exact J2].
Qed.

(* ====================================================================== *)
(* 3. T1: the quotient accepts at least the language of d                  *)
(* ====================================================================== *)
Section Cover.
  Variable lit_den cls_den : cp -> cp -> Prop.
  Variables (d d' : dfa) (p : list block).
  Hypothesis Hqc : qcover d p.
  Hypothesis Hrg : recreate_graph d p = Some d'.

  Local Notation pth := (path lit_den cls_den).
  Local Notation deng := (den_g lit_den cls_den).

  Let Hinit' : block_index (d_init d) p 0 = Some (d_init d')
    := proj1 (proj2 (recreate_graph_inv d p d' Hrg)).
  Let Hedges' : forall x, In x (d_edges d') <-> rg_edge d p p x
    := proj1 (proj2 (proj2 (recreate_graph_inv d p d' Hrg))).
  Let Hfin' : forall j, In j (d_finals d') <-> rg_fin d p p j
    := proj2 (proj2 (proj2 (recreate_graph_inv d p d' Hrg))).

  (* every symbol of every edge of d is simulated by an edge of d'; the target of the
     simulating edge is final whenever the target of the edge is *)
  Lemma cover_edge_k : forall e k, In e (d_edges d) ->
    (g_min (e_lbl e) <= k)%N -> (k <= g_max (e_lbl e))%N ->
    exists i j h, block_index (e_src e) p 0 = Some i /\ block_index (e_dst e) p 0 = Some j
                  /\ In (i, j, h) (d_edges d')
                  /\ g_chars (e_lbl e) = g_chars h /\ (g_min h <= k)%N /\ (k <= g_max h)%N
                  /\ (In (e_dst e) (d_finals d) -> In j (d_finals d')).
  Proof.
    intros e k Hin K1 K2.
    destruct (qc_edge d p Hqc e Hin) as (i & b & r & j & Bs & Hb & Hm & Br & Bd & HK).
    destruct (HK k K1 K2) as (tgt & e' & Hnb & F & L1 & L2 & L3 & Bt).
    exists i, j, (e_lbl e'). split; [exact Bs|]. split; [exact Bd|]. split; [|auto 7].
    - apply Hedges'. exists b, r, i, tgt, e', j. auto 10.
    - split; [exact L1|]. split; [exact L2|]. split; [exact L3|].
      intros Hf. apply Hfin'. exists b, r, tgt. split; [exact Hb|]. split; [exact Hm|].
      split; [exact Hnb|]. split; [|exact Bt].
      apply (qc_fin d p Hqc j (e_dst e) tgt Bd Bt). exact Hf.
  Qed.

  Lemma cover_edge_fwd : forall e v, In e (d_edges d) -> deng (e_lbl e) v ->
    exists i j h, block_index (e_src e) p 0 = Some i /\ block_index (e_dst e) p 0 = Some j
                  /\ In (i, j, h) (d_edges d') /\ deng h v.
  Proof.
    intros e v Hin (k & K1 & K2 & K3).
    destruct (cover_edge_k e (N.of_nat k) Hin K1 K2) as (i & j & h & B1 & B2 & Hin' & C & L1 & L2 & _).
    exists i, j, h. split; [exact B1|]. split; [exact B2|]. split; [exact Hin'|].
    exists k. rewrite <- C. auto.
  Qed.

  (* a path that starts at the target of an edge (read with some symbol) and ends in a final
     state ends in a block that is final in d' *)
  Lemma cover_fin_after_edge : forall a x c, pth (d_edges d) a x c -> In c (d_finals d) ->
    forall e0 k0, In e0 (d_edges d) -> e_dst e0 = a ->
    (g_min (e_lbl e0) <= k0)%N -> (k0 <= g_max (e_lbl e0))%N ->
    forall jc, block_index c p 0 = Some jc -> In jc (d_finals d').
  Proof.
    intros a x c Hpa. induction Hpa as [a|a m1 c g1 v1 w1 Hin1 Hd1 Hp1 IH1];
      intros Hc e0 k0 Hin0 Hdst K1 K2 jc Hjc.
    - destruct (cover_edge_k e0 k0 Hin0 K1 K2) as (i2 & j2 & h2 & _ & B2 & _ & _ & _ & _ & HF2).
      rewrite Hdst in B2, HF2. assert (j2 = jc) by congruence. subst j2. apply HF2; exact Hc.
    - destruct Hd1 as (k1 & A1 & A2 & _).
      apply (IH1 Hc (a, m1, g1) (N.of_nat k1) Hin1 eq_refl A1 A2 jc Hjc).
  Qed.

  Lemma cover_path_fwd : forall s u t, pth (d_edges d) s u t ->
    forall i, block_index s p 0 = Some i ->
    exists j, block_index t p 0 = Some j /\ pth (d_edges d') i u j
              /\ (In t (d_finals d) -> u = [] \/ In j (d_finals d')).
  Proof.
    intros s u t H. induction H as [s|s m t g v w Hin Hd Hp IH]; intros i Hs.
    - exists i. split; [exact Hs|]. split; [constructor|]. intros _. left; reflexivity.
    - destruct (cover_edge_fwd (s, m, g) v Hin Hd) as (i1 & j1 & h & B1 & B2 & Hin' & Hl).
      unfold e_src, e_dst, e_lbl in B1, B2; simpl in B1, B2.
      assert (i1 = i) by congruence. subst i1.
      destruct (IH _ B2) as (j & Hj & Hpj & _). exists j. split; [exact Hj|].
      split; [eapply path_step; [exact Hin'|exact Hl|exact Hpj]|].
      intros Ht. right. destruct Hd as (k & K1 & K2 & _).
      apply (cover_fin_after_edge m w t Hp Ht (s, m, g) (N.of_nat k) Hin eq_refl K1 K2 j Hj).
  Qed.

  Theorem qcover_lang_nonempty_st : forall u, u <> [] ->
    L_dfa lit_den cls_den d u -> L_dfa lit_den cls_den d' u.
  Proof.
    intros u Hu (t & Ht & Hp). unfold L_dfa, L_from.
    destruct (cover_path_fwd _ _ _ Hp _ Hinit') as (j & Hj & Hpj & HF).
    exists j. split; [|exact Hpj]. destruct (HF Ht) as [E|Hjf]; [congruence|exact Hjf].
  Qed.

  (* eps: kept when the known "final root without incoming edge" defect does not bite *)
  Theorem qcover_lang_sub_st : wf_dfa d -> eps_safe d p ->
    lsub (L_dfa lit_den cls_den d) (L_dfa lit_den cls_den d').
  Proof.
    intros Hwf Hsafe u HL. destruct u as [|x u]; [|apply qcover_lang_nonempty_st; [discriminate|exact HL]].
    destruct HL as (t & Ht & Hp).
    assert (d_init d = t).
    { eapply path_nil_inv; [|exact Hp|reflexivity].
      intros e He. apply (wf_dfa_edge d e Hwf He). }
    subst t. destruct Hsafe as [Hnf|(e & Hin & Hb)]; [contradiction|].
    destruct (wf_dfa_edge d e Hwf Hin) as (_ & _ & Hg). apply wf_g_proj in Hg.
    destruct Hg as (_ & _ & _ & Hle).
    destruct (cover_edge_k e (g_min (e_lbl e)) Hin (N.le_refl _) Hle)
      as (i1 & j1 & h & _ & B2 & _ & _ & _ & _ & HF).
    rewrite Hb, Hinit' in B2. inversion B2; subst j1.
    exists (d_init d'). split; [|constructor]. apply HF.
    rewrite Hinit' in Hb.
    apply (qc_fin d p Hqc _ _ _ Hb Hinit'). exact Ht.
  Qed.
End Cover.

(* ---------- the statements in terms of the boolean checker ---------- *)
Theorem qcover_lang_nonempty : forall (lit_den cls_den : cp -> cp -> Prop) d d' p,
  qcoverb d p = true -> recreate_graph d p = Some d' ->
  forall u, u <> [] -> L_dfa lit_den cls_den d u -> L_dfa lit_den cls_den d' u.
Proof.
  intros lit_den cls_den d d' p H Hrg.
  exact (qcover_lang_nonempty_st lit_den cls_den d d' p (qcoverb_spec d p H) Hrg).
Qed.

Theorem qcover_lang_sub : forall (lit_den cls_den : cp -> cp -> Prop) d d' p,
  wf_dfa d -> qcoverb d p = true -> recreate_graph d p = Some d' -> eps_safe d p ->
  lsub (L_dfa lit_den cls_den d) (L_dfa lit_den cls_den d').
Proof.
  intros lit_den cls_den d d' p Hwf H Hrg.
  exact (qcover_lang_sub_st lit_den cls_den d d' p (qcoverb_spec d p H) Hrg Hwf).
Qed.

Theorem qcover_lang_sub_b : forall (lit_den cls_den : cp -> cp -> Prop) d d' p,
  wf_dfa d -> qcoverb d p = true -> recreate_graph d p = Some d' -> eps_safeb d p = true ->
  lsub (L_dfa lit_den cls_den d) (L_dfa lit_den cls_den d').
Proof.
  intros lit_den cls_den d d' p Hwf H Hrg He.
  apply (qcover_lang_sub lit_den cls_den d d' p Hwf H Hrg). apply eps_safeb_spec. exact He.
Qed.

(* ====================================================================== *)
(* 4. T2: the pipeline                                                     *)
(* ====================================================================== *)
Lemma merge_cert_inv : forall cls t d1,
  trie_of cls = Some t -> minimize t = Some d1 -> merge_cert cls = true ->
  exists p, partition_of t = Some p /\ recreate_graph t p = Some d1
            /\ qcoverb t p = true /\ acyclicb d1 = true.
Proof.
  intros cls t d1 Ht Hm H. unfold merge_cert in H. rewrite Ht in H.
  unfold minimize in Hm. destruct (partition_of t) as [p|]; [|discriminate].
  rewrite Hm in H. apply andb_true_iff in H. destruct H as [H1 H2]. exists p. auto.
Qed.

Section S.
  Variables lit_den cls_den : cp -> cp -> Prop.
  Local Notation Le := (L_expr lit_den cls_den).
  Local Notation Ld := (L_dfa lit_den cls_den).
  Local Notation Lcs := (L_clusters lit_den cls_den).
  Local Notation SpecL := (Spec lit_den cls_den).

  (* what the minimised branch needs, as a property of the cluster list *)
  Definition min_ok (cls : list cluster) : Prop :=
    forall t p d1, trie_of cls = Some t -> partition_of t = Some p ->
      recreate_graph t p = Some d1 -> qcover t p /\ acyclic d1.

  Lemma merge_cert_min_ok : forall cls, merge_cert cls = true -> min_ok cls.
  Proof.
    intros cls H t p d1 Ht Hp Hrg.
    assert (Hm : minimize t = Some d1) by (unfold minimize; rewrite Hp; exact Hrg).
    destruct (merge_cert_inv cls t d1 Ht Hm H) as (p' & Hp' & _ & Hq & Hac).
    assert (p' = p) by congruence. subst p'.
    split; [apply qcoverb_spec; exact Hq|apply acyclicb_spec; exact Hac].
  Qed.

  (* cluster level: every non-empty string of a cluster language is accepted *)
  Theorem clusters_sound_core : forall c cls sc e,
    Forall wf_cluster cls -> Forall (Forall uniform_g) cls ->
    min_ok cls ->
    Pipeline.final_expr c cls sc = Some e ->
    forall u, u <> [] -> Lcs cls u -> Le e u.
  Proof.
    intros c cls sc e Hwf Hun Hcert H u Hu HL.
    destruct (final_expr_inv c cls sc e H) as (t & d1 & e1 & Ht & Hm & He1 & Hcase).
    pose proof (trie_wf cls t Hwf Ht) as Hwt.
    assert (HLt : Ld t u) by (apply (trie_lang_sup lit_den cls_den cls t Hwf Hun Ht); exact HL).
    destruct Hcase as [->|[(_ & _ & He2)|(_ & _ & ->)]].
    - unfold minimize in Hm. destruct (partition_of t) as [p|] eqn:Hp; [|discriminate].
      destruct (Hcert t p d1 Ht Hp Hm) as [Hq Hac].
      pose proof (quotient_wf_st t d1 p Hwt Hm) as Hwd.
      assert (HLd : Ld d1 u)
        by (apply (qcover_lang_nonempty_st lit_den cls_den t d1 p Hq Hm u Hu); exact HLt).
      destruct (efl lit_den cls_den c d1 e1 Hwd Hac He1) as [Hl|[_ Hemp]].
      + apply Hl. exact HLd.
      + exfalso. apply (Hemp u). exact HLd.
    - destruct (efl lit_den cls_den c t e Hwt (trie_acyclic cls t Ht) He2) as [Hl|[_ Hemp]].
      + apply Hl. exact HLt.
      + exfalso. apply (Hemp u). exact HLt.
    - apply fallback_lang. exact HL.
  Qed.

  Theorem clusters_sound_cert : forall c cls sc e,
    Forall wf_cluster cls -> Forall (Forall uniform_g) cls ->
    merge_cert cls = true ->
    Pipeline.final_expr c cls sc = Some e ->
    forall u, u <> [] -> Lcs cls u -> Le e u.
  Proof.
    intros c cls sc e Hwf Hun Hcert. apply clusters_sound_core; auto.
    apply merge_cert_min_ok. exact Hcert.
  Qed.

  (* pipeline level, same eps proviso as Construction.construction_lang *)
  Theorem final_expr_sound_core : forall c db sc ws e,
    ws <> [] ->
    oracle_ok db (normalise c db ws) ->
    min_ok (grapheme_clusters c db (normalise c db ws)) ->
    Pipeline.final_expr c (grapheme_clusters c db (normalise c db ws)) sc = Some e ->
    forall u, SpecL c db ws u -> (u <> [] \/ K4 (normalise c db ws) = false) -> Le e u.
  Proof.
    intros c db sc ws e Hws Hok Hcert H u HS Hside.
    pose proof (spec_clusters lit_den cls_den c db ws Hok) as Hspec.
    pose proof (clusters_nonempty c db ws Hws) as Hne.
    set (tcs := normalise c db ws) in *.
    set (cls := grapheme_clusters c db tcs) in *.
    assert (Hwf : Forall wf_cluster cls) by apply grapheme_clusters_wf.
    assert (Hun : Forall (Forall uniform_g) cls) by apply grapheme_clusters_uniform.
    assert (Hnonempty : u <> [] -> Le e u).
    { intros Hu. apply (clusters_sound_core c cls sc e Hwf Hun Hcert H u Hu).
      apply Hspec. exact HS. }
    destruct u as [|x u]; [|apply Hnonempty; discriminate].
    destruct Hside as [Hu|HK]; [congruence|].
    apply (all_nil_final lit_den cls_den c cls sc e); [|exact Hne|exact H].
    apply Forall_forall. intros cl Hcl.
    assert (Hin0 : In [] tcs).
    { apply (spec_tcs lit_den cls_den) in HS. destruct HS as (t & Ht & HSt).
      apply Spec_str_nil_inv in HSt. subst t. exact Ht. }
    unfold cls in Hcl. rewrite grapheme_clusters_map in Hcl.
    apply in_map_iff in Hcl. destruct Hcl as (s & <- & Hs).
    rewrite (K4_false_inv tcs HK Hin0 s Hs). apply cluster_grk_nil.
  Qed.

  Theorem final_expr_sound_cert : forall c db sc ws e,
    ws <> [] ->
    oracle_ok db (normalise c db ws) ->
    merge_cert (grapheme_clusters c db (normalise c db ws)) = true ->
    Pipeline.final_expr c (grapheme_clusters c db (normalise c db ws)) sc = Some e ->
    forall u, SpecL c db ws u -> (u <> [] \/ K4 (normalise c db ws) = false) -> Le e u.
  Proof.
    intros c db sc ws e Hws Hok Hcert. apply final_expr_sound_core; auto.
    apply merge_cert_min_ok. exact Hcert.
  Qed.

  (* the test cases themselves (cf. PropsGlue.sound_expr) *)
  Theorem sound_expr_cert : forall c db sc ws e t,
    ws <> [] ->
    oracle_ok db (normalise c db ws) ->
    merge_cert (grapheme_clusters c db (normalise c db ws)) = true ->
    Pipeline.final_expr c (grapheme_clusters c db (normalise c db ws)) sc = Some e ->
    In t ws ->
    let t' := if f_ci c then lower' db t else t in
    (t' <> [] \/ K4 (normalise c db ws) = false) ->
    Spec_str lit_den cls_den c t' t' ->
    Le e t'.
  Proof.
    intros c db sc ws e t Hws Hok Hcert He Ht t' Hside Hself.
    apply (final_expr_sound_cert c db sc ws e Hws Hok Hcert He t'); [|exact Hside].
    exists t'. split; [apply in_cases; exact Ht|exact Hself].
  Qed.
End S.

Check qcoverb_spec.
Check qcover1b_spec.
Check qcover_lang_nonempty.
Check qcover_lang_sub.
Check final_expr_sound_cert.
Check sound_expr_cert.
Print Assumptions qcover_lang_nonempty.
Print Assumptions qcover_lang_sub.
Print Assumptions final_expr_sound_cert.
Print Assumptions sound_expr_cert.

(* ====================================================================== *)
(* sanity: the certificate on real inputs                                  *)
(* ====================================================================== *)
Module Sanity.
  Definition c_rep : cfg := Construction.Sanity.c_rep.
  Definition cls_of (ws : list str) : list cluster :=
    grapheme_clusters c_rep [] (normalise c_rep [] ws).

  (* "ab" "abbb" "cb" "cbb" "cbbb": the edge c -b-> is widened to b{1,3} *)
  Definition ws1 : list str :=
    [[97;98]; [97;98;98;98]; [99;98]; [99;98;98]; [99;98;98;98]]%N.
  Example cls1_is : cls_of ws1 =
    [ [G [[97%N]] [] 1 1; G [[98%N]] [] 1 1];
      [G [[99%N]] [] 1 1; G [[98%N]] [] 1 1];
      [G [[99%N]] [] 1 1; G [[98%N]] [] 2 2];
      [G [[97%N]] [] 1 1; G [[98%N]] [] 3 3];
      [G [[99%N]] [] 1 1; G [[98%N]] [] 3 3] ].
  Proof. vm_compute. reflexivity. Qed.
  Example merge1 : no_merge (cls_of ws1) = false.
  Proof. vm_compute. reflexivity. Qed.
  Example cert1 : merge_cert (cls_of ws1) = true.
  Proof. vm_compute. reflexivity. Qed.

  (* "abaa" "abba" "aaaba" "aaabaa": the representative covers a{1,2} with two edges
     a and a{2} (symbol-wise cover; no single edge covers the range) *)
  Definition ws3 : list str :=
    [[97;98;97;97]; [97;98;98;97]; [97;97;97;98;97]; [97;97;97;98;97;97]]%N.
  Example cert3 : merge_cert (cls_of ws3) = true.
  Proof. vm_compute. reflexivity. Qed.
  Example cert3_strict :
    match trie_of (cls_of ws3) with
    | Some t => match partition_of t with Some p => qcover1b t p | None => true end
    | None => true
    end = false.
  Proof. vm_compute. reflexivity. Qed.

  (* "xbba" "xbcc" "ybba" "ybbcc" "ybcc": the state after y gets the edges b{2} and (widened)
     b{1,2}, two b{2}-successors (the trie is symbol-NONdeterministic).  With the former
     smaller-half work-list rule of minimize the states after x and after y stayed in one
     block, the representative (after x) cannot read b{2} c{2}, and the test case "ybbcc" was
     lost (expression [xy](?:b{2}a|bc{2})).  Both halves of a split block are pushed now and
     the two states are separated. *)
  Definition ws2 : list str :=
    [[120;98;98;97]; [120;98;99;99]; [121;98;98;97]; [121;98;98;99;99]; [121;98;99;99]]%N.
  Example merge2 : no_merge (cls_of ws2) = false.
  Proof. vm_compute. reflexivity. Qed.
  Example cert2 : merge_cert (cls_of ws2) = true.
  Proof. vm_compute. reflexivity. Qed.
  Example partition2 :
    match trie_of (cls_of ws2) with
    | Some t => partition_of t
    | None => None
    end = Some [[6]; [1]; [0]; [2; 7]; [4; 9]; [3; 5; 8; 10]].
  Proof. vm_compute. reflexivity. Qed.
  (* the partition that the smaller-half rule produced is rejected by the checker *)
  Example old_partition2_rejected :
    match trie_of (cls_of ws2) with
    | Some t => qcoverb t [[1; 6]; [0]; [2; 7]; [4; 9]; [3; 5; 8; 10]]
    | None => true
    end = false.
  Proof. vm_compute. reflexivity. Qed.
End Sanity.
