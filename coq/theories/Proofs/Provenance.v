(* Provenance: no grapheme is invented.

   Every grapheme that occurs in the final expression is (a) a grapheme of an input cluster,
   or (b) the result of widening (find_next_scan) two graphemes that already satisfy the
   invariant.  Consequently every per-grapheme invariant Q of the clusters that is stable
   under widening carries over to the trie, the minimised automaton, every entry of the
   equation system of Expression::from, and the final expression.

   No existing file is modified. *)
From Grex Require Import Base.Str Model.Config Model.Cluster Model.Dfa Model.Expr Model.Pipeline
  Proofs.Lang Proofs.ExprLang Proofs.TrieLang.
From Coq Require Import Permutation.

(* ====================================================================== *)
(* 0. generic fold lemmas                                                  *)
(* ====================================================================== *)

Lemma fold_left_none {S X} (f : option S -> X -> option S) :
  (forall x, f None x = None) -> forall l, fold_left f l None = None.
Proof.
  intros HN l. induction l as [|x l IH]; cbn [fold_left]; [reflexivity|].
  rewrite HN. exact IH.
Qed.

(* invariant of a fold whose accumulator is an option (None = panic, absorbing) *)
Lemma fold_left_opt_inv {S X} (f : option S -> X -> option S) (I : S -> Prop) (l : list X) :
  (forall x, f None x = None) ->
  (forall s x s', In x l -> I s -> f (Some s) x = Some s' -> I s') ->
  forall s s', I s -> fold_left f l (Some s) = Some s' -> I s'.
Proof.
  intros HN. induction l as [|x l IH]; intros Hstep s s' Hs H; cbn [fold_left] in H.
  - injection H as <-. exact Hs.
  - destruct (f (Some s) x) as [s1|] eqn:E.
    + apply (IH (fun s0 x0 s0' Hin => Hstep s0 x0 s0' (or_intror Hin)) s1 s'); [|exact H].
      exact (Hstep s x s1 (or_introl eq_refl) Hs E).
    + rewrite (fold_left_none f HN) in H. discriminate.
Qed.

Lemma fold_left_inv_in {A B} (I : A -> Prop) (f : A -> B -> A) (l : list B) :
  (forall a b, In b l -> I a -> I (f a b)) -> forall a, I a -> I (fold_left f l a).
Proof.
  induction l as [|b l IH]; intros Hf a Ha; cbn [fold_left]; [exact Ha|].
  apply IH.
  - intros a' b' Hb' Ha'. apply Hf; [right; exact Hb'|exact Ha'].
  - apply Hf; [left; reflexivity|exact Ha].
Qed.

Lemma set_nth_Forall {A} (P : A -> Prop) : forall (l : list A) k v,
  Forall P l -> P v -> Forall P (set_nth l k v).
Proof.
  induction l as [|x l IH]; intros k v Hl Hv; cbn [set_nth]; [constructor|].
  inversion Hl as [|? ? Hx Hl']; subst.
  destruct k as [|k]; constructor; try assumption. apply IH; assumption.
Qed.

Lemma nth_Forall_d {A} (P : A -> Prop) : forall (l : list A) k d,
  Forall P l -> P d -> P (nth k l d).
Proof.
  induction l as [|x l IH]; intros k d Hl Hd; destruct k as [|k]; cbn [nth]; try exact Hd.
  - inversion Hl; subst. assumption.
  - inversion Hl; subst. apply IH; assumption.
Qed.

Lemma Forall_repeat {A} (P : A -> Prop) x n : P x -> Forall P (repeat x n).
Proof.
  intros Hx. apply Forall_forall. intros y Hy. apply repeat_spec in Hy. subst y. exact Hx.
Qed.

Lemma alpha_add_in : forall g l x, In x (alpha_add g l) -> x = g \/ In x l.
Proof.
  intros g l x. induction l as [|h l IH]; cbn [alpha_add]; intros H.
  - destruct H as [H|[]]. left. symmetry. exact H.
  - destruct (g_cmp g h).
    + right. exact H.
    + destruct H as [H|H]; [left; symmetry; exact H|right; exact H].
    + destruct H as [H|H]; [right; left; exact H|].
      destruct (IH H) as [H'|H']; [left; exact H'|right; right; exact H'].
Qed.

(* ====================================================================== *)
(* 1. the generic theorem                                                  *)
(* ====================================================================== *)

Section Prov.
  Variable Q : grapheme -> Prop.

  (* the shape of the widening in find_next_scan: g is the label of the existing edge, h the
     incoming grapheme; the branch is taken only when the characters agree and the existing
     maximum is the incoming maximum minus one *)
  Hypothesis Q_widen : forall g h, Q g -> Q h ->
    g_chars g = g_chars h -> g_max g = (g_max h - 1)%N ->
    Q (g_new (g_chars h) (N.min (g_min g) (g_min h)) (N.max (g_max g) (g_max h))).

  Definition edges_Q (es : list edge) : Prop := Forall (fun e : edge => Q (e_lbl e)) es.

  (* ---------------------------------------------------------------------- *)
  (* 1a. the trie                                                            *)
  (* ---------------------------------------------------------------------- *)

  Definition st_Q (st : tstate) : Prop := forall s m g, In (s, m, g) (t_edges st) -> Q g.

  Lemma step_Q : forall st cur g st' nx,
    st_Q st -> Q g -> step_insert st cur g = Some (st', nx) -> st_Q st'.
  Proof.
    intros st cur g st' nx Hw Hg H.
    destruct (step_cases _ _ _ _ _ H) as [(-> & _)|[(cg & F & Hc & Hm & ->)|(-> & ->)]].
    - exact Hw.
    - apply find_edge_some3 in F as F'. destruct F' as (Hin & _ & _).
      destruct (update_edge_spec _ _ _ (widened cg g) _ F) as (_ & _ & I3).
      intros s m g0 Hx. cbn [t_edges] in Hx. apply I3 in Hx. destruct Hx as [Hx|Hx].
      + injection Hx as _ _ ->. unfold widened. apply Q_widen; try assumption.
        exact (Hw _ _ _ Hin).
      + exact (Hw _ _ _ Hx).
    - intros s m g0 Hx. cbn [t_edges] in Hx. apply in_app_or in Hx. destruct Hx as [Hx|[Hx|[]]].
      + exact (Hw _ _ _ Hx).
      + injection Hx as _ _ <-. exact Hg.
  Qed.

  Lemma path_Q : forall gs st cur st' last,
    st_Q st -> Forall Q gs -> insert_path st cur gs = Some (st', last) -> st_Q st'.
  Proof.
    induction gs as [|g gs IH]; intros st cur st' last Hw Hg H; cbn [insert_path] in H.
    - injection H as <- _. exact Hw.
    - destruct (step_insert st cur g) as [[st1 nx]|] eqn:S; [|discriminate].
      inversion Hg as [|? ? Hg1 Hg2]; subst.
      apply (IH st1 nx st' last); [|exact Hg2|exact H].
      exact (step_Q _ _ _ _ _ Hw Hg1 S).
  Qed.

  Lemma alpha_fold_Q : forall cl al, Forall Q cl -> Forall Q al ->
    Forall Q (fold_left (fun al g => alpha_add g al) cl al).
  Proof.
    induction cl as [|g cl IH]; intros al Hcl Hal; cbn [fold_left]; [exact Hal|].
    inversion Hcl as [|? ? Hg Hcl']; subst. apply IH; [exact Hcl'|].
    apply Forall_forall. intros x Hx. apply alpha_add_in in Hx. destruct Hx as [->|Hx]; [exact Hg|].
    rewrite Forall_forall in Hal. exact (Hal x Hx).
  Qed.

  Lemma acc_Q_inv : forall cls a,
    Forall (Forall Q) cls -> trie_acc_of cls = Some a -> st_Q (ta_st a) /\ Forall Q (ta_alpha a).
  Proof.
    induction cls as [|cl cls IH] using rev_ind; intros a Hw H.
    - unfold trie_acc_of in H; cbn in H. injection H as <-. cbn. split; [intros s m g []|constructor].
    - apply trie_acc_snoc_inv in H. destruct H as (a0 & st' & last & H0 & P & ->).
      apply Forall_app in Hw. destruct Hw as [Hw1 Hw2]. inversion Hw2 as [|? ? Hcl _]; subst.
      destruct (IH a0 Hw1 H0) as [I1 I2]. cbn [ta_st ta_alpha]. split.
      + exact (path_Q _ _ _ _ _ I1 Hcl P).
      + apply alpha_fold_Q; assumption.
  Qed.

  Theorem trie_labels : forall cls d,
    Forall (Forall Q) cls -> trie_of cls = Some d ->
    edges_Q (d_edges d) /\ Forall Q (d_alphabet d).
  Proof.
    intros cls d Hw H. apply trie_of_inv in H. destruct H as (a & Ha & ->).
    destruct (acc_Q_inv cls a Hw Ha) as [I1 I2]. cbn [d_edges d_alphabet]. split; [|exact I2].
    apply Forall_forall. intros [[s m] g] Hin. exact (I1 s m g Hin).
  Qed.

  (* ---------------------------------------------------------------------- *)
  (* 1b. minimisation: labels are copied from edges of representatives       *)
  (* ---------------------------------------------------------------------- *)

  Lemma recreate_graph_labels : forall d p d',
    edges_Q (d_edges d) -> recreate_graph d p = Some d' ->
    edges_Q (d_edges d') /\ d_alphabet d' = d_alphabet d.
  Proof.
    intros d p d' Hd H. unfold recreate_graph in H.
    match type of H with
    | match fold_left ?f p ?i with _ => _ end = _ =>
        destruct (fold_left f p i) as [[es fin]|] eqn:F; [|discriminate]
    end.
    destruct (block_index (d_init d) p 0) as [init'|]; [|discriminate].
    injection H as <-. cbn [d_edges d_alphabet]. split; [|reflexivity].
    revert F.
    apply (fold_left_opt_inv _ (fun s : list edge * list nat => edges_Q (fst s))).
    - intros x. reflexivity.
    - intros [es0 fin0] b [es1 fin1] _ Hs Hb. cbn [fst] in *.
      destruct (block_min b) as [rep|]; [|discriminate].
      destruct (block_index rep p 0) as [src'|]; [|discriminate].
      revert Hb.
      apply (fold_left_opt_inv _ (fun s : list edge * list nat => edges_Q (fst s))).
      + intros x. reflexivity.
      + intros [es2 fin2] tgt [es3 fin3] _ Hs2 Ht. cbn [fst] in *.
        destruct (find_edge (d_edges d) rep tgt) as [e|] eqn:Fe; [|discriminate].
        destruct (block_index tgt p 0) as [tgt'|]; [|discriminate].
        injection Ht as <- _.
        apply Forall_app. split; [exact Hs2|]. constructor; [|constructor].
        cbn [e_lbl snd]. apply find_edge_some in Fe. destruct Fe as (Hin & _).
        unfold edges_Q in Hd. rewrite Forall_forall in Hd. exact (Hd e Hin).
      + exact Hs.
    - cbn [fst]. constructor.
  Qed.

  Theorem minimize_labels : forall d d',
    edges_Q (d_edges d) -> minimize d = Some d' ->
    edges_Q (d_edges d') /\ d_alphabet d' = d_alphabet d.
  Proof.
    intros d d' Hd H. unfold minimize in H.
    destruct (partition_of d) as [p|]; [|discriminate].
    exact (recreate_graph_labels d p d' Hd H).
  Qed.

  Theorem dfa_from_labels : forall cls m d,
    Forall (Forall Q) cls -> dfa_from cls m = Some d ->
    edges_Q (d_edges d) /\ Forall Q (d_alphabet d).
  Proof.
    intros cls m d Hw H. unfold dfa_from in H.
    destruct (trie_of cls) as [t|] eqn:T; [|discriminate].
    destruct (trie_labels cls t Hw T) as [I1 I2].
    destruct m.
    - destruct (minimize_labels t d I1 H) as [J1 J2]. split; [exact J1|]. rewrite J2. exact I2.
    - injection H as <-. split; assumption.
  Qed.

  (* ---------------------------------------------------------------------- *)
  (* 1c. expressions                                                         *)
  (* ---------------------------------------------------------------------- *)

  (* a member of a character class is the single code point of a one-string, one-code-point,
     unrepeated grapheme that satisfies Q *)
  Definition cc_ok (x : cp) : Prop :=
    exists g, Q g /\ g_chars g = [[x]] /\ g_min g = 1%N /\ g_max g = 1%N.

  Fixpoint expr_all (e : expr) : Prop :=
    match e with
    | EAlt os => (fix go (l : list expr) : Prop :=
                    match l with [] => True | o :: l' => expr_all o /\ go l' end) os
    | ECC cs => Forall cc_ok cs
    | ECat a b => expr_all a /\ expr_all b
    | ELit cl => Forall Q cl
    | ERep e' _ => expr_all e'
    end.

  Definition oall (o : option expr) : Prop :=
    match o with Some e => expr_all e | None => True end.

  Lemma expr_all_alt_iff : forall os, expr_all (EAlt os) <-> Forall expr_all os.
  Proof.
    induction os as [|o os IH].
    - cbn. split; auto.
    - change (expr_all (EAlt (o :: os))) with (expr_all o /\ expr_all (EAlt os)).
      rewrite IH. split.
      + intros [H1 H2]. constructor; assumption.
      + intros H. inversion H; subst. auto.
  Qed.

  Lemma flatten_alt_all : forall f es, Forall expr_all es -> Forall expr_all (flatten_alt f es).
  Proof.
    induction f as [|f IHf]; intros es H; cbn [flatten_alt]; [exact H|].
    induction H as [|e es He H IH]; cbn [flat_map]; [constructor|].
    apply Forall_app. split; [|exact IH].
    destruct e as [os| | | |]; try (constructor; [exact He|constructor]).
    apply IHf. apply expr_all_alt_iff. exact He.
  Qed.

  Theorem new_alternation_all : forall es, Forall expr_all es -> expr_all (new_alternation es).
  Proof.
    intros es H. unfold new_alternation. apply expr_all_alt_iff.
    eapply Permutation_Forall; [symmetry; apply sort_by_perm|].
    apply flatten_alt_all. exact H.
  Qed.

  Theorem concatenate_all : forall a b, oall a -> oall b -> oall (concatenate a b).
  Proof.
    intros [x|] [y|] Hx Hy; cbn [concatenate oall]; try exact I.
    cbn [oall] in Hx, Hy.
    destruct (is_empty x); [exact Hy|]. destruct (is_empty y); [exact Hx|].
    destruct x as [?|?|xa xb|ga|? ?]; destruct y as [?|?|ya yb|gb|? ?];
      try (cbn [oall expr_all]; split; assumption);
      try (destruct xb as [?|?|? ?|gs|? ?]; try (cbn [oall expr_all]; split; assumption));
      try (destruct ya as [?|?|? ?|gf|? ?]; try (cbn [oall expr_all]; split; assumption)).
    - cbn [oall expr_all] in *. destruct Hx as [Hx1 Hx2].
      split; [exact Hx1|apply Forall_app; split; assumption].
    - cbn [oall expr_all] in *. destruct Hy as [Hy1 Hy2].
      split; [apply Forall_app; split; assumption|exact Hy2].
    - cbn [oall expr_all] in *. apply Forall_app; split; assumption.
  Qed.

  (* --- prefix / suffix factoring only moves graphemes around --- *)
  Lemma value_top_all : forall pre a, expr_all a -> Forall Q (value_top pre a).
  Proof.
    intros pre a H. destruct a as [?|?|a1 a2|cl|? ?]; cbn [value_top]; try constructor.
    - cbn [expr_all] in H. destruct H as [H1 H2].
      destruct pre; [destruct a1|destruct a2]; try constructor; assumption.
    - exact H.
  Qed.

  Lemma find_common_all : forall pre a b, expr_all a -> Forall Q (find_common pre a b).
  Proof.
    intros pre a b H. unfold find_common. destruct pre.
    - apply common_prefix_Forall. apply value_top_all. exact H.
    - apply Forall_rev. apply common_prefix_Forall. apply Forall_rev. apply value_top_all. exact H.
  Qed.

  Lemma drop_sub_all : forall pre n cl, Forall Q cl -> Forall Q (drop_sub pre n cl).
  Proof.
    intros pre n cl H. unfold drop_sub.
    destruct pre; [apply ExprLang.Forall_skipn'|apply ExprLang.Forall_firstn']; exact H.
  Qed.

  Lemma remove_substring_all : forall pre n a, expr_all a -> expr_all (remove_substring pre n a).
  Proof.
    intros pre n a H. destruct a as [?|?|a1 a2|cl|? ?]; cbn [remove_substring]; try exact H.
    - cbn [expr_all] in H. destruct H as [H1 H2]. destruct pre.
      + destruct a1; try (split; assumption). split; [apply drop_sub_all; exact H1|exact H2].
      + destruct a2; try (split; assumption). split; [exact H1|apply drop_sub_all; exact H2].
    - apply drop_sub_all. exact H.
  Qed.

  Lemma strip_all : forall pre p a, expr_all a -> expr_all (strip pre p a).
  Proof.
    intros pre p a H. unfold strip. destruct p; [exact H|apply remove_substring_all; exact H].
  Qed.

  Lemma wrapP_all : forall p r, Forall Q p -> expr_all r -> expr_all (wrapP p r).
  Proof. intros [|g p] r Hp Hr; cbn [wrapP]; [exact Hr|split; assumption]. Qed.
  Lemma wrapS_all : forall s r, Forall Q s -> expr_all r -> expr_all (wrapS s r).
  Proof. intros [|g s] r Hs Hr; cbn [wrapS]; [exact Hr|split; assumption]. Qed.

  (* --- from here on the well-formedness of Q-graphemes is used (character classes) --- *)
  Hypothesis Q_wf : forall g, Q g -> wf_g g.

  Lemma expr_all_wf : forall e, expr_all e -> wf_expr e.
  Proof.
    induction e as [os HF|cs|a b IHa IHb|cl|e q IH] using expr_ind'; intros H.
    - apply wf_alt_iff. apply expr_all_alt_iff in H.
      rewrite Forall_forall in *. intros o Ho. exact (HF o Ho (H o Ho)).
    - exact I.
    - destruct H as [H1 H2]. split; [apply IHa; exact H1|apply IHb; exact H2].
    - cbn [expr_all] in H. cbn [wf_expr]. unfold wf_cluster.
      eapply Forall_impl; [|exact H]. exact Q_wf.
    - cbn [expr_all] in H. cbn [wf_expr]. apply IH. exact H.
  Qed.

  Lemma single_cp_all : forall c e, expr_all e -> is_single_codepoint c e = true ->
    exists cs, extract_character_set e = Some cs /\ Forall cc_ok cs.
  Proof.
    intros c e He H. pose proof (expr_all_wf e He) as Hwf.
    destruct e as [?|cs|? ?|cl|? ?]; cbn [is_single_codepoint] in H; try discriminate.
    - exists cs. split; [reflexivity|exact He].
    - apply andb_true_iff in H. destruct H as [H1 H2]. apply Nat.eqb_eq in H1.
      cbn [wf_expr] in Hwf. cbn [expr_all] in He.
      destruct (single_cluster _ _ Hwf H1) as (g & -> & Hg).
      apply N.eqb_eq in H2. destruct g as [cs rs a b]. cbn [g_max] in H2. subst b.
      inversion Hwf as [|? ? Hwg _]; subst. destruct Hwg as (Hne & HF & Ha1 & Ha2).
      inversion He as [|? ? HQ _]; subst.
      assert (Hx : exists x, cs = [[x]]).
      { unfold g_char_count in Hg. cbn [g_chars] in Hg. destruct (f_esc c).
        - apply chars_single_esc; assumption.
        - apply chars_single_plain; assumption. }
      destruct Hx as [x ->]. exists [x]. split; [reflexivity|].
      constructor; [|constructor]. exists (G [[x]] rs a 1%N).
      split; [exact HQ|]. split; [reflexivity|]. cbn [g_min g_max]. split; [lia|reflexivity].
  Qed.

  Lemma union_dflt_all : forall c e1 e2 r, expr_all e1 -> expr_all e2 ->
    union_dflt c e1 e2 = Some r -> expr_all r.
  Proof.
    intros c e1 e2 r H1 H2 H. unfold union_dflt in H.
    destruct (is_single_codepoint c e1) eqn:S1; destruct (is_single_codepoint c e2) eqn:S2;
      cbn [andb] in H.
    1:{ destruct (single_cp_all c e1 H1 S1) as (s1 & E1 & L1).
        destruct (single_cp_all c e2 H2 S2) as (s2 & E2 & L2).
        rewrite E1, E2 in H. injection H as <-. cbn [expr_all].
        apply Forall_forall. intros x Hx. apply cset_union_in in Hx.
        rewrite Forall_forall in L1, L2. destruct Hx as [Hx|Hx]; [exact (L1 x Hx)|exact (L2 x Hx)]. }
    all: injection H as <-; apply new_alternation_all; repeat constructor; assumption.
  Qed.

  Lemma union_core_all : forall c e1 e2 r, expr_all e1 -> expr_all e2 ->
    union_core c e1 e2 = Some r -> expr_all r.
  Proof.
    intros c e1 e2 r H1 H2 H. rewrite union_core_eq in H.
    destruct (is_empty e1). { injection H as <-. exact H2. }
    destruct (is_empty e2). { injection H as <-. exact H1. }
    destruct (opt_body e1) as [x|] eqn:O1.
    { apply opt_body_some in O1. subst e1. cbn [expr_all] in H1. injection H as <-.
      cbn [expr_all]. apply new_alternation_all. repeat constructor; assumption. }
    destruct (opt_body e2) as [y|] eqn:O2.
    { apply opt_body_some in O2. subst e2. cbn [expr_all] in H2. injection H as <-.
      cbn [expr_all]. apply new_alternation_all. repeat constructor; assumption. }
    exact (union_dflt_all c e1 e2 r H1 H2 H).
  Qed.

  Theorem union2_all : forall c a b r, expr_all a -> expr_all b ->
    union2 c a b = Some r -> expr_all r.
  Proof.
    intros c a b r Ha Hb H. rewrite union2_unfold in H.
    destruct (expr_eqb a b). { injection H as <-. exact Ha. }
    cbv zeta in H.
    set (p := find_common true a b) in *.
    set (e1 := strip true p a) in *. set (e2 := strip true p b) in *.
    set (s := find_common false e1 e2) in *.
    assert (W1 : expr_all e1) by (apply strip_all; exact Ha).
    assert (W2 : expr_all e2) by (apply strip_all; exact Hb).
    destruct (union_core c (strip false s e1) (strip false s e2)) as [r0|] eqn:C; [|discriminate].
    injection H as <-.
    apply wrapS_all; [exact (find_common_all false e1 e2 W1)|].
    apply wrapP_all; [exact (find_common_all true a b Ha)|].
    apply (union_core_all c (strip false s e1) (strip false s e2) r0);
      [apply strip_all; exact W1|apply strip_all; exact W2|exact C].
  Qed.

  Theorem union_all : forall c a b r, oall a -> oall b -> union c a b = Some r -> oall r.
  Proof.
    intros c [x|] [y|] r Ha Hb H; cbn [union] in H.
    - destruct (union2 c x y) as [r'|] eqn:E; [|discriminate]. injection H as <-.
      cbn [oall]. exact (union2_all c x y r' Ha Hb E).
    - injection H as <-. exact Ha.
    - injection H as <-. exact Hb.
    - injection H as <-. exact I.
  Qed.

  (* ---------------------------------------------------------------------- *)
  (* 1d. the equation system of Expression::from                             *)
  (* ---------------------------------------------------------------------- *)

  Definition mat_all (a : list (list (option expr))) : Prop := Forall (Forall oall) a.
  Definition vec_all (b : list (option expr)) : Prop := Forall oall b.
  Definition sys_all (s : sys) : Prop := mat_all (fst s) /\ vec_all (snd s).

  Lemma mget_all : forall a i j, mat_all a -> oall (mget a i j).
  Proof.
    intros a i j H. unfold mget. apply nth_Forall_d; [|exact I].
    apply (nth_Forall_d (Forall oall)); [exact H|constructor].
  Qed.

  Lemma vget_all : forall b i, vec_all b -> oall (vget b i).
  Proof. intros b i H. unfold vget. apply nth_Forall_d; [exact H|exact I]. Qed.

  Lemma mset_all : forall a i j v, mat_all a -> oall v -> mat_all (mset a i j v).
  Proof.
    intros a i j v H Hv. unfold mset, mat_all. apply set_nth_Forall; [exact H|].
    apply set_nth_Forall; [|exact Hv].
    apply (nth_Forall_d (Forall oall)); [exact H|constructor].
  Qed.

  Lemma init_system_all : forall c d states s,
    edges_Q (d_edges d) -> init_system c d states = Some s -> sys_all s.
  Proof.
    intros c d states s Hd H. unfold init_system in H. revert H.
    apply (fold_left_opt_inv _ sys_all).
    - intros [i st]. reflexivity.
    - intros [a b] [i st] s' _ [Ha Hb] H. cbn [fst snd] in *. revert H.
      apply (fold_left_opt_inv _ sys_all).
      + intros e. reflexivity.
      + intros [a1 b1] e s1 Hin [Ha1 Hb1] H. cbn [fst snd] in *.
        assert (HQ : Q (e_lbl e)).
        { unfold out_edges in Hin. apply filter_In in Hin. destruct Hin as [Hin _].
          apply in_rev in Hin. unfold edges_Q in Hd. rewrite Forall_forall in Hd. exact (Hd e Hin). }
        assert (HL : expr_all (ELit [e_lbl e])) by (cbn [expr_all]; constructor; [exact HQ|constructor]).
        destruct (position (e_dst e) states 0) as [j|]; [|discriminate].
        pose proof (mget_all a1 i j Ha1) as Hold.
        destruct (mget a1 i j) as [old|].
        * destruct (union2 c old (ELit [e_lbl e])) as [u|] eqn:U; [|discriminate].
          injection H as <-. split; cbn [fst snd]; [|exact Hb1].
          apply mset_all; [exact Ha1|]. cbn [oall]. exact (union2_all c _ _ u Hold HL U).
        * injection H as <-. split; cbn [fst snd]; [|exact Hb1].
          apply mset_all; [exact Ha1|exact HL].
      + split; cbn [fst snd]; [exact Ha|].
        destruct (set_mem st (d_finals d)); [|exact Hb].
        apply set_nth_Forall; [exact Hb|]. cbn [oall expr_all]. constructor.
    - split; cbn [fst snd].
      + apply Forall_repeat. apply Forall_repeat. exact I.
      + apply Forall_repeat. exact I.
  Qed.

  (* the first phase of elim_step: the self loop a[n][n] is starred into row n *)
  Definition elim_pre (a : list (list (option expr))) (b : list (option expr)) (n : nat) : sys :=
    match mget a n n with
    | Some ann =>
        let s := star (Some ann) in
        let b := set_nth b n (concatenate s (vget b n)) in
        let a := fold_left (fun a j => mset a n j (concatenate s (mget a n j))) (seq 0 n) a in
        (a, b)
    | None => (a, b)
    end.

  Lemma elim_pre_all : forall a b n, sys_all (a, b) -> sys_all (elim_pre a b n).
  Proof.
    intros a b n [Ha Hb]. cbn [fst snd] in *. unfold elim_pre.
    pose proof (mget_all a n n Ha) as Hann.
    destruct (mget a n n) as [ann|]; [|split; assumption].
    cbn [oall] in Hann. cbv zeta.
    assert (Hs : oall (star (Some ann))) by (cbn [star oall expr_all]; exact Hann).
    split; cbn [fst snd].
    - apply (fold_left_inv_in mat_all); [|exact Ha].
      intros a' j _ Ha'. apply mset_all; [exact Ha'|].
      apply concatenate_all; [exact Hs|apply mget_all; exact Ha'].
    - apply set_nth_Forall; [exact Hb|].
      apply concatenate_all; [exact Hs|apply vget_all; exact Hb].
  Qed.

  Lemma elim_step_all : forall c s n s',
    sys_all s -> elim_step c (Some s) n = Some s' -> sys_all s'.
  Proof.
    intros c [a b] n s' Hs H.
    pose proof (elim_pre_all a b n Hs) as Hpre.
    change (elim_step c (Some (a, b)) n) with
      (let '(a0, b0) := elim_pre a b n in
       fold_left
         (fun (acc : option sys) i =>
            match acc with
            | None => None
            | Some (a, b) =>
                match mget a i n with
                | None => Some (a, b)
                | Some ain =>
                    match union c (vget b i) (concatenate (Some ain) (vget b n)) with
                    | None => None
                    | Some bi =>
                        let b := set_nth b i bi in
                        fold_left
                          (fun (acc : option sys) j =>
                             match acc with
                             | None => None
                             | Some (a, b) =>
                                 match union c (mget a i j) (concatenate (Some ain) (mget a n j)) with
                                 | None => None
                                 | Some aij => Some (mset a i j aij, b)
                                 end
                             end)
                          (seq 0 n) (Some (a, b))
                    end
                end
            end)
         (seq 0 n) (Some (a0, b0))) in H.
    destruct (elim_pre a b n) as [a0 b0]. revert H.
    apply (fold_left_opt_inv _ sys_all); [intros x; reflexivity| |exact Hpre].
    intros [a1 b1] i s1 _ [Ha1 Hb1] H. cbn [fst snd] in *.
    pose proof (mget_all a1 i n Ha1) as Hain.
    destruct (mget a1 i n) as [ain|]; [|injection H as <-; split; assumption].
    cbn [oall] in Hain.
    destruct (union c (vget b1 i) (concatenate (Some ain) (vget b1 n))) as [bi|] eqn:U; [|discriminate].
    assert (Hbi : oall bi).
    { refine (union_all c _ _ bi _ _ U); [apply vget_all; exact Hb1|].
      apply concatenate_all; [exact Hain|apply vget_all; exact Hb1]. }
    cbv zeta in H. revert H.
    apply (fold_left_opt_inv _ sys_all); [intros x; reflexivity| |].
    - intros [a2 b2] j s2 _ [Ha2 Hb2] H. cbn [fst snd] in *.
      destruct (union c (mget a2 i j) (concatenate (Some ain) (mget a2 n j))) as [aij|] eqn:U2;
        [|discriminate].
      injection H as <-. split; cbn [fst snd]; [|exact Hb2].
      apply mset_all; [exact Ha2|].
      refine (union_all c _ _ aij _ _ U2); [apply mget_all; exact Ha2|].
      apply concatenate_all; [exact Hain|apply mget_all; exact Ha2].
    - split; cbn [fst snd]; [exact Ha1|]. apply set_nth_Forall; [exact Hb1|exact Hbi].
  Qed.

  Theorem expr_from_all : forall c d e,
    edges_Q (d_edges d) -> expr_from c d = Some e -> expr_all e.
  Proof.
    intros c d e Hd H. unfold expr_from in H.
    destruct (dfs_order d) as [states|]; [|discriminate].
    destruct (fold_left (elim_step c) (rev (seq 0 (d_n d))) (init_system c d states))
      as [[a b]|] eqn:F; [|discriminate].
    assert (Hs : sys_all (a, b)).
    { destruct (init_system c d states) as [s0|] eqn:I0.
      - revert F. apply (fold_left_opt_inv _ sys_all).
        + intros x. reflexivity.
        + intros s x s' _ Hs Hst. exact (elim_step_all c s x s' Hs Hst).
        + exact (init_system_all c d states s0 Hd I0).
      - rewrite (fold_left_none (elim_step c)) in F; [discriminate|]. intros x. reflexivity. }
    destruct Hs as [_ Hb]. cbn [snd] in Hb.
    destruct b as [|[e0|] b'].
    - injection H as <-. cbn [expr_all]. constructor.
    - injection H as <-. inversion Hb as [|? ? He0 _]; subst. exact He0.
    - injection H as <-. cbn [expr_all]. constructor.
  Qed.

  (* ---------------------------------------------------------------------- *)
  (* 1e. the pipeline                                                        *)
  (* ---------------------------------------------------------------------- *)

  Theorem final_expr_all : forall c cls sc e,
    Forall (Forall Q) cls -> final_expr c cls sc = Some e -> expr_all e.
  Proof.
    intros c cls sc e Hw H. unfold final_expr in H.
    destruct (dfa_from cls true) as [d1|] eqn:D1; [|discriminate].
    destruct (expr_from c d1) as [e1|] eqn:E1; [|discriminate].
    assert (H1 : expr_all e1).
    { destruct (dfa_from_labels cls true d1 Hw D1) as [I1 _]. exact (expr_from_all c d1 e1 I1 E1). }
    assert (HA : expr_all (new_alternation (map ELit cls))).
    { apply new_alternation_all. apply Forall_map. eapply Forall_impl; [|exact Hw].
      intros cl Hcl. exact Hcl. }
    destruct (f_no_start c && f_no_end c); [|injection H as <-; exact H1].
    destruct sc; try (injection H as <-; exact H1);
      destruct (dfa_from cls false) as [d2|] eqn:D2; try discriminate;
      destruct (expr_from c d2) as [e2|] eqn:E2; try discriminate;
      injection H as <-.
    - destruct (dfa_from_labels cls false d2 Hw D2) as [I2 _]. exact (expr_from_all c d2 e2 I2 E2).
    - exact HA.
  Qed.
End Prov.

(* ====================================================================== *)
(* 2. monotonicity, and the version whose Q need not imply wf_g            *)
(* ====================================================================== *)

Lemma cc_ok_mono : forall (Q1 Q2 : grapheme -> Prop), (forall g, Q1 g -> Q2 g) ->
  forall x, cc_ok Q1 x -> cc_ok Q2 x.
Proof.
  intros Q1 Q2 HQ x (g & Hg & H). exists g. split; [apply HQ; exact Hg|exact H].
Qed.

Lemma expr_all_mono : forall (Q1 Q2 : grapheme -> Prop), (forall g, Q1 g -> Q2 g) ->
  forall e, expr_all Q1 e -> expr_all Q2 e.
Proof.
  intros Q1 Q2 HQ. induction e as [os HF|cs|a b IHa IHb|cl|e q IH] using expr_ind'; intros H.
  - apply expr_all_alt_iff. apply expr_all_alt_iff in H.
    rewrite Forall_forall in *. intros o Ho. exact (HF o Ho (H o Ho)).
  - cbn [expr_all] in *. eapply Forall_impl; [|exact H]. apply cc_ok_mono. exact HQ.
  - destruct H as [H1 H2]. split; [apply IHa; exact H1|apply IHb; exact H2].
  - cbn [expr_all] in *. eapply Forall_impl; [|exact H]. exact HQ.
  - cbn [expr_all] in *. apply IH. exact H.
Qed.

(* graphemes of literals, wherever they occur in an expression *)
Inductive lit_in (g : grapheme) : expr -> Prop :=
| li_alt : forall os o, In o os -> lit_in g o -> lit_in g (EAlt os)
| li_cat_l : forall a b, lit_in g a -> lit_in g (ECat a b)
| li_cat_r : forall a b, lit_in g b -> lit_in g (ECat a b)
| li_lit : forall cl, In g cl -> lit_in g (ELit cl)
| li_rep : forall e q, lit_in g e -> lit_in g (ERep e q).

(* members of character classes, wherever they occur *)
Inductive cc_in (x : cp) : expr -> Prop :=
| ci_alt : forall os o, In o os -> cc_in x o -> cc_in x (EAlt os)
| ci_cat_l : forall a b, cc_in x a -> cc_in x (ECat a b)
| ci_cat_r : forall a b, cc_in x b -> cc_in x (ECat a b)
| ci_cc : forall cs, In x cs -> cc_in x (ECC cs)
| ci_rep : forall e q, cc_in x e -> cc_in x (ERep e q).

Lemma expr_all_lit_in : forall Q e g, expr_all Q e -> lit_in g e -> Q g.
Proof.
  intros Q e g He Hin. induction Hin as [os o Ho _ IH|a b _ IH|a b _ IH|cl Hg|e q _ IH].
  - apply IH. apply expr_all_alt_iff in He. rewrite Forall_forall in He. exact (He o Ho).
  - apply IH. exact (proj1 He).
  - apply IH. exact (proj2 He).
  - cbn [expr_all] in He. rewrite Forall_forall in He. exact (He g Hg).
  - apply IH. exact He.
Qed.

Lemma expr_all_cc_in : forall Q e x, expr_all Q e -> cc_in x e -> cc_ok Q x.
Proof.
  intros Q e x He Hin. induction Hin as [os o Ho _ IH|a b _ IH|a b _ IH|cs Hx|e q _ IH].
  - apply IH. apply expr_all_alt_iff in He. rewrite Forall_forall in He. exact (He o Ho).
  - apply IH. exact (proj1 He).
  - apply IH. exact (proj2 He).
  - cbn [expr_all] in He. rewrite Forall_forall in He. exact (He x Hx).
  - apply IH. exact He.
Qed.

Section ProvWf.
  Variable Q : grapheme -> Prop.
  Hypothesis Q_widen : forall g h, Q g -> Q h ->
    g_chars g = g_chars h -> g_max g = (g_max h - 1)%N ->
    Q (g_new (g_chars h) (N.min (g_min g) (g_min h)) (N.max (g_max g) (g_max h))).

  Definition with_wf (g : grapheme) : Prop := Q g /\ wf_g g.

  Lemma with_wf_widen : forall g h, with_wf g -> with_wf h ->
    g_chars g = g_chars h -> g_max g = (g_max h - 1)%N ->
    with_wf (g_new (g_chars h) (N.min (g_min g) (g_min h)) (N.max (g_max g) (g_max h))).
  Proof.
    intros g h [Hg Wg] [Hh Wh] Hc Hm. split.
    - apply Q_widen; assumption.
    - exact (widened_wf g h Wg Wh).
  Qed.

  Lemma with_wf_wf : forall g, with_wf g -> wf_g g.
  Proof. intros g [_ H]. exact H. Qed.

  Lemma Forall2_with_wf : forall cls, Forall (Forall Q) cls -> Forall wf_cluster cls ->
    Forall (Forall with_wf) cls.
  Proof.
    intros cls H1 H2. rewrite Forall_forall in *. intros cl Hcl.
    specialize (H1 cl Hcl). specialize (H2 cl Hcl). unfold wf_cluster in H2.
    rewrite Forall_forall in *. intros g Hg. split; [exact (H1 g Hg)|exact (H2 g Hg)].
  Qed.

  Lemma edges_with_wf : forall d, edges_Q Q (d_edges d) -> wf_dfa d -> edges_Q with_wf (d_edges d).
  Proof.
    intros d H1 [H2 _]. unfold edges_Q in *. rewrite Forall_forall in *.
    intros e He. split; [exact (H1 e He)|exact (proj2 (proj2 (H2 e He)))].
  Qed.

  Theorem expr_from_all_wf : forall c d e,
    edges_Q Q (d_edges d) -> wf_dfa d -> expr_from c d = Some e -> expr_all with_wf e.
  Proof.
    intros c d e Hd Hwf H.
    exact (expr_from_all with_wf with_wf_wf c d e (edges_with_wf d Hd Hwf) H).
  Qed.

  Theorem final_expr_all_wf : forall c cls sc e,
    Forall (Forall Q) cls -> Forall wf_cluster cls ->
    final_expr c cls sc = Some e -> expr_all with_wf e.
  Proof.
    intros c cls sc e H1 H2 H.
    exact (final_expr_all with_wf with_wf_widen with_wf_wf c cls sc e (Forall2_with_wf cls H1 H2) H).
  Qed.

  Corollary final_expr_all_Q : forall c cls sc e,
    Forall (Forall Q) cls -> Forall wf_cluster cls ->
    final_expr c cls sc = Some e -> expr_all Q e.
  Proof.
    intros c cls sc e H1 H2 H.
    apply (expr_all_mono with_wf Q); [intros g [Hg _]; exact Hg|].
    exact (final_expr_all_wf c cls sc e H1 H2 H).
  Qed.
End ProvWf.

Check trie_labels.
Check minimize_labels.
Check dfa_from_labels.
Check new_alternation_all.
Check concatenate_all.
Check union2_all.
Check union_all.
Check expr_from_all.
Check final_expr_all.
Check expr_all_mono.
Check expr_all_lit_in.
Check expr_all_cc_in.
Check expr_from_all_wf.
Check final_expr_all_wf.
Check final_expr_all_Q.

Print Assumptions trie_labels.
Print Assumptions minimize_labels.
Print Assumptions union2_all.
Print Assumptions expr_from_all.
Print Assumptions final_expr_all.
Print Assumptions final_expr_all_wf.
Print Assumptions final_expr_all_Q.
