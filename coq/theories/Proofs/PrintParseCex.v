(* Printing theorem: why each extra clause of wf_print is needed.  Every counterexample is a
   printed pattern that the parser MODEL (Engine/Parse.v) rejects or reads with another language;
   all by computation.  (Item 3 is a positive example: ranges ending in a raw & or ~ parse.) *)
From Grex Require Import Base.Str Model.Config Model.Cluster Model.Dfa Model.Expr Model.Print.
From Grex Require Import Engine.Syntax Engine.Parse Engine.Sem.
From Grex Require Import Proofs.Lang Proofs.PrintParseDefs.

Local Open Scope N_scope.

Definition nows : cp -> bool := fun _ => false.
Definition isd0 : cp -> bool := fun _ => false.
Definition c0 : cfg := default_cfg.
Definition lit (l : list N) : expr := ELit (map (fun x => g_from [x]) l).

(* 1. a `?` quantifier directly on a repetition prints `a*?`: a lazy quantifier, outside the
      fragment of the parser model (the real crate reads it as a lazy star, same language) *)
Example cex_lazy_str :
  regexp_str isd0 c0 (ERep (ERep (lit [97]) QStar) QQuestion) = [94; 97; 42; 63; 36].
Proof. vm_compute. reflexivity. Qed.
Example cex_lazy :
  parse nows (regexp_str isd0 c0 (ERep (ERep (lit [97]) QStar) QQuestion)) = None.
Proof. vm_compute. reflexivity. Qed.
Example cex_lazy2 :
  parse nows (regexp_str isd0 c0 (ERep (ERep (lit [97]) QQuestion) QQuestion)) = None.
Proof. vm_compute. reflexivity. Qed.
(* the other nesting order is fine *)
Example ok_quest_star :
  parse nows (regexp_str isd0 c0 (ERep (ERep (lit [97]) QQuestion) QStar))
  = Some (mkF false false, top_rast c0 (ERep (ERep (lit [97]) QQuestion) QStar)).
Proof. vm_compute. reflexivity. Qed.

(* 2. a character class with a single member prints `[]` (the tuple_windows loop never runs) *)
Example cex_singleton_class_str : regexp_str isd0 c0 (ECC [97]) = [94; 91; 93; 36].
Proof. vm_compute. reflexivity. Qed.
Example cex_singleton_class : parse nows (regexp_str isd0 c0 (ECC [97])) = None.
Proof. vm_compute. reflexivity. Qed.

(* 3. (positive) a printed range ending in a raw `&` or `~`: `[\$-&]`, `[|-~]`.  The parser model
      accepts a raw & or ~ as the upper end of a range unless the same character follows
      (`&&`, `~~`: set operations, outside the fragment); class members are distinct and sorted,
      so what follows such a range is `]` or a larger member *)
Example ok_amp_range_str : regexp_str isd0 c0 (ECC [36; 37; 38]) = [94; 91; 92; 36; 45; 38; 93; 36].
Proof. vm_compute. reflexivity. Qed.
Example ok_amp_range :
  parse nows (regexp_str isd0 c0 (ECC [36; 37; 38]))
  = Some (mkF false false, top_rast c0 (ECC [36; 37; 38])).
Proof. vm_compute. reflexivity. Qed.
Example ok_amp_range_ast :
  top_rast c0 (ECC [36; 37; 38]) = RCat (RCat RStart (RBracket [(36, 38)])) REnd.
Proof. vm_compute. reflexivity. Qed.
Example ok_tilde_range_str : regexp_str isd0 c0 (ECC [124; 125; 126]) = [94; 91; 124; 45; 126; 93; 36].
Proof. vm_compute. reflexivity. Qed.
Example ok_tilde_range :
  parse nows (regexp_str isd0 c0 (ECC [124; 125; 126]))
  = Some (mkF false false, top_rast c0 (ECC [124; 125; 126])).
Proof. vm_compute. reflexivity. Qed.
(* a range ending in & followed by further members: `[\$-&'\(-\*]`, and & as a single member
   followed by a range *)
Example ok_amp_range_more :
  parse nows (regexp_str isd0 c0 (ECC [36; 37; 38; 39; 40; 41; 42; 44]))
  = Some (mkF false false, top_rast c0 (ECC [36; 37; 38; 39; 40; 41; 42; 44])).
Proof. vm_compute. reflexivity. Qed.
Example ok_amp_range_then_single :
  parse nows (regexp_str isd0 c0 (ECC [36; 37; 38; 40; 126; 200]))
  = Some (mkF false false, top_rast c0 (ECC [36; 37; 38; 40; 126; 200])).
Proof. vm_compute. reflexivity. Qed.
(* the doubled characters are what the parser model refuses: `[a-&&]` *)
Example cex_amp_amp : parse nows [91; 97; 45; 38; 38; 93] = None.
Proof. vm_compute. reflexivity. Qed.

(* 4. a class whose run of consecutive positions straddles the surrogate gap prints the range
      U+D7FF-U+E001; the matching relation of the model lets a range item accept ANY code point
      between its ends, surrogates included, so with lit_den = equality the parsed AST accepts the
      "string" [0xD800] which the expression does not.  (No real haystack contains a surrogate:
      print_parse_lang_scalar assumes that no literal denotes one.) *)
Definition e_gap : expr := ECC [55295; 57344; 57345].
Example cex_gap_parse :
  parse nows (regexp_str isd0 c0 e_gap)
  = Some (mkF false false, RCat (RCat RStart (RBracket [(55295, 57345)])) REnd).
Proof. vm_compute. reflexivity. Qed.
Example cex_gap_lang :
  L_rast eq eq (RCat (RCat RStart (RBracket [(55295, 57345)])) REnd) [55296]
  /\ ~ L_expr eq eq e_gap [55296].
Proof.
  split.
  - unfold L_rast. cbn [length].
    eapply m_cat with (k := 1%nat); [eapply m_cat with (k := 0%nat); [constructor|]|].
    + eapply m_bracket with (lo := 55295) (hi := 57345) (c := 55296) (x := 55296);
        [left; reflexivity|lia|lia|reflexivity|reflexivity].
    + exact (m_end eq eq [55296]).
  - intros (c & Hin & x & E & Hx). inversion E; subst. cbn [In] in Hin.
    destruct Hin as [H|[H|[H|[]]]]; discriminate H.
Qed.

(* 5. a nested repetition with min <> max: the printer uses `reps` ({1,2}) while the
      denotation uses `chars` (aa) *)
Definition e_nested : expr := ELit [G [[97]; [97]] [G [[97]] [] 1 2] 1 1].
Example cex_nested_parse :
  parse nows (regexp_str isd0 c0 e_nested)
  = Some (mkF false false, RCat (RCat RStart (RRep (RLit 97) 1 (Some 2))) REnd).
Proof. vm_compute. reflexivity. Qed.

(* a larger positive check of the expected AST against the parser, by computation *)
Definition cesc : cfg :=
  mkCfg 1 1 false false false false false false false true true true false false false false false.
Definition e_big : expr :=
  ECat (lit [97; 233; 40; 11; 35; 32; 123])
       (EAlt [lit [98]; ELit [G [[99]; [100]] [] 2 3]; ELit [G [[92; 100]] [] 3 3];
              ERep (ECC [36; 37; 45; 93; 97; 98; 99; 12]) QStar;
              ELit [G [[97]; [98]; [97]; [98]] [G [[97]; [98]] [] 2 2] 3 3; G [[92]] [] 2 2]]).
Example ok_big :
  parse nows (regexp_str isd0 cesc e_big) = Some (mkF true false, top_rast cesc e_big).
Proof. vm_compute. reflexivity. Qed.
