(* Non-ASCII escaping is complete, well-formed and reversible.
   a. hex_of_N / dec_of_N round trips (the log2 fuel suffices), digit shape, no leading zero
   b. the form of escape_cp (ASCII / \u{hex} / surrogate pair)
   c. escape_cp only produces ASCII
   d. decode_escapes (escape_cp sur c) = [c] for non-ASCII scalar values *)
From Grex Require Import Base.Str Model.Config Model.Cluster Model.Expr.
From GrexGen Require Import SrcConsts.

Local Open Scope N_scope.
Arguments N.add : simpl never.
Arguments N.sub : simpl never.
Arguments N.mul : simpl never.
Arguments N.div : simpl never.
Arguments N.modulo : simpl never.
Arguments N.pow : simpl never.
Arguments N.shiftr : simpl never.
Arguments N.land : simpl never.
Arguments N.leb : simpl never.
Arguments N.ltb : simpl never.
Arguments N.eqb : simpl never.

Ltac bdestr :=
  repeat match goal with
         | |- context [N.leb ?a ?b] => destruct (N.leb_spec a b)
         | |- context [N.ltb ?a ?b] => destruct (N.ltb_spec a b)
         | |- context [N.eqb ?a ?b] => destruct (N.eqb_spec a b)
         end; cbn [andb orb negb].

(* ------------------------------------------------------------------ *)
(** * a. hexadecimal *)

Definition is_hex (c : cp) : Prop := 48 <= c <= 57 \/ 97 <= c <= 102.

Definition hexval (c : cp) : option N :=
  if (48 <=? c) && (c <=? 57) then Some (c - 48)
  else if (97 <=? c) && (c <=? 102) then Some (c - 87)
  else None.

(* read hex digits, most significant first, until the first non-digit *)
Fixpoint scan_hex (s : str) (acc : N) : N * str :=
  match s with
  | [] => (acc, [])
  | c :: s' => match hexval c with
               | Some d => scan_hex s' (16 * acc + d)
               | None => (acc, s)
               end
  end.

Definition unhex (s : str) : option N :=
  match s with
  | [] => None
  | _ => match scan_hex s 0 with (v, []) => Some v | _ => None end
  end.

Lemma hexval_hex_digit d : d < 16 -> hexval (hex_digit d) = Some d.
Proof.
  intros H. unfold hexval, hex_digit. unfold cp in *.
  destruct (N.ltb_spec d 10).
  - replace ((48 <=? 48 + d) && (48 + d <=? 57)) with true.
    + f_equal. lia.
    + symmetry. apply andb_true_intro. split; apply N.leb_le; lia.
  - replace ((48 <=? 87 + d) && (87 + d <=? 57)) with false.
    + replace ((97 <=? 87 + d) && (87 + d <=? 102)) with true.
      * f_equal. lia.
      * symmetry. apply andb_true_intro. split; apply N.leb_le; lia.
    + symmetry. apply andb_false_intro2. apply N.leb_gt. lia.
Qed.

Lemma is_hex_hex_digit d : d < 16 -> is_hex (hex_digit d).
Proof.
  intros H. unfold is_hex, hex_digit. unfold cp in *.
  destruct (N.ltb_spec d 10); lia.
Qed.

Lemma hex_digit_nonzero d : d < 16 -> d <> 0 -> hex_digit d <> 48.
Proof.
  intros H H0. unfold hex_digit. unfold cp in *. destruct (N.ltb_spec d 10); lia.
Qed.

Lemma div_small_iff n b : b <> 0 -> (n / b = 0 <-> n < b).
Proof.
  intros Hb. split; intros H.
  - pose proof (N.div_mod' n b) as E. pose proof (N.mod_lt n b Hb). rewrite H in E. lia.
  - apply N.div_small; assumption.
Qed.

Lemma hex_digits_spec : forall fuel n acc,
  n < 2 ^ N.of_nat fuel -> (0 < fuel)%nat ->
  exists l, hex_digits fuel n acc = l ++ acc /\ l <> [] /\ Forall is_hex l /\
    (forall a rest, scan_hex (l ++ rest) a = scan_hex rest (a * 16 ^ N.of_nat (length l) + n)) /\
    (n <> 0 -> hd 0 l <> 48) /\ (n = 0 -> l = [48]).
Proof.
  induction fuel as [|f IH]; intros n acc Hn Hf; [lia|].
  cbn [hex_digits].
  assert (Hm : n mod 16 < 16) by (apply N.mod_lt; lia).
  pose proof (N.div_mod' n 16) as Edm.
  destruct (N.eqb_spec (n / 16) 0) as [Hq|Hq].
  - assert (Hlt : n < 16) by (apply div_small_iff in Hq; lia).
    assert (Er : n mod 16 = n) by (apply N.mod_small; exact Hlt).
    rewrite Er.
    exists [hex_digit n]. repeat split.
    + discriminate.
    + constructor; [apply is_hex_hex_digit; exact Hlt|constructor].
    + intros a rest. cbn [app scan_hex]. rewrite hexval_hex_digit by exact Hlt.
      cbn [length]. change (N.of_nat 1) with 1. rewrite N.pow_1_r. f_equal. lia.
    + intros H0. cbn [hd]. apply hex_digit_nonzero; assumption.
    + intros ->. reflexivity.
  - assert (Hlt : ~ n < 16) by (intros X; apply Hq; apply div_small_iff; [lia|exact X]).
    rewrite Nat2N.inj_succ, N.pow_succ_r' in Hn.
    assert (Hf' : (0 < f)%nat).
    { destruct f; [|lia]. change (N.of_nat 0) with 0 in Hn. rewrite N.pow_0_r in Hn. lia. }
    assert (Hq' : n / 16 < 2 ^ N.of_nat f).
    { apply N.div_lt_upper_bound; [lia|]. lia. }
    destruct (IH (n / 16) (hex_digit (n mod 16) :: acc) Hq' Hf')
      as (l' & E & Hne & Hall & Hscan & Hhd & _).
    exists (l' ++ [hex_digit (n mod 16)]). repeat split.
    + rewrite E, <- app_assoc. reflexivity.
    + intros X. apply app_eq_nil in X. destruct X; discriminate.
    + apply Forall_app. split; [exact Hall|].
      constructor; [apply is_hex_hex_digit; exact Hm|constructor].
    + intros a rest. rewrite <- app_assoc, Hscan. cbn [app scan_hex].
      rewrite hexval_hex_digit by exact Hm.
      rewrite app_length. cbn [length]. rewrite Nat2N.inj_add.
      change (N.of_nat 1) with 1. rewrite N.pow_add_r, N.pow_1_r. f_equal.
      set (X := 16 ^ N.of_nat (length l')) in *. lia.
    + intros _. destruct l' as [|x l'']; [congruence|]. cbn [app hd]. cbn [hd] in Hhd.
      apply Hhd. exact Hq.
    + intros ->. exfalso. apply Hq. reflexivity.
Qed.

(* the fuel S (log2 n) suffices *)
Lemma log2_fuel n : n < 2 ^ N.of_nat (S (N.to_nat (N.log2 n))).
Proof.
  rewrite Nat2N.inj_succ, N2Nat.id.
  destruct (N.eq_dec n 0) as [->|Hn].
  - reflexivity.
  - apply N.log2_spec. lia.
Qed.

Lemma hex_of_N_spec n :
  hex_of_N n <> [] /\ Forall is_hex (hex_of_N n) /\
  (forall a rest, scan_hex (hex_of_N n ++ rest) a
                  = scan_hex rest (a * 16 ^ N.of_nat (length (hex_of_N n)) + n)) /\
  (n <> 0 -> hd 0 (hex_of_N n) <> 48) /\ (n = 0 -> hex_of_N n = [48]).
Proof.
  unfold hex_of_N.
  destruct (hex_digits_spec (S (N.to_nat (N.log2 n))) n [] (log2_fuel n)) as (l & E & H);
    [lia|].
  rewrite E, app_nil_r. exact H.
Qed.

Theorem hex_of_N_nonempty n : hex_of_N n <> [].
Proof. apply hex_of_N_spec. Qed.

Theorem hex_of_N_digits n : Forall is_hex (hex_of_N n).
Proof. apply hex_of_N_spec. Qed.

Theorem hex_of_N_no_leading_zero n : n <> 0 -> hd 0 (hex_of_N n) <> 48.
Proof. apply hex_of_N_spec. Qed.

Theorem hex_of_N_zero : hex_of_N 0 = [48].
Proof. reflexivity. Qed.

Lemma scan_hex_hex_of_N n rest a :
  scan_hex (hex_of_N n ++ rest) a = scan_hex rest (a * 16 ^ N.of_nat (length (hex_of_N n)) + n).
Proof. apply hex_of_N_spec. Qed.

Theorem unhex_hex_of_N n : unhex (hex_of_N n) = Some n.
Proof.
  unfold unhex. pose proof (hex_of_N_nonempty n) as Hne.
  destruct (hex_of_N n) as [|x l] eqn:E; [congruence|]. rewrite <- E.
  pose proof (scan_hex_hex_of_N n [] 0) as H. rewrite app_nil_r in H. rewrite H.
  cbn [scan_hex]. rewrite N.mul_0_l, N.add_0_l. reflexivity.
Qed.

(* ------------------------------------------------------------------ *)
(** * a'. decimal *)

Definition is_dec (c : cp) : Prop := 48 <= c <= 57.

Definition decval (c : cp) : option N :=
  if (48 <=? c) && (c <=? 57) then Some (c - 48) else None.

Fixpoint scan_dec (s : str) (acc : N) : N * str :=
  match s with
  | [] => (acc, [])
  | c :: s' => match decval c with
               | Some d => scan_dec s' (10 * acc + d)
               | None => (acc, s)
               end
  end.

Definition undec (s : str) : option N :=
  match s with
  | [] => None
  | _ => match scan_dec s 0 with (v, []) => Some v | _ => None end
  end.

Lemma decval_digit d : d < 10 -> decval (48 + d) = Some d.
Proof.
  intros H. unfold decval. unfold cp in *.
  replace ((48 <=? 48 + d) && (48 + d <=? 57)) with true.
  - f_equal. lia.
  - symmetry. apply andb_true_intro. split; apply N.leb_le; lia.
Qed.

Lemma dec_digits_spec : forall fuel n acc,
  n < 2 ^ N.of_nat fuel -> (0 < fuel)%nat ->
  exists l, dec_digits fuel n acc = l ++ acc /\ l <> [] /\ Forall is_dec l /\
    (forall a rest, scan_dec (l ++ rest) a = scan_dec rest (a * 10 ^ N.of_nat (length l) + n)) /\
    (n <> 0 -> hd 0 l <> 48) /\ (n = 0 -> l = [48]).
Proof.
  induction fuel as [|f IH]; intros n acc Hn Hf; [lia|].
  cbn [dec_digits].
  assert (Hm : n mod 10 < 10) by (apply N.mod_lt; lia).
  pose proof (N.div_mod' n 10) as Edm.
  destruct (N.eqb_spec (n / 10) 0) as [Hq|Hq].
  - assert (Hlt : n < 10) by (apply div_small_iff in Hq; lia).
    assert (Er : n mod 10 = n) by (apply N.mod_small; exact Hlt).
    rewrite Er.
    exists [48 + n]. repeat split.
    + discriminate.
    + constructor; [unfold is_dec; unfold cp in *; lia|constructor].
    + intros a rest. cbn [app scan_dec]. rewrite decval_digit by exact Hlt.
      cbn [length]. change (N.of_nat 1) with 1. rewrite N.pow_1_r. f_equal. lia.
    + intros H0. cbn [hd]. unfold cp in *. lia.
    + intros ->. reflexivity.
  - assert (Hlt : ~ n < 10) by (intros X; apply Hq; apply div_small_iff; [lia|exact X]).
    rewrite Nat2N.inj_succ, N.pow_succ_r' in Hn.
    assert (Hf' : (0 < f)%nat).
    { destruct f; [|lia]. change (N.of_nat 0) with 0 in Hn. rewrite N.pow_0_r in Hn. lia. }
    assert (Hq' : n / 10 < 2 ^ N.of_nat f).
    { apply N.div_lt_upper_bound; [lia|]. lia. }
    destruct (IH (n / 10) ((48 + n mod 10) :: acc) Hq' Hf')
      as (l' & E & Hne & Hall & Hscan & Hhd & _).
    exists (l' ++ [48 + n mod 10]). repeat split.
    + rewrite E, <- app_assoc. reflexivity.
    + intros X. apply app_eq_nil in X. destruct X; discriminate.
    + apply Forall_app. split; [exact Hall|].
      constructor; [|constructor].
      unfold is_dec. generalize dependent (n mod 10). intros r; intros. unfold cp in *. lia.
    + intros a rest. rewrite <- app_assoc, Hscan. cbn [app scan_dec].
      rewrite decval_digit by exact Hm.
      rewrite app_length. cbn [length]. rewrite Nat2N.inj_add.
      change (N.of_nat 1) with 1. rewrite N.pow_add_r, N.pow_1_r. f_equal.
      set (X := 10 ^ N.of_nat (length l')) in *. lia.
    + intros _. destruct l' as [|x l'']; [congruence|]. cbn [app hd]. cbn [hd] in Hhd.
      apply Hhd. exact Hq.
    + intros ->. exfalso. apply Hq. reflexivity.
Qed.

Lemma dec_of_N_spec n :
  dec_of_N n <> [] /\ Forall is_dec (dec_of_N n) /\
  (forall a rest, scan_dec (dec_of_N n ++ rest) a
                  = scan_dec rest (a * 10 ^ N.of_nat (length (dec_of_N n)) + n)) /\
  (n <> 0 -> hd 0 (dec_of_N n) <> 48) /\ (n = 0 -> dec_of_N n = [48]).
Proof.
  unfold dec_of_N.
  destruct (dec_digits_spec (S (N.to_nat (N.log2 n))) n [] (log2_fuel n)) as (l & E & H);
    [lia|].
  rewrite E, app_nil_r. exact H.
Qed.

Theorem dec_of_N_nonempty n : dec_of_N n <> [].
Proof. apply dec_of_N_spec. Qed.

Theorem dec_of_N_digits n : Forall is_dec (dec_of_N n).
Proof. apply dec_of_N_spec. Qed.

Theorem dec_of_N_no_leading_zero n : n <> 0 -> hd 0 (dec_of_N n) <> 48.
Proof. apply dec_of_N_spec. Qed.

Theorem dec_of_N_zero : dec_of_N 0 = [48].
Proof. reflexivity. Qed.

Theorem undec_dec_of_N n : undec (dec_of_N n) = Some n.
Proof.
  unfold undec. pose proof (dec_of_N_nonempty n) as Hne.
  destruct (dec_of_N n) as [|x l] eqn:E; [congruence|]. rewrite <- E.
  destruct (dec_of_N_spec n) as (_ & _ & H & _). specialize (H 0 []).
  rewrite app_nil_r in H. rewrite H.
  cbn [scan_dec]. rewrite N.mul_0_l, N.add_0_l. reflexivity.
Qed.

(* ------------------------------------------------------------------ *)
(** * b. the form of escape_cp *)

Theorem escape_cp_ascii_id sur c : c < 128 -> escape_cp sur c = [c].
Proof.
  intros H. unfold escape_cp. destruct (N.ltb_spec c 128); [reflexivity|lia].
Qed.

Theorem escape_cp_unicode sur c :
  128 <= c -> (sur = false \/ is_astral c = false) ->
  escape_cp sur c = [92; 117; 123] ++ hex_of_N c ++ [125].
Proof.
  intros H H0. unfold escape_cp. destruct (N.ltb_spec c 128); [lia|].
  destruct H0 as [-> | ->]; [|rewrite andb_false_r]; reflexivity.
Qed.

Definition hi_surrogate (c : cp) : cp := 55296 + (c - 65536) / 1024.
Definition lo_surrogate (c : cp) : cp := 56320 + (c - 65536) mod 1024.

Lemma surrogate_bounds c :
  65536 <= c <= 1114111 ->
  55296 <= hi_surrogate c <= 56319 /\ 56320 <= lo_surrogate c <= 57343 /\
  65536 + (hi_surrogate c - 55296) * 1024 + (lo_surrogate c - 56320) = c.
Proof.
  intros Hc. unfold hi_surrogate, lo_surrogate. unfold cp in *.
  set (v := c - 65536).
  assert (Hv : v < 1048576) by (unfold v; lia).
  assert (Hq : v / 1024 < 1024) by (apply N.div_lt_upper_bound; lia).
  assert (Hr : v mod 1024 < 1024) by (apply N.mod_lt; lia).
  pose proof (N.div_mod' v 1024) as E.
  assert (Ev : c = 65536 + v) by (unfold v; lia).
  generalize dependent (v / 1024). intros q Hq E.
  generalize dependent (v mod 1024). intros r Hr E.
  lia.
Qed.

Theorem escape_cp_surrogate c :
  65536 <= c <= 1114111 ->
  astral_inclusive = true -> astral_lo = 65536 -> astral_hi = 1114111 ->
  escape_cp true c = esc_unicode (hi_surrogate c) ++ esc_unicode (lo_surrogate c) /\
  55296 <= hi_surrogate c <= 56319 /\ 56320 <= lo_surrogate c <= 57343 /\
  65536 + (hi_surrogate c - 55296) * 1024 + (lo_surrogate c - 56320) = c.
Proof.
  intros Hc Hinc Hlo Hhi. split; [|apply surrogate_bounds; exact Hc].
  unfold escape_cp. destruct (N.ltb_spec c 128); [lia|].
  assert (Ha : is_astral c = true).
  { unfold is_astral. rewrite Hinc, Hlo, Hhi.
    apply andb_true_intro. split; apply N.leb_le; lia. }
  rewrite Ha. cbn [andb]. unfold hi_surrogate, lo_surrogate.
  rewrite N.shiftr_div_pow2. change (2 ^ 10) with 1024.
  change 1023 with (N.ones 10). rewrite N.land_ones. change (2 ^ 10) with 1024.
  reflexivity.
Qed.

(* the facts about the generated constants are discharged by computation: this corollary
   breaks if the astral range in the source changes (e.g. an exclusive upper bound) *)
Corollary escape_cp_surrogate_full c :
  65536 <= c <= 1114111 ->
  escape_cp true c = esc_unicode (hi_surrogate c) ++ esc_unicode (lo_surrogate c) /\
  55296 <= hi_surrogate c <= 56319 /\ 56320 <= lo_surrogate c <= 57343 /\
  65536 + (hi_surrogate c - 55296) * 1024 + (lo_surrogate c - 56320) = c.
Proof.
  intros Hc. apply escape_cp_surrogate; [exact Hc|reflexivity..].
Qed.

(* ------------------------------------------------------------------ *)
(** * c. escape_cp only produces ASCII *)

Definition ascii (s : str) : Prop := Forall (fun x => x < 128) s.

Lemma ascii_app a b : ascii a -> ascii b -> ascii (a ++ b).
Proof. intros; apply Forall_app; split; assumption. Qed.

Lemma hex_of_N_ascii n : ascii (hex_of_N n).
Proof.
  eapply Forall_impl; [|apply hex_of_N_digits]. unfold is_hex. intros a H. unfold cp in *. lia.
Qed.

Lemma dec_of_N_ascii n : ascii (dec_of_N n).
Proof.
  eapply Forall_impl; [|apply dec_of_N_digits]. unfold is_dec. intros a H. unfold cp in *. lia.
Qed.

Lemma esc_unicode_ascii c : ascii (esc_unicode c).
Proof.
  unfold esc_unicode. apply ascii_app; [|apply ascii_app].
  - repeat constructor.
  - apply hex_of_N_ascii.
  - repeat constructor.
Qed.

Theorem escape_cp_ascii sur c : Forall (fun x => x < 128) (escape_cp sur c).
Proof.
  unfold escape_cp. destruct (N.ltb_spec c 128).
  - constructor; [assumption|constructor].
  - destruct (sur && is_astral c).
    + apply ascii_app; apply esc_unicode_ascii.
    + apply esc_unicode_ascii.
Qed.

(* ------------------------------------------------------------------ *)
(** * d. decoding the escapes *)

Definition starts_hex (s : str) : bool :=
  match s with
  | d :: _ => match hexval d with Some _ => true | None => false end
  | [] => false
  end.

(* a token \u{h..} (at least one lower-case hex digit) at the start of s *)
Definition parse_escape (s : str) : option (N * str) :=
  match s with
  | a :: b :: c :: rest =>
      if (a =? 92) && (b =? 117) && (c =? 123) && starts_hex rest then
        match scan_hex rest 0 with
        | (v, z :: rest') => if z =? 125 then Some (v, rest') else None
        | _ => None
        end
      else None
  | _ => None
  end.

Definition is_hi (v : N) : bool := (55296 <=? v) && (v <=? 56319).
Definition is_lo (v : N) : bool := (56320 <=? v) && (v <=? 57343).

(* every escape is mapped to its code point, a high+low surrogate escape pair to the single
   code point it encodes; everything else is left alone *)
Fixpoint decode_fuel (fuel : nat) (s : str) : str :=
  match fuel with
  | O => s
  | S f =>
      match s with
      | [] => []
      | x :: s' =>
          match parse_escape s with
          | Some (v, rest) =>
              if is_hi v then
                match parse_escape rest with
                | Some (w, rest2) =>
                    if is_lo w
                    then (65536 + (v - 55296) * 1024 + (w - 56320)) :: decode_fuel f rest2
                    else v :: decode_fuel f rest
                | None => v :: decode_fuel f rest
                end
              else v :: decode_fuel f rest
          | None => x :: decode_fuel f s'
          end
      end
  end.

Definition decode_escapes (s : str) : str := decode_fuel (length s) s.

Lemma decode_fuel_nil f : decode_fuel f [] = [].
Proof. destruct f; reflexivity. Qed.

Lemma decode_fuel_S f x s' :
  decode_fuel (S f) (x :: s') =
  match parse_escape (x :: s') with
  | Some (v, rest) =>
      if is_hi v then
        match parse_escape rest with
        | Some (w, rest2) =>
            if is_lo w
            then (65536 + (v - 55296) * 1024 + (w - 56320)) :: decode_fuel f rest2
            else v :: decode_fuel f rest
        | None => v :: decode_fuel f rest
        end
      else v :: decode_fuel f rest
  | None => x :: decode_fuel f s'
  end.
Proof. reflexivity. Qed.

Lemma esc_unicode_cons v rest :
  esc_unicode v ++ rest = 92 :: 117 :: 123 :: (hex_of_N v ++ 125 :: rest).
Proof. unfold esc_unicode. rewrite <- !app_assoc. reflexivity. Qed.

Lemma is_hex_hexval x : is_hex x -> exists d, hexval x = Some d.
Proof.
  intros H. unfold hexval. unfold is_hex in H. unfold cp in *.
  destruct ((48 <=? x) && (x <=? 57)) eqn:E1; [eauto|].
  destruct ((97 <=? x) && (x <=? 102)) eqn:E2; [eauto|].
  exfalso. destruct H as [H|H].
  - apply andb_false_iff in E1. rewrite !N.leb_gt in E1. lia.
  - apply andb_false_iff in E2. rewrite !N.leb_gt in E2. lia.
Qed.

Lemma parse_escape_esc_unicode v rest : parse_escape (esc_unicode v ++ rest) = Some (v, rest).
Proof.
  rewrite esc_unicode_cons. unfold parse_escape.
  rewrite !N.eqb_refl. cbn [andb].
  assert (Hs : starts_hex (hex_of_N v ++ 125 :: rest) = true).
  { pose proof (hex_of_N_nonempty v) as Hne. pose proof (hex_of_N_digits v) as Hd.
    destruct (hex_of_N v) as [|x l]; [congruence|]. inversion Hd; subst.
    cbn [app starts_hex]. destruct (is_hex_hexval x) as [d ->]; [assumption|reflexivity]. }
  rewrite Hs. rewrite scan_hex_hex_of_N. rewrite N.mul_0_l, N.add_0_l.
  cbn [scan_hex]. change (hexval 125) with (@None N). cbv iota.
  rewrite N.eqb_refl. reflexivity.
Qed.

Lemma decode_single f v :
  is_hi v = false -> decode_fuel (S f) (esc_unicode v) = [v].
Proof.
  intros Hv. rewrite <- (app_nil_r (esc_unicode v)).
  rewrite esc_unicode_cons, decode_fuel_S, <- esc_unicode_cons.
  rewrite parse_escape_esc_unicode, Hv, decode_fuel_nil. reflexivity.
Qed.

Lemma decode_pair f v w :
  is_hi v = true -> is_lo w = true ->
  decode_fuel (S f) (esc_unicode v ++ esc_unicode w) =
  [65536 + (v - 55296) * 1024 + (w - 56320)].
Proof.
  intros Hv Hw.
  rewrite esc_unicode_cons, decode_fuel_S, <- esc_unicode_cons.
  rewrite parse_escape_esc_unicode, Hv.
  rewrite <- (app_nil_r (esc_unicode w)).
  rewrite parse_escape_esc_unicode, Hw, decode_fuel_nil. reflexivity.
Qed.

(* a lone escape decodes to its code point even if that is a surrogate value (it is only
   re-paired when a low surrogate escape follows) *)
Lemma decode_single_any f v : decode_fuel (S f) (esc_unicode v) = [v].
Proof.
  rewrite <- (app_nil_r (esc_unicode v)).
  rewrite esc_unicode_cons, decode_fuel_S, <- esc_unicode_cons.
  rewrite parse_escape_esc_unicode, decode_fuel_nil.
  destruct (is_hi v); reflexivity.
Qed.

Lemma esc_unicode_length v : exists n, length (esc_unicode v) = S n.
Proof. unfold esc_unicode. cbn [app length]. eauto. Qed.

Theorem escape_decode_gen sur c :
  (sur = true -> astral_inclusive = true /\ astral_lo = 65536 /\ astral_hi = 1114111) ->
  128 <= c -> (c < 55296 \/ 57344 <= c <= 1114111) ->
  decode_escapes (escape_cp sur c) = [c].
Proof.
  intros Hconst Hc Hscalar. unfold decode_escapes.
  destruct (sur && is_astral c) eqn:E.
  - apply andb_prop in E. destruct E as [-> Ha].
    destruct (Hconst eq_refl) as (Hinc & Hlo & Hhi).
    assert (Hr : 65536 <= c <= 1114111).
    { unfold is_astral in Ha. rewrite Hinc, Hlo, Hhi in Ha.
      apply andb_prop in Ha. destruct Ha as [A B].
      apply N.leb_le in A. apply N.leb_le in B. split; assumption. }
    destruct (escape_cp_surrogate c Hr Hinc Hlo Hhi) as (-> & Hh & Hl & Hrt).
    rewrite app_length. destruct (esc_unicode_length (hi_surrogate c)) as [n ->].
    cbn [Nat.add]. rewrite decode_pair.
    + rewrite Hrt. reflexivity.
    + unfold is_hi. apply andb_true_intro. split; apply N.leb_le; apply Hh.
    + unfold is_lo. apply andb_true_intro. split; apply N.leb_le; apply Hl.
  - rewrite escape_cp_unicode.
    + fold (esc_unicode c). destruct (esc_unicode_length c) as [n ->].
      apply decode_single. unfold is_hi. apply andb_false_iff. rewrite !N.leb_gt.
      unfold cp in *. lia.
    + exact Hc.
    + apply andb_false_iff in E. exact E.
Qed.

(* the constants facts are discharged by computation *)
Theorem escape_decode sur c :
  128 <= c -> (c < 55296 \/ 57344 <= c <= 1114111) ->
  decode_escapes (escape_cp sur c) = [c].
Proof.
  apply escape_decode_gen. intros _. repeat split.
Qed.

Print Assumptions unhex_hex_of_N.
Print Assumptions undec_dec_of_N.
Print Assumptions escape_cp_surrogate_full.
Print Assumptions escape_cp_ascii.
Print Assumptions escape_decode.

(* summary *)
Check unhex_hex_of_N.
Check hex_of_N_digits.
Check hex_of_N_nonempty.
Check hex_of_N_no_leading_zero.
Check hex_of_N_zero.
Check log2_fuel.
Check hex_digits_spec.
Check undec_dec_of_N.
Check dec_of_N_digits.
Check dec_of_N_nonempty.
Check dec_of_N_no_leading_zero.
Check dec_of_N_zero.
Check escape_cp_ascii_id.
Check escape_cp_unicode.
Check escape_cp_surrogate.
Check escape_cp_surrogate_full.
Check escape_cp_ascii.
Check parse_escape_esc_unicode.
Check decode_single_any.
Check escape_decode_gen.
Check escape_decode.
