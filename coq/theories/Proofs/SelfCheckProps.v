(* Facts about the self-check as computed inside the model (Model/SelfCheck.v). *)
From Grex Require Import Base.Str Model.Config Model.Cluster Model.Dfa Model.Expr Model.Print
  Model.Pipeline Model.SelfCheck.
From Grex Require Import Engine.Syntax Engine.Parse.
From Grex Require Import Proofs.NormaliseDet.

(* the control flow of RegExp::from as a function of the verdicts *)
Lemma sc_decide_skipped : forall n v1 v2, sc_decide n v1 v2 = SCSkipped <-> v1 = None.
Proof.
  intros n v1 v2. unfold sc_decide. destruct v1 as [ok1|]; [|tauto].
  destruct (Nat.ltb 1 n && ok1); [split; discriminate|].
  destruct (v2 tt) as [[|]|]; split; discriminate.
Qed.

Lemma sc_decide_pass1 : forall n v1 v2,
  sc_decide n v1 v2 = SCPass1 <-> v1 = Some true /\ 1 < n.
Proof.
  intros n v1 v2. unfold sc_decide. destruct v1 as [ok1|].
  - destruct (Nat.ltb 1 n) eqn:Hn; destruct ok1; cbn [andb].
    + apply Nat.ltb_lt in Hn. split; [intros _; split; [reflexivity|exact Hn]|reflexivity].
    + destruct (v2 tt) as [[|]|]; split; try discriminate; intros [H _]; discriminate.
    + apply Nat.ltb_ge in Hn.
      destruct (v2 tt) as [[|]|]; split; try discriminate; intros [_ H]; lia.
    + destruct (v2 tt) as [[|]|]; split; try discriminate; intros [H _]; discriminate.
  - split; [discriminate|intros [H _]; discriminate].
Qed.

(* `for _ in 1..test_cases.len()`: with a single test case the first candidate is never accepted *)
Lemma sc_decide_single : forall n v1 v2, n <= 1 -> sc_decide n v1 v2 <> SCPass1.
Proof. intros n v1 v2 Hn H. apply sc_decide_pass1 in H. lia. Qed.

Lemma sc_decide_pass2 : forall n v1 v2,
  sc_decide n v1 v2 = SCPass2 ->
  exists ok1, v1 = Some ok1 /\ (Nat.ltb 1 n && ok1 = false) /\ v2 tt = Some true.
Proof.
  intros n v1 v2. unfold sc_decide. destruct v1 as [ok1|]; [|discriminate].
  destruct (Nat.ltb 1 n && ok1) eqn:E; [discriminate|].
  destruct (v2 tt) as [[|]|] eqn:E2; try discriminate.
  intros _. exists ok1. split; [reflexivity|]. split; [exact E|reflexivity].
Qed.

Section P.
  Variable isd is_ws : cp -> bool.

  (* the computed outcome is one of the outcomes the property theorems quantify over: every theorem
     about  build isd c db sc ws  (all sc) applies to build_closed *)
  Theorem build_closed_build : forall c db ws s,
    build_closed isd is_ws c db ws = Some s ->
    exists sc, build isd c db sc ws = Some s
      /\ (f_no_start c && f_no_end c = true ->
          sc_ref isd is_ws c (grapheme_clusters c db (normalise c db ws)) (normalise c db ws) = Some sc).
  Proof.
    intros c db ws s H. unfold build_closed in H.
    destruct (f_no_start c && f_no_end c) eqn:Hf.
    - destruct (sc_ref isd is_ws c _ _) as [sc|] eqn:Hsc; [|discriminate].
      exists sc. split; [exact H|intros _; reflexivity].
    - exists SCPass1. split; [exact H|discriminate].
  Qed.

  (* build_closed reads the test cases only through their normal form: order and duplicates of
     the list are irrelevant to the self-check and to everything after it *)
  Theorem build_closed_normal : forall c db ws ws',
    normalise c db ws = normalise c db ws' ->
    build_closed isd is_ws c db ws = build_closed isd is_ws c db ws'.
  Proof.
    intros c db ws ws' H. unfold build_closed, build. rewrite H. reflexivity.
  Qed.

  (* ... hence: same SET of test cases, same result, self-check included *)
  Theorem build_closed_perm : forall c db ws1 ws2,
    (forall x, In x ws1 <-> In x ws2) ->
    build_closed isd is_ws c db ws1 = build_closed isd is_ws c db ws2.
  Proof.
    intros c db ws1 ws2 H. apply build_closed_normal. exact (normalise_perm c db ws1 ws2 H).
  Qed.

  (* a single (normalised) test case: the minimised candidate is never the one accepted *)
  Theorem sc_ref_single : forall c cls tcs,
    length tcs <= 1 -> sc_ref isd is_ws c cls tcs <> Some SCPass1.
  Proof.
    intros c cls tcs Hn H. unfold sc_ref in H.
    destruct (dfa_from cls true) as [d1|]; [|discriminate].
    destruct (expr_from c d1) as [e1|]; [|discriminate].
    destruct (parse is_ws (cand_str isd c e1)); [|discriminate].
    destruct (all_count1 is_ws (cand1_str isd c e1) tcs) as [ok1|]; [|discriminate].
    injection H as H1.
    destruct (Nat.ltb 1 (length tcs)) eqn:E; [apply Nat.ltb_lt in E; lia|].
    cbn [andb] in H1.
    match type of H1 with (match ?x with _ => _ end) = _ => destruct x as [[|]|]; discriminate end.
  Qed.

  (* with an anchor in place the self-check is not consulted *)
  Theorem build_closed_anchored : forall c db ws sc,
    f_no_start c && f_no_end c = false ->
    build_closed isd is_ws c db ws = build isd c db sc ws.
  Proof.
    intros c db ws sc Hf. unfold build_closed, build, final_expr. rewrite Hf. reflexivity.
  Qed.
End P.

(* WHY THE SELF-CHECK IS NOT ENOUGH (the observation behind property C08 and known finding K2):
   `find_iter(tc).count() == 1` is satisfied by a too-short match followed by unmatched text.
   a|ab on "ab": one match, (0,1). *)
From Grex Require Import Engine.Exec Engine.Prio.
Example count1_not_whole :
  let r := RAlt (RLit 97%N) (RCat (RLit 97%N) (RLit 98%N)) in
  find_iter_count lit_cs (fun _ _ => false) range_cs [97; 98]%N r = 1
  /\ find_first lit_cs (fun _ _ => false) range_cs [97; 98]%N r = Some (0, 1).
Proof. vm_compute. split; reflexivity. Qed.

(* find_iter on an optional: (?:a)? on "bb" reports three empty matches, on "a" one match *)
Example count_optional :
  let r := RRep (RGroup false (RLit 97%N)) 0 (Some 1%N) in
  find_iter_count lit_cs (fun _ _ => false) range_cs [98; 98]%N r = 3
  /\ find_iter_count lit_cs (fun _ _ => false) range_cs [97]%N r = 1.
Proof. vm_compute. split; reflexivity. Qed.

Print Assumptions build_closed_build.
Print Assumptions build_closed_normal.
Print Assumptions build_closed_perm.
Print Assumptions sc_ref_single.
Print Assumptions build_closed_anchored.
