(* Printing theorem, verbose mode, part 2: simulation.  If the parser model accepts s without the x
   flag, then under (?x) it accepts every verbose rendering s' of s (XS), with the same fuel, and
   builds the same AST. *)
From Grex Require Import Base.Str Base.Ranges Model.Config Model.Expr Model.Print.
From Grex Require Import Engine.Syntax Engine.Parse.
From Grex Require Import Proofs.EscapeProps Proofs.PrintParseNum Proofs.PrintParseStep Proofs.VerboseWs
  Proofs.PrintParseXTok.
From GrexGen Require Import OracleTables SrcConsts.
Local Open Scope N_scope.

Section Sim.
  Variable is_ws : cp -> bool.
  Hypothesis Hws : ws_x is_ws.

  Notation bump := (bump is_ws).
  Notation p_seq := (p_seq is_ws).
  Notation pci := (parse_class_items is_ws).

  (* ---------- escapes: the x argument is not used ---------- *)
  Lemma parse_escape_x : forall x s, Parse.parse_escape x s = Parse.parse_escape false s.
  Proof. reflexivity. Qed.

  (* a one-character escape does not look at what follows *)
  Lemma parse_escape_uniform : forall z, z <> 117 ->
    exists o : option esc, forall r,
      Parse.parse_escape false (z :: r) = match o with Some e => Some (e, r) | None => None end.
  Proof.
    intros z Hz. unfold Parse.parse_escape.
    destruct (is_meta z); [exists (Some (EscLit z)); reflexivity|].
    destruct (N.eqb z 110); [exists (Some (EscLit 10)); reflexivity|].
    destruct (N.eqb z 114); [exists (Some (EscLit 13)); reflexivity|].
    destruct (N.eqb z 116); [exists (Some (EscLit 9)); reflexivity|].
    destruct (N.eqb z 118); [exists (Some (EscLit 11)); reflexivity|].
    destruct (N.eqb z 102); [exists (Some (EscLit 12)); reflexivity|].
    destruct (N.eqb z 32); [exists (Some (EscLit 32)); reflexivity|].
    destruct (mem_cp z [100; 68; 115; 83; 119; 87]); [exists (Some (EscPerl z)); reflexivity|].
    apply N.eqb_neq in Hz. rewrite Hz. exists None. reflexivity.
  Qed.

  (* \u{h..} does not look at what follows the closing brace *)
  Lemma parse_escape_ubrace : forall hs, Forall (fun d => Parse.is_hex d = true) hs ->
    exists o : option esc, forall r,
      Parse.parse_escape false (117 :: 123 :: hs ++ 125 :: r)
      = match o with Some e => Some (e, r) | None => None end.
  Proof.
    intros hs Hh.
    assert (E : forall r, Parse.parse_escape false (117 :: 123 :: hs ++ 125 :: r)
              = match hs with
                | _ :: _ =>
                    if Nat.leb (length hs) 8%nat then
                      if is_scalar_value (num_of 16 Parse.hexval hs)
                      then Some (EscLit (num_of 16 Parse.hexval hs), r) else None
                    else None
                | [] => None
                end).
    { intros r. unfold Parse.parse_escape.
      change (is_meta 117) with false. change (N.eqb 117 110) with false.
      change (N.eqb 117 114) with false. change (N.eqb 117 116) with false.
      change (N.eqb 117 118) with false. change (N.eqb 117 102) with false.
      change (N.eqb 117 32) with false.
      change (mem_cp 117 [100; 68; 115; 83; 119; 87]) with false.
      change (N.eqb 117 117) with true. change (N.eqb 123 123) with true. cbn iota.
      rewrite take_while_app_stop by (exact Hh || reflexivity).
      destruct hs as [|d l]; [reflexivity|].
      change (N.eqb 125 125) with true. cbn [andb]. reflexivity. }
    destruct hs as [|d l].
    - exists None. intros r. rewrite E. reflexivity.
    - destruct (Nat.leb (length (d :: l)) 8%nat) eqn:E8.
      + destruct (is_scalar_value (num_of 16 Parse.hexval (d :: l))) eqn:Es.
        * eexists (Some _). intros r. rewrite E. reflexivity.
        * exists None. intros r. rewrite E. reflexivity.
      + exists None. intros r. rewrite E. reflexivity.
  Qed.

  (* ---------- counted repetitions under any flag ---------- *)
  Lemma ws_ok_of_x : ws_ok is_ws.
  Proof.
    intros c Hc. rewrite Hws.
    assert (Hs : solid c); [|apply Hs].
    destruct Hc as [Hc|[->| ->]]; [apply solid_dec; exact Hc|solid_c|solid_c].
  Qed.

  Lemma bump_dec : forall x n r, bump x (dec_of_N n ++ r) = dec_of_N n ++ r.
  Proof.
    intros x n r. destruct (dec_of_N_cons n) as (d & l & E & Hd). rewrite E. cbn [app].
    apply (bump_any is_ws Hws). apply solid_dec. exact Hd.
  Qed.

  Lemma parse_counted_n_x : forall x n r,
    parse_counted is_ws x (dec_of_N n ++ 125 :: r) = Some (n, Some n, r).
  Proof.
    intros x n r. rewrite <- (parse_counted_n is_ws ws_ok_of_x n r).
    unfold parse_counted. rewrite bump_dec. cbn [Parse.bump].
    rewrite trim_ws_dec by apply ws_ok_of_x.
    rewrite take_while_app_stop by (apply dec_of_N_all_digit || reflexivity).
    rewrite (trim_ws_id is_ws ws_ok_of_x) by (right; right; reflexivity).
    rewrite (bump_any is_ws Hws) by solid_c. reflexivity.
  Qed.

  Lemma parse_counted_mn_x : forall x a b r,
    parse_counted is_ws x (dec_of_N a ++ 44 :: dec_of_N b ++ 125 :: r)
    = parse_counted is_ws false (dec_of_N a ++ 44 :: dec_of_N b ++ 125 :: r).
  Proof.
    intros x a b r. unfold parse_counted. rewrite bump_dec. cbn [Parse.bump].
    rewrite trim_ws_dec by apply ws_ok_of_x.
    rewrite take_while_app_stop by (apply dec_of_N_all_digit || reflexivity).
    rewrite (trim_ws_id is_ws ws_ok_of_x) by (right; left; reflexivity).
    rewrite (bump_any is_ws Hws) by solid_c.
    change (N.eqb 44 125) with false. change (N.eqb 44 44) with true. cbn iota.
    rewrite bump_dec. rewrite trim_ws_dec by apply ws_ok_of_x.
    rewrite take_while_app_stop by (apply dec_of_N_all_digit || reflexivity).
    rewrite (trim_ws_id is_ws ws_ok_of_x) by (right; right; reflexivity).
    rewrite (bump_any is_ws Hws) by solid_c. reflexivity.
  Qed.

  (* the result of a two-number repetition does not depend on what follows *)
  Lemma parse_counted_mn_uniform : forall a b, exists o : option (N * option N), forall r,
    parse_counted is_ws false (dec_of_N a ++ 44 :: dec_of_N b ++ 125 :: r)
    = match o with Some p => Some (p, r) | None => None end.
  Proof.
    intros a b. destruct (N.leb_spec a b) as [Hab|Hab].
    - exists (Some (a, Some b)). intros r. apply (parse_counted_mn is_ws ws_ok_of_x). exact Hab.
    - exists None. intros r. unfold parse_counted. cbn [Parse.bump].
      rewrite trim_ws_dec by apply ws_ok_of_x.
      rewrite take_while_app_stop by (apply dec_of_N_all_digit || reflexivity).
      destruct (dec_of_N_cons a) as (d & l & E & Hd).
      rewrite (trim_ws_id is_ws ws_ok_of_x) by (right; left; reflexivity).
      rewrite E at 1. rewrite num_of_dec.
      change (N.eqb 44 125) with false. change (N.eqb 44 44) with true. cbn iota.
      rewrite trim_ws_dec by apply ws_ok_of_x.
      rewrite take_while_app_stop by (apply dec_of_N_all_digit || reflexivity).
      rewrite (trim_ws_id is_ws ws_ok_of_x) by (right; right; reflexivity).
      change (N.eqb 125 125) with true. cbn iota.
      destruct (dec_of_N_cons b) as (d2 & l2 & E2 & Hd2).
      rewrite E2 at 1. rewrite num_of_dec.
      replace (a <=? b) with false by (symmetry; apply N.leb_gt; exact Hab). reflexivity.
  Qed.

  (* ---------- bump_space is idempotent ---------- *)
  Lemma skip_comment_len : forall s, (length (skip_comment s) <= length s)%nat.
  Proof.
    induction s as [|c s IH]; [apply Nat.le_refl|]. cbn [skip_comment length].
    destruct (N.eqb c 10); lia.
  Qed.

  Lemma skip_space_stop : forall n s, (length s <= n)%nat ->
    match skip_space is_ws n s with [] => True | y :: _ => solid y end.
  Proof.
    induction n as [|n IH]; intros s Hn.
    - destruct s; [exact I|cbn [length] in Hn; lia].
    - destruct s as [|c s]; [exact I|]. cbn [skip_space]. cbn [length] in Hn.
      destruct (is_ws c) eqn:Ec; [apply IH; lia|].
      destruct (N.eqb_spec c 35) as [->|Hc].
      + apply IH. pose proof (skip_comment_len s). lia.
      + split; [rewrite <- Hws; exact Ec|exact Hc].
  Qed.

  Lemma bump_idem : forall x s, bump x (bump x s) = bump x s.
  Proof.
    intros [|] s; [|reflexivity].
    pose proof (skip_space_stop (length s) s (Nat.le_refl _)) as H.
    change (skip_space is_ws (length s) s) with (bump true s) in H.
    destruct (bump true s) as [|y r]; [reflexivity|]. apply (bump_solid is_ws Hws). exact H.
  Qed.

  Lemma p_seq_bump : forall f x top s racc ralts,
    p_seq f x top s racc ralts = p_seq f x top (bump x s) racc ralts.
  Proof.
    intros [|f] x top s racc ralts; [reflexivity|]. cbn [Parse.p_seq]. rewrite bump_idem. reflexivity.
  Qed.

  Lemma pci_bump : forall f x s acc, pci f x s acc = pci f x (bump x s) acc.
  Proof.
    intros [|f] x s acc; [reflexivity|]. cbn [parse_class_items]. rewrite bump_idem. reflexivity.
  Qed.

  (* ---------- bracket classes: the loop body, named ---------- *)
  Definition item_of (c : cp) (s' : str) : option (cp * str) :=
    if N.eqb c 92 then
      match Parse.parse_escape false s' with
      | Some (EscLit l, r) => Some (l, r)
      | _ => None
      end
    else if mem_cp c [91; 94; 45] then None
    else if mem_cp c [38; 126] then
      (match s' with d :: _ => if N.eqb d c then None else Some (c, s') | [] => Some (c, s') end)
    else Some (c, s').

  Definition cont (f : nat) (x : bool) (lo : cp) (r : str) (acc : list (cp * cp)) :=
    match bump x r with
    | d :: r2 =>
        if N.eqb d 45 then
          match bump x r2 with
          | e :: r3 =>
              match (if N.eqb e 93 then None else item_of e r3) with
              | Some (hi, r4) => if N.leb lo hi then pci f x r4 ((lo, hi) :: acc) else None
              | None => None
              end
          | [] => None
          end
        else pci f x r ((lo, lo) :: acc)
    | [] => None
    end.

  Lemma pci_unfold : forall f x s acc,
    pci (S f) x s acc
    = match bump x s with
      | [] => None
      | c :: s' =>
          if N.eqb c 93 then (match acc with [] => None | _ => Some (rev acc, s') end)
          else match item_of c s' with
               | None => None
               | Some (lo, r) => cont f x lo r acc
               end
      end.
  Proof.
    intros f x s acc. cbn [parse_class_items]. destruct (bump x s) as [|c s']; [reflexivity|].
    destruct (N.eqb c 93); [reflexivity|]. unfold item_of. rewrite parse_escape_x.
    match goal with |- match ?I with _ => _ end = match ?J with _ => _ end =>
      replace J with I by reflexivity; destruct I as [[lo r]|]; [|reflexivity] end.
    unfold cont. destruct (bump x r) as [|d r2]; [reflexivity|].
    destruct (N.eqb d 45); [|reflexivity].
    destruct (bump x r2) as [|e r3]; [reflexivity|].
    unfold item_of. rewrite parse_escape_x.
    destruct (N.eqb_spec e 93) as [->|He]; [reflexivity|].
    destruct (N.eqb e 92); [reflexivity|].
    cbn [mem_cp]. apply N.eqb_neq in He. rewrite He. reflexivity.
  Qed.

  (* ---------- one class item ---------- *)
  Lemma item_sim : forall t t' m2 s1 s1', tok Cls Cls t t' -> XS Cls m2 s1 s1' ->
    exists c0 r0 c1 r1, t ++ s1 = c0 :: r0 /\ t' ++ s1' = c1 :: r1 /\ c0 <> 93 /\ c1 <> 93 /\
      forall lo r, item_of c0 r0 = Some (lo, r) -> r = s1 /\ item_of c1 r1 = Some (lo, s1').
  Proof.
    intros t t' m2 s1 s1' Ht Hs.
    inversion Ht as [m y Htop| y Hsol Hm | m y Hy Hn | m z Hz Hsol | m hs Hh | | | | | | ]; subst;
      try discriminate.
    - (* raw member *)
      exists y, s1, y, s1'. cbn [mem_cp] in Hm.
      apply orb_false_elim in Hm. destruct Hm as [H92 Hm]. apply orb_false_elim in Hm. destruct Hm as [H93 _].
      split; [reflexivity|]. split; [reflexivity|].
      split; [apply N.eqb_neq; exact H93|]. split; [apply N.eqb_neq; exact H93|].
      intros lo r Hit. unfold item_of in Hit |- *. rewrite H92 in *.
      destruct (mem_cp y [91; 94; 45]); [discriminate Hit|].
      destruct (mem_cp y [38; 126]) eqn:Eamp; [|inversion Hit; split; reflexivity].
      assert (Hne : forall d s0, s1 = d :: s0 -> d <> y).
      { intros d s0 ->. destruct (N.eqb_spec d y) as [Ed|Ed]; [discriminate Hit|exact Ed]. }
      assert (Hy2 : y <> 92) by (apply N.eqb_neq; exact H92).
      pose proof (XS_hd_ne _ _ _ _ y Hs Hsol Hy2 Hne) as Hne'.
      assert (Elo : lo = y /\ r = s1).
      { destruct s1 as [|d s1]; [inversion Hit; split; reflexivity|].
        destruct (N.eqb d y); [discriminate Hit|inversion Hit; split; reflexivity]. }
      destruct Elo as [-> ->]. split; [reflexivity|].
      destruct s1' as [|d' s1']; [reflexivity|].
      specialize (Hne' d' s1' eq_refl). apply N.eqb_neq in Hne'. rewrite Hne'. reflexivity.
    - (* content whitespace / # *)
      destruct (vimg_ws_shape y Hy Hn) as (tl_ & E & Hpe & _). rewrite E.
      exists y, s1, 92, (tl_ ++ s1'). cbn [app].
      assert (Hnot : forall q, solid q -> y <> q).
      { intros q Hq ->. eapply ws_not_solid; eauto. }
      split; [reflexivity|]. split; [reflexivity|].
      split; [apply Hnot; solid_c|]. split; [discriminate|].
      intros lo r Hit. unfold item_of in Hit |- *.
      replace (N.eqb y 92) with false in Hit by (symmetry; apply N.eqb_neq, Hnot; solid_c).
      replace (mem_cp y [91; 94; 45]) with false in Hit.
      2:{ symmetry. cbn [mem_cp]. rewrite !orb_false_iff. repeat split; try (apply N.eqb_neq, Hnot; solid_c). }
      replace (mem_cp y [38; 126]) with false in Hit.
      2:{ symmetry. cbn [mem_cp]. rewrite !orb_false_iff. repeat split; try (apply N.eqb_neq, Hnot; solid_c). }
      inversion Hit; subst. split; [reflexivity|].
      change (N.eqb 92 92) with true. cbv iota.
      rewrite <- parse_escape_x with (x := true). rewrite Hpe. reflexivity.
    - (* one-character escape *)
      exists 92, (z :: s1), 92, (z :: s1'). cbn [app].
      destruct (parse_escape_uniform z Hz) as [o Ho].
      split; [reflexivity|]. split; [reflexivity|]. split; [discriminate|]. split; [discriminate|].
      intros lo r Hit. unfold item_of in Hit |- *. change (N.eqb 92 92) with true in *. cbv iota in *.
      rewrite Ho in *. destruct o as [[l|l]|]; try discriminate Hit. inversion Hit; split; reflexivity.
    - (* \u{...} *)
      exists 92, (117 :: 123 :: hs ++ 125 :: s1), 92, (117 :: 123 :: hs ++ 125 :: s1').
      cbn [app]. rewrite <- !app_assoc. cbn [app].
      destruct (parse_escape_ubrace hs Hh) as [o Ho].
      split; [reflexivity|]. split; [reflexivity|]. split; [discriminate|]. split; [discriminate|].
      intros lo r Hit. unfold item_of in Hit |- *. change (N.eqb 92 92) with true in *. cbv iota in *.
      rewrite Ho in *. destruct o as [[l|l]|]; try discriminate Hit. inversion Hit; split; reflexivity.
  Qed.

  (* a token starting a class item, or the closing bracket *)
  Lemma tok_cls_cases : forall m t t', tok Cls m t t' ->
    (m = Cls /\ tok Cls Cls t t') \/ (m = Top /\ t = [93] /\ t' = [93]).
  Proof.
    intros m t t' H. inversion H; subst; try discriminate;
      try (left; split; [reflexivity|assumption]).
    right. repeat split; reflexivity.
  Qed.

  (* ---------- simulation: bracket classes ---------- *)
  Lemma cls_sim : forall f s s' acc items r,
    XS Cls Top s s' -> pci f false s acc = Some (items, r) ->
    exists r', pci f true s' acc = Some (items, r') /\ XS Top Top r r'.
  Proof.
    induction f as [|f IH]; intros s s' acc items r Hs Hp; [discriminate Hp|].
    rewrite pci_bump. rewrite pci_unfold in Hp |- *. rewrite bump_idem. cbn [Parse.bump] in Hp.
    destruct (XS_hd is_ws Hws _ _ _ _ Hs) as [(-> & _ & _)|(m & t & t' & s1 & s1' & -> & Eb & Ht & Hs1)];
      [discriminate Hp|].
    rewrite Eb. clear Eb.
    destruct (tok_cls_cases _ _ _ Ht) as [[-> Ht']|(-> & -> & ->)].
    2:{ (* ] *)
      cbn [app] in Hp |- *. change (N.eqb 93 93) with true in *. cbv iota in *.
      destruct acc as [|p acc]; [discriminate Hp|]. inversion Hp; subst.
      exists s1'. split; [reflexivity|exact Hs1]. }
    destruct (item_sim _ _ _ _ _ Ht' Hs1) as (c0 & r0 & c1 & r1 & E0 & E1 & H0 & H1 & Hitem).
    rewrite E0 in Hp. rewrite E1.
    apply N.eqb_neq in H0. apply N.eqb_neq in H1. rewrite H0 in Hp. rewrite H1.
    destruct (item_of c0 r0) as [[lo rr]|] eqn:Ei; [|discriminate Hp].
    destruct (Hitem lo rr eq_refl) as [-> Ei']. rewrite Ei'. clear Hitem Ei Ei' E0 E1 H0 H1 Ht Ht'.
    (* the continuation *)
    unfold cont in Hp |- *. cbn [Parse.bump] in Hp.
    destruct (XS_hd is_ws Hws _ _ _ _ Hs1) as [(-> & _ & _)|(m & t2 & t2' & s2 & s2' & -> & Eb & Ht2 & Hs2)];
      [discriminate Hp|].
    rewrite Eb.
    destruct (tok_hd _ _ _ _ Ht2) as (d & t20 & d' & t20' & Et2 & Et2' & Hd' & Hdd).
    destruct (N.eqb_spec d 45) as [Ed|Ed].
    - (* a range *)
      subst d.
      assert (Hhy : t2 = [45] /\ t2' = [45] /\ m = Cls).
      { destruct Hdd as [->|[_ Hns]]; [|exfalso; apply Hns; solid_c].
        subst t2 t2'. inversion Ht2; subst; try discriminate.
        - repeat split; reflexivity.
        - exfalso. eapply ws_not_solid; [eassumption|solid_c]. }
      destruct Hhy as (-> & -> & ->). cbn [app] in Hp |- *.
      change (N.eqb 45 45) with true in *. cbv iota in *.
      destruct (XS_hd is_ws Hws _ _ _ _ Hs2) as [(-> & _ & _)|(m & t3 & t3' & s3 & s3' & -> & Eb3 & Ht3 & Hs3)];
        [discriminate Hp|].
      rewrite Eb3.
      destruct (tok_cls_cases _ _ _ Ht3) as [[-> Ht3']|(-> & -> & ->)].
      2:{ cbn [app] in Hp. change (N.eqb 93 93) with true in Hp. discriminate Hp. }
      destruct (item_sim _ _ _ _ _ Ht3' Hs3) as (e0 & q0 & e1 & q1 & E0 & E1 & H0 & H1 & Hitem).
      rewrite E0 in Hp. rewrite E1.
      apply N.eqb_neq in H0. apply N.eqb_neq in H1. rewrite H0 in Hp. rewrite H1.
      destruct (item_of e0 q0) as [[hi rr]|] eqn:Ei; [|discriminate Hp].
      destruct (Hitem hi rr eq_refl) as [-> Ei']. rewrite Ei'.
      destruct (N.leb lo hi); [|discriminate Hp].
      eapply IH; eassumption.
    - (* a single member *)
      rewrite Et2 in Hp. rewrite Et2'. cbn [app] in Hp |- *.
      apply N.eqb_neq in Ed. rewrite Ed in Hp.
      assert (Ed' : N.eqb d' 45 = false).
      { destruct Hdd as [->|[-> _]]; [exact Ed|reflexivity]. }
      rewrite Ed'.
      change (d :: t20 ++ s2) with ((d :: t20) ++ s2) in Hp. rewrite <- Et2 in Hp.
      eapply IH; [|exact Hp]. exact Hs1.
  Qed.

  (* ---------- the main loop: one step on a head that bump_space leaves alone ---------- *)
  Definition plain_step (f : nat) (x top : bool) (y : cp) (r : str) (racc ralts : list rast)
    : option (rast * str) :=
    if N.eqb y 41 then (if top then None else Some (alt_of (cat_of racc :: ralts), r))
    else if N.eqb y 124 then p_seq f x top r [] (cat_of racc :: ralts)
    else if mem_cp y [63; 42; 43] then
      match racc with
      | a :: racc' =>
          if lazy_follows r then None
          else
            let '(lo, hi) := if N.eqb y 63 then (0, Some 1) else if N.eqb y 42 then (0, None) else (1, None) in
            p_seq f x top r (RRep a lo hi :: racc') ralts
      | [] => None
      end
    else if N.eqb y 46 then None
    else if N.eqb y 94 then p_seq f x top r (RStart :: racc) ralts
    else if N.eqb y 36 then p_seq f x top r (REnd :: racc) ralts
    else p_seq f x top r (RLit y :: racc) ralts.

  Lemma p_seq_plain : forall f x top y r racc ralts,
    bump x (y :: r) = y :: r -> mem_cp y [92; 40; 91; 123] = false ->
    p_seq (S f) x top (y :: r) racc ralts = plain_step f x top y r racc ralts.
  Proof.
    intros f x top y r racc ralts Hb Hm. cbn [mem_cp] in Hm.
    apply orb_false_elim in Hm. destruct Hm as [E92 Hm]. apply orb_false_elim in Hm. destruct Hm as [E40 Hm].
    apply orb_false_elim in Hm. destruct Hm as [E91 Hm]. apply orb_false_elim in Hm. destruct Hm as [E123 _].
    cbn [Parse.p_seq]. rewrite Hb. unfold plain_step. rewrite E92, E40, E91, E123. reflexivity.
  Qed.

  Lemma p_seq_nil_x : forall f x top s racc ralts, bump x s = [] ->
    p_seq (S f) x top s racc ralts = if top then Some (alt_of (cat_of racc :: ralts), []) else None.
  Proof. intros f x top s racc ralts Hb. cbn [Parse.p_seq]. rewrite Hb. reflexivity. Qed.

  Lemma p_seq_bs_x : forall f x top s racc ralts, bump x (92 :: s) = 92 :: s ->
    p_seq (S f) x top (92 :: s) racc ralts
    = match Parse.parse_escape false s with
      | Some (EscLit l, r) => p_seq f x top r (RLit l :: racc) ralts
      | Some (EscPerl l, r) => p_seq f x top r (RPerl l :: racc) ralts
      | None => None
      end.
  Proof. intros f x top s racc ralts Hb. cbn [Parse.p_seq]. rewrite Hb. reflexivity. Qed.

  Lemma p_seq_group_nc_x : forall f x top body racc ralts,
    bump x (40 :: 63 :: 58 :: body) = 40 :: 63 :: 58 :: body ->
    p_seq (S f) x top (40 :: 63 :: 58 :: body) racc ralts
    = match p_seq f x false body [] [] with
      | Some (inner, r) => p_seq f x top r (RGroup false inner :: racc) ralts
      | None => None
      end.
  Proof. intros f x top body racc ralts Hb. cbn [Parse.p_seq]. rewrite Hb. reflexivity. Qed.

  Lemma p_seq_group_c_x : forall f x top body racc ralts,
    bump x (40 :: body) = 40 :: body -> lazy_follows body = false ->
    p_seq (S f) x top (40 :: body) racc ralts
    = match p_seq f x false body [] [] with
      | Some (inner, r) => p_seq f x top r (RGroup true inner :: racc) ralts
      | None => None
      end.
  Proof.
    intros f x top body racc ralts Hb Hq. cbn [Parse.p_seq]. rewrite Hb.
    change (N.eqb 40 41) with false. change (N.eqb 40 124) with false.
    change (N.eqb 40 40) with true. cbv iota.
    destruct body as [|q [|col t]]; [reflexivity| |]; unfold lazy_follows in Hq; rewrite Hq;
      [reflexivity|]. rewrite andb_false_l. reflexivity.
  Qed.

  Lemma p_seq_bracket_x : forall f x top s racc ralts, bump x (91 :: s) = 91 :: s ->
    p_seq (S f) x top (91 :: s) racc ralts
    = match pci f x s [] with
      | Some (items, r) => p_seq f x top r (RBracket items :: racc) ralts
      | None => None
      end.
  Proof. intros f x top s racc ralts Hb. cbn [Parse.p_seq]. rewrite Hb. reflexivity. Qed.

  Lemma p_seq_brace_x : forall f x top s racc ralts, bump x (123 :: s) = 123 :: s ->
    p_seq (S f) x top (123 :: s) racc ralts
    = match racc with
      | a :: racc' =>
          match parse_counted is_ws x s with
          | Some (lo, hi, r) =>
              if lazy_follows (bump x r) then None else p_seq f x top r (RRep a lo hi :: racc') ralts
          | None => None
          end
      | [] => None
      end.
  Proof. intros f x top s racc ralts Hb. cbn [Parse.p_seq]. rewrite Hb. reflexivity. Qed.

  (* after a counted repetition the (?x) parser skips layout before looking for a lazy '?': the first
     thing it can see in a rendering is the head of a rendered token, which is a '?' only if the
     source had one there *)
  Lemma XS_lazy_bump : forall m1 m2 s s', XS m1 m2 s s' -> lazy_follows s = false ->
    lazy_follows (bump true s') = false.
  Proof.
    intros m1 m2 s s' H Hl.
    destruct (XS_hd is_ws Hws _ _ _ _ H) as [(_ & _ & ->)|(m & t & t' & s1 & s1' & -> & -> & Ht & _)];
      [reflexivity|].
    destruct (tok_hd _ _ _ _ Ht) as (y & t0 & y' & t0' & -> & -> & _ & Hy').
    cbn [app lazy_follows] in Hl |- *.
    destruct Hy' as [->|[-> _]]; [exact Hl|reflexivity].
  Qed.

  Lemma ws_not_special : forall y, mem std_whitespace y = true \/ y = 35 ->
    mem_cp y loop_special = false.
  Proof.
    intros y Hy. destruct (mem_cp y loop_special) eqn:E; [|reflexivity]. exfalso.
    apply mem_cp_true_in in E. eapply ws_not_solid; [exact Hy|].
    apply solid_const. unfold loop_special in E. cbn [In] in E |- *. tauto.
  Qed.

  (* ---------- simulation: the main loop ---------- *)
  Lemma seq_sim : forall f top m s s' racc ralts a r,
    topish m = true -> XS m Top s s' ->
    p_seq f false top s racc ralts = Some (a, r) ->
    exists r', p_seq f true top s' racc ralts = Some (a, r') /\ XS Top Top r r'.
  Proof.
    induction f as [|f IH]; intros top m s s' racc ralts a r Hm Hs Hp; [discriminate Hp|].
    rewrite p_seq_bump.
    destruct (XS_hd is_ws Hws _ _ _ _ Hs) as [(-> & _ & Eb)|(m' & t & t' & s1 & s1' & -> & Eb & Ht & Hs1)].
    { rewrite p_seq_nil_x in Hp |- * by (try reflexivity; rewrite bump_idem; exact Eb).
      destruct top; [|discriminate Hp]. inversion Hp; subst. exists []. split; [reflexivity|apply XS_nil]. }
    rewrite Eb. clear Eb.
    inversion Ht as [m0 y Htop Hsol Hmem Hq | y Hsol Hmem | m0 y Hy Hn | m0 z Hz Hsol | m0 hs Hh
                    | m0 Htop | m0 Htop | m0 n Htop | m0 a0 b0 Htop | m0 Htop | ]; subst; try discriminate.
    - (* a plain character *)
      cbn [app] in Hp |- *.
      rewrite p_seq_plain in Hp |- * by (try exact Hmem; try reflexivity; apply (bump_solid is_ws Hws); exact Hsol).
      unfold plain_step in Hp |- *.
      destruct (N.eqb y 41).
      { destruct top; [discriminate Hp|]. inversion Hp; subst. exists s1'. split; [reflexivity|exact Hs1]. }
      destruct (N.eqb y 124); [eapply IH; [|exact Hs1|exact Hp]; reflexivity|].
      destruct (mem_cp y [63; 42; 43]).
      { destruct racc as [|a1 racc]; [discriminate Hp|].
        destruct (lazy_follows s1) eqn:El; [discriminate Hp|].
        rewrite (XS_lazy _ _ _ _ Hs1 El).
        destruct (N.eqb y 63); [eapply IH; [|exact Hs1|exact Hp]; reflexivity|].
        destruct (N.eqb y 42); eapply IH; try exact Hs1; try exact Hp; reflexivity. }
      destruct (N.eqb y 46); [discriminate Hp|].
      destruct (N.eqb y 94); [eapply IH; [|exact Hs1|exact Hp]; reflexivity|].
      destruct (N.eqb y 36); eapply IH; try exact Hs1; try exact Hp; reflexivity.
    - (* content whitespace / # *)
      destruct (vimg_ws_shape y Hy Hn) as (tl_ & E & Hpe & _). rewrite E.
      cbn [app] in Hp |- *.
      rewrite p_seq_raw in Hp by (apply ws_not_special; exact Hy).
      rewrite p_seq_bs_x by (apply (bump_solid is_ws Hws); solid_c).
      rewrite <- parse_escape_x with (x := true). rewrite Hpe.
      eapply IH; [|exact Hs1|exact Hp]. destruct m; (reflexivity || discriminate Hm).
    - (* one-character escape *)
      cbn [app] in Hp |- *.
      rewrite p_seq_bs_x in Hp |- * by (try reflexivity; apply (bump_solid is_ws Hws); solid_c).
      destruct (parse_escape_uniform z Hz) as [o Ho]. rewrite Ho in Hp |- *.
      destruct o as [[l|l]|]; [| |discriminate Hp];
        (eapply IH; [|exact Hs1|exact Hp]; destruct m; (reflexivity || discriminate Hm)).
    - (* \u{...} *)
      cbn [app] in Hp |- *. rewrite <- !app_assoc in Hp |- *. cbn [app] in Hp |- *.
      rewrite p_seq_bs_x in Hp |- * by (try reflexivity; apply (bump_solid is_ws Hws); solid_c).
      destruct (parse_escape_ubrace hs Hh) as [o Ho]. rewrite Ho in Hp |- *.
      destruct o as [[l|l]|]; [| |discriminate Hp];
        (eapply IH; [|exact Hs1|exact Hp]; destruct m; (reflexivity || discriminate Hm)).
    - (* capturing group *)
      cbn [app] in Hp |- *.
      assert (Hq : lazy_follows s1 = false).
      { destruct (XS_hd is_ws Hws _ _ _ _ Hs1) as [(-> & _ & _)|(m' & t & t' & s2 & s2' & -> & _ & Ht2 & _)];
          [reflexivity|].
        destruct (tok_hd _ _ _ _ Ht2) as (y & t0 & y' & t0' & -> & _ & _ & _).
        cbn [app lazy_follows]. apply N.eqb_neq.
        inversion Ht2; subst; try discriminate;
          match goal with
          | X : _ = TopQ -> _ <> 63 |- _ => apply X; reflexivity
          | X : mem std_whitespace ?v = true \/ ?v = 35 |- _ =>
              intros ->; eapply ws_not_solid; [exact X|solid_c]
          end. }
      rewrite p_seq_group_c_x in Hp |- *
        by (try exact Hq; try (apply (XS_lazy _ _ _ _ Hs1 Hq)); try reflexivity;
            apply (bump_solid is_ws Hws); solid_c).
      destruct (Parse.p_seq is_ws f false false s1 [] []) as [[inner r1]|] eqn:Ein; [|discriminate Hp].
      destruct (IH _ TopQ _ _ _ _ _ _ eq_refl Hs1 Ein) as (r1' & Ein' & Hr1). rewrite Ein'.
      eapply IH; [|exact Hr1|exact Hp]. reflexivity.
    - (* non-capturing group *)
      cbn [app] in Hp |- *.
      rewrite p_seq_group_nc_x in Hp |- * by (try reflexivity; apply (bump_solid is_ws Hws); solid_c).
      destruct (Parse.p_seq is_ws f false false s1 [] []) as [[inner r1]|] eqn:Ein; [|discriminate Hp].
      destruct (IH _ Top _ _ _ _ _ _ eq_refl Hs1 Ein) as (r1' & Ein' & Hr1). rewrite Ein'.
      eapply IH; [|exact Hr1|exact Hp]. reflexivity.
    - (* {n} *)
      cbn [app] in Hp |- *. rewrite <- !app_assoc in Hp |- *. cbn [app] in Hp |- *.
      rewrite p_seq_brace_x in Hp |- * by (try reflexivity; apply (bump_solid is_ws Hws); solid_c).
      destruct racc as [|a1 racc]; [discriminate Hp|].
      rewrite parse_counted_n_x in Hp |- *.
      cbn [Parse.bump] in Hp.
      destruct (lazy_follows s1) eqn:El; [discriminate Hp|].
      rewrite (XS_lazy_bump _ _ _ _ Hs1 El).
      eapply IH; [|exact Hs1|exact Hp]. reflexivity.
    - (* {m,n} *)
      cbn [app] in Hp |- *. rewrite <- !app_assoc in Hp |- *. cbn [app] in Hp |- *.
      rewrite <- !app_assoc in Hp |- *. cbn [app] in Hp |- *.
      rewrite p_seq_brace_x in Hp |- * by (try reflexivity; apply (bump_solid is_ws Hws); solid_c).
      destruct racc as [|a1 racc]; [discriminate Hp|].
      rewrite parse_counted_mn_x.
      destruct (parse_counted_mn_uniform a0 b0) as [o Ho]. rewrite Ho in Hp |- *.
      destruct o as [[lo hi]|]; [|discriminate Hp].
      cbn [Parse.bump] in Hp.
      destruct (lazy_follows s1) eqn:El; [discriminate Hp|].
      rewrite (XS_lazy_bump _ _ _ _ Hs1 El).
      eapply IH; [|exact Hs1|exact Hp]. reflexivity.
    - (* bracket class *)
      cbn [app] in Hp |- *.
      rewrite p_seq_bracket_x in Hp |- * by (try reflexivity; apply (bump_solid is_ws Hws); solid_c).
      destruct (parse_class_items is_ws f false s1 []) as [[items r1]|] eqn:Ecl; [|discriminate Hp].
      destruct (cls_sim _ _ _ _ _ _ Hs1 Ecl) as (r1' & Ecl' & Hr1). rewrite Ecl'.
      eapply IH; [|exact Hr1|exact Hp]. reflexivity.
  Qed.
End Sim.
