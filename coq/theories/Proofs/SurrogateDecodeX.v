(* Re-pairing of UTF-16 surrogate escapes, part 6: verbose mode.

   In verbose mode the printer lays the pattern out on several indented lines and rewrites content
   whitespace / '#' to escapes.  The two surrogate escapes of one astral code point come from one
   string of one grapheme, so no layout is ever put between them: after `repair` the verbose
   pattern printed with f_esc and f_sur is a verbose rendering (PrintParseXTok.XS) of the
   re-paired NON-verbose pattern (SurrogateExpr.regexpR), which the parser model reads as
   top_rast (sur c) e; the (?x) simulation (PrintParseXSim.seq_sim) transfers this.

     1. `repair` and the layout of indent_regexp (lines, strip_cr, indentation, join);
     2. a continuation-style combinator KK: "a' followed by u is, after repair, a rendering of a
        followed by s";
     3. code points, strings, graphemes, classes, expressions;
     4. the theorems. *)
From Grex Require Import Base.Str Base.Ranges Model.Config Model.Cluster Model.Dfa Model.Expr Model.Print.
From Grex Require Import Engine.Syntax Engine.Parse Engine.Sem.
From Grex Require Import Proofs.Lang Proofs.ExprLang Proofs.EscapeProps Proofs.PrintShape.
From Grex Require Import Proofs.PrintParseNum Proofs.PrintParseStep Proofs.PrintParseDefs
  Proofs.PrintParseEsc Proofs.PrintParseLit Proofs.PrintParseCC Proofs.PrintParseExpr Proofs.PrintParse.
From Grex Require Import Proofs.VerboseWs Proofs.ColourStripLines Proofs.PrintParseXTok Proofs.PrintParseXSim
  Proofs.PrintParseXLay Proofs.PrintParseXPrint Proofs.PrintParseX.
From Grex Require Import Proofs.SurrogateRepair Proofs.SurrogateLit Proofs.SurrogateCC Proofs.SurrogateExpr
  Proofs.SurrogateDecode.
From GrexGen Require Import OracleTables SrcConsts.
Local Open Scope N_scope.
Arguments N.add : simpl never.
Arguments N.sub : simpl never.
Arguments N.mul : simpl never.
Arguments N.leb : simpl never.
Arguments N.ltb : simpl never.
Arguments N.eqb : simpl never.

(* ------------------------------------------------------------------ *)
(** * 1. repair and layout *)

(* a character that can neither be part of a \u{..} escape nor start one *)
Definition delim (d : cp) : Prop :=
  hexval d = None /\ d <> 125 /\ d <> 92 /\ d <> 117 /\ d <> 123.

Lemma scan_hex_delim : forall d rest, hexval d = None -> forall t acc,
  scan_hex (t ++ d :: rest) acc = (fst (scan_hex t acc), snd (scan_hex t acc) ++ d :: rest).
Proof.
  intros d rest Hd. induction t as [|x t IH]; intros acc.
  - cbn [app scan_hex fst snd]. rewrite Hd. reflexivity.
  - cbn [app scan_hex]. destruct (hexval x) as [k|]; [apply IH|reflexivity].
Qed.

Lemma u_escape_nil : u_escape [] = None. Proof. reflexivity. Qed.
Lemma u_escape_1 : forall a, u_escape [a] = None. Proof. reflexivity. Qed.
Lemma u_escape_2 : forall a b, u_escape [a; b] = None. Proof. reflexivity. Qed.

Lemma u_escape_delim : forall d l rest, delim d ->
  u_escape (l ++ d :: rest)
  = match u_escape l with Some (v, r) => Some (v, r ++ d :: rest) | None => None end.
Proof.
  intros d l rest (Hh & H125 & H92 & H117 & H123).
  destruct l as [|a [|b [|x t]]].
  - rewrite u_escape_nil. cbn [app]. apply u_escape_not_bs. exact H92.
  - rewrite u_escape_1. cbn [app].
    destruct (N.eq_dec a 92) as [->|Ha]; [apply u_escape_not_u; exact H117|apply u_escape_not_bs; exact Ha].
  - rewrite u_escape_2. cbn [app].
    destruct (N.eq_dec a 92) as [->|Ha]; [|apply u_escape_not_bs; exact Ha].
    destruct (N.eq_dec b 117) as [->|Hb]; [|apply u_escape_not_u; exact Hb].
    apply u_escape_not_brace. exact H123.
  - cbn [app]. unfold EscapeProps.parse_escape.
    assert (Es : starts_hex (t ++ d :: rest) = starts_hex t).
    { destruct t as [|y t]; [|reflexivity]. cbn [app starts_hex]. rewrite Hh. reflexivity. }
    rewrite Es. destruct ((a =? 92) && (b =? 117) && (x =? 123) && starts_hex t); [|reflexivity].
    rewrite (scan_hex_delim d rest Hh). destruct (scan_hex t 0) as [v [|z r']]; cbn [fst snd app].
    + apply N.eqb_neq in H125. rewrite H125. reflexivity.
    + destruct (z =? 125); reflexivity.
Qed.

Lemma pair_at_delim : forall d l rest, delim d ->
  pair_at (l ++ d :: rest)
  = match pair_at l with Some (u, r) => Some (u, r ++ d :: rest) | None => None end.
Proof.
  intros d l rest Hd. unfold pair_at. rewrite (u_escape_delim d l rest Hd).
  destruct (u_escape l) as [[v m]|]; [|reflexivity].
  destruct (is_hi v); [|reflexivity].
  rewrite (u_escape_delim d m rest Hd).
  destruct (u_escape m) as [[w r2]|]; [|reflexivity].
  destruct (is_lo w); reflexivity.
Qed.

Lemma repair_delim : forall d, delim d -> forall n l rest, (length l <= n)%nat ->
  repair (l ++ d :: rest) = repair l ++ d :: repair rest.
Proof.
  intros d Hd. induction n as [|n IH]; intros l rest Hl.
  - destruct l; [|cbn [length] in Hl; lia]. cbn [app]. rewrite repair_nil.
    apply repair_raw1. apply Hd.
  - destruct l as [|x l]; [cbn [app]; rewrite repair_nil; apply repair_raw1; apply Hd|].
    change ((x :: l) ++ d :: rest) with (x :: (l ++ d :: rest)).
    rewrite !repair_cons.
    change (x :: (l ++ d :: rest)) with ((x :: l) ++ d :: rest).
    rewrite (pair_at_delim d (x :: l) rest Hd).
    destruct (pair_at (x :: l)) as [[u r]|] eqn:E.
    + apply pair_at_len in E. rewrite IH by (cbn [length] in *; lia).
      rewrite <- app_assoc. reflexivity.
    + cbn [length] in Hl. rewrite IH by lia. reflexivity.
Qed.

Lemma delim10 : delim 10. Proof. repeat split; discriminate. Qed.
Lemma delim13 : delim 13. Proof. repeat split; discriminate. Qed.

Lemma repair_nl : forall l rest, repair (l ++ 10 :: rest) = repair l ++ 10 :: repair rest.
Proof. intros l rest. apply (repair_delim 10 delim10 (length l)). apply Nat.le_refl. Qed.

Lemma repair_cr_end : forall l, repair (l ++ [13]) = repair l ++ [13].
Proof.
  intros l. rewrite (repair_delim 13 delim13 (length l)) by apply Nat.le_refl.
  reflexivity.
Qed.

Lemma repair_join : forall ls, repair (join nl ls) = join nl (map repair ls).
Proof.
  induction ls as [|l ls IH]; [reflexivity|].
  cbn [map]. rewrite !join_cons. destruct ls as [|l2 ls].
  - cbn [map]. rewrite !app_nil_r. reflexivity.
  - unfold nl at 1. cbn [app]. rewrite repair_nl. unfold c_nl in *. rewrite IH. reflexivity.
Qed.

(* a line feed in a rendering is layout: the rendering splits there *)
Lemma app_eq_nonl : forall (t s a b : str), Forall (fun x => x <> 10) t ->
  t ++ s = a ++ 10 :: b -> exists a', a = t ++ a' /\ s = a' ++ 10 :: b.
Proof.
  induction t as [|x t IH]; intros s a b Ht E.
  - exists a. split; [reflexivity|exact E].
  - inversion Ht as [|? ? Hx Ht']; subst. destruct a as [|y a].
    + cbn [app] in E. inversion E; subst. congruence.
    + cbn [app] in E. inversion E; subst.
      destruct (IH s a b Ht' H1) as (a' & -> & ->). exists a'. split; reflexivity.
Qed.

Lemma XS_split_nl : forall m1 m2 s w, XS m1 m2 s w -> forall a b, w = a ++ 10 :: b ->
  exists m s1 s2, s = s1 ++ s2 /\ XS m1 m s1 a /\ XS m m2 s2 b.
Proof.
  intros m1 m2 s w H. induction H as [m|m1 m2 x s w Hx Hw IH|m1 m m2 t t' s w Ht Hw IH]; intros a b E.
  - destruct a; discriminate.
  - destruct a as [|y a].
    + cbn [app] in E. inversion E; subst. exists m1, [], s. repeat split; [apply XS_nil|exact Hw].
    + cbn [app] in E. inversion E; subst.
      destruct (IH a b eq_refl) as (m & s1 & s2 & -> & H1 & H2).
      exists m, s1, s2. repeat split; [apply XS_lay; assumption|exact H2].
  - destruct (app_eq_nonl t' w a b) as (a' & -> & Ew); [|exact E|].
    { eapply Forall_impl; [|apply (tok_clean _ _ _ _ Ht)]. intros y [Hy _]. exact Hy. }
    destruct (IH a' b Ew) as (m' & s1 & s2 & -> & H1 & H2).
    exists m', (t ++ s1), s2. rewrite app_assoc. repeat split; [|exact H2].
    eapply XS_tok; eassumption.
Qed.

Lemma XS_unjoin : forall ls m1 m2 s, XS m1 m2 s (join nl ls) -> XSL m1 m2 s ls.
Proof.
  induction ls as [|l ls IH]; intros m1 m2 s H.
  - cbn [join] in H. apply XS_nil_r in H. destruct H as [-> ->]. apply XSL_nil.
  - rewrite join_cons in H. destruct ls as [|l2 ls].
    + rewrite app_nil_r in H. apply XSL_one. exact H.
    + unfold nl in H. cbn [app] in H.
      destruct (XS_split_nl _ _ _ _ H l (join [c_nl] (l2 :: ls)) eq_refl) as (m & s1 & s2 & -> & H1 & H2).
      eapply XSL_cons; [exact H1|]. apply IH. exact H2.
Qed.

Lemma join_splitnl : forall u, join nl (splitnl u) = u.
Proof.
  induction u as [|x u IH]; [reflexivity|].
  cbn [splitnl]. destruct (N.eqb_spec x 10) as [->|Hx].
  - rewrite join_cons. pose proof (splitnl_nonnil u) as Hne.
    destruct (splitnl u) as [|l ls] eqn:E; [congruence|]. rewrite IH. reflexivity.
  - pose proof (splitnl_nonnil u) as Hne.
    destruct (splitnl u) as [|l ls] eqn:E; [congruence|].
    rewrite join_cons. rewrite join_cons in IH. cbn [app]. rewrite IH. reflexivity.
Qed.

Lemma XSL_map2 : forall (f g : str -> str),
  (forall m1 m2 s l, XS m1 m2 s (f l) -> XS m1 m2 s (g l)) ->
  forall ls m1 m2 s, XSL m1 m2 s (map f ls) -> XSL m1 m2 s (map g ls).
Proof.
  intros f g Hfg. induction ls as [|l ls IH]; intros m1 m2 s H; [exact H|].
  cbn [map] in *. inversion H as [|? m ? s1 s2 ? ? Hl Hr]; subst.
  eapply XSL_cons; [apply Hfg; exact Hl|apply IH; exact Hr].
Qed.

Lemma XS_repair_strip_cr : forall m1 m2 s l,
  XS m1 m2 s (repair l) -> XS m1 m2 s (repair (strip_cr l)).
Proof.
  intros m1 m2 s l H. rewrite strip_cr_scr.
  destruct l as [|x0 l0] using rev_ind; [exact H|clear IHl0].
  rewrite scr_snoc. destruct (N.eqb_spec x0 13) as [->|Hx]; [|exact H].
  rewrite repair_cr_end in H. apply XS_scr in H. rewrite scr_snoc in H. exact H.
Qed.

Lemma XSL_repair_lines_of : forall ls m1 m2 s,
  XSL m1 m2 s (map repair ls) -> XSL m1 m2 s (map repair (lines_of ls)).
Proof.
  intros ls m1 m2 s H. unfold lines_of.
  rewrite <- (rev_involutive ls) in H. destruct (rev ls) as [|last r].
  - exact H.
  - cbn [rev] in H. rewrite map_app in H. apply XSL_split in H.
    destruct H as (m & a & b & -> & Ha & Hb).
    rewrite map_app. apply XSL_app with (m2 := m).
    + rewrite map_map.
      apply (XSL_map2 repair (fun l => repair (strip_cr l))); [|exact Ha].
      intros; apply XS_repair_strip_cr; assumption.
    + destruct last as [|y last]; [|exact Hb].
      cbn [map] in Hb. rewrite repair_nil in Hb.
      inversion Hb as [|? m' ? s1 s2 ? ? Hl Hr]; subst.
      inversion Hr; subst. apply XS_nil_r in Hl. destruct Hl as [-> ->]. apply XSL_nil.
Qed.

Lemma no_bs_spaces : forall n, no_bs (repeat_str n [c_space; c_space]).
Proof.
  induction n as [|n IH]; [constructor|]. cbn [repeat_str app].
  constructor; [discriminate|]. constructor; [discriminate|exact IH].
Qed.

Lemma XSL_repair_indent : forall isd c ls m1 m2 s i level,
  XSL m1 m2 s (map repair ls) -> XSL m1 m2 s (map repair (indent_lines isd c ls i level)).
Proof.
  intros isd c ls. induction ls as [|line ls IH]; intros m1 m2 s i level H.
  - exact H.
  - cbn [map] in H. inversion H as [|? m ? s1 s2 ? ? Hl Hr]; subst. cbn [indent_lines].
    destruct line as [|y line].
    + rewrite repair_nil in Hl. apply XS_nil_r in Hl. destruct Hl as [-> ->]. cbn [app].
      apply IH. exact Hr.
    + cbv zeta. cbn [map]. eapply XSL_cons; [|apply IH; exact Hr].
      rewrite repair_raw by apply no_bs_spaces.
      apply XS_lays; [apply repeat_str_spaces|exact Hl].
Qed.

(* the whole of indent_regexp after the flag line, under repair *)
Theorem XS_repair_relayout : forall isd c m1 m2 s u i level,
  XS m1 m2 s (repair u) ->
  XS m1 m2 s (repair (match indent_lines isd c (lines u) i level with
                      | [] => []
                      | l => nl ++ join nl l
                      end)).
Proof.
  intros isd c m1 m2 s u i level H.
  rewrite <- (join_splitnl u) in H. rewrite repair_join in H. apply XS_unjoin in H.
  apply XSL_repair_lines_of in H. rewrite <- lines_eq in H.
  apply (XSL_repair_indent isd c _ _ _ _ i level) in H.
  destruct (indent_lines isd c (lines u) i level) as [|l ls].
  - cbn [map] in H. inversion H; subst. rewrite repair_nil. apply XS_nil.
  - unfold nl at 1. cbn [app]. rewrite repair_raw1 by discriminate.
    apply XS_lay; [reflexivity|]. rewrite repair_join. apply XSL_join. exact H.
Qed.

(* ------------------------------------------------------------------ *)
(** * 2. renderings under repair, continuation style *)

(* the rendering a' followed by u is, after repair, a rendering of a followed by s, when u
   (subject to P) is after repair a rendering of s *)
Definition KK (P : str -> Prop) (a a' : str) : Prop :=
  forall m2 s u, P u -> XS Top m2 s (repair u) -> XS Top m2 (a ++ s) (repair (a' ++ u)).

Definition anyP : str -> Prop := fun _ => True.

Lemma KK_nil : forall P, KK P [] [].
Proof. intros P m2 s u _ H. exact H. Qed.

Lemma KK_weaken : forall (P P' : str -> Prop) a a',
  (forall u, P u -> P' u) -> KK P' a a' -> KK P a a'.
Proof. intros P P' a a' HP H m2 s u Hu HX. apply H; [apply HP; exact Hu|exact HX]. Qed.

Lemma KK_any : forall (P : str -> Prop) a a', KK anyP a a' -> KK P a a'.
Proof. intros P a a' H. eapply KK_weaken; [|exact H]. intros u _. exact I. Qed.

Lemma KK_app : forall (P P2 : str -> Prop) a a' b b',
  KK P2 a a' -> KK P b b' -> (forall u, P u -> P2 (b' ++ u)) -> KK P (a ++ b) (a' ++ b').
Proof.
  intros P P2 a a' b b' Ha Hb HP m2 s u Hu HX. rewrite <- !app_assoc.
  apply Ha; [apply HP; exact Hu|]. apply Hb; assumption.
Qed.

Lemma KK_blk : forall (P : str -> Prop) a a', XS Top Top a a' ->
  (forall u, P u -> repair (a' ++ u) = a' ++ repair u) -> KK P a a'.
Proof.
  intros P a a' HX Hr m2 s u Hu H. rewrite Hr by exact Hu. eapply XS_app; [exact HX|exact H].
Qed.

Lemma no_bs_nl : no_bs nl.
Proof. constructor; [discriminate|constructor]. Qed.

Lemma repair_nl_l : forall u, repair (nl ++ u) = nl ++ repair u.
Proof. intros u. apply repair_raw. apply no_bs_nl. Qed.

Lemma KK_nl : forall P, KK P [] nl.
Proof. intros P m2 s u _ H. rewrite repair_nl_l. apply XS_nl_l. exact H. Qed.

Lemma Qs_nl : forall u, Qs (nl ++ u).
Proof. intros u. apply Qs_cons; discriminate. Qed.

Lemma KK_grp : forall (P : str -> Prop) c0 b b' (fb : bool), KK Qs b b' -> hd_ok (b ++ [41]) ->
  KK P (grp c0 b) (nl ++ grp_open c0 ++ nl ++ b' ++ nl ++ [41] ++ (if fb then nl else [])).
Proof.
  intros P c0 b b' fb Hb Hh m2 s u _ HX.
  rewrite grp_app. rewrite <- !app_assoc.
  rewrite repair_nl_l. apply XS_nl_l.
  rewrite (repair_raw (grp_open c0)) by apply no_bs_grp_open.
  rewrite repair_nl_l.
  assert (Htail : XS Top m2 (41 :: s) (repair (nl ++ [41] ++ (if fb then nl else []) ++ u))).
  { rewrite repair_nl_l. apply XS_nl_l.
    rewrite (repair_raw [41]) by (constructor; [discriminate|constructor]).
    change (41 :: s) with ([41] ++ s). eapply XS_tok.
    - apply (T_plain Top); [reflexivity|solid_c|reflexivity|discriminate].
    - destruct fb; [rewrite repair_nl_l; apply XS_nl_l|]; exact HX. }
  pose proof (Hb m2 (41 :: s) _ (Qs_nl _) Htail) as Hbody.
  unfold grp_open. destruct (f_cap c0).
  - unfold txt_CapturedLeftParenthesis. eapply XS_tok; [apply (T_lpar Top); reflexivity|].
    apply XS_nl_l. apply XS_toQ; [exact Hbody|].
    destruct (hd_ok_safe63 b Hh) as (y & s0 & E & Hy). exists y, (s0 ++ s). split; [|exact Hy].
    replace (b ++ 41 :: s) with ((b ++ [41]) ++ s) by (rewrite <- app_assoc; reflexivity).
    rewrite E. reflexivity.
  - unfold txt_UncapturedLeftParenthesis. eapply XS_tok; [apply (T_nc Top); reflexivity|].
    apply XS_nl_l. exact Hbody.
Qed.

(* ------------------------------------------------------------------ *)
(** * 3. single code points under the verbose rewrites *)

Definition u4_ok (y : cp) : bool :=
  match esc_u4 y with
  | [b; u; a1; a2; a3; a4] =>
      N.eqb b 92 && N.eqb u 117 &&
      forallb (fun a => negb (N.eqb a 92) && negb (N.eqb a 123)) [a1; a2; a3; a4]
  | _ => false
  end.

Lemma u4_ok_all : forallb u4_ok verbose_ws = true.
Proof. vm_compute. reflexivity. Qed.

(* the verbose image of a code point: itself, or an escape that repair does not touch *)
Definition esc_img (v : str) : Prop :=
  exists w, v = 92 :: w /\ no_bs w /\ Forall (fun a => a <> 123) w /\
            (forall u, u_escape (92 :: w ++ u) = None).

Lemma esc_img_2 : forall z : cp, z <> 117 -> z <> 92 -> z <> 123 -> esc_img [92; z].
Proof.
  intros z H1 H2 H3. exists [z]. repeat split.
  - constructor; [exact H2|constructor].
  - constructor; [exact H3|constructor].
  - intros u. cbn [app]. apply u_escape_not_u. exact H1.
Qed.

Lemma vimg_shape : forall y : cp, vimg y = [y] \/ esc_img (vimg y).
Proof.
  intros y. rewrite vimg_spec.
  destruct (N.eqb_spec y 35) as [->|H35]; [right; apply esc_img_2; discriminate|].
  destruct (mem_cp y verbose_ws) eqn:Ew.
  - right. apply mem_cp_In in Ew. pose proof (forallb_In _ _ _ u4_ok_all Ew) as Hok.
    unfold u4_ok in Hok.
    destruct (esc_u4 y) as [|b [|u [|a1 [|a2 [|a3 [|a4 [|? ?]]]]]]]; try discriminate Hok.
    apply andb_true_iff in Hok. destruct Hok as [Hbu Ha].
    apply andb_true_iff in Hbu. destruct Hbu as [Hb Hu].
    apply N.eqb_eq in Hb, Hu. subst b u.
    cbn [forallb] in Ha. rewrite !andb_true_iff in Ha.
    destruct Ha as ([A1 B1] & [A2 B2] & [A3 B3] & [A4 B4] & _).
    apply negb_true_iff in A1, A2, A3, A4, B1, B2, B3, B4.
    apply N.eqb_neq in A1, A2, A3, A4, B1, B2, B3, B4.
    exists [117; a1; a2; a3; a4]. repeat split.
    + repeat (constructor; [first [discriminate|assumption]|]). constructor.
    + repeat (constructor; [first [discriminate|assumption]|]). constructor.
    + intros u. cbn [app]. apply u_escape_not_brace. exact B1.
  - destruct (N.eqb_spec y 32) as [->|H32]; [right; apply esc_img_2; discriminate|].
    left. reflexivity.
Qed.

Lemma V_single : forall y : cp, V [y] = verbose_rewrite (vf1 y).
Proof. intros y. unfold V. rewrite vf_single. reflexivity. Qed.

Lemma V1_shape : forall y : cp, V [y] = [y] \/ esc_img (V [y]).
Proof.
  intros y. rewrite V_single. unfold vf1.
  destruct (N.eqb_spec y 11) as [->|H11]; [right; apply esc_img_2; discriminate|].
  destruct (N.eqb_spec y 12) as [->|H12]; [right; apply esc_img_2; discriminate|].
  rewrite verbose_rewrite_cons. change (verbose_rewrite []) with (@nil cp). rewrite app_nil_r.
  apply vimg_shape.
Qed.

Lemma repair_esc_img : forall v u, esc_img v -> repair (v ++ u) = v ++ repair u.
Proof.
  intros v u (w & -> & Hw & _ & Hn). cbn [app].
  rewrite repair_none by (apply pair_at_none_esc; apply Hn).
  rewrite (repair_raw w) by exact Hw. reflexivity.
Qed.

Lemma repair_V1 : forall (y : cp) u, y <> 92 -> repair (V [y] ++ u) = V [y] ++ repair u.
Proof.
  intros y u H92. destruct (V1_shape y) as [->|H].
  - cbn [app]. apply repair_raw1. exact H92.
  - apply repair_esc_img. exact H.
Qed.

Lemma V1_hd : forall y : cp, exists h t, V [y] = h :: t /\ (h = y \/ h = 92).
Proof.
  intros y. destruct (V1_shape y) as [->|(w & -> & _)]; eauto.
Qed.

Lemma V_cons : forall (x : cp) (s : str), V (x :: s) = V [x] ++ V s.
Proof. intros x s. change (x :: s) with ([x] ++ s). apply V_app. Qed.

Lemma V_bs : V (@cons cp 92 nil) = @cons cp 92 nil.
Proof. vm_compute. reflexivity. Qed.
Lemma V_bsN : V (@cons N 92 nil) = @cons N 92 nil.
Proof. vm_compute. reflexivity. Qed.

(* a two-character escape *)
Lemma repair_Vesc : forall (z : cp) u, z <> 117 -> z <> 92 ->
  repair (V [92; z] ++ u) = V [92; z] ++ repair u.
Proof.
  intros z u H117 H92. rewrite V_cons, V_bs. cbn [app].
  assert (Hn : u_escape (92 :: V [z] ++ u) = None).
  { destruct (V1_hd z) as (h & t & E & Hh). rewrite E. cbn [app]. apply u_escape_not_u.
    destruct Hh as [-> | ->]; [exact H117|discriminate]. }
  rewrite repair_none by (apply pair_at_none_esc; exact Hn). f_equal.
  apply repair_V1. exact H92.
Qed.

Lemma solid_esc_unicode : forall y, Forall solid (esc_unicode y).
Proof.
  intros y. unfold esc_unicode. cbn [app].
  constructor; [solid_c|]. constructor; [solid_c|]. constructor; [solid_c|].
  apply Forall_app. split; [apply Forall_solid_hex|]. constructor; [solid_c|constructor].
Qed.

Lemma V_esc_unicode : forall y, V (esc_unicode y) = esc_unicode y.
Proof. intros y. apply V_solid. apply solid_esc_unicode. Qed.

Lemma V_letter : forall l, is_class_letter l = true -> V [l] = [l].
Proof.
  intros l Hl. apply class_letter_cases in Hl.
  destruct Hl as [->|[->|[->|[->|[->| ->]]]]]; vm_compute; reflexivity.
Qed.

(* ------------------------------------------------------------------ *)
(** * 4. the two configurations: c1 = sur c prints, c0 = nosur c is what the repaired text shows *)
Section SurX.
  Variable c : cfg.
  Hypothesis Hv : f_verbose c = true.
  Variable is_ws : cp -> bool.
  Hypothesis Hws : ws_ok is_ws.
  Variable gap : Prop.

  Notation c1 := (sur c).
  Notation c0 := (nosur c).

  Lemma Hp0 : printable c0.
  Proof. apply nosur_printable. Qed.
  Lemma Hv0 : f_verbose c0 = true.
  Proof. exact Hv. Qed.
  Lemma Hv1 : f_verbose c1 = true.
  Proof. exact Hv. Qed.
  Lemma Hesc : f_esc c1 = f_esc c0.
  Proof. reflexivity. Qed.
  Lemma Hcap : f_cap c1 = f_cap c0.
  Proof. reflexivity. Qed.

  (* ---------- one code point ---------- *)
  Lemma KK_rend : forall y, scalar y -> y <> 92 -> KK anyP (rend c0 y) (V (rend0 c1 y)).
  Proof.
    intros y Hs H92. pose proof (SR_rend0 c0 Hp0 y H92) as HSR. unfold SR in HSR. unfold rend.
    revert HSR.
    destruct (rend0_shape1 c1 c0 Hp0 Hesc y Hs) as [Hm Hc|z H117 H11 H12 Hz|Hge Hh|Ha]; intros HSR.
    - apply KK_blk; [exact HSR|]. intros u _. apply repair_V1. exact H92.
    - apply KK_blk; [exact HSR|]. intros u _. apply repair_Vesc; assumption.
    - apply KK_blk; [exact HSR|]. intros u _. rewrite V_esc_unicode. apply repair_esc_unicode. exact Hh.
    - intros m2 s u _ HX. rewrite V_app, !V_esc_unicode, vf_esc_unicode, <- app_assoc.
      destruct (hi_lo_flags y Ha) as (Hh & Hl & Ec). rewrite repair_pair by assumption. rewrite Ec.
      eapply XS_tok; [exact (T_u Top (hex_of_N y) (hex_of_N_all_hex y))|exact HX].
  Qed.

  Lemma rendV_hd : forall y s, scalar y ->
    (exists t, V (rend0 c1 y) ++ s = 92 :: t) \/
    (V (rend0 c1 y) = [y] /\ y <> 92 /\ y <> 123) \/ y = 92.
  Proof.
    intros y s Hs.
    destruct (rend0_shape1 c1 c0 Hp0 Hesc y Hs) as [Hm Hc|z H117 H11 H12 Hz|Hge Hh|Ha].
    - destruct (V1_shape y) as [E|(w & E & _)].
      + destruct (N.eq_dec y 92) as [->|H92]; [right; right; reflexivity|].
        right. left. split; [exact E|]. split; [exact H92|].
        intros ->. vm_compute in Hm. discriminate.
      + left. rewrite E. eexists. reflexivity.
    - left. rewrite V_cons, V_bs. eexists. reflexivity.
    - left. rewrite V_esc_unicode. eexists. reflexivity.
    - left. rewrite V_app, !V_esc_unicode. eexists. reflexivity.
  Qed.

  Lemma rendV_n123 : forall y s, scalar y -> n123 (V (rend0 c1 y) ++ s).
  Proof.
    intros y s Hs. destruct (rendV_hd y s Hs) as [[t ->]|[(E & _ & H)| ->]].
    - apply n123_cons. discriminate.
    - rewrite E. apply n123_cons. exact H.
    - rewrite rend0_bs, V_bsN. apply n123_cons. discriminate.
  Qed.

  Lemma rendV_Q : forall y s, scalar y -> y <> 92 -> Rr s -> Qs (V (rend0 c1 y) ++ s).
  Proof.
    intros y s Hs H92 Hr. destruct (rendV_hd y s Hs) as [[t ->]|[(E & _ & H)| ->]].
    - apply Qs_cons; discriminate.
    - rewrite E. cbn [app]. destruct (N.eq_dec y 117) as [->|H117].
      + apply Qs_u. exact Hr.
      + apply Qs_cons; assumption.
    - congruence.
  Qed.

  (* ---------- tokenised strings ---------- *)
  Notation toksV t := (V (flat_map (rend0 c1) t)).

  Lemma toksV_lit : forall y t, toksV (y :: t) = V (rend0 c1 y) ++ toksV t.
  Proof. intros y t. cbn [flat_map]. apply V_app. Qed.

  Lemma toksV_cls : forall l t, is_class_letter l = true ->
    toksV (92 :: l :: t) = 92 :: l :: toksV t.
  Proof.
    intros l t Hl. cbn [flat_map]. rewrite rend0_bs, (rend0_letter c1 l Hl).
    rewrite !V_app, V_bsN, (V_letter l Hl). reflexivity.
  Qed.

  Lemma KK_toks : forall t, toks t -> KK anyP (flat_map (rend c0) t) (toksV t).
  Proof.
    intros t Ht. induction Ht as [|y t H92 Hs Ht IH|l t Hl Ht IH].
    - apply KK_nil.
    - rewrite toksV_lit. cbn [flat_map]. eapply KK_app; [apply KK_rend; assumption|exact IH|].
      intros u _. exact I.
    - rewrite (toksV_cls l t Hl). cbn [flat_map]. rewrite rend_bs, (rend_letter c0 l Hl).
      destruct (letter_facts l Hl) as (H1 & H2 & _).
      change ([92] ++ [l] ++ flat_map (rend c0) t) with ([92; l] ++ flat_map (rend c0) t).
      change (92 :: l :: toksV t) with ([92; l] ++ toksV t).
      apply (KK_app anyP anyP); [|exact IH|intros u _; exact I].
      apply KK_blk.
      + apply XS_tok1. apply (T_esc Top); [exact H1|].
        apply class_letter_cases in Hl.
        destruct Hl as [->|[->|[->|[->|[->| ->]]]]]; solid_c.
      + intros u _. cbn [app]. apply repair_esc2; assumption.
  Qed.

  Lemma toksV_n123 : forall t, toks t -> t <> [] -> forall s, n123 (toksV t ++ s).
  Proof.
    intros t Ht Hne s. destruct Ht as [|y t H92 Hs Ht|l t Hl Ht]; [congruence| |].
    - rewrite toksV_lit, <- app_assoc. apply rendV_n123. exact Hs.
    - rewrite (toksV_cls l t Hl). apply n123_cons. discriminate.
  Qed.

  Lemma toksV_Q : forall t, toks t -> t <> [] -> forall s, Rr s -> Qs (toksV t ++ s).
  Proof.
    intros t Ht Hne s Hr. destruct Ht as [|y t H92 Hs Ht|l t Hl Ht]; [congruence| |].
    - rewrite toksV_lit, <- app_assoc. apply rendV_Q; [exact Hs|exact H92|].
      destruct t as [|y2 t2]; [exact Hr|].
      apply n123_Rr. apply toksV_n123; [exact Ht|discriminate].
    - rewrite (toksV_cls l t Hl). apply Qs_cons; discriminate.
  Qed.

  Lemma KK_tstr : forall t, tokenised t -> KK nb (vf (esc_str c0 t)) (V (esc_str c1 t)).
  Proof.
    intros t [->|Ht].
    - rewrite !esc_str_bs. intros m2 s u Hn HX.
      change (V [92; 92]) with (@cons cp 92 [92]). change (vf [92; 92]) with (@cons cp 92 [92]).
      cbn [app]. rewrite repair_bsbs by exact Hn.
      change (92 :: 92 :: s) with ([92; 92] ++ s). change (92 :: 92 :: repair u) with ([92; 92] ++ repair u).
      eapply XS_tok; [apply (T_esc Top); [discriminate|solid_c]|exact HX].
    - rewrite vf_esc_str_toks, esc_str_toks by exact Ht.
      apply KK_any. apply KK_toks. exact Ht.
  Qed.

  Lemma tstrV_Q : forall t, tok_ok t -> forall s, Rr s -> Qs (V (esc_str c1 t) ++ s).
  Proof.
    intros t [Hne [->|Ht]] s Hr.
    - rewrite esc_str_bs. change (V [92; 92]) with (@cons cp 92 [92]). apply Qs_cons; discriminate.
    - rewrite esc_str_toks by exact Ht. apply toksV_Q; assumption.
  Qed.

  (* ---------- the strings of a grapheme ---------- *)
  Lemma charsV_cons : forall t cs, V (chars1 c1 (t :: cs)) = V (esc_str c1 t) ++ V (chars1 c1 cs).
  Proof. intros t cs. unfold chars1. cbn [map concat]. apply V_app. Qed.

  Lemma charsV_Q : forall cs, Forall tok_ok cs -> cs <> [] ->
    forall s, Rr s -> Qs (V (chars1 c1 cs) ++ s).
  Proof.
    intros cs HF. induction HF as [|t cs Ht HF IH]; intros Hne s Hr; [congruence|].
    rewrite charsV_cons, <- app_assoc. apply tstrV_Q; [exact Ht|].
    destruct cs as [|t2 cs]; [exact Hr|].
    apply Qs_Rr. apply IH; [discriminate|exact Hr].
  Qed.

  Lemma KK_chars : forall cs, Forall tok_ok cs -> KK Qw (vf (chars0 c0 cs)) (V (chars1 c1 cs)).
  Proof.
    intros cs HF. induction HF as [|t cs [Hne Ht] HF IH]; [apply KK_nil|].
    rewrite charsV_cons. unfold chars0. cbn [map concat]. rewrite vf_app. fold (chars0 c0 cs).
    eapply KK_app; [apply KK_tstr; exact Ht|exact IH|].
    intros u Hq. destruct cs as [|t2 cs]; [apply Hq|].
    apply (charsV_Q (t2 :: cs) HF); [discriminate|apply Hq].
  Qed.

  (* ---------- bracket classes ---------- *)
  Lemma nwinP_n123 : forall w p s, Forall (fun a => a <> 123) w -> p <> 123 ->
    (forall q, q <> 123 -> nwinP q s) -> nwinP p (w ++ s).
  Proof.
    induction w as [|a w IH]; intros p s Hw Hp Hk; [apply Hk; exact Hp|].
    inversion Hw; subst. cbn [app nwinP]. split; [intros E; contradiction|]. apply IH; assumption.
  Qed.

  Lemma nwinP_vimg : forall (x : cp) p s,
    (p = 123 -> 124 <= x) -> (forall q, (q = 123 -> x = 123) -> nwinP q s) -> nwinP p (vimg x ++ s).
  Proof.
    intros x p s Hp Hk. destruct (vimg_shape x) as [->|(w & -> & _ & Hw & _)].
    - cbn [app nwinP]. split; [intros E; apply hexc_big; apply Hp; exact E|]. apply Hk. tauto.
    - cbn [app nwinP]. split; [intros _; reflexivity|].
      apply nwinP_n123; [exact Hw|discriminate|]. intros q Hq. apply Hk. intros E. contradiction.
  Qed.

  Lemma nwinP_member_V : forall x p s,
    (p = 123 -> 124 <= x) -> (forall q, (q = 123 -> x = 123) -> nwinP q s) ->
    nwinP p (V (cc_escape x) ++ s).
  Proof.
    intros x p s Hp Hk. unfold V. destruct (cc_escape_shape x) as [[-> _]|(z & -> & Hz & _)].
    - rewrite verbose_rewrite_cons. change (verbose_rewrite []) with (@nil cp). rewrite app_nil_r.
      apply nwinP_vimg; assumption.
    - rewrite !verbose_rewrite_cons. change (verbose_rewrite []) with (@nil cp). rewrite app_nil_r.
      change (vimg 92) with (@cons cp 92 nil). cbn [app nwinP]. split; [intros _; reflexivity|].
      apply nwinP_vimg; [discriminate|]. intros q Hq. apply Hk. intros E. exfalso. apply Hz. apply Hq. exact E.
  Qed.

  Lemma nwinP_entries_V : forall es lo p, ent_sorted lo es -> (p = 123 -> 124 <= lo) ->
    nwinP p (V (flat_map entry_str es) ++ [93]).
  Proof.
    induction es as [|e es IH]; intros lo p Hs Hp.
    - cbn [flat_map]. change (V []) with (@nil cp). cbn [app nwinP]. split; [intros _; reflexivity|exact I].
    - destruct e as [x|a b]; cbn [ent_sorted] in Hs; cbn [flat_map entry_str].
      + destruct Hs as [Hlo Hs]. rewrite V_app, <- app_assoc.
        apply nwinP_member_V.
        * intros E. specialize (Hp E). unfold cp in *. lia.
        * intros q Hq. apply (IH (x + 1)); [exact Hs|].
          intros E. rewrite (Hq E). reflexivity.
      + destruct Hs as (Hlo & Hab & Hs).
        rewrite !V_app. rewrite <- !app_assoc.
        apply nwinP_member_V.
        * intros E. specialize (Hp E). unfold cp in *. lia.
        * intros q _.
          match goal with |- nwinP q (V ?h ++ _) => change (V h) with (@cons cp 45 nil) end.
          cbn [app nwinP]. split; [intros _; reflexivity|].
          apply nwinP_member_V; [discriminate|].
          intros q' Hq'. apply (IH (b + 1)); [exact Hs|].
          intros E. rewrite (Hq' E). reflexivity.
  Qed.

  Lemma cc_repair_V : forall cf cs s, printable cf -> wf_cc gap cs ->
    repair (V (cc_str cf cs) ++ s) = V (cc_str cf cs) ++ repair s.
  Proof.
    intros cf cs s Hp Hwf. pose proof Hwf as (Hlen & _).
    rewrite (cc_str_entries cf Hp cs Hlen). rewrite !V_app.
    match goal with |- repair ((V ?o ++ _ ++ V ?k) ++ _) = _ =>
      change (V o) with (@cons cp 91 nil); change (V k) with (@cons cp 93 nil) end.
    cbn [app]. rewrite repair_raw1 by discriminate. f_equal.
    apply (repair_nwin _ 0).
    eapply nwinP_entries_V; [eapply cc_entries_sorted; exact Hwf|discriminate].
  Qed.

  Lemma ccV_hd : forall cf cs s, printable cf -> wf_cc gap cs ->
    exists t, V (cc_str cf cs) ++ s = 91 :: t.
  Proof.
    intros cf cs s Hp Hwf. pose proof Hwf as (Hlen & _).
    rewrite (cc_str_entries cf Hp cs Hlen). rewrite !V_app.
    match goal with |- exists t, (V ?o ++ _) ++ _ = _ => change (V o) with (@cons cp 91 nil) end.
    cbn [app]. eexists. reflexivity.
  Qed.

  (* ---------- graphemes ---------- *)
  (* the printed grapheme under c1 (g_str does not read f_esc / f_sur) *)
  Definition gp1v (g : grapheme) : str := g_str c0 (escape_g c1 g).

  Lemma g_str_10 : forall g, g_str c1 g = g_str c0 g.
  Proof. intros g. apply g_str_fl; reflexivity. Qed.

  Lemma gp1v_unfold : forall cs rs a b, 1 <= a -> a <= b ->
    gp1v (G cs rs a b)
    = let v := match rs with [] => chars1 c1 cs | _ => flat_map gp1v rs end in
      if N.eqb a 1 && N.eqb b 1 then v
      else if chars_single (map (esc_str c1) cs) then v ++ rep_str a b
      else c_group c0 v false ++ rep_str a b ++ nl.
  Proof.
    intros cs rs a b Ha Hab. unfold gp1v at 1.
    rewrite escape_g_unfold, (g_str_unfold_v c0 Hp0 Hv0) by assumption.
    destruct rs as [|r rs]; [reflexivity|].
    cbv zeta. rewrite (flat_map_map' (escape_g c1) (g_str c0) (r :: rs)).
    reflexivity.
  Qed.

  Lemma KK_nl_r : forall (P P2 : str -> Prop) a a',
    KK P2 a a' -> (forall u, P u -> P2 (nl ++ u)) -> KK P a (a' ++ nl).
  Proof.
    intros P P2 a a' H HP m2 s u Hu HX. rewrite <- app_assoc.
    apply H; [apply HP; exact Hu|]. rewrite repair_nl_l. apply XS_nl_l. exact HX.
  Qed.

  Definition g_kk (g : grapheme) : Prop :=
    KK Qs (vf (gpR c1 c0 g)) (V (gp1v g)) /\ (forall u, Rr u -> Qs (V (gp1v g) ++ u)).

  Lemma glist_kk : forall gs, Forall g_kk gs ->
    KK Qs (vf (flat_map (gpR c1 c0) gs)) (V (flat_map gp1v gs)) /\
    (gs <> [] -> forall u, Rr u -> Qs (V (flat_map gp1v gs) ++ u)).
  Proof.
    intros gs HF. induction HF as [|g gs [He Hq] _ [IHe IHq]].
    - split; [apply KK_nil|congruence].
    - assert (Hq' : forall u, Rr u -> Qs (V (flat_map gp1v (g :: gs)) ++ u)).
      { intros u Hr. cbn [flat_map]. rewrite V_app, <- app_assoc. apply Hq.
        destruct gs as [|g2 gs]; [exact Hr|].
        apply Qs_Rr. apply IHq; [discriminate|exact Hr]. }
      split; [|intros _; exact Hq'].
      cbn [flat_map]. rewrite vf_app, V_app. apply (KK_app Qs Qs); [exact He|exact IHe|].
      intros u Hs. destruct gs as [|g2 gs]; [exact Hs|].
      apply IHq; [discriminate|apply Qs_Rr; exact Hs].
  Qed.

  Lemma g_kk_all : forall g nested, wf_pg nested g -> g_kk g.
  Proof.
    induction g as [cs rs a b IH] using grapheme_ind'. intros nested Hwf.
    apply wf_pg_unfold in Hwf.
    destruct Hwf as (Hne & Htok & Ha & Hab & Hnest & Hrs & Hwfrs).
    assert (Htok' : Forall tok_ok cs) by exact Htok.
    assert (Hgood : Forall g_kk rs).
    { clear Hrs. induction IH as [|r rs Hr _ IHrs]; [constructor|].
      inversion Hwfrs; subst. constructor; [eapply Hr; eassumption|apply IHrs; assumption]. }
    assert (HgoodR : Forall (g_goodR c1 c0 is_ws) rs).
    { eapply Forall_impl; [|exact Hwfrs]. intros g Hg.
      eapply (pseq_gR c1 c0 Hp0 Hcap Hesc is_ws Hws). exact Hg. }
    destruct (glist_kk rs Hgood) as [Le Lq].
    unfold g_kk. rewrite gp1v_unfold by assumption. rewrite gpR_unfold. cbv zeta.
    rewrite (g_single_eq1 c1 c0 Hp0 Hesc cs rs Htok') by (destruct Hrs as [?|[_ ?]]; auto).
    set (v1 := match rs with [] => chars1 c1 cs | _ => flat_map gp1v rs end).
    set (vR := match rs with [] => chars0 c0 cs | _ => flat_map (gpR c1 c0) rs end).
    assert (Vk : KK (fun u => (rs = [] -> Qw u) /\ (rs <> [] -> Qs u)) (vf vR) (V v1)).
    { unfold v1, vR. destruct rs as [|r rs].
      - eapply KK_weaken; [|apply KK_chars; exact Htok']. intros u [H _]. apply H. reflexivity.
      - eapply KK_weaken; [|exact Le]. intros u [_ H]. apply H. discriminate. }
    assert (Vks : KK Qs (vf vR) (V v1)).
    { eapply KK_weaken; [|exact Vk]. intros u Hs. split; intros _; [apply Qs_Qw|]; exact Hs. }
    assert (Vq : forall u, Rr u -> Qs (V v1 ++ u)).
    { intros u Hr. unfold v1. destruct rs as [|r rs].
      - apply charsV_Q; assumption.
      - apply Lq; [discriminate|exact Hr]. }
    assert (Vh : forall rest, hd_ok (vf vR ++ rest)).
    { intros rest. unfold vR. destruct rs as [|r rs].
      - apply safe_hd_ok. apply safe_hd_app. apply (chars_safe_hd c0 Hp0); assumption.
      - apply (glist_goodR c1 c0 is_ws (r :: rs) HgoodR). intros X. discriminate X. }
    clearbody v1 vR.
    destruct (N.eqb a 1 && N.eqb b 1) eqn:E11.
    - split; [exact Vks|exact Vq].
    - destruct (g_single c1 cs rs) eqn:Es.
      + assert (Ers : rs = []).
        { destruct rs as [|r rs]; [reflexivity|discriminate Es]. }
        split.
        * rewrite vf_app, vf_rep_str, V_app, V_rep_str.
          eapply KK_app; [exact Vk| |].
          -- apply KK_blk; [apply XS_rep_str|]. intros u _. apply repair_raw. apply no_bs_rep_str.
          -- intros u _. split; [intros _; apply Qw_rep|congruence].
        * intros u Hr. rewrite V_app, V_rep_str, <- app_assoc. apply Vq. apply Rr_rep.
      + split.
        * rewrite vf_app, (vf_grp c0), vf_rep_str.
          rewrite !V_app, (V_c_group c0 Hp0 Hv0), V_rep_str, V_nl.
          apply (KK_app Qs anyP); [apply (KK_grp anyP c0 (vf vR) (V v1) false); [exact Vks|apply Vh]| |intros u _; exact I].
          apply (KK_nl_r Qs anyP); [|intros u _; exact I].
          apply KK_blk; [apply XS_rep_str|]. intros u _. apply repair_raw. apply no_bs_rep_str.
        * intros u Hr. rewrite !V_app, (V_c_group c0 Hp0 Hv0), <- !app_assoc. apply Qs_nl.
  Qed.

  (* ---------- clusters ---------- *)
  Lemma lit_str_gp1v : forall cl, Forall (wf_pg false) cl -> lit_str c1 cl = flat_map gp1v cl.
  Proof.
    intros cl HF. unfold lit_str. induction HF as [|g cl Hg _ IH]; [reflexivity|].
    cbn [flat_map]. rewrite IH. f_equal.
    destruct g as [cs rs a b]. destruct rs as [|r rs]; [apply g_str_10|].
    apply wf_pg_unfold in Hg.
    destruct Hg as (Hne & Htok & Ha & Hab & _ & Hrs & _).
    destruct Hrs as [Hrs|[_ Hlen]]; [discriminate|].
    rewrite g_str_10, gp1v_unfold, (g_str_unfold_v c0 Hp0 Hv0) by assumption. cbv zeta.
    assert (E1 : chars_single cs = false).
    { apply chars_single_false; [exact Hlen|].
      eapply Forall_impl; [|exact Htok]. intros t [Ht _]. exact Ht. }
    assert (E2 : chars_single (map (esc_str c1) cs) = false).
    { apply chars_single_false; [rewrite map_length; exact Hlen|].
      apply (tok_ok_esc_nonempty1 c1 c0 Hp0 Hesc). exact Htok. }
    rewrite E1, E2.
    change (map (escape_g c1) (r :: rs)) with (escape_g c1 r :: map (escape_g c1) rs).
    cbv iota.
    change (escape_g c1 r :: map (escape_g c1) rs) with (map (escape_g c1) (r :: rs)).
    rewrite (flat_map_map' (escape_g c1) (g_str c0) (r :: rs)). reflexivity.
  Qed.

  Lemma cluster_kk : forall cl, Forall (wf_pg false) cl ->
    KK Qs (vf (litR c1 c0 cl)) (V (lit_str c1 cl)) /\
    (forall u, Qs u -> Qs (V (lit_str c1 cl) ++ u)).
  Proof.
    intros cl HF. rewrite lit_str_gp1v by exact HF.
    assert (Hgood : Forall g_kk cl).
    { eapply Forall_impl; [|exact HF]. intros g Hg. eapply g_kk_all. exact Hg. }
    destruct (glist_kk cl Hgood) as [He Hq]. split; [exact He|].
    intros u Hs. destruct cl as [|g cl]; [exact Hs|].
    apply Hq; [discriminate|apply Qs_Rr; exact Hs].
  Qed.

  (* ---------- e_str under c1: verbose, no colour ---------- *)
  Lemma e_str_alt_1 : forall os, e_str c1 (EAlt os) = join sepv (map (e_str c1) os).
  Proof.
    intros os. cbn [e_str]. unfold col. change (f_colour c1) with false. cbv iota.
    change (f_verbose c1) with (f_verbose c). rewrite Hv.
    unfold txt_Pipe, sepv. f_equal.
    induction os as [|o os IH]; [reflexivity|].
    cbn [map]. rewrite prec_ge_1. cbn [andb]. rewrite IH. reflexivity.
  Qed.

  Lemma e_str_cat_1 : forall a b, e_str c1 (ECat a b) = partv c1 true 2 a ++ partv c1 true 2 b.
  Proof. intros a b. reflexivity. Qed.

  Lemma e_str_rep_1 : forall x q, e_str c1 (ERep x q) = partv c1 false 3 x ++ quant_str q ++ nl.
  Proof.
    intros x q. cbn [e_str]. unfold partv, needs_group, c_quant, col.
    change (f_colour c1) with false. cbv iota.
    change (f_verbose c1) with (f_verbose c). rewrite Hv.
    destruct (Nat.ltb (precedence x) 3 && negb (is_single_codepoint c1 x)); reflexivity.
  Qed.

  Definition e_kk (e : expr) : Prop :=
    KK Qs (vf (e_strR c1 c0 e)) (V (e_str c1 e)) /\ (forall u, Qs u -> Qs (V (e_str c1 e) ++ u)).

  Lemma part_kk : forall fb lvl x, e_kk x -> eR_hd c1 c0 x ->
    KK Qs (vf (partR c1 c0 lvl x)) (V (partv c1 fb lvl x)) /\
    (forall u, Qs u -> Qs (V (partv c1 fb lvl x) ++ u)).
  Proof.
    intros fb lvl x [Hk Hq] Hh. unfold partR, partv. destruct (needs_group c1 lvl x).
    - change (c_group c1 (e_str c1 x) fb) with (c_group c0 (e_str c1 x) fb).
      rewrite (vf_grp c0), (V_c_group c0 Hp0 Hv0). split.
      + apply (KK_grp Qs c0 _ _ fb); [exact Hk|]. apply Hh. intros _. apply hd_ok_cons; discriminate.
      + intros u _. rewrite <- !app_assoc. apply Qs_nl.
    - split; assumption.
  Qed.

  Lemma no_bs_sep : no_bs (nl ++ [124] ++ nl).
  Proof. repeat (constructor; [discriminate|]). constructor. Qed.

  Lemma alt_list_kk : forall os, Forall e_kk os ->
    KK Qs (vf (join [124] (map (e_strR c1 c0) os))) (V (join sepv (map (e_str c1) os))) /\
    (forall u, Qs u -> Qs (V (join sepv (map (e_str c1) os)) ++ u)).
  Proof.
    induction os as [|o os IH]; intros HF.
    - split; [apply KK_nil|intros u Hu; exact Hu].
    - inversion HF as [|? ? [He Hq] HF']; subst. destruct os as [|o2 os].
      + cbn [map join]. split; assumption.
      + destruct (IH HF') as [IHe IHq].
        change (join [124] (map (e_strR c1 c0) (o :: o2 :: os)))
          with (e_strR c1 c0 o ++ [124] ++ join [124] (map (e_strR c1 c0) (o2 :: os))).
        change (join sepv (map (e_str c1) (o :: o2 :: os)))
          with (e_str c1 o ++ sepv ++ join sepv (map (e_str c1) (o2 :: os))).
        rewrite !vf_app, !V_app. change (V sepv) with (nl ++ [124] ++ nl).
        change (vf [124]) with (@cons cp 124 nil). split.
        * apply (KK_app Qs Qs); [exact He| |intros u _; rewrite <- !app_assoc; apply Qs_nl].
          apply (KK_app Qs anyP); [|exact IHe|intros u _; exact I].
          apply KK_blk.
          -- apply XS_nl_l. apply XS_nl_r. apply XS_tok1.
             apply (T_plain Top); [reflexivity|solid_c|reflexivity|discriminate].
          -- intros u _. apply repair_raw. apply no_bs_sep.
        * intros u Hu. rewrite <- !app_assoc. apply Hq. apply Qs_nl.
  Qed.

  Lemma e_kk_all : forall e, wf_print_gen gap e -> e_kk e.
  Proof.
    induction e as [os IH|cs|a b IHa IHb|cl|x q IHx] using expr_ind'; intros Hwf.
    - (* EAlt *)
      apply wf_print_alt in Hwf. destruct Hwf as [Hne Hwf].
      assert (HF : Forall e_kk os).
      { clear Hne. induction IH as [|o os Ho _ IHos]; [constructor|].
        inversion Hwf; subst. constructor; [apply Ho; assumption|apply IHos; assumption]. }
      unfold e_kk. rewrite e_str_alt_1, e_strR_alt. apply alt_list_kk. exact HF.
    - (* ECC *)
      cbn [wf_print_gen] in Hwf. unfold e_kk. cbn [e_str e_strR].
      change (cc_str c1 cs) with (cc_str c0 cs). split.
      + apply KK_blk; [apply (SR_cc_str c0 Hp0); apply Hwf|].
        intros u _. apply cc_repair_V; [exact Hp0|exact Hwf].
      + intros u _. destruct (ccV_hd c0 cs u Hp0 Hwf) as [t ->]. apply Qs_cons; discriminate.
    - (* ECat *)
      cbn [wf_print_gen] in Hwf. destruct Hwf as [Hwa Hwb].
      destruct (eR_good_all c1 c0 Hp0 Hcap Hesc gap is_ws Hws a Hwa) as (Hha & _ & _).
      destruct (eR_good_all c1 c0 Hp0 Hcap Hesc gap is_ws Hws b Hwb) as (Hhb & _ & _).
      destruct (part_kk true 2 a (IHa Hwa) Hha) as [Ae Aq].
      destruct (part_kk true 2 b (IHb Hwb) Hhb) as [Be Bq].
      unfold e_kk. rewrite e_str_cat_1, e_strR_cat. rewrite vf_app, V_app. split.
      + apply (KK_app Qs Qs); [exact Ae|exact Be|exact Bq].
      + intros u Hu. rewrite <- app_assoc. apply Aq. apply Bq. exact Hu.
    - (* ELit *)
      cbn [wf_print_gen] in Hwf. unfold e_kk. cbn [e_str e_strR].
      exact (cluster_kk cl Hwf).
    - (* ERep *)
      cbn [wf_print_gen] in Hwf. destruct Hwf as [Hwx _].
      destruct (eR_good_all c1 c0 Hp0 Hcap Hesc gap is_ws Hws x Hwx) as (Hhx & _ & _).
      destruct (part_kk false 3 x (IHx Hwx) Hhx) as [Xe Xq].
      assert (Hnb : no_bs (V (quant_str q ++ nl))).
      { destruct q; vm_compute; repeat (constructor; [discriminate|]); constructor. }
      assert (Hqq : forall u, Qs (V (quant_str q ++ nl) ++ u)).
      { intros u. destruct q.
        - change (V (quant_str QStar ++ nl)) with (@cons cp 42 [10]). apply Qs_cons; discriminate.
        - change (V (quant_str QQuestion ++ nl)) with (@cons cp 63 [10]). apply Qs_cons; discriminate. }
      unfold e_kk. rewrite e_str_rep_1, e_strR_rep. rewrite vf_app, V_app. split.
      + apply (KK_app Qs Qs); [exact Xe| |intros u _; apply Hqq].
        apply KK_blk; [apply quant_rel|]. intros u _. apply repair_raw. exact Hnb.
      + intros u Hu. rewrite <- app_assoc. apply Xq. apply Hqq.
  Qed.

  (* ---------- the whole pattern after the flag line ---------- *)
  Lemma top_kk : forall e, wf_print_gen gap e ->
    KK Qs (caret1 c1 ++ vf (bodyR c1 c0 e) ++ dollar1 c1) (V (vbody c1 e)).
  Proof.
    intros e Hwf. unfold vbody. rewrite !V_app.
    destruct (e_kk_all e Hwf) as [He Hq].
    destruct (eR_good_all c1 c0 Hp0 Hcap Hesc gap is_ws Hws e Hwf) as (Hh & _ & _).
    assert (Hdq : forall u, Qs u -> Qs (V (if f_no_end c1 then [] else nl ++ [36]) ++ u)).
    { intros u Hu. destruct (f_no_end c1); [exact Hu|].
      rewrite V_app, V_nl, <- app_assoc. apply Qs_nl. }
    apply (KK_app Qs anyP); [|apply (KK_app Qs Qs)|intros u _; exact I].
    - unfold caret1. destruct (f_no_start c1); [apply KK_nil|].
      apply KK_blk.
      + rewrite V_app, V_nl. apply XS_nl_r. apply XS_tok1.
        apply (T_plain Top); [reflexivity|solid_c|reflexivity|discriminate].
      + intros u _. apply repair_raw. vm_compute. repeat (constructor; [discriminate|]). constructor.
    - unfold bodyR. destruct e as [os|cs|a b|cl|x q]; try exact He.
      change (c_group c1 (e_str c1 (EAlt os)) false) with (c_group c0 (e_str c1 (EAlt os)) false).
      rewrite (vf_grp c0), (V_c_group c0 Hp0 Hv0).
      apply (KK_grp Qs c0 _ _ false); [exact He|]. apply Hh. intros _. apply hd_ok_cons; discriminate.
    - unfold dollar1. destruct (f_no_end c1); [apply KK_nil|].
      apply KK_blk.
      + rewrite V_app, V_nl. apply XS_nl_l. apply XS_tok1.
        apply (T_plain Top); [reflexivity|solid_c|reflexivity|discriminate].
      + intros u _. apply repair_raw. vm_compute. repeat (constructor; [discriminate|]). constructor.
    - exact Hdq.
  Qed.

  Theorem top_rel_repair : forall e, wf_print_gen gap e ->
    XS Top Top (caret1 c1 ++ vf (bodyR c1 c0 e) ++ dollar1 c1) (repair (V (vbody c1 e))).
  Proof.
    intros e Hwf. pose proof (top_kk e Hwf Top [] [] Qs_nil (XS_nil Top)) as H.
    rewrite !app_nil_r in H. exact H.
  Qed.
End SurX.

(* ------------------------------------------------------------------ *)
(** * 5. the theorems *)

(* the parser model, under the x flag, accepts the re-paired verbose pattern and builds the AST
   top_rast (sur c) e — the same AST as in non-verbose mode *)
Theorem repair_parse_ast_verbose : forall isd is_ws c gap e,
  f_verbose c = true -> wf_print_gen gap e -> ws_x is_ws ->
  parse is_ws (repair (regexp_str isd (sur c) e))
  = Some (mkF (f_ci c) true, top_rast (sur c) e).
Proof.
  intros isd is_ws c gap e Hv Hwf Hws.
  pose proof (ws_ok_of_x is_ws Hws) as Hok.
  assert (Hv1' : f_verbose (sur c) = true) by exact Hv.
  rewrite (PrintShape.regexp_str_verbose isd (sur c) e Hv1' eq_refl). rewrite vrest_V.
  assert (Hfl : no_bs (vflag_str (sur c))).
  { unfold vflag_str. destruct (f_ci (sur c)); repeat (constructor; [discriminate|]); constructor. }
  rewrite (repair_raw _ _ Hfl).
  pose proof (top_rel_repair c Hv is_ws Hok gap e Hwf) as Hrel.
  pose proof (XS_repair_relayout isd (sur c) _ _ _ _ 1%nat 0%nat Hrel) as Hlay.
  pose proof (pseq_topR (sur c) (nosur c) (nosur_printable c) eq_refl eq_refl gap is_ws Hok e Hwf) as Hpq.
  set (r0 := caret1 (sur c) ++ vf (bodyR (sur c) (nosur c) e) ++ dollar1 (sur c)) in *.
  match goal with |- parse _ (_ ++ ?r) = _ => set (rest := r) in * end.
  assert (Hrun : exists r', p_seq is_ws (S (S (length rest))) true true rest [] []
                            = Some (top_rast (sur c) e, r')).
  { destruct (seq_sim is_ws Hws (S (S (length rest))) true Top r0 rest [] [] (top_rast (sur c) e) [])
      as (r' & Hr' & _); [reflexivity|exact Hlay| |exists r'; exact Hr'].
    apply Hpq.
    assert (Hlen : (length r0 <= length rest)%nat) by (apply (XS_len Top Top); exact Hlay).
    unfold cp, str in *. lia. }
  destruct Hrun as (r' & Hrun).
  unfold parse, vflag_str. change (f_ci (sur c)) with (f_ci c). destruct (f_ci c); cbn [app].
  - rewrite parse_flags_ix. cbn [fl_x]. rewrite Hrun. reflexivity.
  - rewrite parse_flags_x. cbn [fl_x]. rewrite Hrun. reflexivity.
Qed.

(* general form: `gap` is the semantic side condition under which a printed class range may
   straddle the surrogate gap (PrintParseDefs.wf_cc) *)
Theorem repair_parse_gen_verbose : forall lit_den cls_den isd is_ws c (gap : Prop) e,
  f_verbose c = true -> wf_print_gen gap e -> ws_x is_ws ->
  (gap -> forall x y, surrogate x -> ~ lit_den x y) ->
  parse is_ws (repair (regexp_str isd (sur c) e))
  = Some (mkF (f_ci c) true, top_rast (sur c) e)
  /\ (forall s, L_rast lit_den cls_den (top_rast (sur c) e) s <-> L_expr lit_den cls_den e s).
Proof.
  intros lit_den cls_den isd is_ws c gap e Hv Hwf Hws Hgap. split.
  - apply (repair_parse_ast_verbose isd is_ws c gap e Hv Hwf Hws).
  - apply (top_rast_lang1 lit_den cls_den (sur c) (nosur c) gap (nosur_printable c) eq_refl Hgap e Hwf).
Qed.

(* after re-pairing the surrogate escapes, the verbose pattern printed with f_esc and f_sur is
   accepted by the parser model, with the flags of the configuration (x set), and denotes the
   language of the expression *)
Theorem repair_parse_verbose : forall lit_den cls_den isd is_ws c e,
  f_verbose c = true -> wf_print e -> ws_x is_ws ->
  exists fl r, parse is_ws (repair (regexp_str isd (sur c) e)) = Some (fl, r)
    /\ fl_i fl = f_ci c /\ fl_x fl = true
    /\ (forall s, L_rast lit_den cls_den r s <-> L_expr lit_den cls_den e s).
Proof.
  intros lit_den cls_den isd is_ws c e Hv Hwf Hws.
  exists (mkF (f_ci c) true), (top_rast (sur c) e).
  destruct (repair_parse_gen_verbose lit_den cls_den isd is_ws c False e Hv Hwf Hws ltac:(intros []))
    as [Hp Hl].
  split; [exact Hp|split; [reflexivity|split; [reflexivity|exact Hl]]].
Qed.

(* variant: classes may straddle the surrogate gap when no literal denotes a surrogate *)
Theorem repair_parse_scalar_verbose : forall lit_den cls_den isd is_ws c e,
  f_verbose c = true -> wf_print_gen True e -> ws_x is_ws ->
  (forall x y, surrogate x -> ~ lit_den x y) ->
  exists fl r, parse is_ws (repair (regexp_str isd (sur c) e)) = Some (fl, r)
    /\ fl_i fl = f_ci c /\ fl_x fl = true
    /\ (forall s, L_rast lit_den cls_den r s <-> L_expr lit_den cls_den e s).
Proof.
  intros lit_den cls_den isd is_ws c e Hv Hwf Hws Hsur.
  exists (mkF (f_ci c) true), (top_rast (sur c) e).
  destruct (repair_parse_gen_verbose lit_den cls_den isd is_ws c True e Hv Hwf Hws (fun _ => Hsur))
    as [Hp Hl].
  split; [exact Hp|split; [reflexivity|split; [reflexivity|exact Hl]]].
Qed.

(* the re-paired verbose surrogate pattern and the verbose pattern printed without surrogates
   are both accepted, with the same flags, and denote the same language *)
Corollary repair_same_language_verbose : forall lit_den cls_den isd is_ws c e,
  f_verbose c = true -> wf_print e -> ws_x is_ws ->
  exists fl r1 r2,
    parse is_ws (repair (regexp_str isd (sur c) e)) = Some (fl, r1) /\
    parse is_ws (regexp_str isd (nosur c) e) = Some (fl, r2) /\
    (forall s, L_rast lit_den cls_den r1 s <-> L_rast lit_den cls_den r2 s).
Proof.
  intros lit_den cls_den isd is_ws c e Hv Hwf Hws.
  exists (mkF (f_ci c) true), (top_rast (sur c) e), (top_rast (nosur c) e).
  split; [|split].
  - apply (repair_parse_ast_verbose isd is_ws c False e Hv Hwf Hws).
  - apply (print_parse_verbose isd is_ws (nosur c) False e (nosur_printable c) Hv Hwf Hws).
  - intros s.
    rewrite (top_rast_lang1 lit_den cls_den (sur c) (nosur c) False (nosur_printable c) eq_refl
               ltac:(intros []) e Hwf).
    symmetry.
    apply (top_rast_lang (nosur c) (nosur_printable c) False lit_den cls_den); [intros []|exact Hwf].
Qed.

(* ------------------------------------------------------------------ *)
(** * non-vacuity: a verbose case-insensitive configuration, and an expression with a quantified
      astral code point, a space and a '#' inside an alternation under a repetition *)
Definition exv_cfg : cfg :=
  mkCfg 1 1 false false false false false false false true false false false true false false false.
Definition exv_isd (x : cp) : bool := N.leb 48 x && N.leb x 57.
Definition exv_e : expr :=
  ERep (EAlt [ELit [G [[128169]] [] 2 2; G [[32]] [] 1 1; G [[35]] [] 1 1];
              ELit [G [[128169]] [] 1 1; G [[97]] [] 1 1]]) QStar.

Lemma wf_pg_single : forall (y : cp) a b, y <> 92 -> is_scalar_value y = true -> 1 <= a -> a <= b ->
  wf_pg false (G [[y]] [] a b).
Proof.
  intros y a b H1 H2 Ha Hab. apply wf_pg_unfold. repeat split; try assumption.
  - discriminate.
  - constructor; [|constructor]. split; [discriminate|].
    right. constructor; [exact H1|exact H2|constructor].
  - intros X. discriminate X.
  - left. reflexivity.
  - constructor.
Qed.

Example exv_wf : wf_print exv_e.
Proof.
  unfold wf_print, exv_e. cbn [wf_print_gen]. split; [|intros X; discriminate X].
  split; [discriminate|]. split; [|split; [|exact I]].
  - repeat (constructor; [apply wf_pg_single; first [discriminate|reflexivity]|]). constructor.
  - repeat (constructor; [apply wf_pg_single; first [discriminate|reflexivity]|]). constructor.
Qed.

Example exv_hyps : f_verbose exv_cfg = true /\ wf_print exv_e /\ ws_x VerboseWs.is_ws.
Proof. split; [reflexivity|split; [exact exv_wf|exact ws_x_std]]. Qed.

(* the printed pattern contains the surrogate pair, split over no line *)
Example exv_parse :
  parse VerboseWs.is_ws (repair (regexp_str exv_isd (sur exv_cfg) exv_e))
  = Some (mkF true true, top_rast (sur exv_cfg) exv_e).
Proof. vm_compute. reflexivity. Qed.

Example exv_not_id :
  repair (regexp_str exv_isd (sur exv_cfg) exv_e) <> regexp_str exv_isd (sur exv_cfg) exv_e.
Proof. vm_compute. discriminate. Qed.

Example exv_unrepaired_rejected :
  parse VerboseWs.is_ws (regexp_str exv_isd (sur exv_cfg) exv_e) = None.
Proof. vm_compute. reflexivity. Qed.

Check top_rel_repair.
Check XS_repair_relayout.
Check repair_parse_ast_verbose.
Check repair_parse_gen_verbose.
Check repair_parse_verbose.
Check repair_parse_scalar_verbose.
Check repair_same_language_verbose.
Print Assumptions repair_parse_ast_verbose.
Print Assumptions repair_parse_gen_verbose.
Print Assumptions repair_parse_verbose.
Print Assumptions repair_parse_scalar_verbose.
Print Assumptions repair_same_language_verbose.
