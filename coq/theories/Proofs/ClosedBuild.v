(* The CLOSED build -- Model/SelfCheck.build_closed: the pipeline with the self-check computed inside
   the model, a function of configuration, oracle data and test cases ONLY -- inherits every theorem
   proved of  build ... sc ...  for all sc, and, where the computed self-check is total
   (Proofs/SelfCheckTotal.v), gives statements with no free input and no "if it returns":
   the closed build RETURNS a pattern, the parser model ACCEPTS it, and it matches the test cases. *)
From Grex Require Import Base.Str Model.Config Model.Cluster Model.Dfa Model.Expr Model.Print
  Model.Pipeline Model.SelfCheck.
From Grex Require Import Engine.Syntax Engine.Parse Engine.Sem.
From Grex Require Import Proofs.Lang Proofs.Spec Proofs.NormaliseDet Proofs.ClustersSpec.
From Grex Require Import Proofs.PrintParseNum Proofs.PrintParseDefs.
From Grex Require Import Proofs.ColourStripBase Proofs.SelfCheckProps Proofs.SelfCheckTotal Proofs.SelfCheckVerbose.
From Grex Require Import Proofs.PrintParseXTok Proofs.PrintParseXSim Proofs.PipelinePrintable.
From Grex Require Import Proofs.PropsGlue Proofs.PropsGlueE2E Proofs.EngineDen Proofs.EndToEndVerbose Proofs.EndToEndMerge.

Section Closed.
  Variable isd is_ws : cp -> bool.

  (* anything true of every  build ... sc ...  is true of the closed build *)
  Lemma closed_lift : forall (P : str -> Prop) c db ws,
    (forall sc s, build isd c db sc ws = Some s -> P s) ->
    forall s, build_closed isd is_ws c db ws = Some s -> P s.
  Proof.
    intros P c db ws H s Hs. destruct (build_closed_build isd is_ws c db ws s Hs) as (sc & Hb & _).
    exact (H sc s Hb).
  Qed.

  Hypothesis Hd : digit_ok isd.
  Hypothesis Hws : ws_ok is_ws.

  (* no free input, no "if": case-sensitive, non-verbose, meant for the regex crate -- the closed build
     returns a pattern, the pattern parses without flags, and every test case is matched in full
     (K4: the empty one may be lost next to a non-empty one).  Trie widening included. *)
  Theorem closed_build_total_sound : forall c db ws,
    let tcs := normalise c db ws in
    let cls := grapheme_clusters c db tcs in
    f_ci c = false ->
    ws <> [] -> Forall (Forall scalar) ws -> oracle_ok db tcs ->
    printable c -> f_verbose c = false ->
    (forall e1, cand1 c cls = Some e1 -> no_vf (cand_str isd c e1)) ->
    exists s fl r, build_closed isd is_ws c db ws = Some s
      /\ parse is_ws s = Some (fl, r) /\ fl_i fl = false /\ fl_x fl = false
      /\ forall t, In t ws -> (t <> [] \/ K4 tcs = false) -> L_rast lit_cs cls_engine r t.
  Proof.
    intros c db ws tcs cls Hci Hne Hsc Hok Hp Hv Hn.
    assert (Hsc' : Forall (Forall scalar) tcs).
    { unfold tcs. apply normalise_scalar_cs; assumption. }
    destruct (sc_ref_admissible_inputs isd is_ws Hd Hws c db ws Hne Hsc' Hok (proj2 Hp) Hv Hn) as (_ & s & Hs).
    destruct (build_closed_build isd is_ws c db ws s Hs) as (sc & Hb & _).
    destruct (build_sound_cs_any_nv isd is_ws c db sc ws s Hci Hne Hsc Hok Hp Hv Hws Hb) as (fl & r & H1 & H2 & H3 & H4).
    exists s, fl, r. repeat split; assumption.
  Qed.

  (* default-like settings: the closed build returns a pattern whose language is EXACTLY the test cases *)
  Theorem closed_build_total_exact : forall (cls0 : cp -> cp -> Prop) c db ws,
    let tcs := normalise c db ws in
    let cls := grapheme_clusters c db tcs in
    f_digit c = false /\ f_non_digit c = false /\ f_space c = false /\
    f_non_space c = false /\ f_word c = false /\ f_non_word c = false ->
    f_ci c = false -> f_rep c = false ->
    ws <> [] -> Forall (Forall scalar) ws -> oracle_ok db tcs ->
    printable c -> f_verbose c = false ->
    (forall e1, cand1 c cls = Some e1 -> no_vf (cand_str isd c e1)) ->
    exists s fl r, build_closed isd is_ws c db ws = Some s
      /\ parse is_ws s = Some (fl, r) /\ fl_i fl = false /\ fl_x fl = false
      /\ (forall u, Forall scalar u -> (u <> [] \/ K4 tcs = false) -> (L_rast lit_cs cls0 r u <-> In u ws))
      /\ (L_rast lit_cs cls0 r [] -> In [] ws).
  Proof.
    intros cls0 c db ws tcs cls Hcl Hci Hrep Hne Hsc Hok Hp Hv Hn.
    assert (Hsc' : Forall (Forall scalar) tcs).
    { unfold tcs. apply normalise_scalar_cs; assumption. }
    destruct (sc_ref_admissible_inputs isd is_ws Hd Hws c db ws Hne Hsc' Hok (proj2 Hp) Hv Hn) as (_ & s & Hs).
    destruct (build_closed_build isd is_ws c db ws s Hs) as (sc & Hb & _).
    destruct (build_exact_default_nv cls0 isd is_ws c db sc ws s Hcl Hci Hrep Hne Hsc Hok Hp Hv Hws Hb)
      as (fl & r & H1 & H2 & H3 & H4 & H5).
    exists s, fl, r. repeat split; try assumption; apply H4; assumption.
  Qed.

  (* the same in VERBOSE mode: the closed build returns "(?x)..." which parses under the x flag and
     matches every test case.  (The self-check's verbose re-compile cannot fail: SelfCheckVerbose.) *)
  Theorem closed_build_total_sound_verbose : forall c db ws,
    let tcs := normalise c db ws in
    let cls := grapheme_clusters c db tcs in
    f_ci c = false ->
    ws <> [] -> Forall (Forall scalar) ws -> oracle_ok db tcs ->
    printable c -> f_verbose c = true -> ws_x is_ws ->
    (forall e1, cand1 c cls = Some e1 -> no_vf (cand_nv c e1)) ->
    exists s fl r, build_closed isd is_ws c db ws = Some s
      /\ parse is_ws s = Some (fl, r) /\ fl_i fl = false /\ fl_x fl = true
      /\ forall t, In t ws -> (t <> [] \/ K4 tcs = false) -> L_rast lit_cs cls_engine r t.
  Proof.
    intros c db ws tcs cls Hci Hne Hsc Hok Hp Hv Hx Hn.
    assert (Hsc' : Forall (Forall scalar) tcs).
    { unfold tcs. apply normalise_scalar_cs; assumption. }
    assert (Hwp : Forall (Forall (wf_pg false)) cls).
    { apply grapheme_clusters_wf_pg; [exact Hsc'|exact Hok]. }
    assert (Hne' : cls <> []).
    { intros E. apply (normalise_nonempty c db ws Hne).
      apply length_zero_iff_nil. rewrite <- (grapheme_clusters_length c db (normalise c db ws)).
      fold tcs. fold cls. rewrite E. reflexivity. }
    destruct (build_closed_total isd is_ws Hd Hws c db ws Hwp Hne' (proj2 Hp) Hn) as (s & Hs).
    destruct (build_closed_build isd is_ws c db ws s Hs) as (sc & Hb & _).
    destruct (build_sound_cs_any_v isd is_ws c db sc ws s Hci Hne Hsc Hok Hp Hv Hx Hb) as (fl & r & H1 & H2 & H3 & H4).
    exists s, fl, r. repeat split; assumption.
  Qed.

  Theorem closed_build_total_exact_verbose : forall (cls0 : cp -> cp -> Prop) c db ws,
    let tcs := normalise c db ws in
    let cls := grapheme_clusters c db tcs in
    f_digit c = false /\ f_non_digit c = false /\ f_space c = false /\
    f_non_space c = false /\ f_word c = false /\ f_non_word c = false ->
    f_ci c = false -> f_rep c = false ->
    ws <> [] -> Forall (Forall scalar) ws -> oracle_ok db tcs ->
    printable c -> f_verbose c = true -> ws_x is_ws ->
    (forall e1, cand1 c cls = Some e1 -> no_vf (cand_nv c e1)) ->
    exists s fl r, build_closed isd is_ws c db ws = Some s
      /\ parse is_ws s = Some (fl, r) /\ fl_i fl = false /\ fl_x fl = true
      /\ (forall u, Forall scalar u -> (u <> [] \/ K4 tcs = false) -> (L_rast lit_cs cls0 r u <-> In u ws))
      /\ (L_rast lit_cs cls0 r [] -> In [] ws).
  Proof.
    intros cls0 c db ws tcs cls Hcl Hci Hrep Hne Hsc Hok Hp Hv Hx Hn.
    assert (Hsc' : Forall (Forall scalar) tcs).
    { unfold tcs. apply normalise_scalar_cs; assumption. }
    assert (Hwp : Forall (Forall (wf_pg false)) cls).
    { apply grapheme_clusters_wf_pg; [exact Hsc'|exact Hok]. }
    assert (Hne' : cls <> []).
    { intros E. apply (normalise_nonempty c db ws Hne).
      apply length_zero_iff_nil. rewrite <- (grapheme_clusters_length c db (normalise c db ws)).
      fold tcs. fold cls. rewrite E. reflexivity. }
    destruct (build_closed_total isd is_ws Hd Hws c db ws Hwp Hne' (proj2 Hp) Hn) as (s & Hs).
    destruct (build_closed_build isd is_ws c db ws s Hs) as (sc & Hb & _).
    destruct (build_exact_default_v cls0 isd is_ws c db sc ws s Hcl Hci Hrep Hne Hsc Hok Hp Hv Hx Hb)
      as (fl & r & H1 & H2 & H3 & H4 & H5).
    exists s, fl, r. repeat split; try assumption; apply H4; assumption.
  Qed.
End Closed.

Print Assumptions closed_lift.
Print Assumptions closed_build_total_sound.
Print Assumptions closed_build_total_exact.
Print Assumptions closed_build_total_sound_verbose.
Print Assumptions closed_build_total_exact_verbose.
