(* The depth-first state order: it always exists (the fuel suffices) and is a duplicate-free
   enumeration, starting with the initial state, of a set of states closed under edges. *)
From Grex Require Import Base.Str Model.Config Model.Cluster Model.Dfa Model.Expr.
From Grex Require Import Proofs.Lang Proofs.MatLemmas.

Definition dfs_ok (d : dfa) (states : list nat) : Prop :=
  NoDup states /\ hd_error states = Some (d_init d) /\ Forall (fun s => s < d_n d) states /\
  (forall e, In e (d_edges d) -> In (e_src e) states -> In (e_dst e) states).

(* ---------- neighbours ---------- *)
Lemma in_out_edges : forall es a e, In e (out_edges es a) <-> In e es /\ e_src e = a.
Proof.
  intros es a e. unfold out_edges. rewrite filter_In, <- in_rev, Nat.eqb_eq. tauto.
Qed.

Lemma in_neighbors : forall es a t, In t (neighbors es a) <-> exists e, In e es /\ e_src e = a /\ e_dst e = t.
Proof.
  intros es a t. unfold neighbors. rewrite in_map_iff. split.
  - intros [e [H1 H2]]. apply in_out_edges in H2. exists e. tauto.
  - intros [e [H1 [H2 H3]]]. exists e. split; [exact H3|]. apply in_out_edges. tauto.
Qed.

(* ---------- partial correctness ---------- *)
Record dfs_inv (d : dfa) (stack disc order : list nat) : Prop := mkDfsInv {
  di_disc : forall x, In x disc <-> In x order;
  di_nodup : NoDup order;
  di_bound_s : Forall (fun s => s < d_n d) stack;
  di_bound_o : Forall (fun s => s < d_n d) order;
  di_closed : forall e, In e (d_edges d) -> In (e_src e) order -> In (e_dst e) order \/ In (e_dst e) stack;
  di_last : (order = [] /\ stack = [d_init d]) \/ exists o', order = o' ++ [d_init d]
}.

Lemma dfs_inv_pop : forall d n stack disc order,
  dfs_inv d (n :: stack) disc order -> In n disc -> dfs_inv d stack disc order.
Proof.
  intros d n stack disc order [H1 H2 H3 H4 H5 H6] Hn. constructor; auto.
  - now inversion H3.
  - intros e He Hs. destruct (H5 e He Hs) as [H|[H|H]]; auto.
    left. rewrite <- H. now apply H1.
  - destruct H6 as [[-> _]|H6]; [|now right]. apply H1 in Hn. contradiction.
Qed.

Lemma dfs_inv_push : forall d n stack disc order,
  wf_dfa d -> dfs_inv d (n :: stack) disc order -> ~ In n disc ->
  dfs_inv d (rev (filter (fun s => negb (set_mem s (set_add n disc))) (neighbors (d_edges d) n)) ++ stack)
            (set_add n disc) (n :: order).
Proof.
  intros d n stack disc order Hwf [H1 H2 H3 H4 H5 H6] Hn.
  assert (Hn' : ~ In n order) by (now rewrite <- H1).
  constructor.
  - intros x. rewrite In_set_add. simpl. rewrite H1. split; intros [H|H]; auto.
  - now constructor.
  - apply Forall_app. split; [|now inversion H3].
    apply Forall_forall. intros x Hx. apply in_rev in Hx. apply filter_In in Hx. destruct Hx as [Hx _].
    apply in_neighbors in Hx. destruct Hx as [e [He [_ Hd]]].
    destruct Hwf as [Hwf _]. rewrite Forall_forall in Hwf. specialize (Hwf e He). lia.
  - constructor; [now inversion H3 | exact H4].
  - intros e He Hs. simpl in Hs. destruct Hs as [Hs|Hs].
    + destruct (set_mem (e_dst e) (set_add n disc)) eqn:E.
      * apply set_mem_In, In_set_add in E. left. simpl. rewrite <- H1. destruct E; auto.
      * right. apply in_or_app. left. apply in_rev. rewrite rev_involutive. apply filter_In. split.
        -- apply in_neighbors. exists e. auto.
        -- now rewrite E.
    + destruct (H5 e He Hs) as [H|[H|H]].
      * left. now right.
      * left. now left.
      * right. apply in_or_app. now right.
  - right. destruct H6 as [[-> Hst]|[o' ->]].
    + injection Hst as -> _. now exists [].
    + now exists (n :: o').
Qed.

Lemma dfs_loop_ok : forall d, wf_dfa d -> forall fuel stack disc order states,
  dfs_inv d stack disc order ->
  dfs_loop fuel (d_edges d) stack disc order = Some states -> dfs_ok d states.
Proof.
  intros d Hwf fuel. induction fuel as [|fuel IH]; intros stack disc order states Hinv Hrun.
  - destruct stack as [|n stack]; simpl in Hrun; [|discriminate].
    injection Hrun as <-. destruct Hinv as [H1 H2 H3 H4 H5 H6]. repeat split.
    + now apply NoDup_rev.
    + destruct H6 as [[_ Hst]|[o' ->]]; [discriminate|]. rewrite rev_app_distr. reflexivity.
    + apply Forall_forall. intros x Hx. apply in_rev in Hx. rewrite Forall_forall in H4. now apply H4.
    + intros e He Hs. rewrite <- in_rev in Hs. rewrite <- in_rev. destruct (H5 e He Hs) as [H|H]; [exact H | contradiction].
  - destruct stack as [|n stack]; simpl in Hrun.
    + injection Hrun as <-. destruct Hinv as [H1 H2 H3 H4 H5 H6]. repeat split.
      * now apply NoDup_rev.
      * destruct H6 as [[_ Hst]|[o' ->]]; [discriminate|]. rewrite rev_app_distr. reflexivity.
      * apply Forall_forall. intros x Hx. apply in_rev in Hx. rewrite Forall_forall in H4. now apply H4.
      * intros e He Hs. rewrite <- in_rev in Hs. rewrite <- in_rev. destruct (H5 e He Hs) as [H|H]; [exact H | contradiction].
    + destruct (set_mem n disc) eqn:E.
      * apply (IH _ _ _ _ (dfs_inv_pop _ _ _ _ _ Hinv (proj1 (set_mem_In _ _) E)) Hrun).
      * assert (Hn : ~ In n disc) by (rewrite <- set_mem_In, E; discriminate).
        apply (IH _ _ _ _ (dfs_inv_push _ _ _ _ _ Hwf Hinv Hn) Hrun).
Qed.

(* ---------- the fuel suffices ---------- *)
Definition und (es : list edge) (disc : list nat) : nat :=
  length (filter (fun e => negb (set_mem (e_src e) disc)) es).

Lemma filter_rev_length : forall {A} (f : A -> bool) l, length (filter f (rev l)) = length (filter f l).
Proof.
  intros A f l. induction l as [|x l IH]; simpl; [reflexivity|].
  rewrite filter_app, app_length, IH. simpl. destruct (f x); simpl; lia.
Qed.

Lemma filter_length_le : forall {A} (f : A -> bool) l, length (filter f l) <= length l.
Proof.
  intros A f l. induction l as [|x l IH]; simpl; [lia|]. destruct (f x); simpl; lia.
Qed.

Lemma und_discover : forall es n disc, set_mem n disc = false ->
  und es (set_add n disc) + length (out_edges es n) <= und es disc.
Proof.
  intros es n disc Hn. unfold out_edges, und. rewrite filter_rev_length.
  induction es as [|e es IH]; simpl; [lia|].
  rewrite set_mem_add. destruct (Nat.eqb (e_src e) n) eqn:E; simpl.
  - apply Nat.eqb_eq in E. rewrite E, Hn. simpl. lia.
  - destruct (set_mem (e_src e) disc); simpl; lia.
Qed.

Lemma dfs_loop_total : forall es fuel stack disc order,
  length stack + und es disc <= fuel -> exists r, dfs_loop fuel es stack disc order = Some r.
Proof.
  intros es fuel. induction fuel as [|fuel IH]; intros stack disc order Hm.
  - destruct stack as [|n stack]; simpl in *; [eauto | lia].
  - destruct stack as [|n stack]; simpl in *; [eauto|].
    destruct (set_mem n disc) eqn:E.
    + apply IH. lia.
    + apply IH. rewrite app_length, rev_length.
      pose proof (und_discover es n disc E) as H1.
      pose proof (filter_length_le (fun s => negb (set_mem s (set_add n disc))) (neighbors es n)) as H2.
      unfold neighbors in H2 at 2. rewrite map_length in H2. lia.
Qed.

Theorem dfs_order_total : forall d, exists states, dfs_order d = Some states.
Proof.
  intros d. unfold dfs_order. apply dfs_loop_total. unfold und.
  change (length [d_init d]) with 1.
  pose proof (filter_length_le (fun e => negb (set_mem (e_src e) [])) (d_edges d)). lia.
Qed.

Lemma dfs_inv_init : forall d, wf_dfa d -> dfs_inv d [d_init d] [] [].
Proof.
  intros d Hwf. constructor.
  - intros x; tauto.
  - constructor.
  - constructor; [|constructor]. apply Hwf.
  - constructor.
  - intros e _ [].
  - left. auto.
Qed.

Theorem dfs_order_ok : forall d states, wf_dfa d -> dfs_order d = Some states -> dfs_ok d states.
Proof.
  intros d states Hwf H. unfold dfs_order in H.
  exact (dfs_loop_ok d Hwf _ _ _ _ _ (dfs_inv_init d Hwf) H).
Qed.
