(* Re-pairing of UTF-16 surrogate escapes, part 6: when the re-paired pattern is the pattern printed
   without surrogates, as a string.

   The two differ exactly where the printer's "one code point or one escape sequence" test gives
   different answers on the two escaped texts of a quantified grapheme ([same_single]); this is so
   in particular when no quantified grapheme contains an astral code point ([no_q_astral]).
   Special case c1 = c0: repair is the identity on every pattern printed without surrogates. *)
From Grex Require Import Base.Str Model.Config Model.Cluster Model.Dfa Model.Expr Model.Print.
From Grex Require Import Engine.Syntax Engine.Parse.
From Grex Require Import Proofs.Lang Proofs.ExprLang Proofs.EscapeProps Proofs.PrintShape.
From Grex Require Import Proofs.PrintParseNum Proofs.PrintParseStep Proofs.PrintParseDefs
  Proofs.PrintParseEsc Proofs.PrintParseLit Proofs.PrintParseCC Proofs.PrintParseExpr
  Proofs.PrintParse
  Proofs.SurrogateRepair Proofs.SurrogateLit Proofs.SurrogateCC Proofs.SurrogateExpr
  Proofs.SurrogateDecode.
From GrexGen Require Import SrcConsts.

Lemma flat_map_ext_all : forall {A B} (f g : A -> list B) (l : list A),
  Forall (fun x => f x = g x) l -> flat_map f l = flat_map g l.
Proof.
  intros A B f g l H. induction H as [|x l Hx _ IH]; [reflexivity|].
  cbn [flat_map]. rewrite Hx, IH. reflexivity.
Qed.

Lemma map_ext_all : forall {A B} (f g : A -> B) (l : list A),
  Forall (fun x => f x = g x) l -> map f l = map g l.
Proof.
  intros A B f g l H. induction H as [|x l Hx _ IH]; [reflexivity|].
  cbn [map]. rewrite Hx, IH. reflexivity.
Qed.

Section SameSingle.
  Variables c1 c0 : cfg.

  (* the grouping decision of a quantified grapheme is the same under both configurations *)
  Fixpoint same_single (g : grapheme) {struct g} : Prop :=
    match g with
    | G cs rs a b =>
        (N.eqb a 1 && N.eqb b 1 = true \/ rs <> [] \/
         chars_single (map (esc_str c1) cs) = chars_single (map (esc_str c0) cs))
        /\ (fix go (l : list grapheme) : Prop :=
              match l with [] => True | r :: l' => same_single r /\ go l' end) rs
    end.

  Lemma same_single_unfold : forall cs rs a b,
    same_single (G cs rs a b) <->
    (N.eqb a 1 && N.eqb b 1 = true \/ rs <> [] \/
     chars_single (map (esc_str c1) cs) = chars_single (map (esc_str c0) cs))
    /\ Forall same_single rs.
  Proof.
    intros cs rs a b. cbn [same_single].
    assert (E : (fix go (l : list grapheme) : Prop :=
                   match l with [] => True | r :: l' => same_single r /\ go l' end) rs
                <-> Forall same_single rs).
    { induction rs as [|r rs IH]; [split; auto|].
      split.
      - intros [H1 H2]. constructor; [exact H1|apply IH; exact H2].
      - intros H. inversion H; subst. split; [assumption|apply IH; assumption]. }
    rewrite E. reflexivity.
  Qed.

  Fixpoint same_single_e (e : expr) {struct e} : Prop :=
    match e with
    | EAlt os =>
        (fix go (l : list expr) : Prop :=
           match l with [] => True | o :: l' => same_single_e o /\ go l' end) os
    | ECC _ => True
    | ECat a b => same_single_e a /\ same_single_e b
    | ELit cl => Forall same_single cl
    | ERep x _ => same_single_e x
    end.

  Lemma same_single_alt : forall os, same_single_e (EAlt os) <-> Forall same_single_e os.
  Proof.
    intros os. cbn [same_single_e].
    induction os as [|o os IH]; [split; auto|].
    split.
    - intros [H1 H2]. constructor; [exact H1|apply IH; exact H2].
    - intros H. inversion H; subst. split; [assumption|apply IH; assumption].
  Qed.

  Hypothesis Hcol1 : f_colour c1 = false.
  Hypothesis Hv1 : f_verbose c1 = false.
  Hypothesis Hp0 : printable c0.
  Hypothesis Hv0 : f_verbose c0 = false.
  Hypothesis Hcap : f_cap c1 = f_cap c0.
  Hypothesis Hesc : f_esc c1 = f_esc c0.
  Hypothesis Hci : f_ci c1 = f_ci c0.
  Hypothesis Hns : f_no_start c1 = f_no_start c0.
  Hypothesis Hne : f_no_end c1 = f_no_end c0.

  Lemma gpR_same : forall g nested, wf_pg nested g -> same_single g -> gpR c1 c0 g = gp c0 g.
  Proof.
    induction g as [cs rs a b IH] using grapheme_ind'. intros nested Hwf Hss.
    apply wf_pg_unfold in Hwf.
    destruct Hwf as (Hne' & Htok & Ha & Hab & Hnest & Hrs & Hwfrs).
    apply same_single_unfold in Hss. destruct Hss as [Hd Hssrs].
    assert (Htok' : Forall tok_ok cs) by exact Htok.
    rewrite gpR_unfold, (gp_unfold c0 Hp0 Hv0) by assumption. cbv zeta.
    rewrite (g_single_eq c0 Hp0 cs rs Htok') by (destruct Hrs as [?|[_ ?]]; auto).
    assert (Ers : flat_map (gpR c1 c0) rs = flat_map (gp c0) rs).
    { apply flat_map_ext_all. clear Hrs Hd.
      induction IH as [|r rs Hr _ IHrs]; [constructor|].
      inversion Hwfrs; subst. inversion Hssrs; subst.
      constructor; [eapply Hr; eassumption|apply IHrs; assumption]. }
    assert (Ev : match rs with [] => chars0 c0 cs | _ => flat_map (gpR c1 c0) rs end
                 = match rs with [] => concat (map (esc_str c0) cs) | _ => flat_map (gp c0) rs end).
    { destruct rs as [|r rs]; [reflexivity|exact Ers]. }
    rewrite Ev. destruct (N.eqb a 1 && N.eqb b 1) eqn:E11; [reflexivity|].
    assert (Es : g_single c1 cs rs = g_single c0 cs rs).
    { destruct rs as [|r rs]; [|reflexivity]. cbn [g_single].
      destruct Hd as [Hd|[Hd|Hd]]; [discriminate|congruence|exact Hd]. }
    rewrite Es. reflexivity.
  Qed.

  Lemma needs_group_same : forall lvl x, needs_group c1 lvl x = needs_group c0 lvl x.
  Proof.
    intros lvl x. unfold needs_group. f_equal. f_equal.
    destruct x; cbn [is_single_codepoint]; rewrite ?Hesc; reflexivity.
  Qed.

  Lemma e_strR_same : forall gap e, wf_print_gen gap e -> same_single_e e ->
    e_strR c1 c0 e = e_str c0 e.
  Proof.
    intros gap.
    induction e as [os IH|cs|a b IHa IHb|cl|x q IHx] using expr_ind'; intros Hwf Hss.
    - apply wf_print_alt in Hwf. destruct Hwf as [_ Hwf].
      apply same_single_alt in Hss.
      rewrite e_strR_alt, (PrintParseExpr.e_str_alt c0 Hp0 Hv0). f_equal.
      apply map_ext_all.
      induction IH as [|o os Ho _ IHos]; [constructor|].
      inversion Hwf; subst. inversion Hss; subst.
      constructor; [apply Ho; assumption|apply IHos; assumption].
    - reflexivity.
    - cbn [wf_print_gen] in Hwf. destruct Hwf as [Hwa Hwb]. cbn [same_single_e] in Hss.
      destruct Hss as [Hsa Hsb].
      rewrite e_strR_cat, (e_str_cat c0 Hp0 Hv0). unfold partR, part.
      rewrite !needs_group_same, (IHa Hwa Hsa), (IHb Hwb Hsb). reflexivity.
    - cbn [wf_print_gen] in Hwf. cbn [same_single_e] in Hss.
      cbn [e_strR e_str]. rewrite (lit_str_gp c0 Hp0 Hv0 cl Hwf). unfold litR.
      apply flat_map_ext_all.
      induction Hwf as [|g cl Hg _ IHcl]; [constructor|].
      inversion Hss; subst. constructor; [eapply gpR_same; eassumption|apply IHcl; assumption].
    - cbn [wf_print_gen] in Hwf. destruct Hwf as [Hwx _]. cbn [same_single_e] in Hss.
      rewrite e_strR_rep, (e_str_rep c0 Hp0 Hv0). unfold partR, part.
      rewrite needs_group_same, (IHx Hwx Hss). reflexivity.
  Qed.

  Lemma regexpR_same : forall isd gap e, wf_print_gen gap e -> same_single_e e ->
    regexpR c1 c0 e = regexp_str isd c0 e.
  Proof.
    intros isd gap e Hwf Hss. rewrite (regexp_str_eq isd c0 Hp0 Hv0).
    rewrite !vf_app, vf_flag, vf_caret, vf_dollar.
    unfold regexpR, flag1, caret1, dollar1, flag_str, caret_str, dollar_str.
    rewrite Hci, Hns, Hne. f_equal. f_equal. f_equal. f_equal.
    unfold bodyR, body_str. rewrite (e_strR_same gap e Hwf Hss). destruct e; reflexivity.
  Qed.

  (* under the side condition the re-paired pattern IS the pattern printed under c0 *)
  Theorem repair_print_eq_gen : forall isd gap e, wf_print_gen gap e -> same_single_e e ->
    repair (regexp_str isd c1 e) = regexp_str isd c0 e.
  Proof.
    intros isd gap e Hwf Hss.
    rewrite (repair_print c1 c0 Hcol1 Hv1 Hp0 Hv0 Hcap Hesc gap isd e Hwf).
    apply (regexpR_same isd gap e Hwf Hss).
  Qed.

  (* ---------- a sufficient condition: no astral code point in a quantified grapheme ---------- *)
  Definition no_astral (t : str) : Prop := Forall (fun y => is_astral y = false) t.

  Lemma escape_cp_no_astral : forall s y, is_astral y = false -> escape_cp s y = escape_cp false y.
  Proof. intros s y H. unfold escape_cp. rewrite H, andb_false_r. reflexivity. Qed.

  Lemma esc1_no_astral : forall y, is_astral y = false -> no_astral (esc1 y).
  Proof.
    intros y H. unfold esc1, no_astral.
    destruct (mem_cp y chars_to_escape); [repeat constructor; exact H|].
    destruct (N.eqb y 10); [repeat constructor|].
    destruct (N.eqb y 13); [repeat constructor|].
    destruct (N.eqb y 9); [repeat constructor|].
    repeat constructor. exact H.
  Qed.

  Lemma escape_symbols_no_astral : forall t, no_astral t -> no_astral (escape_symbols_str t).
  Proof.
    intros t H. rewrite escape_symbols_flat. cbv zeta.
    destruct (str_eqb (flat_map esc1 t) [c_backslash]); [repeat constructor|].
    unfold no_astral. induction H as [|y t Hy _ IH]; [constructor|].
    cbn [flat_map]. apply Forall_app. split; [apply esc1_no_astral; exact Hy|exact IH].
  Qed.

  Lemma esc_str_no_astral : forall t, no_astral t -> esc_str c1 t = esc_str c0 t.
  Proof.
    intros t H. unfold esc_str. rewrite Hesc. destruct (f_esc c0); [|reflexivity].
    destruct Hp0 as [_ Hs0]. rewrite Hs0.
    apply flat_map_ext_all. eapply Forall_impl; [|apply escape_symbols_no_astral; exact H].
    intros y Hy. apply escape_cp_no_astral. exact Hy.
  Qed.

  Fixpoint no_q_astral (g : grapheme) {struct g} : Prop :=
    match g with
    | G cs rs a b =>
        (N.eqb a 1 && N.eqb b 1 = true \/ rs <> [] \/ Forall no_astral cs)
        /\ (fix go (l : list grapheme) : Prop :=
              match l with [] => True | r :: l' => no_q_astral r /\ go l' end) rs
    end.

  Lemma no_q_astral_same : forall g, no_q_astral g -> same_single g.
  Proof.
    induction g as [cs rs a b IH] using grapheme_ind'. intros H.
    apply same_single_unfold. cbn [no_q_astral] in H. destruct H as [Hd Hrs]. split.
    - destruct Hd as [Hd|[Hd|Hd]]; [left; exact Hd|right; left; exact Hd|right; right].
      f_equal. apply map_ext_all. eapply Forall_impl; [|exact Hd].
      intros t Ht. apply esc_str_no_astral. exact Ht.
    - clear Hd. induction IH as [|r rs Hr _ IHrs]; [constructor|].
      destruct Hrs as [H1 H2]. constructor; [apply Hr; exact H1|apply IHrs; exact H2].
  Qed.

  Fixpoint no_q_astral_e (e : expr) {struct e} : Prop :=
    match e with
    | EAlt os =>
        (fix go (l : list expr) : Prop :=
           match l with [] => True | o :: l' => no_q_astral_e o /\ go l' end) os
    | ECC _ => True
    | ECat a b => no_q_astral_e a /\ no_q_astral_e b
    | ELit cl => Forall no_q_astral cl
    | ERep x _ => no_q_astral_e x
    end.

  Lemma no_q_astral_e_same : forall e, no_q_astral_e e -> same_single_e e.
  Proof.
    induction e as [os IH|cs|a b IHa IHb|cl|x q IHx] using expr_ind'; intros H.
    - cbn [no_q_astral_e] in H. apply same_single_alt.
      induction IH as [|o os Ho _ IHos]; [constructor|].
      destruct H as [H1 H2]. constructor; [apply Ho; exact H1|apply IHos; exact H2].
    - exact I.
    - cbn [no_q_astral_e] in H. destruct H as [H1 H2]. split; [apply IHa; exact H1|apply IHb; exact H2].
    - cbn [no_q_astral_e] in H. cbn [same_single_e].
      eapply Forall_impl; [|exact H]. intros g Hg. apply no_q_astral_same. exact Hg.
    - cbn [no_q_astral_e] in H. cbn [same_single_e]. apply IHx. exact H.
  Qed.
End SameSingle.

(* the condition is reflexive *)
Lemma same_single_refl : forall c g, same_single c c g.
Proof.
  intros c. induction g as [cs rs a b IH] using grapheme_ind'.
  apply same_single_unfold. split; [right; right; reflexivity|exact IH].
Qed.

Lemma same_single_e_refl : forall c e, same_single_e c c e.
Proof.
  intros c. induction e as [os IH|cs|a b IHa IHb|cl|x q IHx] using expr_ind'.
  - apply same_single_alt. exact IH.
  - exact I.
  - split; assumption.
  - cbn [same_single_e]. apply Forall_forall. intros g _. apply same_single_refl.
  - exact IHx.
Qed.

(* ------------------------------------------------------------------ *)
(** * the instances *)

(* repair is the identity on every pattern printed for the regex crate (no colour, no surrogates),
   in particular on the `nosur` outputs *)
Theorem repair_printable_id : forall isd c gap e,
  printable c -> f_verbose c = false -> wf_print_gen gap e ->
  repair (regexp_str isd c e) = regexp_str isd c e.
Proof.
  intros isd c gap e Hp Hv Hwf.
  apply (repair_print_eq_gen c c (proj1 Hp) Hv Hp Hv eq_refl eq_refl eq_refl eq_refl eq_refl
           isd gap e Hwf).
  apply same_single_e_refl.
Qed.

Corollary repair_nosur_id : forall isd c gap e,
  f_verbose c = false -> wf_print_gen gap e ->
  repair (regexp_str isd (nosur c) e) = regexp_str isd (nosur c) e.
Proof.
  intros isd c gap e Hv Hwf.
  apply (repair_printable_id isd (nosur c) gap e (nosur_printable c) Hv Hwf).
Qed.

(* where the grouping decisions agree, re-pairing the surrogate output gives the output without
   surrogates, as a string *)
Theorem repair_print_eq : forall isd c gap e,
  f_verbose c = false -> wf_print_gen gap e -> same_single_e (sur c) (nosur c) e ->
  repair (regexp_str isd (sur c) e) = regexp_str isd (nosur c) e.
Proof.
  intros isd c gap e Hv Hwf Hss.
  apply (repair_print_eq_gen (sur c) (nosur c) eq_refl Hv (nosur_printable c) Hv
           eq_refl eq_refl eq_refl eq_refl eq_refl isd gap e Hwf Hss).
Qed.

Corollary repair_print_eq_no_q_astral : forall isd c gap e,
  f_verbose c = false -> wf_print_gen gap e -> no_q_astral_e e ->
  repair (regexp_str isd (sur c) e) = regexp_str isd (nosur c) e.
Proof.
  intros isd c gap e Hv Hwf Hq. apply (repair_print_eq isd c gap e Hv Hwf).
  apply (no_q_astral_e_same (sur c) (nosur c) (nosur_printable c) eq_refl). exact Hq.
Qed.

(* ------------------------------------------------------------------ *)
(** * the strings differ on a quantified astral code point: same language, different AST *)
Definition ex_cfg : cfg :=
  mkCfg 1 1 false false false false false false false false false false false false false false false.
Definition ex_isd (x : cp) : bool := N.leb 48 x && N.leb x 57.
Definition ex_e : expr := ELit [G [[128169%N]] [] 2 2].       (* U+1F4A9 twice *)

(* ^(?:\u{d83d}\u{dca9}){2}$  —  ^(?:\u{1f4a9}){2}$  —  ^\u{1f4a9}{2}$ *)
Example ex_sur :
  regexp_str ex_isd (sur ex_cfg) ex_e
  = [94; 40; 63; 58; 92; 117; 123; 100; 56; 51; 100; 125; 92; 117; 123; 100; 99; 97; 57; 125;
     41; 123; 50; 125; 36]%N.
Proof. vm_compute. reflexivity. Qed.
Example ex_repaired :
  repair (regexp_str ex_isd (sur ex_cfg) ex_e)
  = [94; 40; 63; 58; 92; 117; 123; 49; 102; 52; 97; 57; 125; 41; 123; 50; 125; 36]%N.
Proof. vm_compute. reflexivity. Qed.
Example ex_nosur :
  regexp_str ex_isd (nosur ex_cfg) ex_e
  = [94; 92; 117; 123; 49; 102; 52; 97; 57; 125; 123; 50; 125; 36]%N.
Proof. vm_compute. reflexivity. Qed.
Example ex_ast_repaired :
  parse (fun _ => false) (repair (regexp_str ex_isd (sur ex_cfg) ex_e))
  = Some (mkF false false,
          RCat (RCat RStart (RRep (RGroup false (RLit 128169%N)) 2 (Some 2%N))) REnd).
Proof. vm_compute. reflexivity. Qed.
Example ex_ast_nosur :
  parse (fun _ => false) (regexp_str ex_isd (nosur ex_cfg) ex_e)
  = Some (mkF false false, RCat (RCat RStart (RRep (RLit 128169%N) 2 (Some 2%N))) REnd).
Proof. vm_compute. reflexivity. Qed.

Check repair_print_eq.
Check repair_print_eq_no_q_astral.
Check repair_printable_id.
Check repair_nosur_id.
Print Assumptions repair_print_eq.
Print Assumptions repair_print_eq_no_q_astral.
Print Assumptions repair_printable_id.
