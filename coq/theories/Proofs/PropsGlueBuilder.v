(* Glue for the builder wrapper (C07 documented panics): kept apart from PropsGlue.v so that the
   language/printing property files do not depend on gen/SrcBuilder.v. *)
From Grex Require Import Base.Str Model.Config.
(* ====================================================================== *)
(* 15. the documented panics of the builder (C07)                          *)
(* ====================================================================== *)
From Grex Require Import Model.Builder.
From GrexGen Require Import SrcConsts SrcBuilder.

Theorem setter_panics : forall s c msg,
  apply_setter s c = inr msg <->
  (s = with_minimum_repetitions 0%N /\ msg = msg_MINIMUM_REPETITIONS_MESSAGE)
  \/ (s = with_minimum_substring_length 0%N /\ msg = msg_MINIMUM_SUBSTRING_LENGTH_MESSAGE).
Proof.
  intros s c msg. split.
  - intros H. destruct s; cbn [apply_setter] in H; try discriminate H.
    + destruct (N.eqb_spec quantity 0); [|discriminate H]. subst. left. split; congruence.
    + destruct (N.eqb_spec length 0); [|discriminate H]. subst. right. split; congruence.
  - intros [[-> ->]|[-> ->]]; reflexivity.
Qed.

Theorem setter_thresholds_ok : forall q c, q <> 0%N ->
  apply_setter (with_minimum_repetitions q) c = inl (set_min_rep q c)
  /\ apply_setter (with_minimum_substring_length q) c = inl (set_min_len q c).
Proof.
  intros q c Hq. cbn [apply_setter]. apply N.eqb_neq in Hq. rewrite Hq. split; reflexivity.
Qed.

