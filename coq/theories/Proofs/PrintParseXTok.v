(* Printing theorem, verbose mode, part 1: the token-level relation between a pattern read without
   the x flag and a "verbose rendering" of it read under (?x).

   XS m1 m2 s s' : s' is s where
     - any amount of layout (pattern whitespace) has been inserted before tokens / at the end,
     - every raw whitespace / '#' that is content has been replaced by its verbose image
       (vimg: "\#", "\ ", \uHHHH),
   and the lexical state goes from m1 to m2 (Top: outside a bracket class, TopQ: right after an
   opening capturing parenthesis, where a '?' must not follow, Cls: inside a bracket class).
   Multi-character tokens (escapes, "(?:", counted repetitions) are never broken by layout. *)
From Grex Require Import Base.Str Base.Ranges Model.Config Model.Expr Model.Print.
From Grex Require Import Engine.Syntax Engine.Parse.
From Grex Require Import Proofs.EscapeProps Proofs.PrintParseNum Proofs.PrintParseStep Proofs.VerboseWs.
From GrexGen Require Import OracleTables SrcConsts.
Local Open Scope N_scope.

(* what the theorem needs about the engine's pattern-whitespace predicate *)
Definition ws_x (is_ws : cp -> bool) : Prop := forall x, is_ws x = mem std_whitespace x.

Inductive mode := Top | TopQ | Cls.
Definition topish (m : mode) : bool := match m with Cls => false | _ => true end.
Definition after (m : mode) : mode := match m with Cls => Cls | _ => Top end.

(* neither skipped by bump_space nor the start of a comment *)
Definition solid (x : cp) : Prop := mem std_whitespace x = false /\ x <> 35.

Inductive tok : mode -> mode -> str -> str -> Prop :=
| T_plain : forall m y, topish m = true -> solid y -> mem_cp y [92; 40; 91; 123] = false ->
    (m = TopQ -> y <> 63) -> tok m Top [y] [y]
| T_cplain : forall y, solid y -> mem_cp y [92; 93] = false -> tok Cls Cls [y] [y]
| T_ws : forall m y, (mem std_whitespace y = true \/ y = 35) -> ~ In y [9; 10; 11; 12; 13] ->
    tok m (after m) [y] (vimg y)
| T_esc : forall m z, z <> 117 -> solid z -> tok m (after m) [92; z] [92; z]
| T_u : forall m hs, Forall (fun d => Parse.is_hex d = true) hs ->
    tok m (after m) (92 :: 117 :: 123 :: hs ++ [125]) (92 :: 117 :: 123 :: hs ++ [125])
| T_lpar : forall m, topish m = true -> tok m TopQ [40] [40]
| T_nc : forall m, topish m = true -> tok m Top [40; 63; 58] [40; 63; 58]
| T_cnt : forall m n, topish m = true ->
    tok m Top (123 :: dec_of_N n ++ [125]) (123 :: dec_of_N n ++ [125])
| T_cnt2 : forall m a b, topish m = true ->
    tok m Top (123 :: dec_of_N a ++ 44 :: dec_of_N b ++ [125])
              (123 :: dec_of_N a ++ 44 :: dec_of_N b ++ [125])
| T_open : forall m, topish m = true -> tok m Cls [91] [91]
| T_close : tok Cls Top [93] [93].

Inductive XS : mode -> mode -> str -> str -> Prop :=
| XS_nil : forall m, XS m m [] []
| XS_lay : forall m1 m2 x s s', mem std_whitespace x = true -> XS m1 m2 s s' -> XS m1 m2 s (x :: s')
| XS_tok : forall m1 m m2 t t' s s', tok m1 m t t' -> XS m m2 s s' -> XS m1 m2 (t ++ s) (t' ++ s').

(* ---------- table facts ---------- *)
Lemma solid_consts :
  forallb (fun x => negb (mem std_whitespace x) && negb (N.eqb x 35))
    [92; 40; 41; 91; 93; 123; 125; 44; 63; 58; 117; 124; 42; 43; 46; 94; 36; 45; 38; 126; 110; 114; 116;
     118; 102; 100; 68; 115; 83; 119; 87] = true.
Proof. vm_compute. reflexivity. Qed.

Lemma solid_const : forall x,
  In x [92; 40; 41; 91; 93; 123; 125; 44; 63; 58; 117; 124; 42; 43; 46; 94; 36; 45; 38; 126; 110; 114; 116;
        118; 102; 100; 68; 115; 83; 119; 87] -> solid x.
Proof.
  intros x Hx. pose proof solid_consts as H. rewrite forallb_forall in H. specialize (H x Hx).
  apply andb_true_iff in H. destruct H as [H1 H2].
  apply negb_true_iff in H1. apply negb_true_iff in H2. apply N.eqb_neq in H2. split; assumption.
Qed.

Ltac solid_c := apply solid_const; cbn [In]; tauto.

Definition hexish2 : ranges := [(48, 57); (97, 102); (65, 70)].

Lemma hexish2_not_ws_b :
  sweep (BAnd (BMem hexish2) (BOr (BMem std_whitespace) (BMem [(35, 35)]))) (BConst false) = true.
Proof. vm_compute. reflexivity. Qed.

Lemma solid_hex : forall d, Parse.is_hex d = true -> solid d.
Proof.
  intros d H.
  assert (Hm : mem hexish2 d = true).
  { unfold Parse.is_hex, Parse.is_digit in H. unfold mem, hexish2, in_range. cbn [existsb fst snd].
    rewrite orb_false_r. rewrite orb_assoc. exact H. }
  pose proof (sweep_sound _ _ hexish2_not_ws_b d) as Hs. cbn [beval] in Hs.
  rewrite Hm in Hs. cbn [andb] in Hs. apply orb_false_iff in Hs. destruct Hs as [H1 H2].
  split; [exact H1|]. intros ->. discriminate H2.
Qed.

Lemma solid_dec : forall d, is_dec d -> solid d.
Proof.
  intros d [H1 H2]. apply solid_hex. unfold Parse.is_hex, Parse.is_digit.
  replace (48 <=? d) with true by (symmetry; apply N.leb_le; exact H1).
  replace (d <=? 57) with true by (symmetry; apply N.leb_le; exact H2). reflexivity.
Qed.

Lemma ws_not_solid : forall y, mem std_whitespace y = true \/ y = 35 -> ~ solid y.
Proof. intros y [H| ->] [H1 H2]; congruence. Qed.

(* the verbose image of a content whitespace / '#' *)
Lemma vimg_ws_cases : forall y, (mem std_whitespace y = true \/ y = 35) -> ~ In y [9; 10; 11; 12; 13] ->
  (y = 35 /\ vimg y = [92; 35]) \/ (y = 32 /\ vimg y = [92; 32]) \/ (In y verbose_ws /\ vimg y = esc_u4 y).
Proof.
  intros y Hy Hn. rewrite vimg_spec.
  destruct (N.eqb_spec y 35) as [->|N35]; [left; split; reflexivity|].
  destruct Hy as [Hy|Hy]; [|contradiction].
  destruct (mem_cp y verbose_ws) eqn:E.
  - right. right. split; [apply mem_cp_In; exact E|reflexivity].
  - destruct (ws_covered y Hy) as [H|H].
    + apply mem_cp_In in H. congruence.
    + cbn [In] in H, Hn.
      destruct H as [H|[H|[H|[H|[H|[H|[]]]]]]]; subst y;
        try (right; left; split; reflexivity); exfalso; apply Hn; tauto.
Qed.

Lemma vimg_solid : forall y, solid y -> vimg y = [y].
Proof.
  intros y [H1 H2]. rewrite vimg_spec. apply N.eqb_neq in H2. rewrite H2.
  destruct (mem_cp y verbose_ws) eqn:E.
  - apply mem_cp_In in E. apply verbose_ws_are_ws in E. congruence.
  - destruct (N.eqb_spec y 32) as [->|_]; [discriminate H1|reflexivity].
Qed.

Lemma vimg_ws_shape : forall y, (mem std_whitespace y = true \/ y = 35) -> ~ In y [9; 10; 11; 12; 13] ->
  exists tl_, vimg y = 92 :: tl_ /\
    (forall rest, Parse.parse_escape true (tl_ ++ rest) = Some (EscLit y, rest)) /\
    tl_ <> [] /\
    Forall (fun x => x <> 10 /\ x <> 13) tl_.
Proof.
  intros y Hy Hn. destruct (vimg_ws_cases y Hy Hn) as [[-> E]|[[-> E]|[Hin E]]]; rewrite E.
  - exists [35]. split; [reflexivity|]. split; [intros rest; reflexivity|]. split; [discriminate|].
    repeat constructor; discriminate.
  - exists [32]. split; [reflexivity|]. split; [intros rest; reflexivity|]. split; [discriminate|].
    repeat constructor; discriminate.
  - destruct (esc_u4_shape y Hin) as (a1 & a2 & a3 & a4 & Eu).
    exists [117; a1; a2; a3; a4]. split; [exact Eu|]. split; [|split; [discriminate|]].
    + intros rest. pose proof (esc_u4_exact_rest y Hin rest) as H. rewrite Eu in H. exact H.
    + pose proof (esc_u4_no_ws_gen y) as HF. rewrite Eu in HF. inversion HF as [|? ? _ HF']; subst.
      eapply Forall_impl; [|exact HF']. cbv beta. intros x [Hx _]. split; intros ->; discriminate Hx.
Qed.

(* ---------- first character of a token ---------- *)
Lemma tok_hd : forall m1 m2 t t', tok m1 m2 t t' ->
  exists y t0 y' t0', t = y :: t0 /\ t' = y' :: t0' /\ solid y' /\ (y' = y \/ (y' = 92 /\ ~ solid y)).
Proof.
  intros m1 m2 t t' H. destruct H as [m y _ Hs _ _|y Hs _|m y Hy Hn|m z _ _|m hs _|m _|m _|m n _|m a b _|m _|].
  - exists y, [], y, []. auto.
  - exists y, [], y, []. auto.
  - destruct (vimg_ws_shape y Hy Hn) as (tl_ & E & _). rewrite E.
    exists y, [], 92, tl_. repeat split; try reflexivity; [solid_c|].
    right. split; [reflexivity|apply ws_not_solid; exact Hy].
  - eexists 92, _, 92, _. repeat split; try reflexivity; [solid_c|left; reflexivity].
  - eexists 92, _, 92, _. repeat split; try reflexivity; [solid_c|left; reflexivity].
  - eexists 40, _, 40, _. repeat split; try reflexivity; [solid_c|left; reflexivity].
  - eexists 40, _, 40, _. repeat split; try reflexivity; [solid_c|left; reflexivity].
  - eexists 123, _, 123, _. repeat split; try reflexivity; [solid_c|left; reflexivity].
  - eexists 123, _, 123, _. repeat split; try reflexivity; [solid_c|left; reflexivity].
  - eexists 91, _, 91, _. repeat split; try reflexivity; [solid_c|left; reflexivity].
  - eexists 93, _, 93, _. repeat split; try reflexivity; [solid_c|left; reflexivity].
Qed.

Lemma tok_len : forall m1 m2 t t', tok m1 m2 t t' -> (length t <= length t')%nat.
Proof.
  intros m1 m2 t t' H. destruct H as [m y _ Hs _ _|y Hs _|m y Hy Hn|m z _ _|m hs _|m _|m _|m n _|m a b _|m _|];
    try apply Nat.le_refl.
  destruct (vimg_ws_shape y Hy Hn) as (tl_ & E & _). rewrite E. cbn [length]. lia.
Qed.

(* a rendered token contains neither a line feed nor a carriage return *)
Lemma solid_no_nl : forall x, solid x -> x <> 10 /\ x <> 13.
Proof. intros x [H _]. split; intros ->; discriminate H. Qed.

Lemma Forall_dec_no_nl : forall n, Forall (fun x => x <> 10 /\ x <> 13) (dec_of_N n).
Proof.
  intros n. eapply Forall_impl; [|apply dec_of_N_digits]. intros d Hd. apply solid_no_nl, solid_dec, Hd.
Qed.

Lemma tok_clean : forall m1 m2 t t', tok m1 m2 t t' -> Forall (fun x => x <> 10 /\ x <> 13) t'.
Proof.
  intros m1 m2 t t' H. destruct H as [m y _ Hs _ _|y Hs _|m y Hy Hn|m z _ Hz|m hs Hh|m _|m _|m n _|m a b _|m _|].
  - constructor; [apply solid_no_nl; exact Hs|constructor].
  - constructor; [apply solid_no_nl; exact Hs|constructor].
  - destruct (vimg_ws_shape y Hy Hn) as (tl_ & E & _ & _ & HF). rewrite E.
    constructor; [split; discriminate|exact HF].
  - constructor; [split; discriminate|]. constructor; [apply solid_no_nl; exact Hz|constructor].
  - constructor; [split; discriminate|]. constructor; [split; discriminate|].
    constructor; [split; discriminate|]. apply Forall_app. split.
    + eapply Forall_impl; [|exact Hh]. intros d Hd. apply solid_no_nl, solid_hex, Hd.
    + constructor; [split; discriminate|constructor].
  - repeat constructor; discriminate.
  - repeat constructor; discriminate.
  - constructor; [split; discriminate|]. apply Forall_app. split; [apply Forall_dec_no_nl|].
    constructor; [split; discriminate|constructor].
  - constructor; [split; discriminate|]. apply Forall_app. split; [apply Forall_dec_no_nl|].
    constructor; [split; discriminate|]. apply Forall_app. split; [apply Forall_dec_no_nl|].
    constructor; [split; discriminate|constructor].
  - repeat constructor; discriminate.
  - repeat constructor; discriminate.
Qed.

(* ---------- algebra of XS ---------- *)
Lemma XS_app : forall m1 m2 m3 a a' b b',
  XS m1 m2 a a' -> XS m2 m3 b b' -> XS m1 m3 (a ++ b) (a' ++ b').
Proof.
  intros m1 m2 m3 a a' b b' H Hb. induction H as [m|m1 m2 x s s' Hx _ IH|m1 m m2 t t' s s' Ht _ IH].
  - exact Hb.
  - cbn [app]. apply XS_lay; [exact Hx|apply IH; exact Hb].
  - rewrite <- !app_assoc. eapply XS_tok; [exact Ht|apply IH; exact Hb].
Qed.

Lemma XS_lays : forall l m1 m2 s s', Forall (fun x => mem std_whitespace x = true) l ->
  XS m1 m2 s s' -> XS m1 m2 s (l ++ s').
Proof.
  intros l m1 m2 s s' Hl H. induction Hl as [|x l Hx _ IH]; [exact H|].
  cbn [app]. apply XS_lay; assumption.
Qed.

Lemma XS_tok1 : forall m1 m2 t t', tok m1 m2 t t' -> XS m1 m2 t t'.
Proof.
  intros m1 m2 t t' H. rewrite <- (app_nil_r t), <- (app_nil_r t').
  eapply XS_tok; [exact H|apply XS_nil].
Qed.

Lemma XS_layout : forall l m, Forall (fun x => mem std_whitespace x = true) l -> XS m m [] l.
Proof.
  intros l m Hl. rewrite <- (app_nil_r l). apply XS_lays; [exact Hl|apply XS_nil].
Qed.

Lemma XS_len : forall m1 m2 s s', XS m1 m2 s s' -> (length s <= length s')%nat.
Proof.
  intros m1 m2 s s' H. induction H as [m|m1 m2 x s s' Hx _ IH|m1 m m2 t t' s s' Ht _ IH].
  - apply Nat.le_refl.
  - cbn [length]. lia.
  - rewrite !app_length. pose proof (tok_len _ _ _ _ Ht). lia.
Qed.

(* an empty rendering relates only the empty string *)
Lemma XS_nil_r : forall m1 m2 s, XS m1 m2 s [] -> s = [] /\ m1 = m2.
Proof.
  intros m1 m2 s H. inversion H as [m| |? m ? t t' s0 s0' Ht Hs E1 E2]; subst.
  - split; reflexivity.
  - destruct (tok_hd _ _ _ _ Ht) as (y & t0 & y' & t0' & _ & -> & _). discriminate.
Qed.

(* entering the "no ? next" state *)
Lemma tok_toQ : forall m2 t t', tok Top m2 t t' ->
  (forall y t0, t = y :: t0 -> y <> 63) -> tok TopQ m2 t t'.
Proof.
  intros m2 t t' H Hq. inversion H; subst.
  - apply T_plain; try assumption; try reflexivity. intros _. eapply Hq. reflexivity.
  - apply (T_ws TopQ); assumption.
  - apply (T_esc TopQ); assumption.
  - apply (T_u TopQ); assumption.
  - apply T_lpar. reflexivity.
  - apply T_nc. reflexivity.
  - apply T_cnt. reflexivity.
  - apply T_cnt2. reflexivity.
  - apply T_open. reflexivity.
Qed.

Lemma XS_toQ : forall m2 s s', XS Top m2 s s' ->
  (exists y s0, s = y :: s0 /\ y <> 63) -> XS TopQ m2 s s'.
Proof.
  intros m2 s s' H. remember Top as m1 eqn:Em.
  induction H as [m|m1 m2 x s s' Hx _ IH|m1 m m2 t t' s s' Ht Hs _]; intros (y & s0 & E & Hy); subst.
  - discriminate.
  - apply XS_lay; [exact Hx|]. apply IH; [reflexivity|]. eauto.
  - eapply XS_tok; [|exact Hs]. apply tok_toQ; [exact Ht|].
    intros y1 t0 ->. cbn [app] in E. inversion E; subst. exact Hy.
Qed.

(* ---------- bump_space on a rendering ---------- *)
Section Bump.
  Variable is_ws : cp -> bool.
  Hypothesis Hws : ws_x is_ws.

  Lemma bump_lay : forall x s, mem std_whitespace x = true -> bump is_ws true (x :: s) = bump is_ws true s.
  Proof.
    intros x s Hx. unfold bump. cbn [length skip_space]. rewrite Hws, Hx. reflexivity.
  Qed.

  Lemma bump_solid : forall y s, solid y -> bump is_ws true (y :: s) = y :: s.
  Proof.
    intros y s [H1 H2]. unfold bump. cbn [length skip_space]. rewrite Hws, H1.
    apply N.eqb_neq in H2. rewrite H2. reflexivity.
  Qed.

  Lemma bump_any : forall x y s, solid y -> bump is_ws x (y :: s) = y :: s.
  Proof. intros [|] y s H; [apply bump_solid; exact H|reflexivity]. Qed.

  (* head inversion: what the (?x) parser sees at the start of a rendering *)
  Lemma XS_hd : forall m1 m2 s s', XS m1 m2 s s' ->
    (s = [] /\ m1 = m2 /\ bump is_ws true s' = []) \/
    (exists m t t' s1 s1', s = t ++ s1 /\ bump is_ws true s' = t' ++ s1' /\ tok m1 m t t' /\ XS m m2 s1 s1').
  Proof.
    intros m1 m2 s s' H. induction H as [m|m1 m2 x s s' Hx _ IH|m1 m m2 t t' s s' Ht Hs _].
    - left. repeat split; reflexivity.
    - rewrite bump_lay by exact Hx. exact IH.
    - right. exists m, t, t', s, s'. repeat split; try assumption.
      destruct (tok_hd _ _ _ _ Ht) as (y & t0 & y' & t0' & _ & -> & Hy' & _).
      cbn [app]. apply bump_solid. exact Hy'.
  Qed.

  (* the character right after a token (no skipping): if the source does not start with q, neither
     does the rendering *)
  Lemma XS_hd_ne : forall m1 m2 s s' q, XS m1 m2 s s' -> solid q -> q <> 92 ->
    (forall y s0, s = y :: s0 -> y <> q) -> (forall y s0, s' = y :: s0 -> y <> q).
  Proof.
    intros m1 m2 s s' q H [Hq _] Hq92 Hs y s0 E. destruct H as [m|m1 m2 x s s' Hx _|m1 m m2 t t' s s' Ht _].
    - discriminate.
    - inversion E; subst. intros ->. congruence.
    - destruct (tok_hd _ _ _ _ Ht) as (y1 & t0 & y' & t0' & -> & -> & _ & Hy').
      cbn [app] in E. inversion E; subst.
      destruct Hy' as [->|[-> _]]; [|intros X; apply Hq92; symmetry; exact X].
      eapply Hs. reflexivity.
  Qed.

  Lemma XS_lazy : forall m1 m2 s s', XS m1 m2 s s' -> lazy_follows s = false -> lazy_follows s' = false.
  Proof.
    intros m1 m2 s s' H Hl. destruct s' as [|y s0]; [reflexivity|].
    unfold lazy_follows. apply N.eqb_neq.
    eapply (XS_hd_ne _ _ _ _ 63 H); [solid_c|discriminate| |reflexivity].
    intros y1 s1 ->. unfold lazy_follows in Hl. apply N.eqb_neq. exact Hl.
  Qed.
End Bump.
