(* END TO END, at the string level (non-verbose, non-colour, non-surrogate output):
   the pattern printed by build() for scalar-valued test cases is accepted by the model of the
   regex crate's parser, and the parsed AST denotes the specification language.

   Composition of
     Construction.construction_lang         final expression  <->  specification
     PipelinePrintable.final_expr_wf_print  the final expression is printable
     PrintParse.print_parse(_lang_scalar)   printed pattern parses to an AST with the language
                                            of the expression
   No existing file is modified. *)
From Grex Require Import Base.Str Model.Config Model.Cluster Model.Dfa Model.Expr Model.Print.
From Grex Require Import Engine.Syntax Engine.Parse Engine.Sem.
From Grex Require Import Proofs.Lang Proofs.Spec Proofs.NormaliseDet Proofs.ClustersSpec.
From Grex Require Import Proofs.PrintParseNum Proofs.PrintParseDefs Proofs.PrintParseShape
  Proofs.PrintParse.
From Grex Require Import Proofs.Construction Proofs.PipelinePrintable.
From Grex Require Import Model.Pipeline.

Lemma build_inv : forall isd c db sc ws s, build isd c db sc ws = Some s ->
  exists e, Pipeline.final_expr c (grapheme_clusters c db (normalise c db ws)) sc = Some e
            /\ s = regexp_str isd c e.
Proof.
  intros isd c db sc ws s H. unfold build in H.
  destruct (Pipeline.final_expr c (grapheme_clusters c db (normalise c db ws)) sc) as [e|];
    [|discriminate].
  injection H as <-. exists e. split; reflexivity.
Qed.

(* ---------- C07: the printed pattern is syntactically valid (no no_merge hypothesis) ---------- *)
Theorem build_parses : forall isd is_ws c db sc ws s,
  ws <> [] ->
  Forall (Forall scalar) ws ->
  (forall s0, In s0 ws -> Forall scalar (lower' db s0)) ->
  oracle_ok db (normalise c db ws) ->
  printable c -> f_verbose c = false -> ws_ok is_ws ->
  build isd c db sc ws = Some s ->
  exists e, Pipeline.final_expr c (grapheme_clusters c db (normalise c db ws)) sc = Some e
    /\ s = regexp_str isd c e
    /\ Parse.parse is_ws s = Some (mkF (f_ci c) false, top_rast c e).
Proof.
  intros isd is_ws c db sc ws s Hne Hsc Hlow Hok Hp Hv Hws H.
  destruct (build_inv isd c db sc ws s H) as (e & He & ->).
  exists e. split; [exact He|]. split; [reflexivity|].
  apply (print_parse isd is_ws c Hp Hv Hws True e).
  exact (final_expr_wf_print c db sc ws e Hne Hsc Hlow Hok He).
Qed.

(* build never fails, so: a pattern is always produced and it always parses *)
Corollary build_parses_total : forall isd is_ws c db sc ws,
  ws <> [] ->
  Forall (Forall scalar) ws ->
  (forall s0, In s0 ws -> Forall scalar (lower' db s0)) ->
  oracle_ok db (normalise c db ws) ->
  printable c -> f_verbose c = false -> ws_ok is_ws ->
  exists s r, build isd c db sc ws = Some s
    /\ Parse.parse is_ws s = Some (mkF (f_ci c) false, r).
Proof.
  intros isd is_ws c db sc ws Hne Hsc Hlow Hok Hp Hv Hws.
  destruct (build_total isd c db sc ws) as [s Hs].
  destruct (build_parses isd is_ws c db sc ws s Hne Hsc Hlow Hok Hp Hv Hws Hs) as (e & _ & _ & Hpar).
  exists s, (top_rast c e). split; assumption.
Qed.

(* ---------- the language of the parsed pattern is the specification ---------- *)
Theorem build_parse_lang : forall lit_den cls_den isd is_ws c db sc ws s,
  ws <> [] ->
  Forall (Forall scalar) ws ->
  (forall s0, In s0 ws -> Forall scalar (lower' db s0)) ->
  oracle_ok db (normalise c db ws) ->
  printable c -> f_verbose c = false -> ws_ok is_ws ->
  (forall c0 x, surrogate c0 -> ~ lit_den c0 x) ->
  no_merge (grapheme_clusters c db (normalise c db ws)) = true ->
  build isd c db sc ws = Some s ->
  exists fl r, Parse.parse is_ws s = Some (fl, r) /\ fl_i fl = f_ci c /\ fl_x fl = false
    /\ (forall u, (u <> [] \/ K4 (normalise c db ws) = false) ->
          (L_rast lit_den cls_den r u <-> Spec lit_den cls_den c db ws u))
    /\ (L_rast lit_den cls_den r [] -> Spec lit_den cls_den c db ws []).
Proof.
  intros lit_den cls_den isd is_ws c db sc ws s Hne Hsc Hlow Hok Hp Hv Hws Hsur Hnm H.
  destruct (build_inv isd c db sc ws s H) as (e & He & ->).
  pose proof (final_expr_wf_print c db sc ws e Hne Hsc Hlow Hok He) as Hwf.
  destruct (print_parse_lang_scalar lit_den cls_den isd is_ws c e Hp Hv Hwf Hws Hsur)
    as (fl & r & Hpar & Hi & Hx & HL).
  destruct (construction_lang lit_den cls_den c db sc ws e Hne Hok Hnm He) as [A B].
  exists fl, r. split; [exact Hpar|]. split; [exact Hi|]. split; [exact Hx|]. split.
  - intros u Hu. rewrite (HL u). exact (A u Hu).
  - intros H0. apply B. apply HL. exact H0.
Qed.

(* without the K4 exception when no empty test case sits next to a non-empty one *)
Corollary build_parse_lang_exact : forall lit_den cls_den isd is_ws c db sc ws s,
  ws <> [] ->
  Forall (Forall scalar) ws ->
  (forall s0, In s0 ws -> Forall scalar (lower' db s0)) ->
  oracle_ok db (normalise c db ws) ->
  printable c -> f_verbose c = false -> ws_ok is_ws ->
  (forall c0 x, surrogate c0 -> ~ lit_den c0 x) ->
  no_merge (grapheme_clusters c db (normalise c db ws)) = true ->
  K4 (normalise c db ws) = false ->
  build isd c db sc ws = Some s ->
  exists fl r, Parse.parse is_ws s = Some (fl, r) /\ fl_i fl = f_ci c /\ fl_x fl = false
    /\ (forall u, L_rast lit_den cls_den r u <-> Spec lit_den cls_den c db ws u).
Proof.
  intros lit_den cls_den isd is_ws c db sc ws s Hne Hsc Hlow Hok Hp Hv Hws Hsur Hnm HK H.
  destruct (build_parse_lang lit_den cls_den isd is_ws c db sc ws s
              Hne Hsc Hlow Hok Hp Hv Hws Hsur Hnm H) as (fl & r & Hpar & Hi & Hx & A & _).
  exists fl, r. split; [exact Hpar|]. split; [exact Hi|]. split; [exact Hx|].
  intros u. apply A. right. exact HK.
Qed.

(* ---------- the shape of the parsed pattern ---------- *)
(* anchors are present iff not disabled; inside, no anchor occurs, every group has the capture
   flag f_cap c, and every repetition is `*`, `?` or the {min,max} of a grapheme with
   (min,max) <> (1,1)  (PrintParseShape.shape_ok / rep_shape) *)
Theorem build_parse_shape : forall isd is_ws c db sc ws s,
  ws <> [] ->
  Forall (Forall scalar) ws ->
  (forall s0, In s0 ws -> Forall scalar (lower' db s0)) ->
  oracle_ok db (normalise c db ws) ->
  printable c -> f_verbose c = false -> ws_ok is_ws ->
  build isd c db sc ws = Some s ->
  exists e, Pipeline.final_expr c (grapheme_clusters c db (normalise c db ws)) sc = Some e
    /\ Parse.parse is_ws s = Some (mkF (f_ci c) false, rcat (top_atoms c e))
    /\ top_atoms c e = (if f_no_start c then [] else [RStart]) ++ e_atoms c e
                       ++ (if f_no_end c then [] else [REnd])
    /\ ((exists l, top_atoms c e = RStart :: l) <-> f_no_start c = false)
    /\ ((exists l, top_atoms c e = l ++ [REnd]) <-> f_no_end c = false)
    /\ Forall (shape_ok (f_cap c)) (e_atoms c e).
Proof.
  intros isd is_ws c db sc ws s Hne Hsc Hlow Hok Hp Hv Hws H.
  destruct (build_inv isd c db sc ws s H) as (e & He & ->).
  pose proof (final_expr_wf_print c db sc ws e Hne Hsc Hlow Hok He) as Hwf.
  destruct (top_atoms_shape c True e Hwf) as (S1 & S2 & E1 & E2 & Hok').
  exists e. split; [exact He|].
  split; [apply (print_parse isd is_ws c Hp Hv Hws True e Hwf)|].
  split; [reflexivity|]. split; [|split; [|exact Hok']].
  - split.
    + intros [l Hl]. destruct (f_no_start c) eqn:E; [|reflexivity]. exfalso. eapply S2; eauto.
    + exact S1.
  - split.
    + intros [l Hl]. destruct (f_no_end c) eqn:E; [|reflexivity]. exfalso. eapply E2; eauto.
    + exact E1.
Qed.

(* ---------- sanity, by computation ---------- *)
Module Sanity.
  Local Open Scope N_scope.
  Definition nows : cp -> bool := fun _ => false.
  Definition isd0 : cp -> bool := fun _ => false.
  (* test cases "$" "%" "&": the class prints as the range `\$-&`, whose upper end is a raw & *)
  Example amp_range_build :
    build isd0 default_cfg [] SCPass1 [[36]; [37]; [38]] = Some [94; 91; 92; 36; 45; 38; 93; 36].
  Proof. vm_compute. reflexivity. Qed.
  Example amp_range_parse :
    Parse.parse nows [94; 91; 92; 36; 45; 38; 93; 36]
    = Some (mkF false false, RCat (RCat RStart (RBracket [(36, 38)])) REnd).
  Proof. vm_compute. reflexivity. Qed.
  (* "a" "ab" "abc": nested optional groups, never `??` *)
  Example nested_opt_build :
    build isd0 default_cfg [] SCPass1 [[97]; [97; 98]; [97; 98; 99]]
    = Some [94; 97; 40; 63; 58; 98; 99; 63; 41; 63; 36].
  Proof. vm_compute. reflexivity. Qed.
End Sanity.

Check build_parses.
Check build_parses_total.
Check build_parse_lang.
Check build_parse_lang_exact.
Check build_parse_shape.
Print Assumptions build_parses.
Print Assumptions build_parses_total.
Print Assumptions build_parse_lang.
Print Assumptions build_parse_lang_exact.
Print Assumptions build_parse_shape.
