(* Re-pairing of UTF-16 surrogate escapes, part 3: bracket classes.  A printed class contains no
   \u escape at all (members are printed raw or as two-character escapes); the only delicate point
   is an escaped backslash followed by the members u and {: in a class with increasing members no
   hexadecimal digit can follow the brace, so `repair` leaves the class alone. *)
From Grex Require Import Base.Str Model.Config Model.Cluster Model.Dfa Model.Expr Model.Print.
From Grex Require Import Engine.Syntax Engine.Parse.
From Grex Require Import Proofs.Lang Proofs.EscapeProps.
From Grex Require Import Proofs.PrintParseNum Proofs.PrintParseStep Proofs.PrintParseDefs
  Proofs.PrintParseEsc Proofs.PrintParseLit Proofs.PrintParseCC Proofs.SurrogateRepair.
From GrexGen Require Import SrcConsts.

Definition hexc (x : cp) : bool := match hexval x with Some _ => true | None => false end.

(* no opening brace is followed by a hexadecimal digit; p is the character in front of s *)
Fixpoint nwinP (p : cp) (s : str) : Prop :=
  match s with
  | [] => True
  | y :: s' => (p = 123%N -> hexc y = false) /\ nwinP y s'
  end.

Lemma starts_hex_cons : forall x s, starts_hex (x :: s) = hexc x.
Proof. reflexivity. Qed.

Lemma repair_nwin : forall a p s, nwinP p (a ++ [93%N]) ->
  repair ((a ++ [93%N]) ++ s) = (a ++ [93%N]) ++ repair s.
Proof.
  induction a as [|x a IH]; intros p s H.
  - cbn [app]. apply repair_raw1. discriminate.
  - cbn [app] in *. destruct H as [_ H]. rewrite <- (IH x s H).
    apply repair_none. apply pair_at_none_esc.
    destruct (N.eq_dec x 92) as [->|Hx]; [|apply u_escape_not_bs; exact Hx].
    destruct a as [|z a]; [cbn [app]; apply u_escape_not_u; discriminate|].
    destruct (N.eq_dec z 117) as [->|Hz]; [|cbn [app]; apply u_escape_not_u; exact Hz].
    destruct a as [|w a]; [cbn [app]; apply u_escape_not_brace; discriminate|].
    destruct (N.eq_dec w 123) as [->|Hw]; [|cbn [app]; apply u_escape_not_brace; exact Hw].
    cbn [app]. apply u_escape_not_hex.
    cbn [app nwinP] in H. destruct H as (_ & _ & H).
    destruct a as [|h a]; [reflexivity|].
    cbn [app nwinP] in H. destruct H as [H _]. cbn [app]. rewrite starts_hex_cons. apply H. reflexivity.
Qed.

(* ---------- the printed form of a class member ---------- *)
Lemma cc_escape_shape : forall x,
  (vf (cc_escape x) = [x] /\ x <> 92%N) \/
  (exists z, vf (cc_escape x) = [92%N; z] /\ z <> 123%N /\ hexc 92%N = false).
Proof.
  intros x. unfold cc_escape. destruct (mem_cp x cc_chars_to_escape) eqn:Hm.
  - right. apply mem_cp_true_in in Hm. unfold cc_chars_to_escape in Hm. cbn [In] in Hm.
    destruct Hm as [<-|[<-|[<-|[<-|[<-|[<-|[]]]]]]]; eexists; (split; [reflexivity|split; [discriminate|reflexivity]]).
  - unfold c_nl, c_cr, c_tab, c_backslash.
    destruct (N.eqb_spec x 10) as [->|H10];
      [right; eexists; split; [reflexivity|split; [discriminate|reflexivity]]|].
    destruct (N.eqb_spec x 13) as [->|H13];
      [right; eexists; split; [reflexivity|split; [discriminate|reflexivity]]|].
    destruct (N.eqb_spec x 9) as [->|H9];
      [right; eexists; split; [reflexivity|split; [discriminate|reflexivity]]|].
    rewrite vf_single. unfold vf1.
    destruct (N.eqb_spec x 11) as [->|H11];
      [right; eexists; split; [reflexivity|split; [discriminate|reflexivity]]|].
    destruct (N.eqb_spec x 12) as [->|H12];
      [right; eexists; split; [reflexivity|split; [discriminate|reflexivity]]|].
    left. split; [reflexivity|]. intros ->. vm_compute in Hm. discriminate.
Qed.

Lemma hexc_big : forall x, (124 <= x)%N -> hexc x = false.
Proof.
  intros x H. unfold hexc, hexval.
  replace ((48 <=? x)%N && (x <=? 57)%N) with false
    by (symmetry; apply andb_false_iff; right; apply N.leb_gt; unfold cp in *; lia).
  replace ((97 <=? x)%N && (x <=? 102)%N) with false
    by (symmetry; apply andb_false_iff; right; apply N.leb_gt; unfold cp in *; lia).
  reflexivity.
Qed.

(* after the member x the last printed character q is 123 only if x is *)
Lemma nwinP_member : forall x p s,
  (p = 123%N -> (124 <= x)%N) ->
  (forall q, (q = 123%N -> x = 123%N) -> nwinP q s) ->
  nwinP p (vf (cc_escape x) ++ s).
Proof.
  intros x p s Hp Hk. destruct (cc_escape_shape x) as [[-> _]|(z & -> & Hz & _)].
  - cbn [app nwinP]. split.
    + intros E. apply hexc_big. apply Hp. exact E.
    + apply Hk. intros E. exact E.
  - cbn [app nwinP]. split; [intros _; reflexivity|]. split; [discriminate|].
    apply Hk. intros E. contradiction.
Qed.

Lemma nwinP_entries : forall es lo p, ent_sorted lo es -> (p = 123%N -> (124 <= lo)%N) ->
  nwinP p (vf (flat_map entry_str es) ++ [93%N]).
Proof.
  induction es as [|e es IH]; intros lo p Hs Hp.
  - cbn [flat_map app nwinP]. split; [intros _; reflexivity|exact I].
  - destruct e as [x|a b]; cbn [ent_sorted] in Hs; cbn [flat_map entry_str].
    + destruct Hs as [Hlo Hs]. rewrite vf_app, <- app_assoc.
      apply nwinP_member.
      * intros E. specialize (Hp E). unfold cp in *. lia.
      * intros q Hq. apply (IH (x + 1)%N); [exact Hs|].
        intros E. rewrite (Hq E). reflexivity.
    + destruct Hs as (Hlo & Hab & Hs).
      rewrite !vf_app. change (vf [45%N]) with [45%N]. rewrite <- !app_assoc.
      apply nwinP_member.
      * intros E. specialize (Hp E). unfold cp in *. lia.
      * intros q _. cbn [app nwinP]. split; [intros _; reflexivity|].
        apply nwinP_member; [discriminate|].
        intros q' Hq'. apply (IH (b + 1)%N); [exact Hs|].
        intros E. rewrite (Hq' E). reflexivity.
Qed.

Lemma cc_entries_sorted : forall gap cs, wf_cc gap cs -> ent_sorted 0%N (cc_entries cs).
Proof.
  intros gap cs Hwf. pose proof Hwf as (Hlen & Hsc & Hinc & _).
  assert (Hcs : cs <> []) by (destruct cs; [cbn [length] in Hlen; lia|discriminate]).
  destruct (cc_runs_spec cs Hcs) as (Hcat & Hch & Hne).
  destruct cs as [|x l]; [congruence|].
  unfold cc_entries. apply runs_entries_sorted; [exact Hne|].
  rewrite Hcat. apply incr_cons in Hinc. cbn [incr_from]. split; [|exact Hinc].
  unfold cp in *. lia.
Qed.

(* repair leaves a printed class alone, whatever follows *)
Theorem cc_repair : forall c gap cs s, printable c -> wf_cc gap cs ->
  repair (vf (cc_str c cs) ++ s) = vf (cc_str c cs) ++ repair s.
Proof.
  intros c gap cs s Hp Hwf. pose proof Hwf as (Hlen & _).
  rewrite (cc_str_entries c Hp cs Hlen). rewrite !vf_app.
  change (vf [91%N]) with [91%N]. change (vf [93%N]) with [93%N].
  cbn [app]. rewrite repair_raw1 by discriminate. f_equal.
  apply (repair_nwin _ 0%N).
  eapply nwinP_entries; [eapply cc_entries_sorted; exact Hwf|discriminate].
Qed.

Lemma cc_hd : forall c gap cs s, printable c -> wf_cc gap cs ->
  exists t, vf (cc_str c cs) ++ s = 91%N :: t.
Proof.
  intros c gap cs s Hp Hwf. pose proof Hwf as (Hlen & _).
  rewrite (cc_str_entries c Hp cs Hlen). rewrite !vf_app.
  change (vf [91%N]) with [91%N]. cbn [app]. eexists. reflexivity.
Qed.
