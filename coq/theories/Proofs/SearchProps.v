(* SEARCH PROPERTIES.  Property served: "with one or both anchors disabled, searching any test
   case with the pattern yields a match spanning that entire test case".

   What a leftmost-first search reports (regex crate, `find`): some (i, j) with  m h r i j  where
   i is the LEAST start admitting a match; j is ONE of the ends from i (which one is a matter of
   priority, which the engine model does not have: Exec.find_leftmost returns all of them).
   So "every search result is the whole test case" is modelled as

        forall i j, search_result t r i j -> i = 0 /\ j = length t

   with  search_result t r i j := m t r i j /\ least_start t r i.

   Results (generic shapes first, then for r := top_rast c e):
     a. search_with_dollar     pattern ends with $ (f_no_end c = false) and t is matched in full:
                               every search result is (0, length t).
     b. search_with_caret      pattern starts with ^ (f_no_start c = false): EVERY match starts at 0.
     c. search_prefix_free     no $ (f_no_end c = true), t in the language of the expression and no
                               proper prefix of t in that language: every search result is
                               (0, length t).  search_prefix_free_iff: that hypothesis is also
                               necessary.  search_prefix_witness: a proper prefix p of t in the
                               language gives the search result (0, length p) <> (0, length t) in
                               the model -- this is exactly the class of the known finding K2
                               ("leftmost-first without $"): K2's class = the prefix-freeness
                               hypothesis of (c) fails.  (Whether the real engine reports that
                               shorter end or a longer one depends on priorities; the theorem says
                               that only prefix-freeness guarantees the whole test case.)
     d. executable corollaries find_leftmost ... t r = Some (0, [length t]), for a driver.
   No existing file is modified. *)
From Grex Require Import Base.Str Model.Config Model.Cluster Model.Dfa Model.Expr Model.Print.
From Grex Require Import Engine.Syntax Engine.Parse Engine.Sem Engine.Exec.
From Grex Require Import Proofs.Lang Proofs.RepInv Proofs.ExprLang Proofs.Spec.
From Grex Require Import Proofs.PrintParseDefs Proofs.PrintParseSem Proofs.PrintParseLang
  Proofs.PrintParseShape Proofs.PrintParse.
From Grex Require Import Proofs.ExecSound.
From Grex Require Import Proofs.NormaliseDet Proofs.ClustersSpec Proofs.PrintParseNum
  Proofs.Construction Proofs.PipelinePrintable Proofs.EndToEnd.
From Grex Require Import Model.Pipeline.

(* ---------------------------------------------------------------------------------------- *)
(* proper prefixes *)

Definition proper_prefix (p t : str) : Prop := exists q, q <> [] /\ t = p ++ q.

Lemma proper_prefix_firstn : forall (t : str) k, k < length t -> proper_prefix (firstn k t) t.
Proof.
  intros t k Hk. exists (skipn k t). split.
  - intros E. pose proof (skipn_length k t) as HL. rewrite E in HL. cbn [length] in HL. lia.
  - symmetry. apply firstn_skipn.
Qed.

Lemma proper_prefix_inv : forall p t : str,
  proper_prefix p t -> length p < length t /\ p = firstn (length p) t.
Proof.
  intros p t (q & Hq & ->). split.
  - rewrite app_length. destruct q as [|x q]; [congruence|]. cbn [length]. lia.
  - rewrite firstn_app, Nat.sub_diag, firstn_all. cbn [firstn]. rewrite app_nil_r. reflexivity.
Qed.

Lemma NoDup_singleton : forall (a : nat) l,
  NoDup l -> In a l -> (forall x, In x l -> x = a) -> l = [a].
Proof.
  intros a l Hnd Ha Hall. destruct l as [|x l]; [destruct Ha|].
  assert (Hx : x = a) by (apply Hall; left; reflexivity). subst x.
  destruct l as [|y l]; [reflexivity|]. exfalso.
  assert (Hy : y = a) by (apply Hall; right; left; reflexivity). subst y.
  inversion Hnd as [|? ? Hnin _]; subst. apply Hnin. left. reflexivity.
Qed.

(* ---------------------------------------------------------------------------------------- *)
(* Generic part: any denotation of literals and classes *)

Section Search.
  Variable lit_den cls_den : cp -> cp -> Prop.
  Local Notation M := (m lit_den cls_den).
  Local Notation LR := (LR lit_den cls_den).
  Local Notation LRs := (LRs lit_den cls_den).

  (* i is the least start of a match of r in h *)
  Definition least_start (h : str) (r : rast) (i : nat) : Prop :=
    forall i' j', i' < i -> ~ M h r i' j'.

  (* (i, j) is a possible result of a leftmost search (priorities among ends not modelled) *)
  Definition search_result (h : str) (r : rast) (i j : nat) : Prop :=
    M h r i j /\ least_start h r i.

  (* every possible search result is the whole haystack *)
  Definition search_whole (h : str) (r : rast) : Prop :=
    forall i j, search_result h r i j -> i = 0 /\ j = length h.

  (* ---------- decomposition along the atom list ---------- *)
  Lemma m_rcat_app : forall h l1 l2 i j,
    M h (rcat (l1 ++ l2)) i j <-> exists k, M h (rcat l1) i k /\ M h (rcat l2) k j.
  Proof.
    intros h l1 l2 i j. rewrite m_rcat, mcat_app. split.
    - intros (k & H1 & H2). exists k. rewrite !m_rcat. split; assumption.
    - intros (k & H1 & H2). exists k. rewrite !m_rcat in *. split; assumption.
  Qed.

  Lemma m_rcat_cons : forall h a l i j,
    M h (rcat (a :: l)) i j <-> exists k, M h a i k /\ M h (rcat l) k j.
  Proof.
    intros h a l i j. rewrite m_rcat. cbn [mcat]. split.
    - intros (k & H1 & H2). exists k. rewrite m_rcat. split; assumption.
    - intros (k & H1 & H2). exists k. rewrite m_rcat in H2. split; assumption.
  Qed.

  Lemma m_rcat_one : forall h a i j, M h (rcat [a]) i j <-> M h a i j.
  Proof.
    intros h a i j. rewrite m_rcat. cbn [mcat]. split.
    - intros (k & H & <-). exact H.
    - intros H. exists j. split; [exact H|reflexivity].
  Qed.

  Lemma m_rcat_nil : forall h i j, M h (rcat []) i j <-> i = j.
  Proof. intros h i j. rewrite m_rcat. cbn [mcat]. reflexivity. Qed.

  (* ---------- the anchors ---------- *)
  (* a pattern ending with $: every match ends at the end of the haystack *)
  Lemma m_dollar_end : forall h l i j, M h (rcat (l ++ [REnd])) i j -> j = length h.
  Proof.
    intros h l i j H. apply m_rcat_app in H. destruct H as (k & _ & H).
    apply m_rcat_one in H. inversion H; subst. reflexivity.
  Qed.

  (* a pattern starting with ^: every match starts at 0 *)
  Lemma m_caret_start : forall h l i j, M h (rcat (RStart :: l)) i j -> i = 0.
  Proof.
    intros h l i j H. apply m_rcat_cons in H. destruct H as (k & H & _).
    inversion H; subst. reflexivity.
  Qed.

  (* ---------- least starts ---------- *)
  Lemma least_start_0 : forall h r, least_start h r 0.
  Proof. intros h r i' j' Hlt. lia. Qed.

  Lemma least_start_zero : forall h r j0 i, M h r 0 j0 -> least_start h r i -> i = 0.
  Proof.
    intros h r j0 i H0 Hl. destruct i as [|i]; [reflexivity|].
    exfalso. apply (Hl 0 j0); [lia|exact H0].
  Qed.

  Lemma least_start_unique : forall h r i1 j1 i2 j2,
    search_result h r i1 j1 -> search_result h r i2 j2 -> i1 = i2.
  Proof.
    intros h r i1 j1 i2 j2 [H1 L1] [H2 L2].
    destruct (lt_eq_lt_dec i1 i2) as [[Hlt|Heq]|Hgt]; [|exact Heq|].
    - exfalso. exact (L2 i1 j1 Hlt H1).
    - exfalso. exact (L1 i2 j2 Hgt H2).
  Qed.

  (* ---------- a. with $ ---------- *)
  Theorem search_with_dollar_gen : forall (l : list rast) (t : str),
    M t (rcat (l ++ [REnd])) 0 (length t) ->
    forall i j, M t (rcat (l ++ [REnd])) i j -> least_start t (rcat (l ++ [REnd])) i ->
    i = 0 /\ j = length t.
  Proof.
    intros l t Hfull i j Hm Hl. split.
    - exact (least_start_zero t _ (length t) i Hfull Hl).
    - exact (m_dollar_end t l i j Hm).
  Qed.

  (* ---------- b. with ^ ---------- *)
  Theorem search_with_caret_gen : forall (l : list rast) (t : str) i j,
    M t (rcat (RStart :: l)) i j -> i = 0.
  Proof. intros l t i j H. exact (m_caret_start t l i j H). Qed.

  (* ---------- c. without $: prefix-freeness, position form (any r) ---------- *)
  Theorem search_prefix_free_gen : forall (r : rast) (t : str),
    M t r 0 (length t) ->
    (forall k, k < length t -> ~ M t r 0 k) ->
    search_whole t r.
  Proof.
    intros r t Hfull Hpf i j [Hm Hl].
    assert (Hi : i = 0) by exact (least_start_zero t r (length t) i Hfull Hl). subst i.
    split; [reflexivity|].
    pose proof (m_le lit_den cls_den t r 0 j Hm) as Hb.
    destruct (Nat.eq_dec j (length t)) as [E|NE]; [exact E|].
    exfalso. apply (Hpf j); [lia|exact Hm].
  Qed.

  Theorem search_prefix_witness_gen : forall (r : rast) (t : str) k,
    M t r 0 k -> k < length t ->
    search_result t r 0 k /\ (0, k) <> (0, length t).
  Proof.
    intros r t k Hm Hk. split.
    - split; [exact Hm|apply least_start_0].
    - intros E. inversion E. lia.
  Qed.

  (* prefix-freeness is exactly what is needed *)
  Theorem search_prefix_free_iff_gen : forall (r : rast) (t : str),
    M t r 0 (length t) ->
    (search_whole t r <-> forall k, k < length t -> ~ M t r 0 k).
  Proof.
    intros r t Hfull. split.
    - intros Hw k Hk Hm.
      destruct (search_prefix_witness_gen r t k Hm Hk) as [Hs _].
      destruct (Hw 0 k Hs) as [_ E]. lia.
    - apply search_prefix_free_gen. exact Hfull.
  Qed.

  (* with ^ and prefix-freeness, EVERY match (not only the leftmost ones) is the whole haystack *)
  Theorem search_caret_prefix_free_gen : forall (l : list rast) (t : str),
    (forall k, k < length t -> ~ M t (rcat (RStart :: l)) 0 k) ->
    forall i j, M t (rcat (RStart :: l)) i j -> i = 0 /\ j = length t.
  Proof.
    intros l t Hpf i j Hm.
    assert (Hi : i = 0) by exact (m_caret_start t l i j Hm). subst i.
    split; [reflexivity|].
    pose proof (m_le lit_den cls_den t _ 0 j Hm) as Hb.
    destruct (Nat.eq_dec j (length t)) as [E|NE]; [exact E|].
    exfalso. apply (Hpf j); [lia|exact Hm].
  Qed.

  (* ---------- matches from 0 of an anchor-free body are the prefixes in its language ---------- *)
  Lemma slice_0 : forall (h : str) k, slice h 0 k = firstn k h.
  Proof. intros h k. unfold slice. rewrite Nat.sub_0_r. reflexivity. Qed.

  Lemma m_prefix_af : forall (r : rast) (t : str) k, af r -> k <= length t ->
    (M t r 0 k <-> LR r (firstn k t)).
  Proof.
    intros r t k Haf Hk. split.
    - intros H. apply m_sound in H; [|exact Haf]. destruct H as [_ H].
      rewrite slice_0 in H. exact H.
    - intros H. pose proof (m_complete lit_den cls_den r Haf (firstn k t) [] (skipn k t) H) as Hm.
      cbn [app length] in Hm. rewrite firstn_skipn in Hm.
      rewrite firstn_length_le in Hm by exact Hk. exact Hm.
  Qed.

  (* ... also behind an optional ^ *)
  Lemma m_prefix_lang : forall (ns : bool) (body : list rast) (t : str) k,
    afs body -> k <= length t ->
    (M t (rcat ((if ns then [] else [RStart]) ++ body)) 0 k <-> LRs body (firstn k t)).
  Proof.
    intros ns body t k Haf Hk.
    rewrite <- (LR_rcat lit_den cls_den body (firstn k t)).
    rewrite <- (m_prefix_af (rcat body) t k (af_rcat body Haf) Hk).
    rewrite m_rcat_app. split.
    - intros (k0 & H1 & H2). destruct ns.
      + apply m_rcat_nil in H1. subst k0. exact H2.
      + apply m_rcat_one in H1. inversion H1; subst. exact H2.
    - intros H. exists 0. split; [|exact H]. destruct ns.
      + apply m_rcat_nil. reflexivity.
      + apply m_rcat_one. constructor.
  Qed.

  (* a match that is a search result of a pattern without $ and the language of the body *)
  Theorem search_prefix_free_lang_gen : forall (ns : bool) (body : list rast) (t : str),
    afs body ->
    LRs body t ->
    (forall p, proper_prefix p t -> ~ LRs body p) ->
    search_whole t (rcat ((if ns then [] else [RStart]) ++ body)).
  Proof.
    intros ns body t Haf Hfull Hpf. apply search_prefix_free_gen.
    - apply (m_prefix_lang ns body t (length t) Haf (le_n _)). rewrite firstn_all. exact Hfull.
    - intros k Hk Hm. apply (m_prefix_lang ns body t k Haf) in Hm; [|lia].
      exact (Hpf _ (proper_prefix_firstn t k Hk) Hm).
  Qed.

  Theorem search_prefix_witness_lang_gen : forall (ns : bool) (body : list rast) (p t : str),
    afs body -> proper_prefix p t -> LRs body p ->
    search_result t (rcat ((if ns then [] else [RStart]) ++ body)) 0 (length p)
    /\ length p < length t.
  Proof.
    intros ns body p t Haf Hpp Hp. destruct (proper_prefix_inv p t Hpp) as [Hlen Hfn].
    split; [|exact Hlen]. split; [|apply least_start_0].
    apply (m_prefix_lang ns body t (length p) Haf); [lia|]. rewrite <- Hfn. exact Hp.
  Qed.
End Search.

(* ---------------------------------------------------------------------------------------- *)
(* The printed pattern: r := top_rast c e *)

Section Top.
  Variable lit_den cls_den : cp -> cp -> Prop.
  Variable c : cfg.
  Local Notation M := (m lit_den cls_den).
  Local Notation Le := (L_expr lit_den cls_den).

  Lemma top_rast_dollar : forall e, f_no_end c = false ->
    top_rast c e = rcat (((if f_no_start c then [] else [RStart]) ++ e_atoms c e) ++ [REnd]).
  Proof.
    intros e H. unfold top_rast, top_atoms. rewrite H, app_assoc. reflexivity.
  Qed.

  Lemma top_rast_caret : forall e, f_no_start c = false ->
    top_rast c e = rcat (RStart :: e_atoms c e ++ (if f_no_end c then [] else [REnd])).
  Proof. intros e H. unfold top_rast, top_atoms. rewrite H. reflexivity. Qed.

  Lemma top_rast_no_dollar : forall e, f_no_end c = true ->
    top_rast c e = rcat ((if f_no_start c then [] else [RStart]) ++ e_atoms c e).
  Proof. intros e H. unfold top_rast, top_atoms. rewrite H, app_nil_r. reflexivity. Qed.

  (* a. the pattern ends with $ and matches the test case in full: every possible result of a
        leftmost search is the whole test case (no well-formedness hypothesis is needed) *)
  Theorem search_with_dollar : forall (e : expr) (t : str),
    f_no_end c = false ->
    M t (top_rast c e) 0 (length t) ->
    forall i j, M t (top_rast c e) i j ->
      (forall i' j', i' < i -> ~ M t (top_rast c e) i' j') ->
      i = 0 /\ j = length t.
  Proof.
    intros e t Hne. rewrite (top_rast_dollar e Hne). intros Hfull i j Hm Hl.
    exact (search_with_dollar_gen lit_den cls_den _ t Hfull i j Hm Hl).
  Qed.

  (* b. the pattern starts with ^: every match starts at 0 *)
  Theorem search_with_caret : forall (e : expr) (t : str) i j,
    f_no_start c = false -> M t (top_rast c e) i j -> i = 0.
  Proof.
    intros e t i j Hns. rewrite (top_rast_caret e Hns). intros Hm.
    exact (search_with_caret_gen lit_den cls_den _ t i j Hm).
  Qed.

  (* b + a: both anchors: the only match at all is the whole test case *)
  Theorem search_with_both : forall (e : expr) (t : str) i j,
    f_no_start c = false -> f_no_end c = false ->
    M t (top_rast c e) i j -> i = 0 /\ j = length t.
  Proof.
    intros e t i j Hns Hne Hm. split.
    - exact (search_with_caret e t i j Hns Hm).
    - rewrite (top_rast_dollar e Hne) in Hm. exact (m_dollar_end lit_den cls_den t _ i j Hm).
  Qed.

  (* c, position form: no hypothesis on the shape at all *)
  Theorem search_prefix_free_pos : forall (e : expr) (t : str),
    M t (top_rast c e) 0 (length t) ->
    (forall k, k < length t -> ~ M t (top_rast c e) 0 k) ->
    search_whole lit_den cls_den t (top_rast c e).
  Proof. intros e t. apply search_prefix_free_gen. Qed.

  Theorem search_prefix_witness_pos : forall (e : expr) (t : str) k,
    M t (top_rast c e) 0 k -> k < length t ->
    search_result lit_den cls_den t (top_rast c e) 0 k /\ (0, k) <> (0, length t).
  Proof. intros e t k. apply search_prefix_witness_gen. Qed.

  (* c, language form: for printable configurations and well-formed expressions *)
  Hypothesis Hp : printable c.
  Variable gap : Prop.
  Hypothesis Hgap : gap -> forall c0 x, surrogate c0 -> ~ lit_den c0 x.

  Lemma e_atoms_lang : forall e, wf_print_gen gap e ->
    afs (e_atoms c e) /\ forall s, LRs lit_den cls_den (e_atoms c e) s <-> Le e s.
  Proof.
    intros e Hwf. destruct (e_sem_all lit_den cls_den c gap Hp Hgap e Hwf) as (H1 & _ & _ & H4 & _).
    split; [exact H4|exact H1].
  Qed.

  (* the matches from 0 of a pattern without $ are the prefixes in the language of e *)
  Theorem top_prefix_lang : forall e, wf_print_gen gap e -> f_no_end c = true ->
    forall (t : str) k, k <= length t -> (M t (top_rast c e) 0 k <-> Le e (firstn k t)).
  Proof.
    intros e Hwf Hne t k Hk. destruct (e_atoms_lang e Hwf) as [Haf HL].
    rewrite (top_rast_no_dollar e Hne), <- HL.
    apply m_prefix_lang; assumption.
  Qed.

  Theorem search_prefix_free : forall (e : expr) (t : str),
    wf_print_gen gap e -> f_no_end c = true ->
    Le e t ->
    (forall p, proper_prefix p t -> ~ Le e p) ->
    forall i j, M t (top_rast c e) i j ->
      (forall i' j', i' < i -> ~ M t (top_rast c e) i' j') ->
      i = 0 /\ j = length t.
  Proof.
    intros e t Hwf Hne Hfull Hpf i j Hm Hl. destruct (e_atoms_lang e Hwf) as [Haf HL].
    rewrite (top_rast_no_dollar e Hne) in *.
    apply (search_prefix_free_lang_gen lit_den cls_den (f_no_start c) (e_atoms c e) t Haf).
    - apply HL. exact Hfull.
    - intros p Hpp Hp'. apply (Hpf p Hpp). apply HL. exact Hp'.
    - split; assumption.
  Qed.

  (* the class of the known finding K2: the prefix-freeness hypothesis fails *)
  Theorem search_prefix_witness : forall (e : expr) (p t : str),
    wf_print_gen gap e -> f_no_end c = true ->
    proper_prefix p t -> Le e p ->
    M t (top_rast c e) 0 (length p)
    /\ (forall i' j', i' < 0 -> ~ M t (top_rast c e) i' j')
    /\ (0, length p) <> (0, length t).
  Proof.
    intros e p t Hwf Hne Hpp Hp'. destruct (e_atoms_lang e Hwf) as [Haf HL].
    rewrite (top_rast_no_dollar e Hne).
    destruct (search_prefix_witness_lang_gen lit_den cls_den (f_no_start c) (e_atoms c e) p t Haf Hpp)
      as [[Hm Hl] Hlen]; [apply HL; exact Hp'|].
    split; [exact Hm|]. split; [exact Hl|]. intros E. inversion E. lia.
  Qed.

  (* ... and nothing else: for a test case in the language of e and a pattern without $,
     "every search result is the whole test case" <-> "no proper prefix is in the language" *)
  Theorem search_prefix_free_iff : forall (e : expr) (t : str),
    wf_print_gen gap e -> f_no_end c = true -> Le e t ->
    (search_whole lit_den cls_den t (top_rast c e)
     <-> forall p, proper_prefix p t -> ~ Le e p).
  Proof.
    intros e t Hwf Hne Hfull. split.
    - intros Hw p Hpp Hp'.
      destruct (search_prefix_witness e p t Hwf Hne Hpp Hp') as (Hm & Hl & _).
      destruct (Hw 0 (length p) (conj Hm Hl)) as [_ E].
      destruct (proper_prefix_inv p t Hpp) as [Hlen _]. lia.
    - intros Hpf i j [Hm Hl]. exact (search_prefix_free e t Hwf Hne Hfull Hpf i j Hm Hl).
  Qed.

  (* b + c: with ^ but without $, under prefix-freeness every match at all is the whole test case *)
  Theorem search_caret_prefix_free : forall (e : expr) (t : str),
    wf_print_gen gap e -> f_no_start c = false -> f_no_end c = true ->
    (forall p, proper_prefix p t -> ~ Le e p) ->
    forall i j, M t (top_rast c e) i j -> i = 0 /\ j = length t.
  Proof.
    intros e t Hwf Hns Hne Hpf i j Hm.
    assert (Hi : i = 0) by exact (search_with_caret e t i j Hns Hm). subst i.
    split; [reflexivity|].
    pose proof (m_le lit_den cls_den t _ 0 j Hm) as Hb.
    destruct (Nat.eq_dec j (length t)) as [E|NE]; [exact E|]. exfalso.
    apply (Hpf (firstn j t)); [apply proper_prefix_firstn; lia|].
    apply (top_prefix_lang e Hwf Hne t j); [lia|exact Hm].
  Qed.
End Top.

(* ---------------------------------------------------------------------------------------- *)
(* d. Executable corollaries *)

Section ExecSearch.
  Variable lit_den cls_den : cp -> cp -> Prop.
  Variable lit_b cls_b : cp -> cp -> bool.
  Variable range_b : cp -> cp -> cp -> bool.
  Hypothesis lit_spec : forall c x, lit_b c x = true <-> lit_den c x.
  Hypothesis cls_spec : forall l x, cls_b l x = true <-> cls_den l x.
  Hypothesis range_spec : forall lo hi x,
    range_b lo hi x = true <-> exists c, (lo <= c)%N /\ (c <= hi)%N /\ lit_den c x.
  Local Notation M := (m lit_den cls_den).
  Local Notation Ends := (ends lit_b cls_b range_b).
  Local Notation Find := (find_leftmost lit_b cls_b range_b).
  Local Notation Whole := (matches_whole lit_b cls_b range_b).

  Let Hends := ends_spec lit_den cls_den lit_b cls_b range_b lit_spec cls_spec range_spec.

  (* the search reports exactly the whole haystack, whatever the priorities <-> full match and
     no match of a proper prefix from 0 *)
  Theorem find_leftmost_whole_iff : forall (t : str) (r : rast),
    Find t r = Some (0, [length t])
    <-> M t r 0 (length t) /\ forall k, k < length t -> ~ M t r 0 k.
  Proof.
    intros t r. split.
    - intros H.
      apply (find_leftmost_spec lit_den cls_den lit_b cls_b range_b lit_spec cls_spec range_spec) in H.
      destruct H as (Hjs & _ & _). split.
      + apply Hends. rewrite <- Hjs. left. reflexivity.
      + intros k Hk Hm. apply Hends in Hm. rewrite <- Hjs in Hm. destruct Hm as [E|[]]. lia.
    - intros [Hfull Hpf].
      rewrite (find_leftmost_complete lit_den cls_den lit_b cls_b range_b lit_spec cls_spec range_spec
                 t r 0 (length t) Hfull (least_start_0 lit_den cls_den t r)).
      f_equal. f_equal. apply NoDup_singleton.
      + apply ends_NoDup.
      + apply Hends. exact Hfull.
      + intros x Hx. apply Hends in Hx.
        pose proof (m_le lit_den cls_den t r 0 x Hx) as Hb.
        destruct (Nat.eq_dec x (length t)) as [E|NE]; [exact E|].
        exfalso. apply (Hpf x); [lia|exact Hx].
  Qed.

  Corollary find_leftmost_whole_search : forall (t : str) (r : rast),
    Find t r = Some (0, [length t])
    <-> M t r 0 (length t) /\ search_whole lit_den cls_den t r.
  Proof.
    intros t r. rewrite find_leftmost_whole_iff. split.
    - intros [Hfull Hpf]. split; [exact Hfull|].
      apply search_prefix_free_iff_gen; assumption.
    - intros [Hfull Hw]. split; [exact Hfull|].
      apply search_prefix_free_iff_gen; assumption.
  Qed.

  (* a. with $ *)
  Theorem find_leftmost_dollar_gen : forall (l : list rast) (t : str),
    M t (rcat (l ++ [REnd])) 0 (length t) ->
    Find t (rcat (l ++ [REnd])) = Some (0, [length t]).
  Proof.
    intros l t Hfull. apply find_leftmost_whole_iff. split; [exact Hfull|].
    intros k Hk Hm. apply m_dollar_end in Hm. lia.
  Qed.

  Theorem find_leftmost_with_dollar : forall (c : cfg) (e : expr) (t : str),
    f_no_end c = false ->
    Whole t (top_rast c e) = true ->
    Find t (top_rast c e) = Some (0, [length t]).
  Proof.
    intros c e t Hne Hw.
    apply (matches_whole_spec lit_den cls_den lit_b cls_b range_b lit_spec cls_spec range_spec) in Hw.
    unfold L_rast in Hw. rewrite (top_rast_dollar c e Hne) in *.
    apply find_leftmost_dollar_gen. exact Hw.
  Qed.

  (* the ends from 0 are exactly [length t] *)
  Theorem ends_with_dollar : forall (c : cfg) (e : expr) (t : str),
    f_no_end c = false ->
    Whole t (top_rast c e) = true ->
    Ends t (top_rast c e) 0 = [length t].
  Proof.
    intros c e t Hne Hw. pose proof (find_leftmost_with_dollar c e t Hne Hw) as H.
    apply (find_leftmost_spec lit_den cls_den lit_b cls_b range_b lit_spec cls_spec range_spec) in H.
    destruct H as (Hjs & _). symmetry. exact Hjs.
  Qed.

  (* c. without $ *)
  Theorem find_leftmost_prefix_free : forall (c : cfg) (gap : Prop) (e : expr) (t : str),
    printable c -> (gap -> forall c0 x, surrogate c0 -> ~ lit_den c0 x) ->
    wf_print_gen gap e -> f_no_end c = true ->
    L_expr lit_den cls_den e t ->
    (forall p, proper_prefix p t -> ~ L_expr lit_den cls_den e p) ->
    Find t (top_rast c e) = Some (0, [length t]).
  Proof.
    intros c gap e t Hp Hgap Hwf Hne Hfull Hpf. apply find_leftmost_whole_iff.
    pose proof (top_prefix_lang lit_den cls_den c Hp gap Hgap e Hwf Hne t) as HT. split.
    - apply (HT (length t) (le_n _)). rewrite firstn_all. exact Hfull.
    - intros k Hk Hm. apply HT in Hm; [|lia].
      exact (Hpf _ (proper_prefix_firstn t k Hk) Hm).
  Qed.

  (* K2's class, executable: a proper prefix in the language shows up among the ends *)
  Theorem find_leftmost_prefix_witness : forall (c : cfg) (gap : Prop) (e : expr) (p t : str),
    printable c -> (gap -> forall c0 x, surrogate c0 -> ~ lit_den c0 x) ->
    wf_print_gen gap e -> f_no_end c = true ->
    proper_prefix p t -> L_expr lit_den cls_den e p ->
    exists js, Find t (top_rast c e) = Some (0, js) /\ In (length p) js /\ length p <> length t.
  Proof.
    intros c gap e p t Hp Hgap Hwf Hne Hpp Hp'.
    destruct (search_prefix_witness lit_den cls_den c Hp gap Hgap e p t Hwf Hne Hpp Hp')
      as (Hm & Hl & _).
    exists (Ends t (top_rast c e) 0). split; [|split].
    - exact (find_leftmost_complete lit_den cls_den lit_b cls_b range_b lit_spec cls_spec range_spec
               t _ 0 (length p) Hm Hl).
    - apply Hends. exact Hm.
    - destruct (proper_prefix_inv p t Hpp) as [Hlen _]. lia.
  Qed.
End ExecSearch.

(* ---------------------------------------------------------------------------------------- *)
(* End to end: the pattern printed by build(), as parsed by the model of the regex crate *)

Theorem build_search : forall lit_den cls_den isd is_ws c db sc ws s,
  ws <> [] ->
  Forall (Forall scalar) ws ->
  (forall s0, In s0 ws -> Forall scalar (lower' db s0)) ->
  oracle_ok db (normalise c db ws) ->
  printable c -> f_verbose c = false -> ws_ok is_ws ->
  build isd c db sc ws = Some s ->
  exists e r, Pipeline.final_expr c (grapheme_clusters c db (normalise c db ws)) sc = Some e
    /\ Parse.parse is_ws s = Some (mkF (f_ci c) false, r)
    (* a. with $: a test case matched in full is what every leftmost search reports *)
    /\ (f_no_end c = false ->
        forall t, L_rast lit_den cls_den r t -> search_whole lit_den cls_den t r)
    (* b. with ^: every match starts at 0 *)
    /\ (f_no_start c = false -> forall t i j, m lit_den cls_den t r i j -> i = 0)
    (* c. without $: exactly when no proper prefix of the test case is in the language *)
    /\ (f_no_end c = true ->
        (forall c0 x, surrogate c0 -> ~ lit_den c0 x) ->
        forall t, L_expr lit_den cls_den e t ->
          (search_whole lit_den cls_den t r
           <-> forall p, proper_prefix p t -> ~ L_expr lit_den cls_den e p)).
Proof.
  intros lit_den cls_den isd is_ws c db sc ws s Hne Hsc Hlow Hok Hp Hv Hws H.
  destruct (build_parses isd is_ws c db sc ws s Hne Hsc Hlow Hok Hp Hv Hws H)
    as (e & He & _ & Hpar).
  pose proof (final_expr_wf_print c db sc ws e Hne Hsc Hlow Hok He) as Hwf.
  exists e, (top_rast c e). split; [exact He|]. split; [exact Hpar|]. split; [|split].
  - intros Hnoend t Hfull i j [Hm Hl].
    exact (search_with_dollar lit_den cls_den c e t Hnoend Hfull i j Hm Hl).
  - intros Hnostart t i j Hm. exact (search_with_caret lit_den cls_den c e t i j Hnostart Hm).
  - intros Hnoend Hsur t Hfull.
    exact (search_prefix_free_iff lit_den cls_den c Hp True (fun _ => Hsur) e t Hwf Hnoend Hfull).
Qed.

Check search_with_dollar_gen.
Check search_with_caret_gen.
Check search_prefix_free_gen.
Check search_prefix_witness_gen.
Check search_prefix_free_iff_gen.
Check search_caret_prefix_free_gen.
Check m_prefix_lang.
Check search_with_dollar.
Check search_with_caret.
Check search_with_both.
Check top_prefix_lang.
Check search_prefix_free.
Check search_prefix_witness.
Check search_prefix_free_iff.
Check search_caret_prefix_free.
Check find_leftmost_whole_iff.
Check find_leftmost_whole_search.
Check find_leftmost_with_dollar.
Check ends_with_dollar.
Check find_leftmost_prefix_free.
Check find_leftmost_prefix_witness.
Check build_search.
Print Assumptions search_with_dollar.
Print Assumptions search_with_caret.
Print Assumptions search_with_both.
Print Assumptions search_prefix_free.
Print Assumptions search_prefix_witness.
Print Assumptions search_prefix_free_iff.
Print Assumptions search_caret_prefix_free.
Print Assumptions find_leftmost_whole_iff.
Print Assumptions find_leftmost_whole_search.
Print Assumptions find_leftmost_with_dollar.
Print Assumptions ends_with_dollar.
Print Assumptions find_leftmost_prefix_free.
Print Assumptions find_leftmost_prefix_witness.
Print Assumptions build_search.
