(* "Syntax highlighting only adds colour codes" — part 5: invariants of the PLAIN verbose output
   that make indent_regexp take the same decisions on the plain and on the highlighted text.

   indent_regexp strips every line before testing it, also in plain mode; a plain line may
   contain a literal ESC followed by the `[` of a bracket class, so stripping a plain line can
   remove text.  The decisions (line = "$", line = "^", line starts with "(" or ")") are still
   the same because
     - a removed piece always ends with `m`, and in the plain verbose text none of ( ) $ ^ is
       ever directly preceded by `m` (this needs the class members to be sorted), and
     - a line that starts with a raw $ or ^ consists of that character only. *)
From Coq Require Import Sorting.Sorted.
From Grex Require Import Base.Str Model.Config Model.Cluster Model.Dfa Model.Expr Model.Print.
From Grex Require Import Proofs.ColourStripBase Proofs.ColourStripExpr Proofs.ColourStripRegexp
     Proofs.ColourStripLines.
From GrexGen Require Import SrcConsts.
Local Open Scope N_scope.

(* ---------- character sets and the "not after m" scanner ---------- *)
Definition inD (x : cp) : bool := mem_cp x [40; 41; 36; 94].
Definition S2 (x : cp) : bool := mem_cp x [36; 94].

Lemma inD_true : forall x, inD x = true -> x = 40 \/ x = 41 \/ x = 36 \/ x = 94.
Proof.
  intros x H. apply mem_cp_In in H. simpl in H.
  destruct H as [H|[H|[H|[H|[]]]]]; subst; tauto.
Qed.

Lemma inD_false : forall x, x <> 40 -> x <> 41 -> x <> 36 -> x <> 94 -> inD x = false.
Proof.
  intros x H1 H2 H3 H4. destruct (inD x) eqn:E; [|reflexivity].
  apply inD_true in E. destruct E as [E|[E|[E|E]]]; contradiction.
Qed.

Lemma S2_inD : forall x, S2 x = true -> inD x = true.
Proof.
  intros x H. apply mem_cp_In in H. simpl in H.
  destruct H as [H|[H|[]]]; subst; reflexivity.
Qed.

Lemma S2_true : forall x, S2 x = true -> x = 36 \/ x = 94.
Proof.
  intros x H. apply mem_cp_In in H. simpl in H. destruct H as [H|[H|[]]]; subst; tauto.
Qed.

(* asafeb pm s: no character of D directly after an m; pm = the character before s is an m *)
Fixpoint asafeb (pm : bool) (s : str) : bool :=
  match s with
  | [] => true
  | x :: s' => (negb pm || negb (inD x)) && asafeb (N.eqb x 109) s'
  end.

Definition nDb (s : str) : bool := forallb (fun x => negb (inD x)) s.

Lemma asafeb_mono : forall s p, asafeb true s = true -> asafeb p s = true.
Proof.
  intros s p H. destruct s as [|x s]; [reflexivity|].
  cbn [asafeb] in *. apply andb_true_iff in H. destruct H as [H1 H2].
  rewrite H2. cbn [negb orb] in H1. rewrite H1. rewrite orb_true_r. reflexivity.
Qed.

Lemma asafeb_app : forall a b p, asafeb p a = true -> asafeb true b = true ->
    asafeb p (a ++ b) = true.
Proof.
  induction a as [|x a IH]; intros b p Ha Hb.
  - simpl. apply asafeb_mono. exact Hb.
  - simpl app. cbn [asafeb] in *. apply andb_true_iff in Ha. destruct Ha as [H1 H2].
    rewrite H1. rewrite (IH b _ H2 Hb). reflexivity.
Qed.

Lemma asafeb_nD : forall s p, nDb s = true -> asafeb p s = true.
Proof.
  induction s as [|x s IH]; intros p H.
  - reflexivity.
  - cbn [nDb forallb] in H. apply andb_true_iff in H. destruct H as [H1 H2].
    cbn [asafeb]. rewrite H1. rewrite orb_true_r. apply IH. exact H2.
Qed.

Lemma nDb_app : forall a b, nDb (a ++ b) = nDb a && nDb b.
Proof. intros a b. unfold nDb. apply forallb_app. Qed.

Lemma asafeb_safe : forall S s, (forall x, inD x = true -> S x = true) ->
    safeS S s -> asafeb true s = true.
Proof.
  intros S s HS H. induction H as [|x s Hx H IH|x s H IH].
  - reflexivity.
  - cbn [asafeb]. assert (E : inD x = false).
    { destruct (inD x) eqn:E; [|reflexivity]. apply HS in E. congruence. }
    rewrite E. cbn [negb orb andb]. apply asafeb_mono. exact IH.
  - cbn [asafeb]. change (inD 92) with false. change (N.eqb 92 109) with false.
    cbn [negb orb andb]. apply asafeb_mono. exact IH.
Qed.

(* prefixes and suffixes *)
Lemma asafeb_prefix : forall a b p, asafeb p (a ++ b) = true -> asafeb p a = true.
Proof.
  induction a as [|x a IH]; intros b p H.
  - reflexivity.
  - simpl app in H. cbn [asafeb] in *. apply andb_true_iff in H. destruct H as [H1 H2].
    rewrite H1. apply (IH b). exact H2.
Qed.

Lemma asafeb_after_m : forall a r p, asafeb p (a ++ 109 :: r) = true -> asafeb true r = true.
Proof.
  induction a as [|x a IH]; intros r p H.
  - simpl app in H. cbn [asafeb] in H. apply andb_true_iff in H. destruct H as [_ H].
    exact H.
  - simpl app in H. cbn [asafeb] in H. apply andb_true_iff in H. destruct H as [_ H].
    apply (IH r _ H).
Qed.

Definition hdD (s : str) : bool := match s with [] => false | x :: _ => inD x end.

Lemma asafeb_true_hd : forall s, asafeb true s = true -> hdD s = false.
Proof.
  intros [|x s] H; [reflexivity|]. cbn [asafeb] in H. apply andb_true_iff in H.
  destruct H as [H _]. cbn [negb orb] in H. apply negb_true_iff in H. exact H.
Qed.

(* ---------- a generic closure theorem for the plain printer ---------- *)
Inductive ewf (wfcc : list cp -> Prop) (wflit : cluster -> Prop) : expr -> Prop :=
| ewf_alt os : Forall (ewf wfcc wflit) os -> ewf wfcc wflit (EAlt os)
| ewf_cc cs : wfcc cs -> ewf wfcc wflit (ECC cs)
| ewf_cat a b : ewf wfcc wflit a -> ewf wfcc wflit b -> ewf wfcc wflit (ECat a b)
| ewf_lit cl : wflit cl -> ewf wfcc wflit (ELit cl)
| ewf_rep x q : ewf wfcc wflit x -> ewf wfcc wflit (ERep x q).

Lemma col_plain : forall c code v, f_colour c = false -> col c code v = v.
Proof. intros c code v H. unfold col. rewrite H. reflexivity. Qed.

Section PlainClosure.
  Variable c0 : cfg.
  Hypothesis Hcol : f_colour c0 = false.
  Variable Q : str -> Prop.
  Variable wfcc : list cp -> Prop.
  Variable wflit : cluster -> Prop.
  Hypothesis Qnil : Q [].
  Hypothesis Qapp : forall a b, Q a -> Q b -> Q (a ++ b).
  Hypothesis Qgroup : forall v fb, Q v -> Q (c_group c0 v fb).
  Hypothesis Qquant : forall q, Q (c_quant c0 q).
  Hypothesis Qrep : forall n vb, Q (c_rep c0 n vb).
  Hypothesis Qrange : forall a b vb, Q (c_range c0 a b vb).
  Hypothesis Qsep : Q (alt_sep c0).
  Hypothesis Qcc : forall cs, wfcc cs -> Q (cc_str c0 cs).

  Lemma Q_flat_map {A} (f : A -> str) (l : list A) :
    Forall (fun x => Q (f x)) l -> Q (flat_map f l).
  Proof.
    induction 1; simpl; [exact Qnil|]. apply Qapp; assumption.
  Qed.

  Lemma Q_concat : forall l, Forall Q l -> Q (concat l).
  Proof.
    induction 1; simpl; [exact Qnil|]. apply Qapp; assumption.
  Qed.

  Lemma Q_join : forall l, Forall Q l -> Q (join (alt_sep c0) l).
  Proof.
    intros l H. induction H as [|x l Hx Hl IH]; [exact Qnil|].
    destruct l as [|y l]; [exact Hx|].
    rewrite join_cons2. apply Qapp; [exact Hx|]. apply Qapp; [exact Qsep|exact IH].
  Qed.

  (* graphemes whose printed strings satisfy Q *)
  Lemma g_str_Q : forall g, gok Q g -> Q (g_str c0 g).
  Proof.
    intros g. induction g as [cs rs a b IH] using grapheme_ind'. intros Hok.
    rewrite g_str_eq. cbv zeta. rewrite Hcol. cbn [andb].
    assert (Hv : Q (gv c0 cs rs)).
    { inversion Hok; subst.
      - simpl gv. apply Q_concat. assumption.
      - unfold gv. apply Q_flat_map.
        rewrite Forall_forall in IH. apply Forall_forall. intros x Hx.
        apply IH; [exact Hx|].
        match goal with H : Forall (gok Q) _ |- _ => rewrite Forall_forall in H; apply H end.
        exact Hx. }
    set (v := gv c0 cs rs) in *. clearbody v.
    destruct (negb (a <? b) && (1 <? a) && g_single (G cs rs a b)).
    { apply Qapp; [exact Hv|apply Qrep]. }
    destruct (negb (a <? b) && (1 <? a)).
    { apply Qapp; [apply Qgroup; exact Hv|apply Qrep]. }
    destruct ((a <? b) && g_single (G cs rs a b)).
    { apply Qapp; [exact Hv|apply Qrange]. }
    destruct (a <? b).
    { apply Qapp; [apply Qgroup; exact Hv|apply Qrange]. }
    exact Hv.
  Qed.

  (* literals: it suffices that the printed strings of the escaped graphemes satisfy Q *)
  Definition lit_ok (cl : cluster) : Prop :=
    Forall (fun g => match g with
                     | G cs [] a b => gok Q (escape_g c0 g)
                     | G cs rs a b => gok Q (G cs (map (escape_g c0) rs) a b)
                     end) cl.

  Lemma lit_str_Q : forall cl, lit_ok cl -> Q (lit_str c0 cl).
  Proof.
    intros cl H. unfold lit_str. apply Q_flat_map. eapply Forall_impl; [|exact H].
    intros g Hg. destruct g as [cs rs a b]. destruct rs as [|r rs]; apply g_str_Q; exact Hg.
  Qed.

  Hypothesis Hlit : forall cl, wflit cl -> lit_ok cl.

  Theorem e_str_Q : forall e, ewf wfcc wflit e -> Q (e_str c0 e).
  Proof.
    intros e. induction e as [os IH|cs|a b IHa IHb|cl|x q IH] using expr_ind'; intros W.
    - rewrite e_str_alt_eq. apply Q_join.
      inversion W as [os' Wos| | | |]; subst.
      apply Forall_forall. intros s Hs. apply in_map_iff in Hs. destruct Hs as [o [E Ho]].
      subst s. rewrite Forall_forall in IH, Wos. unfold alt_item.
      destruct (Nat.ltb (precedence o) 1 && negb (is_single_codepoint c0 o)).
      + apply Qgroup. apply IH; [exact Ho|apply Wos; exact Ho].
      + apply IH; [exact Ho|apply Wos; exact Ho].
    - inversion W; subst. apply Qcc. assumption.
    - inversion W; subst. rewrite e_str_cat_eq. unfold cat_part. apply Qapp.
      + destruct (Nat.ltb (precedence a) 2 && negb (is_single_codepoint c0 a));
          [apply Qgroup|]; apply IHa; assumption.
      + destruct (Nat.ltb (precedence b) 2 && negb (is_single_codepoint c0 b));
          [apply Qgroup|]; apply IHb; assumption.
    - inversion W; subst. apply lit_str_Q. apply Hlit. assumption.
    - inversion W; subst. rewrite e_str_rep_eq.
      destruct (Nat.ltb (precedence x) 3 && negb (is_single_codepoint c0 x)).
      + apply Qapp; [apply Qgroup; apply IH; assumption|apply Qquant].
      + apply Qapp; [apply IH; assumption|apply Qquant].
  Qed.
End PlainClosure.

(* escaped literals: every printed string has its ( ) [ $ ^ escaped *)
Lemma gok_impl : forall (P P' : str -> Prop) g, (forall s, P s -> P' s) -> gok P g -> gok P' g.
Proof.
  intros P P' g HP. induction g as [cs rs a b IH] using grapheme_ind'. intros H.
  inversion H; subst.
  - apply gok_leaf. eapply Forall_impl; [|eassumption]. exact HP.
  - apply gok_node. rewrite Forall_forall in IH. apply Forall_forall. intros x Hx.
    apply IH; [exact Hx|].
    match goal with H : Forall (gok P) _ |- _ => rewrite Forall_forall in H; apply H end.
    exact Hx.
Qed.

Lemma lit_ok_safe : forall c0 (Q : str -> Prop) cl,
    (forall s, safeS Slit s -> Q s) -> lit_ok c0 Q cl.
Proof.
  intros c0 Q cl HQ. unfold lit_ok. apply Forall_forall. intros g _.
  destruct g as [cs rs a b]. destruct rs as [|r rs].
  - eapply gok_impl; [exact HQ|]. apply gok_escape.
  - simpl map. apply gok_node.
    change (escape_g c0 r :: map (escape_g c0) rs) with (map (escape_g c0) (r :: rs)).
    apply Forall_forall. intros x Hx. apply in_map_iff in Hx. destruct Hx as [x0 [Ex _]].
    subst. eapply gok_impl; [exact HQ|]. apply gok_escape.
Qed.

(* ---------- bracket classes with sorted members ---------- *)
(* L is obtained from I by deleting elements and inserting hyphens *)
Inductive hsub (hy : str) : list str -> list str -> Prop :=
| hs_nil : hsub hy [] []
| hs_keep x L I : hsub hy L I -> hsub hy (x :: L) (x :: I)
| hs_drop x L I : hsub hy L I -> hsub hy L (x :: I)
| hs_hyp L I : hsub hy L I -> hsub hy (hy :: L) I.

Lemma hsub_refl : forall hy l, hsub hy l l.
Proof. induction l; constructor; assumption. Qed.

Lemma hsub_nil_l : forall hy I, hsub hy [] I.
Proof. induction I; constructor; assumption. Qed.

Lemma hsub_app : forall hy L1 I1 L2 I2, hsub hy L1 I1 -> hsub hy L2 I2 ->
    hsub hy (L1 ++ L2) (I1 ++ I2).
Proof.
  intros hy L1 I1 L2 I2 H1 H2. induction H1; simpl.
  - exact H2.
  - apply hs_keep. assumption.
  - apply hs_drop. assumption.
  - apply hs_hyp. assumption.
Qed.

Lemma hsub_last : forall hy (l : list str), l <> [] -> hsub hy [last l []] l.
Proof.
  intros hy l. induction l as [|a l IH]; intros N; [contradiction|].
  destruct l as [|b l].
  - simpl. apply hs_keep. constructor.
  - change (last (a :: b :: l) []) with (last (b :: l) []). apply hs_drop. apply IH. discriminate.
Qed.

Definition part3 (hy : str) (sub : list str) : list str :=
  if Nat.leb (length sub) 2 then sub else [hd [] sub; hy; last sub []].

Lemma part3_hsub : forall hy sub, hsub hy (part3 hy sub) sub.
Proof.
  intros hy sub. unfold part3. destruct (Nat.leb (length sub) 2) eqn:E.
  - apply hsub_refl.
  - destruct sub as [|x [|y [|z t]]]; try discriminate.
    change (last (x :: y :: z :: t) []) with (last (y :: z :: t) []).
    simpl hd. apply hs_keep. apply hs_hyp. apply hsub_last. discriminate.
Qed.

Lemma hsub_flat : forall hy subsets, hsub hy (flat_map (part3 hy) subsets) (concat subsets).
Proof.
  intros hy subsets. induction subsets as [|sub subsets IH]; simpl.
  - constructor.
  - apply hsub_app; [apply part3_hsub|exact IH].
Qed.

Lemma cc_subsets_concat_false : forall items subset,
    concat (cc_subsets items subset false) = subset ++ map fst (tl items).
Proof.
  induction items as [|[c1 p1] items IH]; intros subset.
  - simpl. reflexivity.
  - destruct items as [|[c2 p2] r].
    + rewrite cc_subsets_single. simpl. reflexivity.
    + rewrite cc_subsets_cons2. cbv zeta. destruct (N.eqb p2 (p1 + 1)).
      * rewrite IH. simpl. rewrite <- app_assoc. reflexivity.
      * cbn [concat]. rewrite IH. simpl. reflexivity.
Qed.

Lemma cc_subsets_concat_true : forall items,
    concat (cc_subsets items [] true) = match items with _ :: _ :: _ => map fst items | _ => [] end.
Proof.
  intros items. destruct items as [|[c1 p1] [|[c2 p2] r]].
  - reflexivity.
  - reflexivity.
  - rewrite cc_subsets_cons2. cbv zeta. destruct (N.eqb p2 (p1 + 1)).
    + rewrite cc_subsets_concat_false. simpl. reflexivity.
    + cbn [concat]. rewrite cc_subsets_concat_false. simpl. reflexivity.
Qed.

Lemma hsub_content : forall hy items,
    hsub hy (flat_map (part3 hy) (cc_subsets items [] true)) (map fst items).
Proof.
  intros hy items. pose proof (hsub_flat hy (cc_subsets items [] true)) as H.
  rewrite cc_subsets_concat_true in H.
  destruct items as [|i1 [|i2 r]].
  - exact H.
  - simpl map. apply hs_drop. exact H.
  - exact H.
Qed.

Lemma cc_part_concat : forall c0 sub, f_colour c0 = false ->
    concat (cc_part c0 sub) = concat (part3 txt_Hyphen sub).
Proof.
  intros c0 sub Hc. unfold cc_part, part3. destruct (Nat.leb (length sub) 2); [reflexivity|].
  rewrite col_plain by exact Hc. cbn [concat]. rewrite !app_nil_r. reflexivity.
Qed.

Lemma cc_content_eq : forall c0 subsets, f_colour c0 = false ->
    concat (flat_map (cc_part c0) subsets) = concat (flat_map (part3 txt_Hyphen) subsets).
Proof.
  intros c0 subsets Hc. induction subsets as [|sub subsets IH]; [reflexivity|].
  simpl flat_map. rewrite !concat_app. rewrite IH. rewrite cc_part_concat by exact Hc.
  reflexivity.
Qed.

Lemma cc_escape_cases : forall y,
    cc_escape y = [92; y] \/ cc_escape y = [92; 110] \/ cc_escape y = [92; 114]
    \/ cc_escape y = [92; 116] \/ cc_escape y = [y].
Proof.
  intros y. unfold cc_escape.
  destruct (mem_cp y cc_chars_to_escape); [tauto|].
  destruct (N.eqb y c_nl); [tauto|]. destruct (N.eqb y c_cr); [tauto|].
  destruct (N.eqb y c_tab); tauto.
Qed.

Lemma asafeb_weaken : forall s p, asafeb p s = true -> asafeb false s = true.
Proof.
  intros s p H. destruct p; [apply asafeb_mono; exact H|exact H].
Qed.

Lemma item_asafe : forall y rest, asafeb (N.eqb y 109) rest = true ->
    asafeb false (cc_escape y ++ rest) = true.
Proof.
  intros y rest H.
  destruct (cc_escape_cases y) as [E|[E|[E|[E|E]]]]; rewrite E; simpl app.
  - change (asafeb false (92 :: y :: rest)) with (asafeb (N.eqb y 109) rest). exact H.
  - change (asafeb false (92 :: 110 :: rest)) with (asafeb false rest).
    apply (asafeb_weaken _ _ H).
  - change (asafeb false (92 :: 114 :: rest)) with (asafeb false rest).
    apply (asafeb_weaken _ _ H).
  - change (asafeb false (92 :: 116 :: rest)) with (asafeb false rest).
    apply (asafeb_weaken _ _ H).
  - change (asafeb false (y :: rest)) with (asafeb (N.eqb y 109) rest). exact H.
Qed.

Lemma item_nD : forall y, 109 < y -> nDb (cc_escape y) = true.
Proof.
  intros y Hy. assert (E0 : inD y = false) by (apply inD_false; lia).
  destruct (cc_escape_cases y) as [E|[E|[E|[E|E]]]]; rewrite E;
    unfold nDb; cbn [forallb]; try rewrite E0; reflexivity.
Qed.

Definition hyphen_ok : bool :=
  nDb txt_Hyphen && forallb (fun x => negb (N.eqb x 109)) txt_Hyphen
  && forallb (fun x => negb (Scc x)) txt_Hyphen.
Lemma hyphen_ok_true : hyphen_ok = true.
Proof. vm_compute. reflexivity. Qed.

Lemma no_m_nD_app : forall h rest, nDb h = true ->
    forallb (fun x => negb (N.eqb x 109)) h = true ->
    asafeb false rest = true -> asafeb false (h ++ rest) = true.
Proof.
  induction h as [|x h IH]; intros rest H1 H2 H3.
  - exact H3.
  - cbn [nDb forallb] in H1, H2. apply andb_true_iff in H1, H2.
    destruct H1 as [_ H1]. destruct H2 as [Hx H2].
    simpl app. cbn [asafeb negb orb andb].
    apply negb_true_iff in Hx. rewrite Hx. apply IH; assumption.
Qed.

Lemma cc_hsub_asafe : forall L I, hsub txt_Hyphen L I ->
    forall cs, I = map cc_escape cs -> StronglySorted N.lt cs ->
    asafeb false (concat L) = true /\
    (Forall (fun y => 109 < y) cs -> nDb (concat L) = true).
Proof.
  intros L I H. induction H as [|x L I H IH|x L I H IH|L I H IH]; intros cs E Hs.
  - split; reflexivity.
  - destruct cs as [|y cs]; [discriminate|]. simpl in E. inversion E; subst.
    apply StronglySorted_inv in Hs. destruct Hs as [Hs Hy].
    destruct (IH cs eq_refl Hs) as [IH1 IH2]. cbn [concat]. split.
    + apply item_asafe. destruct (N.eqb_spec y 109) as [Ey|Ey].
      * subst y. apply asafeb_nD. apply IH2. exact Hy.
      * exact IH1.
    + intros F. inversion F; subst. rewrite nDb_app. rewrite item_nD by assumption.
      rewrite IH2 by assumption. reflexivity.
  - destruct cs as [|y cs]; [discriminate|]. simpl in E. inversion E; subst.
    apply StronglySorted_inv in Hs. destruct Hs as [Hs Hy].
    destruct (IH cs eq_refl Hs) as [IH1 IH2]. split; [exact IH1|].
    intros F. inversion F; subst. apply IH2. assumption.
  - destruct (IH cs E Hs) as [IH1 IH2].
    pose proof hyphen_ok_true as A. unfold hyphen_ok in A.
    apply andb_true_iff in A. destruct A as [A _]. apply andb_true_iff in A.
    destruct A as [A1 A2].
    cbn [concat]. split.
    + apply no_m_nD_app; assumption.
    + intros F. rewrite nDb_app. rewrite A1. rewrite IH2 by assumption. reflexivity.
Qed.

Lemma cc_content_asafe : forall c0 cs, f_colour c0 = false -> StronglySorted N.lt cs ->
    asafeb false
      (concat (flat_map (cc_part c0)
                 (cc_subsets (map (fun x => (cc_escape x, codepoint_position x)) cs) [] true)))
    = true.
Proof.
  intros c0 cs Hc Hs. rewrite cc_content_eq by exact Hc.
  set (items := map (fun x => (cc_escape x, codepoint_position x)) cs).
  pose proof (hsub_content txt_Hyphen items) as H.
  assert (E : map fst items = map cc_escape cs).
  { unfold items. rewrite map_map. reflexivity. }
  destruct (cc_hsub_asafe _ _ H cs E Hs) as [R _]. exact R.
Qed.

Lemma cc_content_safe : forall c0 cs, f_colour c0 = false ->
    safeS Scc
      (concat (flat_map (cc_part c0)
                 (cc_subsets (map (fun x => (cc_escape x, codepoint_position x)) cs) [] true))).
Proof.
  intros c0 cs Hc.
  set (subsets := cc_subsets (map (fun x => (cc_escape x, codepoint_position x)) cs) [] true).
  assert (H : Forall (Forall (safeS Scc)) subsets).
  { apply cc_subsets_forall; [|constructor].
    apply Forall_forall. intros it Hit. apply in_map_iff in Hit. destruct Hit as [x [E _]].
    subst. simpl. apply cc_escape_safe. }
  clearbody subsets. induction H as [|sub subsets Hs Hss IH].
  - constructor.
  - simpl flat_map. rewrite concat_app. apply safe_app; [|exact IH].
    unfold cc_part. destruct (Nat.leb (length sub) 2).
    + apply safe_concat. exact Hs.
    + cbn [concat]. rewrite app_nil_r. rewrite col_plain by exact Hc.
      apply safe_app; [apply Forall_hd; [constructor|exact Hs]|].
      apply safe_app; [|apply Forall_last; [constructor|exact Hs]].
      apply safe_free. pose proof hyphen_ok_true as A. unfold hyphen_ok in A.
      apply andb_true_iff in A. destruct A as [_ A].
      rewrite forallb_forall in A. apply Forall_forall. intros x Hx.
      apply negb_true_iff. apply A. exact Hx.
Qed.

(* ---------- the invariant of the pieces of the plain verbose expression text ---------- *)
Definition Qe (s : str) : Prop := asafeb true s = true /\ safeS S2 s.
Definition qeb (s : str) : bool := asafeb true s && forallb (fun x => negb (S2 x)) s.

Lemma qeb_ok : forall s, qeb s = true -> Qe s.
Proof.
  intros s H. unfold qeb in H. apply andb_true_iff in H. destruct H as [H1 H2]. split.
  - exact H1.
  - apply safe_free. rewrite forallb_forall in H2. apply Forall_forall. intros x Hx.
    apply negb_true_iff. apply H2. exact Hx.
Qed.

Lemma Qe_nil : Qe [].
Proof. split; [reflexivity|constructor]. Qed.

Lemma Qe_app : forall a b, Qe a -> Qe b -> Qe (a ++ b).
Proof.
  intros a b [A1 A2] [B1 B2]. split; [apply asafeb_app; assumption|apply safe_app; assumption].
Qed.

Lemma Qe_nD : forall s, nDb s = true -> Qe s.
Proof.
  intros s H. split; [apply asafeb_nD; exact H|]. apply safe_free.
  unfold nDb in H. rewrite forallb_forall in H. apply Forall_forall. intros x Hx.
  specialize (H x Hx). apply negb_true_iff in H.
  destruct (S2 x) eqn:E; [|reflexivity]. apply S2_inD in E. congruence.
Qed.

Lemma Qe_lit : forall s, safeS Slit s -> Qe s.
Proof.
  intros s H. split.
  - apply (asafeb_safe Slit); [|exact H]. intros x Hx.
    apply inD_true in Hx. destruct Hx as [E|[E|[E|E]]]; subst; reflexivity.
  - eapply safe_mono; [|exact H]. intros x Hx.
    apply S2_true in Hx. destruct Hx as [E|E]; subst; reflexivity.
Qed.

Lemma nDb_digits : forall s, Forall dig_range s -> nDb s = true.
Proof.
  intros s H. induction H as [|x s Hx Hs IH]; [reflexivity|].
  cbn [nDb forallb]. fold (nDb s). rewrite IH. unfold dig_range in Hx.
  rewrite inD_false by lia. reflexivity.
Qed.

Definition brackets_ok : bool :=
  match txt_LeftBracket with [] => false | _ => true end
  && nDb txt_LeftBracket && forallb (fun x => negb (N.eqb x 109)) txt_LeftBracket
  && nDb txt_RightBracket.
Lemma brackets_ok_true : brackets_ok = true.
Proof. vm_compute. reflexivity. Qed.

Lemma nonnil_nD_app : forall h rest p, h <> [] -> nDb h = true ->
    forallb (fun x => negb (N.eqb x 109)) h = true ->
    asafeb false rest = true -> asafeb p (h ++ rest) = true.
Proof.
  intros h rest p N H1 H2 H3. destruct h as [|x h]; [contradiction|].
  cbn [nDb forallb] in H1, H2. apply andb_true_iff in H1, H2.
  destruct H1 as [Hx1 H1]. destruct H2 as [Hx H2].
  simpl app. cbn [asafeb]. rewrite Hx1. rewrite orb_true_r. cbn [andb].
  apply negb_true_iff in Hx. rewrite Hx. apply no_m_nD_app; assumption.
Qed.

Section VerboseInstance.
  Variable c0 : cfg.
  Hypothesis Hcol : f_colour c0 = false.
  Hypothesis Hv : f_verbose c0 = true.

  Lemma Qe_group : forall v fb, Qe v -> Qe (c_group c0 v fb).
  Proof.
    intros v fb H. unfold c_group. rewrite Hv. rewrite !col_plain by exact Hcol. cbv zeta.
    assert (X : forall a b : str, a = b -> Qe a -> Qe b) by (intros; subst; assumption).
    match goal with |- Qe (nl ++ ?lp ++ nl ++ v ++ nl ++ ?rp ++ ?fin) =>
      apply (X ((nl ++ lp ++ nl) ++ v ++ (nl ++ rp ++ fin)));
        [rewrite <- !app_assoc; reflexivity|] end.
    apply Qe_app; [|apply Qe_app; [exact H|]].
    - destruct (f_cap c0); apply qeb_ok; vm_compute; reflexivity.
    - destruct fb; apply qeb_ok; vm_compute; reflexivity.
  Qed.

  Lemma Qe_quant : forall q, Qe (c_quant c0 q).
  Proof.
    intros q. unfold c_quant. rewrite Hv. rewrite col_plain by exact Hcol.
    destruct q; apply qeb_ok; vm_compute; reflexivity.
  Qed.

  Lemma Qe_if_nl : forall b : bool, Qe (if b then nl else []).
  Proof. intros [|]; apply qeb_ok; vm_compute; reflexivity. Qed.

  Lemma Qe_rep : forall n vb, Qe (c_rep c0 n vb).
  Proof.
    intros n vb. unfold c_rep. cbv zeta. rewrite col_plain by exact Hcol.
    apply Qe_app; [|apply Qe_if_nl].
    destruct (N.eqb n 0); [apply qeb_ok; vm_compute; reflexivity|].
    apply Qe_nD. rewrite !nDb_app. rewrite (nDb_digits _ (dec_of_N_range n)). reflexivity.
  Qed.

  Lemma Qe_range : forall a b vb, Qe (c_range c0 a b vb).
  Proof.
    intros a b vb. unfold c_range. cbv zeta. rewrite col_plain by exact Hcol.
    apply Qe_app; [|apply Qe_if_nl].
    destruct (N.eqb a 0 && N.eqb b 0); [apply qeb_ok; vm_compute; reflexivity|].
    apply Qe_nD. rewrite !nDb_app. rewrite (nDb_digits _ (dec_of_N_range a)).
    rewrite (nDb_digits _ (dec_of_N_range b)). reflexivity.
  Qed.

  Lemma Qe_sep : Qe (alt_sep c0).
  Proof.
    unfold alt_sep. rewrite Hv. rewrite col_plain by exact Hcol.
    apply qeb_ok. vm_compute. reflexivity.
  Qed.

  Lemma Qe_cc : forall cs, StronglySorted N.lt cs -> Qe (cc_str c0 cs).
  Proof.
    intros cs Hs. unfold cc_str. cbv zeta. fold (cc_part c0).
    rewrite !col_plain by exact Hcol.
    pose proof brackets_ok_true as A. unfold brackets_ok in A.
    apply andb_true_iff in A. destruct A as [A A4]. apply andb_true_iff in A.
    destruct A as [A A3]. apply andb_true_iff in A. destruct A as [A1 A2].
    split.
    - apply nonnil_nD_app; try assumption.
      + intros E. rewrite E in A1. discriminate.
      + apply asafeb_app; [apply cc_content_asafe; assumption|].
        apply asafeb_nD. exact A4.
    - apply safe_app; [apply (proj2 (Qe_nD _ A2))|].
      apply safe_app; [|apply (proj2 (Qe_nD _ A4))].
      eapply safe_mono; [|apply cc_content_safe; exact Hcol].
      intros x Hx. apply S2_true in Hx. destruct Hx as [E|E]; subst; reflexivity.
  Qed.

  Theorem e_str_Qe : forall e, ewf (StronglySorted N.lt) (fun _ => True) e -> Qe (e_str c0 e).
  Proof.
    apply (e_str_Q c0 Hcol Qe (StronglySorted N.lt) (fun _ => True)).
    - exact Qe_nil.
    - exact Qe_app.
    - exact Qe_group.
    - exact Qe_quant.
    - exact Qe_rep.
    - exact Qe_range.
    - exact Qe_sep.
    - exact Qe_cc.
    - intros cl _. apply lit_ok_safe. exact Qe_lit.
  Qed.
End VerboseInstance.
