(* Printing theorem, part 6: semantics.  For anchor-free regex ASTs the position-based matching
   relation of the engine model is a list language (LR); concatenations / alternations built by
   the parser's accumulators are the expected unions and products. *)
From Grex Require Import Base.Str Engine.Syntax Engine.Parse Engine.Sem.
From Grex Require Import Proofs.Lang Proofs.RepInv Proofs.ExprLang.
From Grex Require Import Proofs.PrintParseDefs.
From Coq Require Import Setoid Morphisms.

Scheme m_mut := Minimality for Grex.Engine.Sem.m Sort Prop
  with m_iter_mut := Minimality for Grex.Engine.Sem.m_iter Sort Prop.

Section SemLang.
  Variable lit_den cls_den : cp -> cp -> Prop.
  Notation m := (m lit_den cls_den).
  Notation m_iter := (m_iter lit_den cls_den).

  Definition bracket_den (items : list (cp * cp)) (x : cp) : Prop :=
    exists lo hi c, In (lo, hi) items /\ (lo <= c)%N /\ (c <= hi)%N /\ lit_den c x.

  Definition rep_ok (lo : N) (hi : option N) (n : nat) : Prop :=
    (lo <= N.of_nat n)%N /\ match hi with Some k => (N.of_nat n <= k)%N | None => True end.

  Fixpoint LR (r : rast) : lang :=
    match r with
    | REmpty => leps
    | RLit c => lone (lit_den c)
    | RPerl l => lone (cls_den l)
    | RBracket items => lone (bracket_den items)
    | RStart | REnd => lempty
    | RGroup _ r => LR r
    | RRep r lo hi => fun u => exists n, rep_ok lo hi n /\ lpow (LR r) n u
    | RCat a b => lcat (LR a) (LR b)
    | RAlt a b => lunion (LR a) (LR b)
    end.

  Fixpoint af (r : rast) : Prop :=
    match r with
    | RStart | REnd => False
    | RGroup _ r | RRep r _ _ => af r
    | RCat a b | RAlt a b => af a /\ af b
    | _ => True
    end.

  (* ---------- slices ---------- *)
  Definition slice (h : str) (i j : nat) : str := firstn (j - i) (skipn i h).

  Lemma slice_refl : forall h i, slice h i i = [].
  Proof. intros h i. unfold slice. rewrite Nat.sub_diag. reflexivity. Qed.

  Lemma nth_error_skipn : forall (h : str) i x, nth_error h i = Some x -> exists t, skipn i h = x :: t.
  Proof.
    induction h as [|y h IH]; intros i x H; destruct i; try discriminate.
    - inversion H; subst. eexists. reflexivity.
    - cbn [nth_error] in H. apply IH in H. exact H.
  Qed.

  Lemma slice_one : forall h i x, nth_error h i = Some x -> slice h i (S i) = [x].
  Proof.
    intros h i x H. unfold slice. replace (S i - i) with 1 by lia.
    apply nth_error_skipn in H. destruct H as [t ->]. reflexivity.
  Qed.

  Lemma slice_cat : forall h i k j, i <= k -> k <= j -> slice h i j = slice h i k ++ slice h k j.
  Proof.
    intros h i k j H1 H2. unfold slice.
    replace (j - i) with ((k - i) + (j - k)) by lia.
    rewrite firstn_add. f_equal. f_equal.
    rewrite <- skipn_add. f_equal. lia.
  Qed.

  Lemma slice_mid : forall (pre u post : str),
    slice (pre ++ u ++ post) (length pre) (length pre + length u) = u.
  Proof.
    intros pre u post. unfold slice.
    replace (length pre + length u - length pre) with (length u) by lia.
    rewrite skipn_app, Nat.sub_diag, skipn_all. cbn [skipn app].
    apply firstn_app_l. reflexivity.
  Qed.

  (* ---------- soundness: a match is a word of LR ---------- *)
  Lemma m_sound : forall h r i j, m h r i j -> af r -> i <= j /\ LR r (slice h i j).
  Proof.
    intros h.
    apply (m_mut lit_den cls_den h
             (fun r i j => af r -> i <= j /\ LR r (slice h i j))
             (fun r n i j => af r -> i <= j /\ lpow (LR r) n (slice h i j))).
    - intros i _. rewrite slice_refl. split; [lia|reflexivity].
    - intros c x i Hn Hl _. rewrite (slice_one h i x Hn). split; [lia|]. exists x. auto.
    - intros l x i Hn Hl _. rewrite (slice_one h i x Hn). split; [lia|]. exists x. auto.
    - intros items lo hi c x i Hin H1 H2 Hn Hl _. rewrite (slice_one h i x Hn).
      split; [lia|]. exists x. split; [reflexivity|]. exists lo, hi, c. auto.
    - intros [].
    - intros [].
    - intros cap r i j _ IH Haf. apply IH. exact Haf.
    - intros a b i k j _ IHa _ IHb [Ha Hb].
      destruct (IHa Ha) as [H1 La]. destruct (IHb Hb) as [H2 Lb].
      split; [lia|]. rewrite (slice_cat h i k j H1 H2). exists (slice h i k), (slice h k j). auto.
    - intros a b i j _ IH [Ha _]. destruct (IH Ha) as [H1 L1]. split; [exact H1|left; exact L1].
    - intros a b i j _ IH [_ Hb]. destruct (IH Hb) as [H1 L1]. split; [exact H1|right; exact L1].
    - intros r lo hi n i j Hlo Hhi _ IH Haf. destruct (IH Haf) as [H1 L1].
      split; [exact H1|]. exists n. split; [split; assumption|exact L1].
    - intros r i _. rewrite slice_refl. split; [lia|reflexivity].
    - intros r n i k j _ IH1 _ IH2 Haf.
      destruct (IH1 Haf) as [H1 L1]. destruct (IH2 Haf) as [H2 L2].
      split; [lia|]. rewrite (slice_cat h i k j H1 H2). exists (slice h i k), (slice h k j). auto.
  Qed.

  (* ---------- completeness: a word of LR matches wherever it occurs ---------- *)
  Lemma nth_error_mid : forall (pre : str) x post, nth_error (pre ++ x :: post) (length pre) = Some x.
  Proof.
    intros pre x post. rewrite nth_error_app2 by lia. rewrite Nat.sub_diag. reflexivity.
  Qed.

  Lemma m_complete : forall r, af r -> forall u pre post, LR r u ->
    m (pre ++ u ++ post) r (length pre) (length pre + length u).
  Proof.
    induction r as [|c|l|items| | |cap r IH|r IH lo hi|a IHa b IHb|a IHa b IHb];
      intros Haf u pre post Hu; cbn [LR af] in *.
    - unfold leps in Hu. subst u. cbn [length]. rewrite Nat.add_0_r. constructor.
    - destruct Hu as (x & -> & Hx). cbn [length app]. rewrite Nat.add_1_r.
      eapply m_lit; [apply nth_error_mid|exact Hx].
    - destruct Hu as (x & -> & Hx). cbn [length app]. rewrite Nat.add_1_r.
      eapply m_perl; [apply nth_error_mid|exact Hx].
    - destruct Hu as (x & -> & lo & hi & c & Hin & H1 & H2 & Hx). cbn [length app].
      rewrite Nat.add_1_r. eapply m_bracket; eauto. apply nth_error_mid.
    - contradiction.
    - contradiction.
    - constructor. apply IH; assumption.
    - destruct Hu as (n & [Hlo Hhi] & Hn). eapply m_rep; [exact Hlo|exact Hhi|].
      clear Hlo Hhi. revert u pre post Hn.
      induction n as [|n IHn]; intros u pre post Hn.
      + cbn [lpow] in Hn. unfold leps in Hn. subst u. cbn [length]. rewrite Nat.add_0_r. constructor.
      + cbn [lpow] in Hn. destruct Hn as (v & w & -> & Hv & Hw).
        eapply mi_S with (k := length pre + length v).
        * rewrite <- app_assoc. apply IH; assumption.
        * pose proof (IHn w (pre ++ v) post Hw) as H.
          rewrite app_length in H. rewrite app_length, Nat.add_assoc.
          rewrite <- !app_assoc in *. exact H.
    - destruct Haf as [Ha Hb]. destruct Hu as (v & w & -> & Hv & Hw).
      eapply m_cat with (k := length pre + length v).
      + rewrite <- app_assoc. apply IHa; assumption.
      + pose proof (IHb Hb w (pre ++ v) post Hw) as H.
        rewrite app_length in H. rewrite app_length, Nat.add_assoc.
        rewrite <- !app_assoc in *. exact H.
    - destruct Haf as [Ha Hb]. destruct Hu as [Hu|Hu].
      + apply m_alt_l. apply IHa; assumption.
      + apply m_alt_r. apply IHb; assumption.
  Qed.

  Lemma m_whole : forall r s, af r -> (m s r 0 (length s) <-> LR r s).
  Proof.
    intros r s Haf. split.
    - intros H. apply m_sound in H; [|exact Haf]. destruct H as [_ H].
      unfold slice in H. rewrite Nat.sub_0_r in H. cbn [skipn] in H. rewrite firstn_all in H. exact H.
    - intros H. pose proof (m_complete r Haf s [] [] H) as Hm.
      cbn [app length] in Hm. rewrite app_nil_r in Hm. exact Hm.
  Qed.

  (* ---------- the parser's accumulators ---------- *)
  Fixpoint mcat (h : str) (l : list rast) (i j : nat) : Prop :=
    match l with
    | [] => i = j
    | a :: l' => exists k, m h a i k /\ mcat h l' k j
    end.

  Lemma m_fold_cat : forall h l a i j,
    m h (fold_left (fun acc b => RCat acc b) l a) i j <-> exists k, m h a i k /\ mcat h l k j.
  Proof.
    intros h. induction l as [|b l IH]; intros a i j; cbn [fold_left mcat].
    - split; [intros H; eauto|intros (k & H & <-); exact H].
    - rewrite IH. split.
      + intros (k & H & Hl). inversion H; subst. eauto 6.
      + intros (k & Ha & k' & Hb & Hl). exists k'. split; [econstructor; eauto|exact Hl].
  Qed.

  Lemma m_rcat : forall h l i j, m h (rcat l) i j <-> mcat h l i j.
  Proof.
    intros h l i j. unfold rcat, cat_of. rewrite rev_involutive.
    destruct l as [|a l]; cbn [mcat].
    - split; [intros H; inversion H; reflexivity|intros <-; constructor].
    - apply m_fold_cat.
  Qed.

  Lemma mcat_app : forall h l1 l2 i j,
    mcat h (l1 ++ l2) i j <-> exists k, mcat h l1 i k /\ mcat h l2 k j.
  Proof.
    intros h. induction l1 as [|a l1 IH]; intros l2 i j; cbn [app mcat].
    - split; [intros H; eauto|intros (k & <- & H); exact H].
    - split.
      + intros (k & Ha & H). apply IH in H. destruct H as (k' & H1 & H2). eauto 6.
      + intros (k' & (k & Ha & H1) & H2). exists k. split; [exact Ha|]. apply IH. eauto.
  Qed.

  Definition LRs (l : list rast) : lang := fold_right (fun a acc => lcat (LR a) acc) leps l.
  Definition LRa (l : list rast) : lang := fold_right (fun a acc => lunion (LR a) acc) lempty l.

  Lemma LRs_app : forall l1 l2, leq (LRs (l1 ++ l2)) (lcat (LRs l1) (LRs l2)).
  Proof.
    induction l1 as [|a l1 IH]; intros l2; cbn [app LRs fold_right].
    - symmetry. apply lcat_eps_l.
    - fold (LRs (l1 ++ l2)). fold (LRs l1). rewrite IH. symmetry. apply lcat_assoc.
  Qed.

  Lemma LRa_app : forall l1 l2, leq (LRa (l1 ++ l2)) (lunion (LRa l1) (LRa l2)).
  Proof.
    induction l1 as [|a l1 IH]; intros l2; cbn [app LRa fold_right].
    - symmetry. apply lunion_empty_l.
    - fold (LRa (l1 ++ l2)). fold (LRa l1). rewrite IH. symmetry. apply lunion_assoc.
  Qed.

  Lemma LRs_one : forall a, leq (LRs [a]) (LR a).
  Proof. intros a. cbn [LRs fold_right]. apply lcat_eps_r. Qed.

  Lemma LRa_one : forall a, leq (LRa [a]) (LR a).
  Proof. intros a. cbn [LRa fold_right]. apply lunion_empty_r. Qed.

  Lemma LR_fold_cat : forall l a,
    leq (LR (fold_left (fun acc b => RCat acc b) l a)) (lcat (LR a) (LRs l)).
  Proof.
    induction l as [|b l IH]; intros a; cbn [fold_left].
    - cbn [LRs fold_right]. symmetry. apply lcat_eps_r.
    - rewrite IH. cbn [LR LRs fold_right]. fold (LRs l). apply lcat_assoc.
  Qed.

  Lemma LR_rcat : forall l, leq (LR (rcat l)) (LRs l).
  Proof.
    intros l. unfold rcat, cat_of. rewrite rev_involutive.
    destruct l as [|a l]; [reflexivity|]. apply LR_fold_cat.
  Qed.

  Lemma LR_fold_alt : forall l a,
    leq (LR (fold_left (fun acc b => RAlt acc b) l a)) (lunion (LR a) (LRa l)).
  Proof.
    induction l as [|b l IH]; intros a; cbn [fold_left].
    - cbn [LRa fold_right]. symmetry. apply lunion_empty_r.
    - rewrite IH. cbn [LR LRa fold_right]. fold (LRa l). apply lunion_assoc.
  Qed.

  Lemma LR_ralt : forall l, l <> [] -> leq (LR (ralt l)) (LRa l).
  Proof.
    intros l Hl. unfold ralt, alt_of. rewrite rev_involutive.
    destruct l as [|a l]; [congruence|]. apply LR_fold_alt.
  Qed.

  Definition afs (l : list rast) : Prop := Forall af l.

  Lemma af_fold_cat : forall l a, af a -> afs l -> af (fold_left (fun acc b => RCat acc b) l a).
  Proof.
    induction l as [|b l IH]; intros a Ha Hl; [exact Ha|].
    inversion Hl; subst. cbn [fold_left]. apply IH; [split; assumption|assumption].
  Qed.

  Lemma af_rcat : forall l, afs l -> af (rcat l).
  Proof.
    intros l Hl. unfold rcat, cat_of. rewrite rev_involutive.
    destruct l as [|a l]; [exact I|]. inversion Hl; subst. apply af_fold_cat; assumption.
  Qed.

  Lemma af_fold_alt : forall l a, af a -> afs l -> af (fold_left (fun acc b => RAlt acc b) l a).
  Proof.
    induction l as [|b l IH]; intros a Ha Hl; [exact Ha|].
    inversion Hl; subst. cbn [fold_left]. apply IH; [split; assumption|assumption].
  Qed.

  Lemma af_ralt : forall l, afs l -> af (ralt l).
  Proof.
    intros l Hl. unfold ralt, alt_of. rewrite rev_involutive.
    destruct l as [|a l]; [exact I|]. inversion Hl; subst. apply af_fold_alt; assumption.
  Qed.

  (* ---------- anchors around an anchor-free body ---------- *)
  Lemma top_sem : forall (ns ne : bool) (atoms : list rast) s, afs atoms ->
    (L_rast lit_den cls_den
       (rcat ((if ns then [] else [RStart]) ++ atoms ++ (if ne then [] else [REnd]))) s
     <-> LRs atoms s).
  Proof.
    intros ns ne atoms s Haf. unfold L_rast.
    rewrite m_rcat, mcat_app.
    assert (Hbody : mcat s atoms 0 (length s) <-> LRs atoms s).
    { rewrite <- m_rcat. rewrite m_whole by (apply af_rcat; exact Haf). apply LR_rcat. }
    rewrite <- Hbody. split.
    - intros (k & Hs & Hr). apply mcat_app in Hr. destruct Hr as (k' & Ha & He).
      assert (k = 0).
      { destruct ns; cbn [mcat] in Hs; [congruence|].
        destruct Hs as (k0 & Hm & <-). inversion Hm; reflexivity. }
      assert (k' = length s).
      { destruct ne; cbn [mcat] in He; [congruence|].
        destruct He as (k0 & Hm & E). inversion Hm; subst. reflexivity. }
      subst. exact Ha.
    - intros Ha. exists 0. split.
      + destruct ns; cbn [mcat]; [reflexivity|]. exists 0. split; [constructor|reflexivity].
      + apply mcat_app. exists (length s). split; [exact Ha|].
        destruct ne; cbn [mcat]; [reflexivity|]. exists (length s). split; [constructor|reflexivity].
  Qed.
End SemLang.
