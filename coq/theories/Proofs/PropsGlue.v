(* Glue lemmas for the property theorem files theories/Props/Cxx.v: everything that needs more
   than a few lines and is not already a lemma of the development. *)
From Grex Require Import Base.Str Base.Ranges Model.Config Model.Cluster Model.Dfa Model.Expr
  Model.Pipeline.
From Grex Require Import Proofs.Lang Proofs.Spec Proofs.NormaliseDet Proofs.ClustersSpec
  Proofs.FoldTables Proofs.EngineDen Proofs.Construction.
From Grex Require Import Props.C09.
From GrexGen Require Import GrexTables OracleTables.

(* ====================================================================== *)
(* 1. cls_engine is the tok_accepts form of Props/C09.v                    *)
(* ====================================================================== *)

Lemma str_eqb_tok : forall l a, str_eqb [92; l]%N [92; a]%N = N.eqb l a.
Proof. intros l a. cbn [str_eqb]. rewrite N.eqb_refl, andb_true_r. reflexivity. Qed.

Lemma str_eqb_tok_single : forall l x, str_eqb [92; l]%N [x] = false.
Proof. intros l x. cbn [str_eqb]. apply andb_false_r. Qed.

Theorem cls_engine_tok : forall l x, cls_engine l x <-> tok_accepts [92%N; l] x = true.
Proof.
  intros l x. unfold cls_engine, cls_table, tok_accepts. rewrite !str_eqb_tok.
  destruct (N.eqb l 100); [reflexivity|].
  destruct (N.eqb l 119); [reflexivity|].
  destruct (N.eqb l 115); [reflexivity|].
  destruct (N.eqb l 68); [reflexivity|].
  destruct (N.eqb l 87); [reflexivity|].
  destruct (N.eqb l 83); [reflexivity|].
  rewrite str_eqb_tok_single. cbn. split; discriminate.
Qed.

(* ====================================================================== *)
(* 2. tokens denote languages of single code points                        *)
(* ====================================================================== *)

Section Tok.
  Variables lit cls : cp -> cp -> Prop.
  Local Notation Ds := (den_str lit cls).

  Lemma lone_single : forall (P : cp -> Prop) y, lone P [y] <-> P y.
  Proof.
    intros P y. split.
    - intros (x & E & H). injection E as <-. exact H.
    - intros H. exists y. auto.
  Qed.

  Lemma lone_inv : forall (P : cp -> Prop) u, lone P u -> exists y, u = [y] /\ P y.
  Proof. intros P u H. exact H. Qed.

  Lemma den_str_class2 : forall l u, is_class_letter l = true ->
    (Ds [92%N; l] u <-> exists y, u = [y] /\ cls l y).
  Proof.
    intros l u Hl. rewrite (den_str_cons2 lit cls).
    change (N.eqb 92 c_backslash) with true. rewrite Hl. cbn [andb den_str]. split.
    - intros (v & w & E & (y & -> & Hy) & ->). exists y. rewrite app_nil_r in E. auto.
    - intros (y & -> & Hy). exists [y], []. split; [reflexivity|]. split; [|reflexivity].
      exists y. auto.
  Qed.

  (* the language of a token, by the two shapes a token can have *)
  Lemma den_token : forall c x u,
    Ds (class_token c class_chain x) u <->
    exists y, u = [y] /\
      ((class_token c class_chain x = [x] /\ lit x y)
       \/ exists l, class_token c class_chain x = [92%N; l] /\ is_class_letter l = true /\ cls l y).
  Proof.
    intros c x u. destruct (class_token_shape c x) as [E|(l & E & Hl)]; rewrite E.
    - rewrite (den_str_single lit cls). split.
      + intros (y & -> & Hy). exists y. split; [reflexivity|]. left. auto.
      + intros (y & -> & [[_ Hy]|(l & El & _)]); [exists y; auto|discriminate El].
    - rewrite (den_str_class2 l u Hl). split.
      + intros (y & -> & Hy). exists y. split; [reflexivity|]. right. exists l. auto.
      + intros (y & -> & [[El _]|(l' & El & _ & Hy)]); [discriminate El|].
        injection El as <-. exists y. auto.
  Qed.

  Lemma den_token_single : forall c x u,
    Ds (class_token c class_chain x) u <->
    exists y, u = [y] /\ Ds (class_token c class_chain x) [y].
  Proof.
    intros c x u. split.
    - intros H. pose proof H as H'. apply den_token in H'. destruct H' as (y & -> & _).
      exists y. auto.
    - intros (y & -> & H). exact H.
  Qed.

  (* Spec_str, code point by code point *)
  Theorem Spec_str_unfold : forall c s u,
    Spec_str lit cls c s u <->
    Forall2 (fun x y => Ds (class_token c class_chain x) [y]) s u.
  Proof.
    intros c s. unfold Spec_str. induction s as [|x s IH]; intros u; cbn [map den_tokens].
    - split; [intros ->; constructor|intros H; inversion H; reflexivity].
    - split.
      + intros (v & w & -> & Hv & Hw). apply den_token_single in Hv.
        destruct Hv as (y & -> & Hy). cbn [app]. constructor; [exact Hy|]. apply IH. exact Hw.
      + intros H. inversion H as [|? y ? u' Hy Hu]; subst.
        exists [y], u'. split; [reflexivity|]. split; [exact Hy|]. apply IH. exact Hu.
  Qed.

  Corollary Spec_str_length : forall c s u, Spec_str lit cls c s u -> length u = length s.
  Proof.
    intros c s u H. apply Spec_str_unfold in H.
    induction H as [|x y s u _ _ IH]; cbn [length]; [reflexivity|]. rewrite IH. reflexivity.
  Qed.
End Tok.

(* ====================================================================== *)
(* 3. every string of scalar values satisfies its own specification        *)
(* ====================================================================== *)

(* case-sensitive engine denotations: the token chosen for x accepts x *)
Lemma token_accepts_self : forall c x, is_scalar x = true ->
  den_str lit_cs cls_engine (class_token c class_chain x) [x].
Proof.
  intros c x Hs. apply den_token. exists x. split; [reflexivity|].
  destruct (class_token_shape c x) as [E|(l & E & Hl)].
  - left. split; [exact E|reflexivity].
  - right. exists l. split; [exact E|]. split; [exact Hl|].
    apply (proj2 (cls_engine_tok l x)).
    pose proof (C09_conversion c x Hs) as H. rewrite E in H. exact H.
Qed.

Theorem Spec_str_self : forall c s, Forall (fun x => is_scalar x = true) s ->
  Spec_str lit_cs cls_engine c s s.
Proof.
  intros c s H. apply Spec_str_unfold. induction H as [|x s Hx _ IH]; constructor.
  - apply token_accepts_self. exact Hx.
  - exact IH.
Qed.

(* the same with lit_ci: a literal accepts itself under (?i) too *)
Lemma token_accepts_self_ci : forall c x, is_scalar x = true ->
  den_str lit_ci cls_engine (class_token c class_chain x) [x].
Proof.
  intros c x Hs. apply den_token. exists x. split; [reflexivity|].
  destruct (class_token_shape c x) as [E|(l & E & Hl)].
  - left. split; [exact E|apply lit_ci_refl].
  - right. exists l. split; [exact E|]. split; [exact Hl|].
    apply (proj2 (cls_engine_tok l x)).
    pose proof (C09_conversion c x Hs) as H. rewrite E in H. exact H.
Qed.

Theorem Spec_str_self_ci : forall c s, Forall (fun x => is_scalar x = true) s ->
  Spec_str lit_ci cls_engine c s s.
Proof.
  intros c s H. apply Spec_str_unfold. induction H as [|x s Hx _ IH]; constructor.
  - apply token_accepts_self_ci. exact Hx.
  - exact IH.
Qed.

(* ====================================================================== *)
(* 4. soundness on the test cases (C01)                                    *)
(* ====================================================================== *)

Lemma in_cases : forall c db ws t, In t ws ->
  In (if f_ci c then lower' db t else t) (if f_ci c then map (lower' db) ws else ws).
Proof. intros c db ws t H. destruct (f_ci c); [apply in_map|]; exact H. Qed.

Theorem sound_expr : forall (lit cls : cp -> cp -> Prop) c db sc ws e t,
  ws <> [] ->
  oracle_ok db (normalise c db ws) ->
  no_merge (grapheme_clusters c db (normalise c db ws)) = true ->
  Pipeline.final_expr c (grapheme_clusters c db (normalise c db ws)) sc = Some e ->
  In t ws ->
  let t' := if f_ci c then lower' db t else t in
  (t' <> [] \/ K4 (normalise c db ws) = false) ->
  Spec_str lit cls c t' t' ->
  L_expr lit cls e t'.
Proof.
  intros lit cls c db sc ws e t Hws Hok Hnm He Ht t' Hside Hself.
  destruct (construction_lang lit cls c db sc ws e Hws Hok Hnm He) as [A _].
  apply (A t' Hside). exists t'. split; [apply in_cases; exact Ht|exact Hself].
Qed.

(* ---------- (?i): the original test case ---------- *)

(* the per-code-point core: the token chosen for the lower-cased code point accepts the
   original code point, outside the skew set (known finding K3) *)
(* the shapes of the documented conversion, with what the chosen token says about x; stated
   once so that no later proof step has to convert terms containing the engine tables *)
Lemma spec_token_cases : forall c x,
  (spec_token c x = [92; 100]%N /\ mem engine_d x = true)
  \/ (spec_token c x = [92; 119]%N /\ mem engine_w x = true)
  \/ (spec_token c x = [92; 115]%N /\ mem engine_s x = true)
  \/ (spec_token c x = [92; 68]%N /\ mem engine_d x = false)
  \/ (spec_token c x = [92; 87]%N /\ mem engine_w x = false)
  \/ (spec_token c x = [92; 83]%N /\ mem engine_s x = false)
  \/ spec_token c x = [x].
Proof.
  intros c x. unfold spec_token.
  generalize (mem engine_d x) (mem engine_w x) (mem engine_s x). intros bd bw bs.
  destruct (f_digit c), bd; cbn [andb negb]; auto;
  destruct (f_word c), bw; cbn [andb negb]; auto 7;
  destruct (f_space c), bs; cbn [andb negb]; auto 7;
  destruct (f_non_digit c); cbn [andb negb]; auto 7;
  destruct (f_non_word c); cbn [andb negb]; auto 8;
  destruct (f_non_space c); cbn [andb negb]; auto 8.
Qed.

Lemma token_lower_accepts_original : forall c x,
  is_scalar x = true -> mem_cp x skew_set = false ->
  den_str lit_ci cls_engine (class_token c class_chain (lower1 x)) [x].
Proof.
  intros c x Hs Hk.
  destruct (lower_in_fold_class x Hk) as [Hxl Hlx].
  (* Hxl : In (lower1 x) (fold_class x) *)
  pose proof (engine_d_fold_invariant x (lower1 x) Hxl) as Id.
  pose proof (engine_w_fold_invariant x (lower1 x) Hxl) as Iw.
  pose proof (engine_s_fold_invariant x (lower1 x) Hxl) as Is.
  destruct (C09_negated x Hs) as (ND & NW & NS).
  apply den_token. exists x. split; [reflexivity|].
  rewrite (C09_token_spec c (lower1 x)).
  generalize dependent (lower1 x). intros y Hxl Hlx Id Iw Is.
  destruct (spec_token_cases c y) as [[E H]|[[E H]|[[E H]|[[E H]|[[E H]|[[E H]|E]]]]]];
    rewrite E; [right; eexists; (split; [reflexivity|]); (split; [reflexivity|]) ..|].
  - apply cls_engine_d. rewrite <- Id. exact H.
  - apply cls_engine_w. rewrite <- Iw. exact H.
  - apply cls_engine_s. rewrite <- Is. exact H.
  - apply cls_engine_D. rewrite ND, <- Id, H. reflexivity.
  - apply cls_engine_W. rewrite NW, <- Iw, H. reflexivity.
  - apply cls_engine_S. rewrite NS, <- Is, H. reflexivity.
  - left. split; [reflexivity|exact Hlx].
Qed.

Theorem Spec_str_lower_original : forall c t,
  Forall (fun x => is_scalar x = true /\ mem_cp x skew_set = false) t ->
  Spec_str lit_ci cls_engine c (map lower1 t) t.
Proof.
  intros c t H. apply Spec_str_unfold. induction H as [|x t [Hs Hk] _ IH]; cbn [map]; constructor.
  - apply token_lower_accepts_original; assumption.
  - exact IH.
Qed.

Theorem ci_original : forall c db sc ws e t,
  f_ci c = true ->
  ws <> [] ->
  oracle_ok db (normalise c db ws) ->
  no_merge (grapheme_clusters c db (normalise c db ws)) = true ->
  Pipeline.final_expr c (grapheme_clusters c db (normalise c db ws)) sc = Some e ->
  In t ws ->
  lower' db t = map lower1 t ->
  Forall (fun x => is_scalar x = true /\ mem_cp x skew_set = false) t ->
  (t <> [] \/ K4 (normalise c db ws) = false) ->
  L_expr lit_ci cls_engine e t.
Proof.
  intros c db sc ws e t Hci Hws Hok Hnm He Ht Hlow Hall Hside.
  destruct (construction_lang lit_ci cls_engine c db sc ws e Hws Hok Hnm He) as [A _].
  apply (A t Hside). unfold Spec. rewrite Hci. exists (lower' db t).
  split; [apply in_map; exact Ht|]. rewrite Hlow. apply Spec_str_lower_original. exact Hall.
Qed.

(* ====================================================================== *)
(* 5. the default settings: the specification is the set of test cases     *)
(* ====================================================================== *)

Lemma Spec_str_plain : forall (cls : cp -> cp -> Prop) c s u, no_class_flag c ->
  (Spec_str lit_cs cls c s u <-> s = u).
Proof.
  intros cls c s u Hc. rewrite Spec_str_unfold. split.
  - intros H. induction H as [|x y s' u' Hxy _ IH]; [reflexivity|].
    rewrite (class_token_noflag c x Hc), (den_str_single lit_cs cls) in Hxy.
    apply (proj1 (lone_single (lit_cs x) y)) in Hxy. unfold lit_cs in Hxy.
    rewrite Hxy, IH. reflexivity.
  - intros <-. induction s as [|x s IH]; constructor; [|exact IH].
    rewrite (class_token_noflag c x Hc), (den_str_single lit_cs cls). apply lone_single. reflexivity.
Qed.

Theorem Spec_plain : forall (cls : cp -> cp -> Prop) c db ws u,
  no_class_flag c -> f_ci c = false ->
  (Spec lit_cs cls c db ws u <-> In u ws).
Proof.
  intros cls c db ws u Hc Hci. unfold Spec, Spec_cases. rewrite Hci. split.
  - intros (t & Ht & H). apply (Spec_str_plain cls c t u Hc) in H. subst. exact Ht.
  - intros H. exists u. split; [exact H|]. apply (Spec_str_plain cls c u u Hc). reflexivity.
Qed.

Theorem exact_default : forall (cls : cp -> cp -> Prop) c db sc ws e,
  no_class_flag c -> f_ci c = false -> f_rep c = false ->
  ws <> [] ->
  oracle_ok db (normalise c db ws) ->
  Pipeline.final_expr c (grapheme_clusters c db (normalise c db ws)) sc = Some e ->
  (forall u, (u <> [] \/ K4 (normalise c db ws) = false) -> (L_expr lit_cs cls e u <-> In u ws))
  /\ (L_expr lit_cs cls e [] -> In [] ws).
Proof.
  intros cls c db sc ws e Hc Hci Hr Hws Hok He.
  destruct (construction_lang_default lit_cs cls c db sc ws e Hr Hws Hok He) as [A B].
  split.
  - intros u Hu. rewrite (A u Hu). apply Spec_plain; assumption.
  - intros H. apply (Spec_plain cls c db ws [] Hc Hci). apply B. exact H.
Qed.

(* ====================================================================== *)
(* 6. which settings the language depends on                               *)
(* ====================================================================== *)

(* the settings read by the specification: the six class options and (?i) *)
Definition same_lang_settings (c1 c2 : cfg) : Prop :=
  f_digit c1 = f_digit c2 /\ f_non_digit c1 = f_non_digit c2 /\
  f_space c1 = f_space c2 /\ f_non_space c1 = f_non_space c2 /\
  f_word c1 = f_word c2 /\ f_non_word c1 = f_non_word c2 /\
  f_ci c1 = f_ci c2.

(* ... and those read by the construction of the grapheme clusters in addition: c1 and c2 may
   differ only in f_cap, f_esc, f_sur, f_verbose, f_no_start, f_no_end, f_colour *)
Definition same_but_presentation (c1 c2 : cfg) : Prop :=
  same_lang_settings c1 c2 /\
  f_rep c1 = f_rep c2 /\ min_rep c1 = min_rep c2 /\ min_len c1 = min_len c2.

Lemma same_lang_settings_refl : forall c, same_lang_settings c c.
Proof. intro c. repeat split. Qed.

Lemma class_token_settings : forall c1 c2 chain x, same_lang_settings c1 c2 ->
  class_token c1 chain x = class_token c2 chain x.
Proof.
  intros c1 c2 chain x (H1 & H2 & H3 & H4 & H5 & H6 & _).
  induction chain as [|[[[f neg] t] tok] chain IH]; cbn [class_token]; [reflexivity|].
  rewrite IH. replace (flag_of c1 f) with (flag_of c2 f); [reflexivity|].
  destruct f; cbn [flag_of]; congruence.
Qed.

Lemma normalise_settings : forall c1 c2 db ws, f_ci c1 = f_ci c2 ->
  normalise c1 db ws = normalise c2 db ws.
Proof. intros c1 c2 db ws H. unfold normalise. rewrite H. reflexivity. Qed.

Lemma Spec_str_settings : forall (lit cls : cp -> cp -> Prop) c1 c2 s,
  same_lang_settings c1 c2 -> Spec_str lit cls c1 s = Spec_str lit cls c2 s.
Proof.
  intros lit cls c1 c2 s H. unfold Spec_str. f_equal. apply map_ext.
  intros x. apply class_token_settings. exact H.
Qed.

Theorem Spec_settings : forall (lit cls : cp -> cp -> Prop) c1 c2 db ws,
  same_lang_settings c1 c2 -> leq (Spec lit cls c1 db ws) (Spec lit cls c2 db ws).
Proof.
  intros lit cls c1 c2 db ws H u. unfold Spec, Spec_cases.
  replace (f_ci c2) with (f_ci c1) by apply H.
  split; intros (t & Ht & Hu); exists t; (split; [exact Ht|]).
  - rewrite <- (Spec_str_settings lit cls c1 c2 t H). exact Hu.
  - rewrite (Spec_str_settings lit cls c1 c2 t H). exact Hu.
Qed.

(* two configurations with the same language settings: the generated expressions denote the
   same language (except possibly on the empty string under K4) *)
Theorem construction_lang_settings : forall (lit cls : cp -> cp -> Prop) c1 c2 db sc1 sc2 ws e1 e2,
  same_lang_settings c1 c2 ->
  ws <> [] ->
  oracle_ok db (normalise c1 db ws) ->
  no_merge (grapheme_clusters c1 db (normalise c1 db ws)) = true ->
  no_merge (grapheme_clusters c2 db (normalise c2 db ws)) = true ->
  Pipeline.final_expr c1 (grapheme_clusters c1 db (normalise c1 db ws)) sc1 = Some e1 ->
  Pipeline.final_expr c2 (grapheme_clusters c2 db (normalise c2 db ws)) sc2 = Some e2 ->
  forall u, (u <> [] \/ K4 (normalise c1 db ws) = false) ->
    (L_expr lit cls e1 u <-> L_expr lit cls e2 u).
Proof.
  intros lit cls c1 c2 db sc1 sc2 ws e1 e2 HS Hws Hok Hnm1 Hnm2 He1 He2 u Hu.
  assert (En : normalise c1 db ws = normalise c2 db ws)
    by (apply normalise_settings; apply HS).
  destruct (construction_lang lit cls c1 db sc1 ws e1 Hws Hok Hnm1 He1) as [A1 _].
  assert (Hok2 : oracle_ok db (normalise c2 db ws)) by (rewrite <- En; exact Hok).
  destruct (construction_lang lit cls c2 db sc2 ws e2 Hws Hok2 Hnm2 He2) as [A2 _].
  rewrite (A1 u Hu). rewrite En in Hu. rewrite (A2 u Hu).
  apply Spec_settings. exact HS.
Qed.

(* ---------- presentation settings do not reach the grapheme clusters ---------- *)

Lemma create_ranges_settings : forall c1 c2 m n, min_rep c1 = min_rep c2 ->
  create_ranges c1 m n = create_ranges c2 m n.
Proof. intros c1 c2 m n H. unfold create_ranges. rewrite H. reflexivity. Qed.

Lemma splice_all_settings : forall c1 c2 co out, min_len c1 = min_len c2 ->
  splice_all c1 co out = splice_all c2 co out.
Proof.
  intros c1 c2 co. induction co as [|[[s e] sub] co IH]; intros out H; cbn [splice_all];
    [reflexivity|].
  rewrite H, !(IH _ H). reflexivity.
Qed.

Lemma conv_reps_settings : forall c1 c2 fuel gs,
  min_rep c1 = min_rep c2 -> min_len c1 = min_len c2 ->
  conv_reps fuel c1 gs = conv_reps fuel c2 gs.
Proof.
  intros c1 c2 fuel. induction fuel as [|fuel IH]; intros gs H1 H2; cbn [conv_reps];
    [reflexivity|].
  rewrite (create_ranges_settings c1 c2 _ _ H1).
  destruct (coalesce_repetitions _) as [|x co]; [reflexivity|].
  rewrite (splice_all_settings c1 c2 _ _ H2). apply map_ext.
  intros [cs r a b]. rewrite (IH _ H1 H2). reflexivity.
Qed.

Lemma convert_repetitions_settings : forall c1 c2 cl,
  min_rep c1 = min_rep c2 -> min_len c1 = min_len c2 ->
  convert_repetitions c1 cl = convert_repetitions c2 cl.
Proof.
  intros c1 c2 cl H1 H2. unfold convert_repetitions.
  rewrite (conv_reps_settings c1 c2 _ _ H1 H2). reflexivity.
Qed.

Lemma convert_classes_settings : forall c1 c2 cl, same_lang_settings c1 c2 ->
  convert_classes c1 cl = convert_classes c2 cl.
Proof.
  intros c1 c2 cl H. unfold convert_classes. apply map_ext. intros [cs r a b].
  cbn [convert_classes_g]. f_equal. apply map_ext. intros s.
  induction s as [|x s IH]; cbn [flat_map]; [reflexivity|].
  rewrite IH, (class_token_settings c1 c2 class_chain x H). reflexivity.
Qed.

Lemma no_class_flag_settings : forall c1 c2, same_lang_settings c1 c2 ->
  no_class_flag c1 -> no_class_flag c2.
Proof.
  intros c1 c2 (H1 & H2 & H3 & H4 & H5 & H6 & _) (G1 & G2 & G3 & G4 & G5 & G6).
  unfold no_class_flag. repeat split; congruence.
Qed.

Lemma map_id_ext {A} (f : A -> A) (l : list A) : (forall x, f x = x) -> map f l = l.
Proof. intros H. rewrite (map_ext f (fun x => x) H). apply map_id. Qed.

Lemma clusters_k_settings : forall c1 c2 cls, same_lang_settings c1 c2 ->
  clusters_k c1 cls = clusters_k c2 cls.
Proof.
  intros c1 c2 cls H. unfold clusters_k.
  assert (H' : same_lang_settings c2 c1) by (unfold same_lang_settings in *; intuition congruence).
  destruct (char_class_feature c1) eqn:E1, (char_class_feature c2) eqn:E2.
  - apply map_ext. intros cl. apply convert_classes_settings. exact H.
  - pose proof (no_class_feature_noflag c2 E2) as N2.
    pose proof (no_class_flag_settings c2 c1 H' N2) as N1.
    apply map_id_ext. intros cl. apply convert_classes_noflag. exact N1.
  - pose proof (no_class_feature_noflag c1 E1) as N1.
    pose proof (no_class_flag_settings c1 c2 H N1) as N2.
    symmetry. apply map_id_ext. intros cl. apply convert_classes_noflag. exact N2.
  - reflexivity.
Qed.

Theorem grapheme_clusters_presentation : forall c1 c2 db tcs, same_but_presentation c1 c2 ->
  grapheme_clusters c1 db tcs = grapheme_clusters c2 db tcs.
Proof.
  intros c1 c2 db tcs (HS & Hr & Hm & Hl). unfold grapheme_clusters.
  rewrite (clusters_k_settings c1 c2 _ HS). unfold clusters_r. rewrite Hr.
  destruct (f_rep c2); [|reflexivity].
  apply map_ext. intros cl. apply convert_repetitions_settings; assumption.
Qed.

(* two configurations that differ only in presentation settings: one set of hypotheses *)
Theorem construction_lang_presentation : forall (lit cls : cp -> cp -> Prop) c1 c2 db sc1 sc2 ws e1 e2,
  same_but_presentation c1 c2 ->
  ws <> [] ->
  oracle_ok db (normalise c1 db ws) ->
  no_merge (grapheme_clusters c1 db (normalise c1 db ws)) = true ->
  Pipeline.final_expr c1 (grapheme_clusters c1 db (normalise c1 db ws)) sc1 = Some e1 ->
  Pipeline.final_expr c2 (grapheme_clusters c2 db (normalise c2 db ws)) sc2 = Some e2 ->
  forall u, (u <> [] \/ K4 (normalise c1 db ws) = false) ->
    (L_expr lit cls e1 u <-> L_expr lit cls e2 u).
Proof.
  intros lit cls c1 c2 db sc1 sc2 ws e1 e2 HP Hws Hok Hnm He1 He2.
  apply (construction_lang_settings lit cls c1 c2 db sc1 sc2 ws e1 e2 (proj1 HP) Hws Hok Hnm);
    [|exact He1|exact He2].
  rewrite <- (normalise_settings c1 c2 db ws) by apply HP.
  rewrite <- (grapheme_clusters_presentation c1 c2 db _ HP). exact Hnm.
Qed.

(* the headline form of C01 for case-sensitive matching: side condition discharged *)
Theorem sound_cs : forall c db sc ws e t,
  f_ci c = false ->
  ws <> [] ->
  oracle_ok db (normalise c db ws) ->
  no_merge (grapheme_clusters c db (normalise c db ws)) = true ->
  Pipeline.final_expr c (grapheme_clusters c db (normalise c db ws)) sc = Some e ->
  In t ws ->
  Forall (fun x => is_scalar x = true) t ->
  (t <> [] \/ K4 (normalise c db ws) = false) ->
  L_expr lit_cs cls_engine e t.
Proof.
  intros c db sc ws e t Hci Hws Hok Hnm He Ht Hsc Hside.
  pose proof (sound_expr lit_cs cls_engine c db sc ws e t Hws Hok Hnm He Ht) as H.
  cbv zeta in H. rewrite Hci in H. apply H; [exact Hside|]. apply Spec_str_self. exact Hsc.
Qed.

(* ====================================================================== *)
(* 7. the empty test case; minimality for pipeline inputs (C02)            *)
(* ====================================================================== *)
From Grex Require Proofs.QuotientLang Proofs.HopcroftCoarsest Proofs.TrieLang.

Lemma lower'_nil_inv : forall db s, lower' db s = [] -> s = [].
Proof.
  intros db s H. unfold lower' in H.
  destruct (Nat.eqb (length (lower_of db s)) (length s)) eqn:E; [|exact H].
  apply Nat.eqb_eq in E. rewrite H in E. destruct s; [reflexivity|discriminate E].
Qed.

Lemma nil_in_normalise : forall c db ws, In [] (normalise c db ws) -> In [] ws.
Proof.
  intros c db ws H. apply normalise_in in H. destruct (f_ci c); [|exact H].
  apply in_map_iff in H. destruct H as (s & E & Hs). apply lower'_nil_inv in E. subst s. exact Hs.
Qed.

(* the empty cluster only comes from the empty test case *)
Lemma nil_in_clusters : forall c db tcs, oracle_ok db tcs ->
  In [] (grapheme_clusters c db tcs) -> In [] tcs.
Proof.
  intros c db tcs Hok H.
  assert (HL : L_clusters dT dT (grapheme_clusters c db tcs) [])
    by (exists []; split; [exact H|reflexivity]).
  apply (grapheme_clusters_spec dT dT c db tcs Hok) in HL.
  destruct HL as (t & Ht & Hs). apply (Spec_str_nil_inv dT dT) in Hs. subst t. exact Ht.
Qed.

Theorem minimal_deterministic_pipeline : forall c db ws t d',
  ws <> [] ->
  oracle_ok db (normalise c db ws) ->
  no_merge (grapheme_clusters c db (normalise c db ws)) = true ->
  ~ In [] ws ->
  trie_of (grapheme_clusters c db (normalise c db ws)) = Some t ->
  minimize t = Some d' ->
  QuotientLang.deterministic d'
  /\ (forall i j, (i < d_n d')%nat -> (j < d_n d')%nat ->
        (forall w, QuotientLang.Lw_from d' i w <-> QuotientLang.Lw_from d' j w) -> i = j).
Proof.
  intros c db ws t d' Hws Hok Hnm Hnil Ht Hm.
  apply (HopcroftCoarsest.trie_minimize_minimal_no_empty
           (grapheme_clusters c db (normalise c db ws)) t d'
           (grapheme_clusters_wf c db _) (grapheme_clusters_uniform c db _)
           (clusters_nonempty c db ws Hws) Hnm Ht Hm).
  intros H. apply Hnil. apply (nil_in_normalise c db ws).
  apply (nil_in_clusters c db _ Hok H).
Qed.

Corollary minimal_deterministic_default : forall c db ws t d',
  f_rep c = false ->
  ws <> [] ->
  oracle_ok db (normalise c db ws) ->
  ~ In [] ws ->
  trie_of (grapheme_clusters c db (normalise c db ws)) = Some t ->
  minimize t = Some d' ->
  QuotientLang.deterministic d'
  /\ (forall i j, (i < d_n d')%nat -> (j < d_n d')%nat ->
        (forall w, QuotientLang.Lw_from d' i w <-> QuotientLang.Lw_from d' j w) -> i = j).
Proof.
  intros c db ws t d' Hr Hws Hok. 
  exact (minimal_deterministic_pipeline c db ws t d' Hws Hok (construction_exact_default c db ws Hr)).
Qed.

(* ====================================================================== *)
(* 8. case-insensitive matching: collapse, flag (C04)                      *)
(* ====================================================================== *)
From Grex Require Proofs.PrintShape.
From Grex Require Import Model.Print.

Theorem ci_collapse : forall c db ws t1 t2,
  f_ci c = true -> In t1 ws -> lower' db t1 = lower' db t2 ->
  normalise c db (t2 :: ws) = normalise c db ws.
Proof.
  intros c db ws t1 t2 Hci H1 E. unfold normalise. rewrite Hci. apply sort_cases_perm.
  intros x. cbn [map In]. split.
  - intros [<-|H]; [|exact H]. rewrite <- E. apply in_map. exact H1.
  - intros H. right. exact H.
Qed.

Theorem ci_flag_plain : forall isd c e,
  f_ci c = true -> f_verbose c = false -> f_colour c = false ->
  starts_with [40; 63; 105; 41]%N (regexp_str isd c e) = true.
Proof.
  intros isd c e Hci Hv Hc. rewrite (PrintShape.regexp_str_plain isd c e Hv Hc).
  unfold PrintShape.flag_str. rewrite Hci. apply PrintShape.starts_with_app.
Qed.

Theorem ci_flag_verbose : forall isd c e,
  f_ci c = true -> f_verbose c = true -> f_colour c = false ->
  starts_with [40; 63; 105; 120; 41]%N (regexp_str isd c e) = true.
Proof.
  intros isd c e Hci Hv Hc. pose proof (PrintShape.regexp_str_verbose_flag isd c e Hv Hc) as H.
  unfold PrintShape.vflag_str in H. rewrite Hci in H. exact H.
Qed.

Theorem cs_no_flag_plain : forall isd c e,
  f_ci c = false -> f_verbose c = false -> f_colour c = false ->
  regexp_str isd c e
  = (if f_no_start c then [] else [94]%N) ++ PrintShape.body_str c e
    ++ (if f_no_end c then [] else [36]%N).
Proof.
  intros isd c e Hci Hv Hc. rewrite (PrintShape.regexp_str_plain isd c e Hv Hc).
  unfold PrintShape.flag_str. rewrite Hci. reflexivity.
Qed.

(* ====================================================================== *)
(* 9. build depends on the SET of test cases (C10)                         *)
(* ====================================================================== *)
From Coq Require Import Permutation.

Theorem build_perm : forall isd c db sc ws1 ws2,
  (forall x, In x ws1 <-> In x ws2) -> build isd c db sc ws1 = build isd c db sc ws2.
Proof.
  intros isd c db sc ws1 ws2 H. unfold build. rewrite (normalise_perm c db ws1 ws2 H). reflexivity.
Qed.

Corollary build_dup : forall isd c db sc ws,
  build isd c db sc (ws ++ ws) = build isd c db sc ws.
Proof. intros. apply build_perm. intro x. rewrite in_app_iff. tauto. Qed.

Corollary build_permutation : forall isd c db sc ws1 ws2,
  Permutation ws1 ws2 -> build isd c db sc ws1 = build isd c db sc ws2.
Proof.
  intros isd c db sc ws1 ws2 Hp. apply build_perm. intro x. split; intro Hx.
  - eapply Permutation_in; [exact Hp|exact Hx].
  - eapply Permutation_in; [apply Permutation_sym; exact Hp|exact Hx].
Qed.

(* ====================================================================== *)
(* 10. ASCII output of the pipeline when escaping is enabled (C06, C11)    *)
(* ====================================================================== *)

Theorem final_expr_ascii : forall isd c cls sc e,
  f_esc c = true -> Pipeline.final_expr c cls sc = Some e ->
  Forall (fun x => (x < 128)%N) (regexp_str isd c e).
Proof.
  intros isd c cls sc e He H.
  destruct (final_expr_inv c cls sc e H) as (t & d1 & e1 & Ht & Hm & He1 & Hcase).
  destruct Hcase as [->|[(_ & _ & He2)|(_ & _ & ->)]].
  - exact (PrintShape.regexp_str_from_ascii isd c d1 e1 He He1).
  - exact (PrintShape.regexp_str_from_ascii isd c t e He He2).
  - apply PrintShape.regexp_str_ascii; [exact He|].
    apply PrintShape.new_alternation_cc_ascii. apply Forall_forall. intros x Hx.
    apply in_map_iff in Hx. destruct Hx as (cl & <- & _). exact I.
Qed.

Theorem build_ascii : forall isd c db sc ws s,
  f_esc c = true -> build isd c db sc ws = Some s -> Forall (fun x => (x < 128)%N) s.
Proof.
  intros isd c db sc ws s He H. unfold build in H.
  destruct (Pipeline.final_expr c (grapheme_clusters c db (normalise c db ws)) sc) as [e|] eqn:E;
    [|discriminate].
  injection H as <-. exact (final_expr_ascii isd c _ sc e He E).
Qed.

(* ====================================================================== *)
(* 11. syntax highlighting on pipeline outputs (C15)                       *)
(* ====================================================================== *)
From Grex Require Proofs.ColourStrip Proofs.CcSorted.

(* the engine's \d table satisfies what the stripper needs of the digit test *)
Lemma engine_d_ascii_digits : forall d, mem [(48, 57)]%N d = true -> mem engine_d d = true.
Proof.
  intros d H.
  pose proof (sweep_sound (BAnd (BMem [(48, 57)]%N) (BMem engine_d)) (BMem [(48, 57)]%N)) as S.
  specialize (S ltac:(vm_compute; reflexivity) d). cbn [beval] in S.
  rewrite H in S. exact S.
Qed.

Theorem digit_ok_engine : ColourStripBase.digit_ok (mem engine_d).
Proof.
  split; [|split; vm_compute; reflexivity].
  intros d H1 H2. apply engine_d_ascii_digits. unfold mem, Ranges.in_range. cbn [existsb fst snd].
  apply N.leb_le in H1. apply N.leb_le in H2. rewrite H1, H2. reflexivity.
Qed.

Theorem strip_pipeline : forall isd c c0 cls sc e,
  ColourStripBase.digit_ok isd ->
  Pipeline.final_expr c0 cls sc = Some e ->
  strip_sgr isd (regexp_str isd (ColourStripBase.with_colour c true) e)
  = regexp_str isd (ColourStripBase.with_colour c false) e.
Proof.
  intros isd c c0 cls sc e Hd H. apply ColourStrip.strip_regexp_str_wf; [exact Hd|].
  exact (CcSorted.final_expr_cc_sorted c0 cls sc e H).
Qed.

(* ====================================================================== *)
(* 12. Expression::from with the union2 / concatenate premises discharged  *)
(* ====================================================================== *)
From Grex Require Proofs.ElimLang Proofs.ExprLang.

Theorem expr_from_lang_closed : forall (lit cls : cp -> cp -> Prop) c d e,
  wf_dfa d -> ElimLang.acyclic d -> (exists u, L_dfa lit cls d u) ->
  expr_from c d = Some e -> leq (L_expr lit cls e) (L_dfa lit cls d).
Proof.
  intros lit cls.
  exact (ElimLang.expr_from_lang lit cls
           (ExprLang.union2_lang lit cls) ExprLang.union2_total ExprLang.union2_wf
           (ExprLang.concatenate_lang lit cls) ExprLang.concatenate_wf).
Qed.

Theorem expr_from_lang_gen_closed : forall (lit cls : cp -> cp -> Prop) c d e,
  wf_dfa d -> ElimLang.acyclic d -> expr_from c d = Some e ->
  leq (L_expr lit cls e) (L_dfa lit cls d)
  \/ (e = ELit [] /\ forall u, ~ L_dfa lit cls d u).
Proof. exact efl. Qed.

(* ====================================================================== *)
(* 13. anchors (C08)                                                       *)
(* ====================================================================== *)

Lemma set_anchors_presentation : forall c s t,
  same_but_presentation c (PrintShape.set_anchors c s t).
Proof. intros c s t. repeat split. Qed.

Theorem anchors_language : forall (lit cls : cp -> cp -> Prop) c s t db sc1 sc2 ws e1 e2,
  let c' := PrintShape.set_anchors c s t in
  ws <> [] ->
  oracle_ok db (normalise c db ws) ->
  no_merge (grapheme_clusters c db (normalise c db ws)) = true ->
  Pipeline.final_expr c (grapheme_clusters c db (normalise c db ws)) sc1 = Some e1 ->
  Pipeline.final_expr c' (grapheme_clusters c' db (normalise c' db ws)) sc2 = Some e2 ->
  forall u, (u <> [] \/ K4 (normalise c db ws) = false) ->
    (L_expr lit cls e1 u <-> L_expr lit cls e2 u).
Proof.
  intros lit cls c s t db sc1 sc2 ws e1 e2 c'.
  exact (construction_lang_presentation lit cls c c' db sc1 sc2 ws e1 e2
           (set_anchors_presentation c s t)).
Qed.

(* ====================================================================== *)
(* 14. thresholds (C13)                                                    *)
(* ====================================================================== *)
From Grex Require Proofs.Provenance Proofs.ProvenanceInst.

Theorem final_expr_thresholds : forall c db ws sc e,
  Pipeline.final_expr c (grapheme_clusters c db ws) sc = Some e ->
  forall g, Provenance.lit_in g e ->
    (g_min g = 1%N /\ g_max g = 1%N)
    \/ ((min_rep c < g_max g)%N /\ (min_len c <= N.of_nat (length (g_chars g)))%N).
Proof.
  intros c db ws sc e H g Hg.
  exact (Provenance.expr_all_lit_in _ e g (ProvenanceInst.final_expr_thr c db ws sc e H) Hg).
Qed.

Theorem final_expr_total_pipeline : forall c db tcs sc,
  exists e, Pipeline.final_expr c (grapheme_clusters c db tcs) sc = Some e.
Proof. intros c db tcs sc. apply final_expr_total. apply grapheme_clusters_wf. Qed.
