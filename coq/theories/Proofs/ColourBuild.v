(* "Syntax highlighting only adds colour codes" at the level of two runs of build():
   the colour flag is read by the printer only.

     final_expr_colour_indep, grapheme_clusters_colour_indep, normalise_colour_indep
         the expression construction, the cluster conversion and the normalisation of the test
         cases do not read f_colour
     build_colour_strip
         the highlighted run and the plain run (same oracle data, same recorded self-check
         outcome): stripping the SGR sequences from the first output gives the second
     build_colour_strip_ex
         the same with the plain output obtained from totality of build *)
From Grex Require Import Base.Str Model.Config Model.Cluster Model.Dfa Model.Expr Model.Print
  Model.Pipeline.
From Grex Require Import Proofs.ColourStrip Proofs.CcSorted Proofs.Construction Proofs.PropsGlue.

(* Expression::from reads the settings only through is_single_codepoint, i.e. f_esc *)
Lemma union2_colour_indep : forall c b x y, union2 (with_colour c b) x y = union2 c x y.
Proof. reflexivity. Qed.

Lemma expr_from_colour_indep : forall c b d, expr_from (with_colour c b) d = expr_from c d.
Proof. reflexivity. Qed.

Theorem final_expr_colour_indep : forall c b cls sc,
  Pipeline.final_expr (with_colour c b) cls sc = Pipeline.final_expr c cls sc.
Proof. reflexivity. Qed.

Lemma with_colour_presentation : forall c b, same_but_presentation (with_colour c b) c.
Proof.
  intros c b. unfold same_but_presentation, same_lang_settings. cbn. repeat split; reflexivity.
Qed.

Theorem grapheme_clusters_colour_indep : forall c b db ws,
  grapheme_clusters (with_colour c b) db ws = grapheme_clusters c db ws.
Proof.
  intros c b db ws. apply grapheme_clusters_presentation. apply with_colour_presentation.
Qed.

Theorem normalise_colour_indep : forall c b db ws,
  normalise (with_colour c b) db ws = normalise c db ws.
Proof. reflexivity. Qed.

Theorem colour_unread : forall c b,
  (forall db ws, normalise (with_colour c b) db ws = normalise c db ws)
  /\ (forall db ws, grapheme_clusters (with_colour c b) db ws = grapheme_clusters c db ws)
  /\ (forall cls sc, Pipeline.final_expr (with_colour c b) cls sc = Pipeline.final_expr c cls sc).
Proof.
  intros c b. split; [|split].
  - intros db ws. apply normalise_colour_indep.
  - intros db ws. apply grapheme_clusters_colour_indep.
  - intros cls sc. apply final_expr_colour_indep.
Qed.

(* the expression printed by a run of build() does not depend on the colour flag *)
Lemma build_inv : forall isd c db sc ws s, build isd c db sc ws = Some s ->
  exists e, Pipeline.final_expr c (grapheme_clusters c db (normalise c db ws)) sc = Some e
            /\ s = regexp_str isd c e.
Proof.
  intros isd c db sc ws s H. unfold build in H.
  destruct (Pipeline.final_expr c (grapheme_clusters c db (normalise c db ws)) sc) as [e|];
    [|discriminate].
  exists e. split; [reflexivity|]. congruence.
Qed.

Lemma build_with_colour : forall isd c b db sc ws,
  build isd (with_colour c b) db sc ws =
  match Pipeline.final_expr c (grapheme_clusters c db (normalise c db ws)) sc with
  | None => None
  | Some e => Some (regexp_str isd (with_colour c b) e)
  end.
Proof.
  intros isd c b db sc ws. unfold build.
  rewrite normalise_colour_indep, grapheme_clusters_colour_indep, final_expr_colour_indep.
  reflexivity.
Qed.

Theorem build_colour_strip : forall isd c db sc ws s1 s2, digit_ok isd ->
  build isd (with_colour c true) db sc ws = Some s1 ->
  build isd (with_colour c false) db sc ws = Some s2 ->
  strip_sgr isd s1 = s2.
Proof.
  intros isd c db sc ws s1 s2 Hd H1 H2. rewrite build_with_colour in H1, H2.
  destruct (Pipeline.final_expr c (grapheme_clusters c db (normalise c db ws)) sc) as [e|] eqn:E;
    [|discriminate].
  injection H1 as <-. injection H2 as <-.
  apply strip_regexp_str_wf; [exact Hd|].
  exact (final_expr_cc_sorted _ _ _ _ E).
Qed.

(* the plain run exists (build is total), and it is the stripped highlighted output *)
Theorem build_colour_strip_ex : forall isd c db sc ws s1, digit_ok isd ->
  build isd (with_colour c true) db sc ws = Some s1 ->
  exists s2, build isd (with_colour c false) db sc ws = Some s2 /\ strip_sgr isd s1 = s2.
Proof.
  intros isd c db sc ws s1 Hd H1.
  destruct (build_total isd (with_colour c false) db sc ws) as [s2 H2].
  exists s2. split; [exact H2|]. exact (build_colour_strip isd c db sc ws s1 s2 Hd H1 H2).
Qed.

(* both runs exist *)
Theorem build_colour_strip_total : forall isd c db sc ws, digit_ok isd ->
  exists s1 s2, build isd (with_colour c true) db sc ws = Some s1
             /\ build isd (with_colour c false) db sc ws = Some s2
             /\ strip_sgr isd s1 = s2.
Proof.
  intros isd c db sc ws Hd.
  destruct (build_total isd (with_colour c true) db sc ws) as [s1 H1].
  destruct (build_colour_strip_ex isd c db sc ws s1 Hd H1) as (s2 & H2 & E).
  exists s1, s2. auto.
Qed.

(* stated for two arbitrary configurations that differ only in the colour flag *)
Definition same_but_colour (c1 c2 : cfg) : Prop :=
  with_colour c1 false = with_colour c2 false.

Lemma with_colour_self : forall c, with_colour c (f_colour c) = c.
Proof. intros []. reflexivity. Qed.

Theorem build_colour_strip_cfg : forall isd c1 c2 db sc ws s1 s2, digit_ok isd ->
  same_but_colour c1 c2 -> f_colour c1 = true -> f_colour c2 = false ->
  build isd c1 db sc ws = Some s1 ->
  build isd c2 db sc ws = Some s2 ->
  strip_sgr isd s1 = s2.
Proof.
  intros isd c1 c2 db sc ws s1 s2 Hd HS F1 F2 H1 H2.
  assert (E1 : c1 = with_colour c2 true).
  { destruct c1, c2. unfold same_but_colour, with_colour in *. cbn in *. subst.
    injection HS. intros. subst. reflexivity. }
  assert (E2 : c2 = with_colour c2 false).
  { destruct c2. unfold with_colour. cbn in *. subst. reflexivity. }
  rewrite E1 in H1. rewrite E2 in H2.
  exact (build_colour_strip isd c2 db sc ws s1 s2 Hd H1 H2).
Qed.

Check final_expr_colour_indep.
Check grapheme_clusters_colour_indep.
Check normalise_colour_indep.
Check build_colour_strip.
Check build_colour_strip_ex.
Check build_colour_strip_total.
Check build_colour_strip_cfg.
Print Assumptions final_expr_colour_indep.
Print Assumptions grapheme_clusters_colour_indep.
Print Assumptions build_colour_strip.
Print Assumptions build_colour_strip_ex.
Print Assumptions build_colour_strip_total.
Print Assumptions build_colour_strip_cfg.
