(* The trie construction (Dfa.v: step_insert / insert_path / insert_cluster / trie_of):
   totality, well-formedness, acyclicity, language soundness (even with widening) and
   language exactness when the widening branch is never taken (no_merge). *)
From Grex Require Import Base.Str Model.Config Model.Cluster Model.Dfa Model.Expr Proofs.Lang.

(* ---------- string equality tests ---------- *)
Lemma str_eqb_eq : forall a b, str_eqb a b = true -> a = b.
Proof.
  induction a as [|x a IH]; destruct b as [|y b]; simpl; intros H; try discriminate; auto.
  apply andb_true_iff in H. destruct H as [H1 H2]. apply N.eqb_eq in H1. f_equal; auto.
Qed.

Lemma strs_eqb_eq : forall a b, strs_eqb a b = true -> a = b.
Proof.
  unfold strs_eqb.
  induction a as [|x a IH]; destruct b as [|y b]; simpl; intros H; try discriminate; auto.
  apply andb_true_iff in H. destruct H as [H1 H2]. f_equal; auto using str_eqb_eq.
Qed.

Lemma wf_g_proj : forall g,
  wf_g g <-> (g_chars g <> [] /\ Forall (fun s => s <> []) (g_chars g)
              /\ (1 <= g_min g)%N /\ (g_min g <= g_max g)%N).
Proof. destruct g; simpl; tauto. Qed.

(* ---------- petgraph views ---------- *)
Lemma find_edge_some : forall es a b e,
  find_edge es a b = Some e -> In e es /\ e_src e = a /\ e_dst e = b.
Proof.
  unfold find_edge, out_edges. intros es a b e H.
  apply find_some in H. destruct H as [H1 H2].
  apply filter_In in H1. destruct H1 as [H1 H3]. apply in_rev in H1.
  apply Nat.eqb_eq in H2. apply Nat.eqb_eq in H3. auto.
Qed.

Lemma find_edge_some3 : forall es a b s m g,
  find_edge es a b = Some (s, m, g) -> In (a, b, g) es /\ s = a /\ m = b.
Proof.
  intros es a b s m g H. apply find_edge_some in H.
  destruct H as (H1 & H2 & H3). unfold e_src, e_dst in *. simpl in *. subst. auto.
Qed.

Lemma find_edge_neighbor : forall es a b,
  In b (neighbors es a) -> exists e, find_edge es a b = Some e.
Proof.
  unfold neighbors. intros es a b H. apply in_map_iff in H. destruct H as (e & He & Hin).
  unfold find_edge. destruct (find (fun e0 : edge => Nat.eqb (e_dst e0) b) (out_edges es a)) eqn:F.
  - eauto.
  - exfalso. eapply find_none in F; [|exact Hin]. simpl in F. rewrite He in F.
    rewrite Nat.eqb_refl in F. discriminate.
Qed.

Lemma find_filter_fuse : forall (l : list edge) a b,
  find (fun e => Nat.eqb (e_dst e) b) (filter (fun e => Nat.eqb (e_src e) a) l)
  = find (fun e => Nat.eqb (e_src e) a && Nat.eqb (e_dst e) b) l.
Proof.
  induction l as [|x l IH]; intros a b; simpl; auto.
  destruct (Nat.eqb (e_src x) a) eqn:E; simpl.
  - destruct (Nat.eqb (e_dst x) b); auto.
  - auto.
Qed.

Lemma update_newest_spec : forall a b w l e,
  find (fun e => Nat.eqb (e_src e) a && Nat.eqb (e_dst e) b) l = Some e ->
  In (a, b, w) (update_newest a b w l)
  /\ (forall x, In x l -> x = e \/ In x (update_newest a b w l))
  /\ (forall x, In x (update_newest a b w l) -> x = (a, b, w) \/ In x l).
Proof.
  intros a b w. induction l as [|y l IH]; intros e H; simpl in H; try discriminate.
  simpl. destruct (Nat.eqb (e_src y) a && Nat.eqb (e_dst y) b) eqn:E.
  - inversion H; subst y. split; [left; reflexivity|]. split.
    + intros x [Hx|Hx]; [left; auto|right; right; auto].
    + intros x [Hx|Hx]; [left; auto|right; right; auto].
  - destruct (IH e H) as (I1 & I2 & I3). split; [right; exact I1|]. split.
    + intros x [Hx|Hx]; [right; left; auto|]. destruct (I2 x Hx); [left|right; right]; auto.
    + intros x [Hx|Hx]; [right; left; auto|]. destruct (I3 x Hx); [left|right; right]; auto.
Qed.

Lemma update_edge_spec : forall es a b w e,
  find_edge es a b = Some e ->
  In (a, b, w) (update_edge es a b w)
  /\ (forall x, In x es -> x = e \/ In x (update_edge es a b w))
  /\ (forall x, In x (update_edge es a b w) -> x = (a, b, w) \/ In x es).
Proof.
  intros es a b w e H. unfold find_edge, out_edges in H. rewrite find_filter_fuse in H.
  destruct (update_newest_spec a b w (rev es) e H) as (I1 & I2 & I3).
  unfold update_edge. split.
  - rewrite <- in_rev. exact I1.
  - split.
    + intros x Hx. apply in_rev in Hx. destruct (I2 x Hx) as [Hy|Hy]; [left; auto|].
      right. rewrite <- in_rev. exact Hy.
    + intros x Hx. rewrite <- in_rev in Hx. destruct (I3 x Hx) as [Hy|Hy]; [left; auto|].
      right. apply in_rev. exact Hy.
Qed.

(* ---------- find_next_scan ---------- *)
Lemma scan_total : forall es cur g ns,
  (forall nx, In nx ns -> exists e, find_edge es cur nx = Some e) ->
  exists r, find_next_scan es cur g ns = Some r.
Proof.
  intros es cur g. induction ns as [|a ns IH]; simpl; intros H; [eauto|].
  destruct (H a (or_introl eq_refl)) as [e He]. rewrite He.
  assert (IH' : exists r, find_next_scan es cur g ns = Some r)
    by (apply IH; intros nx Hnx; apply H; auto).
  destruct (negb (strs_eqb (g_chars (e_lbl e)) (g_chars g))); [exact IH'|].
  destruct (N.eqb (g_max (e_lbl e)) (g_max g - 1)); [eauto|].
  destruct (N.eqb (g_max (e_lbl e)) (g_max g)); [eauto|exact IH'].
Qed.

Definition widened (cg g : grapheme) : grapheme :=
  g_new (g_chars g) (N.min (g_min cg) (g_min g)) (N.max (g_max cg) (g_max g)).

Lemma scan_spec : forall es cur g ns r,
  find_next_scan es cur g ns = Some r ->
  match r with
  | NFound s => exists cg, find_edge es cur s = Some (cur, s, cg)
                           /\ g_chars cg = g_chars g /\ g_max cg = g_max g
  | NWiden s w => exists cg, find_edge es cur s = Some (cur, s, cg)
                             /\ g_chars cg = g_chars g /\ g_max cg = (g_max g - 1)%N
                             /\ w = widened cg g
  | NNone => True
  end.
Proof.
  intros es cur g. induction ns as [|a ns IH]; simpl; intros r H.
  - inversion H; subst r. exact I.
  - destruct (find_edge es cur a) as [e|] eqn:F; [|discriminate].
    destruct e as [[s m] cg].
    destruct (find_edge_some3 _ _ _ _ _ _ F) as (_ & -> & ->).
    unfold e_lbl in H; simpl in H.
    destruct (strs_eqb (g_chars cg) (g_chars g)) eqn:Ec; simpl in H; [|apply IH; exact H].
    apply strs_eqb_eq in Ec.
    destruct (N.eqb (g_max cg) (g_max g - 1)) eqn:E1.
    + apply N.eqb_eq in E1. inversion H; subst r. exists cg. auto.
    + destruct (N.eqb (g_max cg) (g_max g)) eqn:E2; [|apply IH; exact H].
      apply N.eqb_eq in E2. inversion H; subst r. exists cg. auto.
Qed.

(* ---------- step_insert: the three outcomes ---------- *)
Lemma step_total : forall st cur g, exists r, step_insert st cur g = Some r.
Proof.
  intros st cur g. unfold step_insert.
  destruct (scan_total (t_edges st) cur g (neighbors (t_edges st) cur)) as [r Hr].
  - intros nx Hnx. apply find_edge_neighbor. exact Hnx.
  - rewrite Hr. destruct r; eauto.
Qed.

Lemma step_cases : forall st cur g st' nx,
  step_insert st cur g = Some (st', nx) ->
  (st' = st /\ exists cg, In (cur, nx, cg) (t_edges st)
                          /\ g_chars cg = g_chars g /\ g_max cg = g_max g)
  \/ (exists cg, find_edge (t_edges st) cur nx = Some (cur, nx, cg)
                 /\ g_chars cg = g_chars g /\ g_max cg = (g_max g - 1)%N
                 /\ st' = mkT (t_n st) (update_edge (t_edges st) cur nx (widened cg g)) true)
  \/ (nx = t_n st /\ st' = mkT (S (t_n st)) (t_edges st ++ [(cur, t_n st, g)]) (t_merged st)).
Proof.
  intros st cur g st' nx H. unfold step_insert in H.
  destruct (find_next_scan (t_edges st) cur g (neighbors (t_edges st) cur)) as [r|] eqn:S;
    [|discriminate].
  apply scan_spec in S. destruct r as [s|s w|].
  - inversion H; subst. left. split; [reflexivity|].
    destruct S as (cg & F & Hc & Hm). exists cg.
    apply find_edge_some3 in F. destruct F as (F & _ & _). auto.
  - inversion H; subst. right; left.
    destruct S as (cg & F & Hc & Hm & Hw). exists cg. subst w. auto.
  - inversion H; subst. right; right. auto.
Qed.

Lemma insert_path_total : forall gs st cur, exists r, insert_path st cur gs = Some r.
Proof.
  induction gs as [|g gs IH]; intros st cur; simpl; [eauto|].
  destruct (step_total st cur g) as [[st' nx] Hs]. rewrite Hs. apply IH.
Qed.

Lemma trie_acc_snoc : forall cls cl,
  trie_acc_of (cls ++ [cl]) = insert_cluster (trie_acc_of cls) cl.
Proof. intros cls cl. unfold trie_acc_of. rewrite fold_left_app. reflexivity. Qed.

Lemma trie_acc_total : forall cls, exists a, trie_acc_of cls = Some a.
Proof.
  induction cls as [|cl cls IH] using rev_ind.
  - unfold trie_acc_of; simpl; eauto.
  - rewrite trie_acc_snoc. destruct IH as [a Ha]. rewrite Ha. simpl.
    destruct (insert_path_total cl (ta_st a) 0) as [[st' last] Hp]. rewrite Hp. eauto.
Qed.

Lemma trie_acc_snoc_inv : forall cls cl a',
  trie_acc_of (cls ++ [cl]) = Some a' ->
  exists a st' last,
    trie_acc_of cls = Some a /\ insert_path (ta_st a) 0 cl = Some (st', last)
    /\ a' = mkTA st' (set_add last (ta_finals a))
                 (fold_left (fun al g => alpha_add g al) cl (ta_alpha a)).
Proof.
  intros cls cl a' H. rewrite trie_acc_snoc in H.
  destruct (trie_acc_of cls) as [a|]; simpl in H; [|discriminate].
  destruct (insert_path (ta_st a) 0 cl) as [[st' last]|] eqn:P; [|discriminate].
  inversion H; subst. exists a, st', last. auto.
Qed.

Lemma set_add_in : forall x y l, In x (set_add y l) <-> x = y \/ In x l.
Proof.
  intros x y. induction l as [|z l IH]; simpl.
  - intuition.
  - destruct (Nat.ltb y z) eqn:E1; simpl; [intuition|].
    destruct (Nat.eqb y z) eqn:E2; simpl.
    + apply Nat.eqb_eq in E2. subst. intuition.
    + rewrite IH. intuition.
Qed.

(* ---------- structural invariant ---------- *)
Definition st_ok (st : tstate) : Prop :=
  1 <= t_n st /\ forall s m g, In (s, m, g) (t_edges st) -> s < m /\ m < t_n st.
Definition st_wf (st : tstate) : Prop :=
  forall s m g, In (s, m, g) (t_edges st) -> wf_g g.

Lemma widened_wf : forall cg g, wf_g cg -> wf_g g -> wf_g (widened cg g).
Proof.
  intros cg g H1 H2. apply wf_g_proj in H1. apply wf_g_proj in H2.
  unfold widened, g_new. simpl. intuition; lia.
Qed.

Lemma step_ok : forall st cur g st' nx,
  st_ok st -> cur < t_n st -> step_insert st cur g = Some (st', nx) ->
  st_ok st' /\ nx < t_n st' /\ t_n st <= t_n st'.
Proof.
  intros st cur g st' nx [Hn He] Hc H.
  destruct (step_cases _ _ _ _ _ H) as [(-> & cg & Hin & _)|[(cg & F & _ & _ & ->)|(-> & ->)]].
  - split; [split; auto|]. split; [|lia]. apply He in Hin. lia.
  - apply find_edge_some3 in F as F'. destruct F' as (Hin & _ & _).
    destruct (update_edge_spec _ _ _ (widened cg g) _ F) as (_ & _ & I3).
    simpl. split; [split; simpl; auto|].
    + intros s m g0 Hx. apply I3 in Hx. destruct Hx as [Hx|Hx].
      * inversion Hx; subst. eapply He; eauto.
      * eapply He; eauto.
    + split; [|lia]. apply He in Hin. lia.
  - simpl. split; [split; simpl; [lia|]|lia].
    intros s m g0 Hx. apply in_app_or in Hx. destruct Hx as [Hx|[Hx|[]]].
    + apply He in Hx. lia.
    + inversion Hx; subst. lia.
Qed.

Lemma step_wf : forall st cur g st' nx,
  st_wf st -> wf_g g -> step_insert st cur g = Some (st', nx) -> st_wf st'.
Proof.
  intros st cur g st' nx Hw Hg H.
  destruct (step_cases _ _ _ _ _ H) as [(-> & _)|[(cg & F & _ & _ & ->)|(-> & ->)]].
  - exact Hw.
  - apply find_edge_some3 in F as F'. destruct F' as (Hin & _ & _).
    destruct (update_edge_spec _ _ _ (widened cg g) _ F) as (_ & _ & I3).
    intros s m g0 Hx. simpl in Hx. apply I3 in Hx. destruct Hx as [Hx|Hx].
    + inversion Hx; subst. apply widened_wf; auto. eapply Hw; eauto.
    + eapply Hw; eauto.
  - intros s m g0 Hx. simpl in Hx. apply in_app_or in Hx. destruct Hx as [Hx|[Hx|[]]].
    + eapply Hw; eauto.
    + inversion Hx; subst. exact Hg.
Qed.

Lemma path_ok : forall gs st cur st' last,
  st_ok st -> cur < t_n st -> insert_path st cur gs = Some (st', last) ->
  st_ok st' /\ last < t_n st' /\ t_n st <= t_n st'.
Proof.
  induction gs as [|g gs IH]; intros st cur st' last Hok Hc H; simpl in H.
  - inversion H; subst. auto.
  - destruct (step_insert st cur g) as [[st1 nx]|] eqn:S; [|discriminate].
    destruct (step_ok _ _ _ _ _ Hok Hc S) as (Hok1 & Hnx & Hle).
    destruct (IH _ _ _ _ Hok1 Hnx H) as (Hok' & Hl & Hle'). split; auto. split; auto. lia.
Qed.

Lemma path_wf : forall gs st cur st' last,
  st_wf st -> Forall wf_g gs -> insert_path st cur gs = Some (st', last) -> st_wf st'.
Proof.
  induction gs as [|g gs IH]; intros st cur st' last Hw Hg H; simpl in H.
  - inversion H; subst. auto.
  - destruct (step_insert st cur g) as [[st1 nx]|] eqn:S; [|discriminate].
    inversion Hg; subst. eapply IH; [|eassumption|exact H]. eapply step_wf; eauto.
Qed.

Definition acc_ok (a : trie_acc) : Prop :=
  st_ok (ta_st a) /\ forall t, In t (ta_finals a) -> t < t_n (ta_st a).

Lemma acc_ok_inv : forall cls a, trie_acc_of cls = Some a -> acc_ok a.
Proof.
  induction cls as [|cl cls IH] using rev_ind; intros a H.
  - unfold trie_acc_of in H; simpl in H. inversion H; subst. split; simpl.
    + split; simpl; [lia|]. intros s m g [].
    + intros t [].
  - apply trie_acc_snoc_inv in H. destruct H as (a0 & st' & last & H0 & P & ->).
    destruct (IH _ H0) as [Hok Hf].
    assert (H0n : 0 < t_n (ta_st a0)) by (destruct Hok; lia).
    destruct (path_ok _ _ _ _ _ Hok H0n P) as (Hok' & Hl & Hle).
    split; simpl; auto. intros t Ht. apply set_add_in in Ht. destruct Ht as [->|Ht]; auto.
    apply Hf in Ht. lia.
Qed.

Lemma acc_wf_inv : forall cls a,
  Forall wf_cluster cls -> trie_acc_of cls = Some a -> st_wf (ta_st a).
Proof.
  induction cls as [|cl cls IH] using rev_ind; intros a Hw H.
  - unfold trie_acc_of in H; simpl in H. inversion H; subst. intros s m g [].
  - apply trie_acc_snoc_inv in H. destruct H as (a0 & st' & last & H0 & P & ->).
    apply Forall_app in Hw. destruct Hw as [Hw1 Hw2]. inversion Hw2; subst.
    simpl. eapply path_wf; [eapply IH; eauto| |exact P]. assumption.
Qed.

Section T.
  Variable lit_den cls_den : cp -> cp -> Prop.
  Definition uniform_g (g : grapheme) : Prop := g_min g = g_max g.

  Local Notation deng := (den_g lit_den cls_den).
  Local Notation Lcl := (L_cluster lit_den cls_den).
  Local Notation pth := (path lit_den cls_den).

  Theorem trie_total : forall cls, exists d, trie_of cls = Some d.
  Proof.
    intros cls. unfold trie_of. destruct (trie_acc_total cls) as [a Ha]. rewrite Ha. eauto.
  Qed.

  Lemma trie_of_inv : forall cls d, trie_of cls = Some d ->
    exists a, trie_acc_of cls = Some a
      /\ d = mkDfa (t_n (ta_st a)) (t_edges (ta_st a)) 0 (ta_finals a) (ta_alpha a).
  Proof.
    intros cls d H. unfold trie_of in H. destruct (trie_acc_of cls) as [a|]; [|discriminate].
    inversion H; subst. eauto.
  Qed.

  Theorem trie_wf : forall cls d,
    Forall wf_cluster cls -> trie_of cls = Some d -> wf_dfa d.
  Proof.
    intros cls d Hw H. apply trie_of_inv in H. destruct H as (a & Ha & ->).
    destruct (acc_ok_inv _ _ Ha) as [[Hn He] Hf]. pose proof (acc_wf_inv _ _ Hw Ha) as Hwf.
    unfold wf_dfa; simpl. split; [|split].
    - apply Forall_forall. intros [[s m] g] Hin. unfold e_src, e_dst, e_lbl; simpl.
      pose proof (He _ _ _ Hin). split; [lia|]. split; [lia|]. eapply Hwf; eauto.
    - lia.
    - apply Forall_forall. exact Hf.
  Qed.

  Theorem trie_acyclic : forall cls d, trie_of cls = Some d ->
    exists rank : nat -> nat, forall e, In e (d_edges d) -> rank (e_dst e) < rank (e_src e).
  Proof.
    intros cls d H. apply trie_of_inv in H. destruct H as (a & Ha & ->).
    destruct (acc_ok_inv _ _ Ha) as [[Hn He] Hf].
    exists (fun s => t_n (ta_st a) - s). simpl. intros [[s m] g] Hin.
    unfold e_src, e_dst; simpl. pose proof (He _ _ _ Hin). lia.
  Qed.

  (* ---------- soundness: every inserted cluster is accepted (even with widening) ---------- *)
  Lemma den_g_sub : forall g g',
    g_chars g = g_chars g' -> (g_min g' <= g_min g)%N -> (g_max g <= g_max g')%N ->
    lsub (deng g) (deng g').
  Proof.
    intros g g' Hc H1 H2 u (k & K1 & K2 & K3). exists k. rewrite <- Hc.
    split; [lia|]. split; [lia|exact K3].
  Qed.

  Definition edges_le (es es' : list edge) : Prop :=
    forall s m g, In (s, m, g) es -> exists g', In (s, m, g') es' /\ lsub (deng g) (deng g').

  Lemma edges_le_refl : forall es, edges_le es es.
  Proof. intros es s m g H. exists g. split; auto. intros u Hu; exact Hu. Qed.

  Lemma edges_le_trans : forall a b c, edges_le a b -> edges_le b c -> edges_le a c.
  Proof.
    intros a b c H1 H2 s m g H. destruct (H1 _ _ _ H) as (g1 & I1 & S1).
    destruct (H2 _ _ _ I1) as (g2 & I2 & S2). exists g2. split; auto.
    intros u Hu. apply S2, S1, Hu.
  Qed.

  Lemma path_mono : forall es es' s u t, edges_le es es' -> pth es s u t -> pth es' s u t.
  Proof.
    intros es es' s u t Hle H. induction H as [s|s m t g v w Hin Hd Hp IH].
    - constructor.
    - destruct (Hle _ _ _ Hin) as (g' & Hin' & Hs).
      eapply path_step; [exact Hin'|apply Hs; exact Hd|exact IH].
  Qed.

  Lemma step_sup : forall st cur g st' nx,
    st_wf st -> wf_g g -> uniform_g g -> step_insert st cur g = Some (st', nx) ->
    edges_le (t_edges st) (t_edges st')
    /\ exists g1, In (cur, nx, g1) (t_edges st') /\ lsub (deng g) (deng g1).
  Proof.
    intros st cur g st' nx Hw Hg Hu H. unfold uniform_g in Hu.
    apply wf_g_proj in Hg as Hg'. destruct Hg' as (_ & _ & Hg1 & Hg2).
    destruct (step_cases _ _ _ _ _ H) as
      [(-> & cg & Hin & Hc & Hm)|[(cg & F & Hc & Hm & ->)|(-> & ->)]].
    - split; [apply edges_le_refl|]. exists cg. split; [exact Hin|].
      pose proof (Hw _ _ _ Hin) as Hcg. apply wf_g_proj in Hcg.
      apply den_g_sub; [auto|lia|lia].
    - apply find_edge_some3 in F as F'. destruct F' as (Hin & _ & _).
      destruct (update_edge_spec _ _ _ (widened cg g) _ F) as (I1 & I2 & _).
      simpl. split.
      + intros s m g0 Hx. destruct (I2 _ Hx) as [Hy|Hy].
        * inversion Hy; subst. exists (widened cg g). split; [exact I1|].
          apply den_g_sub; unfold widened, g_new; simpl; [auto|lia|lia].
        * exists g0. split; [exact Hy|]. intros u Hu0; exact Hu0.
      + exists (widened cg g). split; [exact I1|].
        apply den_g_sub; unfold widened, g_new; simpl; [auto|lia|lia].
    - simpl. split.
      + intros s m g0 Hx. exists g0. split; [apply in_or_app; left; exact Hx|].
        intros u Hu0; exact Hu0.
      + exists g. split; [apply in_or_app; right; left; reflexivity|]. intros u Hu0; exact Hu0.
  Qed.

  Lemma path_sup : forall gs st cur st' last,
    st_wf st -> Forall wf_g gs -> Forall uniform_g gs ->
    insert_path st cur gs = Some (st', last) ->
    edges_le (t_edges st) (t_edges st')
    /\ forall u, Lcl gs u -> pth (t_edges st') cur u last.
  Proof.
    induction gs as [|g gs IH]; intros st cur st' last Hw Hg Hu H; simpl in H.
    - inversion H; subst. split; [apply edges_le_refl|].
      intros u Hu0. simpl in Hu0. unfold leps in Hu0. subst u. constructor.
    - destruct (step_insert st cur g) as [[st1 nx]|] eqn:S; [|discriminate].
      inversion Hg as [|? ? Hg1 Hg2]; subst. inversion Hu as [|? ? Hu1 Hu2]; subst.
      destruct (step_sup _ _ _ _ _ Hw Hg1 Hu1 S) as (Hle1 & g1 & Hin1 & Hs1).
      pose proof (step_wf _ _ _ _ _ Hw Hg1 S) as Hw1.
      destruct (IH _ _ _ _ Hw1 Hg2 Hu2 H) as (Hle2 & Hp).
      split; [eapply edges_le_trans; eauto|].
      intros u Hu0. simpl in Hu0. destruct Hu0 as (v & w & -> & Hv & Hw0).
      destruct (Hle2 _ _ _ Hin1) as (g2 & Hin2 & Hs2).
      eapply path_step; [exact Hin2|apply Hs2, Hs1, Hv|apply Hp, Hw0].
  Qed.

  Lemma acc_sup_inv : forall cls a,
    Forall wf_cluster cls -> Forall (Forall uniform_g) cls -> trie_acc_of cls = Some a ->
    forall cl, In cl cls -> forall u, Lcl cl u ->
      exists t, In t (ta_finals a) /\ pth (t_edges (ta_st a)) 0 u t.
  Proof.
    induction cls as [|cl0 cls IH] using rev_ind; intros a Hw Hu H cl Hcl u HL.
    - destruct Hcl.
    - apply trie_acc_snoc_inv in H. destruct H as (a0 & st' & last & H0 & P & ->).
      apply Forall_app in Hw. destruct Hw as [Hw1 Hw2]. inversion Hw2 as [|? ? Hw3 _]; subst.
      apply Forall_app in Hu. destruct Hu as [Hu1 Hu2]. inversion Hu2 as [|? ? Hu3 _]; subst.
      pose proof (acc_wf_inv _ _ Hw1 H0) as Hwf.
      destruct (path_sup _ _ _ _ _ Hwf Hw3 Hu3 P) as (Hle & Hp).
      simpl. apply in_app_or in Hcl. destruct Hcl as [Hcl|[<-|[]]].
      + destruct (IH _ Hw1 Hu1 H0 _ Hcl _ HL) as (t & Ht & Hpt).
        exists t. split; [apply set_add_in; right; exact Ht|].
        eapply path_mono; eauto.
      + exists last. split; [apply set_add_in; left; reflexivity|]. apply Hp, HL.
  Qed.

  Theorem trie_lang_sup : forall cls d,
    Forall wf_cluster cls -> Forall (Forall uniform_g) cls -> trie_of cls = Some d ->
    lsub (L_clusters lit_den cls_den cls) (L_dfa lit_den cls_den d).
  Proof.
    intros cls d Hw Hu H. apply trie_of_inv in H. destruct H as (a & Ha & ->).
    intros u (cl & Hcl & HL). unfold L_dfa, L_from. simpl.
    eapply acc_sup_inv; eauto.
  Qed.

  (* ---------- exactness when the widening branch is never taken ---------- *)
  Definition geq (g g' : grapheme) : Prop :=
    g_chars g = g_chars g' /\ g_min g = g_min g' /\ g_max g = g_max g'.

  Lemma geqs_refl : forall l, Forall2 geq l l.
  Proof. induction l; constructor; auto. unfold geq; auto. Qed.

  Lemma geqs_trans : forall a b c, Forall2 geq a b -> Forall2 geq b c -> Forall2 geq a c.
  Proof.
    intros a b c H. revert c. induction H as [|x y a b Hxy Hab IH]; intros c Hc.
    - inversion Hc; subst. constructor.
    - inversion Hc as [|? z ? c' Hyz Hbc]; subst. constructor; [|apply IH; exact Hbc].
      unfold geq in *. intuition congruence.
  Qed.

  Lemma L_cluster_geq : forall gs cl, Forall2 geq gs cl -> forall u, Lcl gs u -> Lcl cl u.
  Proof.
    intros gs cl H. induction H as [|g g' gs cl Hg Hr IH]; intros u Hu0; [exact Hu0|].
    simpl in *. destruct Hu0 as (v & w & -> & Hv & Hw0). exists v, w. split; [reflexivity|].
    split; [|apply IH; exact Hw0]. destruct Hg as (Hc & H1 & H2).
    eapply den_g_sub; [exact Hc| | |exact Hv]; lia.
  Qed.

  Definition lab_ok (es : list edge) (lab : nat -> list grapheme) : Prop :=
    lab 0 = [] /\ forall s m g, In (s, m, g) es -> lab m = lab s ++ [g].
  Definition st_uni (st : tstate) : Prop :=
    forall s m g, In (s, m, g) (t_edges st) -> uniform_g g.

  Lemma path_labels : forall es lab s u t,
    lab_ok es lab -> pth es s u t -> exists gs, lab t = lab s ++ gs /\ Lcl gs u.
  Proof.
    intros es lab s u t [L0 L1] H. induction H as [s|s m t g v w Hin Hd Hp IH].
    - exists []. split; [rewrite app_nil_r; reflexivity|]. simpl. reflexivity.
    - destruct IH as (gs & E & HL). exists (g :: gs). split.
      + rewrite E. rewrite (L1 _ _ _ Hin). rewrite <- app_assoc. reflexivity.
      + simpl. exists v, w. auto.
  Qed.

  Lemma step_merged_mono : forall st cur g st' nx,
    step_insert st cur g = Some (st', nx) -> t_merged st' = false -> t_merged st = false.
  Proof.
    intros st cur g st' nx H Hm.
    destruct (step_cases _ _ _ _ _ H) as [(-> & _)|[(cg & _ & _ & _ & ->)|(-> & ->)]];
      simpl in Hm; auto; discriminate.
  Qed.

  Lemma path_merged_mono : forall gs st cur st' last,
    insert_path st cur gs = Some (st', last) -> t_merged st' = false -> t_merged st = false.
  Proof.
    induction gs as [|g gs IH]; intros st cur st' last H Hm; simpl in H.
    - inversion H; subst. exact Hm.
    - destruct (step_insert st cur g) as [[st1 nx]|] eqn:S; [|discriminate].
      eapply step_merged_mono; [exact S|]. eapply IH; eauto.
  Qed.

  Lemma step_exact : forall st cur g lab st' nx,
    st_ok st -> cur < t_n st -> lab_ok (t_edges st) lab -> st_uni st -> uniform_g g ->
    step_insert st cur g = Some (st', nx) -> t_merged st' = false ->
    st_uni st'
    /\ exists lab', lab_ok (t_edges st') lab'
                    /\ (forall x, x < t_n st -> lab' x = lab x)
                    /\ Forall2 geq (lab' nx) (lab cur ++ [g]).
  Proof.
    intros st cur g lab st' nx [Hn He] Hc [L0 L1] Hun Hu H Hm.
    destruct (step_cases _ _ _ _ _ H) as
      [(-> & cg & Hin & Hcc & Hmx)|[(cg & _ & _ & _ & ->)|(-> & ->)]].
    - split; [exact Hun|]. exists lab. split; [split; auto|]. split; [auto|].
      rewrite (L1 _ _ _ Hin). apply Forall2_app; [apply geqs_refl|].
      constructor; [|constructor]. pose proof (Hun _ _ _ Hin) as Hucg.
      unfold uniform_g in *. unfold geq. split; [auto|]. split; congruence.
    - simpl in Hm. discriminate.
    - simpl. split.
      + intros s m g0 Hx. simpl in Hx. apply in_app_or in Hx. destruct Hx as [Hx|[Hx|[]]].
        * eapply Hun; eauto.
        * inversion Hx; subst. exact Hu.
      + exists (fun x => if Nat.eqb x (t_n st) then lab cur ++ [g] else lab x).
        split; [split|split].
        * destruct (Nat.eqb 0 (t_n st)) eqn:E; [apply Nat.eqb_eq in E; lia|exact L0].
        * intros s m g0 Hx. apply in_app_or in Hx. destruct Hx as [Hx|[Hx|[]]].
          -- pose proof (He _ _ _ Hx) as Hlt.
             destruct (Nat.eqb m (t_n st)) eqn:E1; [apply Nat.eqb_eq in E1; lia|].
             destruct (Nat.eqb s (t_n st)) eqn:E2; [apply Nat.eqb_eq in E2; lia|].
             apply L1; exact Hx.
          -- inversion Hx; subst. rewrite Nat.eqb_refl.
             destruct (Nat.eqb s (t_n st)) eqn:E2; [apply Nat.eqb_eq in E2; lia|]. reflexivity.
        * intros x Hx. destruct (Nat.eqb x (t_n st)) eqn:E; [apply Nat.eqb_eq in E; lia|].
          reflexivity.
        * rewrite Nat.eqb_refl. apply geqs_refl.
  Qed.

  Lemma path_exact : forall gs st cur lab st' last,
    st_ok st -> cur < t_n st -> lab_ok (t_edges st) lab -> st_uni st -> Forall uniform_g gs ->
    insert_path st cur gs = Some (st', last) -> t_merged st' = false ->
    st_uni st'
    /\ exists lab', lab_ok (t_edges st') lab'
                    /\ (forall x, x < t_n st -> lab' x = lab x)
                    /\ Forall2 geq (lab' last) (lab cur ++ gs).
  Proof.
    induction gs as [|g gs IH]; intros st cur lab st' last Hok Hc HL Hun Hu H Hm; simpl in H.
    - inversion H; subst. split; [exact Hun|]. exists lab. split; [exact HL|].
      split; [auto|]. rewrite app_nil_r. apply geqs_refl.
    - destruct (step_insert st cur g) as [[st1 nx]|] eqn:S; [|discriminate].
      inversion Hu as [|? ? Hu1 Hu2]; subst.
      pose proof (path_merged_mono _ _ _ _ _ H Hm) as Hm1.
      destruct (step_ok _ _ _ _ _ Hok Hc S) as (Hok1 & Hnx & Hle).
      destruct (step_exact _ _ _ _ _ _ Hok Hc HL Hun Hu1 S Hm1) as (Hun1 & lab1 & HL1 & A1 & G1).
      destruct (IH _ _ _ _ _ Hok1 Hnx HL1 Hun1 Hu2 H Hm) as (Hun' & lab2 & HL2 & A2 & G2).
      split; [exact Hun'|]. exists lab2. split; [exact HL2|]. split.
      + intros x Hx. rewrite A2 by lia. apply A1; exact Hx.
      + eapply geqs_trans; [exact G2|].
        replace (lab cur ++ g :: gs) with ((lab cur ++ [g]) ++ gs)
          by (rewrite <- app_assoc; reflexivity).
        apply Forall2_app; [exact G1|apply geqs_refl].
  Qed.

  Lemma acc_exact_inv : forall cls a,
    Forall (Forall uniform_g) cls -> trie_acc_of cls = Some a ->
    t_merged (ta_st a) = false ->
    st_uni (ta_st a)
    /\ exists lab, lab_ok (t_edges (ta_st a)) lab
                   /\ forall t, In t (ta_finals a) ->
                        exists cl, In cl cls /\ Forall2 geq (lab t) cl.
  Proof.
    induction cls as [|cl0 cls IH] using rev_ind; intros a Hu H Hm.
    - unfold trie_acc_of in H; simpl in H. inversion H; subst. simpl. split.
      + intros s m g [].
      + exists (fun _ => []). split; [split; [reflexivity|intros s m g []]|]. intros t [].
    - apply trie_acc_snoc_inv in H. destruct H as (a0 & st' & last & H0 & P & ->).
      apply Forall_app in Hu. destruct Hu as [Hu1 Hu2]. inversion Hu2 as [|? ? Hu3 _]; subst.
      simpl in Hm. pose proof (path_merged_mono _ _ _ _ _ P Hm) as Hm0.
      destruct (IH _ Hu1 H0 Hm0) as (Hun & lab & HL & HF).
      destruct (acc_ok_inv _ _ H0) as [Hok Hf].
      assert (H0n : 0 < t_n (ta_st a0)) by (destruct Hok; lia).
      destruct (path_exact _ _ _ _ _ _ Hok H0n HL Hun Hu3 P Hm) as (Hun' & lab' & HL' & A & G).
      simpl. split; [exact Hun'|]. exists lab'. split; [exact HL'|].
      intros t Ht. apply set_add_in in Ht. destruct Ht as [->|Ht].
      + exists cl0. split; [apply in_or_app; right; left; reflexivity|].
        destruct HL as [L0 _]. rewrite L0 in G. exact G.
      + destruct (HF _ Ht) as (cl & Hcl & Hg). exists cl.
        split; [apply in_or_app; left; exact Hcl|]. rewrite A by (apply Hf; exact Ht). exact Hg.
  Qed.

  Theorem trie_lang_sub : forall cls d,
    Forall (Forall uniform_g) cls -> trie_of cls = Some d -> no_merge cls = true ->
    lsub (L_dfa lit_den cls_den d) (L_clusters lit_den cls_den cls).
  Proof.
    intros cls d Hu H Hnm. apply trie_of_inv in H. destruct H as (a & Ha & ->).
    unfold no_merge in Hnm. rewrite Ha in Hnm. apply negb_true_iff in Hnm.
    destruct (acc_exact_inv _ _ Hu Ha Hnm) as (_ & lab & HL & HF).
    intros u (t & Ht & Hp). simpl in Ht, Hp.
    destruct (path_labels _ _ _ _ _ HL Hp) as (gs & E & HLg).
    destruct HL as [L0 _]. rewrite L0 in E. simpl in E.
    destruct (HF _ Ht) as (cl & Hcl & Hg). exists cl. split; [exact Hcl|].
    eapply L_cluster_geq; [|exact HLg]. rewrite <- E. exact Hg.
  Qed.

  Theorem trie_lang : forall cls d,
    Forall wf_cluster cls -> Forall (Forall uniform_g) cls -> trie_of cls = Some d ->
    no_merge cls = true ->
    leq (L_dfa lit_den cls_den d) (L_clusters lit_den cls_den cls).
  Proof.
    intros cls d Hw Hu H Hnm u. split.
    - apply (trie_lang_sub _ _ Hu H Hnm).
    - apply (trie_lang_sup _ _ Hw Hu H).
  Qed.

  (* ---------- unit counts never widen ---------- *)
  Definition st_unit (st : tstate) : Prop :=
    t_merged st = false /\ forall s m g, In (s, m, g) (t_edges st) -> g_max g = 1%N.

  Lemma step_unit : forall st cur g st' nx,
    st_unit st -> g_max g = 1%N -> step_insert st cur g = Some (st', nx) -> st_unit st'.
  Proof.
    intros st cur g st' nx [Hm Hl] Hg H.
    destruct (step_cases _ _ _ _ _ H) as [(-> & _)|[(cg & F & _ & Hmx & _)|(-> & ->)]].
    - split; auto.
    - exfalso. apply find_edge_some3 in F. destruct F as (Hin & _ & _).
      apply Hl in Hin. rewrite Hg in Hmx. rewrite Hin in Hmx. discriminate.
    - split; simpl; [exact Hm|]. intros s m g0 Hx. apply in_app_or in Hx.
      destruct Hx as [Hx|[Hx|[]]]; [eapply Hl; eauto|]. inversion Hx; subst. exact Hg.
  Qed.

  Lemma path_unit : forall gs st cur st' last,
    st_unit st -> Forall (fun g => g_min g = 1%N /\ g_max g = 1%N) gs ->
    insert_path st cur gs = Some (st', last) -> st_unit st'.
  Proof.
    induction gs as [|g gs IH]; intros st cur st' last Hs Hg H; simpl in H.
    - inversion H; subst. exact Hs.
    - destruct (step_insert st cur g) as [[st1 nx]|] eqn:S; [|discriminate].
      inversion Hg as [|? ? [_ Hg1] Hg2]; subst.
      eapply IH; [|exact Hg2|exact H]. eapply step_unit; eauto.
  Qed.

  Lemma acc_unit : forall cls a,
    Forall (Forall (fun g => g_min g = 1%N /\ g_max g = 1%N)) cls ->
    trie_acc_of cls = Some a -> st_unit (ta_st a).
  Proof.
    induction cls as [|cl0 cls IH] using rev_ind; intros a Hu H.
    - unfold trie_acc_of in H; simpl in H. inversion H; subst. split; simpl; auto.
      intros s m g [].
    - apply trie_acc_snoc_inv in H. destruct H as (a0 & st' & last & H0 & P & ->).
      apply Forall_app in Hu. destruct Hu as [Hu1 Hu2]. inversion Hu2 as [|? ? Hu3 _]; subst.
      simpl. eapply path_unit; [eapply IH; eauto|exact Hu3|exact P].
  Qed.

  Lemma no_merge_unit : forall cls,
    Forall (Forall (fun g => g_min g = 1%N /\ g_max g = 1%N)) cls -> no_merge cls = true.
  Proof.
    intros cls Hu. unfold no_merge. destruct (trie_acc_of cls) as [a|] eqn:Ha; [|reflexivity].
    destruct (acc_unit _ _ Hu Ha) as [Hm _]. rewrite Hm. reflexivity.
  Qed.

End T.

Check trie_total.
Check trie_wf.
Check trie_acyclic.
Check trie_lang_sup.
Check trie_lang_sub.
Check trie_lang.
Check no_merge_unit.
Print Assumptions trie_total.
Print Assumptions trie_wf.
Print Assumptions trie_acyclic.
Print Assumptions trie_lang_sup.
Print Assumptions trie_lang.
Print Assumptions no_merge_unit.
