(* Case folding tables: the regex crate's simple case folding classes (fold_classes) against
   std's char::to_lowercase (lower_single).  Property served: "case-insensitive matching accepts
   every original test case" — grex lower-cases the test cases and prints (?i); the engine then
   accepts, for a literal a, every member of fold_class a.  So the original code point c is
   accepted by the printed literal lower1 c exactly when c is in fold_class (lower1 c).

   All statements are for ALL c : N.  The find-based definitions make a code point that is not
   in a table behave trivially, and every table obligation is a closed boolean computation
   (`forallb ... = true` by vm_compute), so the file survives regeneration of the tables with
   different content and FAILS to compile if a property stops holding (e.g. skew_set missing a
   code point, or listing one that is not a violation). *)
From Grex Require Import Base.Str Base.Ranges.
From GrexGen Require Import OracleTables.
Local Open Scope N_scope.

(* ------------------------------------------------------------------ *)
(** * Definitions *)

Definition fold_class (c : N) : list N :=
  match find (fun e => N.eqb (fst e) c) fold_classes with
  | Some (_, ms) => ms
  | None => [c]
  end.

(* single-code-point lower-casing; identity elsewhere *)
Definition lower1 (c : N) : N :=
  match find (fun e => N.eqb (fst e) c) lower_single with
  | Some (_, l) => l
  | None => c
  end.

(* what the (?i) literal a accepts *)
Definition fold_eq (a b : N) : Prop := In b (fold_class a).

(* ------------------------------------------------------------------ *)
(** * Generic helpers *)

Lemma mem_cp_In c l : mem_cp c l = true <-> In c l.
Proof.
  induction l as [|x l IH]; cbn [mem_cp In].
  - split; [discriminate|intros []].
  - rewrite orb_true_iff, IH. split; intros [H|H]; auto.
    + left. apply N.eqb_eq in H. symmetry; exact H.
    + left. apply N.eqb_eq. symmetry; exact H.
Qed.

Lemma mem_cp_false c l : mem_cp c l = false <-> ~ In c l.
Proof.
  rewrite <- mem_cp_In. destruct (mem_cp c l); split; intros H; try reflexivity; try discriminate.
  exfalso. apply H. reflexivity.
Qed.

(* association-list lookup: the two possible outcomes *)
Lemma find_key_some {B} (tbl : list (N * B)) c k v :
  find (fun e => N.eqb (fst e) c) tbl = Some (k, v) -> k = c /\ In (c, v) tbl.
Proof.
  intros H. apply find_some in H. destruct H as [Hin Hk]. cbn [fst] in Hk.
  apply N.eqb_eq in Hk. subst k. split; [reflexivity|exact Hin].
Qed.

Lemma find_key_none {B} (tbl : list (N * B)) c :
  find (fun e => N.eqb (fst e) c) tbl = None -> forall v, ~ In (c, v) tbl.
Proof.
  intros H v Hin. pose proof (find_none _ _ H _ Hin) as X. cbn [fst] in X.
  rewrite N.eqb_refl in X. discriminate.
Qed.

(* a property of (c, value looked up at c) holds for every c as soon as it holds for the
   default and (decidably) for every table entry *)
Lemma fold_class_cases c :
  (fold_class c = [c] /\ forall ms, ~ In (c, ms) fold_classes) \/
  (exists ms, fold_class c = ms /\ In (c, ms) fold_classes).
Proof.
  unfold fold_class.
  destruct (find (fun e => N.eqb (fst e) c) fold_classes) as [[k ms]|] eqn:E.
  - right. exists ms. apply find_key_some in E. destruct E as [_ Hin]. split; [reflexivity|exact Hin].
  - left. split; [reflexivity|]. apply find_key_none. exact E.
Qed.

Lemma lower1_cases c :
  (lower1 c = c /\ forall l, ~ In (c, l) lower_single) \/
  (exists l, lower1 c = l /\ In (c, l) lower_single).
Proof.
  unfold lower1.
  destruct (find (fun e => N.eqb (fst e) c) lower_single) as [[k l]|] eqn:E.
  - right. exists l. apply find_key_some in E. destruct E as [_ Hin]. split; [reflexivity|exact Hin].
  - left. split; [reflexivity|]. apply find_key_none. exact E.
Qed.

(* ------------------------------------------------------------------ *)
(** * a/b. the classes are consistent: fold_eq is an equivalence relation *)

Definition incl_b (a b : list N) : bool := forallb (fun x => mem_cp x b) a.

Lemma incl_b_incl a b : incl_b a b = true -> incl a b.
Proof.
  unfold incl_b. rewrite forallb_forall. intros H x Hx. apply mem_cp_In. apply H. exact Hx.
Qed.

(* for (c, ms) in the table: c is in ms, and every member m of ms has a class with exactly the
   members of ms *)
Definition class_consistent (e : N * list N) : bool :=
  mem_cp (fst e) (snd e) &&
  forallb (fun m => let fm := fold_class m in incl_b fm (snd e) && incl_b (snd e) fm) (snd e).

Lemma fold_classes_consistent : forallb class_consistent fold_classes = true.
Proof. vm_compute. reflexivity. Qed.

Lemma class_consistent_entry c ms :
  In (c, ms) fold_classes ->
  In c ms /\ forall m, In m ms -> incl (fold_class m) ms /\ incl ms (fold_class m).
Proof.
  intros Hin. pose proof fold_classes_consistent as H. rewrite forallb_forall in H.
  specialize (H _ Hin). unfold class_consistent in H. cbn [fst snd] in H.
  apply andb_true_iff in H. destruct H as [H1 H2]. split.
  - apply mem_cp_In. exact H1.
  - intros m Hm. rewrite forallb_forall in H2. specialize (H2 _ Hm). cbv zeta in H2.
    apply andb_true_iff in H2. destruct H2 as [Ha Hb].
    split; apply incl_b_incl; assumption.
Qed.

Theorem fold_class_refl : forall c, In c (fold_class c).
Proof.
  intros c. destruct (fold_class_cases c) as [[E _]|[ms [E Hin]]]; rewrite E.
  - left; reflexivity.
  - destruct (class_consistent_entry c ms Hin) as [H _]. exact H.
Qed.

(* members of a class have the same class (as sets) *)
Lemma fold_class_member a b :
  In b (fold_class a) -> incl (fold_class b) (fold_class a) /\ incl (fold_class a) (fold_class b).
Proof.
  intros Hb. destruct (fold_class_cases a) as [[E _]|[ms [E Hin]]]; rewrite E in *.
  - destruct Hb as [<-|[]]. rewrite E. split; apply incl_refl.
  - destruct (class_consistent_entry a ms Hin) as [_ H]. exact (H b Hb).
Qed.

Theorem fold_eq_refl : forall a, fold_eq a a.
Proof. exact fold_class_refl. Qed.

Theorem fold_eq_sym : forall a b, fold_eq a b -> fold_eq b a.
Proof.
  unfold fold_eq. intros a b H. destruct (fold_class_member a b H) as [_ H2].
  apply H2. apply fold_class_refl.
Qed.

Theorem fold_eq_trans : forall a b c, fold_eq a b -> fold_eq b c -> fold_eq a c.
Proof.
  unfold fold_eq. intros a b c Hab Hbc. destruct (fold_class_member a b Hab) as [H1 _].
  apply H1. exact Hbc.
Qed.

(* same class, as sets *)
Theorem fold_eq_class : forall a b, fold_eq a b -> forall x, In x (fold_class a) <-> In x (fold_class b).
Proof.
  intros a b H x. destruct (fold_class_member a b H) as [H1 H2]. split; [apply H2|apply H1].
Qed.

(* ------------------------------------------------------------------ *)
(** * c. lower-casing stays inside the engine's fold class, except on the skew set *)

Definition lower_entry_ok (e : N * N) : bool :=
  mem_cp (fst e) skew_set || mem_cp (snd e) (fold_class (fst e)).

Lemma lower_single_ok : forallb lower_entry_ok lower_single = true.
Proof. vm_compute. reflexivity. Qed.

Theorem lower_in_fold_class :
  forall c, mem_cp c skew_set = false -> fold_eq c (lower1 c) /\ fold_eq (lower1 c) c.
Proof.
  intros c Hs.
  assert (H : fold_eq c (lower1 c)).
  { destruct (lower1_cases c) as [[E _]|[l [E Hin]]]; rewrite E.
    - apply fold_eq_refl.
    - pose proof lower_single_ok as H. rewrite forallb_forall in H. specialize (H _ Hin).
      unfold lower_entry_ok in H. cbn [fst snd] in H. rewrite Hs in H. cbn [orb] in H.
      apply mem_cp_In. exact H. }
  split; [exact H|apply fold_eq_sym; exact H].
Qed.

(* ------------------------------------------------------------------ *)
(** * d. the skew set is exact: every listed code point is a lower_single entry and really is
      a violation (in both directions) *)

Lemma forallb_In {A} (f : A -> bool) l x : forallb f l = true -> In x l -> f x = true.
Proof. intros H. rewrite forallb_forall in H. apply H. Qed.

Lemma skew_set_exact : forallb (fun c => negb (mem_cp c (fold_class (lower1 c)))) skew_set = true.
Proof. vm_compute. reflexivity. Qed.

Lemma skew_set_exact' : forallb (fun c => negb (mem_cp (lower1 c) (fold_class c))) skew_set = true.
Proof. vm_compute. reflexivity. Qed.

Theorem skew_exact : forall c, mem_cp c skew_set = true -> ~ fold_eq (lower1 c) c.
Proof.
  intros c Hc. apply mem_cp_In in Hc.
  pose proof (forallb_In _ _ _ skew_set_exact Hc) as H. cbv beta in H.
  apply negb_true_iff in H. apply mem_cp_false in H. exact H.
Qed.

Theorem skew_exact' : forall c, mem_cp c skew_set = true -> ~ fold_eq c (lower1 c).
Proof.
  intros c Hc. apply mem_cp_In in Hc.
  pose proof (forallb_In _ _ _ skew_set_exact' Hc) as H. cbv beta in H.
  apply negb_true_iff in H. apply mem_cp_false in H. exact H.
Qed.

(* the skew set is exactly the set of violations: together with lower_in_fold_class *)
Theorem skew_iff : forall c, mem_cp c skew_set = true <-> ~ fold_eq (lower1 c) c.
Proof.
  intros c. split; [apply skew_exact|].
  intros H. destruct (mem_cp c skew_set) eqn:E; [reflexivity|].
  exfalso. apply H. apply lower_in_fold_class. exact E.
Qed.

Theorem skew_is_lower : forall c, mem_cp c skew_set = true -> exists l, In (c, l) lower_single.
Proof.
  intros c Hc. destruct (lower1_cases c) as [[E _]|[l [_ Hin]]].
  - exfalso. apply (skew_exact c Hc). rewrite E. apply fold_eq_refl.
  - exists l. exact Hin.
Qed.

(* the lower-casing of a skewed code point is a different code point *)
Theorem skew_lower_neq : forall c, mem_cp c skew_set = true -> lower1 c <> c.
Proof.
  intros c Hc E. apply (skew_exact c Hc). rewrite E. apply fold_eq_refl.
Qed.

(* ------------------------------------------------------------------ *)
(** * e. lower-casing is idempotent (true on the tables: no exceptions) *)

Lemma lower_single_idem : forallb (fun e => N.eqb (lower1 (snd e)) (snd e)) lower_single = true.
Proof. vm_compute. reflexivity. Qed.

Theorem lower1_idem : forall c, lower1 (lower1 c) = lower1 c.
Proof.
  intros c. destruct (lower1_cases c) as [[E _]|[l [E Hin]]]; rewrite E.
  - exact E.
  - pose proof (forallb_In _ _ _ lower_single_idem Hin) as H. cbv beta in H. cbn [snd] in H.
    apply N.eqb_eq. exact H.
Qed.

(* code points whose lower-casing has several code points are outside lower_single: lower1 is the
   identity on them (they are handled separately by the model) *)
Lemma lower_multi_id : forallb (fun c => N.eqb (lower1 c) c) lower_multi = true.
Proof. vm_compute. reflexivity. Qed.

Theorem lower1_multi : forall c, In c lower_multi -> lower1 c = c.
Proof.
  intros c Hc. pose proof (forallb_In _ _ _ lower_multi_id Hc) as H. cbv beta in H.
  apply N.eqb_eq. exact H.
Qed.

(* ------------------------------------------------------------------ *)
(** * f. the Perl classes are closed under folding (needed for (?i)\w, (?i)\d, (?i)\s);
      true on the tables: no exceptions *)

Definition closed_under_fold (rs : ranges) : bool :=
  forallb (fun e => negb (mem rs (fst e)) || forallb (mem rs) (snd e)) fold_classes.

Lemma closed_gen rs :
  closed_under_fold rs = true ->
  forall c m, mem rs c = true -> In m (fold_class c) -> mem rs m = true.
Proof.
  intros Hcl c m Hc Hm. destruct (fold_class_cases c) as [[E _]|[ms [E Hin]]]; rewrite E in Hm.
  - destruct Hm as [<-|[]]. exact Hc.
  - unfold closed_under_fold in Hcl.
    pose proof (forallb_In _ _ _ Hcl Hin) as H. cbv beta in H. cbn [fst snd] in H.
    rewrite Hc in H. cbn [negb orb] in H. exact (forallb_In _ _ _ H Hm).
Qed.

(* membership is invariant on a class (closure + symmetry) *)
Lemma closed_gen_eq rs :
  closed_under_fold rs = true ->
  forall c m, In m (fold_class c) -> mem rs m = mem rs c.
Proof.
  intros Hcl c m Hm.
  destruct (mem rs c) eqn:Ec.
  - exact (closed_gen rs Hcl c m Ec Hm).
  - destruct (mem rs m) eqn:Em; [|reflexivity].
    rewrite <- Ec. symmetry. apply (closed_gen rs Hcl m c Em). apply fold_eq_sym. exact Hm.
Qed.

(* (vm_cast_no_check: the computation is done once, by the kernel at Qed; ~5 s) *)
Lemma engine_w_closed_b : closed_under_fold engine_w = true.
Proof. vm_cast_no_check (@eq_refl bool true). Qed.
Lemma engine_d_closed_b : closed_under_fold engine_d = true.
Proof. vm_compute. reflexivity. Qed.
Lemma engine_s_closed_b : closed_under_fold engine_s = true.
Proof. vm_compute. reflexivity. Qed.

Theorem engine_w_fold_closed :
  forall c m, mem engine_w c = true -> In m (fold_class c) -> mem engine_w m = true.
Proof. exact (closed_gen engine_w engine_w_closed_b). Qed.

Theorem engine_d_fold_closed :
  forall c m, mem engine_d c = true -> In m (fold_class c) -> mem engine_d m = true.
Proof. exact (closed_gen engine_d engine_d_closed_b). Qed.

Theorem engine_s_fold_closed :
  forall c m, mem engine_s c = true -> In m (fold_class c) -> mem engine_s m = true.
Proof. exact (closed_gen engine_s engine_s_closed_b). Qed.

(* hence also for the negated classes \W \D \S *)
Theorem engine_w_fold_invariant : forall c m, In m (fold_class c) -> mem engine_w m = mem engine_w c.
Proof. exact (closed_gen_eq engine_w engine_w_closed_b). Qed.
Theorem engine_d_fold_invariant : forall c m, In m (fold_class c) -> mem engine_d m = mem engine_d c.
Proof. exact (closed_gen_eq engine_d engine_d_closed_b). Qed.
Theorem engine_s_fold_invariant : forall c m, In m (fold_class c) -> mem engine_s m = mem engine_s c.
Proof. exact (closed_gen_eq engine_s engine_s_closed_b). Qed.

(* ------------------------------------------------------------------ *)
(** * String level: the (?i) literal string obtained by lower-casing accepts the original *)

(* what the (?i) literal string p accepts: same length, pointwise in the fold class *)
Definition fold_eq_str (p s : list N) : Prop := Forall2 fold_eq p s.

Theorem lower_str_accepts_original :
  forall s, Forall (fun c => mem_cp c skew_set = false) s -> fold_eq_str (map lower1 s) s.
Proof.
  intros s H. unfold fold_eq_str. induction H as [|c s Hc _ IH]; cbn [map]; constructor.
  - apply lower_in_fold_class. exact Hc.
  - exact IH.
Qed.

(* and on the skew set it does not: a one-character witness for each listed code point *)
Theorem skew_str_rejected :
  forall c, mem_cp c skew_set = true -> ~ fold_eq_str (map lower1 [c]) [c].
Proof.
  intros c Hc H. unfold fold_eq_str in H. cbn [map] in H. inversion H as [|? ? ? ? H1 _]; subst.
  exact (skew_exact c Hc H1).
Qed.

Print Assumptions fold_class_refl.
Print Assumptions fold_eq_sym.
Print Assumptions fold_eq_trans.
Print Assumptions lower_in_fold_class.
Print Assumptions skew_exact.
Print Assumptions skew_iff.
Print Assumptions skew_is_lower.
Print Assumptions lower1_idem.
Print Assumptions engine_w_fold_closed.
Print Assumptions engine_d_fold_closed.
Print Assumptions engine_s_fold_closed.
Print Assumptions engine_w_fold_invariant.
Print Assumptions lower_str_accepts_original.
Print Assumptions skew_str_rejected.
