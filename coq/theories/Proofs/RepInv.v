(* Invariants of stage R (convert_repetitions): thresholds, well-formedness, and the fact that
   the conversion is a re-bracketing of the same grapheme sequence (expand), with the semantic
   corollary.  No existing file is modified. *)
From Grex Require Import Base.Str Model.Config Model.Cluster Proofs.Lang.

(* ------------------------------------------------------------------ *)
(* Definitions                                                        *)
(* ------------------------------------------------------------------ *)

Definition plain (g : grapheme) : Prop := exists s, g = G [s] [] 1%N 1%N.

Inductive thr_ok (c : cfg) : grapheme -> Prop :=
| thr_unit : forall cs rs a b,
    a = b ->
    ((a = 1%N /\ rs = []) \/ ((min_rep c < b)%N /\ (min_len c <= N.of_nat (length cs))%N)) ->
    Forall (thr_ok c) rs -> thr_ok c (G cs rs a b).

Definition expand1 (g : grapheme) : list grapheme :=
  concat (repeat (map g_from (g_chars g)) (N.to_nat (g_max g))).
Definition expand (cl : cluster) : cluster := flat_map expand1 cl.

(* nested induction principle for graphemes *)
Definition grapheme_nested_ind (P : grapheme -> Prop)
  (H : forall cs rs a b, Forall P rs -> P (G cs rs a b)) : forall g, P g :=
  fix go (g : grapheme) : P g :=
    match g with
    | G cs rs a b =>
        H cs rs a b
          ((fix go_list (l : list grapheme) : Forall P l :=
              match l with
              | [] => Forall_nil P
              | x :: l' => Forall_cons x (go x) (go_list l')
              end) rs)
    end.

(* nested induction principle for thr_ok *)
Definition thr_ok_nested_ind (c : cfg) (P : grapheme -> Prop)
  (H : forall cs rs a b,
      a = b ->
      ((a = 1%N /\ rs = []) \/ ((min_rep c < b)%N /\ (min_len c <= N.of_nat (length cs))%N)) ->
      Forall (thr_ok c) rs -> Forall P rs -> P (G cs rs a b)) : forall g, thr_ok c g -> P g :=
  fix go (g : grapheme) (t : thr_ok c g) {struct t} : P g :=
    match t in thr_ok _ g0 return P g0 with
    | thr_unit _ cs rs a b Hab Hthr Hrs =>
        H cs rs a b Hab Hthr Hrs
          ((fix go_list (l : list grapheme) (F : Forall (thr_ok c) l) {struct F} : Forall P l :=
              match F in Forall _ l0 return Forall P l0 with
              | Forall_nil _ => Forall_nil P
              | @Forall_cons _ _ x l' Hx Hl' => Forall_cons x (go x Hx) (go_list l' Hl')
              end) rs Hrs)
    end.

(* ------------------------------------------------------------------ *)
(* Generic list facts                                                 *)
(* ------------------------------------------------------------------ *)

Lemma Forall_firstn' {A} (P : A -> Prop) n (l : list A) : Forall P l -> Forall P (firstn n l).
Proof.
  intros HF. rewrite <- (firstn_skipn n l) in HF. apply Forall_app in HF. tauto.
Qed.

Lemma Forall_skipn' {A} (P : A -> Prop) n (l : list A) : Forall P l -> Forall P (skipn n l).
Proof.
  intros HF. rewrite <- (firstn_skipn n l) in HF. apply Forall_app in HF. tauto.
Qed.

Lemma str_eqb_eq : forall a b, str_eqb a b = true -> a = b.
Proof.
  induction a as [|x a IHa]; intros [|y b] Hab; simpl in Hab; try discriminate; auto.
  apply andb_prop in Hab. destruct Hab as [Hxy Hab].
  apply N.eqb_eq in Hxy. apply IHa in Hab. subst. reflexivity.
Qed.

Lemma strs_eqb_eq : forall a b, strs_eqb a b = true -> a = b.
Proof.
  unfold strs_eqb.
  induction a as [|x a IHa]; intros [|y b] Hab; simpl in Hab; try discriminate; auto.
  apply andb_prop in Hab. destruct Hab as [Hxy Hab].
  apply str_eqb_eq in Hxy. apply IHa in Hab. subst. reflexivity.
Qed.

(* coalesce keeps any property stable under merging *)
Lemma coalesce_go_Forall {A} (P : A -> Prop) (f : A -> A -> option A) :
  (forall a y z, P a -> P y -> f a y = Some z -> P z) ->
  forall l acc, P acc -> Forall P l -> Forall P (coalesce_go f acc l).
Proof.
  intros Hf. induction l as [|y l IHl]; intros acc Hacc HF; simpl.
  - constructor; auto.
  - inversion HF as [|y' l' Hy Hl]; subst.
    destruct (f acc y) as [z|] eqn:Efz.
    + apply IHl; auto. apply (Hf acc y z); auto.
    + constructor; auto.
Qed.

Lemma coalesce_Forall {A} (P : A -> Prop) (f : A -> A -> option A) :
  (forall a y z, P a -> P y -> f a y = Some z -> P z) ->
  forall l, Forall P l -> Forall P (coalesce f l).
Proof.
  intros Hf [|x l] HF; simpl; auto.
  inversion HF; subst. apply coalesce_go_Forall; auto.
Qed.

Lemma in_insert_by {A} (le : A -> A -> bool) x y : forall l,
  In x (insert_by le y l) <-> x = y \/ In x l.
Proof.
  induction l as [|z l IHl]; simpl.
  - intuition.
  - destruct (le y z); simpl; rewrite ?IHl; intuition.
Qed.

Lemma in_sort_by {A} (le : A -> A -> bool) x : forall l, In x (sort_by le l) <-> In x l.
Proof.
  induction l as [|z l IHl]; simpl.
  - tauto.
  - unfold sort_by in *. rewrite in_insert_by, IHl. intuition.
Qed.

(* ------------------------------------------------------------------ *)
(* Shape of conv_reps                                                 *)
(* ------------------------------------------------------------------ *)

Definition co_of (c : cfg) (gs : list grapheme) : list (range * list str) :=
  coalesce_repetitions (create_ranges c (collect_repeated_substrings gs) (length gs)).

Definition relabel (fuel : nat) (c : cfg) (g : grapheme) : grapheme :=
  match g with G cs _ a b => G cs (conv_reps fuel c (map g_from cs)) a b end.

Lemma conv_reps_S : forall fuel c gs,
  conv_reps (S fuel) c gs = [] \/
  conv_reps (S fuel) c gs = map (relabel fuel c) (splice_all c (co_of c gs) gs).
Proof.
  intros fuel c gs. cbn [conv_reps]. fold (co_of c gs). fold (relabel fuel c).
  destruct (co_of c gs) as [|x co]; [left|right]; reflexivity.
Qed.

Lemma conv_reps_0 : forall c gs, conv_reps 0 c gs = [].
Proof. reflexivity. Qed.

(* ------------------------------------------------------------------ *)
(* collect_repeated_substrings: every recorded index is an occurrence *)
(* ------------------------------------------------------------------ *)

Lemma fold_left_inv {A B} (P : A -> Prop) (f : A -> B -> A) (l : list B) :
  (forall a b, In b l -> P a -> P (f a b)) -> forall a, P a -> P (fold_left f l a).
Proof.
  induction l as [|b l IHl]; intros Hf a Ha; simpl; auto.
  apply IHl.
  - intros a' b' Hb' Ha'. apply Hf; simpl; auto.
  - apply Hf; simpl; auto.
Qed.

Section Collect.
  Variable gs : list grapheme.

  (* p occurs (as a sequence of grapheme values) at index i *)
  Definition occ (p : list str) (i : nat) : Prop :=
    i + length p <= length gs /\ map g_value (firstn (length p) (skipn i gs)) = p.

  Definition entries_ok (m : list (list str * list nat)) : Prop :=
    forall p idx, In (p, idx) m -> idx <> [] /\ forall i, In i idx -> occ p i.

  Lemma assoc_push_ok : forall k i m, entries_ok m -> occ k i -> entries_ok (assoc_push k i m).
  Proof.
    intros k i. induction m as [|[k' is] m IHm]; intros Hm Hk p idx Hin; simpl in Hin.
    - destruct Hin as [Heq|[]]. inversion Heq; subst. split; [discriminate|].
      intros j [Hj|[]]; subst; auto.
    - destruct (strs_eqb k k') eqn:E.
      + apply strs_eqb_eq in E. subst k'. destruct Hin as [Heq|Hin].
        * inversion Heq; subst. split. { destruct is; discriminate. }
          intros j Hj. apply in_app_or in Hj. destruct Hj as [Hj|[Hj|[]]]; [|subst; auto].
          apply (Hm p is); simpl; auto.
        * apply Hm. simpl; auto.
      + destruct Hin as [Heq|Hin].
        * apply Hm. simpl; auto.
        * apply IHm; auto. intros p' idx' H'. apply Hm. simpl; auto.
  Qed.

  Lemma collect_ok : entries_ok (collect_repeated_substrings gs).
  Proof.
    unfold collect_repeated_substrings.
    apply fold_left_inv.
    - intros m i Hi Hm. cbv zeta. apply fold_left_inv; auto.
      intros m' j Hj Hm'.
      destruct (Nat.leb j (length (skipn i gs))) eqn:El; auto.
      apply Nat.leb_le in El.
      apply assoc_push_ok; auto.
      unfold occ. rewrite map_length, firstn_length_le by exact El.
      split; [|reflexivity].
      rewrite skipn_length in El. apply in_seq in Hi. lia.
    - intros p idx [].
  Qed.
End Collect.

(* ------------------------------------------------------------------ *)
(* create_ranges                                                      *)
(* ------------------------------------------------------------------ *)

Definition merge_rng (x y : range) : option range :=
  if Nat.eqb (snd x) (fst y) then Some (fst x, snd y) else None.

Lemma in_create_ranges : forall c m n r p,
  In (r, p) (create_ranges c m n) ->
  exists idx, In (p, idx) m /\ 1 <= length p
              /\ In r (coalesce merge_rng (map (fun i => (i, i + length p)) idx))
              /\ (min_rep c < N.of_nat ((snd r - fst r) / length p))%N.
Proof.
  unfold create_ranges. intros c m n r p Hin.
  apply in_flat_map in Hin. destruct Hin as [plen [Hplen Hin]].
  apply in_flat_map in Hin. destruct Hin as [[p' idx] [He Hin]].
  apply filter_In in He. destruct He as [He _].
  destruct (Nat.eqb (length p') plen) eqn:El; [|destruct Hin].
  apply Nat.eqb_eq in El. apply in_map_iff in Hin. destruct Hin as [r' [Heq Hr']].
  inversion Heq; subst.
  apply filter_In in Hr'. destruct Hr' as [Hr' Hlt]. apply N.ltb_lt in Hlt.
  apply in_rev in Hplen. apply in_seq in Hplen.
  exists idx. repeat split; auto. lia.
Qed.

(* ------------------------------------------------------------------ *)
(* coalesce_repetitions                                               *)
(* ------------------------------------------------------------------ *)

Definition le_rs (a b : range * list str) : bool :=
  let '(fa, _) := a in let '(fb, _) := b in
  if Nat.eqb (snd fa) (snd fb) then Nat.leb (fst fa) (fst fb) else Nat.ltb (snd fb) (snd fa).

Definition ovl (a b : range * list str) : option (range * list str) :=
  let fr := fst a in let sr := fst b in
  if (range_contains fr (fst sr) || range_contains fr (snd sr)) && negb (Nat.eqb (snd sr) (fst fr))
  then Some a else None.

Lemma coalesce_repetitions_eq : forall l, coalesce_repetitions l = coalesce ovl (sort_by le_rs l).
Proof. reflexivity. Qed.

Lemma ovl_some : forall a b z, ovl a b = Some z -> z = a.
Proof.
  unfold ovl. intros a b z Hz. cbv zeta in Hz.
  destruct (_ && _) in Hz; congruence.
Qed.

Lemma in_coalesce_repetitions : forall l x, In x (coalesce_repetitions l) -> In x l.
Proof.
  intros l x Hx. rewrite coalesce_repetitions_eq in Hx.
  assert (HF : Forall (fun y => In y l) (coalesce ovl (sort_by le_rs l))).
  { apply coalesce_Forall.
    - intros a y z Ha _ Hz. apply ovl_some in Hz. subst. exact Ha.
    - apply Forall_forall. intros y Hy. apply in_sort_by in Hy. exact Hy. }
  rewrite Forall_forall in HF. apply HF. exact Hx.
Qed.

(* what we know of every range that survives to the splice loop *)
Lemma in_co_of : forall c gs s e p,
  In ((s, e), p) (co_of c gs) ->
  exists idx, In (p, idx) (collect_repeated_substrings gs) /\ 1 <= length p
              /\ In (s, e) (coalesce merge_rng (map (fun i => (i, i + length p)) idx))
              /\ (min_rep c < N.of_nat ((e - s) / length p))%N.
Proof.
  intros c gs s e p Hin. unfold co_of in Hin.
  apply in_coalesce_repetitions in Hin. apply in_create_ranges in Hin. exact Hin.
Qed.

(* ------------------------------------------------------------------ *)
(* Task 1: thresholds, uniform counts, well-formedness                *)
(* ------------------------------------------------------------------ *)

Lemma splice_all_Forall (P : grapheme -> Prop) (c : cfg) : forall co out,
  Forall P out ->
  (forall s e sub, In ((s, e), sub) co -> (min_len c <= N.of_nat (length sub))%N ->
     P (g_new sub (N.of_nat ((e - s) / length sub)) (N.of_nat ((e - s) / length sub)))) ->
  Forall P (splice_all c co out).
Proof.
  induction co as [|[[s e] sub] co IH]; intros out Hout Hco; simpl; auto.
  destruct (Nat.ltb (length out) e); auto.
  destruct (N.ltb (N.of_nat (length sub)) (min_len c)) eqn:El.
  - apply IH; auto. intros s' e' sub' Hin Hlen. apply Hco; simpl; auto.
  - apply N.ltb_ge in El. apply IH.
    + apply Forall_app; split; [apply Forall_firstn'; auto|].
      constructor; [|apply Forall_skipn'; auto].
      apply Hco; simpl; auto.
    + intros s' e' sub' Hin Hlen. apply Hco; simpl; auto.
Qed.

Lemma create_ranges_small : forall c m n, n / 2 = 0 -> create_ranges c m n = [].
Proof. intros c m n Hn. unfold create_ranges. rewrite Hn. reflexivity. Qed.

Lemma conv_reps_short : forall fuel c gs, length gs < 2 -> conv_reps fuel c gs = [].
Proof.
  intros [|fuel] c gs Hlen; [reflexivity|].
  cbn [conv_reps]. rewrite create_ranges_small; [reflexivity|].
  destruct gs as [|x [|y gs]]; simpl in Hlen; try reflexivity. lia.
Qed.

Lemma plain_map_g_from : forall cs, Forall plain (map g_from cs).
Proof.
  intros cs. apply Forall_forall. intros g Hg. apply in_map_iff in Hg.
  destruct Hg as [s [Hs _]]. exists s. subst. reflexivity.
Qed.

Lemma plain_thr_ok : forall c g, plain g -> thr_ok c g.
Proof.
  intros c g [s Hs]. subst. constructor; auto.
Qed.

(* no hypothesis on min_rep is needed for the thresholds themselves *)
Lemma conv_reps_thr : forall c fuel gs,
  Forall plain gs -> Forall (thr_ok c) (conv_reps fuel c gs).
Proof.
  intros c. induction fuel as [|fuel IH]; intros gs Hpl; [constructor|].
  destruct (conv_reps_S fuel c gs) as [E|E]; rewrite E; [constructor|].
  apply Forall_map.
  apply splice_all_Forall.
  - apply Forall_forall. intros g Hg. rewrite Forall_forall in Hpl.
    destruct (Hpl g Hg) as [s Hs]. subst g. simpl.
    rewrite conv_reps_short by (simpl; lia).
    constructor; auto.
  - intros s e sub Hin Hlen. simpl.
    apply in_co_of in Hin. destruct Hin as [idx [_ [_ [_ Hcnt]]]].
    constructor; auto. apply IH. apply plain_map_g_from.
Qed.

Theorem convert_thresholds_strong : forall c cl,
  Forall plain cl -> Forall (thr_ok c) (convert_repetitions c cl).
Proof.
  intros c cl Hpl. unfold convert_repetitions.
  destruct (conv_reps (S (length cl)) c cl) as [|g r] eqn:E.
  - eapply Forall_impl; [|exact Hpl]. intros g Hg. apply plain_thr_ok; exact Hg.
  - rewrite <- E. apply conv_reps_thr. exact Hpl.
Qed.

Theorem convert_thresholds : forall c cl,
  (1 <= min_rep c)%N -> Forall plain cl -> Forall (thr_ok c) (convert_repetitions c cl).
Proof. intros c cl _ Hpl. apply convert_thresholds_strong. exact Hpl. Qed.

Lemma thr_ok_uniform : forall c g, thr_ok c g -> g_min g = g_max g.
Proof. intros c g Hg. inversion Hg; subst. reflexivity. Qed.

Theorem convert_uniform : forall c cl,
  Forall plain cl -> Forall (fun g => g_min g = g_max g) (convert_repetitions c cl).
Proof.
  intros c cl Hpl. eapply Forall_impl; [|apply (convert_thresholds_strong c cl Hpl)].
  intros g Hg. eapply thr_ok_uniform; eauto.
Qed.

(* uniform counts at every nesting depth *)
Inductive uniform_deep : grapheme -> Prop :=
| uniform_deep_intro : forall cs rs a b,
    a = b -> Forall uniform_deep rs -> uniform_deep (G cs rs a b).

Lemma thr_ok_uniform_deep : forall c g, thr_ok c g -> uniform_deep g.
Proof.
  intros c. apply thr_ok_nested_ind. intros cs rs a b Hab _ _ IH. constructor; auto.
Qed.

(* well-formedness *)
Lemma wf_g_value : forall g, wf_g g -> g_value g <> [].
Proof.
  intros [cs rs a b] [Hne [Hall _]]. unfold g_value. simpl.
  destruct cs as [|s cs]; [congruence|].
  inversion Hall as [|s' cs' Hs Hcs]; subst. simpl.
  destruct s; [congruence|discriminate].
Qed.

Lemma wf_relabel : forall fuel c g, wf_g g -> wf_g (relabel fuel c g).
Proof. intros fuel c [cs rs a b] Hg. exact Hg. Qed.

Lemma wf_map_g_from : forall cs, Forall (fun s : str => s <> []) cs -> Forall wf_g (map g_from cs).
Proof.
  intros cs Hcs. apply Forall_forall. intros g Hg. apply in_map_iff in Hg.
  destruct Hg as [s [Hs Hin]]. subst g. rewrite Forall_forall in Hcs. simpl.
  repeat split; try lia; [discriminate|]. constructor; auto.
Qed.

Lemma occ_values_nonempty : forall gs p i,
  Forall wf_g gs -> occ gs p i -> Forall (fun s : str => s <> []) p.
Proof.
  intros gs p i Hwf [_ Hp]. rewrite <- Hp. apply Forall_forall. intros s Hs.
  apply in_map_iff in Hs. destruct Hs as [g [Hg Hin]]. subst s.
  apply wf_g_value. rewrite Forall_forall in Hwf. apply Hwf.
  assert (HF : Forall (fun g => In g gs) (firstn (length p) (skipn i gs))).
  { apply Forall_firstn'. apply Forall_skipn'. apply Forall_forall. auto. }
  rewrite Forall_forall in HF. apply HF. exact Hin.
Qed.

Lemma conv_reps_wf : forall c fuel gs,
  Forall wf_g gs -> Forall wf_g (conv_reps fuel c gs).
Proof.
  intros c. induction fuel as [|fuel IH]; intros gs Hwf; [constructor|].
  destruct (conv_reps_S fuel c gs) as [E|E]; rewrite E; [constructor|].
  apply Forall_map.
  apply splice_all_Forall.
  - eapply Forall_impl; [|exact Hwf]. intros g Hg. apply wf_relabel. exact Hg.
  - intros s e sub Hin Hlen. apply wf_relabel.
    apply in_co_of in Hin. destruct Hin as [idx [Hidx [Hp [_ Hcnt]]]].
    destruct (collect_ok gs sub idx Hidx) as [Hne Hocc].
    destruct idx as [|i idx]; [congruence|].
    assert (Hval : Forall (fun s : str => s <> []) sub).
    { apply (occ_values_nonempty gs sub i Hwf). apply Hocc. simpl; auto. }
    simpl. repeat split; auto; try lia.
    destruct sub; simpl in Hp; [lia|discriminate].
Qed.

Theorem convert_wf_strong : forall c cl,
  Forall wf_g cl -> Forall wf_g (convert_repetitions c cl).
Proof.
  intros c cl Hwf. unfold convert_repetitions.
  destruct (conv_reps (S (length cl)) c cl) as [|g r] eqn:E; auto.
  rewrite <- E. apply conv_reps_wf. exact Hwf.
Qed.

Theorem convert_wf : forall c cl,
  Forall plain cl -> Forall (fun g => wf_g g) cl -> Forall wf_g (convert_repetitions c cl).
Proof. intros c cl _ Hwf. apply convert_wf_strong. exact Hwf. Qed.

(* ------------------------------------------------------------------ *)
(* Task 2: the conversion is a re-bracketing                          *)
(* ------------------------------------------------------------------ *)

Lemma firstn_add {A} : forall a b (l : list A),
  firstn (a + b) l = firstn a l ++ firstn b (skipn a l).
Proof.
  induction a as [|a IHa]; intros b l; simpl; auto.
  destruct l as [|x l]; simpl.
  - rewrite firstn_nil. reflexivity.
  - rewrite IHa. reflexivity.
Qed.

Lemma skipn_add {A} : forall a b (l : list A), skipn (a + b) l = skipn b (skipn a l).
Proof.
  induction a as [|a IHa]; intros b l; simpl; auto.
  destruct l as [|x l]; simpl.
  - rewrite skipn_nil. reflexivity.
  - apply IHa.
Qed.

Lemma skipn_firstn_app {A} : forall s b (l : list A),
  s <= b -> b <= length l -> skipn s (firstn b l) ++ skipn b l = skipn s l.
Proof.
  intros s b l Hsb Hbl.
  transitivity (skipn s (firstn b l ++ skipn b l)).
  - rewrite skipn_app, firstn_length_le by exact Hbl.
    replace (s - b) with 0 by lia. reflexivity.
  - rewrite firstn_skipn. reflexivity.
Qed.

Lemma firstn_app_l {A} : forall n (l1 l2 : list A), length l1 = n -> firstn n (l1 ++ l2) = l1.
Proof.
  intros n l1 l2 Hn. rewrite firstn_app, Hn, Nat.sub_diag. simpl.
  rewrite app_nil_r. apply firstn_all2. lia.
Qed.

Lemma skipn_app_ge {A} : forall n (l1 l2 : list A),
  n <= length l1 -> skipn n (l1 ++ l2) = skipn n l1 ++ l2.
Proof.
  intros n l1 l2 Hn. rewrite skipn_app. replace (n - length l1) with 0 by lia. reflexivity.
Qed.

(* --- coalesced ranges spell p repeated k times --- *)

Definition good (gs : list grapheme) (p : list str) (r : range) : Prop :=
  exists k, 1 <= k /\ snd r = fst r + k * length p /\ snd r <= length gs /\
            map g_value (firstn (k * length p) (skipn (fst r) gs)) = concat (repeat p k).

Lemma good_single : forall gs p i, occ gs p i -> good gs p (i, i + length p).
Proof.
  intros gs p i [Hlen Hval]. exists 1. simpl. rewrite Nat.add_0_r, app_nil_r.
  repeat split; auto.
Qed.

Lemma good_merge : forall gs p x y z,
  good gs p x -> good gs p y -> merge_rng x y = Some z -> good gs p z.
Proof.
  intros gs p [s e] [s' e'] z Hx Hy Hz. unfold merge_rng in Hz. simpl in Hz.
  destruct (Nat.eqb_spec e s') as [Hes|Hes]; [|discriminate].
  inversion Hz; subst z. clear Hz.
  destruct Hx as [k [Hk [He [Hle Hval]]]]. destruct Hy as [k' [Hk' [He' [Hle' Hval']]]].
  simpl in *. exists (k + k'). simpl.
  rewrite Nat.mul_add_distr_r.
  repeat split; try lia.
  rewrite firstn_add, map_app, repeat_app, concat_app.
  f_equal; auto.
  rewrite <- skipn_add. replace (s + k * length p) with s' by lia. exact Hval'.
Qed.

Lemma in_coalesce_good : forall gs p idx r,
  (forall i, In i idx -> occ gs p i) ->
  In r (coalesce merge_rng (map (fun i => (i, i + length p)) idx)) -> good gs p r.
Proof.
  intros gs p idx r Hocc Hr.
  assert (HF : Forall (good gs p) (coalesce merge_rng (map (fun i => (i, i + length p)) idx))).
  { apply coalesce_Forall.
    - intros a y z Ha Hy Hz. exact (good_merge gs p a y z Ha Hy Hz).
    - apply Forall_forall. intros x Hx. apply in_map_iff in Hx.
      destruct Hx as [i [Hi Hin]]. subst x. apply good_single. auto. }
  rewrite Forall_forall in HF. auto.
Qed.

(* --- plain graphemes are determined by their values --- *)

Lemma plain_value_inv : forall l, Forall plain l -> map g_from (map g_value l) = l.
Proof.
  induction 1 as [|g l [s Hs] _ IH]; simpl; auto.
  subst g. rewrite IH. unfold g_value. simpl. rewrite app_nil_r. reflexivity.
Qed.

Lemma map_concat_repeat {A B} (f : A -> B) : forall (p : list A) k,
  map f (concat (repeat p k)) = concat (repeat (map f p) k).
Proof.
  intros p. induction k as [|k IHk]; simpl; auto.
  rewrite map_app, IHk. reflexivity.
Qed.

Lemma expand_plain : forall l, Forall plain l -> expand l = l.
Proof.
  induction 1 as [|g l [s Hs] _ IH]; auto.
  subst g. unfold expand in *. simpl. rewrite IH. reflexivity.
Qed.

Lemma expand_app : forall l1 l2, expand (l1 ++ l2) = expand l1 ++ expand l2.
Proof. intros l1 l2. unfold expand. apply flat_map_app. Qed.

(* --- validity of the ranges reaching the splice loop --- *)

Definition valid (orig : list grapheme) (x : range * list str) : Prop :=
  let '((s, e), p) := x in
  s < e /\ e <= length orig /\
  firstn (e - s) (skipn s orig)
  = expand1 (g_new p (N.of_nat ((e - s) / length p)) (N.of_nat ((e - s) / length p))).

Lemma co_of_valid : forall c gs s e p,
  Forall plain gs -> In ((s, e), p) (co_of c gs) -> valid gs ((s, e), p).
Proof.
  intros c gs s e p Hpl Hin.
  apply in_co_of in Hin. destruct Hin as [idx [Hidx [Hp [Hr _]]]].
  destruct (collect_ok gs p idx Hidx) as [_ Hocc].
  apply (in_coalesce_good gs p idx (s, e) Hocc) in Hr.
  destruct Hr as [k [Hk [He [Hle Hval]]]]. simpl in *.
  assert (Hes : e - s = k * length p) by lia.
  unfold valid. split; [nia|]. split; [exact Hle|].
  rewrite Hes, Nat.div_mul by lia.
  unfold expand1. simpl. rewrite Nat2N.id.
  rewrite <- map_concat_repeat, <- Hval.
  rewrite plain_value_inv; [reflexivity|].
  apply Forall_firstn'. apply Forall_skipn'. exact Hpl.
Qed.

(* --- sorting, and the chain of pairwise disjoint, strictly leftwards ranges --- *)

Lemma le_rs_spec : forall sa ea pa sb eb pb,
  le_rs ((sa, ea), pa) ((sb, eb), pb) = true <-> (eb < ea \/ (ea = eb /\ sa <= sb)).
Proof.
  intros sa ea pa sb eb pb. unfold le_rs. simpl.
  destruct (Nat.eqb_spec ea eb) as [Heq|Hne].
  - rewrite Nat.leb_le. lia.
  - rewrite Nat.ltb_lt. lia.
Qed.

Lemma le_rs_total : forall a b, le_rs a b = false -> le_rs b a = true.
Proof.
  intros [[sa ea] pa] [[sb eb] pb] Hab.
  apply Bool.not_true_iff_false in Hab. rewrite le_rs_spec in Hab.
  apply le_rs_spec. lia.
Qed.

Lemma le_rs_trans : forall a b d, le_rs a b = true -> le_rs b d = true -> le_rs a d = true.
Proof.
  intros [[sa ea] pa] [[sb eb] pb] [[sd ed] pd] Hab Hbd.
  rewrite le_rs_spec in *. lia.
Qed.

Fixpoint ssorted (l : list (range * list str)) : Prop :=
  match l with
  | [] => True
  | x :: l' => Forall (fun y => le_rs x y = true) l' /\ ssorted l'
  end.

Lemma insert_sorted : forall x l, ssorted l -> ssorted (insert_by le_rs x l).
Proof.
  intros x. induction l as [|y l IH]; intros Hs.
  - simpl. split; constructor.
  - destruct Hs as [Hy Hl]. simpl. destruct (le_rs x y) eqn:E.
    + split; [|split; auto]. constructor; auto.
      eapply Forall_impl; [|exact Hy]. intros z Hz. eapply le_rs_trans; eauto.
    + split; [|apply IH; exact Hl].
      apply Forall_forall. intros z Hz. apply in_insert_by in Hz.
      destruct Hz as [Hz|Hz].
      * subst z. apply le_rs_total. exact E.
      * rewrite Forall_forall in Hy. auto.
Qed.

Lemma sort_sorted : forall l, ssorted (sort_by le_rs l).
Proof.
  induction l as [|x l IH]; simpl; auto.
  apply insert_sorted. exact IH.
Qed.

Fixpoint chain (b : nat) (co : list (range * list str)) : Prop :=
  match co with
  | [] => True
  | ((s, e), _) :: co' => s < e /\ e <= b /\ chain s co'
  end.

Definition nonempty_rng (x : range * list str) : Prop := fst (fst x) < snd (fst x).

Lemma ovl_none : forall sa ea pa sb eb pb,
  ovl ((sa, ea), pa) ((sb, eb), pb) = None ->
  le_rs ((sa, ea), pa) ((sb, eb), pb) = true -> sb < eb -> eb <= sa.
Proof.
  intros sa ea pa sb eb pb Hov Hle Hne. rewrite le_rs_spec in Hle.
  destruct (Nat.le_gt_cases eb sa) as [Hok|Hbad]; auto. exfalso.
  unfold ovl, range_contains in Hov. simpl in Hov.
  assert (Hc : ((Nat.leb sa sb && Nat.ltb sb ea) || (Nat.leb sa eb && Nat.ltb eb ea))
               && negb (Nat.eqb eb sa) = true).
  { apply andb_true_iff. split.
    - apply orb_true_iff. destruct (Nat.lt_ge_cases eb ea) as [Hlt|Hge].
      + right. apply andb_true_iff. split; [apply Nat.leb_le|apply Nat.ltb_lt]; lia.
      + left. apply andb_true_iff. split; [apply Nat.leb_le|apply Nat.ltb_lt]; lia.
    - apply negb_true_iff. apply Nat.eqb_neq. lia. }
  rewrite Hc in Hov. discriminate.
Qed.

Lemma coalesce_go_chain : forall l acc b,
  ssorted (acc :: l) -> Forall nonempty_rng (acc :: l) -> snd (fst acc) <= b ->
  chain b (coalesce_go ovl acc l).
Proof.
  induction l as [|y l IH]; intros [[sa ea] pa] b Hs Hne Hb.
  - simpl in *. inversion Hne; subst. unfold nonempty_rng in *. simpl in *. auto.
  - cbn [coalesce_go]. destruct Hs as [Hay [Hy Hl]].
    inversion Hne as [|a' l' Hna Hnyl]; subst.
    inversion Hnyl as [|y' l'' Hny Hnl]; subst.
    inversion Hay as [|y' l'' Hray Hral]; subst.
    destruct (ovl _ y) as [z|] eqn:E.
    + apply ovl_some in E. subst z. apply IH; auto.
      * split; auto.
    + cbn [chain]. unfold nonempty_rng in Hna. simpl in Hna, Hb.
      split; [exact Hna|]. split; [exact Hb|].
      apply IH; auto.
      * split; auto.
      * destruct y as [[sb eb] pb]. unfold nonempty_rng in Hny. simpl in *.
        eapply ovl_none; eauto.
Qed.

Lemma coalesce_repetitions_chain : forall l n,
  Forall nonempty_rng l -> Forall (fun x => snd (fst x) <= n) l ->
  chain n (coalesce_repetitions l).
Proof.
  intros l n Hne Hle. rewrite coalesce_repetitions_eq.
  pose proof (sort_sorted l) as Hs.
  assert (Hne' : Forall nonempty_rng (sort_by le_rs l)).
  { apply Forall_forall. intros x Hx. apply in_sort_by in Hx.
    rewrite Forall_forall in Hne. auto. }
  assert (Hle' : Forall (fun x => snd (fst x) <= n) (sort_by le_rs l)).
  { apply Forall_forall. intros x Hx. apply in_sort_by in Hx.
    rewrite Forall_forall in Hle. auto. }
  destruct (sort_by le_rs l) as [|x l']; simpl; auto.
  apply coalesce_go_chain; auto.
  inversion Hle'; subst. auto.
Qed.

(* every range produced by create_ranges on the collected substrings is non-empty and in bounds *)
Lemma create_ranges_bounds : forall c gs r p,
  In (r, p) (create_ranges c (collect_repeated_substrings gs) (length gs)) ->
  fst r < snd r /\ snd r <= length gs.
Proof.
  intros c gs [s e] p Hin. apply in_create_ranges in Hin.
  destruct Hin as [idx [Hidx [Hp [Hr _]]]].
  destruct (collect_ok gs p idx Hidx) as [_ Hocc].
  apply (in_coalesce_good gs p idx (s, e) Hocc) in Hr.
  destruct Hr as [k [Hk [He [Hle _]]]]. simpl in *. split; [nia|lia].
Qed.

Lemma co_of_chain : forall c gs, chain (length gs) (co_of c gs).
Proof.
  intros c gs. unfold co_of. apply coalesce_repetitions_chain.
  - apply Forall_forall. intros [r p] Hx. apply create_ranges_bounds in Hx.
    unfold nonempty_rng. simpl. tauto.
  - apply Forall_forall. intros [r p] Hx. apply create_ranges_bounds in Hx.
    simpl. tauto.
Qed.

(* --- the splice loop: everything left of the previous splice is still the original --- *)

Section Splice.
  Variable c : cfg.
  Variable orig : list grapheme.
  Hypothesis Hpl : Forall plain orig.

  Lemma splice_expand : forall co b post,
    chain b co -> Forall (valid orig) co -> b <= length orig ->
    expand post = skipn b orig ->
    expand (splice_all c co (firstn b orig ++ post)) = orig.
  Proof.
    induction co as [|[[s e] p] co IH]; intros b post Hch Hv Hb Hpost.
    - simpl. rewrite expand_app, Hpost, expand_plain by (apply Forall_firstn'; exact Hpl).
      apply firstn_skipn.
    - destruct Hch as [Hse [Heb Hch]].
      inversion Hv as [|x co' Hvx Hvco]; subst.
      destruct Hvx as [_ [_ Hspell]].
      cbn [splice_all].
      assert (Hlen : length (firstn b orig ++ post) = b + length post).
      { rewrite app_length, firstn_length_le by exact Hb. reflexivity. }
      destruct (Nat.ltb_spec (length (firstn b orig ++ post)) e) as [Hbad|_]; [lia|].
      assert (Hfs : firstn s orig = firstn s (firstn b orig)).
      { rewrite firstn_firstn. f_equal. lia. }
      assert (Hre : firstn b orig ++ post = firstn s orig ++ (skipn s (firstn b orig) ++ post)).
      { rewrite app_assoc, Hfs, firstn_skipn. reflexivity. }
      assert (Hmid : forall t, t <= b ->
                 expand (skipn t (firstn b orig) ++ post) = skipn t orig).
      { intros t Ht. rewrite expand_app, Hpost, expand_plain.
        - apply skipn_firstn_app; auto.
        - apply Forall_skipn'. apply Forall_firstn'. exact Hpl. }
      destruct (N.ltb (N.of_nat (length p)) (min_len c)).
      + rewrite Hre. apply IH; auto; try lia.
        apply Hmid. lia.
      + assert (Hf : firstn s (firstn b orig ++ post) = firstn s orig).
        { rewrite Hre. apply firstn_app_l. apply firstn_length_le. lia. }
        assert (Hsk : skipn e (firstn b orig ++ post) = skipn e (firstn b orig) ++ post).
        { apply skipn_app_ge. rewrite firstn_length_le by exact Hb. exact Heb. }
        rewrite Hf, Hsk. apply IH; auto; try lia.
        change (expand ([?x] ++ ?l)) with (expand1 x ++ expand l).
        rewrite (Hmid e Heb), <- Hspell.
        replace e with (s + (e - s)) at 2 by lia.
        rewrite skipn_add. apply firstn_skipn.
  Qed.
End Splice.

Lemma expand_map_relabel : forall fuel c l, expand (map (relabel fuel c) l) = expand l.
Proof.
  intros fuel c. induction l as [|[cs rs a b] l IH]; auto.
  unfold expand in *. simpl. rewrite IH. reflexivity.
Qed.

Lemma conv_reps_expand : forall c fuel gs,
  Forall plain gs -> conv_reps fuel c gs = [] \/ expand (conv_reps fuel c gs) = gs.
Proof.
  intros c [|fuel] gs Hpl; [left; reflexivity|].
  destruct (conv_reps_S fuel c gs) as [E|E]; rewrite E; [left; reflexivity|right].
  rewrite expand_map_relabel.
  assert (H : expand (splice_all c (co_of c gs) (firstn (length gs) gs ++ [])) = gs).
  { apply splice_expand; auto.
    - apply co_of_chain.
    - apply Forall_forall. intros [[s e] p] Hin. eapply co_of_valid; eauto.
    - rewrite skipn_all. reflexivity. }
  rewrite firstn_all, app_nil_r in H. exact H.
Qed.

Theorem expand_convert : forall c cl,
  Forall plain cl -> expand (convert_repetitions c cl) = cl.
Proof.
  intros c cl Hpl. unfold convert_repetitions.
  destruct (conv_reps_expand c (S (length cl)) cl Hpl) as [E|E].
  - rewrite E. apply expand_plain. exact Hpl.
  - destruct (conv_reps (S (length cl)) c cl) as [|g r] eqn:Er; [apply expand_plain; exact Hpl|].
    exact E.
Qed.

(* nested version: at every depth, the repetitions vector of a grapheme is either empty or a
   re-bracketing of that grapheme's own characters *)
Inductive reps_ok : grapheme -> Prop :=
| reps_ok_intro : forall cs rs a b,
    (rs = [] \/ expand rs = map g_from cs) -> Forall reps_ok rs -> reps_ok (G cs rs a b).

Lemma conv_reps_reps_ok : forall c fuel gs, Forall reps_ok (conv_reps fuel c gs).
Proof.
  intros c. induction fuel as [|fuel IH]; intros gs; [constructor|].
  destruct (conv_reps_S fuel c gs) as [E|E]; rewrite E; [constructor|].
  apply Forall_map. apply Forall_forall. intros [cs rs a b] _. simpl.
  constructor; [|apply IH].
  apply conv_reps_expand. apply plain_map_g_from.
Qed.

Lemma plain_reps_ok : forall g, plain g -> reps_ok g.
Proof. intros g [s Hs]. subst. constructor; auto. Qed.

Theorem expand_convert_nested : forall c cl,
  Forall plain cl -> Forall reps_ok (convert_repetitions c cl).
Proof.
  intros c cl Hpl. unfold convert_repetitions.
  destruct (conv_reps (S (length cl)) c cl) as [|g r] eqn:E.
  - eapply Forall_impl; [|exact Hpl]. exact plain_reps_ok.
  - rewrite <- E. apply conv_reps_reps_ok.
Qed.

(* "reachable" formulation of the nested statement *)
Inductive reachable : grapheme -> grapheme -> Prop :=
| reach_here : forall g, reachable g g
| reach_rep : forall g h r, In r (g_reps g) -> reachable r h -> reachable g h.

Lemma reps_ok_reachable : forall g h, reachable g h -> reps_ok g ->
  g_reps h = [] \/ expand (g_reps h) = map g_from (g_chars h).
Proof.
  intros g h Hr. induction Hr as [g|g h r Hin Hr IH]; intros Hok.
  - inversion Hok; subst. simpl. assumption.
  - apply IH. inversion Hok as [cs rs a b _ Hall]; subst. simpl in Hin.
    rewrite Forall_forall in Hall. auto.
Qed.

Theorem expand_convert_reachable : forall c cl g h,
  Forall plain cl -> In g (convert_repetitions c cl) -> reachable g h ->
  g_reps h = [] \/ expand (g_reps h) = map g_from (g_chars h).
Proof.
  intros c cl g h Hpl Hin Hr. eapply reps_ok_reachable; eauto.
  pose proof (expand_convert_nested c cl Hpl) as HF. rewrite Forall_forall in HF. auto.
Qed.

(* ------------------------------------------------------------------ *)
(* Task 3: semantic corollary                                         *)
(* ------------------------------------------------------------------ *)

Lemma leq_refl : forall A, leq A A.
Proof. intros A u. tauto. Qed.

Lemma leq_sym : forall A B, leq A B -> leq B A.
Proof. intros A B H u. destruct (H u). tauto. Qed.

Lemma leq_trans : forall A B C, leq A B -> leq B C -> leq A C.
Proof. intros A B C H1 H2 u. destruct (H1 u), (H2 u). tauto. Qed.

Lemma lcat_leq : forall A A' B B', leq A A' -> leq B B' -> leq (lcat A B) (lcat A' B').
Proof.
  intros A A' B B' HA HB u; split; intros [v [w [Hu [Hv Hw]]]]; exists v, w;
    (split; [exact Hu|split; [apply HA; exact Hv|apply HB; exact Hw]]).
Qed.

Lemma lcat_eps_r : forall A, leq (lcat A leps) A.
Proof.
  intros A u; split.
  - intros [v [w [Hu [Hv Hw]]]]. unfold leps in Hw. subst. rewrite app_nil_r. exact Hv.
  - intros Hu. exists u, []. rewrite app_nil_r. repeat split; auto.
Qed.

Lemma lcat_eps_l : forall A, leq (lcat leps A) A.
Proof.
  intros A u; split.
  - intros [v [w [Hu [Hv Hw]]]]. unfold leps in Hv. subst. exact Hw.
  - intros Hu. exists [], u. repeat split; auto.
Qed.

Lemma lcat_assoc : forall A B C, leq (lcat (lcat A B) C) (lcat A (lcat B C)).
Proof.
  intros A B C u; split.
  - intros [vw [x [Hu [[v [w [Hvw [Hv Hw]]]] Hx]]]]. subst.
    exists v, (w ++ x). rewrite app_assoc. repeat split; auto.
    exists w, x. auto.
  - intros [v [wx [Hu [Hv [w [x [Hwx [Hw Hx]]]]]]]]. subst.
    exists (v ++ w), x. rewrite app_assoc. repeat split; auto.
    exists v, w. auto.
Qed.

Lemma lpow_leq : forall A B n, leq A B -> leq (lpow A n) (lpow B n).
Proof.
  intros A B n HAB. induction n as [|n IH]; simpl.
  - apply leq_refl.
  - apply lcat_leq; auto.
Qed.

Section Sem.
  Variable lit_den : cp -> cp -> Prop.
  Variable cls_den : cp -> cp -> Prop.

  Lemma L_cluster_app : forall a b,
    leq (L_cluster lit_den cls_den (a ++ b))
        (lcat (L_cluster lit_den cls_den a) (L_cluster lit_den cls_den b)).
  Proof.
    induction a as [|g a IH]; intros b; simpl.
    - apply leq_sym. apply lcat_eps_l.
    - eapply leq_trans; [apply lcat_leq; [apply leq_refl|apply IH]|].
      apply leq_sym. apply lcat_assoc.
  Qed.

  Lemma den_g_uniform : forall g, g_min g = g_max g ->
    leq (den_g lit_den cls_den g)
        (lpow (den_chars lit_den cls_den (g_chars g)) (N.to_nat (g_max g))).
  Proof.
    intros [cs rs a b] Hab. simpl in Hab. subst a. unfold den_g. simpl. intros u; split.
    - intros [k [Hk1 [Hk2 Hu]]]. assert (Hk : k = N.to_nat b) by lia. subst k. exact Hu.
    - intros Hu. exists (N.to_nat b). rewrite N2Nat.id. repeat split; auto; lia.
  Qed.

  Lemma den_g_from : forall s,
    leq (den_g lit_den cls_den (g_from s)) (den_str lit_den cls_den s).
  Proof.
    intros s. eapply leq_trans; [apply den_g_uniform; reflexivity|].
    simpl. change (Pos.to_nat 1) with 1. simpl.
    eapply leq_trans; [apply lcat_eps_r|]. apply lcat_eps_r.
  Qed.

  Lemma L_cluster_map_g_from : forall cs,
    leq (L_cluster lit_den cls_den (map g_from cs)) (den_chars lit_den cls_den cs).
  Proof.
    induction cs as [|s cs IH]; simpl.
    - apply leq_refl.
    - apply lcat_leq; [apply den_g_from|exact IH].
  Qed.

  Lemma L_cluster_concat_repeat : forall l n,
    leq (L_cluster lit_den cls_den (concat (repeat l n)))
        (lpow (L_cluster lit_den cls_den l) n).
  Proof.
    intros l. induction n as [|n IH]; simpl.
    - apply leq_refl.
    - eapply leq_trans; [apply L_cluster_app|]. apply lcat_leq; [apply leq_refl|exact IH].
  Qed.

  Lemma den_g_expand1 : forall g, g_min g = g_max g ->
    leq (den_g lit_den cls_den g) (L_cluster lit_den cls_den (expand1 g)).
  Proof.
    intros g Hg. eapply leq_trans; [apply den_g_uniform; exact Hg|].
    unfold expand1. apply leq_sym.
    eapply leq_trans; [apply L_cluster_concat_repeat|].
    apply lpow_leq. apply L_cluster_map_g_from.
  Qed.

  Lemma L_cluster_expand : forall cl,
    Forall (fun g => g_min g = g_max g) cl ->
    leq (L_cluster lit_den cls_den cl) (L_cluster lit_den cls_den (expand cl)).
  Proof.
    induction 1 as [|g cl Hg _ IH]; simpl.
    - apply leq_refl.
    - apply leq_sym. eapply leq_trans; [apply L_cluster_app|].
      apply leq_sym. apply lcat_leq; [apply den_g_expand1; exact Hg|exact IH].
  Qed.

  Theorem convert_repetitions_lang : forall c cl,
    Forall plain cl ->
    leq (L_cluster lit_den cls_den (convert_repetitions c cl)) (L_cluster lit_den cls_den cl).
  Proof.
    intros c cl Hpl.
    eapply leq_trans; [apply L_cluster_expand; apply convert_uniform; exact Hpl|].
    rewrite expand_convert by exact Hpl. apply leq_refl.
  Qed.
End Sem.

(* ------------------------------------------------------------------ *)
(* sanity checks                                                      *)
(* ------------------------------------------------------------------ *)

Example ex_abab :
  convert_repetitions default_cfg (map (fun x => g_from [x]) [97; 98; 97; 98]%N)
  = [G [[97]; [98]]%N [] 2 2].
Proof. vm_compute. reflexivity. Qed.

Print Assumptions convert_thresholds.
Print Assumptions convert_thresholds_strong.
Print Assumptions convert_uniform.
Print Assumptions convert_wf.
Print Assumptions convert_wf_strong.
Print Assumptions expand_convert.
Print Assumptions expand_convert_nested.
Print Assumptions expand_convert_reachable.
Print Assumptions convert_repetitions_lang.
