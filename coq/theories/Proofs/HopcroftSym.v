(* T3, first form: NO CERTIFICATE under symbol-determinism.  (Superseded for the pipeline by
   HopcroftAny.v, which needs no determinism once minimize pushes both halves of a split
   block; this file keeps the determinism-based argument, which also covers the smaller-half
   work-list rule, and provides the generic step "symbol-stable partition ==> cover +
   acyclic quotient" that HopcroftAny.v reuses.)

   HopcroftInv.v proves that the partition computed by the model's Hopcroft loop is stable
   for `trie_like` automata (uniform labels).  Its ghost-state argument (section Ghost) only
   needs that every state has at most one c-successor for every alphabet symbol c, where a
   c-edge is an edge whose label CONTAINS c (Dfa.label_match).  This file re-assembles the
   loop invariant under the weaker premises `trie_sym` (tree shape + symbol-determinism; the
   labels may be widened ranges) and derives, for tries built from uniform clusters WITH
   merging:

     sym_detb t                 executable: no state has two out-edges with the same characters
                                and overlapping ranges that lead to different states
     trie_alpha_cover           every symbol k of every (widened) edge label is in the alphabet
     partition_stable_cedge_sym the Hopcroft partition is stable for every alphabet symbol
     sym_stable t p             that property, as a definition
     stable_qcover              sym_stable ==> the representative covers every member
                                (MergeSound.qcover), for tries of uniform clusters
     stable_acyclic             sym_stable ==> the quotient is acyclic
     symdet_qcover, symdet_acyclic, final_expr_sound_symdet
                                the instances for symbol-deterministic tries. *)
From Grex Require Import Base.Str Model.Config Model.Cluster Model.Dfa Model.Expr.
From Grex Require Import Proofs.Lang Proofs.Spec Proofs.TrieLang Proofs.HopSets Proofs.HopcroftInv
  Proofs.TrieLikeOf Proofs.QuotientLang Proofs.MinimizeLang Proofs.ElimLang
  Proofs.NormaliseDet Proofs.ClustersSpec Proofs.Construction Proofs.PropsGlue Proofs.MergeSound.
From Grex Require Import Model.Pipeline.
From GrexGen Require Import GrexTables.

(* ====================================================================== *)
(* A. the Hopcroft invariant under symbol-determinism                      *)
(* ====================================================================== *)
Record trie_sym (d : dfa) : Prop := {
  ts_range : forall e, In e (d_edges d) -> e_dst e < d_n d;
  ts_n : 1 <= d_n d;
  (* tree shape: at most one incoming edge per state *)
  ts_in_unique : forall e1 e2, In e1 (d_edges d) -> In e2 (d_edges d) ->
                   e_dst e1 = e_dst e2 -> e1 = e2;
  (* at most one c-successor, for every alphabet symbol c *)
  ts_det : forall c, In c (d_alphabet d) ->
             forall s s1 s2, cedge (d_edges d) c s s1 -> cedge (d_edges d) c s s2 -> s1 = s2
}.

Section MainS.
  Variable d : dfa.
  Hypothesis TS : trie_sym d.

  Local Notation es := (d_edges d).
  Local Notation n := (d_n d).
  Local Notation fin := (d_finals d).
  Local Notation alpha := (d_alphabet d).

  Lemma cedge_range_s : forall c s s', cedge es c s s' -> s' < n.
  Proof.
    intros c s s' (e & A1 & A2 & A3 & A4). subst s'. apply (ts_range d TS e A1).
  Qed.

  Lemma astable_s : forall a c p s t s',
    same (sp_fst (parent_states es a c) p) s t -> cedge es c s s' -> In s' a ->
    exists t', cedge es c t t' /\ In t' a.
  Proof.
    intros a c p s t s' (B & HB & Hs & Ht) He Ha.
    assert (Hx : In s (parent_states es a c)).
    { apply parent_states_In; [apply (ts_in_unique d TS)|]. exists s'. auto. }
    destruct (sp_xstable _ _ _ HB) as [K|K].
    - apply K in Ht. apply parent_states_In in Ht; [|apply (ts_in_unique d TS)].
      destruct Ht as (t' & T1 & T2). exists t'. auto.
    - exfalso. exact (K _ Hs Hx).
  Qed.

  Definition Mid_s (a : block) (done rest : list grapheme) (p w : list block) : Prop :=
    Struct n fin p w /\ Frag p w a
    /\ (forall c, In c done -> LInv es c false p w a)
    /\ (forall c, In c rest -> LInv es c true p w a).

  Lemma fold_mid_s : forall a rest done p w,
    (forall c, In c rest -> In c alpha) -> Mid_s a done rest p w ->
    Struct n fin (fst (fold_left (refine_by es a) rest (p, w)))
                 (snd (fold_left (refine_by es a) rest (p, w)))
    /\ forall c, In c (done ++ rest) ->
         LInv es c false (fst (fold_left (refine_by es a) rest (p, w)))
                         (snd (fold_left (refine_by es a) rest (p, w))) a.
  Proof.
    intros a. induction rest as [|c0 rest IH]; intros done p w Hal (HS & HF & HD & HR).
    - simpl. split; [exact HS|]. intros c Hc. rewrite app_nil_r in Hc. auto.
    - cbn [fold_left]. rewrite refine_by_eq.
      destruct (refine_struct n fin (parent_states es a c0) p w HS) as [HS' R].
      pose proof (Frag_step _ _ _ _ a R HF) as HF'.
      specialize (IH (done ++ [c0]) (sp_fst (parent_states es a c0) p)
                     (update_worklist w (sp_snd (parent_states es a c0) p))).
      replace (done ++ c0 :: rest) with ((done ++ [c0]) ++ rest)
        by (rewrite <- app_assoc; reflexivity).
      apply IH.
      + intros c Hc. apply Hal. right. exact Hc.
      + split; [exact HS'|]. split; [exact HF'|]. split.
        * intros c Hc. apply in_app_or in Hc. destruct Hc as [Hc|[Hc|[]]].
          -- eapply LInv_step; eauto.
          -- subst c0. apply LInv_finish.
             ++ apply (ts_det d TS). apply Hal. left. reflexivity.
             ++ exact HF'.
             ++ eapply LInv_step; eauto. apply HR. left. reflexivity.
             ++ intros s t s'. apply astable_s.
        * intros c Hc. eapply LInv_step; eauto. apply HR. right. exact Hc.
  Qed.

  Definition Head_s (p w : list block) : Prop :=
    Struct n fin p w /\ forall c, In c alpha -> LInv es c false p w [].

  Lemma Head_step_s : forall a p w, Head_s p (a :: w) ->
    Head_s (fst (fold_left (refine_by es a) alpha (p, w)))
           (snd (fold_left (refine_by es a) alpha (p, w))).
  Proof.
    intros a p w [HS HL].
    pose proof (Struct_pop _ _ _ _ _ HS) as HS0.
    destruct (fold_mid_s a alpha [] p w) as [HS' HL'].
    - auto.
    - split; [exact HS0|]. split; [|split].
      + apply Frag_pop; [apply (st_disj _ _ _ _ HS)|].
        intros Hne. apply (st_w _ _ _ _ HS); [left; reflexivity|exact Hne].
      + intros c [].
      + intros c Hc. eapply LInv_pop. apply HL. exact Hc.
    - split; [exact HS'|]. intros c Hc. eapply LInv_false_irrel. apply HL'. exact Hc.
  Qed.

  Lemma Head_init_s : Head_s (initial_partition d) (initial_partition d).
  Proof.
    split; [apply Struct_init; apply (ts_n d TS)|]. intros c _. apply LInv_init.
  Qed.

  Lemma loop_result_s : exists p',
    hopcroft_loop (2 * n + 4) es alpha (initial_partition d) (initial_partition d) = Some p'
    /\ Head_s p' [].
  Proof.
    apply (loop_rule es alpha Head_s).
    - exact Head_step_s.
    - exact Head_init_s.
    - apply Phi_init.
  Qed.

  Lemma head_stable_s : forall p', Head_s p' [] ->
    forall c, In c alpha -> forall s t s', same p' s t -> cedge es c s s' ->
    exists t', cedge es c t t' /\ same p' s' t'.
  Proof.
    intros p' [HS HL] c Hc. eapply LInv_exit.
    - apply HL. exact Hc.
    - apply (HopSets.st_cover _ _ _ _ HS).
    - apply cedge_range_s.
  Qed.
End MainS.

Theorem partition_stable_cedge_sym : forall d p,
  trie_sym d -> partition_of d = Some p ->
  forall c, In c (d_alphabet d) ->
  forall s t s', same p s t -> cedge (d_edges d) c s s' ->
  exists t', cedge (d_edges d) c t t' /\ same p s' t'.
Proof.
  intros d p TS H c Hc s t s' Hst He.
  apply partition_of_inv in H. destruct H as (p' & Hl & ->).
  destruct (loop_result_s d TS) as (p'' & Hl' & HH). rewrite Hl in Hl'. inversion Hl'; subst p''.
  apply (proj2 (same_filter _ _ _)) in Hst.
  destruct (head_stable_s d TS p' HH c Hc s t s' Hst He) as (t' & T1 & T2).
  exists t'. split; [exact T1|]. apply (proj1 (same_filter _ _ _)). exact T2.
Qed.

(* ====================================================================== *)
(* B. tries with merging                                                   *)
(* ====================================================================== *)

(* ---------- B1. every symbol of every edge label is in the alphabet ---------- *)
Definition sym_in (al : list grapheme) (cs : list str) (k : N) : Prop :=
  exists c, In c al /\ g_chars c = cs /\ g_min c = k /\ g_max c = k.

Definition edges_alpha (es : list edge) (P : list str -> N -> Prop) : Prop :=
  forall e, In e es -> forall k, (g_min (e_lbl e) <= k)%N -> (k <= g_max (e_lbl e))%N ->
    P (g_chars (e_lbl e)) k.

Lemma step_alpha : forall (P : list str -> N -> Prop) st cur g st' nx,
  uniform_g g -> step_insert st cur g = Some (st', nx) ->
  edges_alpha (t_edges st) P -> P (g_chars g) (g_max g) ->
  edges_alpha (t_edges st') P.
Proof.
  intros P st cur g st' nx Hu H HE Hg. unfold uniform_g in Hu.
  destruct (step_cases _ _ _ _ _ H) as [(-> & _)|[(cg & F & Hc & Hm & ->)|(-> & ->)]].
  - exact HE.
  - apply find_edge_some3 in F as F'. destruct F' as (Hin & _ & _).
    destruct (update_edge_spec _ _ _ (widened cg g) _ F) as (_ & _ & I3).
    simpl. intros e He k K1 K2. destruct (I3 _ He) as [Hy|Hy].
    + subst e. unfold e_lbl in *; simpl in *. unfold widened, g_new in *; simpl in *.
      destruct (N.eq_dec k (g_max g)) as [->|Hne]; [exact Hg|].
      rewrite <- Hc. apply (HE (cur, nx, cg) Hin k); unfold e_lbl; simpl; lia.
    + apply (HE e Hy k K1 K2).
  - simpl. intros e He k K1 K2. apply in_app_or in He. destruct He as [He|[He|[]]].
    + apply (HE e He k K1 K2).
    + subst e. unfold e_lbl in *; simpl in *. assert (k = g_max g) by lia. subst k. exact Hg.
Qed.

Lemma path_alpha : forall (P : list str -> N -> Prop) gs st cur st' last,
  Forall uniform_g gs -> insert_path st cur gs = Some (st', last) ->
  edges_alpha (t_edges st) P -> (forall g, In g gs -> P (g_chars g) (g_max g)) ->
  edges_alpha (t_edges st') P.
Proof.
  intros P. induction gs as [|g gs IH]; intros st cur st' last Hu H HE Hg; simpl in H.
  - inversion H; subst. exact HE.
  - destruct (step_insert st cur g) as [[st1 nx]|] eqn:S; [|discriminate].
    inversion Hu as [|? ? Hu1 Hu2]; subst.
    eapply IH; [exact Hu2|exact H| |].
    + eapply step_alpha; [exact Hu1|exact S|exact HE|]. apply Hg. left; reflexivity.
    + intros g0 Hg0. apply Hg. right; exact Hg0.
Qed.

Lemma acc_alpha : forall cls a,
  Forall (Forall uniform_g) cls -> trie_acc_of cls = Some a ->
  edges_alpha (t_edges (ta_st a)) (sym_in (ta_alpha a))
  /\ forall c, In c (ta_alpha a) -> uniform_g c.
Proof.
  induction cls as [|cl0 cls IH] using rev_ind; intros a Hu H.
  - unfold trie_acc_of in H; simpl in H. inversion H; subst. simpl.
    split; [intros e []|intros c []].
  - apply trie_acc_snoc_inv in H. destruct H as (a0 & st' & last & H0 & P & ->).
    apply Forall_app in Hu. destruct Hu as [Hu1 Hu2]. inversion Hu2 as [|? ? Hu3 _]; subst.
    destruct (IH _ Hu1 H0) as [HE HU]. simpl. split.
    + apply (path_alpha _ cl0 (ta_st a0) 0 st' last Hu3 P).
      * intros e He k K1 K2. destruct (HE e He k K1 K2) as (c & C1 & C2).
        exists c. split; [apply (alpha_fold_keep cl0); exact C1|exact C2].
      * intros g Hg. destruct (alpha_fold_has cl0 (ta_alpha a0) g Hg) as (c & C1 & (C2 & C3 & C4)).
        rewrite Forall_forall in Hu3. pose proof (Hu3 g Hg) as Ug. unfold uniform_g in Ug.
        exists c. split; [exact C1|]. split; [auto|]. split; congruence.
    + intros c Hc. apply (alpha_fold_in cl0) in Hc. destruct Hc as [Hc|Hc]; [|auto].
      rewrite Forall_forall in Hu3. auto.
Qed.

Theorem trie_alpha_cover : forall cls t,
  Forall (Forall uniform_g) cls -> trie_of cls = Some t ->
  (forall e, In e (d_edges t) -> forall k,
     (g_min (e_lbl e) <= k)%N -> (k <= g_max (e_lbl e))%N ->
     exists c, In c (d_alphabet t) /\ g_chars c = g_chars (e_lbl e) /\ g_min c = k /\ g_max c = k)
  /\ (forall c, In c (d_alphabet t) -> uniform_g c).
Proof.
  intros cls t Hu H. apply trie_of_inv in H. destruct H as (a & Ha & ->). simpl.
  destruct (acc_alpha cls a Hu Ha) as [HE HU]. split; [|exact HU].
  intros e He k K1 K2. apply (HE e He k K1 K2).
Qed.

(* ---------- B2. the executable symbol-determinism test ---------- *)
Definition overlapb (g h : grapheme) : bool :=
  strs_eqb (g_chars g) (g_chars h)
  && N.leb (N.max (g_min g) (g_min h)) (N.min (g_max g) (g_max h)).

Definition sym_detb (d : dfa) : bool :=
  forallb (fun e1 =>
     forallb (fun e2 => negb (Nat.eqb (e_src e1) (e_src e2) && overlapb (e_lbl e1) (e_lbl e2))
                        || Nat.eqb (e_dst e1) (e_dst e2)) (d_edges d)) (d_edges d).

Lemma label_match_spec : forall g c, label_match g c = true ->
  g_chars g = g_chars c /\ (g_min g <= g_min c)%N /\ (g_max c <= g_max g)%N.
Proof.
  intros g c H. unfold label_match in H.
  apply andb_true_iff in H. destruct H as [H H3].
  apply andb_true_iff in H. destruct H as [H1 H2].
  apply strs_eqb_eq in H1. apply N.leb_le in H2. apply N.leb_le in H3. auto.
Qed.

Lemma label_match_intro : forall g c,
  g_chars g = g_chars c -> (g_min g <= g_min c)%N -> (g_max c <= g_max g)%N ->
  label_match g c = true.
Proof.
  intros g c H1 H2 H3. unfold label_match. rewrite H1, HopcroftInv.strs_eqb_refl.
  apply N.leb_le in H2. apply N.leb_le in H3. rewrite H2, H3. reflexivity.
Qed.

Lemma sym_detb_spec : forall d, sym_detb d = true ->
  forall c, (g_min c <= g_max c)%N ->
  forall s s1 s2, cedge (d_edges d) c s s1 -> cedge (d_edges d) c s s2 -> s1 = s2.
Proof.
  intros d H c Hc s s1 s2 (e1 & A1 & A2 & A3 & A4) (e2 & B1 & B2 & B3 & B4).
  unfold sym_detb in H. rewrite forallb_forall in H. specialize (H e1 A1).
  rewrite forallb_forall in H. specialize (H e2 B1).
  apply label_match_spec in A4. destruct A4 as (C1 & C2 & C3).
  apply label_match_spec in B4. destruct B4 as (D1 & D2 & D3).
  assert (O : overlapb (e_lbl e1) (e_lbl e2) = true).
  { unfold overlapb. rewrite C1, <- D1, HopcroftInv.strs_eqb_refl. apply N.leb_le. lia. }
  rewrite A2, B2, Nat.eqb_refl, O in H. simpl in H. apply Nat.eqb_eq in H. congruence.
Qed.

(* ---------- B3. tries are trie_sym when the test passes ---------- *)
Theorem trie_sym_of_trie : forall cls t,
  Forall wf_cluster cls -> Forall (Forall uniform_g) cls ->
  trie_of cls = Some t -> sym_detb t = true -> trie_sym t.
Proof.
  intros cls t Hwf Hu Ht Hd.
  pose proof (trie_wf cls t Hwf Ht) as Hwt. pose proof (trie_shape cls t Ht) as Hsh.
  destruct (trie_alpha_cover cls t Hu Ht) as [_ HU].
  constructor.
  - intros e He. apply (wf_dfa_edge t e Hwt He).
  - destruct Hwt as (_ & Hi & _). lia.
  - apply (sh_unique_in t Hsh).
  - intros c Hc. apply (sym_detb_spec t Hd). pose proof (HU c Hc) as Uc. unfold uniform_g in Uc.
    rewrite Uc. apply N.le_refl.
Qed.

(* ====================================================================== *)
(* C. from symbol-stability to the cover property and acyclicity           *)
(* ====================================================================== *)
(* the partition p is stable for every alphabet symbol *)
Definition sym_stable (t : dfa) (p : list block) : Prop :=
  forall c, In c (d_alphabet t) ->
  forall s u s', same p s u -> cedge (d_edges t) c s s' ->
  exists t', cedge (d_edges t) c u t' /\ same p s' t'.

Section FromStable.
  Variables (cls : list cluster) (t : dfa) (p : list block).
  Hypothesis Hwf : Forall wf_cluster cls.
  Hypothesis Hun : Forall (Forall uniform_g) cls.
  Hypothesis Htrie : trie_of cls = Some t.
  Hypothesis Hp : partition_of t = Some p.
  Hypothesis ST : sym_stable t p.

  Let Hwt : wf_dfa t := trie_wf cls t Hwf Htrie.
  Let Hsh : tree_shape t := trie_shape cls t Htrie.

  Lemma trie_n_pos : 1 <= d_n t.
  Proof. destruct Hwt as (_ & Hi & _). lia. Qed.

  Lemma part_facts :
    (forall B, In B p ->
       B <> [] /\ (forall s, In s B -> s < d_n t)
       /\ (forall s u, In s B -> In u B -> set_mem s (d_finals t) = set_mem u (d_finals t)))
    /\ pdisj p
    /\ (forall s, s < d_n t -> exists B, In B p /\ In s B).
  Proof.
    destruct (partition_is_partition_any t p trie_n_pos Hp) as (HB & Hd & Hc).
    split; [|split; [exact Hd|exact Hc]].
    intros B HBp. destruct (HB B HBp) as (H1 & _ & H3 & H4). auto.
  Qed.

  (* block numbers *)
  Lemma bi_of : forall s, s < d_n t ->
    exists i B, nth_error p i = Some B /\ In B p /\ In s B /\ block_index s p 0 = Some i.
  Proof.
    intros s Hs. destruct part_facts as (_ & Hd & Hc).
    destruct (Hc s Hs) as (B & HB & HsB).
    destruct (In_nth_error _ _ HB) as [i Hi].
    exists i, B. split; [exact Hi|]. split; [exact HB|]. split; [exact HsB|].
    apply (block_index_nth p i B s 0 Hd Hi HsB).
  Qed.

  Lemma same_bi : forall s u j, same p s u -> block_index s p 0 = Some j ->
    block_index u p 0 = Some j.
  Proof.
    intros s u j (B & HB & Hs & Hu) Hj. destruct part_facts as (_ & Hd & _).
    rewrite <- (block_index_same p B s u 0 Hd HB Hs Hu). exact Hj.
  Qed.

  (* the symbol (chars of e, k) as an alphabet element, and e as a c-edge *)
  Lemma edge_symbol : forall e k, In e (d_edges t) ->
    (g_min (e_lbl e) <= k)%N -> (k <= g_max (e_lbl e))%N ->
    exists c, In c (d_alphabet t) /\ g_chars c = g_chars (e_lbl e) /\ g_min c = k /\ g_max c = k
              /\ cedge (d_edges t) c (e_src e) (e_dst e).
  Proof.
    intros e k He K1 K2. destruct (trie_alpha_cover cls t Hun Htrie) as [HA _].
    destruct (HA e He k K1 K2) as (c & C1 & C2 & C3 & C4).
    exists c. split; [exact C1|]. split; [exact C2|]. split; [exact C3|]. split; [exact C4|].
    exists e. split; [exact He|]. split; [reflexivity|]. split; [reflexivity|].
    apply label_match_intro; [congruence|lia|lia].
  Qed.

  (* a c-edge out of r, as the edge recreate_graph looks up *)
  Lemma cedge_find : forall c r t',
    cedge (d_edges t) c r t' ->
    exists e', In t' (neighbors (d_edges t) r) /\ find_edge (d_edges t) r t' = Some e'
               /\ In e' (d_edges t) /\ e_src e' = r /\ e_dst e' = t'
               /\ label_match (e_lbl e') c = true.
  Proof.
    intros c r t' (e & E1 & E2 & E3 & E4).
    assert (Hnb : In t' (neighbors (d_edges t) r)).
    { rewrite <- E2, <- E3. apply QuotientLang.in_neighbors. exact E1. }
    destruct (find_edge_neighbor _ _ _ Hnb) as [e' F].
    destruct (find_edge_some _ _ _ _ F) as (F1 & F2 & F3).
    assert (e' = e) by (apply (sh_unique_in t Hsh); auto; congruence). subst e'.
    exists e. auto 10.
  Qed.

  Theorem stable_qcover : qcover t p.
  Proof.
    destruct part_facts as (HB & Hd & Hc).
    constructor.
    - intros j s u Hs Hu.
      destruct (block_index_some0 _ _ _ Hs) as (b & Hn & Hsb).
      destruct (block_index_some0 _ _ _ Hu) as (b' & Hn' & Hub).
      assert (b' = b) by congruence. subst b'.
      destruct (HB b (nth_error_In _ _ Hn)) as (_ & _ & HF).
      rewrite <- !set_mem_in. rewrite (HF s u Hsb Hub). tauto.
    - intros e He. destruct (wf_dfa_edge t e Hwt He) as (Hs & Hm & _).
      destruct (bi_of _ Hs) as (i & B & Hi & HBp & HsB & Bs).
      destruct (bi_of _ Hm) as (j & B' & Hj & HBp' & HmB & Bm).
      destruct (HB B HBp) as (Hne & _ & _).
      destruct B as [|r B0] eqn:EB; [congruence|]. rewrite <- EB in *.
      assert (HrB : In r B) by (rewrite EB; left; reflexivity).
      exists i, B, r, j. split; [exact Bs|]. split; [exact HBp|].
      split; [rewrite EB; reflexivity|].
      split; [apply (block_index_nth p i B r 0 Hd Hi HrB)|]. split; [exact Bm|].
      intros k K1 K2.
      destruct (edge_symbol e k He K1 K2) as (c & C1 & C2 & C3 & C4 & CE).
      assert (Hsr : same p (e_src e) r) by (exists B; auto).
      destruct (ST c C1 (e_src e) r (e_dst e) Hsr CE) as (t' & T1 & T2).
      destruct (cedge_find c r t' T1) as (e' & Hnb & F & _ & _ & _ & LM).
      apply label_match_spec in LM. destruct LM as (L1 & L2 & L3).
      exists t', e'. split; [exact Hnb|]. split; [exact F|]. split; [congruence|].
      split; [lia|]. split; [lia|]. apply (same_bi (e_dst e) t' j T2 Bm).
  Qed.

  Theorem stable_acyclic : forall d1, recreate_graph t p = Some d1 -> acyclic d1.
  Proof.
    intros d1 Hrg. destruct part_facts as (HB & Hd & Hc).
    destruct (tree_shape_acyclic t Hsh) as [rank Hrank].
    exists (fun i => match nth_error p i with Some b => bmin rank b | None => 0 end).
    intros [[i j] h] Hin. unfold e_src, e_dst; simpl.
    pose proof (proj1 (proj1 (proj2 (proj2 (recreate_graph_inv t p d1 Hrg))) _) Hin) as Hx.
    destruct Hx as (b & rep & i1 & tgt & e0 & j1 & Hb & Hm & Hbi & _ & F & Hbt & Hx).
    inversion Hx; subst i1 j1 h. clear Hx.
    destruct (block_index_some0 _ _ _ Hbi) as (bi_ & Hnth & Hrep).
    assert (Hbip : In bi_ p) by (eapply nth_error_In; exact Hnth).
    destruct (HB bi_ Hbip) as (Hne & _ & _).
    destruct (bmin_attained rank bi_ Hne) as (s & Hs & Es).
    destruct (find_edge_some _ _ _ _ F) as (He0 & Hs0 & Hd0).
    destruct (wf_dfa_edge t e0 Hwt He0) as (_ & _ & Hg). apply wf_g_proj in Hg.
    destruct Hg as (_ & _ & _ & Hle).
    destruct (edge_symbol e0 (g_min (e_lbl e0)) He0 (N.le_refl _) Hle)
      as (c & C1 & _ & _ & _ & CE).
    rewrite Hs0, Hd0 in CE.
    assert (Hrs : same p rep s) by (exists bi_; auto).
    destruct (ST c C1 rep s tgt Hrs CE) as (t' & T1 & T2).
    destruct T1 as (e & E1 & E2 & E3 & _).
    pose proof (same_bi tgt t' j T2 Hbt) as Bt'.
    destruct (block_index_some0 _ _ _ Bt') as (bj & Hnthj & Hinj).
    rewrite Hnth, Hnthj. pose proof (bmin_le rank bj _ Hinj). pose proof (Hrank e E1).
    rewrite E2, E3 in *. lia.
  Qed.
End FromStable.

Theorem symdet_stable : forall cls t p,
  Forall wf_cluster cls -> Forall (Forall uniform_g) cls ->
  trie_of cls = Some t -> sym_detb t = true -> partition_of t = Some p -> sym_stable t p.
Proof.
  intros cls t p Hwf Hun Ht Hd Hp.
  exact (partition_stable_cedge_sym t p (trie_sym_of_trie cls t Hwf Hun Ht Hd) Hp).
Qed.

Theorem symdet_qcover : forall cls t p,
  Forall wf_cluster cls -> Forall (Forall uniform_g) cls ->
  trie_of cls = Some t -> sym_detb t = true -> partition_of t = Some p -> qcover t p.
Proof.
  intros cls t p Hwf Hun Ht Hd Hp.
  exact (stable_qcover cls t p Hwf Hun Ht Hp (symdet_stable cls t p Hwf Hun Ht Hd Hp)).
Qed.

Theorem symdet_acyclic : forall cls t p,
  Forall wf_cluster cls -> Forall (Forall uniform_g) cls ->
  trie_of cls = Some t -> sym_detb t = true -> partition_of t = Some p ->
  forall d1, recreate_graph t p = Some d1 -> acyclic d1.
Proof.
  intros cls t p Hwf Hun Ht Hd Hp.
  exact (stable_acyclic cls t p Hwf Hun Ht Hp (symdet_stable cls t p Hwf Hun Ht Hd Hp)).
Qed.

(* ====================================================================== *)
(* D. the pipeline without certificate                                     *)
(* ====================================================================== *)
Definition merge_detb (cls : list cluster) : bool :=
  match trie_of cls with
  | Some t => sym_detb t
  | None => false
  end.

Theorem symdet_min_ok : forall cls,
  Forall wf_cluster cls -> Forall (Forall uniform_g) cls ->
  merge_detb cls = true -> min_ok cls.
Proof.
  intros cls Hwf Hun H t p d1 Ht Hp Hrg. unfold merge_detb in H. rewrite Ht in H.
  split.
  - exact (symdet_qcover cls t p Hwf Hun Ht H Hp).
  - exact (symdet_acyclic cls t p Hwf Hun Ht H Hp d1 Hrg).
Qed.

Section S.
  Variables lit_den cls_den : cp -> cp -> Prop.

  Theorem final_expr_sound_symdet : forall c db sc ws e,
    ws <> [] ->
    oracle_ok db (normalise c db ws) ->
    merge_detb (grapheme_clusters c db (normalise c db ws)) = true ->
    Pipeline.final_expr c (grapheme_clusters c db (normalise c db ws)) sc = Some e ->
    forall u, Spec lit_den cls_den c db ws u ->
      (u <> [] \/ K4 (normalise c db ws) = false) -> L_expr lit_den cls_den e u.
  Proof.
    intros c db sc ws e Hws Hok Hd. apply final_expr_sound_core; auto.
    apply symdet_min_ok; [apply grapheme_clusters_wf|apply grapheme_clusters_uniform|exact Hd].
  Qed.

  Theorem sound_expr_symdet : forall c db sc ws e t,
    ws <> [] ->
    oracle_ok db (normalise c db ws) ->
    merge_detb (grapheme_clusters c db (normalise c db ws)) = true ->
    Pipeline.final_expr c (grapheme_clusters c db (normalise c db ws)) sc = Some e ->
    In t ws ->
    let t' := if f_ci c then lower' db t else t in
    (t' <> [] \/ K4 (normalise c db ws) = false) ->
    Spec_str lit_den cls_den c t' t' ->
    L_expr lit_den cls_den e t'.
  Proof.
    intros c db sc ws e t Hws Hok Hd He Ht t' Hside Hself.
    apply (final_expr_sound_symdet c db sc ws e Hws Hok Hd He t'); [|exact Hside].
    exists t'. split; [apply in_cases; exact Ht|exact Hself].
  Qed.
End S.

Check partition_stable_cedge_sym.
Check trie_alpha_cover.
Check symdet_qcover.
Check symdet_acyclic.
Check final_expr_sound_symdet.
Print Assumptions partition_stable_cedge_sym.
Print Assumptions final_expr_sound_symdet.
Print Assumptions sound_expr_symdet.
