(* Languages over code points and the denotations of the model's data:
   strings with class tokens, graphemes, clusters, expressions, automata.
   Languages are predicates compared pointwise (leq), so no extensionality axiom is needed. *)
From Grex Require Import Base.Str Model.Config Model.Cluster Model.Dfa Model.Expr.

Definition lang := str -> Prop.
Definition leq (A B : lang) : Prop := forall u, A u <-> B u.
Definition lsub (A B : lang) : Prop := forall u, A u -> B u.
Definition leps : lang := fun u => u = [].
Definition lempty : lang := fun _ => False.
Definition lcat (A B : lang) : lang := fun u => exists v w, u = v ++ w /\ A v /\ B w.
Definition lunion (A B : lang) : lang := fun u => A u \/ B u.
Fixpoint lpow (A : lang) (n : nat) : lang :=
  match n with O => leps | S n' => lcat A (lpow A n') end.
Definition lstar (A : lang) : lang := fun u => exists n, lpow A n u.
Definition lopt (A : lang) : lang := lunion leps A.
Definition lone (P : cp -> Prop) : lang := fun u => exists x, u = [x] /\ P x.

Section Den.
  (* lit_den c x: the literal code point c accepts x (equality, or equality up to the engine's
     simple case folding under (?i)); cls_den l x: the shorthand class with letter l accepts x *)
  Variable lit_den : cp -> cp -> Prop.
  Variable cls_den : cp -> cp -> Prop.

  Definition is_class_letter (l : cp) : bool :=
    mem_cp l [100; 68; 119; 87; 115; 83]%N.      (* d D w W s S *)

  (* a string of the model: literal code points and class tokens \d \D \w \W \s \S; a lone
     backslash (the whole string) is a literal backslash *)
  Fixpoint den_str (s : str) : lang :=
    match s with
    | [] => leps
    | c :: s' =>
        match s' with
        | l :: s'' =>
            if N.eqb c c_backslash && is_class_letter l
            then lcat (lone (cls_den l)) (den_str s'')
            else lcat (lone (lit_den c)) (den_str s')
        | [] => lone (lit_den c)
        end
    end.

  Fixpoint den_chars (cs : list str) : lang :=
    match cs with
    | [] => leps
    | s :: cs' => lcat (den_str s) (den_chars cs')
    end.

  (* a grapheme stands for its characters repeated min..=max times *)
  Definition den_g (g : grapheme) : lang :=
    fun u => exists k : nat, (g_min g <= N.of_nat k)%N /\ (N.of_nat k <= g_max g)%N
                             /\ lpow (den_chars (g_chars g)) k u.

  Fixpoint L_cluster (cl : cluster) : lang :=
    match cl with
    | [] => leps
    | g :: cl' => lcat (den_g g) (L_cluster cl')
    end.

  Definition L_clusters (cls : list cluster) : lang :=
    fun u => exists cl, In cl cls /\ L_cluster cl u.

  Fixpoint L_expr (e : expr) : lang :=
    match e with
    | EAlt os =>
        (fix go (l : list expr) : lang :=
           match l with
           | [] => lempty
           | o :: l' => lunion (L_expr o) (go l')
           end) os
    | ECC cs => fun u => exists c, In c cs /\ lone (lit_den c) u
    | ECat a b => lcat (L_expr a) (L_expr b)
    | ELit cl => L_cluster cl
    | ERep e' QQuestion => lopt (L_expr e')
    | ERep e' QStar => lstar (L_expr e')
    end.

  Definition L_alts (os : list expr) : lang := fun u => exists o, In o os /\ L_expr o u.

  Definition L_oexpr (o : option expr) : lang :=
    match o with Some e => L_expr e | None => lempty end.

  (* accepting paths of an automaton: concatenated label denotations *)
  Inductive path (es : list edge) : nat -> str -> nat -> Prop :=
  | path_nil : forall s, path es s [] s
  | path_step : forall s m t g v w,
      In (s, m, g) es -> den_g g v -> path es m w t -> path es s (v ++ w) t.

  Definition L_from (d : dfa) (s : nat) : lang :=
    fun u => exists t, In t (d_finals d) /\ path (d_edges d) s u t.
  Definition L_dfa (d : dfa) : lang := L_from d (d_init d).
End Den.

(* ---------- well-formedness ---------- *)
Definition wf_g (g : grapheme) : Prop :=
  match g with
  | G cs rs a b =>
      cs <> [] /\ Forall (fun s => s <> []) cs /\ (1 <= a)%N /\ (a <= b)%N
  end.
Definition wf_cluster (cl : cluster) : Prop := Forall wf_g cl.

Fixpoint wf_expr (e : expr) : Prop :=
  match e with
  | EAlt os => (fix go (l : list expr) : Prop :=
                  match l with [] => True | o :: l' => wf_expr o /\ go l' end) os
  | ECC _ => True
  | ECat a b => wf_expr a /\ wf_expr b
  | ELit cl => wf_cluster cl
  | ERep e' _ => wf_expr e'
  end.
Definition wf_oexpr (o : option expr) : Prop := match o with Some e => wf_expr e | None => True end.

Definition wf_dfa (d : dfa) : Prop :=
  Forall (fun e : edge => e_src e < d_n d /\ e_dst e < d_n d /\ wf_g (e_lbl e)) (d_edges d)
  /\ d_init d < d_n d /\ Forall (fun s => s < d_n d) (d_finals d).
