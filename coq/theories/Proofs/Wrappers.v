(* Wrappers: builder histories (C10), command line (C12), Python binding (C14), wasm binding (C17).
   Definitions: Model/History.v, Model/PyRewrite.v.  The setters, the CLI flag handling, the
   bindings and their constants are GENERATED from the Rust source (gen/Src*.v); the proofs below
   are by case analysis on whatever constructors are there, and break if the source semantics
   changes. *)
From Coq Require Import List NArith ZArith Bool Arith Lia.
From Grex Require Import Base.Str Model.Config Model.Builder Model.Expr Model.Print Model.Pipeline
                         Model.History Model.PyRewrite.
From Grex Require Import Proofs.NormaliseDet.
From GrexGen Require Import SrcConsts SrcBuilder SrcCli SrcPython SrcWasm.
Import ListNotations.

(* ==================================================================================== *)
(* PART A — builder histories *)
(* ==================================================================================== *)

(* ------------------------------------------------------------------------------------ *)
(* A1: no setter clears a flag                                                          *)
(* ------------------------------------------------------------------------------------ *)

Ltac setter_cases s H :=
  destruct s; simpl in H;
  repeat match type of H with
         | context [if ?b then _ else _] => destruct b
         end;
  inversion H; subst; clear H; simpl.

Lemma setter_ci_mono : forall s c c',
  apply_setter s c = inl c' -> f_ci c = true -> f_ci c' = true.
Proof. intros s c c' H Hci. setter_cases s H; exact Hci || reflexivity. Qed.

(* every boolean flag except f_sur is monotone *)
Definition flags_le (c c' : cfg) : Prop :=
  (f_digit c = true -> f_digit c' = true) /\
  (f_non_digit c = true -> f_non_digit c' = true) /\
  (f_space c = true -> f_space c' = true) /\
  (f_non_space c = true -> f_non_space c' = true) /\
  (f_word c = true -> f_word c' = true) /\
  (f_non_word c = true -> f_non_word c' = true) /\
  (f_rep c = true -> f_rep c' = true) /\
  (f_ci c = true -> f_ci c' = true) /\
  (f_cap c = true -> f_cap c' = true) /\
  (f_esc c = true -> f_esc c' = true) /\
  (f_verbose c = true -> f_verbose c' = true) /\
  (f_no_start c = true -> f_no_start c' = true) /\
  (f_no_end c = true -> f_no_end c' = true) /\
  (f_colour c = true -> f_colour c' = true).

Lemma setter_flags_mono : forall s c c', apply_setter s c = inl c' -> flags_le c c'.
Proof.
  intros s c c' H. unfold flags_le.
  setter_cases s H; repeat split; intro Hx; exact Hx || reflexivity.
Qed.

(* f_sur is NOT monotone: a second with_escaping_of_non_ascii_chars(false) clears it *)
Lemma setter_sur_not_mono :
  exists s c c', apply_setter s c = inl c' /\ f_sur c = true /\ f_sur c' = false.
Proof.
  exists (with_escaping_of_non_ascii_chars false).
  exists (set_f_sur true src_default_cfg).
  eexists. split; [reflexivity|]. split; reflexivity.
Qed.

(* a threshold that is set is positive; thresholds of the default configuration are positive *)
Lemma setter_thresholds_pos : forall s c c',
  apply_setter s c = inl c' ->
  (min_rep c <> 0 -> min_rep c' <> 0)%N /\ (min_len c <> 0 -> min_len c' <> 0)%N.
Proof.
  intros s c c' H.
  destruct s; simpl in H;
    try (inversion H; subst; clear H; simpl; split; intro Hx; exact Hx);
    match type of H with
    | context [N.eqb ?q 0] =>
        destruct (N.eqb q 0) eqn:E; inversion H; subst; clear H; simpl;
        apply N.eqb_neq in E; split; intro Hx; assumption
    end.
Qed.

(* ------------------------------------------------------------------------------------ *)
(* A5: order of settings, idempotence                                                   *)
(* ------------------------------------------------------------------------------------ *)

Definition then2 (s1 s2 : setter) (c : cfg) : cfg + list N :=
  bind_cfg (apply_setter s1 c) (apply_setter s2).

(* EXACTLY the pairs that commute (see setters_commute_iff).  Two setters fail to commute only
   if they write the same field with different values — and, for the panicking setters, if both
   panic (then the message of the FIRST call is reported, so the order is observable). *)
Definition compatible (s1 s2 : setter) : bool :=
  match s1, s2 with
  | with_minimum_repetitions q1, with_minimum_repetitions q2 =>
      N.eqb q1 q2 || N.eqb q1 0 || N.eqb q2 0
  | with_minimum_substring_length q1, with_minimum_substring_length q2 =>
      N.eqb q1 q2 || N.eqb q1 0 || N.eqb q2 0
  | with_minimum_repetitions q1, with_minimum_substring_length q2 =>
      negb (N.eqb q1 0 && N.eqb q2 0)
  | with_minimum_substring_length q1, with_minimum_repetitions q2 =>
      negb (N.eqb q1 0 && N.eqb q2 0)
  | with_escaping_of_non_ascii_chars b1, with_escaping_of_non_ascii_chars b2 => Bool.eqb b1 b2
  | _, _ => true
  end.

(* the simple sufficient condition of the property statement: different methods, or the same
   method with the same argument, and no panic *)
Definition same_method (s1 s2 : setter) : bool :=
  match s1, s2 with
  | with_minimum_repetitions _, with_minimum_repetitions _ => true
  | with_minimum_substring_length _, with_minimum_substring_length _ => true
  | with_escaping_of_non_ascii_chars _, with_escaping_of_non_ascii_chars _ => true
  | _, _ => false
  end.

(* case analysis on every `q =? 0` test of the goal (and of H), whatever q is called *)
Ltac split_eqb0 H :=
  repeat first
    [ match goal with
      | |- context [N.eqb ?q 0] =>
          is_var q; revert H; destruct (N.eqb q 0) eqn:?; intro H; simpl in H |- *
      end
    | match type of H with
      | context [N.eqb ?q 0] =>
          is_var q; revert H; destruct (N.eqb q 0) eqn:?; intro H; simpl in H |- *
      end ].

Theorem setters_commute : forall s1 s2 c,
  compatible s1 s2 = true -> then2 s1 s2 c = then2 s2 s1 c.
Proof.
  intros s1 s2 c H. unfold then2.
  destruct s1, s2; simpl in H |- *; try reflexivity;
    split_eqb0 H; try reflexivity; try discriminate H; try congruence;
    try (rewrite ?orb_false_r in H; apply N.eqb_eq in H; subst; reflexivity);
    try (apply Bool.eqb_prop in H; subst; reflexivity).
Qed.

(* ... and `compatible` is exact: incompatible pairs are distinguished already from the
   default configuration *)
Theorem setters_commute_iff : forall s1 s2,
  compatible s1 s2 = true <-> (forall c, then2 s1 s2 c = then2 s2 s1 c).
Proof.
  intros s1 s2. split; [intros H c; apply setters_commute; exact H|].
  intro H. specialize (H src_default_cfg). unfold then2 in H.
  destruct s1, s2; simpl in H |- *; try reflexivity;
    split_eqb0 H; try reflexivity; try discriminate H; try congruence;
    try (inversion H; subst; rewrite N.eqb_refl; reflexivity);
    try (rewrite ?orb_true_r; reflexivity);
    try (repeat match goal with b : bool |- _ => destruct b end;
         try reflexivity; discriminate H).
Qed.

(* the excluded pairs really do not commute *)
Example setters_cex_thresholds :
  then2 (with_minimum_repetitions 2) (with_minimum_repetitions 3) src_default_cfg <>
  then2 (with_minimum_repetitions 3) (with_minimum_repetitions 2) src_default_cfg.
Proof. vm_compute. discriminate. Qed.
Example setters_cex_escaping :
  then2 (with_escaping_of_non_ascii_chars true) (with_escaping_of_non_ascii_chars false) src_default_cfg <>
  then2 (with_escaping_of_non_ascii_chars false) (with_escaping_of_non_ascii_chars true) src_default_cfg.
Proof. vm_compute. discriminate. Qed.
(* two panicking calls: the message of the FIRST one is reported *)
Example setters_cex_panics :
  then2 (with_minimum_repetitions 0) (with_minimum_substring_length 0) src_default_cfg =
    inr msg_MINIMUM_REPETITIONS_MESSAGE /\
  then2 (with_minimum_substring_length 0) (with_minimum_repetitions 0) src_default_cfg =
    inr msg_MINIMUM_SUBSTRING_LENGTH_MESSAGE /\
  msg_MINIMUM_REPETITIONS_MESSAGE <> msg_MINIMUM_SUBSTRING_LENGTH_MESSAGE.
Proof. split; [reflexivity|]. split; [reflexivity|]. vm_compute. discriminate. Qed.

(* the form of the property statement: distinct methods always commute when nothing panics *)
Corollary setters_commute_distinct : forall s1 s2 c c12,
  same_method s1 s2 = false -> then2 s1 s2 c = inl c12 -> then2 s2 s1 c = inl c12.
Proof.
  intros s1 s2 c c12 Hm H. rewrite <- H. symmetry. apply setters_commute.
  unfold then2 in H.
  destruct s1, s2; simpl in Hm |- *; try reflexivity; try discriminate Hm; simpl in H;
    split_eqb0 H; try reflexivity; try discriminate H; congruence.
Qed.

Theorem setter_idem : forall s c, bind_cfg (apply_setter s c) (apply_setter s) = apply_setter s c.
Proof.
  intros s c. destruct s; simpl; try reflexivity;
    match goal with
    | |- context [N.eqb ?q 0] => destruct (N.eqb q 0) eqn:E; simpl; rewrite ?E; reflexivity
    end.
Qed.

(* ------------------------------------------------------------------------------------ *)
(* A2..A4: histories                                                                    *)
(* ------------------------------------------------------------------------------------ *)
(* the hypothesis of normalise_absorb (below) is needed: lower-casing and THEN building case-
   sensitively differs from building case-sensitively.  db: "A" lower-cases to "a". *)
Example normalise_absorb_cex :
  let db := [mkO [65%N] [97%N] [1] [false]] in
  let ci := set_f_ci true src_default_cfg in
  normalise src_default_cfg db (normalise ci db [[65%N]]) = [[97%N]] /\
  normalise src_default_cfg db [[65%N]] = [[65%N]].
Proof. split; vm_compute; reflexivity. Qed.

Section Hist.
  Variable isd : cp -> bool.
  Variable db : odb.
  Variable sc : cfg -> list str -> selfcheck.
  (* idempotent lower-casing: checked at run time on the oracle data *)
  Hypothesis Hlow : forall s, lower' db (lower' db s) = lower' db s.

  Notation build_out := (build_out isd db sc).
  Notation bstep := (bstep isd db sc).
  Notation brun := (brun isd db sc).
  Notation expected := (expected isd db sc).
  Notation tcs_after := (tcs_after db).

  (* A2 *)
  Theorem normalise_absorb : forall c c' ws,
    (f_ci c = true -> f_ci c' = true) ->
    normalise c' db (normalise c db ws) = normalise c' db ws.
  Proof.
    intros c c' ws Hmono. unfold normalise.
    destruct (f_ci c) eqn:Ec.
    - rewrite (Hmono eq_refl).
      apply sort_cases_perm. intro x. rewrite !in_map_iff. split.
      + intros [y [Hy Hiny]]. apply (proj1 (sort_cases_in _ _)) in Hiny.
        apply (proj1 (in_map_iff _ _ _)) in Hiny.
        destruct Hiny as [s [Hs Hins]]. exists s. split; [|exact Hins].
        subst y. rewrite <- Hy. symmetry. apply Hlow.
      + intros [s [Hs Hins]]. exists (lower' db s). split.
        * rewrite <- Hs. apply Hlow.
        * apply sort_cases_in. apply in_map. exact Hins.
    - destruct (f_ci c').
      + apply sort_cases_perm. intro x. rewrite !in_map_iff.
        split; intros [y [Hy Hiny]]; exists y; (split; [exact Hy|]);
          apply sort_cases_in; exact Hiny.
      + apply sort_cases_idem.
  Qed.

  (* the hypothesis of A2 is needed: normalising case-insensitively and then building
     case-sensitively would NOT be the same as building case-sensitively; it cannot happen
     because no setter clears f_ci (A1) *)

  (* build_out only depends on the normalised test cases *)
  Lemma build_out_norm : forall c ws ws',
    normalise c db ws = normalise c db ws' -> build_out c ws = build_out c ws'.
  Proof.
    intros c ws ws' H. unfold History.build_out, build. rewrite H. reflexivity.
  Qed.

  Theorem build_out_absorb : forall c0 c ws,
    (f_ci c0 = true -> f_ci c = true) ->
    build_out c (normalise c0 db ws) = build_out c ws.
  Proof.
    intros c0 c ws Hmono. apply build_out_norm. apply normalise_absorb. exact Hmono.
  Qed.

  (* the builder's own test cases are the original ones, or a normal form of them under an
     earlier (hence ci-smaller) configuration *)
  Definition represents (ws : list str) (st : bstate) : Prop :=
    b_tcs st = ws \/
    exists c0, (f_ci c0 = true -> f_ci (b_cfg st) = true) /\ b_tcs st = normalise c0 db ws.

  Lemma represents_norm : forall ws st c,
    represents ws st -> (f_ci (b_cfg st) = true -> f_ci c = true) ->
    normalise c db (b_tcs st) = normalise c db ws.
  Proof.
    intros ws st c [H | [c0 [Hmono H]]] Hc; rewrite H; [reflexivity|].
    apply normalise_absorb. intro H0. apply Hc. apply Hmono. exact H0.
  Qed.

  Lemma bstep_represents : forall ws st op st' o,
    represents ws st -> bstep st op = Some (st', o) -> represents ws st'.
  Proof.
    intros ws st op st' o Hrep Hstep. destruct op as [s|]; simpl in Hstep.
    - destruct (apply_setter s (b_cfg st)) as [c'|m] eqn:Ea; [|discriminate Hstep].
      inversion Hstep; subst; clear Hstep.
      destruct Hrep as [H | [c0 [Hmono H]]]; [left; exact H|].
      right. exists c0. simpl. split; [|exact H].
      intro H0. eapply setter_ci_mono; [exact Ea|]. apply Hmono. exact H0.
    - inversion Hstep; subst; clear Hstep.
      right. exists (b_cfg st). simpl. split; [intro H; exact H|].
      apply represents_norm; [exact Hrep|intro H; exact H].
  Qed.

  (* the general form of A3: from ANY state that represents ws *)
  Theorem history_general : forall ops ws st st' outs,
    represents ws st ->
    brun st ops = Some (st', outs) ->
    outs = expected ws (b_cfg st) ops /\
    cfg_after (b_cfg st) ops = Some (b_cfg st') /\
    represents ws st' /\
    b_tcs st' = match last_build_cfg (b_cfg st) ops with
                | None => b_tcs st
                | Some c0 => normalise c0 db ws
                end.
  Proof.
    induction ops as [|op ops IH]; intros ws st st' outs Hrep Hrun; simpl in Hrun.
    - inversion Hrun; subst; clear Hrun. simpl. repeat split; try reflexivity. exact Hrep.
    - destruct (bstep st op) as [[st1 o1]|] eqn:Es; [|discriminate Hrun].
      destruct (brun st1 ops) as [[st2 o2]|] eqn:Er; [|discriminate Hrun].
      inversion Hrun; subst; clear Hrun.
      assert (Hrep1 : represents ws st1) by (eapply bstep_represents; eassumption).
      destruct (IH ws st1 st' o2 Hrep1 Er) as [Ho [Hc [Hr Ht]]].
      destruct op as [s|]; simpl in Es |- *.
      + destruct (apply_setter s (b_cfg st)) as [c'|m] eqn:Ea; [|discriminate Es].
        inversion Es; subst; clear Es. simpl in *.
        repeat split; assumption.
      + inversion Es; subst; clear Es. simpl in *.
        repeat split; try assumption.
        * f_equal. apply build_out_norm. apply represents_norm; [exact Hrep|intro H; exact H].
        * rewrite Ht. destruct (last_build_cfg (b_cfg st) ops); [reflexivity|].
          apply represents_norm; [exact Hrep|intro H; exact H].
  Qed.

  (* A3 *)
  Theorem C10_history : forall ops ws st outs,
    brun (mkB ws src_default_cfg) ops = Some (st, outs) ->
    outs = expected ws src_default_cfg ops /\
    cfg_after src_default_cfg ops = Some (b_cfg st) /\
    b_tcs st = tcs_after ws src_default_cfg ops.
  Proof.
    intros ops ws st outs Hrun.
    destruct (history_general ops ws (mkB ws src_default_cfg) st outs) as [Ho [Hc [_ Ht]]];
      [left; reflexivity|exact Hrun|].
    simpl in *. repeat split; assumption.
  Qed.

  (* the same from an arbitrary initial configuration *)
  Theorem C10_history_from : forall c ops ws st outs,
    brun (mkB ws c) ops = Some (st, outs) ->
    outs = expected ws c ops /\ cfg_after c ops = Some (b_cfg st) /\ b_tcs st = tcs_after ws c ops.
  Proof.
    intros c ops ws st outs Hrun.
    destruct (history_general ops ws (mkB ws c) st outs) as [Ho [Hc [_ Ht]]];
      [left; reflexivity|exact Hrun|].
    simpl in *. repeat split; assumption.
  Qed.

  (* a run panics exactly when the fold of its setters does; builds never do *)
  Lemma brun_none_iff : forall ops st, brun st ops = None <-> cfg_after (b_cfg st) ops = None.
  Proof.
    induction ops as [|op ops IH]; intro st; simpl.
    - split; discriminate.
    - destruct op as [s|]; simpl.
      + destruct (apply_setter s (b_cfg st)) as [c'|m]; [|split; reflexivity].
        specialize (IH (mkB (b_tcs st) c')). simpl in IH.
        destruct (brun (mkB (b_tcs st) c') ops) as [[st2 o2]|].
        * split; [discriminate|]. intro H. apply IH in H. discriminate H.
        * split; [intros _; apply IH; reflexivity|reflexivity].
      + specialize (IH (mkB (normalise (b_cfg st) db (b_tcs st)) (b_cfg st))). simpl in IH.
        destruct (brun (mkB (normalise (b_cfg st) db (b_tcs st)) (b_cfg st)) ops) as [[st2 o2]|].
        * split; [discriminate|]. intro H. apply IH in H. discriminate H.
        * split; [intros _; apply IH; reflexivity|reflexivity].
  Qed.

  (* expected: the k-th output is build_out of the settings accumulated before the k-th build *)
  Lemma expected_app : forall ws ops1 ops2 c c1,
    cfg_after c ops1 = Some c1 ->
    expected ws c (ops1 ++ ops2) = expected ws c ops1 ++ expected ws c1 ops2.
  Proof.
    intros ws ops1 ops2. induction ops1 as [|op ops1 IH]; intros c c1 H; simpl in *.
    - inversion H. reflexivity.
    - destruct op as [s|].
      + destruct (apply_setter s c) as [c'|m]; [|discriminate H]. apply IH. exact H.
      + simpl. f_equal. apply IH. exact H.
  Qed.

  Corollary expected_build_at : forall ws ops1 ops2 c c1,
    cfg_after c ops1 = Some c1 ->
    expected ws c (ops1 ++ OBuild :: ops2) =
    expected ws c ops1 ++ build_out c1 ws :: expected ws c1 ops2.
  Proof. intros. erewrite expected_app by eassumption. reflexivity. Qed.

  (* consequences: building repeatedly / in between does not matter *)
  Corollary build_twice_same : forall ws c ops st outs,
    brun (mkB ws c) (ops ++ [OBuild; OBuild]) = Some (st, outs) ->
    exists o pre, outs = pre ++ [o; o].
  Proof.
    intros ws c ops st outs H.
    apply C10_history_from in H. destruct H as [Ho [Hc _]].
    destruct (cfg_after c ops) as [c1|] eqn:E.
    - erewrite expected_app in Ho by exact E. simpl in Ho.
      exists (build_out c1 ws), (expected ws c ops). exact Ho.
    - exfalso. clear Ho. revert c Hc E. induction ops as [|op ops IH]; intros c Hc E; simpl in *.
      + discriminate E.
      + destruct op as [s|]; [destruct (apply_setter s c); [|discriminate Hc]|];
          eapply IH; eassumption.
  Qed.

  (* removing the builds of a history does not change the final settings, and a build
     appended at the end gives the same output *)
  Definition strip_builds (ops : list bop) : list bop :=
    filter (fun op => match op with OBuild => false | _ => true end) ops.

  Lemma cfg_after_strip : forall ops c, cfg_after c (strip_builds ops) = cfg_after c ops.
  Proof.
    induction ops as [|op ops IH]; intro c; simpl; [reflexivity|].
    destruct op as [s|]; simpl; [|apply IH].
    destruct (apply_setter s c); [apply IH|reflexivity].
  Qed.

  Lemma expected_strip : forall ws ops c, expected ws c (strip_builds ops) = [].
  Proof.
    intros ws. induction ops as [|op ops IH]; intro c; simpl; [reflexivity|].
    destruct op as [s|]; simpl; [|apply IH].
    destruct (apply_setter s c); [apply IH|reflexivity].
  Qed.

  Theorem builds_in_between_irrelevant : forall ws c ops st outs st' outs',
    brun (mkB ws c) (ops ++ [OBuild]) = Some (st, outs) ->
    brun (mkB ws c) (strip_builds ops ++ [OBuild]) = Some (st', outs') ->
    b_cfg st = b_cfg st' /\ b_tcs st = b_tcs st' /\ exists pre, outs = pre ++ outs'.
  Proof.
    intros ws c ops st outs st' outs' H H'.
    apply C10_history_from in H. apply C10_history_from in H'.
    destruct H as [Ho [Hc Ht]]. destruct H' as [Ho' [Hc' Ht']].
    assert (Hcfg : forall ops2, cfg_after c (ops ++ ops2) = cfg_after c (strip_builds ops ++ ops2)).
    { intro ops2. clear. revert c. induction ops as [|op ops IH]; intro c; simpl; [reflexivity|].
      destruct op as [s|]; simpl; [|apply IH]. destruct (apply_setter s c); [apply IH|reflexivity]. }
    rewrite Hcfg, Hc' in Hc. assert (Hceq : b_cfg st = b_cfg st') by congruence.
    destruct (cfg_after c ops) as [c1|] eqn:E.
    - assert (E' : cfg_after c (strip_builds ops) = Some c1) by (rewrite cfg_after_strip; exact E).
      erewrite expected_app in Ho by exact E.
      erewrite expected_app in Ho' by exact E'.
      rewrite expected_strip in Ho'. simpl in Ho, Ho'.
      split; [exact Hceq|]. split.
      + rewrite Ht, Ht'. unfold History.tcs_after.
        assert (Hl : forall ops0 c0, cfg_after c0 ops0 = Some c1 ->
                  last_build_cfg c0 (ops0 ++ [OBuild]) = Some c1).
        { clear. induction ops0 as [|op ops0 IH]; intros c0 H; simpl in *.
          - inversion H. reflexivity.
          - destruct op as [s|].
            + destruct (apply_setter s c0); [apply IH; exact H|discriminate H].
            + rewrite (IH c0 H). reflexivity. }
        rewrite (Hl _ _ E), (Hl _ _ E'). reflexivity.
      + exists (expected ws c ops). rewrite Ho, Ho'. reflexivity.
    - exfalso. rewrite <- cfg_after_strip in E. clear - Hc' E.
      revert c Hc' E. induction (strip_builds ops) as [|op l IH]; intros c Hc' E; simpl in *.
      + discriminate E.
      + destruct op as [s|]; [destruct (apply_setter s c); [|discriminate Hc']|];
          eapply IH; eassumption.
  Qed.

  (* A4: clone.  A clone is a copy of the state (RegExpBuilder derives Clone; its fields are a
     Vec<String> and a Copy-able config), so everything that is a function of the state agrees. *)
  Theorem clone_same : forall st clone ops, clone = st -> brun clone ops = brun st ops.
  Proof. intros st clone ops H. rewrite H. reflexivity. Qed.

  (* cloning at any point of a history and continuing on the clone gives the same outputs as
     continuing on the original — including when the ORIGINAL has been built in between *)
  Theorem clone_after_build_same : forall ws c ops1 ops2 st1 o1 st1' o1' st2 o2 st2' o2',
    brun (mkB ws c) ops1 = Some (st1, o1) ->
    brun (mkB ws c) (strip_builds ops1) = Some (st1', o1') ->
    brun st1 ops2 = Some (st2, o2) -> brun st1' ops2 = Some (st2', o2') ->
    o2 = o2' /\ b_cfg st2 = b_cfg st2'.
  Proof.
    intros ws c ops1 ops2 st1 o1 st1' o1' st2 o2 st2' o2' H1 H1' H2 H2'.
    assert (R1 : represents ws st1).
    { destruct (history_general ops1 ws (mkB ws c) st1 o1) as [_ [_ [R _]]];
        [left; reflexivity|exact H1|exact R]. }
    assert (R1' : represents ws st1').
    { destruct (history_general (strip_builds ops1) ws (mkB ws c) st1' o1') as [_ [_ [R _]]];
        [left; reflexivity|exact H1'|exact R]. }
    apply C10_history_from in H1. apply C10_history_from in H1'.
    destruct H1 as [_ [Hc1 _]]. destruct H1' as [_ [Hc1' _]].
    rewrite cfg_after_strip, Hc1 in Hc1'. assert (Hceq : b_cfg st1 = b_cfg st1') by congruence.
    destruct (history_general ops2 ws st1 st2 o2 R1 H2) as [Ho [Hc _]].
    destruct (history_general ops2 ws st1' st2' o2' R1' H2') as [Ho' [Hc' _]].
    rewrite <- Hceq in Ho', Hc'. split; [congruence|congruence].
  Qed.
End Hist.

(* ==================================================================================== *)
(* PART B — the command line *)
(* ==================================================================================== *)

(* ------------------------------------------------------------------------------------ *)
(* B1, B2: one builder call per flag; the flags mean what the documentation says        *)
(* ------------------------------------------------------------------------------------ *)

Lemma run_setters_app : forall l1 l2 acc,
  run_setters (l1 ++ l2) acc = run_setters l2 (run_setters l1 acc).
Proof. intros. unfold run_setters. apply fold_left_app. Qed.

Lemma run_setters_if : forall (b : bool) s c,
  run_setters (if b then [s] else []) (inl c) = if b then apply_setter s c else inl c.
Proof. intros b s c. destruct b; reflexivity. Qed.

Lemma inl_if : forall (b : bool) (x y : cfg),
  (if b then @inl cfg (list N) x else inl y) = inl (if b then x else y).
Proof. intros b x y. destruct b; reflexivity. Qed.

Lemma cfg_if : forall (b : bool) a1 a2 a3 a4 a5 a6 a7 a8 a9 a10 a11 a12 a13 a14 a15 a16 a17
                             b1 b2 b3 b4 b5 b6 b7 b8 b9 b10 b11 b12 b13 b14 b15 b16 b17,
  (if b then mkCfg a1 a2 a3 a4 a5 a6 a7 a8 a9 a10 a11 a12 a13 a14 a15 a16 a17
        else mkCfg b1 b2 b3 b4 b5 b6 b7 b8 b9 b10 b11 b12 b13 b14 b15 b16 b17) =
  mkCfg (if b then a1 else b1) (if b then a2 else b2) (if b then a3 else b3)
        (if b then a4 else b4) (if b then a5 else b5) (if b then a6 else b6)
        (if b then a7 else b7) (if b then a8 else b8) (if b then a9 else b9)
        (if b then a10 else b10) (if b then a11 else b11) (if b then a12 else b12)
        (if b then a13 else b13) (if b then a14 else b14) (if b then a15 else b15)
        (if b then a16 else b16) (if b then a17 else b17).
Proof. intros b. destruct b; reflexivity. Qed.

Lemma cfg_ext : forall a1 a2 a3 a4 a5 a6 a7 a8 a9 a10 a11 a12 a13 a14 a15 a16 a17
                        b1 b2 b3 b4 b5 b6 b7 b8 b9 b10 b11 b12 b13 b14 b15 b16 b17,
  a1 = b1 -> a2 = b2 -> a3 = b3 -> a4 = b4 -> a5 = b5 -> a6 = b6 -> a7 = b7 -> a8 = b8 ->
  a9 = b9 -> a10 = b10 -> a11 = b11 -> a12 = b12 -> a13 = b13 -> a14 = b14 -> a15 = b15 ->
  a16 = b16 -> a17 = b17 ->
  mkCfg a1 a2 a3 a4 a5 a6 a7 a8 a9 a10 a11 a12 a13 a14 a15 a16 a17 =
  mkCfg b1 b2 b3 b4 b5 b6 b7 b8 b9 b10 b11 b12 b13 b14 b15 b16 b17.
Proof. intros. subst. reflexivity. Qed.

Lemma if_same : forall (A : Type) (b : bool) (x : A), (if b then x else x) = x.
Proof. intros A b x. destruct b; reflexivity. Qed.

(* One flag of handle_input: absorb `if flag { builder.with_...() }` into the symbolic
   configuration record (whatever the setter does), keeping the record fields small. *)
Ltac cfg_simpl :=
  unfold set_min_rep, set_min_len, set_f_digit, set_f_non_digit, set_f_space,
       set_f_non_space, set_f_word, set_f_non_word, set_f_rep, set_f_ci, set_f_cap, set_f_esc,
       set_f_sur, set_f_verbose, set_f_no_start, set_f_no_end, set_f_colour;
  cbn [min_rep min_len f_digit f_non_digit f_space f_non_space f_word f_non_word f_rep f_ci
       f_cap f_esc f_sur f_verbose f_no_start f_no_end f_colour].

Ltac cli_step :=
  rewrite run_setters_app, run_setters_if;
  cbn [apply_setter]; cfg_simpl;
  rewrite inl_if, cfg_if, ?if_same.

Ltac bool_cases :=
  repeat match goal with
         | b : bool |- _ => destruct b
         end; reflexivity.

(* the general statement: what handle_input's builder calls compute *)
Theorem cli_run : forall a,
  run_setters (cli_ops a) (inl src_default_cfg) =
  if N.eqb (cli_minimum_repetitions a) 0 then inr msg_MINIMUM_REPETITIONS_MESSAGE
  else if N.eqb (cli_minimum_substring_length a) 0 then inr msg_MINIMUM_SUBSTRING_LENGTH_MESSAGE
  else inl (spec_cfg a).
Proof.
  intro a. destruct a as [d nd sp nsp w nw r ci cap esc sur vb caret dollar anch col q1 q2].
  unfold cli_ops, spec_cfg, src_default_cfg.
  cbn [cli_is_digit_converted cli_is_non_digit_converted cli_is_space_converted
       cli_is_non_space_converted cli_is_word_converted cli_is_non_word_converted
       cli_is_repetition_converted cli_is_case_ignored cli_is_group_captured
       cli_is_non_ascii_char_escaped cli_is_astral_code_point_converted_to_surrogate
       cli_is_verbose_mode_enabled cli_is_caret_anchor_disabled
       cli_is_dollar_sign_anchor_disabled cli_are_anchors_disabled cli_is_output_colorized
       cli_minimum_repetitions cli_minimum_substring_length].
  repeat cli_step.
  cbn [run_setters fold_left apply_setter].
  destruct (N.eqb q1 0); [reflexivity|].
  cfg_simpl.
  destruct (N.eqb q2 0); [reflexivity|].
  apply f_equal. apply cfg_ext; clear; try reflexivity; bool_cases.
Qed.

Definition run_cli (a : cli) : cfg + list N :=
  fold_left (fun acc s => match acc with inl c => apply_setter s c | e => e end)
            (cli_ops a) (inl src_default_cfg).

(* B1 *)
Theorem C12_flags : forall a,
  cli_minimum_repetitions a <> 0%N -> cli_minimum_substring_length a <> 0%N ->
  fold_left (fun acc s => match acc with inl c => apply_setter s c | e => e end)
            (cli_ops a) (inl src_default_cfg) = inl (spec_cfg a).
Proof.
  intros a H1 H2. change (run_setters (cli_ops a) (inl src_default_cfg) = inl (spec_cfg a)).
  rewrite cli_run.
  apply N.eqb_neq in H1. apply N.eqb_neq in H2. rewrite H1, H2. reflexivity.
Qed.

(* B2: the library would panic — but clap's value parser rejects zero first *)
Theorem C12_zero_threshold : forall a,
  cli_minimum_repetitions a = 0%N ->
  fold_left (fun acc s => match acc with inl c => apply_setter s c | e => e end)
            (cli_ops a) (inl src_default_cfg) = inr msg_MINIMUM_REPETITIONS_MESSAGE.
Proof.
  intros a H. change (run_setters (cli_ops a) (inl src_default_cfg) = inr msg_MINIMUM_REPETITIONS_MESSAGE).
  rewrite cli_run, H. reflexivity.
Qed.

Theorem C12_zero_threshold_len : forall a,
  cli_minimum_repetitions a <> 0%N -> cli_minimum_substring_length a = 0%N ->
  fold_left (fun acc s => match acc with inl c => apply_setter s c | e => e end)
            (cli_ops a) (inl src_default_cfg) = inr msg_MINIMUM_SUBSTRING_LENGTH_MESSAGE.
Proof.
  intros a H1 H2.
  change (run_setters (cli_ops a) (inl src_default_cfg) = inr msg_MINIMUM_SUBSTRING_LENGTH_MESSAGE).
  rewrite cli_run, H2. apply N.eqb_neq in H1. rewrite H1. reflexivity.
Qed.

Theorem C12_clap_rejects_zero : clap_thresholds_reject_zero = true.
Proof. reflexivity. Qed.

(* no flags = the library default *)
Corollary C12_no_flags :
  spec_cfg (mkCli false false false false false false false false false false false false
                  false false false false 1 1) = src_default_cfg.
Proof. reflexivity. Qed.

(* ------------------------------------------------------------------------------------ *)
(* B3: the clap argument table                                                          *)
(* ------------------------------------------------------------------------------------ *)

Fixpoint nodupb {A} (eqb : A -> A -> bool) (l : list A) : bool :=
  match l with
  | [] => true
  | x :: l' => negb (existsb (eqb x) l') && nodupb eqb l'
  end.

Lemma nodupb_NoDup : forall (A : Type) (eqb : A -> A -> bool),
  (forall x y, x = y -> eqb x y = true) ->
  forall l, nodupb eqb l = true -> NoDup l.
Proof.
  intros A eqb Heq. induction l as [|x l IH]; intro H; simpl in H.
  - constructor.
  - apply andb_true_iff in H. destruct H as [Hx Hl]. constructor; [|apply IH; exact Hl].
    intro Hin. apply negb_true_iff in Hx.
    assert (E : existsb (eqb x) l = true).
    { apply existsb_exists. exists x. split; [exact Hin|apply Heq; reflexivity]. }
    rewrite E in Hx. discriminate Hx.
Qed.

Lemma str_eqb_refl' : forall a b : str, a = b -> str_eqb a b = true.
Proof.
  intros a b H. subst b. induction a as [|x a IH]; simpl; [reflexivity|].
  rewrite N.eqb_refl. exact IH.
Qed.

Definition clap_long_names : list str := map (fun e => fst (fst e)) clap_args.
Definition clap_short_flags : list N :=
  filter (fun n => negb (N.eqb n 0)) (map (fun e => snd (fst e)) clap_args).

Theorem C12_names_distinct : NoDup clap_long_names /\ NoDup clap_short_flags.
Proof.
  split.
  - apply (nodupb_NoDup str str_eqb str_eqb_refl'). vm_compute. reflexivity.
  - apply (nodupb_NoDup N N.eqb).
    + intros x y H. subst. apply N.eqb_refl.
    + vm_compute. reflexivity.
Qed.

Theorem C12_clap_facts :
  clap_surrogates_requires_escape = true /\
  clap_input_conflicts_with_file = true /\
  cli_rejects_empty_input = true /\
  clap_threshold_defaults = (1, 1)%N /\
  clap_thresholds_reject_zero = true.
Proof. repeat split; reflexivity. Qed.

(* with --with-surrogates requiring --escape, the && in spec_cfg's f_sur is invisible from the
   command line: on every accepted command line f_sur is just the --with-surrogates flag *)
Corollary C12_surrogates : forall a,
  (cli_is_astral_code_point_converted_to_surrogate a = true ->
   cli_is_non_ascii_char_escaped a = true) ->
  f_sur (spec_cfg a) = cli_is_astral_code_point_converted_to_surrogate a.
Proof.
  intros a H. simpl. destruct (cli_is_non_ascii_char_escaped a); [reflexivity|].
  destruct (cli_is_astral_code_point_converted_to_surrogate a); [|reflexivity].
  discriminate (H eq_refl).
Qed.

(* ------------------------------------------------------------------------------------ *)
(* B4: reading test cases from a file: str::lines                                       *)
(* ------------------------------------------------------------------------------------ *)

Lemma split_nl_plain : forall w t cur,
  ~ In 10%N w -> split_nl (w ++ t) cur = split_nl t (rev w ++ cur).
Proof.
  induction w as [|x w IH]; intros t cur H; [reflexivity|].
  simpl. destruct (N.eqb_spec x c_nl) as [E|E].
  - exfalso. apply H. left. exact E.
  - rewrite IH by (intro Hin; apply H; right; exact Hin).
    rewrite <- app_assoc. reflexivity.
Qed.

Lemma split_nl_nl : forall t cur, split_nl (10%N :: t) cur = rev cur :: split_nl t [].
Proof. reflexivity. Qed.

Definition no_nl (w : str) : Prop := ~ In 10%N w.

(* the pieces of  w1 SEP w2 SEP ... wn TAIL  where SEP = pre ++ "\n" (pre = "" or "\r") *)
Lemma split_join : forall (pre : str) ws t,
  no_nl pre -> ws <> [] -> Forall no_nl ws ->
  split_nl (join (pre ++ [10%N]) ws ++ t) [] =
  map (fun w => w ++ pre) (removelast ws) ++ split_nl t (rev (last ws [])).
Proof.
  intros pre ws t Hpre. induction ws as [|w ws IH]; intros Hne Hall; [congruence|].
  inversion Hall as [|w' ws' Hw Hws]; subst.
  destruct ws as [|w2 ws].
  - simpl. rewrite split_nl_plain by exact Hw. rewrite app_nil_r. reflexivity.
  - change (join (pre ++ [10%N]) (w :: w2 :: ws))
      with (w ++ (pre ++ [10%N]) ++ join (pre ++ [10%N]) (w2 :: ws)).
    rewrite <- !app_assoc.
    rewrite split_nl_plain by exact Hw. rewrite split_nl_plain by exact Hpre.
    change ([10%N] ++ join (pre ++ [10%N]) (w2 :: ws) ++ t)
      with (10%N :: (join (pre ++ [10%N]) (w2 :: ws) ++ t)).
    change (removelast (w :: w2 :: ws)) with (w :: removelast (w2 :: ws)).
    change (last (w :: w2 :: ws) []) with (last (w2 :: ws) []).
    rewrite split_nl_nl.
    rewrite IH by (congruence || exact Hws).
    rewrite app_nil_r, <- rev_app_distr, rev_involutive. reflexivity.
Qed.

Lemma last_cp_snoc : forall (l : str) x, last_cp (l ++ [x]) = Some x.
Proof.
  induction l as [|y l IH]; intro x; [reflexivity|].
  simpl. destruct (l ++ [x]) as [|z r] eqn:E.
  - destruct l; discriminate E.
  - rewrite <- E. apply IH.
Qed.

Lemma strip_cr_snoc : forall w : str, strip_cr (w ++ [13%N]) = w.
Proof.
  intro w. unfold strip_cr. rewrite rev_app_distr. simpl. apply rev_involutive.
Qed.

Lemma strip_cr_id : forall w : str, last_cp w <> Some 13%N -> strip_cr w = w.
Proof.
  intros w H. unfold strip_cr. destruct (rev w) as [|x r] eqn:E; [reflexivity|].
  destruct (N.eqb_spec x c_cr) as [Ex|Ex]; [|reflexivity].
  exfalso. apply H.
  assert (Hw : w = rev r ++ [x]) by (rewrite <- (rev_involutive w), E; reflexivity).
  rewrite Hw, last_cp_snoc, Ex. reflexivity.
Qed.

Lemma map_strip_snoc : forall ws : list str, map strip_cr (map (fun w => w ++ [13%N]) ws) = ws.
Proof.
  induction ws as [|w ws IH]; [reflexivity|]. simpl map. rewrite strip_cr_snoc, IH. reflexivity.
Qed.

Lemma map_strip_id : forall ws : list str,
  Forall (fun w => last_cp w <> Some 13%N) ws -> map strip_cr ws = ws.
Proof.
  induction ws as [|w ws IH]; intro H; [reflexivity|].
  inversion H; subst. simpl. rewrite strip_cr_id, IH by assumption. reflexivity.
Qed.

(* the `lines` post-processing of a piece list that ends with `lst`: only the pieces
   terminated by a line feed are stripped; the unterminated last one is kept RAW (a bare
   trailing carriage return is not a line ending) and dropped when empty *)
Definition keep_nonempty (l : str) : list str := match l with [] => [] | _ => [l] end.

Lemma lines_of_pieces : forall (pcs : list str) (lst : str) s,
  split_nl s [] = pcs ++ [lst] -> lines s = map strip_cr pcs ++ keep_nonempty lst.
Proof.
  intros pcs lst s H. unfold lines. rewrite H, rev_app_distr. simpl.
  rewrite rev_involutive. reflexivity.
Qed.

Lemma lines_of_pieces_nonempty_last : forall (pcs : list str) (lst : str) s,
  split_nl s [] = pcs ++ [lst] -> lst <> [] -> lines s = map strip_cr pcs ++ [lst].
Proof.
  intros pcs lst s H Hne. rewrite (lines_of_pieces _ _ _ H).
  destruct lst; [congruence|reflexivity].
Qed.

Lemma lines_of_pieces_empty_last : forall (pcs : list str) s,
  split_nl s [] = pcs ++ [[]] -> lines s = map strip_cr pcs.
Proof.
  intros pcs s H. rewrite (lines_of_pieces _ _ _ H). apply app_nil_r.
Qed.

Definition is_nil {A} (l : list A) : bool := match l with [] => true | _ => false end.

Lemma Forall_removelast : forall (A : Type) (P : A -> Prop) l, Forall P l -> Forall P (removelast l).
Proof.
  intros A P l H. induction H as [|x l Hx Hl IH]; [constructor|].
  simpl. destruct l; [constructor|]. constructor; assumption.
Qed.

Lemma Forall_last : forall (A : Type) (P : A -> Prop) l d, l <> [] -> Forall P l -> P (last l d).
Proof.
  intros A P l d Hne H. induction H as [|x l Hx Hl IH]; [congruence|].
  simpl. destruct l; [exact Hx|]. apply IH. congruence.
Qed.

(* what `lines` returns on an LF file resp. a CRLF file, with NO side condition besides the
   absence of line feeds inside the test cases *)
Lemma lines_lf_file : forall (ws : list str) (final_nl : bool),
  ws <> [] -> Forall no_nl ws ->
  lines (join [10%N] ws ++ (if final_nl then [10%N] else [])) =
  if final_nl then map strip_cr ws
  else map strip_cr (removelast ws) ++ keep_nonempty (last ws []).
Proof.
  intros ws final_nl Hne Hnl.
  assert (Hws : removelast ws ++ [last ws []] = ws) by (symmetry; apply app_removelast_last; exact Hne).
  pose proof (split_join [] ws) as Hsj. change ([] ++ [10%N]) with [10%N] in Hsj.
  assert (Hmap : forall l : list str, map (fun w => w ++ []) l = l).
  { induction l as [|x l IH]; [reflexivity|]. simpl. rewrite app_nil_r, IH. reflexivity. }
  destruct final_nl.
  - erewrite lines_of_pieces_empty_last.
    2:{ rewrite (Hsj [10%N]) by (assumption || (intros []) ). rewrite Hmap.
        rewrite split_nl_nl, rev_involutive. simpl split_nl.
        change [last ws []; []] with ([last ws []] ++ [[]]).
        rewrite app_assoc, Hws. reflexivity. }
    reflexivity.
  - apply lines_of_pieces.
    rewrite (Hsj []) by (assumption || (intros []) ). rewrite Hmap.
    simpl split_nl. rewrite rev_involutive. reflexivity.
Qed.

Lemma lines_crlf_file : forall (ws : list str) (final_nl : bool),
  ws <> [] -> Forall no_nl ws ->
  lines (join [13%N; 10%N] ws ++ (if final_nl then [13%N; 10%N] else [])) =
  if final_nl then ws else removelast ws ++ keep_nonempty (last ws []).
Proof.
  intros ws final_nl Hne Hnl.
  assert (Hws : removelast ws ++ [last ws []] = ws) by (symmetry; apply app_removelast_last; exact Hne).
  assert (Hpre : no_nl [13%N]).
  { intros [H|[]]. discriminate H. }
  pose proof (split_join [13%N] ws) as Hsj. change ([13%N] ++ [10%N]) with [13%N; 10%N] in Hsj.
  destruct final_nl.
  - erewrite lines_of_pieces_empty_last.
    2:{ rewrite (Hsj [13%N; 10%N]) by assumption.
        change [13%N; 10%N] with ([13%N] ++ [10%N]).
        rewrite (split_nl_plain [13%N] [10%N]) by exact Hpre.
        rewrite split_nl_nl. simpl split_nl.
        rewrite <- rev_app_distr, rev_involutive.
        change [last ws [] ++ [13%N]; []] with ([last ws [] ++ [13%N]] ++ [[]]).
        rewrite app_assoc. reflexivity. }
    rewrite map_app, map_strip_snoc. simpl map. rewrite strip_cr_snoc. exact Hws.
  - erewrite lines_of_pieces.
    2:{ rewrite (Hsj []) by assumption. simpl split_nl. rewrite rev_involutive. reflexivity. }
    rewrite map_strip_snoc. reflexivity.
Qed.

(* LF files.  Side conditions, each one NEEDED (see C12_lines_lf_iff and the counterexamples below):
     - no test case contains a line feed;
     - no test case FOLLOWED BY A LINE FEED ends with a carriage return (lines would strip it);
       the last test case of a file without final newline MAY end with a carriage return:
       str::lines keeps a bare trailing "\r" on an unterminated last line;
     - without a final newline the last test case is not "" (lines would drop it).
   ws = [] is the empty file. *)
Theorem C12_lines_lf : forall (ws : list str) (final_nl : bool),
  Forall (fun w => ~ In 10%N w) ws ->
  Forall (fun w => last_cp w <> Some 13%N) (if final_nl then ws else removelast ws) ->
  (final_nl = false -> ws <> [] -> last ws [] <> []) ->
  lines (join [10%N] ws ++ (if final_nl && negb (is_nil ws) then [10%N] else [])) = ws.
Proof.
  intros ws final_nl Hnl Hcr Hlast.
  destruct (is_nil ws) eqn:En.
  { destruct ws; [|discriminate En]. destruct final_nl; reflexivity. }
  assert (Hne : ws <> []) by (intro; subst; discriminate En).
  assert (Hws : removelast ws ++ [last ws []] = ws) by (symmetry; apply app_removelast_last; exact Hne).
  rewrite andb_true_r, lines_lf_file by assumption.
  destruct final_nl.
  - apply map_strip_id. exact Hcr.
  - rewrite map_strip_id by exact Hcr.
    specialize (Hlast eq_refl Hne). destruct (last ws []); [congruence|exact Hws].
Qed.

(* CRLF files.  STRONGER than the LF statement: any test case may end with a carriage return
   (only ONE is stripped per terminated line, and the unterminated last line is kept raw);
   the only side condition left is that "" cannot be the last test case of a file without
   final newline. *)
Theorem C12_lines_crlf : forall (ws : list str) (final_nl : bool),
  Forall (fun w => ~ In 10%N w) ws ->
  (final_nl = false -> ws <> [] -> last ws [] <> []) ->
  lines (join [13%N; 10%N] ws ++ (if final_nl && negb (is_nil ws) then [13%N; 10%N] else [])) = ws.
Proof.
  intros ws final_nl Hnl Hlast.
  destruct (is_nil ws) eqn:En.
  { destruct ws; [|discriminate En]. destruct final_nl; reflexivity. }
  assert (Hne : ws <> []) by (intro; subst; discriminate En).
  assert (Hws : removelast ws ++ [last ws []] = ws) by (symmetry; apply app_removelast_last; exact Hne).
  rewrite andb_true_r, lines_crlf_file by assumption.
  destruct final_nl; [reflexivity|].
  specialize (Hlast eq_refl Hne). destruct (last ws []); [congruence|exact Hws].
Qed.

(* The side conditions are exactly right: for test cases without line feeds they are
   EQUIVALENT to the round trip. *)
Lemma last_cp_Some : forall (w : str) x, last_cp w = Some x -> w = removelast w ++ [x].
Proof.
  induction w as [|a w IH]; intros x H; [discriminate H|].
  destruct w as [|b w].
  - simpl in H. injection H as ->. reflexivity.
  - change (last_cp (b :: w) = Some x) in H.
    change (removelast (a :: b :: w)) with (a :: removelast (b :: w)).
    simpl app. f_equal. apply IH. exact H.
Qed.

Lemma strip_cr_fix : forall w : str, strip_cr w = w -> last_cp w <> Some 13%N.
Proof.
  intros w H E. apply last_cp_Some in E. rewrite E, strip_cr_snoc in H.
  apply (f_equal (@length _)) in H. rewrite app_length in H. simpl in H. lia.
Qed.

Lemma map_strip_fix : forall ws : list str,
  map strip_cr ws = ws -> Forall (fun w => last_cp w <> Some 13%N) ws.
Proof.
  induction ws as [|w ws IH]; intro H; [constructor|].
  simpl in H. injection H as H1 H2. constructor; [apply strip_cr_fix; exact H1|apply IH; exact H2].
Qed.

Lemma keep_nonempty_tail : forall (l1 l2 : list str) (w : str),
  l1 ++ keep_nonempty w = l2 ++ [w] -> length l1 = length l2 -> w <> [] /\ l1 = l2.
Proof.
  intros l1 l2 w H Hlen. destruct w as [|c w].
  - apply (f_equal (@length _)) in H. rewrite !app_length in H. simpl in H. lia.
  - split; [discriminate|]. apply app_inj_tail in H. apply H.
Qed.

Theorem C12_lines_lf_iff : forall (ws : list str) (final_nl : bool),
  Forall (fun w => ~ In 10%N w) ws ->
  (lines (join [10%N] ws ++ (if final_nl && negb (is_nil ws) then [10%N] else [])) = ws <->
   Forall (fun w => last_cp w <> Some 13%N) (if final_nl then ws else removelast ws) /\
   (final_nl = false -> ws <> [] -> last ws [] <> [])).
Proof.
  intros ws final_nl Hnl. split; [|intros [H1 H2]; apply C12_lines_lf; assumption].
  destruct ws as [|w0 ws0]; [intros _; split; [destruct final_nl; constructor|congruence]|].
  remember (w0 :: ws0) as ws eqn:Ews.
  assert (Hne : ws <> []) by (subst; discriminate).
  assert (Hws : removelast ws ++ [last ws []] = ws) by (symmetry; apply app_removelast_last; exact Hne).
  assert (En : is_nil ws = false) by (subst; reflexivity).
  rewrite En, andb_true_r, lines_lf_file by assumption.
  destruct final_nl; intro H.
  - split; [apply map_strip_fix; exact H|discriminate].
  - rewrite <- Hws in H at 3.
    apply keep_nonempty_tail in H; [|apply map_length].
    destruct H as [H1 H2]. split; [apply map_strip_fix; exact H2|intros _ _; exact H1].
Qed.

Theorem C12_lines_crlf_iff : forall (ws : list str) (final_nl : bool),
  Forall (fun w => ~ In 10%N w) ws ->
  (lines (join [13%N; 10%N] ws ++ (if final_nl && negb (is_nil ws) then [13%N; 10%N] else [])) = ws <->
   (final_nl = false -> ws <> [] -> last ws [] <> [])).
Proof.
  intros ws final_nl Hnl. split; [|intro H; apply C12_lines_crlf; assumption].
  destruct ws as [|w0 ws0]; [intros _; congruence|].
  remember (w0 :: ws0) as ws eqn:Ews.
  assert (Hne : ws <> []) by (subst; discriminate).
  assert (Hws : removelast ws ++ [last ws []] = ws) by (symmetry; apply app_removelast_last; exact Hne).
  assert (En : is_nil ws = false) by (subst; reflexivity).
  rewrite En, andb_true_r, lines_crlf_file by assumption.
  destruct final_nl; intro H; [discriminate|].
  rewrite <- Hws in H at 3.
  apply keep_nonempty_tail in H; [|reflexivity].
  intros _ _. apply H.
Qed.

(* a line feed inside a test case always breaks the round trip: no element of `lines s`
   contains a line feed *)
Lemma split_nl_no_nl : forall s cur, no_nl cur -> Forall no_nl (split_nl s cur).
Proof.
  induction s as [|x s IH]; intros cur Hc; simpl.
  - constructor; [|constructor]. intro Hin. apply Hc. apply in_rev. exact Hin.
  - destruct (N.eqb_spec x c_nl) as [E|E].
    + constructor; [intro Hin; apply Hc; apply in_rev; exact Hin|apply IH; intros []].
    + apply IH. intros [Hx|Hin]; [exact (E Hx)|exact (Hc Hin)].
Qed.

Lemma strip_cr_no_nl : forall w, no_nl w -> no_nl (strip_cr w).
Proof.
  intros w H. unfold strip_cr. destruct (rev w) as [|x r] eqn:E; [exact H|].
  destruct (N.eqb x c_cr); [|exact H].
  intro Hin. apply H. rewrite <- (rev_involutive w), E. simpl. apply in_or_app. left. exact Hin.
Qed.

Theorem lines_no_nl : forall s, Forall no_nl (lines s).
Proof.
  intro s. unfold lines. pose proof (split_nl_no_nl s [] (fun H => H)) as H.
  rewrite <- (rev_involutive (split_nl s [])) in H.
  destruct (rev (split_nl s [])) as [|lst r]; [constructor|].
  simpl in H. apply Forall_app in H. destruct H as [Hr Hl].
  apply Forall_app. split.
  - clear Hl. induction Hr as [|w l Hw Hl IH]; [constructor|].
    simpl. constructor; [apply strip_cr_no_nl; exact Hw|exact IH].
  - destruct lst; [constructor|exact Hl].
Qed.

Corollary C12_lines_needs_no_nl : forall (ws : list str) s,
  lines s = ws -> Forall (fun w => ~ In 10%N w) ws.
Proof. intros ws s H. rewrite <- H. apply lines_no_nl. Qed.

(* why each side condition is there (code points: a=97, b=98) *)
Example lines_cex_empty_last :      (* ws = [""] without final newline: the file is empty *)
  lines (join [10%N] [[]]) = [] /\ lines (join [10%N] [[97%N]; []]) = [[97%N]].
Proof. split; reflexivity. Qed.
Example lines_cex_trailing_cr :     (* "a\r" FOLLOWED BY A LINE FEED loses its carriage return *)
  lines (join [10%N] [[97; 13]%N; [98%N]] ++ [10%N]) = [[97%N]; [98%N]] /\
  lines (join [10%N] [[98%N]; [97; 13]%N] ++ [10%N]) = [[98%N]; [97%N]].
Proof. split; reflexivity. Qed.
Example lines_lf_keeps_last_cr :    (* LF file without final newline: a last "a\r" (or "\r") survives *)
  lines (join [10%N] [[98%N]; [97; 13]%N]) = [[98%N]; [97; 13]%N] /\
  lines [97; 13]%N = [[97; 13]%N] /\ lines [13%N] = [[13%N]].
Proof. repeat split; reflexivity. Qed.
Example lines_cex_inner_nl :        (* a test case with a line feed becomes two *)
  lines (join [10%N] [[97; 10; 98]%N] ++ [10%N]) = [[97%N]; [98%N]].
Proof. reflexivity. Qed.
Example lines_crlf_keeps_cr :       (* CRLF file: "a\r" survives, with or without a newline after it *)
  lines (join [13; 10]%N [[97; 13]%N; [98%N]] ++ [13; 10]%N) = [[97; 13]%N; [98%N]] /\
  lines (join [13; 10]%N [[98%N]; [97; 13]%N]) = [[98%N]; [97; 13]%N].
Proof. split; reflexivity. Qed.
Example lines_empty_file_nl :       (* a file consisting of one newline is ONE empty test case *)
  lines [10%N] = [[]] /\ lines [] = [].
Proof. split; reflexivity. Qed.

(* ==================================================================================== *)
(* PART C1 / D (setters) — the bindings call the library setters *)
(* ==================================================================================== *)

(* the integer argument of a Python setter, if it has one *)
Definition py_in_range (s : py_setter) : Prop :=
  match s with
  | py_with_minimum_repetitions q => (0 < q)%Z
  | py_with_minimum_substring_length q => (0 < q)%Z
  | _ => True
  end.

Theorem C14_setters : forall s c,
  py_in_range s -> py_apply s c = apply_setter (py_to_lib s) c.
Proof.
  intros s c Hr. destruct s; simpl in Hr |- *; try reflexivity;
    match goal with
    | |- context [Z.leb ?q 0] =>
        destruct (Z.leb_spec q 0) as [Hle|Hgt]; [lia|];
        destruct (N.eqb_spec (Z.to_N q) 0) as [E|E]; [lia|reflexivity]
    end.
Qed.

(* out of range: the binding raises ValueError with the library's message; the library
   setter it stands for panics with the very same message (zero, and every negative number
   since Z.to_N clamps) *)
Theorem C14_errors : forall q c,
  (q <= 0)%Z ->
  py_apply (py_with_minimum_repetitions q) c = inr msg_MINIMUM_REPETITIONS_MESSAGE /\
  py_apply (py_with_minimum_substring_length q) c = inr msg_MINIMUM_SUBSTRING_LENGTH_MESSAGE /\
  apply_setter (with_minimum_repetitions 0) c = inr msg_MINIMUM_REPETITIONS_MESSAGE /\
  apply_setter (with_minimum_substring_length 0) c = inr msg_MINIMUM_SUBSTRING_LENGTH_MESSAGE.
Proof.
  intros q c Hq. simpl.
  destruct (Z.leb_spec q 0) as [Hle|Hgt]; [|lia].
  repeat split; reflexivity.
Qed.

(* hence, without any range hypothesis: same outcome as the library on the clamped argument *)
Corollary C14_setters_total : forall s c, py_apply s c = apply_setter (py_to_lib s) c.
Proof.
  intros s c. destruct s; simpl; try reflexivity;
    match goal with
    | |- context [Z.leb ?q 0] =>
        destruct (Z.leb_spec q 0) as [Hle|Hgt];
        destruct (N.eqb_spec (Z.to_N q) 0) as [E|E]; try reflexivity; lia
    end.
Qed.

(* wasm: all cases, including the thrown error (`quantity < 1` vs `quantity == 0`) *)
Theorem C17_setters : forall s c, wasm_apply s c = apply_setter (wasm_to_lib s) c.
Proof.
  intros s c. destruct s; simpl; try reflexivity;
    match goal with
    | |- context [N.ltb ?q 1] =>
        destruct (N.ltb_spec q 1) as [Hlt|Hge];
        destruct (N.eqb_spec q 0) as [E|E]; try reflexivity; lia
    end.
Qed.

(* every library setter except syntax highlighting is reachable from both bindings *)
Lemma py_to_lib_onto : forall s, s <> with_syntax_highlighting -> exists p, py_to_lib p = s.
Proof.
  intros s Hs. destruct s; try congruence;
    first [ exists py_with_conversion_of_digits; reflexivity
          | exists py_with_conversion_of_non_digits; reflexivity
          | exists py_with_conversion_of_whitespace; reflexivity
          | exists py_with_conversion_of_non_whitespace; reflexivity
          | exists py_with_conversion_of_words; reflexivity
          | exists py_with_conversion_of_non_words; reflexivity
          | exists py_with_conversion_of_repetitions; reflexivity
          | exists py_with_case_insensitive_matching; reflexivity
          | exists py_with_capturing_groups; reflexivity
          | exists py_with_verbose_mode; reflexivity
          | exists py_without_start_anchor; reflexivity
          | exists py_without_end_anchor; reflexivity
          | exists py_without_anchors; reflexivity
          | match goal with b : bool |- _ =>
              exists (py_with_escaping_of_non_ascii_chars b); reflexivity end
          | match goal with q : N |- _ =>
              exists (py_with_minimum_repetitions (Z.of_N q)); simpl; rewrite N2Z.id; reflexivity end
          | match goal with q : N |- _ =>
              exists (py_with_minimum_substring_length (Z.of_N q)); simpl; rewrite N2Z.id; reflexivity end ].
Qed.

Lemma wasm_to_lib_onto : forall s, s <> with_syntax_highlighting -> exists p, wasm_to_lib p = s.
Proof.
  intros s Hs. destruct s; try congruence;
    first [ exists wasm_withConversionOfDigits; reflexivity
          | exists wasm_withConversionOfNonDigits; reflexivity
          | exists wasm_withConversionOfWhitespace; reflexivity
          | exists wasm_withConversionOfNonWhitespace; reflexivity
          | exists wasm_withConversionOfWords; reflexivity
          | exists wasm_withConversionOfNonWords; reflexivity
          | exists wasm_withConversionOfRepetitions; reflexivity
          | exists wasm_withCaseInsensitiveMatching; reflexivity
          | exists wasm_withCapturingGroups; reflexivity
          | exists wasm_withVerboseMode; reflexivity
          | exists wasm_withoutStartAnchor; reflexivity
          | exists wasm_withoutEndAnchor; reflexivity
          | exists wasm_withoutAnchors; reflexivity
          | match goal with b : bool |- _ =>
              exists (wasm_withEscapingOfNonAsciiChars b); reflexivity end
          | match goal with q : N |- _ =>
              exists (wasm_withMinimumRepetitions q); reflexivity end
          | match goal with q : N |- _ =>
              exists (wasm_withMinimumSubstringLength q); reflexivity end ].
Qed.

(* ==================================================================================== *)
(* PART C2 — the \u{..} rewrite of the Python binding *)
(* ==================================================================================== *)

(* ------------------------------------------------------------------------------------ *)
(* powers of 16, hex digits                                                             *)
(* ------------------------------------------------------------------------------------ *)
Definition p16 (k : nat) : N := (16 ^ N.of_nat k)%N.

Lemma p16_0 : p16 0 = 1%N. Proof. reflexivity. Qed.
Lemma p16_S : forall k, p16 (S k) = (16 * p16 k)%N.
Proof. intro k. unfold p16. rewrite Nat2N.inj_succ, N.pow_succ_r'. reflexivity. Qed.
Lemma p16_pos : forall k, (0 < p16 k)%N.
Proof. induction k; [rewrite p16_0|rewrite p16_S]; lia. Qed.
Lemma p16_mono : forall j k, j <= k -> (p16 j <= p16 k)%N.
Proof.
  intros j k H. induction H; [lia|]. rewrite p16_S. pose proof (p16_pos m). lia.
Qed.

Lemma div16_lt : forall n k, (n < p16 (S k))%N -> (n / 16 < p16 k)%N.
Proof.
  intros n k H. rewrite p16_S in H. apply N.div_lt_upper_bound; [lia|exact H].
Qed.

Lemma div16_ge : forall n k, (p16 (S k) <= n)%N -> (p16 k <= n / 16)%N.
Proof.
  intros n k H. rewrite p16_S in H. apply N.div_le_lower_bound; [lia|exact H].
Qed.

Lemma mod16_lt : forall n, (n mod 16 < 16)%N.
Proof. intro n. apply N.mod_lt. lia. Qed.

Lemma hex_digit_lhex : forall d, (d < 16)%N -> is_lhex (hex_digit d) = true.
Proof.
  intros d H. unfold hex_digit, is_lhex. apply orb_true_iff.
  destruct (N.ltb_spec d 10) as [Hlt|Hge].
  - left. apply andb_true_iff. split; apply N.leb_le; lia.
  - right. apply andb_true_iff. split; apply N.leb_le; lia.
Qed.

Lemma lhex_is_hex : forall c, is_lhex c = true -> is_hex c = true.
Proof.
  intros c H. unfold is_lhex in H. unfold is_hex.
  apply orb_true_iff in H. destruct H as [H|H]; rewrite H; [reflexivity|].
  apply orb_true_r.
Qed.

Lemma hex_digit_val : forall d, (d < 16)%N -> hex_val1 (hex_digit d) = d.
Proof.
  intros d H. unfold hex_digit, hex_val1.
  destruct (N.ltb_spec d 10) as [Hlt|Hge].
  - destruct (N.leb_spec (48 + d) 57) as [H1|H1]; lia.
  - destruct (N.leb_spec (87 + d) 57) as [H1|H1]; [lia|].
    destruct (N.leb_spec (87 + d) 70) as [H2|H2]; lia.
Qed.

(* ------------------------------------------------------------------------------------ *)
(* hex_fixed                                                                            *)
(* ------------------------------------------------------------------------------------ *)
Lemma hex_fixed_length : forall w n, length (hex_fixed w n) = w.
Proof.
  induction w as [|w IH]; intro n; simpl; [reflexivity|].
  rewrite app_length, IH. simpl. lia.
Qed.

Lemma hex_fixed_lhex : forall w n, forallb is_lhex (hex_fixed w n) = true.
Proof.
  induction w as [|w IH]; intro n; simpl; [reflexivity|].
  rewrite forallb_app, IH. simpl. rewrite hex_digit_lhex by apply mod16_lt. reflexivity.
Qed.

Lemma forallb_lhex_hex : forall h, forallb is_lhex h = true -> forallb is_hex h = true.
Proof.
  induction h as [|x h IH]; simpl; intro H; [reflexivity|].
  apply andb_true_iff in H. destruct H as [Hx Hh].
  rewrite (lhex_is_hex _ Hx), (IH Hh). reflexivity.
Qed.

Lemma hex_val_snoc : forall h d, hex_val (h ++ [d]) = (hex_val h * 16 + hex_val1 d)%N.
Proof. intros h d. unfold hex_val. rewrite fold_left_app. reflexivity. Qed.

Lemma hex_val_fixed : forall w n, hex_val (hex_fixed w n) = (n mod p16 w)%N.
Proof.
  induction w as [|w IH]; intro n.
  - simpl. rewrite p16_0, N.mod_1_r. reflexivity.
  - simpl hex_fixed. rewrite hex_val_snoc, IH, hex_digit_val by apply mod16_lt.
    rewrite p16_S. pose proof (p16_pos w) as Hp.
    rewrite (N.mod_mul_r n 16 (p16 w)) by lia. lia.
Qed.

Lemma repeat_snoc : forall (A : Type) (x : A) j, repeat x j ++ [x] = x :: repeat x j.
Proof. intros A x j. induction j as [|j IH]; simpl; [reflexivity|]. rewrite IH. reflexivity. Qed.

Lemma hex_fixed_zero : forall j, hex_fixed j 0 = repeat 48%N j.
Proof.
  induction j as [|j IH]; [reflexivity|].
  simpl hex_fixed. change (0 / 16)%N with 0%N. rewrite IH.
  change (hex_digit (0 mod 16)) with 48%N. apply repeat_snoc.
Qed.

(* leading zeros *)
Lemma hex_fixed_small : forall k j n,
  (n < p16 k)%N -> hex_fixed (j + k) n = repeat 48%N j ++ hex_fixed k n.
Proof.
  induction k as [|k IH]; intros j n H.
  - rewrite p16_0 in H. assert (n = 0%N) by lia. subst n.
    rewrite Nat.add_0_r, hex_fixed_zero. simpl. rewrite app_nil_r. reflexivity.
  - rewrite Nat.add_succ_r. simpl hex_fixed.
    rewrite (IH j (n / 16)%N) by (apply div16_lt; exact H).
    rewrite app_assoc. reflexivity.
Qed.

(* ------------------------------------------------------------------------------------ *)
(* hex_of_N = the shortest hex_fixed                                                    *)
(* ------------------------------------------------------------------------------------ *)
Lemma hex_digits_S : forall f n acc,
  hex_digits (S f) n acc =
  if N.eqb (n / 16) 0 then hex_digit (n mod 16) :: acc
  else hex_digits f (n / 16) (hex_digit (n mod 16) :: acc).
Proof. reflexivity. Qed.

Lemma hex_fixed_S : forall w n,
  hex_fixed (S w) n = hex_fixed w (n / 16) ++ [hex_digit (n mod 16)].
Proof. reflexivity. Qed.

Lemma hex_fixed_1 : forall n, hex_fixed 1 n = [hex_digit (n mod 16)].
Proof. reflexivity. Qed.

Lemma hex_digits_spec : forall f n acc,
  (n < p16 (S f))%N ->
  exists k, 1 <= k /\ hex_digits (S f) n acc = hex_fixed k n ++ acc /\
            (n < p16 k)%N /\ (k = 1 \/ (p16 (k - 1) <= n)%N).
Proof.
  induction f as [|f IH]; intros n acc H.
  - exists 1. split; [lia|]. split; [|split; [exact H|left; reflexivity]].
    change (p16 1) with 16%N in H.
    rewrite hex_digits_S, hex_fixed_1, (N.div_small n 16) by exact H. reflexivity.
  - rewrite hex_digits_S.
    destruct (N.eqb_spec (n / 16) 0) as [E|E].
    + exists 1. split; [lia|]. rewrite hex_fixed_1.
      split; [reflexivity|]. split; [|left; reflexivity].
      change (p16 1) with 16%N.
      destruct (N.lt_ge_cases n 16) as [Hlt|Hge]; [exact Hlt|].
      exfalso. assert (1 <= n / 16)%N by (apply N.div_le_lower_bound; lia). lia.
    + destruct (IH (n / 16)%N (hex_digit (n mod 16) :: acc)) as [k [Hk [Heq [Hlt Hmin]]]].
      { apply div16_lt. exact H. }
      exists (S k). split; [lia|]. split; [|split].
      * rewrite Heq, hex_fixed_S, <- app_assoc. reflexivity.
      * rewrite p16_S. pose proof (N.div_mod' n 16) as Hdm. pose proof (mod16_lt n). lia.
      * right. replace (S k - 1) with k by lia.
        destruct Hmin as [Hk1|Hge].
        -- subst k. change (p16 1) with 16%N.
           destruct (N.lt_ge_cases n 16) as [Hlt'|Hge']; [|exact Hge'].
           exfalso. apply E. apply N.div_small. exact Hlt'.
        -- destruct k as [|k']; [lia|]. replace (S k' - 1) with k' in Hge by lia.
           rewrite p16_S.
           apply N.le_trans with (16 * (n / 16))%N;
             [apply N.mul_le_mono_l; exact Hge | apply N.mul_div_le; lia].
Qed.

Lemma lt_p16_log2 : forall n, (n < p16 (S (N.to_nat (N.log2 n))))%N.
Proof.
  intro n. unfold p16. rewrite Nat2N.inj_succ, N2Nat.id.
  destruct (N.eq_dec n 0) as [E|E].
  - subst n. reflexivity.
  - assert (Hpos : (0 < n)%N) by lia.
    destruct (N.log2_spec n Hpos) as [_ Hlt].
    eapply N.lt_le_trans; [exact Hlt|].
    apply N.pow_le_mono_l. lia.
Qed.

Theorem hex_of_N_spec : forall n,
  exists k, 1 <= k /\ hex_of_N n = hex_fixed k n /\ (n < p16 k)%N /\ (k = 1 \/ (p16 (k - 1) <= n)%N).
Proof.
  intro n. unfold hex_of_N.
  destruct (hex_digits_spec (N.to_nat (N.log2 n)) n [] (lt_p16_log2 n)) as [k [Hk [Heq [Hlt Hmin]]]].
  exists k. rewrite Heq, app_nil_r. repeat split; assumption.
Qed.

(* number of digits of hex_of_N *)
Lemma hex_of_N_digits : forall n w,
  1 <= w -> (n < p16 w)%N ->
  exists k, 1 <= k <= w /\ hex_of_N n = hex_fixed k n /\ (n < p16 k)%N.
Proof.
  intros n w Hw Hn. destruct (hex_of_N_spec n) as [k [Hk [Heq [Hlt Hmin]]]].
  exists k. split; [|split; assumption]. split; [exact Hk|].
  destruct Hmin as [Hk1|Hge]; [lia|].
  destruct (le_lt_dec k w) as [Hle|Hgt]; [exact Hle|].
  exfalso. assert (p16 w <= p16 (k - 1))%N by (apply p16_mono; lia). lia.
Qed.

Lemma pad_fixed : forall w n, 1 <= w -> (n < p16 w)%N -> pad w n = hex_fixed w n.
Proof.
  intros w n Hw Hn. destruct (hex_of_N_digits n w Hw Hn) as [k [[Hk1 Hk2] [Heq Hlt]]].
  unfold pad. rewrite Heq, hex_fixed_length.
  replace w with ((w - k) + k) at 2 by lia.
  symmetry. apply hex_fixed_small. exact Hlt.
Qed.

(* ------------------------------------------------------------------------------------ *)
(* take_hex                                                                             *)
(* ------------------------------------------------------------------------------------ *)
Lemma take_hex_split : forall s h r, take_hex s = (h, r) -> s = h ++ r.
Proof.
  induction s as [|x s IH]; intros h r H; simpl in H.
  - inversion H. reflexivity.
  - destruct (is_lhex x).
    + destruct (take_hex s) as [h' r'] eqn:E. inversion H; subst; clear H.
      simpl. f_equal. apply IH. reflexivity.
    + inversion H. reflexivity.
Qed.

Definition not_lhex_head (r : str) : Prop :=
  match r with [] => True | x :: _ => is_lhex x = false end.

Lemma take_hex_app : forall h r,
  forallb is_lhex h = true -> not_lhex_head r -> take_hex (h ++ r) = (h, r).
Proof.
  induction h as [|x h IH]; intros r Hh Hr; simpl in *.
  - destruct r as [|y r]; [reflexivity|]. simpl. rewrite Hr. reflexivity.
  - apply andb_true_iff in Hh. destruct Hh as [Hx Hh]. rewrite Hx, (IH r Hh Hr). reflexivity.
Qed.

(* ------------------------------------------------------------------------------------ *)
(* py_rewrite: fuel independence and the unfolding equation                             *)
(* ------------------------------------------------------------------------------------ *)

(* one scanning step, with the continuation abstracted *)
Definition py_step (rw : str -> str) (s : str) : str :=
  match s with
  | [] => []
  | x :: s' =>
      if N.eqb x 92 then
        match s' with
        | u :: b :: s'' =>
            if N.eqb u 117 && N.eqb b 123 then
              let (h, r) := take_hex s'' in
              if Nat.leb py_rx_min_digits (length h) && Nat.leb (length h) py_rx_max_digits
              then match r with
                   | k :: r' =>
                       if N.eqb k 125 then py_emit (hex_val h) ++ rw r'
                       else x :: rw s'
                   | [] => x :: rw s'
                   end
              else x :: rw s'
            else x :: rw s'
        | _ => x :: rw s'
        end
      else x :: rw s'
  end.

Lemma py_rewrite_f_S : forall f s, py_rewrite_f (S f) s = py_step (py_rewrite_f f) s.
Proof. reflexivity. Qed.

Lemma py_step_ext : forall rw1 rw2 s,
  (forall t, length t < length s -> rw1 t = rw2 t) -> py_step rw1 s = py_step rw2 s.
Proof.
  intros rw1 rw2 s H. destruct s as [|x s']; [reflexivity|]. simpl in H. unfold py_step.
  assert (Hs' : rw1 s' = rw2 s') by (apply H; lia).
  destruct (N.eqb x 92); [|rewrite Hs'; reflexivity].
  destruct s' as [|u [|b s'']]; try (rewrite Hs'; reflexivity).
  destruct (N.eqb u 117 && N.eqb b 123); [|rewrite Hs'; reflexivity].
  destruct (take_hex s'') as [h r] eqn:E.
  destruct (Nat.leb py_rx_min_digits (length h) && Nat.leb (length h) py_rx_max_digits);
    [|rewrite Hs'; reflexivity].
  destruct r as [|k r']; [rewrite Hs'; reflexivity|].
  destruct (N.eqb k 125); [|rewrite Hs'; reflexivity].
  f_equal. apply H. apply take_hex_split in E. subst s''. simpl.
  rewrite app_length. simpl. lia.
Qed.

Lemma py_rewrite_f_nil : forall f, py_rewrite_f f [] = [].
Proof. destruct f; reflexivity. Qed.

Lemma py_rewrite_fuel : forall f1 f2 s,
  length s <= f1 -> length s <= f2 -> py_rewrite_f f1 s = py_rewrite_f f2 s.
Proof.
  induction f1 as [|f1 IH]; intros f2 s H1 H2.
  - destruct s; [|simpl in H1; lia]. rewrite !py_rewrite_f_nil. reflexivity.
  - destruct f2 as [|f2].
    + destruct s; [|simpl in H2; lia]. rewrite !py_rewrite_f_nil. reflexivity.
    + rewrite !py_rewrite_f_S. apply py_step_ext. intros t Ht. apply IH; lia.
Qed.

(* the unfolding equation: from here on no fuel *)
Theorem py_rewrite_unfold : forall s, py_rewrite s = py_step py_rewrite s.
Proof.
  intro s. unfold py_rewrite at 1. destruct s as [|x s']; [reflexivity|].
  simpl length. rewrite py_rewrite_f_S. apply py_step_ext.
  intros t Ht. simpl in Ht. unfold py_rewrite. apply py_rewrite_fuel; lia.
Qed.

Lemma py_rewrite_nil : py_rewrite [] = [].
Proof. reflexivity. Qed.

Lemma py_rewrite_cons_plain : forall x s, x <> 92%N -> py_rewrite (x :: s) = x :: py_rewrite s.
Proof.
  intros x s H. rewrite py_rewrite_unfold. simpl.
  destruct (N.eqb_spec x 92) as [E|E]; [contradiction|reflexivity].
Qed.

(* a backslash that does not start `\u{` is copied *)
Lemma py_rewrite_backslash_other : forall x s,
  x <> 117%N -> py_rewrite (92%N :: x :: s) = 92%N :: py_rewrite (x :: s).
Proof.
  intros x s H. rewrite py_rewrite_unfold. simpl.
  destruct s as [|b s'']; [reflexivity|].
  destruct (N.eqb_spec x 117) as [E|E]; [contradiction|reflexivity].
Qed.

(* ------------------------------------------------------------------------------------ *)
(* C2: the theorems                                                                     *)
(* ------------------------------------------------------------------------------------ *)
Theorem C14_rewrite_prefix : forall a b : str,
  ~ In 92%N a -> py_rewrite (a ++ b) = a ++ py_rewrite b.
Proof.
  induction a as [|x a IH]; intros b H; [reflexivity|].
  simpl. rewrite py_rewrite_cons_plain.
  - f_equal. apply IH. intro Hin. apply H. right. exact Hin.
  - intro E. apply H. left. exact E.
Qed.

Theorem C14_rewrite_plain : forall s : str, ~ In 92%N s -> py_rewrite s = s.
Proof.
  intros s H. rewrite <- (app_nil_r s) at 1.
  rewrite C14_rewrite_prefix by exact H. apply app_nil_r.
Qed.

(* the generated constants are what the theorem needs: 1..6 digits are rewritten, the BMP
   limit is U+FFFF, the widths are Python's 4 and 8.  Each is discharged by reflexivity, so
   the theorems below BREAK if the source rewrites, say, only 4 and 5 digit escapes. *)
Lemma py_consts_ok :
  Nat.leb py_rx_min_digits 1 = true /\ Nat.leb 6 py_rx_max_digits = true /\
  py_bmp_limit = 65535%N /\ py_bmp_width = 4 /\ py_astral_width = 8.
Proof. repeat split; reflexivity. Qed.

Lemma py_emit_escape : forall c, (c <= 1114111)%N -> py_emit c = py_escape c.
Proof.
  intros c Hc. unfold py_emit, py_escape.
  destruct py_consts_ok as [_ [_ [Hlim [Hw4 Hw8]]]]. rewrite Hlim, Hw4, Hw8.
  destruct (N.leb_spec c 65535) as [Hle|Hgt].
  - rewrite pad_fixed; [reflexivity|lia|]. change (p16 4) with 65536%N. lia.
  - rewrite pad_fixed; [reflexivity|lia|]. change (p16 8) with 4294967296%N. lia.
Qed.

Theorem C14_rewrite_esc : forall c rest,
  (c <= 1114111)%N ->
  py_rewrite (esc_unicode c ++ rest) = py_escape c ++ py_rewrite rest.
Proof.
  intros c rest Hc.
  destruct (hex_of_N_digits c 6) as [k [[Hk1 Hk6] [Heq Hlt]]];
    [lia|change (p16 6) with 16777216%N; lia|].
  rewrite py_rewrite_unfold. unfold esc_unicode. rewrite Heq.
  change (([92; 117; 123]%N ++ hex_fixed k c ++ [125%N]) ++ rest)
    with (92%N :: 117%N :: 123%N :: ((hex_fixed k c ++ [125%N]) ++ rest)).
  rewrite <- app_assoc.
  unfold py_step. change (N.eqb 92 92) with true. change (N.eqb 117 117 && N.eqb 123 123) with true.
  cbv iota.
  match goal with
  | |- context [take_hex ?x] =>
      replace (take_hex x) with (hex_fixed k c, 125%N :: rest)
        by (symmetry; apply (take_hex_app (hex_fixed k c) (125%N :: rest));
            [apply hex_fixed_lhex | reflexivity])
  end.
  rewrite hex_fixed_length.
  destruct py_consts_ok as [Hmin [Hmax _]].
  assert (Hlen : Nat.leb py_rx_min_digits k && Nat.leb k py_rx_max_digits = true).
  { apply andb_true_iff. apply Nat.leb_le in Hmin. apply Nat.leb_le in Hmax.
    split; apply Nat.leb_le; lia. }
  rewrite Hlen. simpl app. change (N.eqb 125 125) with true. cbv iota.
  rewrite hex_val_fixed, N.mod_small by exact Hlt.
  rewrite py_emit_escape by exact Hc. reflexivity.
Qed.

Theorem C14_rewrite_cp : forall c, (c <= 1114111)%N -> py_rewrite (esc_unicode c) = py_escape c.
Proof.
  intros c Hc. rewrite <- (app_nil_r (esc_unicode c)).
  rewrite C14_rewrite_esc by exact Hc. apply app_nil_r.
Qed.

(* Python reads the escape back as the code point *)
Theorem C14_unescape : forall c, (c < 4294967296)%N -> py_unescape (py_escape c) = Some c.
Proof.
  intros c Hc. unfold py_escape.
  destruct (N.leb_spec c 65535) as [Hle|Hgt].
  - change ([92; 117]%N ++ hex_fixed 4 c) with (92%N :: 117%N :: hex_fixed 4 c).
    unfold py_unescape. rewrite hex_fixed_length.
    rewrite (forallb_lhex_hex _ (hex_fixed_lhex 4 c)).
    change (N.eqb 92 92 && N.eqb 117 117 && Nat.eqb 4 4 && true) with true. cbv iota.
    rewrite hex_val_fixed, N.mod_small; [reflexivity|]. change (p16 4) with 65536%N. lia.
  - change ([92; 85]%N ++ hex_fixed 8 c) with (92%N :: 85%N :: hex_fixed 8 c).
    unfold py_unescape. rewrite hex_fixed_length.
    rewrite (forallb_lhex_hex _ (hex_fixed_lhex 8 c)).
    change (N.eqb 92 92 && N.eqb 85 117 && Nat.eqb 8 4 && true) with false.
    change (N.eqb 92 92 && N.eqb 85 85 && Nat.eqb 8 8 && true) with true. cbv iota.
    rewrite hex_val_fixed, N.mod_small; [reflexivity|]. change (p16 8) with 4294967296%N. lia.
Qed.

(* the escape has Python's fixed shape *)
Theorem py_escape_shape : forall c,
  (exists h, py_escape c = [92; 117]%N ++ h /\ length h = 4 /\ (c <= 65535)%N) \/
  (exists h, py_escape c = [92; 85]%N ++ h /\ length h = 8 /\ (65535 < c)%N).
Proof.
  intro c. unfold py_escape. destruct (N.leb_spec c 65535) as [Hle|Hgt].
  - left. exists (hex_fixed 4 c). rewrite hex_fixed_length. repeat split. exact Hle.
  - right. exists (hex_fixed 8 c). rewrite hex_fixed_length. repeat split. exact Hgt.
Qed.

(* a whole sequence of plain pieces and escapes: what grex emits with escaping enabled, as far
   as backslash-free text and \u{..} escapes are concerned *)
Inductive piece := PPlain (a : str) | PEsc (c : N).
Definition piece_src (p : piece) : str := match p with PPlain a => a | PEsc c => esc_unicode c end.
Definition piece_py (p : piece) : str := match p with PPlain a => a | PEsc c => py_escape c end.
Definition piece_ok (p : piece) : Prop :=
  match p with PPlain a => ~ In 92%N a | PEsc c => (c <= 1114111)%N end.

Theorem C14_rewrite_pieces : forall ps,
  Forall piece_ok ps -> py_rewrite (flat_map piece_src ps) = flat_map piece_py ps.
Proof.
  induction ps as [|p ps IH]; intro H; [reflexivity|].
  inversion H as [|p' ps' Hp Hps]; subst.
  destruct p as [a|c]; cbn [flat_map piece_src piece_py piece_ok] in *.
  - rewrite C14_rewrite_prefix by exact Hp. rewrite IH by exact Hps. reflexivity.
  - rewrite C14_rewrite_esc by exact Hp. rewrite IH by exact Hps. reflexivity.
Qed.

(* sanity checks of the model on concrete strings *)
Example py_rewrite_ex_bmp :      (* \u{e9} -> \u00e9 *)
  py_rewrite [92; 117; 123; 101; 57; 125]%N = [92; 117; 48; 48; 101; 57]%N.
Proof. vm_compute. reflexivity. Qed.
Example py_rewrite_ex_astral :   (* a\u{1f600}b -> a\U0001f600b *)
  py_rewrite [97; 92; 117; 123; 49; 102; 54; 48; 48; 125; 98]%N =
  [97; 92; 85; 48; 48; 48; 49; 102; 54; 48; 48; 98]%N.
Proof. vm_compute. reflexivity. Qed.
Example py_rewrite_ex_seven :    (* \u{1234567}: seven digits, not rewritten *)
  py_rewrite [92; 117; 123; 49; 50; 51; 52; 53; 54; 55; 125]%N =
  [92; 117; 123; 49; 50; 51; 52; 53; 54; 55; 125]%N.
Proof. vm_compute. reflexivity. Qed.
Example py_rewrite_ex_upper :    (* \u{E9}: upper-case digit, not rewritten; \u{}: empty, not rewritten *)
  py_rewrite [92; 117; 123; 69; 57; 125]%N = [92; 117; 123; 69; 57; 125]%N /\
  py_rewrite [92; 117; 123; 125]%N = [92; 117; 123; 125]%N.
Proof. split; vm_compute; reflexivity. Qed.
Example py_rewrite_ex_class :    (* \d\u{e9}\w: other escapes are copied *)
  py_rewrite [92; 100; 92; 117; 123; 101; 57; 125; 92; 119]%N =
  [92; 100; 92; 117; 48; 48; 101; 57; 92; 119]%N.
Proof. vm_compute. reflexivity. Qed.
(* NOTE (faithful to replace_all, which is not escape-aware): an ESCAPED backslash followed by
   the text u{41} is rewritten too.  grex never emits this text: a literal `{` is always
   escaped as `\{`. *)
Example py_rewrite_ex_escaped_backslash :
  py_rewrite [92; 92; 117; 123; 52; 49; 125]%N = [92; 92; 117; 48; 48; 52; 49]%N.
Proof. vm_compute. reflexivity. Qed.

(* ==================================================================================== *)
(* PART D — the wasm call tree refines linear library histories *)
(* ==================================================================================== *)

Lemma Forall2_nth_error : forall (A B : Type) (R : A -> B -> Prop) l1 l2 i x d,
  Forall2 R l1 l2 -> nth_error l1 i = Some x -> R x (nth i l2 d).
Proof.
  intros A B R l1 l2 i x d H. revert i. induction H as [|a b l1 l2 Hab Hl IH]; intros i Hi.
  - destruct i; discriminate Hi.
  - destruct i as [|i]; simpl in *.
    + inversion Hi; subst. exact Hab.
    + apply IH. exact Hi.
Qed.

Lemma Forall2_upd : forall (A B : Type) (R : A -> B -> Prop) l1 l2 i x y,
  Forall2 R l1 l2 -> R x y -> Forall2 R (upd l1 i x) (upd l2 i y).
Proof.
  intros A B R l1 l2 i x y H Hxy. revert i. induction H as [|a b l1 l2 Hab Hl IH]; intro i.
  - destruct i; constructor.
  - destruct i as [|i]; simpl; constructor; try assumption. apply IH.
Qed.

Section Wasm.
  Variable isd : cp -> bool.
  Variable db : odb.
  Variable sc : cfg -> list str -> selfcheck.
  Hypothesis Hlow : forall s, lower' db (lower' db s) = lower' db s.

  Notation build_out := (build_out isd db sc).
  Notation bstep := (bstep isd db sc).
  Notation brun := (brun isd db sc).
  Notation wstep := (wstep isd db sc).
  Notation wrun := (wrun isd db sc).
  Notation wexpected := (wexpected isd db sc).

  Lemma brun_app : forall a b st,
    brun st (a ++ b) =
    match brun st a with
    | None => None
    | Some (st1, o1) =>
        match brun st1 b with
        | None => None
        | Some (st2, o2) => Some (st2, o1 ++ o2)
        end
    end.
  Proof.
    induction a as [|op a IH]; intros b st; simpl.
    - destruct (brun st b) as [[st2 o2]|]; reflexivity.
    - destruct (bstep st op) as [[st1 o1]|]; [|reflexivity].
      rewrite IH. destruct (brun st1 a) as [[st2 o2]|]; [|reflexivity].
      destruct (brun st2 b) as [[st3 o3]|]; [|reflexivity].
      rewrite app_assoc. reflexivity.
  Qed.

  Lemma brun_snoc : forall a st0 st o op st' o',
    brun st0 a = Some (st, o) -> bstep st op = Some (st', o') ->
    brun st0 (a ++ [op]) = Some (st', o ++ o').
  Proof.
    intros a st0 st o op st' o' Ha Hs. rewrite brun_app, Ha. simpl. rewrite Hs, app_nil_r.
    reflexivity.
  Qed.

  (* object st is what the LINEAR library history a produces from the initial builder *)
  Definition obj_ok (ws : list str) (c0 : cfg) (st : bstate) (a : list bop) : Prop :=
    exists o, brun (mkB ws c0) a = Some (st, o).

  Lemma obj_ok_facts : forall ws c0 st a,
    obj_ok ws c0 st a ->
    cfg_after c0 a = Some (b_cfg st) /\ build_out (b_cfg st) (b_tcs st) = build_out (b_cfg st) ws.
  Proof.
    intros ws c0 st a [o Hrun].
    destruct (history_general isd db sc Hlow a ws (mkB ws c0) st o) as [_ [Hc [Hrep _]]];
      [left; reflexivity|exact Hrun|].
    split; [exact Hc|].
    apply build_out_norm.
    apply (represents_norm db Hlow ws st (b_cfg st) Hrep). intro H; exact H.
  Qed.

  Lemma wstep_refines : forall ws c0 h ancs op h' o,
    Forall2 (obj_ok ws c0) h ancs ->
    wstep h op = Some (h', o) ->
    Forall2 (obj_ok ws c0) h' (anc_step ancs op) /\
    o = match op with
        | WSet _ _ => []
        | WBuild i => match cfg_after c0 (nth i ancs []) with
                      | Some c => [build_out c ws]
                      | None => []
                      end
        end.
  Proof.
    intros ws c0 h ancs op h' o Hinv Hstep. destruct op as [i s|i]; simpl in Hstep.
    - destruct (nth_error h i) as [st|] eqn:Ei; [|discriminate Hstep].
      destruct (wasm_apply s (b_cfg st)) as [c'|m] eqn:Ea; [|discriminate Hstep].
      inversion Hstep; subst; clear Hstep. split; [|reflexivity].
      assert (Hok : obj_ok ws c0 (mkB (b_tcs st) c') (nth i ancs [] ++ [OSet (wasm_to_lib s)])).
      { destruct (Forall2_nth_error _ _ _ _ _ i st [] Hinv Ei) as [o Hrun].
        exists (o ++ []). eapply brun_snoc; [exact Hrun|].
        simpl. rewrite <- C17_setters, Ea. reflexivity. }
      simpl. apply Forall2_app; [apply Forall2_upd; assumption|].
      constructor; [exact Hok|constructor].
    - destruct (nth_error h i) as [st|] eqn:Ei; [|discriminate Hstep].
      inversion Hstep; subst; clear Hstep.
      pose proof (Forall2_nth_error _ _ _ _ _ i st [] Hinv Ei) as Hst.
      destruct (obj_ok_facts _ _ _ _ Hst) as [Hc Hb]. split.
      + simpl. apply Forall2_upd; [exact Hinv|].
        destruct Hst as [o Hrun]. eexists. eapply brun_snoc; [exact Hrun|reflexivity].
      + rewrite Hc, Hb. reflexivity.
  Qed.

  Theorem wrun_refines : forall ops ws c0 h ancs h' outs,
    Forall2 (obj_ok ws c0) h ancs ->
    wrun h ops = Some (h', outs) ->
    Forall2 (obj_ok ws c0) h' (ancestries ancs ops) /\ outs = wexpected ws c0 ancs ops.
  Proof.
    induction ops as [|op ops IH]; intros ws c0 h ancs h' outs Hinv Hrun; simpl in Hrun.
    - inversion Hrun; subst. split; [exact Hinv|reflexivity].
    - destruct (wstep h op) as [[h1 o1]|] eqn:Es; [|discriminate Hrun].
      destruct (wrun h1 ops) as [[h2 o2]|] eqn:Er; [|discriminate Hrun].
      inversion Hrun; subst; clear Hrun.
      destruct (wstep_refines ws c0 h ancs op h1 o1 Hinv Es) as [Hinv1 Ho1].
      destruct (IH ws c0 h1 (anc_step ancs op) h' o2 Hinv1 Er) as [Hinv2 Ho2].
      split; [exact Hinv2|].
      simpl. rewrite Ho1, Ho2. destruct op; reflexivity.
  Qed.

  (* D: starting from the single object `new RegExpBuilder(ws)`, after ANY run of setter and
     build calls on ANY of the objects created along the way:
       - every object's state is the state of a linear library history (its ancestry);
       - every output is build_out of the settings accumulated along the receiver's ancestry,
         applied to the ORIGINAL test cases. *)
  Theorem C17_refines : forall ops ws h outs,
    wrun [mkB ws src_default_cfg] ops = Some (h, outs) ->
    Forall2 (fun st a => exists o, brun (mkB ws src_default_cfg) a = Some (st, o))
            h (ancestries [[]] ops) /\
    outs = wexpected ws src_default_cfg [[]] ops.
  Proof.
    intros ops ws h outs Hrun.
    apply (wrun_refines ops ws src_default_cfg [mkB ws src_default_cfg] [[]] h outs); [|exact Hrun].
    constructor; [|constructor]. exists []. reflexivity.
  Qed.

  (* ... hence, by C10_history, object i's configuration and test cases are those of its
     ancestry *)
  Corollary C17_object_state : forall ops ws h outs i st,
    wrun [mkB ws src_default_cfg] ops = Some (h, outs) ->
    nth_error h i = Some st ->
    let a := nth i (ancestries [[]] ops) [] in
    cfg_after src_default_cfg a = Some (b_cfg st) /\
    b_tcs st = tcs_after db ws src_default_cfg a.
  Proof.
    intros ops ws h outs i st Hrun Hi a.
    destruct (C17_refines ops ws h outs Hrun) as [Hall _].
    destruct (Forall2_nth_error _ _ _ _ _ i st [] Hall Hi) as [o Ho].
    destruct (C10_history isd db sc Hlow _ _ _ _ Ho) as [_ [Hc Ht]].
    split; assumption.
  Qed.

  (* a run throws exactly when the receiver does not exist or the library setter panics *)
  Lemma wstep_none : forall h op,
    wstep h op = None <->
    match op with
    | WSet i s => match nth_error h i with
                  | None => True
                  | Some st => exists m, apply_setter (wasm_to_lib s) (b_cfg st) = inr m
                  end
    | WBuild i => nth_error h i = None
    end.
  Proof.
    intros h op. destruct op as [i s|i]; simpl.
    - destruct (nth_error h i) as [st|]; [|split; intros; [exact I|reflexivity]].
      rewrite C17_setters. destruct (apply_setter (wasm_to_lib s) (b_cfg st)) as [c'|m].
      + split; [discriminate|]. intros [m Hm]. discriminate Hm.
      + split; [intros _; exists m; reflexivity|reflexivity].
    - destruct (nth_error h i); split; intro H; try discriminate H; reflexivity.
  Qed.
End Wasm.

(* ==================================================================================== *)
(* Summary                                                                              *)
(* ==================================================================================== *)
(* NOT PROVED: nothing of the requested list is left out.  Not attempted: the converses
   (necessity) of the side conditions of C12_lines_lf / C12_lines_crlf as theorems — they are
   witnessed by the lines_cex_* examples instead. *)

Check setter_ci_mono.
Check setter_flags_mono.
Check setter_sur_not_mono.
Check normalise_absorb.
Check build_out_absorb.
Check history_general.
Check C10_history.
Check C10_history_from.
Check build_twice_same.
Check builds_in_between_irrelevant.
Check clone_same.
Check clone_after_build_same.
Check setters_commute.
Check setters_commute_iff.
Check setters_commute_distinct.
Check setter_idem.
Check cli_run.
Check C12_flags.
Check C12_zero_threshold.
Check C12_zero_threshold_len.
Check C12_names_distinct.
Check C12_clap_facts.
Check C12_surrogates.
Check C12_lines_lf.
Check C12_lines_crlf.
Check C14_setters.
Check C14_errors.
Check C14_setters_total.
Check py_rewrite_unfold.
Check C14_rewrite_cp.
Check C14_rewrite_esc.
Check C14_rewrite_plain.
Check C14_rewrite_prefix.
Check C14_rewrite_pieces.
Check C14_unescape.
Check py_escape_shape.
Check C17_setters.
Check wrun_refines.
Check C17_refines.
Check C17_object_state.

Print Assumptions setter_flags_mono.
Print Assumptions normalise_absorb.
Print Assumptions C10_history.
Print Assumptions builds_in_between_irrelevant.
Print Assumptions clone_after_build_same.
Print Assumptions setters_commute_iff.
Print Assumptions setter_idem.
Print Assumptions cli_run.
Print Assumptions C12_flags.
Print Assumptions C12_zero_threshold.
Print Assumptions C12_names_distinct.
Print Assumptions C12_clap_facts.
Print Assumptions C12_lines_lf.
Print Assumptions C12_lines_crlf.
Print Assumptions C12_lines_lf_iff.
Print Assumptions C12_lines_crlf_iff.
Print Assumptions lines_no_nl.
Print Assumptions C14_setters.
Print Assumptions C14_errors.
Print Assumptions C14_rewrite_cp.
Print Assumptions C14_rewrite_esc.
Print Assumptions C14_rewrite_plain.
Print Assumptions C14_rewrite_pieces.
Print Assumptions C14_unescape.
Print Assumptions C17_setters.
Print Assumptions C17_refines.
Print Assumptions C17_object_state.
