(* Every character class built by Expression::from / the pipeline has a strictly increasing
   member list (the BTreeSet<char> invariant of Expression::CharacterClass), i.e. the final
   expression satisfies ColourStrip.expr_wf.  No hypothesis on the configuration or on the
   clusters is needed: classes are only created in union2, by sorted insertion into a set that
   is either an existing class, a singleton, or empty. *)
From Coq Require Import Sorting.Sorted.
From Grex Require Import Base.Str Model.Config Model.Cluster Model.Dfa Model.Expr Model.Print
     Model.Pipeline.
From Grex Require Proofs.PrintShape Proofs.ColourStripPlain Proofs.ColourStripIndent
     Proofs.ColourStrip.
From GrexGen Require Import SrcConsts.

Local Open Scope N_scope.

(* ------------------------------------------------------------------ *)
(** * sorted insertion *)

Lemma cs_add_Forall (P : cp -> Prop) x l : P x -> Forall P l -> Forall P (cset_add x l).
Proof.
  intros Hx H. induction H as [|y l Hy Hl IH]; cbn [cset_add].
  - constructor; [exact Hx|constructor].
  - destruct (N.ltb x y); [constructor; [exact Hx|constructor; assumption]|].
    destruct (N.eqb x y); constructor; auto.
Qed.

Lemma cset_add_sorted x l : StronglySorted N.lt l -> StronglySorted N.lt (cset_add x l).
Proof.
  intros H. induction H as [|y l Hl IH Hy]; cbn [cset_add].
  - constructor; [constructor|constructor].
  - destruct (N.ltb x y) eqn:Elt.
    + apply N.ltb_lt in Elt. constructor.
      * constructor; assumption.
      * constructor; [exact Elt|]. eapply Forall_impl; [|exact Hy].
        intros z Hz. cbv beta in *. eapply N.lt_trans; eassumption.
    + destruct (N.eqb x y) eqn:Eeq.
      * constructor; assumption.
      * apply N.ltb_ge in Elt. apply N.eqb_neq in Eeq.
        constructor; [exact IH|]. apply cs_add_Forall; [|exact Hy].
        apply N.le_neq. split; [exact Elt|]. intros E. apply Eeq. symmetry. exact E.
Qed.

Lemma cset_union_sorted a b : StronglySorted N.lt a -> StronglySorted N.lt (cset_union a b).
Proof.
  unfold cset_union. revert a.
  induction b as [|x b IH]; intros a Ha; cbn [fold_left]; [exact Ha|].
  apply IH. apply cset_add_sorted. exact Ha.
Qed.

(* ------------------------------------------------------------------ *)
(** * the invariant *)

Fixpoint cc_sorted (e : expr) : Prop :=
  match e with
  | EAlt os => (fix go (l : list expr) : Prop :=
                  match l with [] => True | o :: l' => cc_sorted o /\ go l' end) os
  | ECC cs => StronglySorted N.lt cs
  | ECat a b => cc_sorted a /\ cc_sorted b
  | ELit _ => True
  | ERep x _ => cc_sorted x
  end.

Lemma cc_sorted_alt os : cc_sorted (EAlt os) <-> Forall cc_sorted os.
Proof.
  cbn [cc_sorted]. induction os as [|o os IH].
  - split; intros; [constructor|exact I].
  - rewrite IH. split.
    + intros [H1 H2]. constructor; assumption.
    + intros H. inversion H; subst. split; assumption.
Qed.

Lemma cc_sorted_ewf e : cc_sorted e -> ColourStripPlain.ewf (StronglySorted N.lt) (fun _ => True) e.
Proof.
  induction e as [os IH|cs|a b IHa IHb|cl|x q IHx] using PrintShape.expr_ind'; intros H.
  - apply cc_sorted_alt in H. constructor. rewrite Forall_forall in *.
    intros o Ho. apply IH; [exact Ho|]. apply H. exact Ho.
  - constructor. exact H.
  - destruct H as [Ha Hb]. constructor; auto.
  - constructor. exact I.
  - constructor. apply IHx. exact H.
Qed.

Lemma cc_sorted_expr_wf e : cc_sorted e -> ColourStrip.expr_wf e.
Proof. exact (cc_sorted_ewf e). Qed.

(* ------------------------------------------------------------------ *)
(** * maintained by construction *)

Lemma cc_sorted_remove_substring p n e : cc_sorted e -> cc_sorted (remove_substring p n e).
Proof.
  intros H. destruct e as [os|cs|a b|cl|x q]; try exact H.
  - cbn [remove_substring]. destruct H as [Ha Hb].
    destruct p; [destruct a|destruct b]; cbn [cc_sorted]; try split; auto.
Qed.

Lemma flatten_alt_sorted : forall fuel es, Forall cc_sorted es -> Forall cc_sorted (flatten_alt fuel es).
Proof.
  induction fuel as [|f IH]; intros es H; cbn [flatten_alt]; [exact H|].
  apply Forall_flat_map. eapply Forall_impl; [|exact H].
  intros e He. destruct e; try (constructor; [exact He|constructor]).
  apply IH. apply cc_sorted_alt. exact He.
Qed.

Theorem new_alternation_cc_sorted es : Forall cc_sorted es -> cc_sorted (new_alternation es).
Proof.
  intros H. unfold new_alternation. apply cc_sorted_alt. apply PrintShape.sort_by_Forall.
  apply flatten_alt_sorted. exact H.
Qed.

Lemma extract_sorted e s :
  cc_sorted e -> extract_character_set e = Some s -> StronglySorted N.lt s.
Proof.
  intros Hcc Hx. destruct e as [os|cs|a b|cl|x q]; cbn [extract_character_set] in Hx.
  - inversion Hx; subst. constructor.
  - inversion Hx; subst. exact Hcc.
  - inversion Hx; subst. constructor.
  - destruct cl as [|g cl']; [discriminate|].
    destruct (g_value g) as [|x v]; [discriminate|]. inversion Hx; subst.
    constructor; constructor.
  - inversion Hx; subst. constructor.
Qed.

Lemma core_tail_sorted c e1 e2 r :
  cc_sorted e1 -> cc_sorted e2 -> PrintShape.core_tail c e1 e2 = Some r -> cc_sorted r.
Proof.
  intros H1 H2 H. unfold PrintShape.core_tail in H.
  destruct (is_single_codepoint c e1 && is_single_codepoint c e2).
  - destruct (extract_character_set e1) as [s1|] eqn:X1; [|discriminate].
    destruct (extract_character_set e2) as [s2|] eqn:X2; [|discriminate].
    inversion H; subst. cbn [cc_sorted]. apply cset_union_sorted.
    apply (extract_sorted e1 s1); assumption.
  - inversion H; subst. apply new_alternation_cc_sorted. repeat constructor; assumption.
Qed.

Lemma union_core_sorted c e1 e2 r :
  cc_sorted e1 -> cc_sorted e2 ->
  (if is_empty e1 then Some (ERep e2 QQuestion)
   else if is_empty e2 then Some (ERep e1 QQuestion)
   else match e1 with
        | ERep x QQuestion => Some (ERep (new_alternation [x; e2]) QQuestion)
        | _ =>
            match e2 with
            | ERep y QQuestion => Some (ERep (new_alternation [e1; y]) QQuestion)
            | _ =>
                if is_single_codepoint c e1 && is_single_codepoint c e2 then
                  match extract_character_set e1, extract_character_set e2 with
                  | Some s1, Some s2 => Some (ECC (cset_union s1 s2))
                  | _, _ => None
                  end
                else Some (new_alternation [e1; e2])
            end
        end) = Some r -> cc_sorted r.
Proof.
  intros H1 H2 H.
  destruct (is_empty e1); [inversion H; subst; exact H2|].
  destruct (is_empty e2); [inversion H; subst; exact H1|].
  assert (Hna : forall x y, cc_sorted x -> cc_sorted y -> cc_sorted (new_alternation [x; y])).
  { intros. apply new_alternation_cc_sorted. repeat constructor; assumption. }
  destruct e1 as [os1|cs1|a1 b1|cl1|x1 [|]];
    try (destruct e2 as [os2|cs2|a2 b2|cl2|x2 [|]];
         try (eapply (core_tail_sorted c); [exact H1|exact H2|exact H]);
         inversion H; subst; cbn [cc_sorted]; apply Hna; assumption).
Qed.

Theorem union2_cc_sorted c a b r :
  cc_sorted a -> cc_sorted b -> union2 c a b = Some r -> cc_sorted r.
Proof.
  intros Ha Hb H. unfold union2 in H.
  destruct (expr_eqb a b); [inversion H; subst; exact Ha|].
  cbv zeta in H.
  set (cp_ := find_common true a b) in *.
  set (e1 := match cp_ with [] => a | _ :: _ => remove_substring true (length cp_) a end) in *.
  set (e2 := match cp_ with [] => b | _ :: _ => remove_substring true (length cp_) b end) in *.
  set (cs_ := find_common false e1 e2) in *.
  set (e1' := match cs_ with [] => e1 | _ :: _ => remove_substring false (length cs_) e1 end) in *.
  set (e2' := match cs_ with [] => e2 | _ :: _ => remove_substring false (length cs_) e2 end) in *.
  assert (H1 : cc_sorted e1) by (unfold e1; destruct cp_; auto using cc_sorted_remove_substring).
  assert (H2 : cc_sorted e2) by (unfold e2; destruct cp_; auto using cc_sorted_remove_substring).
  assert (H1' : cc_sorted e1') by (unfold e1'; destruct cs_; auto using cc_sorted_remove_substring).
  assert (H2' : cc_sorted e2') by (unfold e2'; destruct cs_; auto using cc_sorted_remove_substring).
  clearbody e1' e2'.
  match type of H with match ?core with _ => _ end = _ =>
    destruct core as [r0|] eqn:Ec; [|discriminate] end.
  apply union_core_sorted in Ec; try assumption.
  inversion H; subst.
  destruct cp_, cs_; cbn [cc_sorted]; auto.
Qed.

Definition cs_opt (o : option expr) : Prop :=
  match o with Some e => cc_sorted e | None => True end.

Theorem concatenate_cc_sorted a b : cs_opt a -> cs_opt b -> cs_opt (concatenate a b).
Proof.
  intros Ha Hb. destruct a as [x|], b as [y|]; try exact I. cbn [cs_opt] in Ha, Hb.
  unfold concatenate.
  destruct (is_empty x); [exact Hb|]. destruct (is_empty y); [exact Ha|].
  repeat match goal with
         | |- cs_opt (match ?e with _ => _ end) => destruct e
         end; cbn [cs_opt cc_sorted] in *; tauto.
Qed.

Lemma union_cc_sorted c a b r :
  cs_opt a -> cs_opt b -> union c a b = Some r -> cs_opt r.
Proof.
  intros Ha Hb H. destruct a as [x|], b as [y|]; cbn [union] in H.
  - destruct (union2 c x y) as [u|] eqn:E; [|discriminate]. inversion H; subst.
    cbn [cs_opt] in *. apply (union2_cc_sorted c x y u); assumption.
  - inversion H; subst; exact Ha.
  - inversion H; subst; exact Hb.
  - inversion H; subst; exact I.
Qed.

Lemma star_cc_sorted a : cs_opt a -> cs_opt (star a).
Proof. destruct a; exact (fun H => H). Qed.

(* matrices *)
Definition v_ok (b : list (option expr)) : Prop := Forall cs_opt b.
Definition m_ok (a : list (list (option expr))) : Prop := Forall v_ok a.
Definition sys_ok (s : option sys) : Prop :=
  match s with Some (a, b) => m_ok a /\ v_ok b | None => True end.

Lemma mget_ok a i j : m_ok a -> cs_opt (mget a i j).
Proof.
  intros H. unfold mget. apply PrintShape.nth_Forall; [exact I|].
  apply (PrintShape.nth_Forall v_ok); [constructor|exact H].
Qed.

Lemma vget_ok b i : v_ok b -> cs_opt (vget b i).
Proof. intros H. unfold vget. apply PrintShape.nth_Forall; [exact I|exact H]. Qed.

Lemma mset_ok a i j v : m_ok a -> cs_opt v -> m_ok (mset a i j v).
Proof.
  intros Ha Hv. unfold mset. apply PrintShape.set_nth_Forall; [|exact Ha].
  apply PrintShape.set_nth_Forall; [exact Hv|].
  apply (PrintShape.nth_Forall v_ok); [constructor|exact Ha].
Qed.

Lemma init_system_ok c d states : sys_ok (init_system c d states).
Proof.
  unfold init_system. apply PrintShape.fold_left_inv.
  - intros acc [i st] Hacc. destruct acc as [[a b]|]; [|exact I].
    apply PrintShape.fold_left_inv.
    + intros acc e Hacc'. destruct acc as [[a' b']|]; [|exact I].
      destruct Hacc' as [Ha' Hb'].
      destruct (position (e_dst e) states 0) as [j|]; [|exact I].
      pose proof (mget_ok a' i j Ha') as Hg.
      destruct (mget a' i j) as [old|].
      * destruct (union2 c old (ELit [e_lbl e])) as [u|] eqn:E; [|exact I].
        cbn [sys_ok]. split; [|exact Hb']. apply mset_ok; [exact Ha'|].
        cbn [cs_opt]. eapply union2_cc_sorted; [exact Hg| |exact E]. exact I.
      * cbn [sys_ok]. split; [|exact Hb']. apply mset_ok; [exact Ha'|exact I].
    + destruct Hacc as [Ha Hb]. cbn [sys_ok]. split; [exact Ha|].
      destruct (set_mem st (d_finals d)); [|exact Hb].
      apply PrintShape.set_nth_Forall; [exact I|exact Hb].
  - cbn [sys_ok]. split.
    + apply PrintShape.repeat_Forall. apply PrintShape.repeat_Forall. exact I.
    + apply PrintShape.repeat_Forall. exact I.
Qed.

Lemma elim_step_ok c acc n : sys_ok acc -> sys_ok (elim_step c acc n).
Proof.
  intros Hacc. unfold elim_step. destruct acc as [[a b]|]; [|exact I].
  destruct Hacc as [Ha Hb].
  match goal with |- sys_ok (let '(a0, b0) := ?p in _) =>
    assert (Hp : m_ok (fst p) /\ v_ok (snd p)); [|destruct p as [a1 b1]] end.
  { pose proof (mget_ok a n n Ha) as Hg. destruct (mget a n n) as [ann|]; [|split; assumption].
    cbn [fst snd]. split.
    - apply PrintShape.fold_left_inv; [|exact Ha]. intros a' j Ha'. apply mset_ok; [exact Ha'|].
      apply concatenate_cc_sorted; [exact Hg|apply mget_ok; exact Ha'].
    - apply PrintShape.set_nth_Forall; [|exact Hb].
      apply concatenate_cc_sorted; [exact Hg|apply vget_ok; exact Hb]. }
  cbn [fst snd] in Hp. destruct Hp as [Ha1 Hb1].
  apply PrintShape.fold_left_inv; [|split; assumption].
  intros acc i Hacc. destruct acc as [[a2 b2]|]; [|exact I]. destruct Hacc as [Ha2 Hb2].
  pose proof (mget_ok a2 i n Ha2) as Hg. destruct (mget a2 i n) as [ain|]; [|split; assumption].
  destruct (union c (vget b2 i) (concatenate (Some ain) (vget b2 n))) as [bi|] eqn:Eu; [|exact I].
  apply union_cc_sorted in Eu;
    [|apply vget_ok; exact Hb2
     |apply concatenate_cc_sorted; [exact Hg|apply vget_ok; exact Hb2]].
  apply PrintShape.fold_left_inv.
  - intros acc j Hacc. destruct acc as [[a3 b3]|]; [|exact I]. destruct Hacc as [Ha3 Hb3].
    destruct (union c (mget a3 i j) (concatenate (Some ain) (mget a3 n j))) as [aij|] eqn:Ea;
      [|exact I].
    apply union_cc_sorted in Ea;
      [|apply mget_ok; exact Ha3
       |apply concatenate_cc_sorted; [exact Hg|apply mget_ok; exact Ha3]].
    split; [apply mset_ok; assumption|exact Hb3].
  - split; [exact Ha2|]. apply PrintShape.set_nth_Forall; assumption.
Qed.

Theorem expr_from_cc_sorted_inv c d e : expr_from c d = Some e -> cc_sorted e.
Proof.
  intros H. unfold expr_from in H.
  destruct (dfs_order d) as [states|]; [|discriminate].
  assert (Hs : sys_ok (fold_left (elim_step c) (rev (seq 0 (d_n d))) (init_system c d states))).
  { apply PrintShape.fold_left_inv; [|apply init_system_ok].
    intros acc n Hacc. apply elim_step_ok; assumption. }
  destruct (fold_left (elim_step c) (rev (seq 0 (d_n d))) (init_system c d states)) as [[a b]|];
    [|discriminate].
  destruct Hs as [_ Hb]. destruct b as [|[e0|] b'].
  - inversion H; subst. exact I.
  - inversion H; subst. inversion Hb; subst. assumption.
  - inversion H; subst. exact I.
Qed.

Theorem final_expr_cc_sorted_inv c cls sc e :
  Pipeline.final_expr c cls sc = Some e -> cc_sorted e.
Proof.
  intros H. unfold final_expr in H.
  destruct (dfa_from cls true) as [d1|]; [|discriminate].
  destruct (expr_from c d1) as [e1|] eqn:E1; [|discriminate].
  pose proof (expr_from_cc_sorted_inv c d1 e1 E1) as H1.
  assert (HA : cc_sorted (new_alternation (map ELit cls))).
  { apply new_alternation_cc_sorted. apply Forall_map. apply Forall_forall. intros; exact I. }
  destruct (f_no_start c && f_no_end c); [|injection H as <-; exact H1].
  destruct sc; try (injection H as <-; exact H1);
    destruct (dfa_from cls false) as [d2|]; try discriminate;
    destruct (expr_from c d2) as [e2|] eqn:E2; try discriminate;
    injection H as <-.
  - exact (expr_from_cc_sorted_inv c d2 e2 E2).
  - exact HA.
Qed.

(* ------------------------------------------------------------------ *)
(** * the exported statements, in terms of ColourStrip.expr_wf *)

Theorem new_alternation_cc_sorted_wf : forall es,
  Forall cc_sorted es -> ColourStrip.expr_wf (new_alternation es).
Proof. intros es H. apply cc_sorted_expr_wf. apply new_alternation_cc_sorted. exact H. Qed.

Lemma expr_wf_cc_sorted e : ColourStrip.expr_wf e -> cc_sorted e.
Proof.
  induction e as [os IH|cs|a b IHa IHb|cl|x q IHx] using PrintShape.expr_ind'; intros H;
    inversion H; subst.
  - apply cc_sorted_alt.
    match goal with Hos : Forall (ColourStripPlain.ewf _ _) os |- _ =>
      rewrite Forall_forall in IH, Hos |- *; intros o Ho; apply IH; [exact Ho|exact (Hos o Ho)] end.
  - assumption.
  - split; auto.
  - exact I.
  - cbn [cc_sorted]. auto.
Qed.

Theorem new_alternation_expr_wf : forall es,
  Forall ColourStrip.expr_wf es -> ColourStrip.expr_wf (new_alternation es).
Proof.
  intros es H. apply new_alternation_cc_sorted_wf.
  eapply Forall_impl; [|exact H]. exact expr_wf_cc_sorted.
Qed.

Theorem expr_from_cc_sorted : forall c d e,
  expr_from c d = Some e -> ColourStrip.expr_wf e.
Proof. intros c d e H. apply cc_sorted_expr_wf. exact (expr_from_cc_sorted_inv c d e H). Qed.

Theorem final_expr_cc_sorted : forall c cls sc e,
  Pipeline.final_expr c cls sc = Some e -> ColourStrip.expr_wf e.
Proof. intros c cls sc e H. apply cc_sorted_expr_wf. exact (final_expr_cc_sorted_inv c cls sc e H). Qed.

Print Assumptions final_expr_cc_sorted.
