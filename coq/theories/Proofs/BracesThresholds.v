(* C13, on the parsed output: every counted repetition {n} / {m,n} of the AST that the regex
   crate's parser builds from the output of build() has an upper count above
   minimum_repetitions, and its operand cannot match fewer characters than
   minimum_substring_length.

     min_len_rast         minimal length (in characters) of a match of a regex AST
     braces_ok            every RRep subterm is uncounted (lo = 0: the `?` / `*` of ERep) or
                          counted_ok
     thr_deep             the threshold invariant of a grapheme, at every nesting depth, in a
                          form closed under the widening of the trie (widened labels have no
                          nested repetitions); thr_ok c g -> thr_deep c g when f_rep c = true
     g_atoms_braces       graphemes   (nested: g_atoms_nested, with the length bound
                                       |expand1 g| <= total minimal length of g_atoms c g)
     e_both_braces        expressions
     final_expr_thr_deep  instance of the provenance theorem
     build_braces_thresholds, build_no_braces_without_rep   the output of build(), both modes *)
From Grex Require Import Base.Str Model.Config Model.Cluster Model.Dfa Model.Expr Model.Print
  Model.Pipeline.
From Grex Require Import Engine.Syntax Engine.Parse.
From Grex Require Import Proofs.Lang Proofs.RepInv Proofs.ExprLang Proofs.ClustersSpec
  Proofs.Provenance Proofs.ProvenanceInst.
From Grex Require Import Proofs.Spec Proofs.PrintParseNum Proofs.PrintParseEsc Proofs.PrintParseDefs
  Proofs.PrintParseLit Proofs.PrintParseShape Proofs.PrintParseXTok.
From Grex Require Import Proofs.PipelinePrintable Proofs.EndToEnd Proofs.EndToEndVerbose
  Proofs.PropsGlueE2E.

(* ====================================================================== *)
(* 1. minimal match length of a regex AST                                  *)
(* ====================================================================== *)

Fixpoint min_len_rast (r : rast) : nat :=
  match r with
  | REmpty | RStart | REnd => 0
  | RLit _ | RPerl _ | RBracket _ => 1
  | RGroup _ r' => min_len_rast r'
  | RRep r' lo _ => N.to_nat lo * min_len_rast r'
  | RCat a b => min_len_rast a + min_len_rast b
  | RAlt a b => Nat.min (min_len_rast a) (min_len_rast b)
  end.

Definition sum_min (l : list rast) : nat := fold_right (fun r n => min_len_rast r + n) 0 l.

Lemma sum_min_app : forall l1 l2, sum_min (l1 ++ l2) = sum_min l1 + sum_min l2.
Proof.
  induction l1 as [|a l1 IH]; intros l2; [reflexivity|].
  cbn [app sum_min fold_right]. fold (sum_min (l1 ++ l2)). fold (sum_min l1). rewrite IH. lia.
Qed.

Lemma min_len_fold_cat : forall l a,
  min_len_rast (fold_left (fun acc b => RCat acc b) l a) = min_len_rast a + sum_min l.
Proof.
  induction l as [|b l IH]; intros a; cbn [fold_left]; [cbn; lia|].
  rewrite IH. cbn [min_len_rast sum_min fold_right]. fold (sum_min l). lia.
Qed.

Lemma min_len_rcat : forall l, min_len_rast (rcat l) = sum_min l.
Proof.
  intros [|a l]; [reflexivity|]. rewrite rcat_cons, min_len_fold_cat. reflexivity.
Qed.

(* ====================================================================== *)
(* 2. the property of an AST                                               *)
(* ====================================================================== *)

Section Braces.
  Variable c0 : cfg.     (* the settings that carry the thresholds *)

  (* a repetition with operand body: uncounted (`?`, `*`), or counted within the thresholds *)
  Definition counted_ok (body : rast) (lo : N) (hi : option N) : Prop :=
    lo = 0%N \/
    exists b, hi = Some b /\ f_rep c0 = true /\ (min_rep c0 < b)%N
              /\ N.to_nat (min_len c0) <= min_len_rast body.

  Fixpoint braces_ok (r : rast) : Prop :=
    match r with
    | RGroup _ r' => braces_ok r'
    | RRep r' lo hi => braces_ok r' /\ counted_ok r' lo hi
    | RCat a b | RAlt a b => braces_ok a /\ braces_ok b
    | _ => True
    end.

  Lemma braces_ok_sub : forall r, braces_ok r ->
    forall r' lo hi, rast_sub (RRep r' lo hi) r -> counted_ok r' lo hi.
  Proof.
    intros r. induction r as [|c|l|items| | |cap0 r IH|r IH lo0 hi0|a IHa b IHb|a IHa b IHb];
      intros Hs r' lo hi Hsub; cbn [braces_ok] in Hs; inversion Hsub; subst.
    - exact (IH Hs r' lo hi H0).
    - destruct Hs as [_ Hs]. exact Hs.
    - destruct Hs as [Hs _]. exact (IH Hs r' lo hi H0).
    - destruct Hs as [Hs _]. exact (IHa Hs r' lo hi H0).
    - destruct Hs as [_ Hs]. exact (IHb Hs r' lo hi H0).
    - destruct Hs as [Hs _]. exact (IHa Hs r' lo hi H0).
    - destruct Hs as [_ Hs]. exact (IHb Hs r' lo hi H0).
  Qed.

  Definition boks (l : list rast) : Prop := Forall braces_ok l.

  Lemma bok_fold_cat : forall l a, braces_ok a -> boks l ->
    braces_ok (fold_left (fun acc b => RCat acc b) l a).
  Proof.
    induction l as [|b l IH]; intros a Ha Hl; [exact Ha|].
    inversion Hl; subst. cbn [fold_left]. apply IH; [split; assumption|assumption].
  Qed.
  Lemma bok_rcat : forall l, boks l -> braces_ok (rcat l).
  Proof.
    intros [|a l] Hl; [exact I|]. rewrite rcat_cons. inversion Hl; subst.
    apply bok_fold_cat; assumption.
  Qed.
  Lemma bok_fold_alt : forall l a, braces_ok a -> boks l ->
    braces_ok (fold_left (fun acc b => RAlt acc b) l a).
  Proof.
    induction l as [|b l IH]; intros a Ha Hl; [exact Ha|].
    inversion Hl; subst. cbn [fold_left]. apply IH; [split; assumption|assumption].
  Qed.
  Lemma bok_ralt : forall l, boks l -> braces_ok (ralt l).
  Proof.
    intros l Hl. unfold ralt, alt_of. rewrite rev_involutive.
    destruct l as [|a l]; [exact I|]. inversion Hl; subst. apply bok_fold_alt; assumption.
  Qed.
  Lemma bok_hd : forall l, boks l -> braces_ok (hd REmpty l).
  Proof. intros l H. destruct H; [exact I|assumption]. Qed.

  (* ---------- the atoms of a string: literals and class tokens ---------- *)
  Definition leaf (r : rast) : Prop :=
    match r with RLit _ | RPerl _ => True | _ => False end.

  Lemma leaf_bok : forall r, leaf r -> braces_ok r.
  Proof. intros [] H; try destruct H; exact I. Qed.
  Lemma leaf_len : forall r, leaf r -> min_len_rast r = 1.
  Proof. intros [] H; try destruct H; reflexivity. Qed.

  Lemma str_atoms_leaf : forall n t, length t <= n -> Forall leaf (str_atoms t).
  Proof.
    induction n as [|n IH]; intros t Hlen.
    - destruct t; [constructor|cbn [length] in Hlen; lia].
    - destruct t as [|x t]; [constructor|]. destruct t as [|l t]; [repeat constructor|].
      cbn [length] in Hlen. cbn [str_atoms].
      destruct (N.eqb x c_backslash && is_class_letter l).
      + constructor; [exact I|apply IH; lia].
      + constructor; [exact I|apply (IH (l :: t)); cbn [length]; lia].
  Qed.

  Lemma str_atoms_nonnil : forall t, t <> [] -> str_atoms t <> [].
  Proof.
    intros [|x [|l t]] H; [congruence|discriminate|]. cbn [str_atoms].
    destruct (N.eqb x c_backslash && is_class_letter l); discriminate.
  Qed.

  Lemma leaves_sum : forall l, Forall leaf l -> sum_min l = length l.
  Proof.
    induction 1 as [|a l Ha _ IH]; [reflexivity|].
    cbn [sum_min fold_right length]. fold (sum_min l). rewrite IH, (leaf_len a Ha). reflexivity.
  Qed.

  Lemma str_atoms_sum : forall t, t <> [] -> 1 <= sum_min (str_atoms t).
  Proof.
    intros t Ht. rewrite (leaves_sum _ (str_atoms_leaf (length t) t (le_n _))).
    pose proof (str_atoms_nonnil t Ht) as H. destruct (str_atoms t); [congruence|cbn [length]; lia].
  Qed.

  Lemma chars_leaf : forall cs, Forall leaf (flat_map str_atoms cs).
  Proof.
    induction cs as [|t cs IH]; [constructor|]. cbn [flat_map]. apply Forall_app.
    split; [apply (str_atoms_leaf (length t)); lia|exact IH].
  Qed.

  Lemma chars_bok : forall cs, boks (flat_map str_atoms cs).
  Proof. intros cs. eapply Forall_impl; [|apply chars_leaf]. exact leaf_bok. Qed.

  Lemma chars_sum : forall cs, Forall (fun t : str => t <> []) cs ->
    length cs <= sum_min (flat_map str_atoms cs).
  Proof.
    induction 1 as [|t cs Ht _ IH]; [cbn; lia|].
    cbn [flat_map length]. rewrite sum_min_app. pose proof (str_atoms_sum t Ht). lia.
  Qed.

  (* ---------- the escaped form of a non-empty string is not empty ---------- *)
  Lemma escape_cp_nonnil : forall b x, escape_cp b x <> [].
  Proof.
    intros b x. unfold escape_cp, esc_unicode.
    destruct (N.ltb x 128); [discriminate|]. destruct (b && is_astral x); discriminate.
  Qed.

  Lemma esc_str_nonnil : forall c t, t <> [] -> esc_str c t <> [].
  Proof.
    intros c t Ht. unfold esc_str.
    assert (E : escape_symbols_str t <> []).
    { rewrite escape_symbols_flat. cbv zeta.
      destruct (str_eqb (flat_map esc1 t) [c_backslash]); [discriminate|].
      destruct t as [|y t]; [congruence|]. cbn [flat_map].
      pose proof (esc1_nonempty y) as N. destruct (esc1 y); [congruence|discriminate]. }
    destruct (f_esc c); [|exact E].
    destruct (escape_symbols_str t) as [|y u]; [congruence|]. cbn [flat_map].
    pose proof (escape_cp_nonnil (f_sur c) y) as N.
    destruct (escape_cp (f_sur c) y); [congruence|discriminate].
  Qed.

  (* the printer omits the group only around a single string *)
  Lemma single_one : forall c (cs : list str), cs <> [] -> Forall (fun t : str => t <> []) cs ->
    chars_single (map (esc_str c) cs) = true -> length cs = 1.
  Proof.
    intros c cs Hne HF H. destruct cs as [|t1 [|t2 cs]]; [congruence|reflexivity|].
    exfalso. rewrite chars_single_false in H; [discriminate|cbn [map length]; lia|].
    apply Forall_map. eapply Forall_impl; [|exact HF]. intros t Ht. apply esc_str_nonnil. exact Ht.
  Qed.

  (* ====================================================================== *)
  (* 3. graphemes                                                            *)
  (* ====================================================================== *)

  Section Atoms.
    Variable c : cfg.    (* the settings of the printer *)

    (* the atoms of g are within the thresholds ... *)
    Definition gB (g : grapheme) : Prop := boks (g_atoms c g).
    (* ... and cannot match fewer characters than the expansion of g has graphemes *)
    Definition gL (g : grapheme) : Prop :=
      N.to_nat (g_max g) * length (g_chars g) <= sum_min (g_atoms c g).

    Lemma length_concat_repeat : forall {A} (l : list A) n,
      length (concat (repeat l n)) = n * length l.
    Proof.
      intros A l n. induction n as [|n IH]; [reflexivity|].
      cbn [repeat concat]. rewrite app_length, IH. reflexivity.
    Qed.

    Lemma expand1_length : forall g,
      length (expand1 g) = N.to_nat (g_max g) * length (g_chars g).
    Proof. intros g. unfold expand1. rewrite length_concat_repeat, map_length. reflexivity. Qed.

    Lemma expand_sum : forall rs, Forall gL rs ->
      length (expand rs) <= sum_min (flat_map (g_atoms c) rs).
    Proof.
      induction 1 as [|r rs Hr _ IH]; [cbn; lia|].
      unfold expand in *. cbn [flat_map]. rewrite app_length, sum_min_app, expand1_length.
      unfold gL in Hr. lia.
    Qed.

    Lemma inner_facts : forall cs rs,
      Forall (fun t : str => t <> []) cs ->
      (rs = [] \/ (expand rs = map g_from cs /\ 2 <= length cs)) ->
      Forall (fun r => gB r /\ gL r) rs ->
      boks (g_inner c cs rs) /\ length cs <= sum_min (g_inner c cs rs).
    Proof.
      intros cs rs Hcs Hrs HF. unfold g_inner. destruct rs as [|r rs].
      - split; [apply chars_bok|apply chars_sum; exact Hcs].
      - destruct Hrs as [Hrs|[Hex _]]; [discriminate|]. split.
        + clear Hex. induction HF as [|r' rs' [Hr _] _ IH]; [constructor|].
          cbn [flat_map]. apply Forall_app. split; [exact Hr|exact IH].
        + assert (HL : Forall gL (r :: rs)).
          { eapply Forall_impl; [|exact HF]. intros g [_ Hg]. exact Hg. }
          pose proof (expand_sum (r :: rs) HL) as Hle. rewrite Hex, map_length in Hle. exact Hle.
    Qed.

    Lemma atoms_of_inner : forall cs rs a b,
      cs <> [] -> Forall (fun t : str => t <> []) cs ->
      boks (g_inner c cs rs) -> length cs <= sum_min (g_inner c cs rs) ->
      ((a = 1%N /\ b = 1%N) \/
       (f_rep c0 = true /\ (min_rep c0 < b)%N /\ (min_len c0 <= N.of_nat (length cs))%N)) ->
      boks (g_atoms c (G cs rs a b))
      /\ N.to_nat a * length cs <= sum_min (g_atoms c (G cs rs a b)).
    Proof.
      intros cs rs a b Hne Hcs I1 I2 Hthr. rewrite g_atoms_unfold.
      destruct (N.eqb a 1 && N.eqb b 1) eqn:E11.
      - apply andb_true_iff in E11. destruct E11 as [Ea _]. apply N.eqb_eq in Ea. subst a.
        split; [exact I1|]. change (N.to_nat 1) with 1. lia.
      - set (body := if g_single c cs rs then hd REmpty (g_inner c cs rs)
                     else RGroup (f_cap c) (rcat (g_inner c cs rs))).
        assert (Hb : braces_ok body /\ length cs <= min_len_rast body).
        { unfold body. destruct (g_single c cs rs) eqn:Es.
          - split; [apply bok_hd; exact I1|].
            unfold g_single in Es. destruct rs as [|r rs]; [|discriminate].
            rewrite (single_one c cs Hne Hcs Es).
            pose proof (single_one c cs Hne Hcs Es) as H1.
            destruct cs as [|t [|t2 cs]]; cbn [length] in H1; try lia.
            inversion Hcs as [|? ? Ht _]; subst.
            unfold g_inner. cbn [flat_map]. rewrite app_nil_r.
            pose proof (str_atoms_nonnil t Ht) as Hn.
            pose proof (str_atoms_leaf (length t) t (le_n _)) as Hl.
            destruct (str_atoms t) as [|x l]; [congruence|]. inversion Hl; subst.
            cbn [hd]. rewrite (leaf_len x); [lia|assumption].
          - cbn [braces_ok min_len_rast]. split; [apply bok_rcat; exact I1|].
            rewrite min_len_rcat. exact I2. }
        destruct Hb as [Hb1 Hb2]. split.
        + constructor; [|constructor]. cbn [braces_ok]. split; [exact Hb1|].
          destruct Hthr as [[-> ->]|(Hr & Hm & Hl)]; [discriminate E11|].
          right. exists b. repeat split; try assumption. lia.
        + cbn [sum_min fold_right min_len_rast]. nia.
    Qed.

    (* nested graphemes (members of a `reps` vector): thr_ok is recursive *)
    Lemma g_atoms_nested : f_rep c0 = true ->
      forall g, wf_pg true g -> thr_ok c0 g -> gB g /\ gL g.
    Proof.
      intros Hrep. induction g as [cs rs a b IH] using grapheme_ind'. intros Hwf Hthr.
      apply wf_pg_unfold in Hwf.
      destruct Hwf as (Hne & Htok & Ha & _ & _ & Hrs & Hwfrs).
      inversion Hthr as [cs' rs' a' b' Hab Hcase Hdeep]; subst cs' rs' a' b'. subst b.
      assert (Hcs : Forall (fun t : str => t <> []) cs).
      { eapply Forall_impl; [|exact Htok]. intros t [Ht _]. exact Ht. }
      assert (HF : Forall (fun r => gB r /\ gL r) rs).
      { rewrite Forall_forall in *. intros r Hr. apply (IH r Hr); [apply Hwfrs|apply Hdeep]; exact Hr. }
      destruct (inner_facts cs rs Hcs Hrs HF) as [I1 I2].
      assert (Hthr' : (a = 1%N /\ a = 1%N) \/
               (f_rep c0 = true /\ (min_rep c0 < a)%N /\ (min_len c0 <= N.of_nat (length cs))%N)).
      { destruct Hcase as [[-> _]|[H1 H2]]; [left; split; reflexivity|right; auto]. }
      destruct (atoms_of_inner cs rs a a Hne Hcs I1 I2 Hthr') as [A B].
      split; [exact A|]. unfold gL. cbn [g_max g_chars]. exact B.
    Qed.
  End Atoms.

  (* the invariant of the graphemes of the final expression: thresholds at the top (min and
     max may differ after widening), thr_ok below; without repetition conversion, nothing *)
  Definition thr_deep (g : grapheme) : Prop :=
    thr_lbl c0 g /\ Forall (thr_ok c0) (g_reps g)
    /\ (f_rep c0 = false -> unit_g g /\ g_reps g = []).

  Lemma thr_ok_deep : f_rep c0 = true -> forall g, thr_ok c0 g -> thr_deep g.
  Proof.
    intros Hr g H. split; [apply thr_ok_lbl; exact H|]. split.
    - inversion H; subst. cbn [g_reps]. assumption.
    - intros X. congruence.
  Qed.

  Lemma plain_deep : forall g, plain g -> thr_deep g.
  Proof.
    intros g [s ->]. split; [left; split; reflexivity|]. split; [constructor|].
    intros _. split; [split; reflexivity|reflexivity].
  Qed.

  Lemma thr_deep_widen : widen_closed thr_deep.
  Proof.
    intros g h (G1 & _ & G3) (H1 & _ & H3) Hc Hm. split; [|split].
    - apply thr_lbl_widen; assumption.
    - constructor.
    - intros Hr. destruct (G3 Hr) as [Gu _]. destruct (H3 Hr) as [Hu _].
      split; [apply unit_g_widen; assumption|reflexivity].
  Qed.

  (* top-level graphemes (elements of a literal) *)
  Theorem g_atoms_braces : forall c g, wf_pg false g -> thr_deep g -> boks (g_atoms c g).
  Proof.
    intros c [cs rs a b] Hwf (Hlbl & Hdeep & Hno).
    apply wf_pg_unfold in Hwf.
    destruct Hwf as (Hne & Htok & Ha & _ & _ & Hrs & Hwfrs).
    cbn [g_reps] in *.
    assert (Hcs : Forall (fun t : str => t <> []) cs).
    { eapply Forall_impl; [|exact Htok]. intros t [Ht _]. exact Ht. }
    assert (X : Forall (fun r => gB c r /\ gL c r) rs
                /\ ((a = 1%N /\ b = 1%N) \/
                    (f_rep c0 = true /\ (min_rep c0 < b)%N
                     /\ (min_len c0 <= N.of_nat (length cs))%N))).
    { destruct (f_rep c0) eqn:Hr.
      - split.
        + rewrite Forall_forall in *. intros r Hin.
          apply (g_atoms_nested c Hr r); [apply Hwfrs|apply Hdeep]; exact Hin.
        + unfold thr_lbl in Hlbl. cbn [g_min g_max g_chars] in Hlbl.
          destruct Hlbl as [H|[H1 H2]]; [left; exact H|right; auto].
      - destruct (Hno eq_refl) as [[Hu1 Hu2] ->]. cbn [g_min g_max] in *.
        split; [constructor|left; split; assumption]. }
    destruct X as [HF Hthr].
    destruct (inner_facts c cs rs Hcs Hrs HF) as [I1 I2].
    exact (proj1 (atoms_of_inner c cs rs a b Hne Hcs I1 I2 Hthr)).
  Qed.

  (* no `?` / `*` inside the atoms of a grapheme: every repetition there is counted *)
  Lemma g_atoms_no_zero : forall c g nested, wf_pg nested g ->
    forall x, In x (g_atoms c g) -> forall body hi, ~ rast_sub (RRep body 0%N hi) x.
  Proof.
    intros c. induction g as [cs rs a b IH] using grapheme_ind'. intros nested Hwf.
    apply wf_pg_unfold in Hwf. destruct Hwf as (_ & _ & Ha & _ & _ & _ & Hwfrs).
    assert (Hin : forall x, In x (g_inner c cs rs) ->
                  forall body hi, ~ rast_sub (RRep body 0%N hi) x).
    { unfold g_inner. destruct rs as [|r rs].
      - intros x Hx body hi Hs. pose proof (chars_leaf cs) as HL.
        rewrite Forall_forall in HL. specialize (HL x Hx).
        destruct x; try destruct HL; inversion Hs.
      - intros x Hx. apply in_flat_map in Hx. destruct Hx as (r' & Hr' & Hx).
        rewrite Forall_forall in IH, Hwfrs. exact (IH r' Hr' true (Hwfrs r' Hr') x Hx). }
    rewrite g_atoms_unfold. destruct (N.eqb a 1 && N.eqb b 1); [exact Hin|].
    intros x [<-|[]] body hi Hs. inversion Hs as [| |? ? ? H0| | | |]; subst; [lia|].
    destruct (g_single c cs rs).
    - destruct (g_inner c cs rs) as [|y l]; [inversion H0|].
      cbn [hd] in H0. exact (Hin y (or_introl eq_refl) body hi H0).
    - inversion H0 as [|? ? H1| | | | |]; subst.
      destruct (sub_rcat_inv (RRep body 0%N hi) _ I H1) as (y & Hy & Hs'). exact (Hin y Hy body hi Hs').
  Qed.

  (* the repetitions occurring in the atoms of a grapheme, in elementary terms *)
  Corollary g_atoms_reps : forall c g, wf_pg false g -> thr_deep g ->
    forall x body lo hi, In x (g_atoms c g) -> rast_sub (RRep body lo hi) x ->
      exists b, hi = Some b /\ (1 <= lo)%N /\ f_rep c0 = true /\ (min_rep c0 < b)%N
                /\ N.to_nat (min_len c0) <= min_len_rast body.
  Proof.
    intros c g Hwf Hd x body lo hi Hx Hs.
    pose proof (g_atoms_braces c g Hwf Hd) as HB. unfold boks in HB. rewrite Forall_forall in HB.
    assert (Hlo : lo <> 0%N).
    { intros ->. exact (g_atoms_no_zero c g false Hwf x Hx body hi Hs). }
    destruct (braces_ok_sub x (HB x Hx) body lo hi Hs) as [E|(b & -> & H1 & H2 & H3)];
      [contradiction|].
    exists b. split; [reflexivity|]. split; [lia|]. auto.
  Qed.
End Braces.

(* ====================================================================== *)
(* 4. expressions                                                          *)
(* ====================================================================== *)

Section Exprs.
  Variable c0 : cfg.   (* thresholds *)
  Variable c : cfg.    (* printer *)

  Lemma e_both_braces : forall gap e, wf_print_gen gap e -> expr_all (thr_deep c0) e ->
    boks c0 (e_atoms c e) /\ boks c0 (e_alts c e).
  Proof.
    intros gap.
    assert (Hna : forall e, (forall os, e <> EAlt os) -> boks c0 (e_atoms c e) ->
                            boks c0 (e_atoms c e) /\ boks c0 (e_alts c e)).
    { intros e Hn H. split; [exact H|]. rewrite (e_alts_nonalt c e Hn).
      constructor; [apply bok_rcat; exact H|constructor]. }
    assert (Hgrp : forall x, boks c0 (e_alts c x) ->
                             braces_ok c0 (RGroup (f_cap c) (ralt (e_alts c x)))).
    { intros x H. cbn [braces_ok]. apply bok_ralt. exact H. }
    induction e as [os IH|cs|a b IHa IHb|cl|x q IHx] using expr_ind'; intros Hwf Hall.
    - apply wf_print_alt in Hwf. destruct Hwf as [_ Hwf].
      apply expr_all_alt_iff in Hall.
      assert (Hal : boks c0 (flat_map (e_alts c) os)).
      { apply Forall_forall. intros y Hy. apply in_flat_map in Hy. destruct Hy as (o & Ho & Hy).
        rewrite Forall_forall in IH, Hwf, Hall.
        destruct (IH o Ho (Hwf o Ho) (Hall o Ho)) as [_ H2].
        unfold boks in H2. rewrite Forall_forall in H2. exact (H2 y Hy). }
      rewrite e_atoms_alt, e_alts_alt. split; [|exact Hal].
      constructor; [|constructor]. cbn [braces_ok]. apply bok_ralt. exact Hal.
    - apply Hna; [intros os; discriminate|]. rewrite e_atoms_cc.
      constructor; [exact I|constructor].
    - cbn [wf_print_gen] in Hwf. destruct Hwf as [Hwa Hwb]. destruct Hall as [Ha Hb].
      destruct (IHa Hwa Ha) as [A1 A2]. destruct (IHb Hwb Hb) as [B1 B2].
      apply Hna; [intros os; discriminate|]. rewrite e_atoms_cat. apply Forall_app.
      unfold e_part. split.
      + destruct (needs_group c 2 a); [constructor; [apply Hgrp; exact A2|constructor]|exact A1].
      + destruct (needs_group c 2 b); [constructor; [apply Hgrp; exact B2|constructor]|exact B1].
    - cbn [wf_print_gen] in Hwf. cbn [expr_all] in Hall.
      apply Hna; [intros os; discriminate|]. rewrite e_atoms_lit.
      apply Forall_forall. intros y Hy. apply in_flat_map in Hy. destruct Hy as (g & Hg & Hy).
      rewrite Forall_forall in Hwf, Hall.
      pose proof (g_atoms_braces c0 c g (Hwf g Hg) (Hall g Hg)) as HB.
      unfold boks in HB. rewrite Forall_forall in HB. exact (HB y Hy).
    - cbn [wf_print_gen] in Hwf. destruct Hwf as [Hwx _]. cbn [expr_all] in Hall.
      destruct (IHx Hwx Hall) as [X1 X2].
      apply Hna; [intros os; discriminate|]. rewrite e_atoms_rep.
      constructor; [|constructor]. cbn [braces_ok]. split.
      + destruct (needs_group c 3 x); [apply Hgrp; exact X2|apply bok_hd; exact X1].
      + left. reflexivity.
  Qed.

  Lemma top_rast_braces : forall gap e, wf_print_gen gap e -> expr_all (thr_deep c0) e ->
    braces_ok c0 (top_rast c e).
  Proof.
    intros gap e Hwf Hall. destruct (e_both_braces gap e Hwf Hall) as [H _].
    unfold top_rast. apply bok_rcat. unfold top_atoms. apply Forall_app. split.
    - destruct (f_no_start c); [constructor|constructor; [exact I|constructor]].
    - apply Forall_app. split; [exact H|].
      destruct (f_no_end c); [constructor|constructor; [exact I|constructor]].
  Qed.
End Exprs.

(* ====================================================================== *)
(* 5. the pipeline                                                         *)
(* ====================================================================== *)

Theorem grapheme_clusters_thr_deep : forall c db ws,
  Forall (Forall (thr_deep c)) (grapheme_clusters c db ws).
Proof.
  intros c db ws. rewrite grapheme_clusters_map. apply Forall_map. apply Forall_forall.
  intros s _. pose proof (cluster_gk_plain c db s) as Hpl. unfold cluster_r.
  destruct (f_rep c) eqn:Hr.
  - eapply Forall_impl; [|exact (convert_thresholds_strong c _ Hpl)]. apply thr_ok_deep. exact Hr.
  - eapply Forall_impl; [|exact Hpl]. apply plain_deep.
Qed.

Theorem final_expr_thr_deep : forall c db ws sc e,
  Pipeline.final_expr c (grapheme_clusters c db ws) sc = Some e -> expr_all (thr_deep c) e.
Proof.
  intros c db ws sc e H.
  exact (final_expr_all_Q (thr_deep c) (thr_deep_widen c) c _ sc e
           (grapheme_clusters_thr_deep c db ws) (grapheme_clusters_wf c db ws) H).
Qed.

(* in elementary terms, for the graphemes of the literals of the final expression *)
Corollary final_expr_thr_deep_lit : forall c db ws sc e g,
  Pipeline.final_expr c (grapheme_clusters c db ws) sc = Some e -> lit_in g e ->
  thr_lbl c g /\ Forall (thr_ok c) (g_reps g)
  /\ (f_rep c = false -> (g_min g = 1%N /\ g_max g = 1%N) /\ g_reps g = []).
Proof.
  intros c db ws sc e g H Hg.
  exact (expr_all_lit_in _ e g (final_expr_thr_deep c db ws sc e H) Hg).
Qed.

(* ====================================================================== *)
(* 6. build(): the parsed output, both modes                               *)
(* ====================================================================== *)

(* every repetition of the parsed output: `*`, `?`, or counted {lo,b} with 1 <= lo <= b,
   (lo,b) <> (1,1), repetition conversion enabled, b above minimum_repetitions, and an operand
   whose matches have at least minimum_substring_length characters *)
Theorem build_braces_full : forall isd is_ws c db sc ws s,
  ws <> [] ->
  Forall (Forall scalar) ws ->
  (forall s0, In s0 ws -> Forall scalar (lower' db s0)) ->
  oracle_ok db (normalise c db ws) ->
  printable c -> (if f_verbose c then ws_x is_ws else ws_ok is_ws) ->
  build isd c db sc ws = Some s ->
  exists r, parse is_ws s = Some (mkF (f_ci c) (f_verbose c), r)
    /\ forall body lo hi, rast_sub (RRep body lo hi) r ->
         (lo = 0%N /\ (hi = None \/ hi = Some 1%N))
         \/ exists b, hi = Some b /\ (1 <= lo)%N /\ (lo <= b)%N /\ ~ (lo = 1%N /\ b = 1%N)
              /\ f_rep c = true /\ (min_rep c < b)%N
              /\ N.to_nat (min_len c) <= min_len_rast body.
Proof.
  intros isd is_ws c db sc ws s Hne Hsc Hlow Hok Hp Hws H.
  destruct (build_parse_any isd is_ws c db sc ws s Hne (normalise_scalar c db ws Hsc Hlow)
              Hok Hp Hws H) as (e & He & Hwf & _ & Hpar).
  destruct (top_atoms_shape c True e Hwf) as (_ & _ & _ & _ & Hok').
  pose proof (top_rast_braces c c True e Hwf (final_expr_thr_deep c db _ sc e He)) as HB.
  exists (top_rast c e). split; [exact Hpar|].
  intros body lo hi Hs.
  pose proof (top_reps c e Hok' body lo hi Hs) as Hshape.
  pose proof (braces_ok_sub c (top_rast c e) HB body lo hi Hs) as Hc.
  destruct Hshape as [[-> ->]|[[-> ->]|(b & -> & H1 & H2 & H3)]].
  - left. auto.
  - left. auto.
  - right. destruct Hc as [->|(b' & E & H4 & H5 & H6)]; [lia|].
    injection E as <-. exists b. repeat split; assumption.
Qed.

(* the statement of C13 on the parsed output *)
Theorem build_braces_thresholds : forall isd is_ws c db sc ws s,
  ws <> [] ->
  Forall (Forall scalar) ws ->
  (forall s0, In s0 ws -> Forall scalar (lower' db s0)) ->
  oracle_ok db (normalise c db ws) ->
  printable c -> (if f_verbose c then ws_x is_ws else ws_ok is_ws) ->
  build isd c db sc ws = Some s ->
  exists r, parse is_ws s = Some (mkF (f_ci c) (f_verbose c), r)
    /\ (forall body lo hi, rast_sub (RRep body lo (Some hi)) r -> lo <> 0%N ->
          f_rep c = true /\ (min_rep c < hi)%N /\ N.to_nat (min_len c) <= min_len_rast body)
    /\ (forall body lo, rast_sub (RRep body lo None) r -> lo = 0%N)
    /\ (f_rep c = false -> forall body lo hi, rast_sub (RRep body lo hi) r -> lo = 0%N).
Proof.
  intros isd is_ws c db sc ws s Hne Hsc Hlow Hok Hp Hws H.
  destruct (build_braces_full isd is_ws c db sc ws s Hne Hsc Hlow Hok Hp Hws H) as (r & Hr & HB).
  exists r. split; [exact Hr|]. split; [|split].
  - intros body lo hi Hs Hlo.
    destruct (HB body lo (Some hi) Hs) as [[E _]|(b & E & _ & _ & _ & H1 & H2 & H3)];
      [contradiction|]. injection E as <-. auto.
  - intros body lo Hs.
    destruct (HB body lo None Hs) as [[E _]|(b & E & _)]; [exact E|discriminate].
  - intros Hr0 body lo hi Hs.
    destruct (HB body lo hi Hs) as [[E _]|(b & _ & _ & _ & _ & H1 & _)]; [exact E|congruence].
Qed.

(* non-vacuity: ["aaa"; "xyxy"] with the default thresholds (1, 1) gives a{3} and (?:xy){2} *)
Definition ex_cfg : cfg :=
  mkCfg 1 1 false false false false false false true false false false false false false false false.
Definition ex_expr : expr :=
  EAlt [ELit [G [[97%N]] [] 3 3]; ELit [G [[120%N]; [121%N]] [] 2 2]].
Example ex_final_expr :
  Pipeline.final_expr ex_cfg
    (grapheme_clusters ex_cfg [] (normalise ex_cfg [] [[97; 97; 97]; [120; 121; 120; 121]]%N))
    SCPass1 = Some ex_expr.
Proof. vm_compute. reflexivity. Qed.
Example ex_top_rast :
  top_rast ex_cfg ex_expr
  = RCat (RCat RStart
            (RGroup false (RAlt (RRep (RLit 97%N) 3%N (Some 3%N))
                                (RRep (RGroup false (RCat (RLit 120%N) (RLit 121%N))) 2%N (Some 2%N)))))
         REnd.
Proof. vm_compute. reflexivity. Qed.
Example ex_min_len :
  min_len_rast (RGroup false (RCat (RLit 120%N) (RLit 121%N))) = 2 /\
  min_len_rast (top_rast ex_cfg ex_expr) = 3.
Proof. split; reflexivity. Qed.

Check min_len_rast.
Check braces_ok_sub.
Check g_atoms_nested.
Check g_atoms_braces.
Check g_atoms_reps.
Check e_both_braces.
Check top_rast_braces.
Check thr_deep_widen.
Check grapheme_clusters_thr_deep.
Check final_expr_thr_deep.
Check final_expr_thr_deep_lit.
Check build_braces_full.
Check build_braces_thresholds.
Print Assumptions g_atoms_braces.
Print Assumptions g_atoms_reps.
Print Assumptions final_expr_thr_deep.
Print Assumptions build_braces_full.
Print Assumptions build_braces_thresholds.
