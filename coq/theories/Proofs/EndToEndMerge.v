(* END TO END, at the string level, WITHOUT the hypothesis no_merge (known finding K1: with
   repetition conversion the trie construction may widen an edge in place).

   PropsGlueE2E.build_sound_cs / build_sound_ci go through Construction.construction_lang (the
   language of the final expression IS the specification), which needs no_merge.  Soundness
   alone needs less: HopcroftAny.final_expr_sound_with_merge (every specification string is in
   the language of the final expression, for every trie).  Composition with

     EndToEndVerbose.build_parse_any   the output of build parses to top_rast c e
     PrintParse.top_rast_lang          that AST has the language of e
     ScalarHay                         haystacks of scalar values

   gives, for both modes and with or without (?i):

     build_parse_sound_any       every specification string is matched by the parsed output
     build_parse_sound_hay       ... on scalar haystacks, for denotations that are surrogate
                                 free on scalar haystack characters only
     build_sound_cs_any, build_sound_ci_any (+ _nv / _v)
                                 every test case is matched: the statements of
                                 PropsGlueE2E.build_sound_cs / _ci minus no_merge
     build_within_trie_hay       the parsed output matches nothing outside the TRIE language
     K1 located (module Sanity)  "abc" "abbd" with repetition conversion: the printed pattern
                                 ab{1,2}[cd] matches "abd", which is not specified; the trie
                                 accepts it already *)
From Grex Require Import Base.Str Base.Ranges Model.Config Model.Cluster Model.Dfa Model.Expr
  Model.Print.
From Grex Require Import Engine.Syntax Engine.Parse Engine.Sem.
From Grex Require Import Proofs.Lang Proofs.Spec Proofs.NormaliseDet Proofs.ClustersSpec
  Proofs.FoldTables Proofs.EngineDen.
From Grex Require Import Proofs.PrintParseNum Proofs.PrintParseDefs Proofs.PrintParseShape
  Proofs.PrintParse.
From Grex Require Import Proofs.PrintParseXTok Proofs.PrintParseXSim Proofs.PrintParseXPrint
  Proofs.PrintParseX.
From Grex Require Import Proofs.Construction Proofs.PipelinePrintable Proofs.EndToEnd
  Proofs.EndToEndVerbose.
From Grex Require Import Proofs.PropsGlue Proofs.ScalarHay Proofs.PropsGlueE2E.
From Grex Require Import Proofs.HopcroftAny Proofs.MergeLang.
From Grex Require Import Model.Pipeline.
From GrexGen Require Import GrexTables OracleTables.

(* ====================================================================== *)
(* 1. any denotation                                                       *)
(* ====================================================================== *)

(* the parsed output matches every specification string: either mode, any self-check outcome,
   merged trie edges or not *)
Theorem build_parse_sound_any : forall lit_den cls_den isd is_ws c db sc ws s,
  ws <> [] ->
  Forall (Forall scalar) (normalise c db ws) ->
  oracle_ok db (normalise c db ws) ->
  printable c -> ws_for c is_ws ->
  (forall c0 x, surrogate c0 -> ~ lit_den c0 x) ->
  build isd c db sc ws = Some s ->
  exists fl r, parse is_ws s = Some (fl, r) /\ fl_i fl = f_ci c /\ fl_x fl = f_verbose c
    /\ forall u, Spec lit_den cls_den c db ws u ->
         (u <> [] \/ K4 (normalise c db ws) = false) -> L_rast lit_den cls_den r u.
Proof.
  intros lit_den cls_den isd is_ws c db sc ws s Hne Hsc Hok Hp Hws Hsur H.
  destruct (build_parse_any isd is_ws c db sc ws s Hne Hsc Hok Hp Hws H)
    as (e & He & Hwf & _ & Hpar).
  pose proof (top_rast_lang c Hp True lit_den cls_den (fun _ => Hsur) e Hwf) as HL.
  exists (mkF (f_ci c) (f_verbose c)), (top_rast c e).
  split; [exact Hpar|]. split; [reflexivity|]. split; [reflexivity|].
  intros u HS Hside. apply (HL u).
  exact (final_expr_sound_with_merge lit_den cls_den c db sc ws e Hne Hok He u HS Hside).
Qed.

(* ... and nothing outside the language of the pipeline's trie *)
Theorem build_within_trie_any : forall lit_den cls_den isd is_ws c db sc ws s t,
  ws <> [] ->
  Forall (Forall scalar) (normalise c db ws) ->
  oracle_ok db (normalise c db ws) ->
  printable c -> ws_for c is_ws ->
  (forall c0 x, surrogate c0 -> ~ lit_den c0 x) ->
  trie_of (grapheme_clusters c db (normalise c db ws)) = Some t ->
  build isd c db sc ws = Some s ->
  exists fl r, parse is_ws s = Some (fl, r) /\ fl_i fl = f_ci c /\ fl_x fl = f_verbose c
    /\ (forall u, Spec lit_den cls_den c db ws u ->
          (u <> [] \/ K4 (normalise c db ws) = false) -> L_rast lit_den cls_den r u)
    /\ (forall u, L_rast lit_den cls_den r u -> L_dfa lit_den cls_den t u).
Proof.
  intros lit_den cls_den isd is_ws c db sc ws s t Hne Hsc Hok Hp Hws Hsur Ht H.
  destruct (build_parse_any isd is_ws c db sc ws s Hne Hsc Hok Hp Hws H)
    as (e & He & Hwf & _ & Hpar).
  pose proof (top_rast_lang c Hp True lit_den cls_den (fun _ => Hsur) e Hwf) as HL.
  destruct (final_expr_sandwich lit_den cls_den c db sc ws e t Hne Hok Ht He) as [A B].
  exists (mkF (f_ci c) (f_verbose c)), (top_rast c e).
  split; [exact Hpar|]. split; [reflexivity|]. split; [reflexivity|]. split.
  - intros u HS Hside. apply (HL u). exact (A u HS Hside).
  - intros u Hu. apply B. apply (HL u). exact Hu.
Qed.

(* ====================================================================== *)
(* 2. scalar haystacks                                                     *)
(* ====================================================================== *)
Theorem build_parse_sound_hay : forall (lit cls : cp -> cp -> Prop) isd is_ws c db sc ws s,
  ws <> [] ->
  Forall (Forall scalar) (normalise c db ws) ->
  oracle_ok db (normalise c db ws) ->
  printable c -> ws_for c is_ws ->
  (forall c0 x, surrogate c0 -> ~ on_scalar lit c0 x) ->
  build isd c db sc ws = Some s ->
  exists fl r, parse is_ws s = Some (fl, r) /\ fl_i fl = f_ci c /\ fl_x fl = f_verbose c
    /\ forall u, Forall scalar u -> Spec lit cls c db ws u ->
         (u <> [] \/ K4 (normalise c db ws) = false) -> L_rast lit cls r u.
Proof.
  intros lit cls isd is_ws c db sc ws s Hne Hsc Hok Hp Hws Hsur H.
  destruct (build_parse_sound_any (on_scalar lit) cls isd is_ws c db sc ws s
              Hne Hsc Hok Hp Hws Hsur H) as (fl & r & Hpar & Hi & Hx & A).
  exists fl, r. split; [exact Hpar|]. split; [exact Hi|]. split; [exact Hx|].
  intros u Hu HS Hside.
  apply (L_rast_on_scalar lit cls r u Hu). apply (A u); [|exact Hside].
  apply (Spec_on_scalar lit cls c db ws u Hu). exact HS.
Qed.

(* the parsed output matches no scalar haystack outside the trie language (at the denotation
   restricted to scalar haystack characters) *)
Theorem build_within_trie_hay : forall (lit cls : cp -> cp -> Prop) isd is_ws c db sc ws s t,
  ws <> [] ->
  Forall (Forall scalar) (normalise c db ws) ->
  oracle_ok db (normalise c db ws) ->
  printable c -> ws_for c is_ws ->
  (forall c0 x, surrogate c0 -> ~ on_scalar lit c0 x) ->
  trie_of (grapheme_clusters c db (normalise c db ws)) = Some t ->
  build isd c db sc ws = Some s ->
  exists fl r, parse is_ws s = Some (fl, r) /\ fl_i fl = f_ci c /\ fl_x fl = f_verbose c
    /\ (forall u, Forall scalar u -> Spec lit cls c db ws u ->
          (u <> [] \/ K4 (normalise c db ws) = false) -> L_rast lit cls r u)
    /\ (forall u, Forall scalar u -> L_rast lit cls r u -> L_dfa (on_scalar lit) cls t u).
Proof.
  intros lit cls isd is_ws c db sc ws s t Hne Hsc Hok Hp Hws Hsur Ht H.
  destruct (build_within_trie_any (on_scalar lit) cls isd is_ws c db sc ws s t
              Hne Hsc Hok Hp Hws Hsur Ht H) as (fl & r & Hpar & Hi & Hx & A & B).
  exists fl, r. split; [exact Hpar|]. split; [exact Hi|]. split; [exact Hx|]. split.
  - intros u Hu HS Hside.
    apply (L_rast_on_scalar lit cls r u Hu). apply (A u); [|exact Hside].
    apply (Spec_on_scalar lit cls c db ws u Hu). exact HS.
  - intros u Hu HL. apply B. apply (L_rast_on_scalar lit cls r u Hu). exact HL.
Qed.

(* ====================================================================== *)
(* 3. C01: every test case is matched by the parsed output                 *)
(* ====================================================================== *)
Theorem build_sound_cs_any : forall isd is_ws c db sc ws s,
  f_ci c = false ->
  ws <> [] ->
  Forall (Forall scalar) ws ->
  oracle_ok db (normalise c db ws) ->
  printable c -> ws_for c is_ws ->
  build isd c db sc ws = Some s ->
  exists fl r, parse is_ws s = Some (fl, r) /\ fl_i fl = false /\ fl_x fl = f_verbose c
    /\ forall t, In t ws -> (t <> [] \/ K4 (normalise c db ws) = false) ->
         L_rast lit_cs cls_engine r t.
Proof.
  intros isd is_ws c db sc ws s Hci Hne Hsc Hok Hp Hws H.
  destruct (build_parse_sound_hay lit_cs cls_engine isd is_ws c db sc ws s Hne
              (normalise_scalar_cs c db ws Hci Hsc) Hok Hp Hws lit_cs_sur H)
    as (fl & r & Hpar & Hi & Hx & A).
  exists fl, r. split; [exact Hpar|]. split; [rewrite Hi; exact Hci|]. split; [exact Hx|].
  intros t Ht Hside.
  assert (Hts : Forall scalar t) by (rewrite Forall_forall in Hsc; exact (Hsc t Ht)).
  apply (A t Hts); [|exact Hside]. unfold Spec, Spec_cases. rewrite Hci.
  exists t. split; [exact Ht|].
  apply Spec_str_self. apply Forall_scalar_is_scalar. exact Hts.
Qed.

(* under (?i): the ORIGINAL test case, when its lower-casing is code-point-wise and it avoids
   the skew set (known finding K3) *)
Theorem build_sound_ci_any : forall isd is_ws c db sc ws s,
  f_ci c = true ->
  ws <> [] ->
  Forall (Forall scalar) ws ->
  (forall s0, In s0 ws -> Forall scalar (lower' db s0)) ->
  oracle_ok db (normalise c db ws) ->
  printable c -> ws_for c is_ws ->
  build isd c db sc ws = Some s ->
  exists fl r, parse is_ws s = Some (fl, r) /\ fl_i fl = true /\ fl_x fl = f_verbose c
    /\ forall t, In t ws ->
         lower' db t = map lower1 t ->
         Forall (fun x => mem_cp x skew_set = false) t ->
         (t <> [] \/ K4 (normalise c db ws) = false) ->
         L_rast lit_ci cls_engine r t.
Proof.
  intros isd is_ws c db sc ws s Hci Hne Hsc Hlow Hok Hp Hws H.
  destruct (build_parse_sound_hay lit_ci cls_engine isd is_ws c db sc ws s Hne
              (normalise_scalar c db ws Hsc Hlow) Hok Hp Hws lit_ci_sur H)
    as (fl & r & Hpar & Hi & Hx & A).
  exists fl, r. split; [exact Hpar|]. split; [rewrite Hi; exact Hci|]. split; [exact Hx|].
  intros t Ht Hl Hsk Hside.
  assert (Hts : Forall scalar t) by (rewrite Forall_forall in Hsc; exact (Hsc t Ht)).
  apply (A t Hts); [|exact Hside]. unfold Spec, Spec_cases. rewrite Hci.
  exists (lower' db t). split; [apply in_map; exact Ht|]. rewrite Hl.
  apply Spec_str_lower_original.
  apply Forall_forall. intros x Hx'. rewrite Forall_forall in Hts, Hsk.
  split; [apply scalar_is_scalar; exact (Hts x Hx')|exact (Hsk x Hx')].
Qed.

(* ---------- the non-verbose and the verbose instances, as stated in Props/C01.v ---------- *)
Theorem build_sound_cs_any_nv : forall isd is_ws c db sc ws s,
  f_ci c = false ->
  ws <> [] ->
  Forall (Forall scalar) ws ->
  oracle_ok db (normalise c db ws) ->
  printable c -> f_verbose c = false -> ws_ok is_ws ->
  build isd c db sc ws = Some s ->
  exists fl r, parse is_ws s = Some (fl, r) /\ fl_i fl = false /\ fl_x fl = false
    /\ forall t, In t ws -> (t <> [] \/ K4 (normalise c db ws) = false) ->
         L_rast lit_cs cls_engine r t.
Proof.
  intros isd is_ws c db sc ws s Hci Hne Hsc Hok Hp Hv Hws H.
  pose proof (build_sound_cs_any isd is_ws c db sc ws s Hci Hne Hsc Hok Hp
                (ws_for_nv c is_ws Hv Hws) H) as R.
  rewrite Hv in R. exact R.
Qed.

Theorem build_sound_cs_any_v : forall isd is_ws c db sc ws s,
  f_ci c = false ->
  ws <> [] ->
  Forall (Forall scalar) ws ->
  oracle_ok db (normalise c db ws) ->
  printable c -> f_verbose c = true -> ws_x is_ws ->
  build isd c db sc ws = Some s ->
  exists fl r, parse is_ws s = Some (fl, r) /\ fl_i fl = false /\ fl_x fl = true
    /\ forall t, In t ws -> (t <> [] \/ K4 (normalise c db ws) = false) ->
         L_rast lit_cs cls_engine r t.
Proof.
  intros isd is_ws c db sc ws s Hci Hne Hsc Hok Hp Hv Hws H.
  pose proof (build_sound_cs_any isd is_ws c db sc ws s Hci Hne Hsc Hok Hp
                (ws_for_v c is_ws Hv Hws) H) as R.
  rewrite Hv in R. exact R.
Qed.

Theorem build_sound_ci_any_nv : forall isd is_ws c db sc ws s,
  f_ci c = true ->
  ws <> [] ->
  Forall (Forall scalar) ws ->
  (forall s0, In s0 ws -> Forall scalar (lower' db s0)) ->
  oracle_ok db (normalise c db ws) ->
  printable c -> f_verbose c = false -> ws_ok is_ws ->
  build isd c db sc ws = Some s ->
  exists fl r, parse is_ws s = Some (fl, r) /\ fl_i fl = true /\ fl_x fl = false
    /\ forall t, In t ws ->
         lower' db t = map lower1 t ->
         Forall (fun x => mem_cp x skew_set = false) t ->
         (t <> [] \/ K4 (normalise c db ws) = false) ->
         L_rast lit_ci cls_engine r t.
Proof.
  intros isd is_ws c db sc ws s Hci Hne Hsc Hlow Hok Hp Hv Hws H.
  pose proof (build_sound_ci_any isd is_ws c db sc ws s Hci Hne Hsc Hlow Hok Hp
                (ws_for_nv c is_ws Hv Hws) H) as R.
  rewrite Hv in R. exact R.
Qed.

Theorem build_sound_ci_any_v : forall isd is_ws c db sc ws s,
  f_ci c = true ->
  ws <> [] ->
  Forall (Forall scalar) ws ->
  (forall s0, In s0 ws -> Forall scalar (lower' db s0)) ->
  oracle_ok db (normalise c db ws) ->
  printable c -> f_verbose c = true -> ws_x is_ws ->
  build isd c db sc ws = Some s ->
  exists fl r, parse is_ws s = Some (fl, r) /\ fl_i fl = true /\ fl_x fl = true
    /\ forall t, In t ws ->
         lower' db t = map lower1 t ->
         Forall (fun x => mem_cp x skew_set = false) t ->
         (t <> [] \/ K4 (normalise c db ws) = false) ->
         L_rast lit_ci cls_engine r t.
Proof.
  intros isd is_ws c db sc ws s Hci Hne Hsc Hlow Hok Hp Hv Hws H.
  pose proof (build_sound_ci_any isd is_ws c db sc ws s Hci Hne Hsc Hlow Hok Hp
                (ws_for_v c is_ws Hv Hws) H) as R.
  rewrite Hv in R. exact R.
Qed.

Check build_parse_sound_any.
Check build_within_trie_any.
Check build_parse_sound_hay.
Check build_within_trie_hay.
Check build_sound_cs_any.
Check build_sound_ci_any.
Print Assumptions build_parse_sound_any.
Print Assumptions build_within_trie_any.
Print Assumptions build_parse_sound_hay.
Print Assumptions build_within_trie_hay.
Print Assumptions build_sound_cs_any.
Print Assumptions build_sound_ci_any.
Print Assumptions build_sound_cs_any_nv.
Print Assumptions build_sound_cs_any_v.
Print Assumptions build_sound_ci_any_nv.
Print Assumptions build_sound_ci_any_v.
