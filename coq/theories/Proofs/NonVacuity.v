(* Non-vacuity of the property theorems: concrete "worlds" (configuration, oracle data, self-check
   outcome, test cases) that satisfy the hypotheses the theorems of Props/*.v carry, with the
   expression and the output string the model computes there.  Everything is closed by
   computation inside the kernel (vm_compute); nothing here is a property by itself — an
   implication no input satisfies would mean nothing, and these lemmas show that the implications
   of Props/*.v are about inputs that exist, in every region of the flag lattice they speak of:
   default settings, shorthand classes + (?i), repetition conversion without and WITH trie
   widening, verbose + capturing groups + both anchors disabled (every self-check outcome),
   escaping with surrogate pairs (self-check skipped), syntax highlighting.

   The worlds are also replayed on the implementation by the check (lib/kernelcheck.py reads the
   strings below from this file's sibling evidence: corpus entries tagged "nonvacuity"). *)
From Coq Require Import List NArith Bool Arith. Import ListNotations.
From Grex Require Import Base.Str Base.Ranges Model.Config Model.Cluster Model.Dfa Model.Expr Model.Print Model.Pipeline.
From GrexGen Require Import OracleTables.
From Grex Require Import Engine.Syntax Engine.Parse.
From Coq Require Import Lia.
From Grex Require Import Proofs.Spec Proofs.PrintParseDefs Proofs.PrintParseNum Proofs.PrintParseXTok Proofs.EndToEndVerbose.
Local Open Scope N_scope.

Definition isd (c : cp) : bool := mem_ranges engine_d c.
Definition is_ws_std (c : cp) : bool := mem std_whitespace c.

(* oracle entry of an all-ASCII-like string: its own lower-casing, one code point per cluster, no Mark/Other *)
Definition e_plain (s : str) : oentry := mkO s s (map (fun _ => 1%nat) s) (map (fun _ => false) s).
Definition e_lower (s l : str) : oentry := mkO s l (map (fun _ => 1%nat) s) (map (fun _ => false) s).

(* the boolean form of oracle_ok *)
Definition oracle_okb (db : odb) (ws : list str) : bool :=
  forallb (fun s => Nat.eqb (length (Pipeline.cat_of db s)) (length s)) ws.
Lemma oracle_okb_ok : forall db ws, oracle_okb db ws = true -> oracle_ok db ws.
Proof.
  intros db ws H s Hin. unfold oracle_okb in H. rewrite forallb_forall in H.
  apply Nat.eqb_eq. apply H. exact Hin.
Qed.

Definition scalarsb (ws : list str) : bool := forallb (forallb is_scalar_value) ws.
Lemma scalarsb_ok : forall ws, scalarsb ws = true -> Forall (Forall scalar) ws.
Proof.
  intros ws H. unfold scalarsb in H. rewrite forallb_forall in H.
  apply Forall_forall. intros s Hs. apply Forall_forall. intros x Hx.
  specialize (H s Hs). rewrite forallb_forall in H. exact (H x Hx).
Qed.

(* what every world provides *)
Record world_ok (c : cfg) (db : odb) (sc : selfcheck) (ws : list str) (nm : bool) (e : expr) (s : str) : Prop := {
  w_nonempty : ws <> [];
  w_scalar : Forall (Forall scalar) ws;
  w_oracle : oracle_ok db (normalise c db ws);
  w_sc : sc_admissible c sc = true;
  w_no_merge : no_merge (grapheme_clusters c db (normalise c db ws)) = nm;
  w_expr : final_expr c (grapheme_clusters c db (normalise c db ws)) sc = Some e;
  w_build : build isd c db sc ws = Some s
}.

Ltac world :=
  constructor;
  [ discriminate
  | apply scalarsb_ok; vm_compute; reflexivity
  | apply oracle_okb_ok; vm_compute; reflexivity
  | vm_compute; reflexivity
  | vm_compute; reflexivity
  | vm_compute; reflexivity
  | vm_compute; reflexivity ].

(* pattern whitespace of the engine model *)
Lemma ws_x_std : ws_x is_ws_std.
Proof. intro x. reflexivity. Qed.
Lemma ws_ok_std : ws_ok is_ws_std.
Proof.
  intros c Hc. unfold is_ws_std.
  assert (E : forallb (fun x => negb (mem std_whitespace x)) [48;49;50;51;52;53;54;55;56;57;44;125] = true) by (vm_compute; reflexivity).
  rewrite forallb_forall in E.
  assert (Hin : In c [48;49;50;51;52;53;54;55;56;57;44;125]).
  { destruct Hc as [[H1 H2]|[H|H]]; [|subst; simpl; tauto|subst; simpl; tauto].
    assert (c = 48 \/ c = 49 \/ c = 50 \/ c = 51 \/ c = 52 \/ c = 53 \/ c = 54 \/ c = 55 \/ c = 56 \/ c = 57) by lia.
    simpl. intuition. }
  specialize (E c Hin). apply negb_true_iff in E. exact E.
Qed.
Lemma ws_for_std : forall c, ws_for c is_ws_std.
Proof. intro c. apply ws_for_x. exact ws_x_std. Qed.

(* ---------------------------------------------------------------------------------------- *)
(* W1: default settings, two test cases sharing a prefix:  ["ab","ac"] -> ^a[bc]$ *)
Definition ws1 : list str := [[97;98];[97;99]].
Definition db1 : odb := map e_plain ws1.
Lemma W1 : world_ok default_cfg db1 SCPass1 ws1 true
  (ECat (ELit [G [[97]] [] 1 1]) (ECC [98; 99])) [94; 97; 91; 98; 99; 93; 36].
Proof. world. Qed.
Lemma W1_printable : printable default_cfg. Proof. split; reflexivity. Qed.
Lemma W1_default : f_digit default_cfg = false /\ f_non_digit default_cfg = false /\ f_space default_cfg = false /\
  f_non_space default_cfg = false /\ f_word default_cfg = false /\ f_non_word default_cfg = false.
Proof. repeat split. Qed.
Lemma W1_no_eps : ~ In [] ws1. Proof. intros [H|[H|[]]]; discriminate. Qed.
Lemma W1_K4 : K4 (normalise default_cfg db1 ws1) = false. Proof. vm_compute. reflexivity. Qed.
(* ---------------------------------------------------------------------------------------- *)
(* W2: repetition conversion, no trie widening:  ["aaa","b"] -> ^(?:a{3}|b)$
   model output: ^(?:b|a{3})$ *)
Definition ws_W2 : list str := [[97;97;97]; [98]].
Definition c_W2 : cfg := (mkCfg 1 1 false false false false false false true false false false false false false false false).
Definition db_W2 : odb := map e_plain ws_W2.
Lemma W2 : world_ok c_W2 db_W2 SCPass1 ws_W2 true
  (EAlt [ELit [G [[98]] [] 1 1]; ELit [G [[97]] [] 3 3]])
  [94; 40; 63; 58; 98; 124; 97; 123; 51; 125; 41; 36].
Proof. world. Qed.
Lemma W2_K4 : K4 (normalise c_W2 db_W2 ws_W2) = false. Proof. vm_compute. reflexivity. Qed.

(* ---------------------------------------------------------------------------------------- *)
(* W2m: repetition conversion WITH trie widening (the region of K1; no_merge = false):  ["ba","bb"] -> ^b{1,2}a?$
   model output: ^b{1,2}a?$ *)
Definition ws_W2m : list str := [[98;97]; [98;98]].
Definition c_W2m : cfg := (mkCfg 1 1 false false false false false false true false false false false false false false false).
Definition db_W2m : odb := map e_plain ws_W2m.
Lemma W2m : world_ok c_W2m db_W2m SCPass1 ws_W2m false
  (ECat (ELit [G [[98]] [] 1 2]) (ERep (ELit [G [[97]] [] 1 1]) QQuestion))
  [94; 98; 123; 49; 44; 50; 125; 97; 63; 36].
Proof. world. Qed.
Lemma W2m_K4 : K4 (normalise c_W2m db_W2m ws_W2m) = false. Proof. vm_compute. reflexivity. Qed.

(* ---------------------------------------------------------------------------------------- *)
(* W3: digits + case-insensitive:  ["A1","a2"] -> (?i)^a\\d$
   model output: (?i)^a\d$ *)
Definition ws_W3 : list str := [[65;49]; [97;50]].
Definition c_W3 : cfg := (mkCfg 1 1 true false false false false false false true false false false false false false false).
Definition db_W3 : odb := [e_lower [65;49] [97;49]; e_plain [97;49]; e_plain [97;50]].
Lemma W3 : world_ok c_W3 db_W3 SCPass1 ws_W3 true
  (ELit [G [[97]] [] 1 1; G [[92; 100]] [] 1 1])
  [40; 63; 105; 41; 94; 97; 92; 100; 36].
Proof. world. Qed.
Lemma W3_K4 : K4 (normalise c_W3 db_W3 ws_W3) = false. Proof. vm_compute. reflexivity. Qed.

(* ---------------------------------------------------------------------------------------- *)
(* W4a: verbose + capturing groups + both anchors disabled, first candidate accepted
   model output: (?x)
  (
    ab
    |
    c
  ) *)
Definition ws_W4a : list str := [[97;98]; [99]].
Definition c_W4a : cfg := (mkCfg 1 1 false false false false false false false false true false false true true true false).
Definition db_W4a : odb := map e_plain ws_W4a.
Lemma W4a : world_ok c_W4a db_W4a SCPass1 ws_W4a true
  (EAlt [ELit [G [[97]] [] 1 1; G [[98]] [] 1 1]; ELit [G [[99]] [] 1 1]])
  [40; 63; 120; 41; 10; 32; 32; 40; 10; 32; 32; 32; 32; 97; 98; 10; 32; 32; 32; 32; 124; 10; 32; 32; 32; 32; 99; 10; 32; 32; 41].
Proof. world. Qed.
Lemma W4a_K4 : K4 (normalise c_W4a db_W4a ws_W4a) = false. Proof. vm_compute. reflexivity. Qed.

(* ---------------------------------------------------------------------------------------- *)
(* W4b: the same, unminimised candidate accepted
   model output: (?x)
  (
    ab
    |
    c
  ) *)
Definition ws_W4b : list str := [[97;98]; [99]].
Definition c_W4b : cfg := (mkCfg 1 1 false false false false false false false false true false false true true true false).
Definition db_W4b : odb := map e_plain ws_W4b.
Lemma W4b : world_ok c_W4b db_W4b SCPass2 ws_W4b true
  (EAlt [ELit [G [[97]] [] 1 1; G [[98]] [] 1 1]; ELit [G [[99]] [] 1 1]])
  [40; 63; 120; 41; 10; 32; 32; 40; 10; 32; 32; 32; 32; 97; 98; 10; 32; 32; 32; 32; 124; 10; 32; 32; 32; 32; 99; 10; 32; 32; 41].
Proof. world. Qed.
Lemma W4b_K4 : K4 (normalise c_W4b db_W4b ws_W4b) = false. Proof. vm_compute. reflexivity. Qed.

(* ---------------------------------------------------------------------------------------- *)
(* W4c: the same, both candidates rejected: plain alternation
   model output: (?x)
  (
    ab
    |
    c
  ) *)
Definition ws_W4c : list str := [[97;98]; [99]].
Definition c_W4c : cfg := (mkCfg 1 1 false false false false false false false false true false false true true true false).
Definition db_W4c : odb := map e_plain ws_W4c.
Lemma W4c : world_ok c_W4c db_W4c SCFail ws_W4c true
  (EAlt [ELit [G [[97]] [] 1 1; G [[98]] [] 1 1]; ELit [G [[99]] [] 1 1]])
  [40; 63; 120; 41; 10; 32; 32; 40; 10; 32; 32; 32; 32; 97; 98; 10; 32; 32; 32; 32; 124; 10; 32; 32; 32; 32; 99; 10; 32; 32; 41].
Proof. world. Qed.
Lemma W4c_K4 : K4 (normalise c_W4c db_W4c ws_W4c) = false. Proof. vm_compute. reflexivity. Qed.

(* ---------------------------------------------------------------------------------------- *)
(* W5: escaping with surrogate pairs, anchors disabled, self-check skipped:  ["\u{1f4a9}"]
   model output: \u{d83d}\u{dca9} *)
Definition ws_W5 : list str := [[128169]].
Definition c_W5 : cfg := (mkCfg 1 1 false false false false false false false false false true true false true true false).
Definition db_W5 : odb := map e_plain ws_W5.
Lemma W5 : world_ok c_W5 db_W5 SCSkipped ws_W5 true
  (ELit [G [[128169]] [] 1 1])
  [92; 117; 123; 100; 56; 51; 100; 125; 92; 117; 123; 100; 99; 97; 57; 125].
Proof. world. Qed.
Lemma W5_K4 : K4 (normalise c_W5 db_W5 ws_W5) = false. Proof. vm_compute. reflexivity. Qed.

(* ---------------------------------------------------------------------------------------- *)
(* W6: syntax highlighting + verbose
   model output: ESC[40;93m(?x)ESC[0m
ESC[1;33m^ESC[0m
  aESC[1;36m[ESC[0mbcESC[1;36m]ESC[0m
ESC[1;33m$ESC[0m *)
Definition ws_W6 : list str := [[97;98]; [97;99]].
Definition c_W6 : cfg := (mkCfg 1 1 false false false false false false false false false false false true false false true).
Definition db_W6 : odb := map e_plain ws_W6.
Lemma W6 : world_ok c_W6 db_W6 SCPass1 ws_W6 true
  (ECat (ELit [G [[97]] [] 1 1]) (ECC [98; 99]))
  [27; 91; 52; 48; 59; 57; 51; 109; 40; 63; 120; 41; 27; 91; 48; 109; 10; 27; 91; 49; 59; 51; 51; 109; 94; 27; 91; 48; 109; 10; 32; 32; 97; 27; 91; 49; 59; 51; 54; 109; 91; 27; 91; 48; 109; 98; 99; 27; 91; 49; 59; 51; 54; 109; 93; 27; 91; 48; 109; 10; 27; 91; 49; 59; 51; 51; 109; 36; 27; 91; 48; 109].
Proof. world. Qed.
Lemma W6_K4 : K4 (normalise c_W6 db_W6 ws_W6) = false. Proof. vm_compute. reflexivity. Qed.

(* ---------------------------------------------------------------------------------------- *)
(* W7: the class of K4: the empty string next to a non-empty test case:  ["","a"] -> ^a$
   model output: ^a$ *)
Definition ws_W7 : list str := [[]; [97]].
Definition c_W7 : cfg := (mkCfg 1 1 false false false false false false false false false false false false false false false).
Definition db_W7 : odb := map e_plain ws_W7.
Lemma W7 : world_ok c_W7 db_W7 SCPass1 ws_W7 true
  (ELit [G [[97]] [] 1 1])
  [94; 97; 36].
Proof. world. Qed.
Lemma W7_K4 : K4 (normalise c_W7 db_W7 ws_W7) = true. Proof. vm_compute. reflexivity. Qed.

(* ---------------------------------------------------------------------------------------- *)
(* W8: every conversion option + repetition thresholds 2/2 + escaping:  ["ab ab ab 12","é_"]
   model output: ^(?:(?:\w\w\s){3}\d\d|\w\w)$ *)
Definition ws_W8 : list str := [[97;98;32;97;98;32;97;98;32;49;50]; [233;95]].
Definition c_W8 : cfg := (mkCfg 2 2 true false true false true false true false false true false false false false false).
Definition db_W8 : odb := map e_plain ws_W8.
Lemma W8 : world_ok c_W8 db_W8 SCPass1 ws_W8 true
  (EAlt [ELit [G [[92; 119]; [92; 119]; [92; 115]] [] 3 3; G [[92; 100]] [] 1 1; G [[92; 100]] [] 1 1]; ELit [G [[92; 119]] [] 1 1; G [[92; 119]] [] 1 1]])
  [94; 40; 63; 58; 40; 63; 58; 92; 119; 92; 119; 92; 115; 41; 123; 51; 125; 92; 100; 92; 100; 124; 92; 119; 92; 119; 41; 36].
Proof. world. Qed.
Lemma W8_K4 : K4 (normalise c_W8 db_W8 ws_W8) = false. Proof. vm_compute. reflexivity. Qed.

(* ---------------------------------------------------------------------------------------- *)
(* W2n: the test cases of W2m without repetition conversion:  ["ba","bb"] -> ^b[ab]$
   model output: ^b[ab]$ *)
Definition ws_W2n : list str := [[98;97]; [98;98]].
Definition c_W2n : cfg := (mkCfg 1 1 false false false false false false false false false false false false false false false).
Definition db_W2n : odb := map e_plain ws_W2n.
Lemma W2n : world_ok c_W2n db_W2n SCPass1 ws_W2n true
  (ECat (ELit [G [[98]] [] 1 1]) (ECC [97; 98]))
  [94; 98; 91; 97; 98; 93; 36].
Proof. world. Qed.
Lemma W2n_K4 : K4 (normalise c_W2n db_W2n ws_W2n) = false. Proof. vm_compute. reflexivity. Qed.

(* ---------------------------------------------------------------------------------------- *)
(* W9: digit conversion only:  ["a1","b22"]
   model output: ^(?:b\d|a)\d$ *)
Definition ws_W9 : list str := [[97;49]; [98;50;50]].
Definition c_W9 : cfg := (mkCfg 1 1 true false false false false false false false false false false false false false false).
Definition db_W9 : odb := map e_plain ws_W9.
Lemma W9 : world_ok c_W9 db_W9 SCPass1 ws_W9 true
  (ECat (EAlt [ELit [G [[98]] [] 1 1; G [[92; 100]] [] 1 1]; ELit [G [[97]] [] 1 1]]) (ELit [G [[92; 100]] [] 1 1]))
  [94; 40; 63; 58; 98; 92; 100; 124; 97; 41; 92; 100; 36].
Proof. world. Qed.
Lemma W9_K4 : K4 (normalise c_W9 db_W9 ws_W9) = false. Proof. vm_compute. reflexivity. Qed.

(* ---------------------------------------------------------------------------------------- *)
(* W6p: W6 without syntax highlighting
   model output: (?x)
^
  a[bc]
$ *)
Definition ws_W6p : list str := [[97;98]; [97;99]].
Definition c_W6p : cfg := (mkCfg 1 1 false false false false false false false false false false false true false false false).
Definition db_W6p : odb := map e_plain ws_W6p.
Lemma W6p : world_ok c_W6p db_W6p SCPass1 ws_W6p true
  (ECat (ELit [G [[97]] [] 1 1]) (ECC [98; 99]))
  [40; 63; 120; 41; 10; 94; 10; 32; 32; 97; 91; 98; 99; 93; 10; 36].
Proof. world. Qed.
Lemma W6p_K4 : K4 (normalise c_W6p db_W6p ws_W6p) = false. Proof. vm_compute. reflexivity. Qed.


(* side conditions used by the string-level theorems *)
Lemma lower_scalar_b : forall db ws,
  forallb (fun s => forallb is_scalar_value (lower' db s)) ws = true ->
  forall s0, In s0 ws -> Forall scalar (lower' db s0).
Proof.
  intros db ws E s0 Hin. rewrite forallb_forall in E. specialize (E s0 Hin).
  rewrite forallb_forall in E. apply Forall_forall. exact E.
Qed.
Lemma W3_lower_scalar : forall s0, In s0 ws_W3 -> Forall scalar (lower' db_W3 s0).
Proof. apply lower_scalar_b. vm_compute. reflexivity. Qed.
Lemma W8_lower_scalar : forall s0, In s0 ws_W8 -> Forall scalar (lower' db_W8 s0).
Proof. apply lower_scalar_b. vm_compute. reflexivity. Qed.
Lemma W3_printable : printable c_W3. Proof. split; reflexivity. Qed.
Lemma W8_printable : printable c_W8. Proof. split; reflexivity. Qed.
Lemma W9_printable : printable c_W9. Proof. split; reflexivity. Qed.
Lemma W4a_lower_scalar : forall s0, In s0 ws_W4a -> Forall scalar (lower' db_W4a s0).
Proof. apply lower_scalar_b. vm_compute. reflexivity. Qed.
Lemma W4a_printable : printable c_W4a. Proof. split; reflexivity. Qed.
