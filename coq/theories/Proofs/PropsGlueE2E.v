(* Glue for the string-level (end to end) theorems of the property files theories/Props/Cxx.v:
   instances of EndToEnd.v / EndToEndVerbose.v / SearchProps.v at the denotations lit_cs, lit_ci
   and cls_engine on haystacks of Unicode scalar values (ScalarHay.v), and the shape of the
   parsed AST in terms of a subterm relation.

     1. rast_sub: subterms of a regex AST; what shape_ok says about groups, repetitions, anchors
     2. the language of the parsed output on scalar haystacks (both modes: ws_for)
     3. soundness on the test cases (C01), exactness for the default settings (C02),
        the classes (C03), (?i) (C04), presentation settings (C06), search (C08)
     4. the non-verbose / verbose instances used verbatim by the property files *)
From Grex Require Import Base.Str Base.Ranges Model.Config Model.Cluster Model.Dfa Model.Expr
  Model.Print.
From Grex Require Import Engine.Syntax Engine.Parse Engine.Sem.
From Grex Require Import Proofs.Lang Proofs.Spec Proofs.NormaliseDet Proofs.ClustersSpec
  Proofs.FoldTables Proofs.EngineDen.
From Grex Require Import Proofs.PrintParseNum Proofs.PrintParseDefs Proofs.PrintParseShape
  Proofs.PrintParse.
From Grex Require Import Proofs.PrintParseXTok Proofs.PrintParseXSim Proofs.PrintParseXPrint
  Proofs.PrintParseX.
From Grex Require Import Proofs.Construction Proofs.PipelinePrintable Proofs.EndToEnd
  Proofs.EndToEndVerbose Proofs.SearchProps.
From Grex Require Import Proofs.PropsGlue Proofs.ScalarHay Proofs.ExecCiSound.
From Grex Require Import Model.Pipeline.
From GrexGen Require Import GrexTables OracleTables.

(* ====================================================================== *)
(* 1. subterms of a regex AST                                              *)
(* ====================================================================== *)

(* x occurs in r *)
Inductive rast_sub (x : rast) : rast -> Prop :=
| rs_refl : rast_sub x x
| rs_group : forall cap r, rast_sub x r -> rast_sub x (RGroup cap r)
| rs_rep : forall r lo hi, rast_sub x r -> rast_sub x (RRep r lo hi)
| rs_cat_l : forall a b, rast_sub x a -> rast_sub x (RCat a b)
| rs_cat_r : forall a b, rast_sub x b -> rast_sub x (RCat a b)
| rs_alt_l : forall a b, rast_sub x a -> rast_sub x (RAlt a b)
| rs_alt_r : forall a b, rast_sub x b -> rast_sub x (RAlt a b).

(* every group of a shape_ok AST has the given capture flag *)
Lemma shape_ok_group : forall cap r, shape_ok cap r ->
  forall cp0 r', rast_sub (RGroup cp0 r') r -> cp0 = cap.
Proof.
  intros cap r. induction r as [|c|l|items| | |cap0 r IH|r IH lo hi|a IHa b IHb|a IHa b IHb];
    intros Hs cp0 r' Hsub; cbn [shape_ok] in Hs; inversion Hsub; subst.
  - destruct Hs as [Hs _]. exact Hs.
  - destruct Hs as [_ Hs]. exact (IH Hs cp0 r' H0).
  - destruct Hs as [Hs _]. exact (IH Hs cp0 r' H0).
  - destruct Hs as [Hs _]. exact (IHa Hs cp0 r' H0).
  - destruct Hs as [_ Hs]. exact (IHb Hs cp0 r' H0).
  - destruct Hs as [Hs _]. exact (IHa Hs cp0 r' H0).
  - destruct Hs as [_ Hs]. exact (IHb Hs cp0 r' H0).
Qed.

(* every repetition of a shape_ok AST is `*`, `?` or {lo,b} with 1 <= lo <= b, (lo,b) <> (1,1) *)
Lemma shape_ok_rep : forall cap r, shape_ok cap r ->
  forall r' lo hi, rast_sub (RRep r' lo hi) r -> rep_shape lo hi.
Proof.
  intros cap r. induction r as [|c|l|items| | |cap0 r IH|r IH lo0 hi0|a IHa b IHb|a IHa b IHb];
    intros Hs r' lo hi Hsub; cbn [shape_ok] in Hs; inversion Hsub; subst.
  - destruct Hs as [_ Hs]. exact (IH Hs r' lo hi H0).
  - destruct Hs as [_ Hs]. exact Hs.
  - destruct Hs as [Hs _]. exact (IH Hs r' lo hi H0).
  - destruct Hs as [Hs _]. exact (IHa Hs r' lo hi H0).
  - destruct Hs as [_ Hs]. exact (IHb Hs r' lo hi H0).
  - destruct Hs as [Hs _]. exact (IHa Hs r' lo hi H0).
  - destruct Hs as [_ Hs]. exact (IHb Hs r' lo hi H0).
Qed.

(* no anchor occurs in a shape_ok AST *)
Lemma shape_ok_no_anchor : forall cap r, shape_ok cap r ->
  ~ rast_sub RStart r /\ ~ rast_sub REnd r.
Proof.
  intros cap r. induction r as [|c|l|items| | |cap0 r IH|r IH lo0 hi0|a IHa b IHb|a IHa b IHb];
    intros Hs; cbn [shape_ok] in Hs; try contradiction;
    (split; intros Hsub; inversion Hsub; subst).
  - destruct Hs as [_ Hs]. exact (proj1 (IH Hs) H0).
  - destruct Hs as [_ Hs]. exact (proj2 (IH Hs) H0).
  - destruct Hs as [Hs _]. exact (proj1 (IH Hs) H0).
  - destruct Hs as [Hs _]. exact (proj2 (IH Hs) H0).
  - destruct Hs as [Hs _]. exact (proj1 (IHa Hs) H0).
  - destruct Hs as [_ Hs]. exact (proj1 (IHb Hs) H0).
  - destruct Hs as [Hs _]. exact (proj2 (IHa Hs) H0).
  - destruct Hs as [_ Hs]. exact (proj2 (IHb Hs) H0).
  - destruct Hs as [Hs _]. exact (proj1 (IHa Hs) H0).
  - destruct Hs as [_ Hs]. exact (proj1 (IHb Hs) H0).
  - destruct Hs as [Hs _]. exact (proj2 (IHa Hs) H0).
  - destruct Hs as [_ Hs]. exact (proj2 (IHb Hs) H0).
Qed.

(* subterms of the left-nested concatenation rcat l *)
Definition not_cat (x : rast) : Prop :=
  match x with RCat _ _ | REmpty => False | _ => True end.

Lemma rcat_cons : forall a l, rcat (a :: l) = fold_left (fun acc b => RCat acc b) l a.
Proof. intros a l. unfold rcat, Parse.cat_of. rewrite rev_involutive. reflexivity. Qed.

Lemma sub_fold_acc : forall x l a, rast_sub x a -> rast_sub x (fold_left (fun acc b => RCat acc b) l a).
Proof.
  intros x l. induction l as [|b l IH]; intros a H; cbn [fold_left]; [exact H|].
  apply IH. apply rs_cat_l. exact H.
Qed.

Lemma sub_fold_in : forall x l a, In x l -> rast_sub x (fold_left (fun acc b => RCat acc b) l a).
Proof.
  intros x l. induction l as [|b l IH]; intros a H; [destruct H|]. cbn [fold_left].
  destruct H as [->|H]; [|apply IH; exact H].
  apply sub_fold_acc. apply rs_cat_r. apply rs_refl.
Qed.

Lemma sub_fold_inv : forall x l a, not_cat x ->
  rast_sub x (fold_left (fun acc b => RCat acc b) l a) ->
  rast_sub x a \/ exists b, In b l /\ rast_sub x b.
Proof.
  intros x l. induction l as [|b l IH]; intros a Hx H; cbn [fold_left] in H; [left; exact H|].
  destruct (IH (RCat a b) Hx H) as [H1|(b' & Hb' & H1)].
  - inversion H1; subst.
    + destruct Hx.
    + left. assumption.
    + right. exists b. split; [left; reflexivity|assumption].
  - right. exists b'. split; [right; exact Hb'|exact H1].
Qed.

Lemma sub_rcat_in : forall x l, In x l -> rast_sub x (rcat l).
Proof.
  intros x [|a l] H; [destruct H|]. rewrite rcat_cons. destruct H as [->|H].
  - apply sub_fold_acc. apply rs_refl.
  - apply sub_fold_in. exact H.
Qed.

Lemma sub_rcat_inv : forall x l, not_cat x -> rast_sub x (rcat l) ->
  exists a, In a l /\ rast_sub x a.
Proof.
  intros x [|a l] Hx H.
  - change (rcat []) with REmpty in H. inversion H; subst. destruct Hx.
  - rewrite rcat_cons in H. destruct (sub_fold_inv x l a Hx H) as [H1|(b & Hb & H1)].
    + exists a. split; [left; reflexivity|exact H1].
    + exists b. split; [right; exact Hb|exact H1].
Qed.

(* the expected AST of a whole pattern: anchors at the ends iff not disabled, shape_ok inside *)
Section TopShape.
  Variable c : cfg.
  Variable e : expr.
  Hypothesis Hok : Forall (shape_ok (f_cap c)) (e_atoms c e).

  Lemma top_sub_inv : forall x, not_cat x -> rast_sub x (top_rast c e) ->
    (x = RStart /\ f_no_start c = false) \/ (x = REnd /\ f_no_end c = false)
    \/ exists a, In a (e_atoms c e) /\ rast_sub x a.
  Proof.
    intros x Hx H. unfold top_rast in H. destruct (sub_rcat_inv x _ Hx H) as (a & Ha & Hs).
    unfold top_atoms in Ha. apply in_app_or in Ha. destruct Ha as [Ha|Ha].
    - destruct (f_no_start c); [destruct Ha|]. destruct Ha as [<-|[]].
      inversion Hs; subst. left. split; reflexivity.
    - apply in_app_or in Ha. destruct Ha as [Ha|Ha].
      + right. right. exists a. split; assumption.
      + destruct (f_no_end c); [destruct Ha|]. destruct Ha as [<-|[]].
        inversion Hs; subst. right. left. split; reflexivity.
  Qed.

  Theorem top_groups : forall cp0 r', rast_sub (RGroup cp0 r') (top_rast c e) -> cp0 = f_cap c.
  Proof.
    intros cp0 r' H. destruct (top_sub_inv (RGroup cp0 r') I H) as [[E _]|[[E _]|(a & Ha & Hs)]];
      [discriminate E|discriminate E|].
    rewrite Forall_forall in Hok. exact (shape_ok_group (f_cap c) a (Hok a Ha) cp0 r' Hs).
  Qed.

  Theorem top_reps : forall r' lo hi, rast_sub (RRep r' lo hi) (top_rast c e) -> rep_shape lo hi.
  Proof.
    intros r' lo hi H. destruct (top_sub_inv (RRep r' lo hi) I H) as [[E _]|[[E _]|(a & Ha & Hs)]];
      [discriminate E|discriminate E|].
    rewrite Forall_forall in Hok. exact (shape_ok_rep (f_cap c) a (Hok a Ha) r' lo hi Hs).
  Qed.

  Theorem top_start : rast_sub RStart (top_rast c e) <-> f_no_start c = false.
  Proof.
    split.
    - intros H. destruct (top_sub_inv RStart I H) as [[_ E]|[[E _]|(a & Ha & Hs)]];
        [exact E|discriminate E|].
      rewrite Forall_forall in Hok. destruct (shape_ok_no_anchor _ a (Hok a Ha)) as [N _].
      destruct (N Hs).
    - intros E. unfold top_rast. apply sub_rcat_in. unfold top_atoms. rewrite E.
      left. reflexivity.
  Qed.

  Theorem top_end : rast_sub REnd (top_rast c e) <-> f_no_end c = false.
  Proof.
    split.
    - intros H. destruct (top_sub_inv REnd I H) as [[E _]|[[_ E]|(a & Ha & Hs)]];
        [discriminate E|exact E|].
      rewrite Forall_forall in Hok. destruct (shape_ok_no_anchor _ a (Hok a Ha)) as [_ N].
      destruct (N Hs).
    - intros E. unfold top_rast. apply sub_rcat_in. unfold top_atoms. rewrite E.
      apply in_or_app. right. apply in_or_app. right. left. reflexivity.
  Qed.

  Lemma atoms_no_anchor :
    Forall (fun a => ~ rast_sub RStart a /\ ~ rast_sub REnd a) (e_atoms c e).
  Proof.
    eapply Forall_impl; [|exact Hok]. intros a Ha. exact (shape_ok_no_anchor _ a Ha).
  Qed.
End TopShape.

(* ====================================================================== *)
(* 2. build: the parsed output, both modes                                 *)
(* ====================================================================== *)

(* the shape of the parsed output (C06 capture groups, C08 anchors, C13 braces) *)
Theorem build_shape_any : forall isd is_ws c db sc ws s,
  ws <> [] ->
  Forall (Forall scalar) ws ->
  (forall s0, In s0 ws -> Forall scalar (lower' db s0)) ->
  oracle_ok db (normalise c db ws) ->
  printable c -> (if f_verbose c then ws_x is_ws else ws_ok is_ws) ->
  build isd c db sc ws = Some s ->
  exists r, parse is_ws s = Some (mkF (f_ci c) (f_verbose c), r)
    /\ (forall cap r', rast_sub (RGroup cap r') r -> cap = f_cap c)
    /\ (forall r' lo hi, rast_sub (RRep r' lo hi) r ->
          (lo = 0%N /\ hi = None) \/ (lo = 0%N /\ hi = Some 1%N)
          \/ exists b, hi = Some b /\ (1 <= lo)%N /\ (lo <= b)%N /\ ~ (lo = 1%N /\ b = 1%N))
    /\ (rast_sub RStart r <-> f_no_start c = false)
    /\ (rast_sub REnd r <-> f_no_end c = false)
    /\ exists atoms,
         r = rcat ((if f_no_start c then [] else [RStart]) ++ atoms
                   ++ (if f_no_end c then [] else [REnd]))
         /\ Forall (fun a => ~ rast_sub RStart a /\ ~ rast_sub REnd a) atoms.
Proof.
  intros isd is_ws c db sc ws s Hne Hsc Hlow Hok Hp Hws H.
  destruct (build_parse_any isd is_ws c db sc ws s Hne (normalise_scalar c db ws Hsc Hlow)
              Hok Hp Hws H) as (e & He & Hwf & _ & Hpar).
  destruct (top_atoms_shape c True e Hwf) as (_ & _ & _ & _ & Hok').
  exists (top_rast c e). split; [exact Hpar|].
  split; [exact (top_groups c e Hok')|].
  split; [exact (top_reps c e Hok')|].
  split; [exact (top_start c e Hok')|].
  split; [exact (top_end c e Hok')|].
  exists (e_atoms c e). split; [reflexivity|exact (atoms_no_anchor c e Hok')].
Qed.

(* the language of the parsed output on haystacks of scalar values: the denotation of literals
   only has to be surrogate-free on scalar haystack characters *)
Theorem build_parse_lang_hay : forall (lit cls : cp -> cp -> Prop) isd is_ws c db sc ws s,
  ws <> [] ->
  Forall (Forall scalar) (normalise c db ws) ->
  oracle_ok db (normalise c db ws) ->
  printable c -> ws_for c is_ws ->
  (forall c0 x, surrogate c0 -> ~ on_scalar lit c0 x) ->
  no_merge (grapheme_clusters c db (normalise c db ws)) = true ->
  build isd c db sc ws = Some s ->
  exists fl r, parse is_ws s = Some (fl, r) /\ fl_i fl = f_ci c /\ fl_x fl = f_verbose c
    /\ (forall u, Forall scalar u -> (u <> [] \/ K4 (normalise c db ws) = false) ->
          (L_rast lit cls r u <-> Spec lit cls c db ws u))
    /\ (L_rast lit cls r [] -> Spec lit cls c db ws []).
Proof.
  intros lit cls isd is_ws c db sc ws s Hne Hsc Hok Hp Hws Hsur Hnm H.
  destruct (build_parse_lang_any (on_scalar lit) cls isd is_ws c db sc ws s
              Hne Hsc Hok Hp Hws Hsur Hnm H) as (fl & r & Hpar & Hi & Hx & A & B).
  exists fl, r. split; [exact Hpar|]. split; [exact Hi|]. split; [exact Hx|]. split.
  - intros u Hu Hside.
    rewrite <- (L_rast_on_scalar lit cls r u Hu), <- (Spec_on_scalar lit cls c db ws u Hu).
    exact (A u Hside).
  - intros H0.
    apply (Spec_on_scalar lit cls c db ws [] (Forall_nil _)). apply B.
    apply (L_rast_on_scalar lit cls r [] (Forall_nil _)). exact H0.
Qed.

(* ====================================================================== *)
(* 3. the instances                                                        *)
(* ====================================================================== *)

(* ---------- C03 / C04: the classes, case-sensitive and under (?i) ---------- *)
Theorem build_classes_cs : forall isd is_ws c db sc ws s,
  f_ci c = false ->
  ws <> [] ->
  Forall (Forall scalar) ws ->
  oracle_ok db (normalise c db ws) ->
  printable c -> ws_for c is_ws ->
  no_merge (grapheme_clusters c db (normalise c db ws)) = true ->
  build isd c db sc ws = Some s ->
  exists fl r, parse is_ws s = Some (fl, r) /\ fl_i fl = false /\ fl_x fl = f_verbose c
    /\ (forall u, Forall scalar u -> (u <> [] \/ K4 (normalise c db ws) = false) ->
          (L_rast lit_cs cls_engine r u <-> Spec lit_cs cls_engine c db ws u))
    /\ (L_rast lit_cs cls_engine r [] -> Spec lit_cs cls_engine c db ws []).
Proof.
  intros isd is_ws c db sc ws s Hci Hne Hsc Hok Hp Hws Hnm H.
  destruct (build_parse_lang_hay lit_cs cls_engine isd is_ws c db sc ws s Hne
              (normalise_scalar_cs c db ws Hci Hsc) Hok Hp Hws lit_cs_sur Hnm H)
    as (fl & r & Hpar & Hi & Hx & A & B).
  exists fl, r. split; [exact Hpar|]. split; [rewrite Hi; exact Hci|]. split; [exact Hx|].
  split; [exact A|exact B].
Qed.

Theorem build_classes_ci : forall isd is_ws c db sc ws s,
  f_ci c = true ->
  ws <> [] ->
  Forall (Forall scalar) ws ->
  (forall s0, In s0 ws -> Forall scalar (lower' db s0)) ->
  oracle_ok db (normalise c db ws) ->
  printable c -> ws_for c is_ws ->
  no_merge (grapheme_clusters c db (normalise c db ws)) = true ->
  build isd c db sc ws = Some s ->
  exists fl r, parse is_ws s = Some (fl, r) /\ fl_i fl = true /\ fl_x fl = f_verbose c
    /\ (forall u, Forall scalar u -> (u <> [] \/ K4 (normalise c db ws) = false) ->
          (L_rast lit_ci cls_engine r u <-> Spec lit_ci cls_engine c db ws u))
    /\ (L_rast lit_ci cls_engine r [] -> Spec lit_ci cls_engine c db ws []).
Proof.
  intros isd is_ws c db sc ws s Hci Hne Hsc Hlow Hok Hp Hws Hnm H.
  destruct (build_parse_lang_hay lit_ci cls_engine isd is_ws c db sc ws s Hne
              (normalise_scalar c db ws Hsc Hlow) Hok Hp Hws lit_ci_sur Hnm H)
    as (fl & r & Hpar & Hi & Hx & A & B).
  exists fl, r. split; [exact Hpar|]. split; [rewrite Hi; exact Hci|]. split; [exact Hx|].
  split; [exact A|exact B].
Qed.

(* ---------- C01: every test case is accepted by the parsed output ---------- *)
Theorem build_sound_cs : forall isd is_ws c db sc ws s,
  f_ci c = false ->
  ws <> [] ->
  Forall (Forall scalar) ws ->
  oracle_ok db (normalise c db ws) ->
  printable c -> ws_for c is_ws ->
  no_merge (grapheme_clusters c db (normalise c db ws)) = true ->
  build isd c db sc ws = Some s ->
  exists fl r, parse is_ws s = Some (fl, r) /\ fl_i fl = false /\ fl_x fl = f_verbose c
    /\ forall t, In t ws -> (t <> [] \/ K4 (normalise c db ws) = false) ->
         L_rast lit_cs cls_engine r t.
Proof.
  intros isd is_ws c db sc ws s Hci Hne Hsc Hok Hp Hws Hnm H.
  destruct (build_classes_cs isd is_ws c db sc ws s Hci Hne Hsc Hok Hp Hws Hnm H)
    as (fl & r & Hpar & Hi & Hx & A & _).
  exists fl, r. split; [exact Hpar|]. split; [exact Hi|]. split; [exact Hx|].
  intros t Ht Hside.
  assert (Hts : Forall scalar t) by (rewrite Forall_forall in Hsc; exact (Hsc t Ht)).
  apply (A t Hts Hside). unfold Spec, Spec_cases. rewrite Hci. exists t. split; [exact Ht|].
  apply Spec_str_self. apply Forall_scalar_is_scalar. exact Hts.
Qed.

(* under (?i): the ORIGINAL test case, when its lower-casing is code-point-wise and it avoids
   the skew set (known finding K3) *)
Theorem build_sound_ci : forall isd is_ws c db sc ws s,
  f_ci c = true ->
  ws <> [] ->
  Forall (Forall scalar) ws ->
  (forall s0, In s0 ws -> Forall scalar (lower' db s0)) ->
  oracle_ok db (normalise c db ws) ->
  printable c -> ws_for c is_ws ->
  no_merge (grapheme_clusters c db (normalise c db ws)) = true ->
  build isd c db sc ws = Some s ->
  exists fl r, parse is_ws s = Some (fl, r) /\ fl_i fl = true /\ fl_x fl = f_verbose c
    /\ forall t, In t ws ->
         lower' db t = map lower1 t ->
         Forall (fun x => mem_cp x skew_set = false) t ->
         (t <> [] \/ K4 (normalise c db ws) = false) ->
         L_rast lit_ci cls_engine r t.
Proof.
  intros isd is_ws c db sc ws s Hci Hne Hsc Hlow Hok Hp Hws Hnm H.
  destruct (build_classes_ci isd is_ws c db sc ws s Hci Hne Hsc Hlow Hok Hp Hws Hnm H)
    as (fl & r & Hpar & Hi & Hx & A & _).
  exists fl, r. split; [exact Hpar|]. split; [exact Hi|]. split; [exact Hx|].
  intros t Ht Hl Hsk Hside.
  assert (Hts : Forall scalar t) by (rewrite Forall_forall in Hsc; exact (Hsc t Ht)).
  apply (A t Hts Hside). unfold Spec, Spec_cases. rewrite Hci. exists (lower' db t).
  split; [apply in_map; exact Ht|]. rewrite Hl. apply Spec_str_lower_original.
  apply Forall_forall. intros x Hx'. rewrite Forall_forall in Hts, Hsk.
  split; [apply scalar_is_scalar; exact (Hts x Hx')|exact (Hsk x Hx')].
Qed.

(* ---------- C02: the default settings: nothing but the test cases ---------- *)
Theorem build_exact_default : forall (cls : cp -> cp -> Prop) isd is_ws c db sc ws s,
  no_class_flag c -> f_ci c = false -> f_rep c = false ->
  ws <> [] ->
  Forall (Forall scalar) ws ->
  oracle_ok db (normalise c db ws) ->
  printable c -> ws_for c is_ws ->
  build isd c db sc ws = Some s ->
  exists fl r, parse is_ws s = Some (fl, r) /\ fl_i fl = false /\ fl_x fl = f_verbose c
    /\ (forall u, Forall scalar u -> (u <> [] \/ K4 (normalise c db ws) = false) ->
          (L_rast lit_cs cls r u <-> In u ws))
    /\ (L_rast lit_cs cls r [] -> In [] ws).
Proof.
  intros cls isd is_ws c db sc ws s Hc Hci Hr Hne Hsc Hok Hp Hws H.
  destruct (build_parse_lang_hay lit_cs cls isd is_ws c db sc ws s Hne
              (normalise_scalar_cs c db ws Hci Hsc) Hok Hp Hws lit_cs_sur
              (construction_exact_default c db ws Hr) H)
    as (fl & r & Hpar & Hi & Hx & A & B).
  exists fl, r. split; [exact Hpar|]. split; [rewrite Hi; exact Hci|]. split; [exact Hx|]. split.
  - intros u Hu Hside. rewrite (A u Hu Hside). apply Spec_plain; assumption.
  - intros H0. apply (Spec_plain cls c db ws [] Hc Hci). apply B. exact H0.
Qed.

(* ---------- C06: presentation settings, at the string level ---------- *)
(* two printable configurations that differ only in presentation settings (f_verbose, f_cap,
   f_esc, f_no_start, f_no_end): the two outputs parse, and the parsed patterns accept the same
   scalar haystacks (the empty one excepted under K4) *)
Theorem build_presentation_same_language :
  forall (lit cls : cp -> cp -> Prop) isd is_ws c1 c2 db sc1 sc2 ws s1 s2,
  same_but_presentation c1 c2 ->
  ws <> [] ->
  Forall (Forall scalar) (normalise c1 db ws) ->
  oracle_ok db (normalise c1 db ws) ->
  printable c1 -> printable c2 -> ws_x is_ws ->
  (forall c0 x, surrogate c0 -> ~ on_scalar lit c0 x) ->
  no_merge (grapheme_clusters c1 db (normalise c1 db ws)) = true ->
  build isd c1 db sc1 ws = Some s1 ->
  build isd c2 db sc2 ws = Some s2 ->
  exists fl1 r1 fl2 r2,
    parse is_ws s1 = Some (fl1, r1) /\ parse is_ws s2 = Some (fl2, r2)
    /\ fl_i fl1 = fl_i fl2
    /\ forall u, Forall scalar u -> (u <> [] \/ K4 (normalise c1 db ws) = false) ->
         (L_rast lit cls r1 u <-> L_rast lit cls r2 u).
Proof.
  intros lit cls isd is_ws c1 c2 db sc1 sc2 ws s1 s2 HP Hne Hsc Hok Hp1 Hp2 Hws Hsur Hnm H1 H2.
  assert (En : normalise c1 db ws = normalise c2 db ws)
    by (apply normalise_settings; apply HP).
  assert (Eg : grapheme_clusters c1 db (normalise c1 db ws)
               = grapheme_clusters c2 db (normalise c2 db ws))
    by (rewrite <- En; apply grapheme_clusters_presentation; exact HP).
  destruct (build_parse_lang_hay lit cls isd is_ws c1 db sc1 ws s1 Hne Hsc Hok Hp1
              (ws_for_x c1 is_ws Hws) Hsur Hnm H1) as (fl1 & r1 & P1 & I1 & _ & A1 & _).
  assert (Hsc2 : Forall (Forall scalar) (normalise c2 db ws)) by (rewrite <- En; exact Hsc).
  assert (Hok2 : oracle_ok db (normalise c2 db ws)) by (rewrite <- En; exact Hok).
  assert (Hnm2 : no_merge (grapheme_clusters c2 db (normalise c2 db ws)) = true)
    by (rewrite <- Eg; exact Hnm).
  destruct (build_parse_lang_hay lit cls isd is_ws c2 db sc2 ws s2 Hne Hsc2 Hok2 Hp2
              (ws_for_x c2 is_ws Hws) Hsur Hnm2 H2) as (fl2 & r2 & P2 & I2 & _ & A2 & _).
  exists fl1, r1, fl2, r2. split; [exact P1|]. split; [exact P2|]. split.
  - rewrite I1, I2. apply HP.
  - intros u Hu Hside. rewrite (A1 u Hu Hside). rewrite En in Hside. rewrite (A2 u Hu Hside).
    apply Spec_settings. apply HP.
Qed.

(* ---------- C08: search, either mode ---------- *)
Theorem build_search_any : forall lit_den cls_den isd is_ws c db sc ws s,
  ws <> [] ->
  Forall (Forall scalar) ws ->
  (forall s0, In s0 ws -> Forall scalar (lower' db s0)) ->
  oracle_ok db (normalise c db ws) ->
  printable c -> (if f_verbose c then ws_x is_ws else ws_ok is_ws) ->
  build isd c db sc ws = Some s ->
  exists e r, Pipeline.final_expr c (grapheme_clusters c db (normalise c db ws)) sc = Some e
    /\ Parse.parse is_ws s = Some (mkF (f_ci c) (f_verbose c), r)
    /\ (f_no_end c = false ->
        forall t, L_rast lit_den cls_den r t -> search_whole lit_den cls_den t r)
    /\ (f_no_start c = false -> forall t i j, m lit_den cls_den t r i j -> i = 0%nat)
    /\ (f_no_end c = true ->
        (forall c0 x, surrogate c0 -> ~ lit_den c0 x) ->
        forall t, L_expr lit_den cls_den e t ->
          (search_whole lit_den cls_den t r
           <-> forall p, proper_prefix p t -> ~ L_expr lit_den cls_den e p)).
Proof.
  intros lit_den cls_den isd is_ws c db sc ws s Hne Hsc Hlow Hok Hp Hws H.
  destruct (build_parse_any isd is_ws c db sc ws s Hne (normalise_scalar c db ws Hsc Hlow)
              Hok Hp Hws H) as (e & He & Hwf & _ & Hpar).
  exists e, (top_rast c e). split; [exact He|]. split; [exact Hpar|]. split; [|split].
  - intros Hnoend t Hfull i j [Hm Hl].
    exact (search_with_dollar lit_den cls_den c e t Hnoend Hfull i j Hm Hl).
  - intros Hnostart t i j Hm. exact (search_with_caret lit_den cls_den c e t i j Hnostart Hm).
  - intros Hnoend Hsur t Hfull.
    exact (search_prefix_free_iff lit_den cls_den c Hp True (fun _ => Hsur) e t Hwf Hnoend Hfull).
Qed.

(* ---------- C04: the Perl classes mean the same with and without (?i) ---------- *)
Theorem cls_engine_ci_same_den : forall l x,
  (exists y, cls_engine l y /\ fold_eq y x) <-> cls_engine l x.
Proof.
  intros l x. rewrite <- (cls_engine_same l x), <- (cls_engine_ci_same_all l x). split.
  - intros (y & Hy & Hf). exists y. split; [apply cls_engine_same; exact Hy|exact Hf].
  - intros (y & Hy & Hf). exists y. split; [apply cls_engine_same; exact Hy|exact Hf].
Qed.

(* ====================================================================== *)
(* 4. the non-verbose and the verbose instances, as stated in the property files *)
(* ====================================================================== *)

Lemma ws_for_nv : forall c is_ws, f_verbose c = false -> ws_ok is_ws -> ws_for c is_ws.
Proof. intros c is_ws Hv H. unfold ws_for. rewrite Hv. exact H. Qed.

Lemma ws_for_v : forall c is_ws, f_verbose c = true -> ws_x is_ws -> ws_for c is_ws.
Proof. intros c is_ws Hv H. unfold ws_for. rewrite Hv. exact H. Qed.

(* C01 *)
Theorem build_sound_cs_nv : forall isd is_ws c db sc ws s,
  f_ci c = false ->
  ws <> [] ->
  Forall (Forall scalar) ws ->
  oracle_ok db (normalise c db ws) ->
  printable c -> f_verbose c = false -> ws_ok is_ws ->
  no_merge (grapheme_clusters c db (normalise c db ws)) = true ->
  build isd c db sc ws = Some s ->
  exists fl r, parse is_ws s = Some (fl, r) /\ fl_i fl = false /\ fl_x fl = false
    /\ forall t, In t ws -> (t <> [] \/ K4 (normalise c db ws) = false) ->
         L_rast lit_cs cls_engine r t.
Proof.
  intros isd is_ws c db sc ws s Hci Hne Hsc Hok Hp Hv Hws Hnm H.
  pose proof (build_sound_cs isd is_ws c db sc ws s Hci Hne Hsc Hok Hp (ws_for_nv c is_ws Hv Hws) Hnm H) as R.
  rewrite Hv in R. exact R.
Qed.

Theorem build_sound_cs_v : forall isd is_ws c db sc ws s,
  f_ci c = false ->
  ws <> [] ->
  Forall (Forall scalar) ws ->
  oracle_ok db (normalise c db ws) ->
  printable c -> f_verbose c = true -> ws_x is_ws ->
  no_merge (grapheme_clusters c db (normalise c db ws)) = true ->
  build isd c db sc ws = Some s ->
  exists fl r, parse is_ws s = Some (fl, r) /\ fl_i fl = false /\ fl_x fl = true
    /\ forall t, In t ws -> (t <> [] \/ K4 (normalise c db ws) = false) ->
         L_rast lit_cs cls_engine r t.
Proof.
  intros isd is_ws c db sc ws s Hci Hne Hsc Hok Hp Hv Hws Hnm H.
  pose proof (build_sound_cs isd is_ws c db sc ws s Hci Hne Hsc Hok Hp (ws_for_v c is_ws Hv Hws) Hnm H) as R.
  rewrite Hv in R. exact R.
Qed.

Theorem build_sound_ci_nv : forall isd is_ws c db sc ws s,
  f_ci c = true ->
  ws <> [] ->
  Forall (Forall scalar) ws ->
  (forall s0, In s0 ws -> Forall scalar (lower' db s0)) ->
  oracle_ok db (normalise c db ws) ->
  printable c -> f_verbose c = false -> ws_ok is_ws ->
  no_merge (grapheme_clusters c db (normalise c db ws)) = true ->
  build isd c db sc ws = Some s ->
  exists fl r, parse is_ws s = Some (fl, r) /\ fl_i fl = true /\ fl_x fl = false
    /\ forall t, In t ws ->
         lower' db t = map lower1 t ->
         Forall (fun x => mem_cp x skew_set = false) t ->
         (t <> [] \/ K4 (normalise c db ws) = false) ->
         L_rast lit_ci cls_engine r t.
Proof.
  intros isd is_ws c db sc ws s Hci Hne Hsc Hlow Hok Hp Hv Hws Hnm H.
  pose proof (build_sound_ci isd is_ws c db sc ws s Hci Hne Hsc Hlow Hok Hp
           (ws_for_nv c is_ws Hv Hws) Hnm H) as R.
  rewrite Hv in R. exact R.
Qed.

Theorem build_sound_ci_v : forall isd is_ws c db sc ws s,
  f_ci c = true ->
  ws <> [] ->
  Forall (Forall scalar) ws ->
  (forall s0, In s0 ws -> Forall scalar (lower' db s0)) ->
  oracle_ok db (normalise c db ws) ->
  printable c -> f_verbose c = true -> ws_x is_ws ->
  no_merge (grapheme_clusters c db (normalise c db ws)) = true ->
  build isd c db sc ws = Some s ->
  exists fl r, parse is_ws s = Some (fl, r) /\ fl_i fl = true /\ fl_x fl = true
    /\ forall t, In t ws ->
         lower' db t = map lower1 t ->
         Forall (fun x => mem_cp x skew_set = false) t ->
         (t <> [] \/ K4 (normalise c db ws) = false) ->
         L_rast lit_ci cls_engine r t.
Proof.
  intros isd is_ws c db sc ws s Hci Hne Hsc Hlow Hok Hp Hv Hws Hnm H.
  pose proof (build_sound_ci isd is_ws c db sc ws s Hci Hne Hsc Hlow Hok Hp
           (ws_for_v c is_ws Hv Hws) Hnm H) as R.
  rewrite Hv in R. exact R.
Qed.

(* C02 *)
Theorem build_exact_default_nv : forall (cls : cp -> cp -> Prop) isd is_ws c db sc ws s,
  no_class_flag c -> f_ci c = false -> f_rep c = false ->
  ws <> [] ->
  Forall (Forall scalar) ws ->
  oracle_ok db (normalise c db ws) ->
  printable c -> f_verbose c = false -> ws_ok is_ws ->
  build isd c db sc ws = Some s ->
  exists fl r, parse is_ws s = Some (fl, r) /\ fl_i fl = false /\ fl_x fl = false
    /\ (forall u, Forall scalar u -> (u <> [] \/ K4 (normalise c db ws) = false) ->
          (L_rast lit_cs cls r u <-> In u ws))
    /\ (L_rast lit_cs cls r [] -> In [] ws).
Proof.
  intros cls isd is_ws c db sc ws s Hc Hci Hr Hne Hsc Hok Hp Hv Hws H.
  pose proof (build_exact_default cls isd is_ws c db sc ws s Hc Hci Hr Hne Hsc Hok Hp
           (ws_for_nv c is_ws Hv Hws) H) as R.
  rewrite Hv in R. exact R.
Qed.

Theorem build_exact_default_v : forall (cls : cp -> cp -> Prop) isd is_ws c db sc ws s,
  no_class_flag c -> f_ci c = false -> f_rep c = false ->
  ws <> [] ->
  Forall (Forall scalar) ws ->
  oracle_ok db (normalise c db ws) ->
  printable c -> f_verbose c = true -> ws_x is_ws ->
  build isd c db sc ws = Some s ->
  exists fl r, parse is_ws s = Some (fl, r) /\ fl_i fl = false /\ fl_x fl = true
    /\ (forall u, Forall scalar u -> (u <> [] \/ K4 (normalise c db ws) = false) ->
          (L_rast lit_cs cls r u <-> In u ws))
    /\ (L_rast lit_cs cls r [] -> In [] ws).
Proof.
  intros cls isd is_ws c db sc ws s Hc Hci Hr Hne Hsc Hok Hp Hv Hws H.
  pose proof (build_exact_default cls isd is_ws c db sc ws s Hc Hci Hr Hne Hsc Hok Hp
           (ws_for_v c is_ws Hv Hws) H) as R.
  rewrite Hv in R. exact R.
Qed.

(* C03 *)
Theorem build_classes_cs_nv : forall isd is_ws c db sc ws s,
  f_ci c = false ->
  ws <> [] ->
  Forall (Forall scalar) ws ->
  oracle_ok db (normalise c db ws) ->
  printable c -> f_verbose c = false -> ws_ok is_ws ->
  no_merge (grapheme_clusters c db (normalise c db ws)) = true ->
  build isd c db sc ws = Some s ->
  exists fl r, parse is_ws s = Some (fl, r) /\ fl_i fl = false /\ fl_x fl = false
    /\ (forall u, Forall scalar u -> (u <> [] \/ K4 (normalise c db ws) = false) ->
          (L_rast lit_cs cls_engine r u <-> Spec lit_cs cls_engine c db ws u))
    /\ (L_rast lit_cs cls_engine r [] -> Spec lit_cs cls_engine c db ws []).
Proof.
  intros isd is_ws c db sc ws s Hci Hne Hsc Hok Hp Hv Hws Hnm H.
  pose proof (build_classes_cs isd is_ws c db sc ws s Hci Hne Hsc Hok Hp (ws_for_nv c is_ws Hv Hws) Hnm H) as R.
  rewrite Hv in R. exact R.
Qed.

Theorem build_classes_cs_v : forall isd is_ws c db sc ws s,
  f_ci c = false ->
  ws <> [] ->
  Forall (Forall scalar) ws ->
  oracle_ok db (normalise c db ws) ->
  printable c -> f_verbose c = true -> ws_x is_ws ->
  no_merge (grapheme_clusters c db (normalise c db ws)) = true ->
  build isd c db sc ws = Some s ->
  exists fl r, parse is_ws s = Some (fl, r) /\ fl_i fl = false /\ fl_x fl = true
    /\ (forall u, Forall scalar u -> (u <> [] \/ K4 (normalise c db ws) = false) ->
          (L_rast lit_cs cls_engine r u <-> Spec lit_cs cls_engine c db ws u))
    /\ (L_rast lit_cs cls_engine r [] -> Spec lit_cs cls_engine c db ws []).
Proof.
  intros isd is_ws c db sc ws s Hci Hne Hsc Hok Hp Hv Hws Hnm H.
  pose proof (build_classes_cs isd is_ws c db sc ws s Hci Hne Hsc Hok Hp (ws_for_v c is_ws Hv Hws) Hnm H) as R.
  rewrite Hv in R. exact R.
Qed.

(* C04 *)
Theorem build_classes_ci_nv : forall isd is_ws c db sc ws s,
  f_ci c = true ->
  ws <> [] ->
  Forall (Forall scalar) ws ->
  (forall s0, In s0 ws -> Forall scalar (lower' db s0)) ->
  oracle_ok db (normalise c db ws) ->
  printable c -> f_verbose c = false -> ws_ok is_ws ->
  no_merge (grapheme_clusters c db (normalise c db ws)) = true ->
  build isd c db sc ws = Some s ->
  exists fl r, parse is_ws s = Some (fl, r) /\ fl_i fl = true /\ fl_x fl = false
    /\ (forall u, Forall scalar u -> (u <> [] \/ K4 (normalise c db ws) = false) ->
          (L_rast lit_ci cls_engine r u <-> Spec lit_ci cls_engine c db ws u))
    /\ (L_rast lit_ci cls_engine r [] -> Spec lit_ci cls_engine c db ws []).
Proof.
  intros isd is_ws c db sc ws s Hci Hne Hsc Hlow Hok Hp Hv Hws Hnm H.
  pose proof (build_classes_ci isd is_ws c db sc ws s Hci Hne Hsc Hlow Hok Hp
           (ws_for_nv c is_ws Hv Hws) Hnm H) as R.
  rewrite Hv in R. exact R.
Qed.

Theorem build_classes_ci_v : forall isd is_ws c db sc ws s,
  f_ci c = true ->
  ws <> [] ->
  Forall (Forall scalar) ws ->
  (forall s0, In s0 ws -> Forall scalar (lower' db s0)) ->
  oracle_ok db (normalise c db ws) ->
  printable c -> f_verbose c = true -> ws_x is_ws ->
  no_merge (grapheme_clusters c db (normalise c db ws)) = true ->
  build isd c db sc ws = Some s ->
  exists fl r, parse is_ws s = Some (fl, r) /\ fl_i fl = true /\ fl_x fl = true
    /\ (forall u, Forall scalar u -> (u <> [] \/ K4 (normalise c db ws) = false) ->
          (L_rast lit_ci cls_engine r u <-> Spec lit_ci cls_engine c db ws u))
    /\ (L_rast lit_ci cls_engine r [] -> Spec lit_ci cls_engine c db ws []).
Proof.
  intros isd is_ws c db sc ws s Hci Hne Hsc Hlow Hok Hp Hv Hws Hnm H.
  pose proof (build_classes_ci isd is_ws c db sc ws s Hci Hne Hsc Hlow Hok Hp
           (ws_for_v c is_ws Hv Hws) Hnm H) as R.
  rewrite Hv in R. exact R.
Qed.

Print Assumptions build_shape_any.
Print Assumptions build_parse_lang_hay.
Print Assumptions build_sound_cs.
Print Assumptions build_sound_ci.
Print Assumptions build_exact_default.
Print Assumptions build_classes_cs.
Print Assumptions build_classes_ci.
Print Assumptions build_presentation_same_language.
Print Assumptions build_search_any.
Print Assumptions cls_engine_ci_same_den.
