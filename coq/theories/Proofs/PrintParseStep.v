(* Printing theorem, part 1: parser steps.  `pseq top s racc ralts res` says that the main loop
   of the parser model, in non-verbose mode, started on s with the accumulators racc / ralts and
   ANY fuel larger than the length of s, returns res.  One backwards "step" lemma per token kind. *)
From Grex Require Import Base.Str Engine.Syntax Engine.Parse.
From Grex Require Import Proofs.PrintParseNum.

Ltac slia := unfold cp, str in *; cbn [length] in *; lia.

Section Step.
  Variable is_ws : cp -> bool.

  Definition pseq (top : bool) (s : str) (racc ralts : list rast) (res : rast * str) : Prop :=
    forall f, length s < f -> p_seq is_ws f false top s racc ralts = Some res.

  Definition pcls (s : str) (acc : list (cp * cp)) (res : list (cp * cp) * str) : Prop :=
    forall f, length s < f -> parse_class_items is_ws f false s acc = Some res.

  (* code points that the main loop treats specially *)
  Definition loop_special : list cp := [41; 124; 40; 91; 63; 42; 43; 123; 92; 46; 94; 36]%N.

  Lemma mem_cp_false_neq : forall y l z, mem_cp y l = false -> In z l -> N.eqb y z = false.
  Proof.
    intros y l z. induction l as [|x l IH]; intros H Hin; [contradiction|].
    cbn [mem_cp] in H. apply orb_false_elim in H. destruct H as [H1 H2].
    destruct Hin as [->|Hin]; [exact H1|apply IH; assumption].
  Qed.

  Lemma mem_cp_true_in : forall y l, mem_cp y l = true -> In y l.
  Proof.
    intros y l. induction l as [|x l IH]; intros H; [discriminate|].
    cbn [mem_cp] in H. apply orb_true_iff in H. destruct H as [H|H].
    - left. symmetry. apply N.eqb_eq. exact H.
    - right. apply IH. exact H.
  Qed.

  Lemma mem_cp_in_true : forall y l, In y l -> mem_cp y l = true.
  Proof.
    intros y l. induction l as [|x l IH]; intros H; [contradiction|].
    cbn [mem_cp]. destruct H as [->|H]; [rewrite N.eqb_refl; reflexivity|].
    rewrite IH by exact H. apply orb_true_r.
  Qed.

  (* ---------- one-step unfoldings (by computation on the concrete head) ---------- *)
  Lemma p_seq_raw : forall f top y s racc ralts,
    mem_cp y loop_special = false ->
    p_seq is_ws (S f) false top (y :: s) racc ralts
    = p_seq is_ws f false top s (RLit y :: racc) ralts.
  Proof.
    intros f top y s racc ralts H.
    assert (E : forall z, In z loop_special -> N.eqb y z = false)
      by (intros z Hz; eapply mem_cp_false_neq; eauto).
    cbn [p_seq bump mem_cp].
    rewrite !E by (unfold loop_special; cbn [In]; tauto).
    reflexivity.
  Qed.

  Lemma p_seq_bs : forall f top s racc ralts,
    p_seq is_ws (S f) false top (92%N :: s) racc ralts
    = match Parse.parse_escape false s with
      | Some (EscLit l, r) => p_seq is_ws f false top r (RLit l :: racc) ralts
      | Some (EscPerl l, r) => p_seq is_ws f false top r (RPerl l :: racc) ralts
      | None => None
      end.
  Proof. reflexivity. Qed.

  Lemma p_seq_close : forall f s racc ralts,
    p_seq is_ws (S f) false false (41%N :: s) racc ralts = Some (alt_of (cat_of racc :: ralts), s).
  Proof. reflexivity. Qed.

  Lemma p_seq_pipe : forall f top s racc ralts,
    p_seq is_ws (S f) false top (124%N :: s) racc ralts
    = p_seq is_ws f false top s [] (cat_of racc :: ralts).
  Proof. reflexivity. Qed.

  Lemma p_seq_group_nc : forall f top body racc ralts,
    p_seq is_ws (S f) false top (40 :: 63 :: 58 :: body)%N racc ralts
    = match p_seq is_ws f false false body [] [] with
      | Some (inner, r) => p_seq is_ws f false top r (RGroup false inner :: racc) ralts
      | None => None
      end.
  Proof. reflexivity. Qed.

  Lemma p_seq_group_c : forall f top q t racc ralts, q <> 63%N ->
    p_seq is_ws (S f) false top (40%N :: q :: t) racc ralts
    = match p_seq is_ws f false false (q :: t) [] [] with
      | Some (inner, r) => p_seq is_ws f false top r (RGroup true inner :: racc) ralts
      | None => None
      end.
  Proof.
    intros f top q t racc ralts Hq. apply N.eqb_neq in Hq.
    cbn [p_seq bump]. change (N.eqb 40 41) with false. change (N.eqb 40 124) with false.
    change (N.eqb 40 40) with true. cbn iota.
    destruct t as [|col r]; rewrite Hq; [reflexivity|].
    rewrite andb_false_l. reflexivity.
  Qed.

  Lemma p_seq_bracket : forall f top s racc ralts,
    p_seq is_ws (S f) false top (91%N :: s) racc ralts
    = match parse_class_items is_ws f false s [] with
      | Some (items, r) => p_seq is_ws f false top r (RBracket items :: racc) ralts
      | None => None
      end.
  Proof. reflexivity. Qed.

  Lemma p_seq_star : forall f top s a racc ralts,
    p_seq is_ws (S f) false top (42%N :: s) (a :: racc) ralts
    = if lazy_follows s then None else p_seq is_ws f false top s (RRep a 0 None :: racc) ralts.
  Proof. reflexivity. Qed.

  Lemma p_seq_quest : forall f top s a racc ralts,
    p_seq is_ws (S f) false top (63%N :: s) (a :: racc) ralts
    = if lazy_follows s then None else p_seq is_ws f false top s (RRep a 0 (Some 1%N) :: racc) ralts.
  Proof. reflexivity. Qed.

  Lemma p_seq_brace : forall f top s a racc ralts,
    p_seq is_ws (S f) false top (123%N :: s) (a :: racc) ralts
    = match parse_counted is_ws false s with
      | Some (lo, hi, r) =>
          if lazy_follows r then None else p_seq is_ws f false top r (RRep a lo hi :: racc) ralts
      | None => None
      end.
  Proof. reflexivity. Qed.

  Lemma p_seq_caret : forall f top s racc ralts,
    p_seq is_ws (S f) false top (94%N :: s) racc ralts
    = p_seq is_ws f false top s (RStart :: racc) ralts.
  Proof. reflexivity. Qed.

  Lemma p_seq_dollar : forall f top s racc ralts,
    p_seq is_ws (S f) false top (36%N :: s) racc ralts
    = p_seq is_ws f false top s (REnd :: racc) ralts.
  Proof. reflexivity. Qed.

  (* ---------- backwards step lemmas ---------- *)
  Lemma pseq_end : forall racc ralts, pseq true [] racc ralts (alt_of (cat_of racc :: ralts), []).
  Proof. intros racc ralts f Hf. destruct f as [|f]; [cbn [length] in Hf; lia|]. reflexivity. Qed.

  Lemma pseq_close : forall r racc ralts,
    pseq false (41%N :: r) racc ralts (alt_of (cat_of racc :: ralts), r).
  Proof. intros r racc ralts f Hf. destruct f as [|f]; [lia|]. apply p_seq_close. Qed.

  Lemma pseq_pipe : forall top r racc ralts res,
    pseq top r [] (cat_of racc :: ralts) res -> pseq top (124%N :: r) racc ralts res.
  Proof.
    intros top r racc ralts res H f Hf. destruct f as [|f]; [lia|].
    rewrite p_seq_pipe. apply H. cbn [length] in Hf. lia.
  Qed.

  Lemma pseq_raw : forall top y r racc ralts res,
    mem_cp y loop_special = false ->
    pseq top r (RLit y :: racc) ralts res -> pseq top (y :: r) racc ralts res.
  Proof.
    intros top y r racc ralts res Hy H f Hf. destruct f as [|f]; [lia|].
    rewrite p_seq_raw by exact Hy. apply H. cbn [length] in Hf. lia.
  Qed.

  Lemma pseq_esc_lit : forall top s l r racc ralts res,
    Parse.parse_escape false s = Some (EscLit l, r) -> length r <= length s ->
    pseq top r (RLit l :: racc) ralts res -> pseq top (92%N :: s) racc ralts res.
  Proof.
    intros top s l r racc ralts res E Hl H f Hf. destruct f as [|f]; [lia|].
    rewrite p_seq_bs, E. apply H. cbn [length] in Hf. lia.
  Qed.

  Lemma pseq_esc_perl : forall top s l r racc ralts res,
    Parse.parse_escape false s = Some (EscPerl l, r) -> length r <= length s ->
    pseq top r (RPerl l :: racc) ralts res -> pseq top (92%N :: s) racc ralts res.
  Proof.
    intros top s l r racc ralts res E Hl H f Hf. destruct f as [|f]; [lia|].
    rewrite p_seq_bs, E. apply H. cbn [length] in Hf. lia.
  Qed.

  Lemma pseq_group_nc : forall top body inner r racc ralts res,
    pseq false body [] [] (inner, r) -> length r <= length body ->
    pseq top r (RGroup false inner :: racc) ralts res ->
    pseq top (40 :: 63 :: 58 :: body)%N racc ralts res.
  Proof.
    intros top body inner r racc ralts res Hb Hl H f Hf. destruct f as [|f]; [lia|].
    cbn [length] in Hf.
    rewrite p_seq_group_nc, (Hb f) by lia. apply H. lia.
  Qed.

  Lemma pseq_group_c : forall top q t inner r racc ralts res, q <> 63%N ->
    pseq false (q :: t) [] [] (inner, r) -> length r <= length (q :: t) ->
    pseq top r (RGroup true inner :: racc) ralts res ->
    pseq top (40%N :: q :: t) racc ralts res.
  Proof.
    intros top q t inner r racc ralts res Hq Hb Hl H f Hf. destruct f as [|f]; [lia|].
    cbn [length] in Hf, Hl.
    unfold cp in *.
    rewrite p_seq_group_c by exact Hq. rewrite (Hb f) by slia. apply H. slia.
  Qed.

  Lemma pseq_bracket : forall top s items r racc ralts res,
    pcls s [] (items, r) -> length r <= length s ->
    pseq top r (RBracket items :: racc) ralts res ->
    pseq top (91%N :: s) racc ralts res.
  Proof.
    intros top s items r racc ralts res Hb Hl H f Hf. destruct f as [|f]; [lia|].
    cbn [length] in Hf.
    rewrite p_seq_bracket, (Hb f) by lia. apply H. lia.
  Qed.

  Lemma pseq_star : forall top r a racc ralts res,
    lazy_follows r = false ->
    pseq top r (RRep a 0 None :: racc) ralts res -> pseq top (42%N :: r) (a :: racc) ralts res.
  Proof.
    intros top r a racc ralts res Hq H f Hf. destruct f as [|f]; [lia|].
    rewrite p_seq_star, Hq. apply H. cbn [length] in Hf. lia.
  Qed.

  Lemma pseq_quest : forall top r a racc ralts res,
    lazy_follows r = false ->
    pseq top r (RRep a 0 (Some 1%N) :: racc) ralts res -> pseq top (63%N :: r) (a :: racc) ralts res.
  Proof.
    intros top r a racc ralts res Hq H f Hf. destruct f as [|f]; [lia|].
    rewrite p_seq_quest, Hq. apply H. cbn [length] in Hf. lia.
  Qed.

  Lemma pseq_caret : forall top r racc ralts res,
    pseq top r (RStart :: racc) ralts res -> pseq top (94%N :: r) racc ralts res.
  Proof.
    intros top r racc ralts res H f Hf. destruct f as [|f]; [lia|].
    rewrite p_seq_caret. apply H. cbn [length] in Hf. lia.
  Qed.

  Lemma pseq_dollar : forall top r racc ralts res,
    pseq top r (REnd :: racc) ralts res -> pseq top (36%N :: r) racc ralts res.
  Proof.
    intros top r racc ralts res H f Hf. destruct f as [|f]; [lia|].
    rewrite p_seq_dollar. apply H. cbn [length] in Hf. lia.
  Qed.

  Hypothesis Hws : ws_ok is_ws.

  (* x{n} *)
  Lemma pseq_count_n : forall top n r a racc ralts res,
    lazy_follows r = false ->
    pseq top r (RRep a n (Some n) :: racc) ralts res ->
    pseq top (123%N :: dec_of_N n ++ 125%N :: r) (a :: racc) ralts res.
  Proof.
    intros top n r a racc ralts res Hq H f Hf. destruct f as [|f]; [lia|].
    rewrite p_seq_brace, (parse_counted_n is_ws Hws), Hq. apply H.
    cbn [length] in Hf. rewrite app_length in Hf. cbn [length] in Hf. lia.
  Qed.

  (* x{m,n} *)
  Lemma pseq_count_mn : forall top a b r x racc ralts res,
    (a <= b)%N -> lazy_follows r = false ->
    pseq top r (RRep x a (Some b) :: racc) ralts res ->
    pseq top (123%N :: dec_of_N a ++ 44%N :: dec_of_N b ++ 125%N :: r) (x :: racc) ralts res.
  Proof.
    intros top a b r x racc ralts res Hab Hq H f Hf. destruct f as [|f]; [lia|].
    rewrite p_seq_brace, (parse_counted_mn is_ws Hws) by exact Hab. rewrite Hq. apply H.
    cbn [length] in Hf. rewrite !app_length in Hf. cbn [length] in Hf.
    rewrite app_length in Hf. cbn [length] in Hf. lia.
  Qed.
End Step.
