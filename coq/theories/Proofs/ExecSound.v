(* The executable matcher of Engine/Exec.v computes exactly the matching relation of Engine/Sem.v:

     ends_spec          : In j (ends h r i) <-> m h r i j              (no restriction on r)
     matches_whole_spec : matches_whole h r = true <-> L_rast r h
     find_leftmost_spec : find_leftmost h r = Some (i, js) <-> js = ends h r i /\ i is the least
                          start of a match
     find_leftmost_none : find_leftmost h r = None <-> no match anywhere

   under the hypotheses that the boolean denotations lit_b / cls_b / range_b decide
   lit_den / cls_den / "some member of the range lo..hi denotes x".  The repetition case covers
   bodies that match the empty string and arbitrarily large counts (see the header of Exec.v for
   the argument: chains of more than length h body matches contain an empty one). *)
From Grex Require Import Base.Str Engine.Syntax Engine.Sem Engine.Exec.

(* ---------------------------------------------------------------------------------------- *)
(* Mutual induction for m / m_iter *)

Scheme m_mind := Minimality for m Sort Prop
  with m_iter_mind := Minimality for m_iter Sort Prop.
Combined Scheme m_m_iter_ind from m_mind, m_iter_mind.

(* ---------------------------------------------------------------------------------------- *)
(* memb / dedup *)

Lemma memb_In : forall x l, memb x l = true <-> In x l.
Proof.
  intros x l. induction l as [|y l IH]; simpl.
  - split; [discriminate | tauto].
  - rewrite orb_true_iff, IH, Nat.eqb_eq. split; intros [H|H]; auto.
Qed.

Lemma In_dedup : forall x l, In x (dedup l) <-> In x l.
Proof.
  intros x l. induction l as [|y l IH]; simpl; [tauto|].
  destruct (memb y l) eqn:E.
  - rewrite IH. split; [tauto|]. intros [H|H]; [|exact H]. subst. apply memb_In; exact E.
  - simpl. rewrite IH. tauto.
Qed.

Lemma NoDup_dedup : forall l, NoDup (dedup l).
Proof.
  induction l as [|y l IH]; simpl; [constructor|].
  destruct (memb y l) eqn:E; [exact IH|].
  constructor; [|exact IH].
  rewrite In_dedup. intro H. apply memb_In in H. congruence.
Qed.

Lemma existsb_eqb_In : forall n l, existsb (Nat.eqb n) l = true <-> In n l.
Proof.
  intros n l. rewrite existsb_exists. split.
  - intros [x [Hin He]]. apply Nat.eqb_eq in He. subst. exact Hin.
  - intro H. exists n. split; [exact H | apply Nat.eqb_refl].
Qed.

(* ---------------------------------------------------------------------------------------- *)
(* Positions: a match never moves left and never leaves the haystack *)

Section Bounds.
  Variable lit_den : cp -> cp -> Prop.
  Variable cls_den : cp -> cp -> Prop.
  Variable h : str.
  Local Notation M := (m lit_den cls_den h).
  Local Notation MI := (m_iter lit_den cls_den h).

  Lemma m_bounds_both :
    (forall r i j, M r i j -> i <= j <= Nat.max i (length h)) /\
    (forall r n i j, MI r n i j -> i <= j <= Nat.max i (length h)).
  Proof.
    apply m_m_iter_ind; intros; try lia.
    - assert (Hlt : i < length h) by (apply nth_error_Some; congruence). lia.
    - assert (Hlt : i < length h) by (apply nth_error_Some; congruence). lia.
    - assert (Hlt : i < length h) by (apply nth_error_Some; congruence). lia.
  Qed.

  Lemma m_bounds : forall r i j, M r i j -> i <= j <= Nat.max i (length h).
  Proof. exact (proj1 m_bounds_both). Qed.

  Lemma m_iter_bounds : forall r n i j, MI r n i j -> i <= j <= Nat.max i (length h).
  Proof. exact (proj2 m_bounds_both). Qed.

  (* the form asked for: inside the haystack, a match stays inside *)
  Lemma m_le : forall r i j, M r i j -> i <= length h -> i <= j <= length h.
  Proof. intros r i j H Hi. pose proof (m_bounds r i j H) as Hb. lia. Qed.

  Lemma m_span : forall r i j, M r i j -> j - i <= length h.
  Proof. intros r i j H. pose proof (m_bounds r i j H) as Hb. lia. Qed.

  Lemma m_iter_span : forall r n i j, MI r n i j -> j - i <= length h.
  Proof. intros r n i j H. pose proof (m_iter_bounds r n i j H) as Hb. lia. Qed.

  (* a match starting beyond the end of the haystack is an empty match that is also available
     at the end of the haystack *)
  Lemma m_beyond_both :
    (forall r i j, M r i j -> length h < i -> M r (length h) (length h)) /\
    (forall r n i j, MI r n i j -> length h < i -> MI r n (length h) (length h)).
  Proof.
    apply m_m_iter_ind.
    - intros i Hi. apply m_empty.
    - intros c x i Hn Hl Hi. assert (Hlt : i < length h) by (apply nth_error_Some; congruence). lia.
    - intros l x i Hn Hl Hi. assert (Hlt : i < length h) by (apply nth_error_Some; congruence). lia.
    - intros items lo hi c x i Hin H1 H2 Hn Hl Hi.
      assert (Hlt : i < length h) by (apply nth_error_Some; congruence). lia.
    - intro Hi. lia.
    - intro Hi. lia.
    - intros cap r i j Hm IH Hi. apply m_group. apply IH. exact Hi.
    - intros a b i k j Ha IHa Hb IHb Hi.
      pose proof (m_bounds a i k Ha) as Hbd.
      apply m_cat with (k := length h); [apply IHa | apply IHb]; lia.
    - intros a b i j Ha IHa Hi. apply m_alt_l. apply IHa. exact Hi.
    - intros a b i j Hb IHb Hi. apply m_alt_r. apply IHb. exact Hi.
    - intros r lo hi n i j Hlo Hhi Hit IH Hi. apply m_rep with (n := n); auto.
    - intros r i Hi. apply mi_0.
    - intros r n i k j Hm IHm Hit IHit Hi.
      pose proof (m_bounds r i k Hm) as Hbd.
      apply mi_S with (k := length h); [apply IHm | apply IHit]; lia.
  Qed.

  Lemma m_beyond : forall r i j, M r i j -> length h < i -> M r (length h) (length h).
  Proof. exact (proj1 m_beyond_both). Qed.

  (* ------------------------------------------------------------------------------------ *)
  (* Chains of body matches *)

  Lemma m_iter_0_inv : forall r i j, MI r 0 i j -> i = j.
  Proof. intros r i j H. inversion H; subst. reflexivity. Qed.

  Lemma m_iter_S_inv : forall r n i j, MI r (S n) i j -> exists k, M r i k /\ MI r n k j.
  Proof. intros r n i j H. inversion H; subst. exists k. split; assumption. Qed.

  Lemma m_iter_app : forall r a b i p j, MI r a i p -> MI r b p j -> MI r (a + b) i j.
  Proof.
    intros r a. induction a as [|a IH]; intros b i p j Ha Hb.
    - apply m_iter_0_inv in Ha. subst. exact Hb.
    - apply m_iter_S_inv in Ha. destruct Ha as [k [Hm Hit]].
      simpl. apply mi_S with (k := k); [exact Hm|]. apply IH with (p := p); assumption.
  Qed.

  Lemma m_iter_split : forall r a b i j, MI r (a + b) i j -> exists p, MI r a i p /\ MI r b p j.
  Proof.
    intros r a. induction a as [|a IH]; intros b i j H.
    - exists i. split; [apply mi_0 | exact H].
    - simpl in H. apply m_iter_S_inv in H. destruct H as [k [Hm Hit]].
      destruct (IH b k j Hit) as [p [H1 H2]].
      exists p. split; [|exact H2]. apply mi_S with (k := k); assumption.
  Qed.

  (* a chain with more links than code points consumed contains an empty link: drop it *)
  Lemma m_iter_shrink : forall r n i j, MI r (S n) i j -> j - i <= n -> MI r n i j.
  Proof.
    intros r n. induction n as [|n IH]; intros i j H Hd.
    - pose proof (m_iter_bounds _ _ _ _ H) as Hb.
      assert (Heq : j = i) by lia. subst. apply mi_0.
    - apply m_iter_S_inv in H. destruct H as [k [Hm Hit]].
      destruct (Nat.eq_dec k i) as [He|Hne].
      + subst. exact Hit.
      + pose proof (m_bounds _ _ _ Hm) as Hb1.
        pose proof (m_iter_bounds _ _ _ _ Hit) as Hb2.
        apply mi_S with (k := k); [exact Hm|]. apply IH; [exact Hit | lia].
  Qed.

  (* ... or duplicate it *)
  Lemma m_iter_grow : forall r n i j, MI r n i j -> j - i < n -> MI r (S n) i j.
  Proof.
    intros r n. induction n as [|n IH]; intros i j H Hd; [lia|].
    pose proof H as H0.
    apply m_iter_S_inv in H. destruct H as [k [Hm Hit]].
    destruct (Nat.eq_dec k i) as [He|Hne].
    - subst. apply mi_S with (k := i); assumption.
    - pose proof (m_bounds _ _ _ Hm) as Hb1.
      pose proof (m_iter_bounds _ _ _ _ Hit) as Hb2.
      apply mi_S with (k := k); [exact Hm|]. apply IH; [exact Hit | lia].
  Qed.

  (* so the set of positions reachable by exactly n links is the same for all n > length h *)
  Lemma m_iter_stable : forall r K n i j, length h < K -> K <= n -> (MI r n i j <-> MI r K i j).
  Proof.
    intros r K n i j HK Hle. induction Hle as [|n Hle IH]; [tauto|].
    rewrite <- IH. split; intro H.
    - apply m_iter_shrink; [exact H|]. pose proof (m_iter_span _ _ _ _ H) as Hs. lia.
    - apply m_iter_grow; [exact H|]. pose proof (m_iter_span _ _ _ _ H) as Hs. lia.
  Qed.
End Bounds.

(* ---------------------------------------------------------------------------------------- *)
(* The frontier iteration computes the chains *)

Section RepSound.
  Variable lit_den : cp -> cp -> Prop.
  Variable cls_den : cp -> cp -> Prop.
  Variable h : str.
  Variable r : rast.
  Variable f : nat -> list nat.
  Hypothesis f_spec : forall i j, In j (f i) <-> m lit_den cls_den h r i j.
  Local Notation M := (m lit_den cls_den h).
  Local Notation MI := (m_iter lit_den cls_den h).

  Lemma In_step : forall ps j, In j (step f ps) <-> exists i, In i ps /\ M r i j.
  Proof.
    intros ps j. unfold step. rewrite In_dedup, in_flat_map.
    split; intros [i [Hi Hj]]; exists i; (split; [exact Hi|]); apply f_spec; exact Hj.
  Qed.

  Lemma step_nil : step f [] = [].
  Proof. reflexivity. Qed.

  Lemma pow_nil : forall n, pow f n [] = [].
  Proof. intro n. destruct n; reflexivity. Qed.

  Lemma pow_0 : forall ps, pow f 0 ps = ps.
  Proof. intro ps. destruct ps; reflexivity. Qed.

  Lemma pow_S : forall n ps, pow f (S n) ps = pow f n (step f ps).
  Proof. intros n ps. destruct ps as [|p ps]; [|reflexivity]. simpl. rewrite pow_nil. reflexivity. Qed.

  Lemma collect_nil : forall c, collect f c [] = [].
  Proof. intro c. destruct c; reflexivity. Qed.

  Lemma collect_0 : forall ps, collect f 0 ps = ps.
  Proof. intro ps. destruct ps; reflexivity. Qed.

  Lemma collect_S : forall c ps, collect f (S c) ps = ps ++ collect f c (step f ps).
  Proof. intros c ps. destruct ps as [|p ps]; [|reflexivity]. simpl. rewrite collect_nil. reflexivity. Qed.

  Lemma In_pow : forall n ps j, In j (pow f n ps) <-> exists i, In i ps /\ MI r n i j.
  Proof.
    intro n. induction n as [|n IH]; intros ps j.
    - rewrite pow_0. split.
      + intro H. exists j. split; [exact H | apply mi_0].
      + intros [i [Hi Hit]]. apply m_iter_0_inv in Hit. subst. exact Hi.
    - rewrite pow_S, IH. split.
      + intros [k [Hk Hit]]. apply In_step in Hk. destruct Hk as [i [Hi Hm]].
        exists i. split; [exact Hi|]. apply mi_S with (k := k); assumption.
      + intros [i [Hi Hit]]. apply m_iter_S_inv in Hit. destruct Hit as [k [Hm Hit]].
        exists k. split; [|exact Hit]. apply In_step. exists i. split; assumption.
  Qed.

  Lemma In_collect : forall c ps j,
    In j (collect f c ps) <-> exists i n, In i ps /\ n <= c /\ MI r n i j.
  Proof.
    intro c. induction c as [|c IH]; intros ps j.
    - rewrite collect_0. split.
      + intro H. exists j, 0. split; [exact H|]. split; [lia | apply mi_0].
      + intros [i [n [Hi [Hn Hit]]]]. assert (n = 0) by lia. subst.
        apply m_iter_0_inv in Hit. subst. exact Hi.
    - rewrite collect_S, in_app_iff, IH. split.
      + intros [H | [k [n [Hk [Hn Hit]]]]].
        * exists j, 0. split; [exact H|]. split; [lia | apply mi_0].
        * apply In_step in Hk. destruct Hk as [i [Hi Hm]].
          exists i, (S n). split; [exact Hi|]. split; [lia|].
          apply mi_S with (k := k); assumption.
      + intros [i [n [Hi [Hn Hit]]]]. destruct n as [|n].
        * left. apply m_iter_0_inv in Hit. subst. exact Hi.
        * right. apply m_iter_S_inv in Hit. destruct Hit as [k [Hm Hit]].
          exists k, n. split; [apply In_step; exists i; split; assumption|].
          split; [lia | exact Hit].
  Qed.

  (* the positions reached from i by a chain of n links, a <= n <= b *)
  Lemma In_collect_pow : forall a c i j,
    In j (collect f c (pow f a [i])) <-> exists n, a <= n <= a + c /\ MI r n i j.
  Proof.
    intros a c i j. rewrite In_collect. split.
    - intros [p [n [Hp [Hn Hit]]]]. apply In_pow in Hp. destruct Hp as [i' [Hi' Hit']].
      destruct Hi' as [Hi'|[]]. subst i'.
      exists (a + n). split; [lia|]. apply m_iter_app with (p := p); assumption.
    - intros [n [Hn Hit]].
      replace n with (a + (n - a)) in Hit by lia.
      apply m_iter_split in Hit. destruct Hit as [p [H1 H2]].
      exists p, (n - a). split; [|split; [lia | exact H2]].
      apply In_pow. exists i. split; [left; reflexivity | exact H1].
  Qed.

  Lemma In_rep_ends : forall lo hi i j,
    In j (rep_ends f (length h) lo hi i) <-> M (RRep r lo hi) i j.
  Proof.
    intros lo hi i j. unfold rep_ends.
    set (K := S (length h)).
    assert (HK : length h < K) by (unfold K; lia).
    split.
    - intro H.
      destruct (match hi with Some k => (lo <=? k)%N | None => true end) eqn:Hc;
        [|destruct H].
      rewrite In_dedup in H. apply In_collect_pow in H. destruct H as [n [Hn Hit]].
      destruct (N.le_gt_cases lo (N.of_nat K)) as [Hlo|Hlo].
      + (* lo <= K: n itself is an admissible count *)
        apply m_rep with (n := n); [lia | | exact Hit].
        destruct hi as [k|]; [|exact I]. apply N.leb_le in Hc. lia.
      + (* lo > K: then n = K, and K links can be stretched to lo links *)
        assert (HnK : n = K).
        { destruct hi as [k|]; [apply N.leb_le in Hc|]; lia. }
        subst n.
        apply m_rep with (n := N.to_nat lo).
        * lia.
        * destruct hi as [k|]; [|exact I]. apply N.leb_le in Hc. lia.
        * apply (m_iter_stable lit_den cls_den h r K (N.to_nat lo) i j HK); [lia | exact Hit].
    - intro H. inversion H as [| | | | | | | | | |r0 lo0 hi0 n i0 j0 Hlo Hhi Hit]; subst.
      assert (Hc : match hi with Some k => (lo <=? k)%N | None => true end = true).
      { destruct hi as [k|]; [|reflexivity]. apply N.leb_le. lia. }
      rewrite Hc. rewrite In_dedup. apply In_collect_pow.
      destruct (le_gt_dec n K) as [HnK|HnK].
      + exists n. split; [|exact Hit]. destruct hi as [k|]; lia.
      + exists K. split; [destruct hi as [k|]; lia|].
        apply (m_iter_stable lit_den cls_den h r K n i j HK); [lia | exact Hit].
  Qed.
End RepSound.

(* ---------------------------------------------------------------------------------------- *)
(* The main theorems *)

Section Sound.
  Variable lit_den : cp -> cp -> Prop.
  Variable cls_den : cp -> cp -> Prop.
  Variable lit_b : cp -> cp -> bool.
  Variable cls_b : cp -> cp -> bool.
  Variable range_b : cp -> cp -> cp -> bool.
  Hypothesis lit_spec : forall c x, lit_b c x = true <-> lit_den c x.
  Hypothesis cls_spec : forall l x, cls_b l x = true <-> cls_den l x.
  Hypothesis range_spec : forall lo hi x,
    range_b lo hi x = true <-> exists c, (lo <= c)%N /\ (c <= hi)%N /\ lit_den c x.
  Local Notation M := (m lit_den cls_den).
  Local Notation Ends := (ends lit_b cls_b range_b).

  Theorem ends_spec : forall h r i j, In j (Ends h r i) <-> M h r i j.
  Proof.
    intros h r. induction r as [|c|l|items| | |cap r IH|r IH lo hi|a IHa b IHb|a IHa b IHb];
      intros i j; simpl.
    - (* REmpty *)
      split.
      + intros [H|[]]. subst. apply m_empty.
      + intro H. inversion H; subst. left. reflexivity.
    - (* RLit *)
      split.
      + intro H. destruct (nth_error h i) as [x|] eqn:Hn; [|destruct H].
        destruct (lit_b c x) eqn:Hl; [|destruct H]. destruct H as [H|[]]. subst.
        apply m_lit with (x := x); [exact Hn | apply lit_spec; exact Hl].
      + intro H. inversion H as [|c0 x i0 Hn Hl| | | | | | | | |]; subst.
        rewrite Hn. apply lit_spec in Hl. rewrite Hl. left. reflexivity.
    - (* RPerl *)
      split.
      + intro H. destruct (nth_error h i) as [x|] eqn:Hn; [|destruct H].
        destruct (cls_b l x) eqn:Hl; [|destruct H]. destruct H as [H|[]]. subst.
        apply m_perl with (x := x); [exact Hn | apply cls_spec; exact Hl].
      + intro H. inversion H as [| |l0 x i0 Hn Hl| | | | | | | |]; subst.
        rewrite Hn. apply cls_spec in Hl. rewrite Hl. left. reflexivity.
    - (* RBracket *)
      split.
      + intro H. destruct (nth_error h i) as [x|] eqn:Hn; [|destruct H].
        destruct (existsb (item_b range_b x) items) eqn:He; [|destruct H].
        destruct H as [H|[]]. subst.
        apply existsb_exists in He. destruct He as [[lo hi] [Hin Hr]].
        unfold item_b in Hr. simpl in Hr. apply range_spec in Hr.
        destruct Hr as [c [H1 [H2 H3]]].
        apply m_bracket with (lo := lo) (hi := hi) (c := c) (x := x); assumption.
      + intro H. inversion H as [| | |items0 lo hi c x i0 Hin H1 H2 Hn Hl| | | | | | |]; subst.
        rewrite Hn.
        assert (He : existsb (item_b range_b x) items = true).
        { apply existsb_exists. exists (lo, hi). split; [exact Hin|].
          unfold item_b. simpl. apply range_spec. exists c. auto. }
        rewrite He. left. reflexivity.
    - (* RStart *)
      split.
      + intro H. destruct (Nat.eqb i 0) eqn:He; [|destruct H].
        apply Nat.eqb_eq in He. destruct H as [H|[]]. subst. apply m_start.
      + intro H. inversion H; subst. simpl. left. reflexivity.
    - (* REnd *)
      split.
      + intro H. destruct (Nat.eqb i (length h)) eqn:He; [|destruct H].
        apply Nat.eqb_eq in He. destruct H as [H|[]]. subst. apply m_end.
      + intro H. inversion H; subst. rewrite Nat.eqb_refl. left. reflexivity.
    - (* RGroup *)
      rewrite IH. split.
      + intro H. apply m_group. exact H.
      + intro H. inversion H; subst. assumption.
    - (* RRep *)
      apply In_rep_ends. exact IH.
    - (* RCat *)
      rewrite In_dedup, in_flat_map. split.
      + intros [k [Hk Hj]]. apply IHa in Hk. apply IHb in Hj.
        apply m_cat with (k := k); assumption.
      + intro H. inversion H as [| | | | | | |a0 b0 i0 k j0 Ha Hb| | |]; subst.
        exists k. split; [apply IHa | apply IHb]; assumption.
    - (* RAlt *)
      rewrite In_dedup, in_app_iff, IHa, IHb. split.
      + intros [H|H]; [apply m_alt_l | apply m_alt_r]; exact H.
      + intro H. inversion H; subst; [left | right]; assumption.
  Qed.

  Lemma NoDup_rep_ends : forall f len lo hi i, NoDup (rep_ends f len lo hi i).
  Proof.
    intros f len lo hi i. unfold rep_ends.
    destruct (match hi with Some k => (lo <=? k)%N | None => true end);
      [apply NoDup_dedup | constructor].
  Qed.

  Lemma NoDup_1 : forall x : nat, NoDup [x].
  Proof. intro x. constructor; [intros [] | constructor]. Qed.

  Theorem ends_NoDup : forall h r i, NoDup (Ends h r i).
  Proof.
    intros h r. induction r as [|c|l|items| | |cap r IH|r IH lo hi|a IHa b IHb|a IHa b IHb];
      intro i; simpl.
    - apply NoDup_1.
    - destruct (nth_error h i) as [x|]; [|constructor].
      destruct (lit_b c x); [apply NoDup_1 | constructor].
    - destruct (nth_error h i) as [x|]; [|constructor].
      destruct (cls_b l x); [apply NoDup_1 | constructor].
    - destruct (nth_error h i) as [x|]; [|constructor].
      destruct (existsb (item_b range_b x) items); [apply NoDup_1 | constructor].
    - destruct (Nat.eqb i 0); [apply NoDup_1 | constructor].
    - destruct (Nat.eqb i (length h)); [apply NoDup_1 | constructor].
    - apply IH.
    - apply NoDup_rep_ends.
    - apply NoDup_dedup.
    - apply NoDup_dedup.
  Qed.

  Theorem matches_at_spec : forall h r i j,
    matches_at lit_b cls_b range_b h r i j = true <-> M h r i j.
  Proof. intros h r i j. unfold matches_at. rewrite memb_In. apply ends_spec. Qed.

  Theorem matches_whole_spec : forall h r,
    matches_whole lit_b cls_b range_b h r = true <-> L_rast lit_den cls_den r h.
  Proof.
    intros h r. unfold matches_whole, L_rast. rewrite existsb_eqb_In. apply ends_spec.
  Qed.

  (* -------------------------------------------------------------------------------------- *)
  (* the leftmost start *)

  Lemma ends_nil_iff : forall h r i, Ends h r i = [] <-> forall j, ~ M h r i j.
  Proof.
    intros h r i. split.
    - intros He j Hm. apply ends_spec in Hm. rewrite He in Hm. destruct Hm.
    - intro Hn. destruct (Ends h r i) as [|j js] eqn:He; [reflexivity|].
      exfalso. apply (Hn j). apply ends_spec. rewrite He. left. reflexivity.
  Qed.

  Lemma find_from_some : forall h r cnt i i0 js,
    find_from lit_b cls_b range_b h r cnt i = Some (i0, js) ->
    i <= i0 <= i + cnt /\ js = Ends h r i0 /\ js <> [] /\
    forall i', i <= i' < i0 -> Ends h r i' = [].
  Proof.
    intros h r cnt. induction cnt as [|cnt IH]; intros i i0 js H; simpl in H.
    - destruct (Ends h r i) as [|j l] eqn:He; [discriminate|].
      inversion H; subst. split; [lia|]. split; [symmetry; exact He|].
      split; [discriminate|]. intros i' Hi'. lia.
    - destruct (Ends h r i) as [|j l] eqn:He.
      + apply IH in H. destruct H as [H1 [H2 [H3 H4]]].
        split; [lia|]. split; [exact H2|]. split; [exact H3|].
        intros i' Hi'. destruct (Nat.eq_dec i' i) as [Heq|Hne]; [subst; exact He|].
        apply H4. lia.
      + inversion H; subst. split; [lia|]. split; [symmetry; exact He|].
        split; [discriminate|]. intros i' Hi'. lia.
  Qed.

  Lemma find_from_none : forall h r cnt i,
    find_from lit_b cls_b range_b h r cnt i = None ->
    forall i', i <= i' <= i + cnt -> Ends h r i' = [].
  Proof.
    intros h r cnt. induction cnt as [|cnt IH]; intros i H i' Hi'; simpl in H.
    - destruct (Ends h r i) as [|j l] eqn:He; [|discriminate].
      assert (i' = i) by lia. subst. exact He.
    - destruct (Ends h r i) as [|j l] eqn:He; [|discriminate].
      destruct (Nat.eq_dec i' i) as [Heq|Hne]; [subst; exact He|].
      apply (IH (S i) H). lia.
  Qed.

  (* a match anywhere gives a match starting inside 0..length h, not further right *)
  Lemma match_inside : forall h r i j, M h r i j ->
    exists i1 j1, i1 <= i /\ i1 <= length h /\ M h r i1 j1.
  Proof.
    intros h r i j Hm. destruct (le_gt_dec i (length h)) as [Hle|Hgt].
    - exists i, j. split; [lia|]. split; [exact Hle | exact Hm].
    - exists (length h), (length h). split; [lia|]. split; [lia|].
      apply (m_beyond lit_den cls_den h r i j Hm). lia.
  Qed.

  Theorem find_leftmost_none : forall h r,
    find_leftmost lit_b cls_b range_b h r = None <-> forall i j, ~ M h r i j.
  Proof.
    intros h r. unfold find_leftmost. split.
    - intros H i j Hm. destruct (match_inside h r i j Hm) as [i1 [j1 [H1 [H2 H3]]]].
      pose proof (find_from_none h r (length h) 0 H i1) as He.
      apply ends_spec in H3. rewrite He in H3; [destruct H3 | lia].
    - intro Hn. destruct (find_from lit_b cls_b range_b h r (length h) 0) as [[i js]|] eqn:Hf;
        [|reflexivity].
      exfalso. apply find_from_some in Hf. destruct Hf as [_ [H2 [H3 _]]].
      destruct js as [|j js]; [apply H3; reflexivity|].
      apply (Hn i j). apply ends_spec. rewrite <- H2. left. reflexivity.
  Qed.

  Theorem find_leftmost_spec : forall h r i js,
    find_leftmost lit_b cls_b range_b h r = Some (i, js) <->
    js = Ends h r i /\ (exists j, M h r i j) /\ (forall i' j, i' < i -> ~ M h r i' j).
  Proof.
    intros h r i js. split.
    - intro H. unfold find_leftmost in H. apply find_from_some in H.
      destruct H as [_ [H2 [H3 H4]]]. split; [exact H2|]. split.
      + destruct js as [|j js']; [exfalso; apply H3; reflexivity|].
        exists j. apply ends_spec. rewrite <- H2. left. reflexivity.
      + intros i' j Hlt Hm. apply ends_spec in Hm. rewrite H4 in Hm; [destruct Hm | lia].
    - intros [Hjs [[j Hm] Hmin]].
      destruct (find_leftmost lit_b cls_b range_b h r) as [[i0 js0]|] eqn:Hf.
      + unfold find_leftmost in Hf. apply find_from_some in Hf.
        destruct Hf as [_ [H2 [H3 H4]]].
        assert (Hi : i0 = i).
        { destruct (lt_eq_lt_dec i0 i) as [[Hlt|Heq]|Hgt]; [|exact Heq|].
          - exfalso. destruct js0 as [|j0 js0']; [apply H3; reflexivity|].
            apply (Hmin i0 j0 Hlt). apply ends_spec. rewrite <- H2. left. reflexivity.
          - exfalso. apply ends_spec in Hm. rewrite H4 in Hm; [destruct Hm | lia]. }
        subst i0. rewrite Hjs, H2. reflexivity.
      + exfalso. apply (proj1 (find_leftmost_none h r) Hf i j). exact Hm.
  Qed.

  (* the list returned enumerates exactly the ends from the leftmost start, which is <= length h *)
  Corollary find_leftmost_ends : forall h r i js,
    find_leftmost lit_b cls_b range_b h r = Some (i, js) ->
    i <= length h /\ js <> [] /\ NoDup js /\ forall j, In j js <-> M h r i j.
  Proof.
    intros h r i js H. pose proof H as H0. unfold find_leftmost in H0.
    apply find_from_some in H0. destruct H0 as [H1 [H2 [H3 _]]].
    split; [lia|]. split; [exact H3|]. subst js.
    split; [apply ends_NoDup|]. intro j. apply ends_spec.
  Qed.

  (* completeness: the least start of a match is found *)
  Corollary find_leftmost_complete : forall h r i j,
    M h r i j -> (forall i' j', i' < i -> ~ M h r i' j') ->
    find_leftmost lit_b cls_b range_b h r = Some (i, Ends h r i).
  Proof.
    intros h r i j Hm Hmin. apply find_leftmost_spec.
    split; [reflexivity|]. split; [exists j; exact Hm | exact Hmin].
  Qed.
End Sound.

(* ---------------------------------------------------------------------------------------- *)
(* The case-sensitive instance: lit_den := eq *)

Lemma lit_cs_spec : forall c x, lit_cs c x = true <-> c = x.
Proof. intros c x. unfold lit_cs. apply N.eqb_eq. Qed.

Lemma range_cs_spec : forall lo hi x,
  range_cs lo hi x = true <-> exists c, (lo <= c)%N /\ (c <= hi)%N /\ c = x.
Proof.
  intros lo hi x. unfold range_cs. rewrite andb_true_iff, !N.leb_le. split.
  - intros [H1 H2]. exists x. auto.
  - intros [c [H1 [H2 H3]]]. subst. auto.
Qed.

Section SoundCs.
  Variable cls_den : cp -> cp -> Prop.
  Variable cls_b : cp -> cp -> bool.
  Hypothesis cls_spec : forall l x, cls_b l x = true <-> cls_den l x.

  Theorem ends_cs_spec : forall h r i j, In j (ends_cs cls_b h r i) <-> m eq cls_den h r i j.
  Proof. exact (ends_spec eq cls_den lit_cs cls_b range_cs lit_cs_spec cls_spec range_cs_spec). Qed.

  Theorem matches_whole_cs_spec : forall h r,
    matches_whole_cs cls_b h r = true <-> L_rast eq cls_den r h.
  Proof.
    exact (matches_whole_spec eq cls_den lit_cs cls_b range_cs lit_cs_spec cls_spec range_cs_spec).
  Qed.

  Theorem find_leftmost_cs_spec : forall h r i js,
    find_leftmost_cs cls_b h r = Some (i, js) <->
    js = ends_cs cls_b h r i /\ (exists j, m eq cls_den h r i j) /\
    (forall i' j, i' < i -> ~ m eq cls_den h r i' j).
  Proof.
    exact (find_leftmost_spec eq cls_den lit_cs cls_b range_cs lit_cs_spec cls_spec range_cs_spec).
  Qed.

  Theorem find_leftmost_cs_none : forall h r,
    find_leftmost_cs cls_b h r = None <-> forall i j, ~ m eq cls_den h r i j.
  Proof.
    exact (find_leftmost_none eq cls_den lit_cs cls_b range_cs lit_cs_spec cls_spec range_cs_spec).
  Qed.
End SoundCs.

Print Assumptions ends_spec.
Print Assumptions ends_NoDup.
Print Assumptions matches_at_spec.
Print Assumptions matches_whole_spec.
Print Assumptions find_leftmost_spec.
Print Assumptions find_leftmost_none.
Print Assumptions find_leftmost_ends.
Print Assumptions find_leftmost_complete.
Print Assumptions ends_cs_spec.
Print Assumptions matches_whole_cs_spec.
Print Assumptions find_leftmost_cs_spec.
Print Assumptions find_leftmost_cs_none.
