(* Hopcroft minimisation on tries (Dfa.v, section "M: minimize"): totality, the result is a
   partition, and THE RESULT IS STABLE.  Set-level lemmas, the termination measure, the loop
   rule and the structural invariants live in HopSets.v.

   Ghost state of the stability proof: for every label c of the alphabet a map q_c from
   states to "coarse class" numbers (a partition Q_c coarser than P).  A block Y of P is
   PENDING for c when it is in the worklist W, or when it is a fragment of the splitter A
   currently being processed and c has not been processed for A yet.  Invariant, per label:
     (ref)  P refines Q_c;
     (stab) for every class K of Q_c that contains a non-pending block, pre_c(K) splits no
            block of P;
     (one)  every class of Q_c contains at most one non-pending (non-empty) block.
   Processing label c with splitter A replaces Q_c by { K \ A } + { A }; this is sound by the
   pre-difference lemma pre_c(K \ A) = pre_c(K) \ pre_c(A), which holds because every state has
   at most one c-successor.  At exit nothing is pending, hence Q_c = P and P is c-stable. *)
From Grex Require Import Base.Str Model.Config Model.Cluster Model.Dfa Model.Expr.
From Grex Require Import Proofs.Lang Proofs.TrieLang Proofs.HopSets.

(* ---------- the premises ---------- *)
Record trie_like (d : dfa) : Prop := {
  (* edges stay inside the state set and point forward (the root 0 has no incoming edge) *)
  tl_range : forall e, In e (d_edges d) -> e_src e < e_dst e /\ e_dst e < d_n d;
  tl_init : d_init d = 0;
  tl_n : 1 <= d_n d;
  (* tree shape: at most one incoming edge per state *)
  tl_in_unique : forall e1 e2, In e1 (d_edges d) -> In e2 (d_edges d) ->
                   e_dst e1 = e_dst e2 -> e1 = e2;
  (* determinism: no state has two out-edges with label_match-equal labels *)
  tl_det : forall e1 e2, In e1 (d_edges d) -> In e2 (d_edges d) ->
             e_src e1 = e_src e2 -> label_match (e_lbl e1) (e_lbl e2) = true -> e1 = e2;
  (* uniform labels *)
  tl_uniform : forall e, In e (d_edges d) -> uniform_g (e_lbl e);
  tl_alpha_uniform : forall c, In c (d_alphabet d) -> uniform_g c;
  (* every edge label is in the alphabet up to label_match *)
  tl_alpha_cover : forall e, In e (d_edges d) ->
                     exists c, In c (d_alphabet d) /\ label_match (e_lbl e) c = true
}.

(* ---------- label_match on uniform labels ---------- *)
Lemma label_match_uniform : forall g c,
  uniform_g g -> uniform_g c -> label_match g c = true ->
  g_chars g = g_chars c /\ g_min g = g_min c /\ g_max g = g_max c.
Proof.
  intros g c Hg Hc H. unfold uniform_g in *. unfold label_match in H.
  apply andb_true_iff in H. destruct H as [H H3].
  apply andb_true_iff in H. destruct H as [H1 H2]. apply strs_eqb_eq in H1.
  apply N.leb_le in H2. apply N.leb_le in H3. split; [exact H1|]. split; lia.
Qed.

Lemma strs_eqb_refl : forall a, strs_eqb a a = true.
Proof.
  unfold strs_eqb. induction a as [|x a IH]; simpl; auto.
  rewrite IH, andb_true_r. induction x as [|y x IHx]; simpl; auto.
  rewrite N.eqb_refl. exact IHx.
Qed.

Lemma label_match_of_eq : forall g h,
  g_chars g = g_chars h -> g_min g = g_min h -> g_max g = g_max h -> label_match g h = true.
Proof.
  intros g h H1 H2 H3. unfold label_match. rewrite H1, H2, H3, strs_eqb_refl, !N.leb_refl. reflexivity.
Qed.

(* ---------- c-edges and parent_states ---------- *)
Definition cedge (es : list edge) (c : grapheme) (s s' : nat) : Prop :=
  exists e, In e es /\ e_src e = s /\ e_dst e = s' /\ label_match (e_lbl e) c = true.

Lemma find_in_edges : forall es c st e,
  (forall e1 e2, In e1 es -> In e2 es -> e_dst e1 = e_dst e2 -> e1 = e2) ->
  (find (fun e => label_match (e_lbl e) c) (in_edges es st) = Some e
   <-> In e es /\ e_dst e = st /\ label_match (e_lbl e) c = true).
Proof.
  intros es c st e Hu. unfold in_edges. split.
  - intros H. apply find_some in H. destruct H as [H1 H2]. apply filter_In in H1.
    destruct H1 as [H1 H3]. apply in_rev in H1. apply Nat.eqb_eq in H3. auto.
  - intros (H1 & H2 & H3).
    destruct (find (fun e0 => label_match (e_lbl e0) c)
                (filter (fun e0 => Nat.eqb (e_dst e0) st) (rev es))) as [e'|] eqn:F.
    + apply find_some in F. destruct F as [F1 F2]. apply filter_In in F1.
      destruct F1 as [F1 F3]. apply in_rev in F1. apply Nat.eqb_eq in F3.
      f_equal. apply Hu; auto. congruence.
    + exfalso. eapply find_none in F.
      * simpl in F. rewrite H3 in F. discriminate.
      * apply filter_In. split; [apply in_rev; rewrite rev_involutive; exact H1|].
        apply Nat.eqb_eq. exact H2.
Qed.

Lemma parent_states_In : forall es a c x,
  (forall e1 e2, In e1 es -> In e2 es -> e_dst e1 = e_dst e2 -> e1 = e2) ->
  (In x (parent_states es a c) <-> exists s', In s' a /\ cedge es c x s').
Proof.
  intros es a c x Hu. unfold parent_states.
  assert (G : forall a acc,
    In x (fold_left (fun x0 st =>
            match find (fun e => label_match (e_lbl e) c) (in_edges es st) with
            | Some e => set_add (e_src e) x0
            | None => x0
            end) a acc)
    <-> In x acc \/ exists s', In s' a /\ cedge es c x s').
  { clear a. induction a as [|st a IH]; intros acc; simpl.
    - split; [auto|]. intros [H|(s' & [] & _)]; exact H.
    - rewrite IH. split.
      + intros [H|(s' & H1 & H2)].
        * destruct (find _ (in_edges es st)) as [e|] eqn:F; [|auto].
          apply set_add_in in H. destruct H as [H|H]; [|auto].
          right. exists st. split; [auto|]. apply find_in_edges in F; auto.
          destruct F as (F1 & F2 & F3). exists e. auto.
        * right. exists s'. auto.
      + intros [H|(s' & [H1|H1] & H2)].
        * left. destruct (find _ (in_edges es st)); [apply set_add_in|]; auto.
        * subst s'. left. destruct H2 as (e & E1 & E2 & E3 & E4).
          assert (F : find (fun e => label_match (e_lbl e) c) (in_edges es st) = Some e)
            by (apply find_in_edges; auto).
          rewrite F. apply set_add_in. auto.
        * right. exists s'. auto. }
  rewrite G. simpl. tauto.
Qed.

(* ---------- the per-label ghost invariant ---------- *)
Definition same (p : list block) (s t : nat) : Prop := exists Y, In Y p /\ In s Y /\ In t Y.

Lemma same_sym : forall p s t, same p s t -> same p t s.
Proof. intros p s t (Y & H1 & H2 & H3). exists Y. auto. Qed.

Section Ghost.
  Variable es : list edge.
  Variable c : grapheme.
  Hypothesis det_c : forall s s1 s2, cedge es c s s1 -> cedge es c s s2 -> s1 = s2.

  Definition pending (w : list block) (pend : bool) (a Y : block) : Prop :=
    In Y w \/ (pend = true /\ incl Y a).

  Record LInvQ (q : nat -> nat) (pend : bool) (p w : list block) (a : block) : Prop := {
    li_ref : forall s t, same p s t -> q s = q t;
    li_stab : forall B u, In B p -> In u B -> ~ pending w pend a B ->
              forall s t s', same p s t -> cedge es c s s' -> q s' = q u ->
              exists t', cedge es c t t' /\ q t' = q u;
    li_one : forall B1 B2 s1 s2, In B1 p -> In B2 p -> In s1 B1 -> In s2 B2 ->
             ~ pending w pend a B1 -> ~ pending w pend a B2 -> q s1 = q s2 -> B1 = B2
  }.
  Definition LInv (pend : bool) (p w : list block) (a : block) : Prop :=
    exists q, LInvQ q pend p w a.

  (* the fragments of the splitter *)
  Record Frag (p w : list block) (a : block) : Prop := {
    fr_union : forall Y s, In Y p -> In s Y -> In s a -> incl Y a;
    fr_one : forall B1 B2, In B1 p -> In B2 p -> B1 <> [] -> B2 <> [] ->
             incl B1 a -> incl B2 a -> ~ In B1 w -> ~ In B2 w -> B1 = B2
  }.

  Lemma in_nonempty : forall (B : block) s, In s B -> B <> [].
  Proof. intros B s H K. subst. destruct H. Qed.

  Lemma same_step : forall p w p' w', RefStep p w p' w' ->
    forall s t, same p' s t -> same p s t.
  Proof.
    intros p w p' w' R s t (Y' & H1 & H2 & H3).
    destruct (r_parent _ _ _ _ R Y' H1 (in_nonempty _ _ H2)) as (Y & HY & Hin & _).
    exists Y. auto.
  Qed.

  Lemma nonpending_parent : forall p w p' w' pend a B' u,
    RefStep p w p' w' -> In B' p' -> In u B' -> ~ pending w' pend a B' ->
    exists Y, In Y p /\ incl B' Y /\ ~ pending w pend a Y.
  Proof.
    intros p w p' w' pend a B' u R HB Hu Hnp.
    destruct (r_parent _ _ _ _ R B' HB (in_nonempty _ _ Hu)) as (Y & HY & Hin & Hw).
    exists Y. split; [exact HY|]. split; [exact Hin|].
    intros [K|[K1 K2]]; apply Hnp.
    - left. auto.
    - right. split; [exact K1|]. intros z Hz. apply K2, Hin, Hz.
  Qed.

  Lemma LInv_step : forall p w p' w' pend a,
    RefStep p w p' w' -> LInv pend p w a -> LInv pend p' w' a.
  Proof.
    intros p w p' w' pend a R [q [Q1 Q2 Q3]]. exists q. constructor.
    - intros s t H. apply Q1. eapply same_step; eauto.
    - intros B' u HB Hu Hnp s t s' Hst He Hq.
      destruct (nonpending_parent _ _ _ _ _ _ _ _ R HB Hu Hnp) as (Y & HY & Hin & HnY).
      eapply (Q2 Y u); eauto. eapply same_step; eauto.
    - intros B1 B2 s1 s2 H1 H2 S1 S2 N1 N2 Hq.
      destruct (nonpending_parent _ _ _ _ _ _ _ _ R H1 S1 N1) as (Y1 & HY1 & I1 & NY1).
      destruct (nonpending_parent _ _ _ _ _ _ _ _ R H2 S2 N2) as (Y2 & HY2 & I2 & NY2).
      assert (Y1 = Y2) by (eapply (Q3 Y1 Y2 s1 s2); eauto). subst Y2.
      assert (W1 : ~ In B1 w') by (intros K; apply N1; left; exact K).
      assert (W2 : ~ In B2 w') by (intros K; apply N2; left; exact K).
      eapply (r_one _ _ _ _ R B1 B2 Y1); eauto using in_nonempty.
  Qed.

  Lemma Frag_step : forall p w p' w' a,
    RefStep p w p' w' -> Frag p w a -> Frag p' w' a.
  Proof.
    intros p w p' w' a R [F1 F2]. constructor.
    - intros Y' s HY Hs Ha.
      destruct (r_parent _ _ _ _ R Y' HY (in_nonempty _ _ Hs)) as (Y & HY0 & Hin & _).
      intros z Hz. eapply (F1 Y s); eauto.
    - intros B1 B2 H1 H2 N1 N2 I1 I2 W1 W2.
      destruct (r_parent _ _ _ _ R B1 H1 N1) as (Y1 & HY1 & J1 & K1).
      destruct (r_parent _ _ _ _ R B2 H2 N2) as (Y2 & HY2 & J2 & K2).
      destruct (nonempty_ex _ N1) as [s1 S1]. destruct (nonempty_ex _ N2) as [s2 S2].
      assert (Y1 = Y2).
      { apply F2; auto.
        - eapply in_nonempty; eauto.
        - eapply in_nonempty; eauto.
        - eapply (F1 Y1 s1); eauto.
        - eapply (F1 Y2 s2); eauto. }
      subst Y2. eapply (r_one _ _ _ _ R B1 B2 Y1); eauto.
  Qed.

  Lemma LInv_pop : forall p a w a0, LInv false p (a :: w) a0 -> LInv true p w a.
  Proof.
    intros p a w a0 [q [Q1 Q2 Q3]].
    assert (W : forall Y, pending (a :: w) false a0 Y -> pending w true a Y).
    { intros Y [[K|K]|[K _]]; [|left; exact K|discriminate].
      subst Y. right. split; [reflexivity|apply incl_refl]. }
    exists q. constructor.
    - exact Q1.
    - intros B u HB Hu Hnp. apply (Q2 B u HB Hu). intros K. apply Hnp, W, K.
    - intros B1 B2 s1 s2 H1 H2 S1 S2 N1 N2.
      assert (N1' := fun K => N1 (W _ K)). assert (N2' := fun K => N2 (W _ K)).
      apply (Q3 B1 B2 s1 s2); auto.
  Qed.

  Lemma Frag_pop : forall p w a, pdisj p -> (a <> [] -> In a p) -> Frag p w a.
  Proof.
    intros p w a Hd Ha. constructor.
    - intros Y s HY Hs Hsa. assert (Y = a).
      { eapply pdisj_eq; eauto. apply Ha. eapply in_nonempty; eauto. }
      subst. apply incl_refl.
    - intros B1 B2 H1 H2 N1 N2 I1 I2 _ _.
      destruct (nonempty_ex _ N1) as [s1 S1]. destruct (nonempty_ex _ N2) as [s2 S2].
      assert (Hap : In a p) by (apply Ha; eapply in_nonempty; apply I1; eauto).
      assert (B1 = a) by (eapply (pdisj_eq p B1 a s1); eauto).
      assert (B2 = a) by (eapply (pdisj_eq p B2 a s2); eauto).
      congruence.
  Qed.

  (* the ghost update when label c has been processed with splitter a *)
  Lemma LInv_finish : forall p w a,
    Frag p w a -> LInv true p w a ->
    (forall s t s', same p s t -> cedge es c s s' -> In s' a ->
                    exists t', cedge es c t t' /\ In t' a) ->
    LInv false p w a.
  Proof.
    intros p w a [F1 F2] [q [Q1 Q2 Q3]] HA.
    exists (fun s => if set_mem s a then 0 else S (q s)).
    assert (NP : forall B u, In u B -> ~ In u a -> ~ pending w false a B -> ~ pending w true a B).
    { intros B u Hu Hua Hn [K|[_ K]]; [apply Hn; left; exact K|]. apply Hua, K, Hu. }
    constructor.
    - intros s t (Y & HY & Hs & Ht). cbv beta.
      destruct (set_mem s a) eqn:E1; destruct (set_mem t a) eqn:E2.
      + reflexivity.
      + apply set_mem_In in E1. apply set_mem_nIn in E2. exfalso. apply E2.
        apply (F1 Y s HY Hs E1). exact Ht.
      + apply set_mem_In in E2. apply set_mem_nIn in E1. exfalso. apply E1.
        apply (F1 Y t HY Ht E2). exact Hs.
      + f_equal. apply Q1. exists Y. auto.
    - intros B u HB Hu Hnp s t s' Hst He Hq. cbv beta in Hq. cbv beta.
      destruct (set_mem u a) eqn:Eu.
      + destruct (set_mem s' a) eqn:Es; [|discriminate].
        apply set_mem_In in Es. destruct (HA _ _ _ Hst He Es) as (t' & T1 & T2).
        exists t'. split; [exact T1|]. apply set_mem_In in T2. rewrite T2. reflexivity.
      + destruct (set_mem s' a) eqn:Es; [discriminate|]. assert (Hq' : q s' = q u) by congruence.
        apply set_mem_nIn in Eu. apply set_mem_nIn in Es.
        destruct (Q2 B u HB Hu (NP _ _ Hu Eu Hnp) s t s' Hst He Hq') as (t' & T1 & T2).
        exists t'. split; [exact T1|].
        destruct (set_mem t' a) eqn:Et; [|congruence].
        exfalso. apply set_mem_In in Et.
        destruct (HA t s t' (same_sym _ _ _ Hst) T1 Et) as (s'' & S1 & S2).
        assert (s' = s'') by (eapply det_c; eauto). subst s''. tauto.
    - intros B1 B2 s1 s2 H1 H2 S1 S2 N1 N2 Hq. cbv beta in Hq.
      destruct (set_mem s1 a) eqn:E1; destruct (set_mem s2 a) eqn:E2; try discriminate.
      + apply set_mem_In in E1. apply set_mem_In in E2. apply F2; auto.
        * eapply in_nonempty; eauto.
        * eapply in_nonempty; eauto.
        * eapply F1; eauto.
        * eapply F1; eauto.
        * intros K. apply N1. left. exact K.
        * intros K. apply N2. left. exact K.
      + assert (Hq' : q s1 = q s2) by congruence. apply set_mem_nIn in E1. apply set_mem_nIn in E2.
        apply (Q3 B1 B2 s1 s2); eauto.
  Qed.

  Lemma LInv_false_irrel : forall p w a a', LInv false p w a -> LInv false p w a'.
  Proof.
    intros p w a a' [q [Q1 Q2 Q3]].
    assert (W : forall Y, pending w false a Y -> pending w false a' Y).
    { intros Y [K|[K _]]; [left; exact K|discriminate]. }
    exists q. constructor.
    - exact Q1.
    - intros B u HB Hu Hnp. apply (Q2 B u HB Hu). intros K. apply Hnp, W, K.
    - intros B1 B2 s1 s2 H1 H2 S1 S2 N1 N2.
      assert (N1' := fun K => N1 (W _ K)). assert (N2' := fun K => N2 (W _ K)).
      apply (Q3 B1 B2 s1 s2); auto.
  Qed.

  Lemma LInv_init : forall p a, LInv false p p a.
  Proof.
    intros p a. exists (fun _ => 0). constructor.
    - reflexivity.
    - intros B u HB _ Hnp. exfalso. apply Hnp. left. exact HB.
    - intros B1 B2 s1 s2 H1 _ _ _ N1. exfalso. apply N1. left. exact H1.
  Qed.

  Lemma LInv_exit : forall n p a,
    LInv false p [] a ->
    (forall s, s < n -> exists Y, In Y p /\ In s Y) ->
    (forall s s', cedge es c s s' -> s' < n) ->
    forall s t s', same p s t -> cedge es c s s' ->
    exists t', cedge es c t t' /\ same p s' t'.
  Proof.
    intros n p a [q [Q1 Q2 Q3]] Hc Hr s t s' Hst He.
    assert (NP : forall Y, ~ pending [] false a Y).
    { intros Y [[]|[K _]]. discriminate. }
    destruct (Hc s' (Hr _ _ He)) as (B & HB & Hs').
    destruct (Q2 B s' HB Hs' (NP B) s t s' Hst He eq_refl) as (t' & T1 & T2).
    exists t'. split; [exact T1|].
    destruct (Hc t' (Hr _ _ T1)) as (B2 & HB2 & Ht').
    assert (B = B2) by (apply (Q3 B B2 s' t'); auto).
    subst B2. exists B. auto.
  Qed.
End Ghost.

(* ---------- assembling the loop invariant ---------- *)
Section Main.
  Variable d : dfa.
  Hypothesis TL : trie_like d.

  Local Notation es := (d_edges d).
  Local Notation n := (d_n d).
  Local Notation fin := (d_finals d).
  Local Notation alpha := (d_alphabet d).

  Lemma cedge_det : forall c, In c alpha ->
    forall s s1 s2, cedge es c s s1 -> cedge es c s s2 -> s1 = s2.
  Proof.
    intros c Hc s s1 s2 (e1 & A1 & A2 & A3 & A4) (e2 & B1 & B2 & B3 & B4).
    pose proof (tl_alpha_uniform d TL c Hc) as Uc.
    pose proof (tl_uniform d TL e1 A1) as U1. pose proof (tl_uniform d TL e2 B1) as U2.
    destruct (label_match_uniform _ _ U1 Uc A4) as (C1 & C2 & C3).
    destruct (label_match_uniform _ _ U2 Uc B4) as (D1 & D2 & D3).
    assert (e1 = e2).
    { apply (tl_det d TL); auto; [congruence|]. apply label_match_of_eq; congruence. }
    subst e2. congruence.
  Qed.

  Lemma cedge_range : forall c s s', cedge es c s s' -> s' < n.
  Proof.
    intros c s s' (e & A1 & A2 & A3 & A4). subst s'. apply (tl_range d TL e A1).
  Qed.

  Lemma astable : forall a c p s t s',
    same (sp_fst (parent_states es a c) p) s t -> cedge es c s s' -> In s' a ->
    exists t', cedge es c t t' /\ In t' a.
  Proof.
    intros a c p s t s' (B & HB & Hs & Ht) He Ha.
    assert (Hx : In s (parent_states es a c)).
    { apply parent_states_In; [apply (tl_in_unique d TL)|]. exists s'. auto. }
    destruct (sp_xstable _ _ _ HB) as [K|K].
    - apply K in Ht. apply parent_states_In in Ht; [|apply (tl_in_unique d TL)].
      destruct Ht as (t' & T1 & T2). exists t'. auto.
    - exfalso. exact (K _ Hs Hx).
  Qed.

  Definition Mid (a : block) (done rest : list grapheme) (p w : list block) : Prop :=
    Struct n fin p w /\ Frag p w a
    /\ (forall c, In c done -> LInv es c false p w a)
    /\ (forall c, In c rest -> LInv es c true p w a).

  Lemma fold_mid : forall a rest done p w,
    (forall c, In c rest -> In c alpha) -> Mid a done rest p w ->
    Struct n fin (fst (fold_left (refine_by es a) rest (p, w)))
                 (snd (fold_left (refine_by es a) rest (p, w)))
    /\ forall c, In c (done ++ rest) ->
         LInv es c false (fst (fold_left (refine_by es a) rest (p, w)))
                         (snd (fold_left (refine_by es a) rest (p, w))) a.
  Proof.
    intros a. induction rest as [|c0 rest IH]; intros done p w Hal (HS & HF & HD & HR).
    - simpl. split; [exact HS|]. intros c Hc. rewrite app_nil_r in Hc. auto.
    - cbn [fold_left]. rewrite refine_by_eq.
      destruct (refine_struct n fin (parent_states es a c0) p w HS) as [HS' R].
      pose proof (Frag_step _ _ _ _ a R HF) as HF'.
      specialize (IH (done ++ [c0]) (sp_fst (parent_states es a c0) p)
                     (update_worklist w (sp_snd (parent_states es a c0) p))).
      replace (done ++ c0 :: rest) with ((done ++ [c0]) ++ rest)
        by (rewrite <- app_assoc; reflexivity).
      apply IH.
      + intros c Hc. apply Hal. right. exact Hc.
      + split; [exact HS'|]. split; [exact HF'|]. split.
        * intros c Hc. apply in_app_or in Hc. destruct Hc as [Hc|[Hc|[]]].
          -- eapply LInv_step; eauto.
          -- subst c0. apply LInv_finish.
             ++ apply cedge_det. apply Hal. left. reflexivity.
             ++ exact HF'.
             ++ eapply LInv_step; eauto. apply HR. left. reflexivity.
             ++ intros s t s'. apply astable.
        * intros c Hc. eapply LInv_step; eauto. apply HR. right. exact Hc.
  Qed.

  Definition Head (p w : list block) : Prop :=
    Struct n fin p w /\ forall c, In c alpha -> LInv es c false p w [].

  Lemma Head_step : forall a p w, Head p (a :: w) ->
    Head (fst (fold_left (refine_by es a) alpha (p, w)))
         (snd (fold_left (refine_by es a) alpha (p, w))).
  Proof.
    intros a p w [HS HL].
    pose proof (Struct_pop _ _ _ _ _ HS) as HS0.
    destruct (fold_mid a alpha [] p w) as [HS' HL'].
    - auto.
    - split; [exact HS0|]. split; [|split].
      + apply Frag_pop; [apply (st_disj _ _ _ _ HS)|].
        intros Hne. apply (st_w _ _ _ _ HS); [left; reflexivity|exact Hne].
      + intros c [].
      + intros c Hc. eapply LInv_pop. apply HL. exact Hc.
    - split; [exact HS'|]. intros c Hc. eapply LInv_false_irrel. apply HL'. exact Hc.
  Qed.

  Lemma Head_init : Head (initial_partition d) (initial_partition d).
  Proof.
    split; [apply Struct_init; apply (tl_n d TL)|]. intros c _. apply LInv_init.
  Qed.

  Lemma loop_result : exists p',
    hopcroft_loop (2 * n + 4) es alpha (initial_partition d) (initial_partition d) = Some p'
    /\ Head p' [].
  Proof.
    apply (loop_rule es alpha Head).
    - exact Head_step.
    - exact Head_init.
    - apply Phi_init.
  Qed.

  (* stability of the unfiltered partition, in terms of c-edges *)
  Lemma head_stable : forall p', Head p' [] ->
    forall c, In c alpha -> forall s t s', same p' s t -> cedge es c s s' ->
    exists t', cedge es c t t' /\ same p' s' t'.
  Proof.
    intros p' [HS HL] c Hc. eapply LInv_exit.
    - apply HL. exact Hc.
    - apply (st_cover _ _ _ _ HS).
    - apply cedge_range.
  Qed.
End Main.

Lemma same_filter : forall p s t, same p s t <-> same (filter nonnil p) s t.
Proof.
  intros p s t. split; intros (Y & H1 & H2 & H3); exists Y.
  - split; [|auto]. apply filter_In. split; [auto|]. destruct Y; [destruct H2|reflexivity].
  - apply filter_In in H1. tauto.
Qed.

(* ---------- GOAL 1 ---------- *)
Theorem partition_total : forall d, trie_like d -> exists p, partition_of d = Some p.
Proof. intros d _. apply partition_total_any. Qed.

(* ---------- GOAL 2 ---------- *)
Theorem partition_is_partition : forall d p,
  trie_like d -> partition_of d = Some p ->
  (forall B, In B p ->
     B <> [] /\ incr B /\ (forall s, In s B -> s < d_n d)
     /\ (forall s t, In s B -> In t B -> set_mem s (d_finals d) = set_mem t (d_finals d)))
  /\ pdisj p
  /\ (forall s, s < d_n d -> exists B, In B p /\ In s B).
Proof. intros d p TL. apply partition_is_partition_any. apply (tl_n d TL). Qed.

(* ---------- GOAL 3 ---------- *)
(* c-edge form *)
Theorem partition_stable_cedge : forall d p,
  trie_like d -> partition_of d = Some p ->
  forall c, In c (d_alphabet d) ->
  forall s t s', same p s t -> cedge (d_edges d) c s s' ->
  exists t', cedge (d_edges d) c t t' /\ same p s' t'.
Proof.
  intros d p TL H c Hc s t s' Hst He.
  apply partition_of_inv in H. destruct H as (p' & Hl & ->).
  destruct (loop_result d TL) as (p'' & Hl' & HH). rewrite Hl in Hl'. inversion Hl'; subst p''.
  apply (proj2 (same_filter _ _ _)) in Hst.
  destruct (head_stable d TL p' HH c Hc s t s' Hst He) as (t' & T1 & T2).
  exists t'. split; [exact T1|]. apply (proj1 (same_filter _ _ _)). exact T2.
Qed.

(* splitter form: no block is cut by the parents of a block *)
Theorem partition_stable_splitter : forall d p,
  trie_like d -> partition_of d = Some p ->
  forall B c Y, In B p -> In c (d_alphabet d) -> In Y p ->
    (forall s, In s Y -> In s (parent_states (d_edges d) B c))
    \/ (forall s, In s Y -> ~ In s (parent_states (d_edges d) B c)).
Proof.
  intros d p TL H B c Y HB Hc HY.
  destruct (partition_is_partition d p TL H) as (_ & Hd & _).
  destruct Y as [|y0 Y']; [left; intros s []|].
  destruct (In_dec_nat y0 (parent_states (d_edges d) B c)) as [K|K].
  - left. intros s Hs.
    apply parent_states_In in K; [|apply (tl_in_unique d TL)]. destruct K as (s' & K1 & K2).
    destruct (partition_stable_cedge d p TL H c Hc y0 s s') as (t' & T1 & (B' & T2 & T3 & T4)).
    + exists (y0 :: Y'). split; [exact HY|]. split; [left; reflexivity|exact Hs].
    + exact K2.
    + apply parent_states_In; [apply (tl_in_unique d TL)|]. exists t'. split; [|exact T1].
      assert (B' = B) by (apply (pdisj_eq p B' B s' Hd T2 HB T3 K1)). subst. exact T4.
  - right. intros s Hs Hx. apply K.
    apply parent_states_In in Hx; [|apply (tl_in_unique d TL)]. destruct Hx as (s' & K1 & K2).
    destruct (partition_stable_cedge d p TL H c Hc s y0 s') as (t' & T1 & (B' & T2 & T3 & T4)).
    + exists (y0 :: Y'). split; [exact HY|]. split; [exact Hs|left; reflexivity].
    + exact K2.
    + apply parent_states_In; [apply (tl_in_unique d TL)|]. exists t'. split; [|exact T1].
      assert (B' = B) by (apply (pdisj_eq p B' B s' Hd T2 HB T3 K1)). subst. exact T4.
Qed.

(* the form for a checker: same finality inside a block; every edge of s is matched by an
   edge of t with equal chars/min/max into the same block *)
Definition stable_partition (d : dfa) (p : list block) : Prop :=
  (forall B s t, In B p -> In s B -> In t B ->
     set_mem s (d_finals d) = set_mem t (d_finals d))
  /\ (forall B s t e, In B p -> In s B -> In t B -> In e (d_edges d) -> e_src e = s ->
        exists e', In e' (d_edges d) /\ e_src e' = t
          /\ g_chars (e_lbl e') = g_chars (e_lbl e)
          /\ g_min (e_lbl e') = g_min (e_lbl e)
          /\ g_max (e_lbl e') = g_max (e_lbl e)
          /\ (exists B', In B' p /\ In (e_dst e) B' /\ In (e_dst e') B')
          /\ block_index (e_dst e') p 0 = block_index (e_dst e) p 0).

Theorem partition_stable : forall d p,
  trie_like d -> partition_of d = Some p -> stable_partition d p.
Proof.
  intros d p TL H.
  destruct (partition_is_partition d p TL H) as (HB & Hd & _).
  split.
  - intros B s t HBp Hs Ht. destruct (HB B HBp) as (_ & _ & _ & Hf). auto.
  - intros B s t e HBp Hs Ht He Hsrc.
    destruct (tl_alpha_cover d TL e He) as (c & Hc & Hm).
    destruct (partition_stable_cedge d p TL H c Hc s t (e_dst e)) as (t' & T1 & T2).
    + exists B. auto.
    + exists e. auto.
    + destruct T1 as (e' & E1 & E2 & E3 & E4). exists e'. split; [exact E1|]. split; [exact E2|].
      pose proof (tl_alpha_uniform d TL c Hc) as Uc.
      destruct (label_match_uniform _ _ (tl_uniform d TL e He) Uc Hm) as (C1 & C2 & C3).
      destruct (label_match_uniform _ _ (tl_uniform d TL e' E1) Uc E4) as (D1 & D2 & D3).
      split; [congruence|]. split; [congruence|]. split; [congruence|].
      destruct T2 as (B' & P1 & P2 & P3). subst t'. split.
      * exists B'. auto.
      * eapply block_index_same; eauto.
Qed.

Check partition_total.
Check partition_is_partition.
Check partition_stable_cedge.
Check partition_stable_splitter.
Check partition_stable.
Print Assumptions partition_total.
Print Assumptions partition_is_partition.
Print Assumptions partition_stable_cedge.
Print Assumptions partition_stable_splitter.
Print Assumptions partition_stable.

(* NOT PROVED (not needed for the goals above):
   - coarsest-ness of the result (states in different blocks are distinguishable);
   - partition_is_partition for d_n d = 0 (the statement needs 1 <= d_n d only to know that
     the two initial blocks differ; trie_like provides it).
   Remarks: partition_total / partition_is_partition hold for EVERY dfa (HopSets.v:
   partition_total_any, partition_is_partition_any); the fuel d_n d + 2 would suffice
   (Phi_init).  trie_like is established for tries in TrieLikeOf.v (trie_like_of_trie). *)
