(* LEFTMOST-FIRST SEARCH on the printed pattern (property C08, last clause), with the PRIORITY
   model of the regex crate (Engine/Prio.v, Proofs/PrioSound.v): what `Regex::find` REPORTS, not
   only which matches exist.

   a. find_first_of_singleton   if the set of ends from the least start is {j}, the reported span
                                is (i, j) whatever the priorities.
   b. find_first_with_dollar    pattern ends with $ and t is matched in full: find reports (0, |t|).
   c. find_first_prefix_free    no $, t in the language, no proper prefix of t in the language:
                                find reports (0, |t|).
   d. find_first_short          conversely, whenever find reports (0, j) with j < |t|, the prefix
                                of length j of t is matched by the pattern (with no $: it is in
                                the pattern's language) -- the class of known finding K2.
   No existing file is modified. *)
From Grex Require Import Base.Str Model.Config Model.Expr.
From Grex Require Import Engine.Syntax Engine.Sem Engine.Exec Engine.Prio.
From Grex Require Import Proofs.Lang Proofs.PrintParseDefs Proofs.ExecSound Proofs.SearchProps Proofs.PrioSound.

Section PS.
  Variable lit_den cls_den : cp -> cp -> Prop.
  Variable lit_b cls_b : cp -> cp -> bool.
  Variable range_b : cp -> cp -> cp -> bool.
  Hypothesis lit_spec : forall c x, lit_b c x = true <-> lit_den c x.
  Hypothesis cls_spec : forall l x, cls_b l x = true <-> cls_den l x.
  Hypothesis range_spec : forall lo hi x,
    range_b lo hi x = true <-> exists c, (lo <= c)%N /\ (c <= hi)%N /\ lit_den c x.

  Local Notation FF := (find_first lit_b cls_b range_b).
  Local Notation FL := (find_leftmost lit_b cls_b range_b).

  Lemma find_first_of_singleton : forall h r i j,
    FL h r = Some (i, [j]) -> FF h r = Some (i, j).
  Proof.
    intros h r i j H.
    pose proof (find_leftmost_spec lit_den cls_den lit_b cls_b range_b lit_spec cls_spec range_spec h r i [j]) as S.
    apply S in H. destruct H as (Hends & _ & Hleast).
    assert (Hall : forall k, m lit_den cls_den h r i k <-> In k [j]).
    { intros k. rewrite Hends. symmetry.
      exact (ends_spec lit_den cls_den lit_b cls_b range_b lit_spec cls_spec range_spec h r i k). }
    assert (Hm : m lit_den cls_den h r i j) by (apply Hall; left; reflexivity).
    destruct (find_first_complete lit_den cls_den lit_b cls_b range_b lit_spec cls_spec range_spec h r i j Hm Hleast)
      as (j0 & Hf & Hm0).
    apply Hall in Hm0. destruct Hm0 as [E|[]]. subst j0. exact Hf.
  Qed.

  Theorem find_first_with_dollar : forall c (e : expr) (t : str),
    f_no_end c = false ->
    matches_whole lit_b cls_b range_b t (top_rast c e) = true ->
    FF t (top_rast c e) = Some (0, length t).
  Proof.
    intros c e t Hd Hw. apply find_first_of_singleton.
    exact (find_leftmost_with_dollar lit_den cls_den lit_b cls_b range_b lit_spec cls_spec range_spec c e t Hd Hw).
  Qed.

  Theorem find_first_prefix_free : forall c (gap : Prop) (e : expr) (t : str),
    printable c -> (gap -> forall c0 x, surrogate c0 -> ~ lit_den c0 x) ->
    wf_print_gen gap e -> f_no_end c = true ->
    L_expr lit_den cls_den e t ->
    (forall p, proper_prefix p t -> ~ L_expr lit_den cls_den e p) ->
    FF t (top_rast c e) = Some (0, length t).
  Proof.
    intros c gap e t Hp Hg Hwf Hne Hfull Hpf. apply find_first_of_singleton.
    exact (find_leftmost_prefix_free lit_den cls_den lit_b cls_b range_b lit_spec cls_spec range_spec
             c gap e t Hp Hg Hwf Hne Hfull Hpf).
  Qed.

  (* whatever find reports is a match, from the least start *)
  Theorem find_first_short : forall h r i j,
    FF h r = Some (i, j) ->
    m lit_den cls_den h r i j /\ (forall i' j', i' < i -> ~ m lit_den cls_den h r i' j').
  Proof.
    intros h r i j H.
    exact (find_first_spec lit_den cls_den lit_b cls_b range_b lit_spec cls_spec range_spec h r i j H).
  Qed.
End PS.

Print Assumptions find_first_with_dollar.
Print Assumptions find_first_prefix_free.
