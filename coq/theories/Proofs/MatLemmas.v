(* get/set lemmas for the list-of-rows matrices of Expr.v, and facts about position / set_mem. *)
From Grex Require Import Base.Str Model.Config Model.Cluster Model.Dfa Model.Expr.

(* ---------- set_nth ---------- *)
Lemma set_nth_length : forall {A} (l : list A) k v, length (set_nth l k v) = length l.
Proof.
  intros A l. induction l as [|x l IH]; intros k v; simpl.
  - reflexivity.
  - destruct k as [|k]; simpl; [reflexivity | now rewrite IH].
Qed.

Lemma nth_set_nth_eq : forall {A} (l : list A) k v d, k < length l -> nth k (set_nth l k v) d = v.
Proof.
  intros A l. induction l as [|x l IH]; intros k v d Hk; simpl in *.
  - lia.
  - destruct k as [|k]; simpl; [reflexivity | apply IH; lia].
Qed.

Lemma nth_set_nth_neq : forall {A} (l : list A) k k' v d, k' <> k -> nth k' (set_nth l k v) d = nth k' l d.
Proof.
  intros A l. induction l as [|x l IH]; intros k k' v d Hk; simpl in *.
  - reflexivity.
  - destruct k as [|k]; destruct k' as [|k']; simpl; try reflexivity; try lia.
    apply IH. lia.
Qed.

(* ---------- vectors ---------- *)
Lemma vget_set_nth_eq : forall {A} (b : list (option A)) i v, i < length b -> vget (set_nth b i v) i = v.
Proof. intros. unfold vget. now apply nth_set_nth_eq. Qed.

Lemma vget_set_nth_neq : forall {A} (b : list (option A)) i i' v, i' <> i -> vget (set_nth b i v) i' = vget b i'.
Proof. intros. unfold vget. now apply nth_set_nth_neq. Qed.

Lemma vget_repeat_none : forall {A} n i, vget (repeat (@None A) n) i = None.
Proof.
  intros A n. unfold vget. induction n as [|n IH]; intros i; simpl.
  - destruct i; reflexivity.
  - destruct i; [reflexivity | apply IH].
Qed.

(* ---------- matrices ---------- *)
Definition shape {A} (n : nat) (m : list (list (option A))) : Prop :=
  length m = n /\ forall i, i < n -> length (nth i m []) = n.

Lemma shape_mset : forall {A} n (m : list (list (option A))) i j v, shape n m -> shape n (mset m i j v).
Proof.
  intros A n m i j v [Hl Hr]. unfold mset. split.
  - now rewrite set_nth_length.
  - intros i' Hi'. destruct (Nat.eq_dec i' i) as [->|Hne].
    + rewrite nth_set_nth_eq by lia. rewrite set_nth_length. now apply Hr.
    + rewrite nth_set_nth_neq by exact Hne. now apply Hr.
Qed.

Lemma mget_mset_eq : forall {A} n (m : list (list (option A))) i j v,
  shape n m -> i < n -> j < n -> mget (mset m i j v) i j = v.
Proof.
  intros A n m i j v [Hl Hr] Hi Hj. unfold mget, mset.
  rewrite nth_set_nth_eq by lia. apply nth_set_nth_eq. rewrite Hr by exact Hi. exact Hj.
Qed.

Lemma mget_mset_row : forall {A} (m : list (list (option A))) i j v i' j',
  i' <> i -> mget (mset m i j v) i' j' = mget m i' j'.
Proof.
  intros A m i j v i' j' Hne. unfold mget, mset. now rewrite nth_set_nth_neq by exact Hne.
Qed.

Lemma mget_mset_col : forall {A} (m : list (list (option A))) i j v i' j',
  j' <> j -> mget (mset m i j v) i' j' = mget m i' j'.
Proof.
  intros A m i j v i' j' Hne. unfold mget, mset.
  destruct (Nat.eq_dec i' i) as [->|Hi].
  - destruct (Nat.lt_ge_cases i (length m)) as [Hlt|Hge].
    + rewrite nth_set_nth_eq by exact Hlt. now apply nth_set_nth_neq.
    + assert (Hs : forall (l : list (list (option A))) k w, length l <= k -> set_nth l k w = l).
      { intros l. induction l as [|x l IH]; intros k w Hk; simpl in *; [reflexivity|].
        destruct k as [|k]; [lia|]. now rewrite IH by lia. }
      now rewrite Hs by exact Hge.
  - now rewrite nth_set_nth_neq by exact Hi.
Qed.

Lemma mget_mset_other : forall {A} (m : list (list (option A))) i j v i' j',
  (i' <> i \/ j' <> j) -> mget (mset m i j v) i' j' = mget m i' j'.
Proof.
  intros A m i j v i' j' [H|H]; [now apply mget_mset_row | now apply mget_mset_col].
Qed.

Lemma nth_repeat_gen : forall {A} (x d : A) n i, i < n -> nth i (repeat x n) d = x.
Proof.
  intros A x d n. induction n as [|n IH]; intros i Hi; simpl; [lia|].
  destruct i; [reflexivity | apply IH; lia].
Qed.

Lemma shape_repeat : forall {A} n, shape n (repeat (repeat (@None A) n) n).
Proof.
  intros A n. split.
  - apply repeat_length.
  - intros i Hi. rewrite nth_repeat_gen by exact Hi. apply repeat_length.
Qed.

Lemma mget_repeat_none : forall {A} n i j, mget (repeat (repeat (@None A) n) n) i j = None.
Proof.
  intros A n i j. unfold mget.
  destruct (Nat.lt_ge_cases i n) as [Hi|Hi].
  - rewrite nth_repeat_gen by exact Hi. apply (@vget_repeat_none A).
  - rewrite (nth_overflow (repeat (repeat (@None A) n) n)) by (rewrite repeat_length; exact Hi). destruct j; reflexivity.
Qed.

(* ---------- position ---------- *)
Lemma position_spec : forall x l k j, position x l k = Some j ->
  k <= j /\ j - k < length l /\ nth (j - k) l 0 = x.
Proof.
  intros x l. induction l as [|y l IH]; intros k j H; simpl in H.
  - discriminate.
  - destruct (Nat.eqb x y) eqn:E.
    + injection H as <-. apply Nat.eqb_eq in E. subst y.
      replace (k - k) with 0 by lia. simpl. repeat split; lia.
    + apply IH in H. destruct H as [H1 [H2 H3]].
      replace (j - k) with (S (j - S k)) by lia. simpl. repeat split; lia.
Qed.

Lemma position_some : forall x l k, In x l -> exists j, position x l k = Some j.
Proof.
  intros x l. induction l as [|y l IH]; intros k H; simpl in *.
  - contradiction.
  - destruct (Nat.eqb x y) eqn:E.
    + now exists k.
    + destruct H as [H|H].
      * subst y. rewrite Nat.eqb_refl in E. discriminate.
      * now apply IH.
Qed.

Lemma position0_spec : forall x l j, position x l 0 = Some j -> j < length l /\ nth j l 0 = x.
Proof.
  intros x l j H. apply position_spec in H. rewrite Nat.sub_0_r in H. tauto.
Qed.

(* ---------- set_mem / set_add on arbitrary lists ---------- *)
Lemma set_mem_In : forall x l, set_mem x l = true <-> In x l.
Proof.
  intros x l. induction l as [|y l IH]; simpl.
  - split; [discriminate | contradiction].
  - rewrite Bool.orb_true_iff, IH, Nat.eqb_eq. split; intros [H|H]; auto.
Qed.

Lemma set_mem_add : forall x y l, set_mem x (set_add y l) = Nat.eqb x y || set_mem x l.
Proof.
  intros x y l. induction l as [|h l IH]; simpl.
  - reflexivity.
  - destruct (Nat.ltb y h) eqn:E1; simpl; [reflexivity|].
    destruct (Nat.eqb y h) eqn:E2; simpl.
    + apply Nat.eqb_eq in E2. subst h. destruct (Nat.eqb x y); reflexivity.
    + rewrite IH. destruct (Nat.eqb x h), (Nat.eqb x y); reflexivity.
Qed.

Lemma In_set_add : forall x y l, In x (set_add y l) <-> x = y \/ In x l.
Proof.
  intros x y l. rewrite <- !set_mem_In, set_mem_add, Bool.orb_true_iff, Nat.eqb_eq. tauto.
Qed.
