(* Printing theorem, part 5: expressions.  The parser reads e_str back as the expected atoms
   (concatenation context) / alternatives (alternation context), groups included. *)
From Grex Require Import Base.Str Model.Config Model.Cluster Model.Dfa Model.Expr Model.Print.
From Grex Require Import Engine.Syntax Engine.Parse.
From Grex Require Import Proofs.Lang Proofs.ExprLang.
From Grex Require Import Proofs.PrintParseNum Proofs.PrintParseStep Proofs.PrintParseDefs
  Proofs.PrintParseEsc Proofs.PrintParseLit Proofs.PrintParseCC.
From GrexGen Require Import SrcConsts.

Section Expr.
  Variable is_ws : cp -> bool.
  Variable c : cfg.
  Variable gap : Prop.
  Hypothesis Hp : printable c.
  Hypothesis Hv : f_verbose c = false.
  Hypothesis Hws : ws_ok is_ws.

  Notation pseq := (pseq is_ws).
  Notation grp := (grp c).

  (* ---------- e_str without colour and verbosity ---------- *)
  Definition part (lvl : nat) (x : expr) : str :=
    if needs_group c lvl x then grp (e_str c x) else e_str c x.

  Lemma prec_ge_1 : forall o, Nat.ltb (precedence o) 1 = false.
  Proof. intros [| | | |]; reflexivity. Qed.

  Lemma e_str_alt : forall os, e_str c (EAlt os) = join [124%N] (map (e_str c) os).
  Proof.
    intros os. cbn [e_str]. rewrite col_off by exact Hp. rewrite Hv.
    unfold txt_Pipe. f_equal.
    induction os as [|o os IH]; [reflexivity|].
    cbn [map]. rewrite prec_ge_1. cbn [andb]. rewrite IH. reflexivity.
  Qed.

  Lemma e_str_cat : forall a b, e_str c (ECat a b) = part 2 a ++ part 2 b.
  Proof.
    intros a b. cbn [e_str]. unfold part, needs_group.
    rewrite !(c_group_eq c Hp Hv). reflexivity.
  Qed.

  Lemma e_str_rep : forall x q, e_str c (ERep x q) = part 3 x ++ quant_str q.
  Proof.
    intros x q. cbn [e_str]. unfold part, needs_group, c_quant.
    rewrite !(c_group_eq c Hp Hv), col_off by exact Hp. rewrite Hv, app_nil_r.
    destruct (Nat.ltb (precedence x) 3 && negb (is_single_codepoint c x)); reflexivity.
  Qed.

  Lemma vf_join : forall l, vf (join [124%N] l) = join [124%N] (map vf l).
  Proof.
    induction l as [|x l IH]; [reflexivity|].
    destruct l as [|y l]; [reflexivity|].
    change (join [124%N] (x :: y :: l)) with (x ++ [124%N] ++ join [124%N] (y :: l)).
    rewrite !vf_app, IH. reflexivity.
  Qed.

  (* ---------- the statement ---------- *)
  (* what follows an alternative inside a group *)
  Definition term (ralts : list rast) (rest : str) (res : rast * str) : Prop :=
    (exists rest', rest = 124%N :: rest' /\ pseq false rest' [] ralts res) \/
    (exists rest', rest = 41%N :: rest' /\ res = (alt_of ralts, rest')).

  Lemma term_step : forall racc ralts rest res,
    term (cat_of racc :: ralts) rest res -> pseq false rest racc ralts res.
  Proof.
    intros racc ralts rest res [(rest' & -> & H)|(rest' & -> & ->)].
    - apply pseq_pipe. exact H.
    - apply pseq_close.
  Qed.

  Lemma term_hd_ok : forall ralts rest res, term ralts rest res -> hd_ok rest.
  Proof.
    intros ralts rest res [(rest' & -> & _)|(rest' & -> & _)]; apply hd_ok_cons; discriminate.
  Qed.

  Fixpoint may_empty (e : expr) : bool :=
    match e with
    | ELit cl => match cl with [] => true | _ => false end
    | ECat a b => may_empty a && may_empty b
    | EAlt _ => true
    | ECC _ => false
    | ERep _ _ => false
    end.

  Definition not_alt (e : expr) : Prop := forall os, e <> EAlt os.

  Definition e_hd (e : expr) : Prop :=
    forall rest, (may_empty e = true -> hd_ok rest) -> hd_ok (vf (e_str c e) ++ rest).
  Definition e_altp (e : expr) : Prop :=
    forall ralts rest res, term (rev (e_alts c e) ++ ralts) rest res ->
      pseq false (vf (e_str c e) ++ rest) [] ralts res.
  Definition e_catp (e : expr) : Prop :=
    not_alt e -> forall top rest racc ralts res, hd_ok rest ->
      pseq top rest (rev (e_atoms c e) ++ racc) ralts res ->
      pseq top (vf (e_str c e) ++ rest) racc ralts res.
  Definition e_good (e : expr) : Prop := e_hd e /\ e_altp e /\ e_catp e.

  Lemma altp_of_catp : forall e, not_alt e -> e_catp e -> e_altp e.
  Proof.
    intros e Hna Hc ralts rest res Ht.
    apply Hc; [exact Hna|eapply term_hd_ok; exact Ht|].
    rewrite app_nil_r. apply term_step.
    rewrite (e_alts_nonalt c e Hna) in Ht. exact Ht.
  Qed.

  (* ---------- groups ---------- *)
  Lemma grp_hd : forall x rest, e_hd x -> hd_ok (vf (grp (e_str c x)) ++ rest).
  Proof.
    intros x rest Hh. rewrite (vf_grp c). apply hd_ok_grp. apply hd_ok_nq. apply Hh.
    intros _. apply hd_ok_cons; discriminate.
  Qed.

  Lemma grp_catp : forall x top rest racc ralts res, e_hd x -> e_altp x ->
    pseq top rest (RGroup (f_cap c) (ralt (e_alts c x)) :: racc) ralts res ->
    pseq top (vf (grp (e_str c x)) ++ rest) racc ralts res.
  Proof.
    intros x top rest racc ralts res Hh Ha H. rewrite (vf_grp c).
    eapply (pseq_grp_gen is_ws c); [| |exact H].
    - apply hd_ok_nq. apply Hh. intros _. apply hd_ok_cons; discriminate.
    - apply Ha. right. exists rest. rewrite app_nil_r. split; reflexivity.
  Qed.

  Lemma needs_group_alt : forall lvl os, 2 <= lvl -> needs_group c lvl (EAlt os) = true.
  Proof.
    intros lvl os H. unfold needs_group. cbn [precedence is_single_codepoint negb].
    rewrite andb_true_r. apply Nat.ltb_lt. lia.
  Qed.

  Lemma part_hd : forall lvl x rest, e_hd x ->
    (needs_group c lvl x = false -> may_empty x = true -> hd_ok rest) ->
    hd_ok (vf (part lvl x) ++ rest).
  Proof.
    intros lvl x rest Hh Hr. unfold part. destruct (needs_group c lvl x) eqn:E.
    - apply grp_hd. exact Hh.
    - apply Hh. apply Hr. reflexivity.
  Qed.

  Lemma part_catp : forall lvl x top rest racc ralts res, 2 <= lvl -> e_good x ->
    hd_ok rest ->
    pseq top rest (rev (e_part c lvl x) ++ racc) ralts res ->
    pseq top (vf (part lvl x) ++ rest) racc ralts res.
  Proof.
    intros lvl x top rest racc ralts res Hlvl (Hh & Ha & Hc) Hr H.
    unfold part, e_part in *. destruct (needs_group c lvl x) eqn:E.
    - apply grp_catp; assumption.
    - apply Hc; [|exact Hr|exact H].
      intros os ->. rewrite needs_group_alt in E by exact Hlvl. discriminate.
  Qed.

  (* ---------- single code point literals ---------- *)
  Lemma single_lit_shape : forall cl, Forall (wf_pg false) cl ->
    is_single_codepoint c (ELit cl) = true -> exists y, cl = [G [[y]] [] 1%N 1%N] /\ tokenised [y].
  Proof.
    intros cl HF H. cbn [is_single_codepoint] in H. apply andb_true_iff in H.
    destruct H as [Hcnt Hmax]. apply Nat.eqb_eq in Hcnt.
    assert (Hwf : wf_cluster cl).
    { eapply Forall_impl; [|exact HF]. intros g Hg. eapply wf_pg_wf_g. exact Hg. }
    destruct (single_cluster _ cl Hwf Hcnt) as (g & -> & Hg).
    inversion HF as [|? ? Hg' _]; subst. destruct g as [cs rs a b].
    apply N.eqb_eq in Hmax. cbn [g_max] in Hmax. subst b.
    apply wf_pg_unfold in Hg'. destruct Hg' as (Hne & Htok & Ha & Hab & _ & Hrs & _).
    assert (Hcs : exists y, cs = [[y]]).
    { assert (HF' : Forall (fun s : str => s <> []) cs).
      { eapply Forall_impl; [|exact Htok]. intros t [Ht _]. exact Ht. }
      unfold g_char_count in Hg. cbn [g_chars] in Hg. destruct (f_esc c).
      - apply chars_single_esc; assumption.
      - apply chars_single_plain; assumption. }
    destruct Hcs as [y ->]. exists y.
    assert (a = 1%N) by lia. subst a.
    destruct Hrs as [->|[_ Hlen]]; [|cbn [length] in Hlen; lia].
    split; [reflexivity|]. inversion Htok as [|? ? [_ Ht] _]; subst. exact Ht.
  Qed.

  Lemma lit_str_single : forall y, lit_str c [G [[y]] [] 1%N 1%N] = esc_str c [y].
  Proof.
    intros y. unfold lit_str. cbn [flat_map]. rewrite app_nil_r.
    change (g_str c (escape_g c (G [[y]] [] 1%N 1%N))) with (gp c (G [[y]] [] 1%N 1%N)).
    rewrite (gp_unfold c Hp Hv) by lia. cbn [map concat N.eqb Pos.eqb andb]. apply app_nil_r.
  Qed.

  (* ---------- the induction ---------- *)
  Lemma alt_list_good : forall os, os <> [] -> Forall e_good os ->
    (forall rest, hd_ok rest -> hd_ok (vf (join [124%N] (map (e_str c) os)) ++ rest)) /\
    (forall ralts rest res, term (rev (flat_map (e_alts c) os) ++ ralts) rest res ->
       pseq false (vf (join [124%N] (map (e_str c) os)) ++ rest) [] ralts res).
  Proof.
    induction os as [|o os IH]; intros Hne HF; [congruence|].
    inversion HF as [|? ? (Hh & Ha & _) HF']; subst.
    destruct os as [|o2 os].
    - cbn [map join flat_map]. split.
      + intros rest Hr. apply Hh. intros _. exact Hr.
      + intros ralts rest res Ht. rewrite app_nil_r in Ht. apply Ha. exact Ht.
    - destruct (IH ltac:(discriminate) HF') as [IHh IHp].
      change (join [124%N] (map (e_str c) (o :: o2 :: os)))
        with (e_str c o ++ [124%N] ++ join [124%N] (map (e_str c) (o2 :: os))).
      rewrite !vf_app. change (vf [124%N]) with [124%N]. split.
      + intros rest _. rewrite <- !app_assoc. apply Hh. intros _. apply hd_ok_cons; discriminate.
      + intros ralts rest res Ht. rewrite <- !app_assoc. apply Ha. left.
        eexists. split; [reflexivity|]. apply IHp.
        cbn [flat_map] in Ht. rewrite rev_app_distr, <- app_assoc in Ht. exact Ht.
  Qed.

  Lemma hd_ok_quant : forall q rest, q = QStar -> hd_ok (vf (quant_str q) ++ rest).
  Proof. intros q rest ->. apply hd_ok_cons; discriminate. Qed.

  Lemma pseq_quant : forall q top rest a racc ralts res, nq rest ->
    pseq top rest (RRep a (quant_lo q) (quant_hi q) :: racc) ralts res ->
    pseq top (vf (quant_str q) ++ rest) (a :: racc) ralts res.
  Proof.
    intros [|] top rest a racc ralts res Hq H.
    - apply pseq_star; assumption.
    - apply pseq_quest; assumption.
  Qed.

  Lemma e_good_all : forall e, wf_print_gen gap e -> e_good e.
  Proof.
    induction e as [os IH|cs|a b IHa IHb|cl|x q IHx] using expr_ind'; intros Hwf.
    - (* EAlt *)
      apply wf_print_alt in Hwf. destruct Hwf as [Hne Hwf].
      assert (HF : Forall e_good os).
      { clear Hne. induction IH as [|o os Ho _ IHos]; [constructor|].
        inversion Hwf; subst. constructor; [apply Ho; assumption|apply IHos; assumption]. }
      destruct (alt_list_good os Hne HF) as [Lh Lp].
      repeat split.
      + intros rest Hr. rewrite e_str_alt. apply Lh. apply Hr. reflexivity.
      + intros ralts rest res Ht. rewrite e_str_alt. apply Lp. rewrite <- e_alts_alt. exact Ht.
      + intros Hna. exfalso. eapply Hna. reflexivity.
    - (* ECC *)
      cbn [wf_print_gen] in Hwf. destruct (cc_good is_ws c Hp gap cs Hwf) as [Ch Cp].
      assert (Hc : e_catp (ECC cs)).
      { intros _ top rest racc ralts res _ H. apply Cp. exact H. }
      repeat split; [|apply altp_of_catp; [intros os; discriminate|exact Hc]|exact Hc].
      intros rest _. apply Ch.
    - (* ECat *)
      cbn [wf_print_gen] in Hwf. destruct Hwf as [Hwa Hwb].
      specialize (IHa Hwa). specialize (IHb Hwb).
      pose proof IHa as (Hha & _ & _). pose proof IHb as (Hhb & _ & _).
      assert (Hh : e_hd (ECat a b)).
      { intros rest Hr. rewrite e_str_cat, vf_app, <- app_assoc.
        apply part_hd; [exact Hha|]. intros _ Ea.
        apply part_hd; [exact Hhb|]. intros _ Eb.
        apply Hr. cbn [may_empty]. rewrite Ea, Eb. reflexivity. }
      assert (Hc : e_catp (ECat a b)).
      { intros _ top rest racc ralts res Hr H.
        rewrite e_str_cat, vf_app, <- app_assoc.
        rewrite e_atoms_cat, rev_app_distr, <- app_assoc in H.
        apply part_catp; [lia|exact IHa| |].
        - apply part_hd; [exact Hhb|]. intros _ _. exact Hr.
        - apply part_catp; [lia|exact IHb|exact Hr|exact H]. }
      repeat split; [exact Hh|apply altp_of_catp; [intros os; discriminate|exact Hc]|exact Hc].
    - (* ELit *)
      cbn [wf_print_gen] in Hwf. destruct (cluster_good is_ws c Hp Hv Hws cl Hwf) as [Lh Lp].
      assert (Hc : e_catp (ELit cl)).
      { intros _ top rest racc ralts res Hr H. apply Lp; [apply hd_ok_nq; exact Hr|exact H]. }
      repeat split; [|apply altp_of_catp; [intros os; discriminate|exact Hc]|exact Hc].
      intros rest Hr. apply Lh. intros ->. apply Hr. reflexivity.
    - (* ERep *)
      cbn [wf_print_gen] in Hwf. destruct Hwf as [Hwx Hq].
      specialize (IHx Hwx). pose proof IHx as (Hhx & Hax & Hcx).
      (* the ungrouped operand is one atom, needs nothing about what follows, and is not empty *)
      assert (Hun : needs_group c 3 x = false ->
                (forall rest, hd_ok (vf (e_str c x) ++ rest)) /\
                exists y, e_atoms c x = [y] /\
                  forall top rest racc ralts res,
                    (q = QStar \/ match x with ERep _ _ => False | _ => True end) ->
                    pseq top (vf (quant_str q) ++ rest) (y :: racc) ralts res ->
                    pseq top (vf (e_str c x) ++ vf (quant_str q) ++ rest) racc ralts res).
      { intros Eg. destruct x as [os|cs|a b|cl|x' q'].
        - rewrite needs_group_alt in Eg by lia. discriminate.
        - split; [intros rest; apply Hhx; discriminate|].
          eexists. split; [reflexivity|]. intros top rest racc ralts res _ H.
          cbn [wf_print_gen] in Hwx.
          apply (cc_good is_ws c Hp gap cs Hwx). exact H.
        - discriminate Eg.
        - unfold needs_group in Eg. cbn [precedence] in Eg.
          change (Nat.ltb 2 3) with true in Eg. cbn [andb] in Eg. apply negb_false_iff in Eg.
          cbn [wf_print_gen] in Hwx.
          destruct (single_lit_shape cl Hwx Eg) as (y & -> & Hy).
          split.
          + intros rest. apply Hhx. discriminate.
          + exists (RLit y). split; [reflexivity|].
            intros top rest racc ralts res _ H.
            change (e_str c (ELit [G [[y]] [] 1%N 1%N])) with (lit_str c [G [[y]] [] 1%N 1%N]).
            rewrite lit_str_single. apply (pseq_tstr is_ws c Hp); [exact Hy|exact H].
        - split; [intros rest; apply Hhx; discriminate|].
          eexists. split; [reflexivity|]. intros top rest racc ralts res Hcase H.
          assert (Eq : q = QStar) by (destruct Hcase as [?|[]]; assumption). subst q.
          apply Hcx; [intros os; discriminate|apply hd_ok_cons; discriminate|exact H]. }
      assert (Hcase : q = QStar \/ match x with ERep _ _ => False | _ => True end).
      { destruct q; [left; reflexivity|right; apply Hq; reflexivity]. }
      assert (Hh : e_hd (ERep x q)).
      { intros rest _. rewrite e_str_rep, vf_app, <- app_assoc. unfold part.
        destruct (needs_group c 3 x) eqn:Eg; [apply grp_hd; exact Hhx|].
        apply (proj1 (Hun eq_refl)). }
      assert (Hc : e_catp (ERep x q)).
      { intros _ top rest racc ralts res Hr H.
        rewrite e_str_rep, vf_app, <- app_assoc. rewrite e_atoms_rep in H. cbn [rev app] in H.
        unfold part. destruct (needs_group c 3 x) eqn:Eg.
        - apply grp_catp; [exact Hhx|exact Hax|].
          apply pseq_quant; [apply hd_ok_nq; exact Hr|exact H].
        - destruct (Hun eq_refl) as (_ & y & Ey & Hpy). rewrite Ey in H. cbn [hd] in H.
          apply Hpy; [exact Hcase|].
          apply pseq_quant; [apply hd_ok_nq; exact Hr|exact H]. }
      repeat split; [exact Hh|apply altp_of_catp; [intros os; discriminate|exact Hc]|exact Hc].
  Qed.
End Expr.
