(* LEFTMOST-FIRST SEARCH on the printed pattern, CONVERSE direction (property C08, known finding K2).

   PrioSearch.find_first_prefix_free: no $, t in the language of e, no proper prefix of t in the
   language  ==>  `find` reports (0, |t|).
   Here: EVERY failure of the reported span lies in K2's class:

   a. find_first_from_zero                 t in the language, no $: find reports (0, j0) for some
                                           j0 <= |t| with the prefix of length j0 in the language.
   b. find_first_not_whole_K2              t in the language, no $, find does not report (0, |t|)
                                           ==> some PROPER prefix of t is in the language of e.
   c. find_first_whole_iff                 packaged: prefix-free ==> whole; not whole ==> witness.
   d. find_first_reports_prefix_in_language  no $: a reported span (0, j) is a word of the language.
   e. find_first_caret_start               with ^ every reported span starts at 0;
      find_first_caret_reports_prefix      hence with ^ and no $, every reported span is a prefix
                                           of t in the language.
   No classical logic, no decidability of the language.  No existing file is modified. *)
From Grex Require Import Base.Str Model.Config Model.Expr.
From Grex Require Import Engine.Syntax Engine.Sem Engine.Exec Engine.Prio.
From Grex Require Import Proofs.Lang Proofs.PrintParseDefs Proofs.ExecSound Proofs.SearchProps
  Proofs.PrioSound Proofs.PrioSearch.

Section PK2.
  Variable lit_den cls_den : cp -> cp -> Prop.
  Variable lit_b cls_b : cp -> cp -> bool.
  Variable range_b : cp -> cp -> cp -> bool.
  Hypothesis lit_spec : forall c x, lit_b c x = true <-> lit_den c x.
  Hypothesis cls_spec : forall l x, cls_b l x = true <-> cls_den l x.
  Hypothesis range_spec : forall lo hi x,
    range_b lo hi x = true <-> exists c, (lo <= c)%N /\ (c <= hi)%N /\ lit_den c x.

  Local Notation FF := (find_first lit_b cls_b range_b).
  Local Notation M := (m lit_den cls_den).
  Local Notation Le := (L_expr lit_den cls_den).

  (* a. a test case in the language, pattern without $: the search reports a span starting at 0
        whose end j0 is within t and cuts a prefix that is itself in the language *)
  Theorem find_first_from_zero : forall c (gap : Prop) (e : expr) (t : str),
    printable c -> (gap -> forall c0 x, surrogate c0 -> ~ lit_den c0 x) ->
    wf_print_gen gap e -> f_no_end c = true ->
    Le e t ->
    exists j0, FF t (top_rast c e) = Some (0, j0) /\ j0 <= length t /\ Le e (firstn j0 t).
  Proof.
    intros c gap e t Hp Hg Hwf Hne Hfull.
    pose proof (top_prefix_lang lit_den cls_den c Hp gap Hg e Hwf Hne t) as HT.
    assert (Hm : M t (top_rast c e) 0 (length t)).
    { apply (HT (length t) (le_n _)). rewrite firstn_all. exact Hfull. }
    destruct (find_first_complete lit_den cls_den lit_b cls_b range_b lit_spec cls_spec range_spec
                t (top_rast c e) 0 (length t) Hm (least_start_0 lit_den cls_den t (top_rast c e)))
      as (j0 & Hf & Hm0).
    pose proof (m_le lit_den cls_den t (top_rast c e) 0 j0 Hm0) as Hb.
    assert (Hj : j0 <= length t) by lia.
    exists j0. split; [exact Hf|]. split; [exact Hj|].
    apply (HT j0 Hj). exact Hm0.
  Qed.

  (* b. every failure of the reported span is in K2's class *)
  Theorem find_first_not_whole_K2 : forall c (gap : Prop) (e : expr) (t : str),
    printable c -> (gap -> forall c0 x, surrogate c0 -> ~ lit_den c0 x) ->
    wf_print_gen gap e -> f_no_end c = true ->
    L_expr lit_den cls_den e t ->
    find_first lit_b cls_b range_b t (top_rast c e) <> Some (0, length t) ->
    exists p, proper_prefix p t /\ L_expr lit_den cls_den e p.
  Proof.
    intros c gap e t Hp Hg Hwf Hne Hfull Hnw.
    destruct (find_first_from_zero c gap e t Hp Hg Hwf Hne Hfull) as (j0 & Hf & Hj & HL).
    assert (Hlt : j0 < length t).
    { destruct (Nat.eq_dec j0 (length t)) as [E|NE]; [|lia].
      exfalso. apply Hnw. rewrite Hf, E. reflexivity. }
    exists (firstn j0 t). split; [exact (proper_prefix_firstn t j0 Hlt)|exact HL].
  Qed.

  (* ... with the reported span made explicit: the witness is the reported prefix itself *)
  Theorem find_first_not_whole_K2_span : forall c (gap : Prop) (e : expr) (t : str),
    printable c -> (gap -> forall c0 x, surrogate c0 -> ~ lit_den c0 x) ->
    wf_print_gen gap e -> f_no_end c = true ->
    L_expr lit_den cls_den e t ->
    find_first lit_b cls_b range_b t (top_rast c e) <> Some (0, length t) ->
    exists j0, find_first lit_b cls_b range_b t (top_rast c e) = Some (0, j0)
      /\ j0 < length t
      /\ proper_prefix (firstn j0 t) t /\ L_expr lit_den cls_den e (firstn j0 t).
  Proof.
    intros c gap e t Hp Hg Hwf Hne Hfull Hnw.
    destruct (find_first_from_zero c gap e t Hp Hg Hwf Hne Hfull) as (j0 & Hf & Hj & HL).
    assert (Hlt : j0 < length t).
    { destruct (Nat.eq_dec j0 (length t)) as [E|NE]; [|lia].
      exfalso. apply Hnw. rewrite Hf, E. reflexivity. }
    exists j0. split; [exact Hf|]. split; [exact Hlt|].
    split; [exact (proper_prefix_firstn t j0 Hlt)|exact HL].
  Qed.

  (* c. packaged: prefix-free ==> whole;  not whole ==> K2 witness;  and (decidable equality of
        the reported option) whole \/ K2 witness *)
  Theorem find_first_whole_iff : forall c (gap : Prop) (e : expr) (t : str),
    printable c -> (gap -> forall c0 x, surrogate c0 -> ~ lit_den c0 x) ->
    wf_print_gen gap e -> f_no_end c = true ->
    L_expr lit_den cls_den e t ->
    ((forall p, proper_prefix p t -> ~ L_expr lit_den cls_den e p) ->
       find_first lit_b cls_b range_b t (top_rast c e) = Some (0, length t))
    /\ (find_first lit_b cls_b range_b t (top_rast c e) <> Some (0, length t) ->
          exists p, proper_prefix p t /\ L_expr lit_den cls_den e p)
    /\ (find_first lit_b cls_b range_b t (top_rast c e) = Some (0, length t)
        \/ exists p, proper_prefix p t /\ L_expr lit_den cls_den e p).
  Proof.
    intros c gap e t Hp Hg Hwf Hne Hfull. split; [|split].
    - intros Hpf.
      exact (find_first_prefix_free lit_den cls_den lit_b cls_b range_b lit_spec cls_spec range_spec
               c gap e t Hp Hg Hwf Hne Hfull Hpf).
    - exact (find_first_not_whole_K2 c gap e t Hp Hg Hwf Hne Hfull).
    - destruct (find_first_from_zero c gap e t Hp Hg Hwf Hne Hfull) as (j0 & Hf & Hj & HL).
      destruct (Nat.eq_dec j0 (length t)) as [E|NE].
      + left. rewrite Hf, E. reflexivity.
      + right. exists (firstn j0 t). split; [apply proper_prefix_firstn; lia|exact HL].
  Qed.

  (* d. without $, a reported span starting at 0 is a word of the language of e
        (t itself need not be in the language) *)
  Theorem find_first_reports_prefix_in_language : forall c (gap : Prop) (e : expr) (t : str) i j,
    printable c -> (gap -> forall c0 x, surrogate c0 -> ~ lit_den c0 x) ->
    wf_print_gen gap e -> f_no_end c = true ->
    find_first lit_b cls_b range_b t (top_rast c e) = Some (i, j) -> i = 0 ->
    j <= length t /\ L_expr lit_den cls_den e (firstn j t).
  Proof.
    intros c gap e t i j Hp Hg Hwf Hne Hf Hi. subst i.
    destruct (find_first_spec lit_den cls_den lit_b cls_b range_b lit_spec cls_spec range_spec
                t (top_rast c e) 0 j Hf) as [Hm _].
    pose proof (m_le lit_den cls_den t (top_rast c e) 0 j Hm) as Hb.
    assert (Hj : j <= length t) by lia.
    split; [exact Hj|].
    apply (top_prefix_lang lit_den cls_den c Hp gap Hg e Hwf Hne t j Hj). exact Hm.
  Qed.

  (* e. with ^, every reported span starts at 0 (no well-formedness hypothesis needed) *)
  Theorem find_first_caret_start : forall c (e : expr) (t : str) i j,
    f_no_start c = false ->
    find_first lit_b cls_b range_b t (top_rast c e) = Some (i, j) -> i = 0.
  Proof.
    intros c e t i j Hns Hf.
    destruct (find_first_spec lit_den cls_den lit_b cls_b range_b lit_spec cls_spec range_spec
                t (top_rast c e) i j Hf) as [Hm _].
    exact (search_with_caret lit_den cls_den c e t i j Hns Hm).
  Qed.

  (* ... hence with ^ and without $, every reported span is a prefix of t in the language *)
  Theorem find_first_caret_reports_prefix : forall c (gap : Prop) (e : expr) (t : str) i j,
    printable c -> (gap -> forall c0 x, surrogate c0 -> ~ lit_den c0 x) ->
    wf_print_gen gap e -> f_no_start c = false -> f_no_end c = true ->
    find_first lit_b cls_b range_b t (top_rast c e) = Some (i, j) ->
    i = 0 /\ j <= length t /\ L_expr lit_den cls_den e (firstn j t).
  Proof.
    intros c gap e t i j Hp Hg Hwf Hns Hne Hf.
    pose proof (find_first_caret_start c e t i j Hns Hf) as Hi.
    split; [exact Hi|].
    exact (find_first_reports_prefix_in_language c gap e t i j Hp Hg Hwf Hne Hf Hi).
  Qed.
End PK2.

Check find_first_from_zero.
Check find_first_not_whole_K2.
Check find_first_not_whole_K2_span.
Check find_first_whole_iff.
Check find_first_reports_prefix_in_language.
Check find_first_caret_start.
Check find_first_caret_reports_prefix.
Print Assumptions find_first_from_zero.
Print Assumptions find_first_not_whole_K2.
Print Assumptions find_first_not_whole_K2_span.
Print Assumptions find_first_whole_iff.
Print Assumptions find_first_reports_prefix_in_language.
Print Assumptions find_first_caret_start.
Print Assumptions find_first_caret_reports_prefix.
