(* "Syntax highlighting only adds colour codes" — part 4: str::lines and indent_regexp. *)
From Grex Require Import Base.Str Model.Config Model.Cluster Model.Dfa Model.Expr Model.Print.
From Grex Require Import Proofs.ColourStripBase Proofs.ColourStripExpr Proofs.ColourStripRegexp.
From GrexGen Require Import SrcConsts.
Local Open Scope N_scope.

(* ---------- a structural version of split_nl ---------- *)
Fixpoint splitnl (s : str) : list str :=
  match s with
  | [] => [[]]
  | x :: s' =>
      if N.eqb x 10 then [] :: splitnl s'
      else match splitnl s' with
           | l :: ls => (x :: l) :: ls
           | [] => [[x]]
           end
  end.

Lemma splitnl_nonnil : forall s, splitnl s <> [].
Proof.
  intros s. destruct s as [|x s]; simpl; [discriminate|].
  destruct (N.eqb x 10); [discriminate|]. destruct (splitnl s); discriminate.
Qed.

Lemma split_nl_eq : forall s cur,
    split_nl s cur = (rev cur ++ hd [] (splitnl s)) :: tl (splitnl s).
Proof.
  induction s as [|x s IH]; intros cur.
  - simpl. rewrite app_nil_r. reflexivity.
  - cbn [split_nl splitnl]. change c_nl with 10. destruct (N.eqb x 10).
    + rewrite IH. simpl. rewrite app_nil_r.
      pose proof (splitnl_nonnil s) as N. destruct (splitnl s); [contradiction|reflexivity].
    + rewrite IH. pose proof (splitnl_nonnil s) as N.
      destruct (splitnl s) as [|l ls]; [contradiction|]. simpl.
      rewrite <- app_assoc. reflexivity.
Qed.

Lemma splitnl_app_nonl : forall (t s : str), Forall (fun x => x <> 10) t ->
    splitnl (t ++ s) = (t ++ hd [] (splitnl s)) :: tl (splitnl s).
Proof.
  induction t as [|x t IH]; intros s H.
  - simpl. pose proof (splitnl_nonnil s) as N. destruct (splitnl s); [contradiction|reflexivity].
  - inversion H as [|x0 t0 Hx Ht]; subst. simpl app. cbn [splitnl].
    destruct (N.eqb_spec x 10) as [E|E]; [contradiction|].
    rewrite (IH s Ht). reflexivity.
Qed.

Lemma code_no_nl : forall code, code_ok code -> Forall (fun x => x <> 10) code.
Proof.
  intros code [d1 d2 E N1 N2 D1 D2]. subst code.
  assert (D : forall d, forallb is_dig d = true -> Forall (fun x => x <> 10) d).
  { intros d Hd. rewrite forallb_forall in Hd. apply Forall_forall. intros x Hx.
    specialize (Hd x Hx). unfold is_dig in Hd. apply andb_true_iff in Hd.
    destruct Hd as [H1 _]. apply N.leb_le in H1. lia. }
  apply Forall_app. split; [apply D; exact D1|].
  constructor; [discriminate|apply D; exact D2].
Qed.

Lemma wrap_no_nl : forall code tok, code_ok code -> tok_ok tok ->
    Forall (fun x => x <> 10) (wrap code tok).
Proof.
  intros code tok Hc [_ Ht]. unfold wrap.
  repeat (apply Forall_app; split).
  - repeat constructor; discriminate.
  - apply code_no_nl. exact Hc.
  - repeat constructor; discriminate.
  - eapply Forall_impl; [|exact Ht]. intros x [_ [H _]]. exact H.
  - repeat constructor; discriminate.
Qed.

Lemma splitnl_CP : forall cs ps, CP cs ps -> Forall2 CP (splitnl cs) (splitnl ps).
Proof.
  intros cs ps H. induction H as [|x cs ps Hx H IH|cs ps H IH|code tok cs ps Hc Ht H IH].
  - simpl. constructor; constructor.
  - cbn [splitnl]. destruct (N.eqb x 10).
    + constructor; [constructor|exact IH].
    + inversion IH; subst.
      * constructor; [|constructor]. apply CP_char; [exact Hx|constructor].
      * constructor; [|assumption]. apply CP_char; assumption.
  - cbn [splitnl]. change (N.eqb 92 10) with false. change (N.eqb 91 10) with false. cbv iota.
    inversion IH; subst.
    + constructor; [|constructor]. apply CP_bs. constructor.
    + constructor; [|assumption]. apply CP_bs. assumption.
  - rewrite (splitnl_app_nonl (wrap code tok) cs) by (apply wrap_no_nl; assumption).
    rewrite (splitnl_app_nonl tok ps).
    2:{ destruct Ht as [_ Ht]. eapply Forall_impl; [|exact Ht]. intros x [_ [H1 _]]. exact H1. }
    inversion IH; subst.
    + simpl. constructor; [|constructor]. apply CP_tok; try assumption. constructor.
    + simpl. constructor; [|assumption]. apply CP_tok; assumption.
Qed.

(* ---------- str::lines on the list of pieces ---------- *)
(* pieces terminated by a line break lose one trailing CR; the unterminated last piece is kept
   as it is and dropped when empty *)
Definition lines_of (ls : list str) : list str :=
  match rev ls with
  | [] => []
  | last :: r => map strip_cr (rev r) ++ (match last with [] => [] | _ => [last] end)
  end.

Lemma Forall2_rev {A B} (R : A -> B -> Prop) : forall l1 l2,
    Forall2 R l1 l2 -> Forall2 R (rev l1) (rev l2).
Proof.
  induction 1; simpl.
  - constructor.
  - apply Forall2_app; [assumption|]. constructor; [assumption|constructor].
Qed.

Lemma Forall2_map_both {A B} (R : B -> B -> Prop) (f : A -> B) (R0 : A -> A -> Prop) :
  (forall x y, R0 x y -> R (f x) (f y)) ->
  forall l1 l2, Forall2 R0 l1 l2 -> Forall2 R (map f l1) (map f l2).
Proof. intros H l1 l2 F. induction F; simpl; constructor; auto. Qed.

(* a property of all pieces that survives strip_cr holds of all lines *)
Lemma lines_of_Forall : forall (P : str -> Prop) ls,
    (forall l, P l -> P (strip_cr l)) -> Forall P ls -> Forall P (lines_of ls).
Proof.
  intros P ls HP H. unfold lines_of. apply Forall_rev in H.
  destruct (rev ls) as [|last r]; [constructor|].
  inversion H as [|x0 l0 Hlast Hr]; subst. apply Forall_app. split.
  - apply Forall_forall. intros l Hl. apply in_map_iff in Hl. destruct Hl as [l0 [E Hl0]].
    subst l. apply HP. apply Forall_rev in Hr. rewrite Forall_forall in Hr. apply Hr. exact Hl0.
  - destruct last; [constructor|]. constructor; [exact Hlast|constructor].
Qed.

(* ---------- strip_cr ---------- *)
Fixpoint scr (l : str) : str :=
  match l with
  | [] => []
  | [x] => if N.eqb x 13 then [] else [x]
  | x :: l' => x :: scr l'
  end.

Lemma scr_snoc : forall l x, scr (l ++ [x]) = if N.eqb x 13 then l else l ++ [x].
Proof.
  induction l as [|y l IH]; intros x.
  - reflexivity.
  - simpl app. destruct (l ++ [x]) as [|z r] eqn:E.
    + destruct l; discriminate.
    + change (scr (y :: z :: r)) with (y :: scr (z :: r)). rewrite <- E. rewrite IH.
      destruct (N.eqb x 13); reflexivity.
Qed.

Lemma strip_cr_scr : forall l, strip_cr l = scr l.
Proof.
  intros l. destruct (rev l) as [|x r] eqn:E.
  - unfold strip_cr. rewrite E. destruct l; [reflexivity|].
    apply (f_equal (@rev cp)) in E. rewrite rev_involutive in E. discriminate.
  - assert (L : l = rev r ++ [x]).
    { apply (f_equal (@rev cp)) in E. rewrite rev_involutive in E. exact E. }
    unfold strip_cr. rewrite E. change c_cr with 13. rewrite L. rewrite scr_snoc.
    reflexivity.
Qed.

Lemma scr_cons2 : forall x y l, scr (x :: y :: l) = x :: scr (y :: l).
Proof. reflexivity. Qed.

Lemma scr_app_nonnil : forall (a s : str), s <> [] -> scr (a ++ s) = a ++ scr s.
Proof.
  induction a as [|x a IH]; intros s H.
  - reflexivity.
  - simpl app. destruct (a ++ s) as [|z r] eqn:E.
    + apply app_eq_nil in E. destruct E as [_ E]. contradiction.
    + rewrite scr_cons2. rewrite <- E. rewrite IH by exact H. reflexivity.
Qed.

Lemma scr_no_cr_end : forall (a : str) x, x <> 13 -> scr (a ++ [x]) = a ++ [x].
Proof.
  intros a x H. rewrite scr_snoc. destruct (N.eqb_spec x 13); [contradiction|reflexivity].
Qed.

Lemma scr_no_cr : forall s : str, Forall (fun x => x <> 13) s -> scr s = s.
Proof.
  intros s H. destruct (rev s) as [|x r] eqn:E.
  - destruct s; [reflexivity|].
    apply (f_equal (@rev cp)) in E. rewrite rev_involutive in E. discriminate.
  - assert (L : s = rev r ++ [x]).
    { apply (f_equal (@rev cp)) in E. rewrite rev_involutive in E. exact E. }
    rewrite L. apply scr_no_cr_end. rewrite L in H. apply Forall_app in H.
    destruct H as [_ H]. inversion H; assumption.
Qed.

Lemma wrap_snoc : forall code tok,
    wrap code tok = ([ESC; 91] ++ code ++ [109] ++ tok ++ [ESC; 91; 48]) ++ [109].
Proof.
  intros. unfold wrap. rewrite <- !app_assoc. reflexivity.
Qed.

Lemma scr_CP : forall cs ps, CP cs ps -> CP (scr cs) (scr ps).
Proof.
  intros cs ps H. induction H as [|x cs ps Hx H IH|cs ps H IH|code tok cs ps Hc Ht H IH].
  - constructor.
  - pose proof (CP_nil_iff _ _ H) as [N1 N2].
    destruct cs as [|a cs]; destruct ps as [|b ps].
    + simpl. destruct (N.eqb x 13); [constructor|]. apply CP_char; [exact Hx|constructor].
    + specialize (N1 eq_refl). discriminate.
    + specialize (N2 eq_refl). discriminate.
    + rewrite !scr_cons2. apply CP_char; [exact Hx|exact IH].
  - pose proof (CP_nil_iff _ _ H) as [N1 N2].
    destruct cs as [|a cs]; destruct ps as [|b ps].
    + simpl. apply CP_bs. constructor.
    + specialize (N1 eq_refl). discriminate.
    + specialize (N2 eq_refl). discriminate.
    + rewrite !scr_cons2. apply CP_bs. exact IH.
  - pose proof (CP_nil_iff _ _ H) as [N1 N2].
    destruct cs as [|a cs]; destruct ps as [|b ps].
    + rewrite !app_nil_r. rewrite wrap_snoc. rewrite scr_no_cr_end by discriminate.
      rewrite <- wrap_snoc. rewrite scr_no_cr.
      2:{ destruct Ht as [_ Ht]. eapply Forall_impl; [|exact Ht]. intros y [_ [_ Y]]. exact Y. }
      rewrite <- (app_nil_r (wrap code tok)). rewrite <- (app_nil_r tok) at 2.
      apply CP_tok; assumption.
    + specialize (N1 eq_refl). discriminate.
    + specialize (N2 eq_refl). discriminate.
    + rewrite !scr_app_nonnil by discriminate. apply CP_tok; assumption.
Qed.

Lemma lines_eq : forall s, lines s = lines_of (splitnl s).
Proof.
  intros s. unfold lines, lines_of. rewrite split_nl_eq. simpl rev at 2. simpl app.
  pose proof (splitnl_nonnil s) as N. destruct (splitnl s) as [|l ls]; [contradiction|].
  reflexivity.
Qed.

Lemma lines_of_CP : forall lc lp, Forall2 CP lc lp -> Forall2 CP (lines_of lc) (lines_of lp).
Proof.
  intros lc lp H. unfold lines_of.
  pose proof (Forall2_rev CP _ _ H) as Hr.
  destruct Hr as [|xc xp rc rp Hx Hr]; [constructor|].
  apply Forall2_app.
  - apply (Forall2_map_both CP strip_cr CP).
    + intros x y Hxy. rewrite !strip_cr_scr. apply scr_CP. exact Hxy.
    + apply Forall2_rev. exact Hr.
  - pose proof (CP_nil_iff _ _ Hx) as [N1 N2].
    destruct xc as [|a xc]; destruct xp as [|b xp].
    + constructor.
    + specialize (N1 eq_refl). discriminate.
    + specialize (N2 eq_refl). discriminate.
    + constructor; [exact Hx|constructor].
Qed.

Theorem lines_CP : forall cs ps, CP cs ps -> Forall2 CP (lines cs) (lines ps).
Proof.
  intros cs ps H. rewrite !lines_eq. apply lines_of_CP. apply splitnl_CP. exact H.
Qed.

(* ---------- indentation ---------- *)
(* the four tests that indent_lines performs on a stripped line *)
Definition tests (q : str) : bool * bool * bool * bool :=
  (str_eqb q [36], starts_with [41] q, str_eqb q [94], starts_with [40] q).

(* a plain line is decision-stable when stripping it does not change the tests *)
Definition dstable (isd : cp -> bool) (pl : str) : Prop := tests (strip_sgr isd pl) = tests pl.

Lemma dstable_elim : forall isd pl, dstable isd pl ->
    str_eqb (strip_sgr isd pl) [36] = str_eqb pl [36] /\
    starts_with [41] (strip_sgr isd pl) = starts_with [41] pl /\
    str_eqb (strip_sgr isd pl) [94] = str_eqb pl [94] /\
    starts_with [40] (strip_sgr isd pl) = starts_with [40] pl.
Proof.
  intros isd pl H. unfold dstable, tests in H. injection H as T1 T2 T3 T4. tauto.
Qed.

Lemma repeat_str_CP : forall n, CP (repeat_str n [c_space; c_space]) (repeat_str n [c_space; c_space]).
Proof.
  induction n as [|n IH]; simpl.
  - constructor.
  - apply CP_char; [discriminate|]. apply CP_char; [discriminate|]. exact IH.
Qed.

Lemma indent_lines_CP : forall isd c, digit_ok isd ->
    forall lc lp, Forall2 CP lc lp -> Forall (dstable isd) lp ->
    forall i level,
      Forall2 CP (indent_lines isd (with_colour c true) lc i level)
                 (indent_lines isd (with_colour c false) lp i level).
Proof.
  intros isd c Hd lc lp H. induction H as [|xc xp lc lp Hx Hl IH]; intros Hs i level.
  - constructor.
  - inversion Hs as [|x0 l0 Hs1 Hs2]; subst.
    cbn [indent_lines].
    change (f_no_start (with_colour c true)) with (f_no_start c).
    change (f_no_start (with_colour c false)) with (f_no_start c).
    set (lv := if (Nat.eqb i 1 && f_no_start c)%bool then S level else level).
    pose proof (CP_nil_iff _ _ Hx) as [N1 N2].
    destruct xc as [|a xc]; destruct xp as [|b xp].
    + apply IH. exact Hs2.
    + specialize (N1 eq_refl). discriminate.
    + specialize (N2 eq_refl). discriminate.
    + rewrite (strip_CP isd Hd _ _ Hx).
      destruct (dstable_elim _ _ Hs1) as [T1 [T2 [T3 T4]]].
      rewrite T1, T2, T3, T4.
      constructor.
      * apply CP_app; [apply repeat_str_CP|exact Hx].
      * apply IH. exact Hs2.
Qed.

Theorem indent_regexp_CP : forall isd c cs ps, digit_ok isd -> CP cs ps ->
    Forall (dstable isd) (lines ps) ->
    CP (indent_regexp isd (with_colour c true) cs) (indent_regexp isd (with_colour c false) ps).
Proof.
  intros isd c cs ps Hd H Hs. unfold indent_regexp.
  apply CP_join; [apply CP_nl|]. apply indent_lines_CP; [exact Hd| |exact Hs].
  apply lines_CP. exact H.
Qed.

(* ---------- the general theorem: all modes, under decision stability of the plain lines ---------- *)
Theorem regexp_str_CP_gen : forall isd c e, digit_ok isd ->
    (f_verbose c = true -> Forall (dstable isd) (lines (re_v (with_colour c false) e))) ->
    CP (regexp_str isd (with_colour c true) e) (regexp_str isd (with_colour c false) e).
Proof.
  intros isd c e Hd Hs. destruct (f_verbose c) eqn:Hv.
  - rewrite !regexp_str_eq.
    change (f_verbose (with_colour c true)) with (f_verbose c).
    change (f_verbose (with_colour c false)) with (f_verbose c).
    rewrite Hv. apply indent_regexp_CP; [exact Hd|apply re_v_CP|apply Hs; reflexivity].
  - apply regexp_str_CP_nonverbose. exact Hv.
Qed.

Theorem strip_regexp_str_gen : forall isd c e, digit_ok isd ->
    (f_verbose c = true -> Forall (dstable isd) (lines (re_v (with_colour c false) e))) ->
    strip_sgr isd (regexp_str isd (with_colour c true) e) = regexp_str isd (with_colour c false) e.
Proof.
  intros isd c e Hd Hs. apply strip_CP; [exact Hd|]. apply regexp_str_CP_gen; assumption.
Qed.
